/- Obligations over the SOURCE TRANSLATION, second part: the program semantics in which every operation is the
   TRANSLATED source of the working tree (`progSrc`) coincides with the Core program model, so the refinement theorems
   of C19 (value AND evaluation log of every element of every program) speak about the translated code. -/
import MenpoModel.GenProps.C19Src
import MenpoModel.Props.C19Reads
import MenpoModel.Props.C19Import
set_option linter.unusedSimpArgs false

namespace MenpoModel.GenProps.C19Src
open MenpoModel.LazyList MenpoModel.PyData MenpoModel.Generated.C19Src MenpoModel.Py

/-- the file system of a `Prog.glob` leaf: the sorted listing is the model's input, nothing is shuffled -/
def worldOf (files : List FileEnt) : GlobWorld := { listing := fun _ => files, shuffled := id }

def callablesOfGlob : Except Err GlobRes → Except Err (List LThunk)
  | .ok (.list l) => .ok l.callables
  | .ok (.gen ts) => .ok ts
  | .error e => .error e

def listOf : Except Err GetRes → Except Err (List LThunk)
  | .ok (.list l) => .ok l.callables
  | .ok (.value _) => .error .type
  | .error e => .error e

/-- the lazy list a program builds WHEN EVERY OPERATION IS THE TRANSLATED SOURCE of the working tree -/
def progSrc : Prog → Except Err (List LThunk)
  | .base b n => mapE LL.callables (genInitFromIndexCallable (.base b) n)
  | .map f p => bindE (progSrc p) fun ts => mapE LL.callables (genMap ⟨ts⟩ (MArg.single f))
  | .mapEach fs p => bindE (progSrc p) fun ts => mapE LL.callables (genMap ⟨ts⟩ (MArg.ofList fs))
  | .select sel p => bindE (progSrc p) fun ts => listOf (genGetitem ⟨ts⟩ (GArg.ofSel sel))
  | .rep n p => mapE (fun ts => (genRepeat ⟨ts⟩ n).callables) (progSrc p)
  | .add p q => bindE (progSrc p) fun a => bindE (progSrc q) fun b =>
      mapE LL.callables (genAdd 2 ⟨a⟩ (AArg.ofLL ⟨b⟩))
  | .addPlain p vs => bindE (progSrc p) fun a => mapE LL.callables (genAdd 2 ⟨a⟩ (AArg.ofList vs))
  | .copy p => mapE (fun ts => (genCopy ⟨ts⟩).callables) (progSrc p)
  | .iter f vs => mapE LL.callables (genInitFromIterable vs (PFn.ofOpt f))
  | .glob r known files max =>
      callablesOfGlob (genImportGlob (worldOf files) () known max r false false true true () false)

theorem importGlobFull_glob (files : List FileEnt) (known : List Nat) (max : Option Int) (r : Option Nat) :
    callablesOfGlob (importGlobFull (worldOf files) known max r true true false false)
      = mapE (List.map (importThunk known r)) (optE (globPaths known files max)) := by
  unfold importGlobFull globPaths worldOf
  simp only [Bool.false_eq_true, if_false]
  cases capAssets max (globWithSuffix known files) with
  | none => rfl
  | some fp =>
    by_cases h : fp.length = 0
    · simp [h, callablesOfGlob, optE, mapE]
    · simp [h, callablesOfGlob, optE, mapE, importThunkSrc]

/-- every program denotes the same lazy list whether its operations are the Core model's or the translated source -/
theorem progSrc_eq_lazy (p : Prog) : progSrc p = p.lazy := by
  induction p with
  | base b n => simp [progSrc, Prog.lazy, genInitFromIndexCallable_eq, initIndexFull, mapE]
  | map f p ih =>
    simp only [progSrc, Prog.lazy, ih, genMap_eq, mapFull_single]
    cases p.lazy <;> rfl
  | mapEach fs p ih =>
    simp only [progSrc, Prog.lazy, ih, genMap_eq, mapFull_list]
    cases p.lazy with
    | error e => rfl
    | ok ts => simp only [bindE]; split <;> rfl
  | select sel p ih =>
    simp only [progSrc, Prog.lazy, ih, genGetitem_eq, getitemFull_sel]
    cases p.lazy with
    | error e => rfl
    | ok ts => simp only [bindE]; cases sel.resolve ts.length <;> rfl
  | rep n p ih =>
    simp only [progSrc, Prog.lazy, ih, genRepeat_eq, repeatFull, repCount]
    cases p.lazy <;> simp [mapE]
  | add p q ihp ihq =>
    simp only [progSrc, Prog.lazy, ihp, ihq, genAdd_eq, addFull, AArg.ofLL]
    cases p.lazy <;> cases q.lazy <;> rfl
  | addPlain p vs ih =>
    simp only [progSrc, Prog.lazy, ih, genAdd_eq, addFull, AArg.ofList]
    cases p.lazy <;> rfl
  | copy p ih =>
    simp only [progSrc, Prog.lazy, ih, genCopy_eq, copyFull]
    cases p.lazy <;> rfl
  | iter f vs =>
    simp only [progSrc, Prog.lazy, genInitFromIterable_eq]
    cases f <;> simp [PFn.ofOpt, initIterFull, mapE, iterThunk]
  | glob r known files max =>
    simp only [progSrc, Prog.lazy, genImportGlob_eq, importGlobFull_glob]

/-- PROPERTY (faithful AND lazy, about the translated source): for every program, to any depth, the list built by the
TRANSLATED `LazyList` methods and importer functions has, element by element, exactly the value and the evaluation
log of the ordinary list with provenance — errors included -/
theorem src_refines_listLog (e : Env) (p : Prog) :
    mapE (List.map (LThunk.evalLog e)) (progSrc p) = p.refLog e := by
  rw [progSrc_eq_lazy]; exact lazy_refines_listLog e p

theorem src_refines_list (e : Env) (p : Prog) : mapE (List.map (LThunk.eval e)) (progSrc p) = p.ref e := by
  rw [progSrc_eq_lazy]; exact lazy_refines_list e p

/-- PROPERTY (reads of the translated `__getitem__`): an integer index evaluates exactly the chain `readAt` logs -/
theorem src_getitem_int (e : Env) (s : LL) (i : Int) :
    readAt e s.callables i = match genGetitem s (GArg.ofInt i) with
      | .ok (.value t) => (.ok (t.evalLog e).1, (t.evalLog e).2)
      | .ok (.list _) => (.error .type, [])
      | .error x => (.error x, []) := by
  rw [genGetitem_eq]; exact getitemFull_readAt e s i

/-- the translated `delayed` is what evaluating a mapped element means -/
theorem src_delayed_eval (e : Env) (f : Nat) (t : LThunk) :
    genDelayed e (fun _ => false) f t = ((.ok ((LThunk.app f t).evalLog e).1), ((LThunk.app f t).evalLog e).2) := by
  rw [genDelayed_eq]
  exact evalLogX_callable e (fun _ => false) (.app f t) (fun _ _ => rfl)

/-- PROPERTY (`import_video` with a landmark resolver, from the translated `_import_lazylist_attach_landmarks` and
`map`): frame `i` of the returned list is the reader's frame `i` wrapped by the resolver of frame `i` — the
`videoFrames` program of the model -/
theorem src_video_frames (b n r : Nat) :
    mapE (List.map LL.callables) (genAttachLazy [⟨(List.range n).map (LThunk.base b)⟩] (some r) (some ()))
      = mapE (fun l => [l]) (videoFrames b n (some r)).lazy := by
  simp [genAttachLazy_eq, attachLazyFull, videoFrames, Prog.lazy, bindE, mapE]

/-- without a resolver (or without a landmark extension map) the frame list is returned as built -/
theorem src_video_frames_plain (built : List LL) (lmx : Option Unit) :
    genAttachLazy built none lmx = .ok built := by
  cases lmx <;> simp [genAttachLazy_eq, attachLazyFull]

/-- one heap operation computed by the TRANSLATED source (operands are addresses of list objects) -/
def opValueSrc (h : Heap) : HOp → Except Err (List LThunk)
  | .base b n => mapE LL.callables (genInitFromIndexCallable (.base b) n)
  | .map f a => match h[a]? with
    | some ts => mapE LL.callables (genMap ⟨ts⟩ (MArg.single f))
    | none => .error .index
  | .mapEach fs a => match h[a]? with
    | some ts => mapE LL.callables (genMap ⟨ts⟩ (MArg.ofList fs))
    | none => .error .index
  | .select sel a => match h[a]? with
    | some ts => listOf (genGetitem ⟨ts⟩ (GArg.ofSel sel))
    | none => .error .index
  | .rep n a => match h[a]? with
    | some ts => .ok (genRepeat ⟨ts⟩ n).callables
    | none => .error .index
  | .add a b => match h[a]?, h[b]? with
    | some x, some y => mapE LL.callables (genAdd 2 ⟨x⟩ (AArg.ofLL ⟨y⟩))
    | _, _ => .error .index
  | .addPlain a vs => match h[a]? with
    | some ts => mapE LL.callables (genAdd 2 ⟨ts⟩ (AArg.ofList vs))
    | none => .error .index
  | .copy a => match h[a]? with
    | some ts => .ok (genCopy ⟨ts⟩).callables
    | none => .error .index
  | .iter f vs => mapE LL.callables (genInitFromIterable vs (PFn.ofOpt f))
  | .glob r known files max =>
      callablesOfGlob (genImportGlob (worldOf files) () known max r false false true true () false)

theorem opValueSrc_eq (h : Heap) (op : HOp) : opValueSrc h op = opValue h op := by
  cases op with
  | base b n => simp [opValueSrc, opValue, genInitFromIndexCallable_eq, initIndexFull, mapE]
  | map f a => simp only [opValueSrc, opValue, genMap_eq, mapFull_single]; cases h[a]? <;> rfl
  | mapEach fs a =>
    simp only [opValueSrc, opValue, genMap_eq, mapFull_list]
    cases h[a]? with
    | none => rfl
    | some ts => simp only []; split <;> rfl
  | select sel a =>
    simp only [opValueSrc, opValue, genGetitem_eq, getitemFull_sel]
    cases h[a]? with
    | none => rfl
    | some ts => simp only []; cases sel.resolve ts.length <;> rfl
  | rep n a => simp only [opValueSrc, opValue, genRepeat_eq, repeatFull, repCount]; cases h[a]? <;> simp
  | add a b =>
    simp only [opValueSrc, opValue, genAdd_eq, addFull, AArg.ofLL]
    cases h[a]? <;> cases h[b]? <;> rfl
  | addPlain a vs => simp only [opValueSrc, opValue, genAdd_eq, addFull, AArg.ofList]; cases h[a]? <;> rfl
  | copy a => simp only [opValueSrc, opValue, genCopy_eq, copyFull]; cases h[a]? <;> rfl
  | iter f vs =>
    simp only [opValueSrc, opValue, genInitFromIterable_eq]
    cases f <;> simp [PFn.ofOpt, initIterFull, mapE, iterThunk]
  | glob r known files max => simp only [opValueSrc, opValue, genImportGlob_eq, importGlobFull_glob]

/-- a history of operations executed by the translated source: every result goes to a fresh list object -/
def hstepSrc (h : Heap) (op : HOp) : Heap :=
  match opValueSrc h op with
  | .ok ts => h ++ [ts]
  | .error _ => h

def hrunSrc (h : Heap) (ops : List HOp) : Heap := ops.foldl hstepSrc h

theorem hrunSrc_eq (h : Heap) (ops : List HOp) : hrunSrc h ops = hrun h ops := by
  have : hstepSrc = hstep := by funext h op; simp only [hstepSrc, hstep, opValueSrc_eq]; cases opValue h op <;> rfl
  simp [hrunSrc, hrun, this]

/-- FRAME THEOREM OF THE HEAP MODEL, transported to operations computed by the translated source.  `hstepSrc` stores
every result in a fresh cell BY DEFINITION: that the code does not write its operands is NOT proved here — it is tied to the
code by the `Fresh` typing discipline of the translation (only an object created by the running method can be assigned
`_callables`), by the measured receiver-write table (`receiver_writes_ok`) and by the oracle's aliased histories.
Statement: after ANY history of translated operations — operands aliased, results fed back, refused operations in
between — every list object that existed still holds the same callables, so every read of it returns the same value
and evaluates the same chain as before -/
theorem src_history_frame (e : Env) (ops : List HOp) (h : Heap) (a : Nat) (ha : a < h.length) (j : Nat) :
    (hrunSrc h ops)[a]? = h[a]? ∧
    ((hrunSrc h ops)[a]?.bind (·[j]?)).map (LThunk.evalLog e) = (h[a]?.bind (·[j]?)).map (LThunk.evalLog e) := by
  rw [hrunSrc_eq]
  exact ⟨hrun_frame ops h a ha, read_after_ops_unchanged e ops h a ha j⟩

/-- the word `partial(_import, f, …)` of the importer-list vocabulary denotes what the translated `_import` returns:
for a regular file that passed the suffix filter, the thunk the glob model stores -/
theorem genImport_thunk (w : ImportWorld) (f : FileEnt) (known : List Nat) (r : Option Nat) (lmx att asset kw : Option Unit)
    (hfile : w.isFile f = true) (hext : extOk known f = true) :
    mapE Built.t (genImport w f known r lmx att asset kw) = .ok (importThunkSrc known r lmx.isSome att.isSome f) := by
  rw [genImport_eq]
  obtain ⟨k, hk⟩ := importKind_of_extOk known f hext
  unfold importFull importThunkSrc importThunk
  simp only [hfile, Bool.not_true, Bool.false_eq_true, if_false, hk, Option.getD_some, mapE]
  cases att <;> cases r <;> cases lmx <;> simp

/-- … and refuses (ValueError) what is not a file or has no importer -/
theorem genImport_refused (w : ImportWorld) (f : FileEnt) (known : List Nat) (r : Option Nat) (lmx att asset kw : Option Unit)
    (h : w.isFile f = false ∨ importKind known f = none) :
    genImport w f known r lmx att asset kw = .error .value := by
  rw [genImport_eq]; unfold importFull
  rcases h with h | h
  · simp [h]
  · cases w.isFile f <;> simp [h]

example : progSrc prog0 = prog0.lazy := progSrc_eq_lazy prog0

end MenpoModel.GenProps.C19Src
