/- Obligations over the tables regenerated from the live code (written by harness/extract_c01.py; the text is
   constant, the tables it speaks about are not). -/
import MenpoModel.Generated.C01Tables

namespace MenpoModel.C01.GenProps
open MenpoModel.C01

/-- Image / MaskedImage / BooleanImage resolve the funnel methods and every public resampling operation as the
model assumes (only `warp_to_shape`, `warp_to_mask`, `sample` — and `_build_warp_to_mask`, `crop_to_true_mask` —
are class specific), with the defaults the model assumes -/
theorem dispatch_ok : Generated.dispatch = expectedDispatch := by decide

/-- no class has joined or left the homogeneous family, none has changed its supplier of `pseudoinverse` -/
theorem family_ok : Generated.family = expectedFamily := by decide

/-- every family class moves landmarks by a closed form that `pinv_sound` proves to be the inverse on the
matrices the class can hold -/
theorem family_sound : ∀ r ∈ Generated.family, r.ok = true := by decide

/-- the single funnel: every operation of a MaskedImage calls `warp_to_shape` exactly once, with the order /
mode / landmark arguments the plans of the model carry -/
theorem funnel_masked_ok : Generated.funnelMaskedImage = expectedFunnel := by decide +kernel

theorem funnel_image_ok :
    Generated.funnelImage = expectedFunnel.filter (fun r => r.op != "crop_to_true_mask") := by decide +kernel

theorem funnel_boolean_ok :
    Generated.funnelBooleanImage = expectedFunnel.filter (fun r => r.op != "crop_to_true_mask") := by decide +kernel

end MenpoModel.C01.GenProps
