/- Obligations over the SOURCE-TEXT translation of the labelling functions (written by harness/trans_c15.py, because
   the set of labellers is read from the live module; the proofs are the same lines for every labeller):
     nat_   the translated body commutes with every map of the points (unfold + the `…_map` lemmas of the vocabulary);
     wrong_ it refuses every input of another size with `LabellingError` (unfold). -/
import MenpoModel.Generated.C15SrcLab
import MenpoModel.GenProps.C15Src

set_option linter.unusedSimpArgs false
set_option linter.unusedVariables false
set_option maxRecDepth 8192

namespace MenpoModel.C15.GenProps.SrcLab
open MenpoModel.C15 MenpoModel.C15.Src MenpoModel.C15.SrcGen MenpoModel.C15.GenProps.Src

theorem nat_car_streetscene_20_to_car_streetscene_view_0_8 {α β : Type} (h : α → β) (xs : List α) :
    SrcLab.car_streetscene_20_to_car_streetscene_view_0_8 (xs.map h) = (SrcLab.car_streetscene_20_to_car_streetscene_view_0_8 xs).map (mapOut h) := by
  unfold SrcLab.car_streetscene_20_to_car_streetscene_view_0_8
  lab_nat_simp []

theorem wrong_car_streetscene_20_to_car_streetscene_view_0_8 {α : Type} (xs : List α) (hn : xs.length ≠ 20) : SrcLab.car_streetscene_20_to_car_streetscene_view_0_8 xs = .error .labelling := by
  unfold SrcLab.car_streetscene_20_to_car_streetscene_view_0_8
  simp only [validated_wrong xs _ hn, bind_error]

theorem nat_car_streetscene_20_to_car_streetscene_view_1_14 {α β : Type} (h : α → β) (xs : List α) :
    SrcLab.car_streetscene_20_to_car_streetscene_view_1_14 (xs.map h) = (SrcLab.car_streetscene_20_to_car_streetscene_view_1_14 xs).map (mapOut h) := by
  unfold SrcLab.car_streetscene_20_to_car_streetscene_view_1_14
  lab_nat_simp []

theorem wrong_car_streetscene_20_to_car_streetscene_view_1_14 {α : Type} (xs : List α) (hn : xs.length ≠ 20) : SrcLab.car_streetscene_20_to_car_streetscene_view_1_14 xs = .error .labelling := by
  unfold SrcLab.car_streetscene_20_to_car_streetscene_view_1_14
  simp only [validated_wrong xs _ hn, bind_error]

theorem nat_car_streetscene_20_to_car_streetscene_view_2_10 {α β : Type} (h : α → β) (xs : List α) :
    SrcLab.car_streetscene_20_to_car_streetscene_view_2_10 (xs.map h) = (SrcLab.car_streetscene_20_to_car_streetscene_view_2_10 xs).map (mapOut h) := by
  unfold SrcLab.car_streetscene_20_to_car_streetscene_view_2_10
  lab_nat_simp []

theorem wrong_car_streetscene_20_to_car_streetscene_view_2_10 {α : Type} (xs : List α) (hn : xs.length ≠ 20) : SrcLab.car_streetscene_20_to_car_streetscene_view_2_10 xs = .error .labelling := by
  unfold SrcLab.car_streetscene_20_to_car_streetscene_view_2_10
  simp only [validated_wrong xs _ hn, bind_error]

theorem nat_car_streetscene_20_to_car_streetscene_view_3_14 {α β : Type} (h : α → β) (xs : List α) :
    SrcLab.car_streetscene_20_to_car_streetscene_view_3_14 (xs.map h) = (SrcLab.car_streetscene_20_to_car_streetscene_view_3_14 xs).map (mapOut h) := by
  unfold SrcLab.car_streetscene_20_to_car_streetscene_view_3_14
  lab_nat_simp []

theorem wrong_car_streetscene_20_to_car_streetscene_view_3_14 {α : Type} (xs : List α) (hn : xs.length ≠ 20) : SrcLab.car_streetscene_20_to_car_streetscene_view_3_14 xs = .error .labelling := by
  unfold SrcLab.car_streetscene_20_to_car_streetscene_view_3_14
  simp only [validated_wrong xs _ hn, bind_error]

theorem nat_car_streetscene_20_to_car_streetscene_view_4_14 {α β : Type} (h : α → β) (xs : List α) :
    SrcLab.car_streetscene_20_to_car_streetscene_view_4_14 (xs.map h) = (SrcLab.car_streetscene_20_to_car_streetscene_view_4_14 xs).map (mapOut h) := by
  unfold SrcLab.car_streetscene_20_to_car_streetscene_view_4_14
  lab_nat_simp []

theorem wrong_car_streetscene_20_to_car_streetscene_view_4_14 {α : Type} (xs : List α) (hn : xs.length ≠ 20) : SrcLab.car_streetscene_20_to_car_streetscene_view_4_14 xs = .error .labelling := by
  unfold SrcLab.car_streetscene_20_to_car_streetscene_view_4_14
  simp only [validated_wrong xs _ hn, bind_error]

theorem nat_car_streetscene_20_to_car_streetscene_view_5_10 {α β : Type} (h : α → β) (xs : List α) :
    SrcLab.car_streetscene_20_to_car_streetscene_view_5_10 (xs.map h) = (SrcLab.car_streetscene_20_to_car_streetscene_view_5_10 xs).map (mapOut h) := by
  unfold SrcLab.car_streetscene_20_to_car_streetscene_view_5_10
  lab_nat_simp []

theorem wrong_car_streetscene_20_to_car_streetscene_view_5_10 {α : Type} (xs : List α) (hn : xs.length ≠ 20) : SrcLab.car_streetscene_20_to_car_streetscene_view_5_10 xs = .error .labelling := by
  unfold SrcLab.car_streetscene_20_to_car_streetscene_view_5_10
  simp only [validated_wrong xs _ hn, bind_error]

theorem nat_car_streetscene_20_to_car_streetscene_view_6_14 {α β : Type} (h : α → β) (xs : List α) :
    SrcLab.car_streetscene_20_to_car_streetscene_view_6_14 (xs.map h) = (SrcLab.car_streetscene_20_to_car_streetscene_view_6_14 xs).map (mapOut h) := by
  unfold SrcLab.car_streetscene_20_to_car_streetscene_view_6_14
  lab_nat_simp []

theorem wrong_car_streetscene_20_to_car_streetscene_view_6_14 {α : Type} (xs : List α) (hn : xs.length ≠ 20) : SrcLab.car_streetscene_20_to_car_streetscene_view_6_14 xs = .error .labelling := by
  unfold SrcLab.car_streetscene_20_to_car_streetscene_view_6_14
  simp only [validated_wrong xs _ hn, bind_error]

theorem nat_car_streetscene_20_to_car_streetscene_view_7_8 {α β : Type} (h : α → β) (xs : List α) :
    SrcLab.car_streetscene_20_to_car_streetscene_view_7_8 (xs.map h) = (SrcLab.car_streetscene_20_to_car_streetscene_view_7_8 xs).map (mapOut h) := by
  unfold SrcLab.car_streetscene_20_to_car_streetscene_view_7_8
  lab_nat_simp []

theorem wrong_car_streetscene_20_to_car_streetscene_view_7_8 {α : Type} (xs : List α) (hn : xs.length ≠ 20) : SrcLab.car_streetscene_20_to_car_streetscene_view_7_8 xs = .error .labelling := by
  unfold SrcLab.car_streetscene_20_to_car_streetscene_view_7_8
  simp only [validated_wrong xs _ hn, bind_error]

theorem nat_eye_ibug_close_17_to_eye_ibug_close_17 {α β : Type} (h : α → β) (xs : List α) :
    SrcLab.eye_ibug_close_17_to_eye_ibug_close_17 (xs.map h) = (SrcLab.eye_ibug_close_17_to_eye_ibug_close_17 xs).map (mapOut h) := by
  unfold SrcLab.eye_ibug_close_17_to_eye_ibug_close_17
  lab_nat_simp []

theorem wrong_eye_ibug_close_17_to_eye_ibug_close_17 {α : Type} (xs : List α) (hn : xs.length ≠ 17) : SrcLab.eye_ibug_close_17_to_eye_ibug_close_17 xs = .error .labelling := by
  unfold SrcLab.eye_ibug_close_17_to_eye_ibug_close_17
  simp only [validated_wrong xs _ hn, bind_error]

theorem nat_eye_ibug_close_17_to_eye_ibug_close_17_trimesh {α β : Type} (h : α → β) (xs : List α) :
    SrcLab.eye_ibug_close_17_to_eye_ibug_close_17_trimesh (xs.map h) = (SrcLab.eye_ibug_close_17_to_eye_ibug_close_17_trimesh xs).map (mapOut h) := by
  unfold SrcLab.eye_ibug_close_17_to_eye_ibug_close_17_trimesh
  lab_nat_simp []

theorem wrong_eye_ibug_close_17_to_eye_ibug_close_17_trimesh {α : Type} (xs : List α) (hn : xs.length ≠ 17) : SrcLab.eye_ibug_close_17_to_eye_ibug_close_17_trimesh xs = .error .labelling := by
  unfold SrcLab.eye_ibug_close_17_to_eye_ibug_close_17_trimesh
  simp only [validated_wrong xs _ hn, bind_error]

theorem nat_eye_ibug_open_38_to_eye_ibug_open_38 {α β : Type} (h : α → β) (xs : List α) :
    SrcLab.eye_ibug_open_38_to_eye_ibug_open_38 (xs.map h) = (SrcLab.eye_ibug_open_38_to_eye_ibug_open_38 xs).map (mapOut h) := by
  unfold SrcLab.eye_ibug_open_38_to_eye_ibug_open_38
  lab_nat_simp []

theorem wrong_eye_ibug_open_38_to_eye_ibug_open_38 {α : Type} (xs : List α) (hn : xs.length ≠ 38) : SrcLab.eye_ibug_open_38_to_eye_ibug_open_38 xs = .error .labelling := by
  unfold SrcLab.eye_ibug_open_38_to_eye_ibug_open_38
  simp only [validated_wrong xs _ hn, bind_error]

theorem nat_eye_ibug_open_38_to_eye_ibug_open_38_trimesh {α β : Type} (h : α → β) (xs : List α) :
    SrcLab.eye_ibug_open_38_to_eye_ibug_open_38_trimesh (xs.map h) = (SrcLab.eye_ibug_open_38_to_eye_ibug_open_38_trimesh xs).map (mapOut h) := by
  unfold SrcLab.eye_ibug_open_38_to_eye_ibug_open_38_trimesh
  lab_nat_simp []

theorem wrong_eye_ibug_open_38_to_eye_ibug_open_38_trimesh {α : Type} (xs : List α) (hn : xs.length ≠ 38) : SrcLab.eye_ibug_open_38_to_eye_ibug_open_38_trimesh xs = .error .labelling := by
  unfold SrcLab.eye_ibug_open_38_to_eye_ibug_open_38_trimesh
  simp only [validated_wrong xs _ hn, bind_error]

theorem nat_face_bu3dfe_83_to_face_bu3dfe_83 {α β : Type} (h : α → β) (xs : List α) :
    SrcLab.face_bu3dfe_83_to_face_bu3dfe_83 (xs.map h) = (SrcLab.face_bu3dfe_83_to_face_bu3dfe_83 xs).map (mapOut h) := by
  unfold SrcLab.face_bu3dfe_83_to_face_bu3dfe_83
  lab_nat_simp []

theorem wrong_face_bu3dfe_83_to_face_bu3dfe_83 {α : Type} (xs : List α) (hn : xs.length ≠ 83) : SrcLab.face_bu3dfe_83_to_face_bu3dfe_83 xs = .error .labelling := by
  unfold SrcLab.face_bu3dfe_83_to_face_bu3dfe_83
  simp only [validated_wrong xs _ hn, bind_error]

theorem nat_face_ibug_49_to_face_ibug_49 {α β : Type} (h : α → β) (xs : List α) :
    SrcLab.face_ibug_49_to_face_ibug_49 (xs.map h) = (SrcLab.face_ibug_49_to_face_ibug_49 xs).map (mapOut h) := by
  unfold SrcLab.face_ibug_49_to_face_ibug_49
  lab_nat_simp []

theorem wrong_face_ibug_49_to_face_ibug_49 {α : Type} (xs : List α) (hn : xs.length ≠ 49) : SrcLab.face_ibug_49_to_face_ibug_49 xs = .error .labelling := by
  unfold SrcLab.face_ibug_49_to_face_ibug_49
  simp only [validated_wrong xs _ hn, bind_error]

theorem nat_face_ibug_68_to_face_ibug_68 {α β : Type} (h : α → β) (xs : List α) :
    SrcLab.face_ibug_68_to_face_ibug_68 (xs.map h) = (SrcLab.face_ibug_68_to_face_ibug_68 xs).map (mapOut h) := by
  unfold SrcLab.face_ibug_68_to_face_ibug_68
  lab_nat_simp []

theorem wrong_face_ibug_68_to_face_ibug_68 {α : Type} (xs : List α) (hn : xs.length ≠ 68) : SrcLab.face_ibug_68_to_face_ibug_68 xs = .error .labelling := by
  unfold SrcLab.face_ibug_68_to_face_ibug_68
  simp only [validated_wrong xs _ hn, bind_error]

theorem nat_face_ibug_68_mirrored_to_face_ibug_68 {α β : Type} (h : α → β) (xs : List α) :
    SrcLab.face_ibug_68_mirrored_to_face_ibug_68 (xs.map h) = (SrcLab.face_ibug_68_mirrored_to_face_ibug_68 xs).map (mapOut h) := by
  unfold SrcLab.face_ibug_68_mirrored_to_face_ibug_68
  lab_nat_simp [callWithMapping_map nat_face_ibug_68_to_face_ibug_68, callPlain_map nat_face_ibug_68_to_face_ibug_68]

theorem wrong_face_ibug_68_mirrored_to_face_ibug_68 {α : Type} (xs : List α) (hn : xs.length ≠ 68) : SrcLab.face_ibug_68_mirrored_to_face_ibug_68 xs = .error .labelling := by
  unfold SrcLab.face_ibug_68_mirrored_to_face_ibug_68
  simp only [validated_wrong xs _ hn, bind_error, callWithMapping_wrong (wrong_face_ibug_68_to_face_ibug_68 xs hn), callPlain_wrong (wrong_face_ibug_68_to_face_ibug_68 xs hn)]

theorem nat_face_ibug_68_to_face_ibug_49 {α β : Type} (h : α → β) (xs : List α) :
    SrcLab.face_ibug_68_to_face_ibug_49 (xs.map h) = (SrcLab.face_ibug_68_to_face_ibug_49 xs).map (mapOut h) := by
  unfold SrcLab.face_ibug_68_to_face_ibug_49
  lab_nat_simp []

theorem wrong_face_ibug_68_to_face_ibug_49 {α : Type} (xs : List α) (hn : xs.length ≠ 68) : SrcLab.face_ibug_68_to_face_ibug_49 xs = .error .labelling := by
  unfold SrcLab.face_ibug_68_to_face_ibug_49
  simp only [validated_wrong xs _ hn, bind_error]

theorem nat_face_ibug_68_to_face_ibug_49_trimesh {α β : Type} (h : α → β) (xs : List α) :
    SrcLab.face_ibug_68_to_face_ibug_49_trimesh (xs.map h) = (SrcLab.face_ibug_68_to_face_ibug_49_trimesh xs).map (mapOut h) := by
  unfold SrcLab.face_ibug_68_to_face_ibug_49_trimesh
  lab_nat_simp [callWithMapping_map nat_face_ibug_68_to_face_ibug_49, callPlain_map nat_face_ibug_68_to_face_ibug_49]

theorem wrong_face_ibug_68_to_face_ibug_49_trimesh {α : Type} (xs : List α) (hn : xs.length ≠ 68) : SrcLab.face_ibug_68_to_face_ibug_49_trimesh xs = .error .labelling := by
  unfold SrcLab.face_ibug_68_to_face_ibug_49_trimesh
  simp only [validated_wrong xs _ hn, bind_error, callWithMapping_wrong (wrong_face_ibug_68_to_face_ibug_49 xs hn), callPlain_wrong (wrong_face_ibug_68_to_face_ibug_49 xs hn)]

theorem nat_face_ibug_68_to_face_ibug_51 {α β : Type} (h : α → β) (xs : List α) :
    SrcLab.face_ibug_68_to_face_ibug_51 (xs.map h) = (SrcLab.face_ibug_68_to_face_ibug_51 xs).map (mapOut h) := by
  unfold SrcLab.face_ibug_68_to_face_ibug_51
  lab_nat_simp []

theorem wrong_face_ibug_68_to_face_ibug_51 {α : Type} (xs : List α) (hn : xs.length ≠ 68) : SrcLab.face_ibug_68_to_face_ibug_51 xs = .error .labelling := by
  unfold SrcLab.face_ibug_68_to_face_ibug_51
  simp only [validated_wrong xs _ hn, bind_error]

theorem nat_face_ibug_68_to_face_ibug_51_trimesh {α β : Type} (h : α → β) (xs : List α) :
    SrcLab.face_ibug_68_to_face_ibug_51_trimesh (xs.map h) = (SrcLab.face_ibug_68_to_face_ibug_51_trimesh xs).map (mapOut h) := by
  unfold SrcLab.face_ibug_68_to_face_ibug_51_trimesh
  lab_nat_simp [callWithMapping_map nat_face_ibug_68_to_face_ibug_51, callPlain_map nat_face_ibug_68_to_face_ibug_51]

theorem wrong_face_ibug_68_to_face_ibug_51_trimesh {α : Type} (xs : List α) (hn : xs.length ≠ 68) : SrcLab.face_ibug_68_to_face_ibug_51_trimesh xs = .error .labelling := by
  unfold SrcLab.face_ibug_68_to_face_ibug_51_trimesh
  simp only [validated_wrong xs _ hn, bind_error, callWithMapping_wrong (wrong_face_ibug_68_to_face_ibug_51 xs hn), callPlain_wrong (wrong_face_ibug_68_to_face_ibug_51 xs hn)]

theorem nat_face_ibug_68_to_face_ibug_65 {α β : Type} (h : α → β) (xs : List α) :
    SrcLab.face_ibug_68_to_face_ibug_65 (xs.map h) = (SrcLab.face_ibug_68_to_face_ibug_65 xs).map (mapOut h) := by
  unfold SrcLab.face_ibug_68_to_face_ibug_65
  lab_nat_simp [callWithMapping_map nat_face_ibug_68_to_face_ibug_68, callPlain_map nat_face_ibug_68_to_face_ibug_68]

theorem wrong_face_ibug_68_to_face_ibug_65 {α : Type} (xs : List α) (hn : xs.length ≠ 68) : SrcLab.face_ibug_68_to_face_ibug_65 xs = .error .labelling := by
  unfold SrcLab.face_ibug_68_to_face_ibug_65
  simp only [validated_wrong xs _ hn, bind_error, callWithMapping_wrong (wrong_face_ibug_68_to_face_ibug_68 xs hn), callPlain_wrong (wrong_face_ibug_68_to_face_ibug_68 xs hn)]

theorem nat_face_ibug_68_to_face_ibug_66 {α β : Type} (h : α → β) (xs : List α) :
    SrcLab.face_ibug_68_to_face_ibug_66 (xs.map h) = (SrcLab.face_ibug_68_to_face_ibug_66 xs).map (mapOut h) := by
  unfold SrcLab.face_ibug_68_to_face_ibug_66
  lab_nat_simp []

theorem wrong_face_ibug_68_to_face_ibug_66 {α : Type} (xs : List α) (hn : xs.length ≠ 68) : SrcLab.face_ibug_68_to_face_ibug_66 xs = .error .labelling := by
  unfold SrcLab.face_ibug_68_to_face_ibug_66
  simp only [validated_wrong xs _ hn, bind_error]

theorem nat_face_ibug_68_to_face_ibug_66_trimesh {α β : Type} (h : α → β) (xs : List α) :
    SrcLab.face_ibug_68_to_face_ibug_66_trimesh (xs.map h) = (SrcLab.face_ibug_68_to_face_ibug_66_trimesh xs).map (mapOut h) := by
  unfold SrcLab.face_ibug_68_to_face_ibug_66_trimesh
  lab_nat_simp [callWithMapping_map nat_face_ibug_68_to_face_ibug_66, callPlain_map nat_face_ibug_68_to_face_ibug_66]

theorem wrong_face_ibug_68_to_face_ibug_66_trimesh {α : Type} (xs : List α) (hn : xs.length ≠ 68) : SrcLab.face_ibug_68_to_face_ibug_66_trimesh xs = .error .labelling := by
  unfold SrcLab.face_ibug_68_to_face_ibug_66_trimesh
  simp only [validated_wrong xs _ hn, bind_error, callWithMapping_wrong (wrong_face_ibug_68_to_face_ibug_66 xs hn), callPlain_wrong (wrong_face_ibug_68_to_face_ibug_66 xs hn)]

theorem nat_face_ibug_68_to_face_ibug_68_trimesh {α β : Type} (h : α → β) (xs : List α) :
    SrcLab.face_ibug_68_to_face_ibug_68_trimesh (xs.map h) = (SrcLab.face_ibug_68_to_face_ibug_68_trimesh xs).map (mapOut h) := by
  unfold SrcLab.face_ibug_68_to_face_ibug_68_trimesh
  lab_nat_simp []

theorem wrong_face_ibug_68_to_face_ibug_68_trimesh {α : Type} (xs : List α) (hn : xs.length ≠ 68) : SrcLab.face_ibug_68_to_face_ibug_68_trimesh xs = .error .labelling := by
  unfold SrcLab.face_ibug_68_to_face_ibug_68_trimesh
  simp only [validated_wrong xs _ hn, bind_error]

theorem nat_face_imm_58_to_face_imm_58 {α β : Type} (h : α → β) (xs : List α) :
    SrcLab.face_imm_58_to_face_imm_58 (xs.map h) = (SrcLab.face_imm_58_to_face_imm_58 xs).map (mapOut h) := by
  unfold SrcLab.face_imm_58_to_face_imm_58
  lab_nat_simp []

theorem wrong_face_imm_58_to_face_imm_58 {α : Type} (xs : List α) (hn : xs.length ≠ 58) : SrcLab.face_imm_58_to_face_imm_58 xs = .error .labelling := by
  unfold SrcLab.face_imm_58_to_face_imm_58
  simp only [validated_wrong xs _ hn, bind_error]

theorem nat_face_lfpw_29_to_face_lfpw_29 {α β : Type} (h : α → β) (xs : List α) :
    SrcLab.face_lfpw_29_to_face_lfpw_29 (xs.map h) = (SrcLab.face_lfpw_29_to_face_lfpw_29 xs).map (mapOut h) := by
  unfold SrcLab.face_lfpw_29_to_face_lfpw_29
  lab_nat_simp []

theorem wrong_face_lfpw_29_to_face_lfpw_29 {α : Type} (xs : List α) (hn : xs.length ≠ 29) : SrcLab.face_lfpw_29_to_face_lfpw_29 xs = .error .labelling := by
  unfold SrcLab.face_lfpw_29_to_face_lfpw_29
  simp only [validated_wrong xs _ hn, bind_error]

theorem nat_hand_ibug_39_to_hand_ibug_39 {α β : Type} (h : α → β) (xs : List α) :
    SrcLab.hand_ibug_39_to_hand_ibug_39 (xs.map h) = (SrcLab.hand_ibug_39_to_hand_ibug_39 xs).map (mapOut h) := by
  unfold SrcLab.hand_ibug_39_to_hand_ibug_39
  lab_nat_simp []

theorem wrong_hand_ibug_39_to_hand_ibug_39 {α : Type} (xs : List α) (hn : xs.length ≠ 39) : SrcLab.hand_ibug_39_to_hand_ibug_39 xs = .error .labelling := by
  unfold SrcLab.hand_ibug_39_to_hand_ibug_39
  simp only [validated_wrong xs _ hn, bind_error]

theorem nat_pose_flic_11_to_pose_flic_11 {α β : Type} (h : α → β) (xs : List α) :
    SrcLab.pose_flic_11_to_pose_flic_11 (xs.map h) = (SrcLab.pose_flic_11_to_pose_flic_11 xs).map (mapOut h) := by
  unfold SrcLab.pose_flic_11_to_pose_flic_11
  lab_nat_simp []

theorem wrong_pose_flic_11_to_pose_flic_11 {α : Type} (xs : List α) (hn : xs.length ≠ 11) : SrcLab.pose_flic_11_to_pose_flic_11 xs = .error .labelling := by
  unfold SrcLab.pose_flic_11_to_pose_flic_11
  simp only [validated_wrong xs _ hn, bind_error]

theorem nat_pose_human36M_32_to_pose_human36M_17 {α β : Type} (h : α → β) (xs : List α) :
    SrcLab.pose_human36M_32_to_pose_human36M_17 (xs.map h) = (SrcLab.pose_human36M_32_to_pose_human36M_17 xs).map (mapOut h) := by
  unfold SrcLab.pose_human36M_32_to_pose_human36M_17
  lab_nat_simp []

theorem wrong_pose_human36M_32_to_pose_human36M_17 {α : Type} (xs : List α) (hn : xs.length ≠ 32) : SrcLab.pose_human36M_32_to_pose_human36M_17 xs = .error .labelling := by
  unfold SrcLab.pose_human36M_32_to_pose_human36M_17
  simp only [validated_wrong xs _ hn, bind_error]

theorem nat_pose_human36M_32_to_pose_human36M_32 {α β : Type} (h : α → β) (xs : List α) :
    SrcLab.pose_human36M_32_to_pose_human36M_32 (xs.map h) = (SrcLab.pose_human36M_32_to_pose_human36M_32 xs).map (mapOut h) := by
  unfold SrcLab.pose_human36M_32_to_pose_human36M_32
  lab_nat_simp []

theorem wrong_pose_human36M_32_to_pose_human36M_32 {α : Type} (xs : List α) (hn : xs.length ≠ 32) : SrcLab.pose_human36M_32_to_pose_human36M_32 xs = .error .labelling := by
  unfold SrcLab.pose_human36M_32_to_pose_human36M_32
  simp only [validated_wrong xs _ hn, bind_error]

theorem nat_pose_lsp_14_to_pose_lsp_14 {α β : Type} (h : α → β) (xs : List α) :
    SrcLab.pose_lsp_14_to_pose_lsp_14 (xs.map h) = (SrcLab.pose_lsp_14_to_pose_lsp_14 xs).map (mapOut h) := by
  unfold SrcLab.pose_lsp_14_to_pose_lsp_14
  lab_nat_simp []

theorem wrong_pose_lsp_14_to_pose_lsp_14 {α : Type} (xs : List α) (hn : xs.length ≠ 14) : SrcLab.pose_lsp_14_to_pose_lsp_14 xs = .error .labelling := by
  unfold SrcLab.pose_lsp_14_to_pose_lsp_14
  simp only [validated_wrong xs _ hn, bind_error]

theorem nat_pose_stickmen_12_to_pose_stickmen_12 {α β : Type} (h : α → β) (xs : List α) :
    SrcLab.pose_stickmen_12_to_pose_stickmen_12 (xs.map h) = (SrcLab.pose_stickmen_12_to_pose_stickmen_12 xs).map (mapOut h) := by
  unfold SrcLab.pose_stickmen_12_to_pose_stickmen_12
  lab_nat_simp []

theorem wrong_pose_stickmen_12_to_pose_stickmen_12 {α : Type} (xs : List α) (hn : xs.length ≠ 12) : SrcLab.pose_stickmen_12_to_pose_stickmen_12 xs = .error .labelling := by
  unfold SrcLab.pose_stickmen_12_to_pose_stickmen_12
  simp only [validated_wrong xs _ hn, bind_error]

theorem nat_tongue_ibug_19_to_tongue_ibug_19 {α β : Type} (h : α → β) (xs : List α) :
    SrcLab.tongue_ibug_19_to_tongue_ibug_19 (xs.map h) = (SrcLab.tongue_ibug_19_to_tongue_ibug_19 xs).map (mapOut h) := by
  unfold SrcLab.tongue_ibug_19_to_tongue_ibug_19
  lab_nat_simp []

theorem wrong_tongue_ibug_19_to_tongue_ibug_19 {α : Type} (xs : List α) (hn : xs.length ≠ 19) : SrcLab.tongue_ibug_19_to_tongue_ibug_19 xs = .error .labelling := by
  unfold SrcLab.tongue_ibug_19_to_tongue_ibug_19
  simp only [validated_wrong xs _ hn, bind_error]

end MenpoModel.C15.GenProps.SrcLab
