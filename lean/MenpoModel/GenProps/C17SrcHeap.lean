/-
C17 — obligations over the HEAP-LEVEL translation in `Generated/C17Src.lean`: the bodies of TriMesh.from_mask,
ColouredTriMesh.from_mask, TexturedTriMesh.from_mask and TriMesh.from_tri_mask translated a second time, from the
same source text, onto the heap of `Core/C17Heap.lean` (objects and arrays are cells; `self.copy()` allocates; an
attribute assignment aliases an existing cell or allocates a new one according to the origin of the value).

  genFromMaskH_view      read back from the heap, the result is the value-level translation's (all three classes)
  genFromTriMaskH_view   the same for from_tri_mask
  genFromMaskH_grows     frame + ownership: one new object, nothing existing changed, all its arrays are new cells
  genFromMaskH_extras    texture pixels and every landmark group carried with equal content
  genFromMaskH_valid     the heap invariant is kept
  src_from_mask_objects / src_from_tri_mask_objects   the masking clauses of C17 for objects, assembled
  Grows.write_old_invisible / write_new_invisible      independence of result and receiver under in-place writes
  heap_history           any sequence of maskings keeps every existing object for ever

The proofs rewrite with lemmas about `copyObj` / `bind` whose side conditions (`Valid`, index in range) are
discharged by `simp` itself, so the order and number of the attribute assignments in the Python bodies do not matter;
binding an attribute to an EXISTING array (`tm.points = self.points`), dropping `self.copy()`, or slicing a payload
with another mask breaks them.  Hand-written; `lake build` re-checks it against what the code says now.
-/
import MenpoModel.GenProps.C17Src

set_option linter.unusedSimpArgs false
set_option linter.unnecessarySimpa false

namespace MenpoModel.C17.HeapProps
open MenpoModel.C17 MenpoModel.C17.Np MenpoModel.C17.Gen MenpoModel.C17.Heap MenpoModel.C17.SrcProps

variable {α : Type}

/-! ## lists of cells -/

theorem getD_append_left' {β : Type} (l l' : List β) (a : Nat) (d : β) (h : a < l.length) :
    (l ++ l').getD a d = l.getD a d := by
  simp [List.getD_eq_getElem?_getD, List.getElem?_append_left h]

theorem getD_append_right' {β : Type} (l l' : List β) (i : Nat) (d : β) :
    (l ++ l').getD (l.length + i) d = l'.getD i d := by
  simp [List.getD_eq_getElem?_getD, List.getElem?_append_right]

theorem getD_modify {β : Type} (l : List β) (o o' : Nat) (g : β → β) (d : β) (ho : o < l.length) :
    (l.modify o g).getD o' d = if o' = o then g (l.getD o d) else l.getD o' d := by
  simp only [List.getD_eq_getElem?_getD, List.getElem?_modify]
  by_cases h : o = o'
  · subst h; simp [List.getElem?_eq_getElem ho]
  · simp [h, Ne.symm h]

/-! ## association lists of attributes -/

/-- the fields of the copy: the `i`-th attribute is bound to the `i`-th new cell -/
def reloc (n : Nat) (fs : List (Fld × Nat)) (j : Nat) : List (Fld × Nat) :=
  (fs.zipIdx j).map (fun q => (q.1.1, n + q.2))

theorem reloc_cons (n : Nat) (p : Fld × Nat) (fs : List (Fld × Nat)) (j : Nat) :
    reloc n (p :: fs) j = (p.1, n + j) :: reloc n fs (j + 1) := by
  simp [reloc, List.zipIdx_cons]

/-- reading an attribute of the copy reads a cell with the content of the original's -/
theorem lookup_reloc (n : Nat) (big : List (Arr α)) (g : Nat → Arr α) : ∀ (fs : List (Fld × Nat)) (j : Nat),
    (∀ i (h : i < fs.length), big.getD (n + (j + i)) default = g (fs[i].2)) →
    ∀ f, (match (reloc n fs j).lookup f with
          | some b => big.getD b default
          | none => default)
        = (match fs.lookup f with
          | some a => g a
          | none => default) := by
  intro fs
  induction fs with
  | nil => intro j _ f; simp [reloc]
  | cons p rest ih =>
    obtain ⟨k, a0⟩ := p
    intro j h f
    rw [reloc_cons]
    simp only [List.lookup_cons]
    by_cases hf : (f == k) = true
    · simp only [hf]
      have := h 0 (by simp)
      simpa using this
    · have hf' : (f == k) = false := by simpa using hf
      simp only [hf']
      apply ih (j + 1)
      intro i hi
      have := h (i + 1) (by simp; omega)
      simpa [Nat.add_assoc, Nat.add_comm 1 i] using this

theorem reloc_ge (n : Nat) : ∀ (fs : List (Fld × Nat)) (j : Nat), ∀ p ∈ reloc n fs j, n ≤ p.2 ∧ p.2 < n + j + fs.length := by
  intro fs
  induction fs with
  | nil => intro j p hp; simp [reloc] at hp
  | cons q rest ih =>
    intro j p hp
    rw [reloc_cons] at hp
    rcases List.mem_cons.1 hp with rfl | hp'
    · simp only [List.length_cons]; omega
    · have := ih (j + 1) p hp'
      simp only [List.length_cons]; omega

theorem reloc_keys (n : Nat) : ∀ (fs : List (Fld × Nat)) (j : Nat), (reloc n fs j).map Prod.fst = fs.map Prod.fst := by
  intro fs
  induction fs with
  | nil => intro j; rfl
  | cons q rest ih => intro j; rw [reloc_cons]; simp [ih (j + 1)]

theorem map_setKey_id (rest : List (Fld × Nat)) (f : Fld) (a : Nat) (h : rest.any (fun p => p.1 == f) = false) :
    rest.map (fun p => if (p.1 == f) = true then (f, a) else p) = rest := by
  induction rest with
  | nil => rfl
  | cons q r ih =>
    simp only [List.any_cons, Bool.or_eq_false_iff] at h
    simp only [List.map_cons, h.1, Bool.false_eq_true, if_false, ih h.2]

theorem lookup_setAssoc (fs : List (Fld × Nat)) (f f' : Fld) (a : Nat) :
    (setAssoc fs f a).lookup f' = if f' = f then some a else fs.lookup f' := by
  unfold setAssoc
  induction fs with
  | nil =>
    simp only [List.any_nil, Bool.false_eq_true, if_false, List.nil_append, List.lookup_cons, List.lookup_nil]
    by_cases hf : f' = f
    · simp [hf]
    · have hb : (f' == f) = false := by simpa using hf
      simp [hb, hf]
  | cons p rest ih =>
    obtain ⟨k, a0⟩ := p
    by_cases hk : k = f
    · subst hk
      simp only [List.any_cons, beq_self_eq_true, Bool.true_or, if_true, List.map_cons, List.lookup_cons]
      by_cases hf : f' = k
      · simp [hf]
      · have hb : (f' == k) = false := by simpa using hf
        simp only [hb, hf, if_false]
        by_cases hany : rest.any (fun p => p.1 == k) = true
        · rw [if_pos hany] at ih; simpa [hf] using ih
        · have hany' : rest.any (fun p => p.1 == k) = false := Bool.not_eq_true _ ▸ hany
          rw [map_setKey_id rest k a hany']
    · have hkb : (k == f) = false := by simpa using hk
      simp only [List.any_cons, hkb, Bool.false_or]
      by_cases hany : rest.any (fun p => p.1 == f) = true
      · rw [if_pos hany] at ih ⊢
        simp only [List.map_cons, hkb, Bool.false_eq_true, if_false, List.lookup_cons]
        by_cases hb : (f' == k) = true
        · have : f' ≠ f := by
            intro e; apply hk; rw [← e]; exact (beq_iff_eq.1 hb).symm
          simp [hb, this]
        · have hb' : (f' == k) = false := by simpa using hb
          simp only [hb']; exact ih
      · rw [if_neg hany] at ih ⊢
        simp only [List.cons_append, List.lookup_cons]
        by_cases hb : (f' == k) = true
        · have : f' ≠ f := by
            intro e; apply hk; rw [← e]; exact (beq_iff_eq.1 hb).symm
          simp [hb, this]
        · have hb' : (f' == k) = false := by simpa using hb
          simp only [hb']; exact ih


/-! ## worlds: `copy()` and binding an attribute to a fresh array -/

theorem getD_mem {β : Type} [Inhabited β] (l : List β) (o : Nat) (h : o < l.length) : l.getD o default ∈ l := by
  rw [List.getD_eq_getElem?_getD, List.getElem?_eq_getElem h]; exact List.getElem_mem h

theorem addr_lt (w : World α) (hv : w.Valid) (o : Nat) (f : Fld) (a : Nat) (h : w.addr o f = some a) :
    a < w.arrs.length := by
  unfold World.addr at h
  by_cases ho : o < w.objs.length
  · have hm := getD_mem w.objs o ho
    obtain ⟨l₁, l₂, hl, _⟩ := List.lookup_eq_some_iff.1 h
    exact hv _ hm (f, a) (by rw [hl]; simp)
  · rw [List.getD_eq_getElem?_getD, List.getElem?_eq_none (by omega)] at h
    simp [default] at h

/-- the cell an attribute is bound to, spelled out -/
theorem cell_def (w : World α) (o : Nat) (f : Fld) :
    w.cell o f = (match (w.objs.getD o default).fields.lookup f with
      | some a => w.arrs.getD a default
      | none => default) := rfl

section copy
variable (w : World α) (s : Nat)

theorem copyObj_fst : (w.copyObj s).1 = w.objs.length := rfl
theorem copyObj_arrs : (w.copyObj s).2.arrs =
    w.arrs ++ (w.objs.getD s default).fields.map (fun p => w.arrs.getD p.2 default) := rfl
theorem copyObj_objs : (w.copyObj s).2.objs =
    w.objs ++ [{ (w.objs.getD s default) with fields := reloc w.arrs.length (w.objs.getD s default).fields 0 }] := by
  simp [World.copyObj, reloc]

theorem copyObj_obj_old (o : Nat) (ho : o < w.objs.length) :
    (w.copyObj s).2.objs.getD o default = w.objs.getD o default := by
  rw [copyObj_objs, getD_append_left' _ _ _ _ ho]

theorem copyObj_obj_new :
    (w.copyObj s).2.objs.getD w.objs.length default =
      { (w.objs.getD s default) with fields := reloc w.arrs.length (w.objs.getD s default).fields 0 } := by
  rw [copyObj_objs]
  have := getD_append_right' w.objs [{ (w.objs.getD s default) with
    fields := reloc w.arrs.length (w.objs.getD s default).fields 0 }] 0 default
  simpa using this

/-- `copy()` leaves every existing object with the cells it had -/
theorem cell_copy_old (hv : w.Valid) (o : Nat) (ho : o < w.objs.length) (f : Fld) :
    (w.copyObj s).2.cell o f = w.cell o f := by
  rw [cell_def, cell_def, copyObj_obj_old w s o ho, copyObj_arrs]
  cases h : (w.objs.getD o default).fields.lookup f with
  | none => rfl
  | some a =>
    have hlt : a < w.arrs.length := addr_lt w hv o f a h
    simp only [getD_append_left' _ _ _ _ hlt]

/-- the copy holds, attribute by attribute, cells with the content of the original's -/
theorem cell_copy_new (f : Fld) : (w.copyObj s).2.cell w.objs.length f = w.cell s f := by
  rw [cell_def, cell_def, copyObj_obj_new, copyObj_arrs]
  apply lookup_reloc w.arrs.length _ (fun a => w.arrs.getD a default) (w.objs.getD s default).fields 0
  intro i hi
  rw [Nat.zero_add, getD_append_right']
  rw [List.getD_eq_getElem?_getD, List.getElem?_map, List.getElem?_eq_getElem hi]
  rfl

theorem valid_copy (hv : w.Valid) : (w.copyObj s).2.Valid := by
  intro ob hob p hp
  rw [copyObj_objs] at hob
  rw [copyObj_arrs, List.length_append, List.length_map]
  rcases List.mem_append.1 hob with h | h
  · have := hv ob h p hp; omega
  · simp only [List.mem_singleton] at h
    subst h
    have := reloc_ge w.arrs.length _ 0 p hp
    omega

theorem copy_objs_length : (w.copyObj s).2.objs.length = w.objs.length + 1 := by
  rw [copyObj_objs]; simp

end copy

section bind
variable (w : World α) (o : Nat) (f : Fld) (c : Arr α)

theorem bind_arrs : (w.bind o f c none).arrs = w.arrs ++ [c] := rfl
theorem bind_objs : (w.bind o f c none).objs =
    w.objs.modify o (fun ob => { ob with fields := setAssoc ob.fields f w.arrs.length }) := rfl
theorem bind_objs_length : (w.bind o f c none).objs.length = w.objs.length := by simp [bind_objs]

theorem bind_obj (ho : o < w.objs.length) (o' : Nat) :
    (w.bind o f c none).objs.getD o' default =
      if o' = o then { (w.objs.getD o default) with fields := setAssoc (w.objs.getD o default).fields f w.arrs.length }
      else w.objs.getD o' default := by
  rw [bind_objs, getD_modify _ _ _ _ _ ho]

/-- binding a fresh array to attribute `f` of object `o` changes that one cell and nothing else -/
theorem cell_bind_fresh (hv : w.Valid) (ho : o < w.objs.length) (o' : Nat) (f' : Fld) :
    (w.bind o f c none).cell o' f' = if o' = o ∧ f' = f then c else w.cell o' f' := by
  rw [cell_def, cell_def, bind_obj w o f c ho, bind_arrs]
  by_cases h1 : o' = o
  · subst h1
    simp only [if_true, true_and, lookup_setAssoc]
    by_cases h2 : f' = f
    · subst h2
      simp only [if_true]
      have := getD_append_right' w.arrs [c] 0 default
      simpa using this
    · simp only [h2, if_false]
      cases h : (w.objs.getD o' default).fields.lookup f' with
      | none => rfl
      | some a =>
        have hlt : a < w.arrs.length := addr_lt w hv o' f' a h
        simp only [getD_append_left' _ _ _ _ hlt]
  · simp only [h1, if_false, false_and]
    cases h : (w.objs.getD o' default).fields.lookup f' with
    | none => rfl
    | some a =>
      have hlt : a < w.arrs.length := addr_lt w hv o' f' a h
      simp only [getD_append_left' _ _ _ _ hlt]

theorem mem_setAssoc (fs : List (Fld × Nat)) (a : Nat) (p : Fld × Nat) (hp : p ∈ setAssoc fs f a) : p ∈ fs ∨ p = (f, a) := by
  unfold setAssoc at hp
  split at hp
  · obtain ⟨q, hq, rfl⟩ := List.mem_map.1 hp
    by_cases h : (q.1 == f) = true
    · right; simp [h]
    · left; simp [h]; exact hq
  · rcases List.mem_append.1 hp with h | h
    · exact Or.inl h
    · right; simpa using h

theorem valid_bind_fresh (hv : w.Valid) : (w.bind o f c none).Valid := by
  intro ob hob p hp
  rw [bind_arrs, List.length_append]
  rw [bind_objs] at hob
  obtain ⟨i, hi, rfl⟩ := List.mem_iff_getElem.1 hob
  rw [List.getElem_modify] at hp
  have hi' : i < w.objs.length := by simpa using hi
  by_cases h : o = i
  · simp only [h, if_true] at hp
    rcases mem_setAssoc f _ _ p hp with h' | h'
    · have := hv _ (List.getElem_mem hi') p h'; omega
    · subst h'; simp
  · simp only [h, if_false] at hp
    have := hv _ (List.getElem_mem hi') p hp; omega

end bind


/-! ## views: the arrays of an object as the value-level methods see them -/

theorem toRows_rows (l : List α) : (Arr.rows l : Arr α).toRows = l := rfl
theorem toIdx_idx (l : List (List Nat)) : (Arr.idx l : Arr α).toIdx = l := rfl

theorem view_points (w : World α) (o : Nat) : (w.view o).points = (w.cell o .points).toRows := rfl
theorem view_colours (w : World α) (o : Nat) : (w.view o).colours = (w.cell o .colours).toRows := rfl
theorem view_tcoords (w : World α) (o : Nat) : (w.view o).tcoords = (w.cell o .tcoords).toRows := rfl
theorem view_trilist (w : World α) (o : Nat) : (w.view o).trilist = (w.cell o .trilist).toIdx := rfl

/-- the view of an object after one attribute has been bound to the content `c` -/
def setFld (v : NMesh α α α) (f : Fld) (c : Arr α) : NMesh α α α :=
  match f with
  | .points => { v with points := c.toRows }
  | .colours => { v with colours := c.toRows }
  | .tcoords => { v with tcoords := c.toRows }
  | .trilist => { v with trilist := c.toIdx }
  | _ => v

theorem view_copy_old (w : World α) (s : Nat) (hv : w.Valid) (o : Nat) (ho : o < w.objs.length) :
    (w.copyObj s).2.view o = w.view o := by
  simp only [World.view, cell_copy_old w s hv o ho, copyObj_obj_old w s o ho]

theorem view_copy_new (w : World α) (s : Nat) : (w.copyObj s).2.view w.objs.length = w.view s := by
  simp only [World.view, cell_copy_new, copyObj_obj_new]

theorem view_bind_fresh (w : World α) (o : Nat) (f : Fld) (c : Arr α) (hv : w.Valid) (ho : o < w.objs.length) (o' : Nat) :
    (w.bind o f c none).view o' = if o' = o then setFld (w.view o) f c else w.view o' := by
  by_cases h : o' = o
  · subst h
    simp only [World.view, cell_bind_fresh w o' f c hv ho, bind_obj w o' f c ho, if_true, true_and]
    cases f <;> simp [setFld, World.view]
  · simp only [World.view, cell_bind_fresh w o f c hv ho, bind_obj w o f c ho, h, if_false, false_and]

/-- the value-level result of masking, read back from the heap: OBLIGATION (heap level) for the three `from_mask`
bodies — the object returned by the translated method on the heap holds exactly the arrays the value-level
translation computes from the receiver's arrays (and it fails exactly when that fails) -/
theorem genFromMaskH_view (k : Kind) (w : World α) (s : Nat) (mask : List Bool) (hv : w.Valid) (hs : s < w.objs.length) :
    (genFromMaskH k w s mask).map (fun p => p.2.view p.1) = genFromMask k (w.view s) mask := by
  have hv0 := valid_copy w s hv
  have hk0 : w.objs.length < (w.copyObj s).2.objs.length := by rw [copy_objs_length]; omega
  have hpts : (World.getRows w s .points).val = (w.view s).points := rfl
  have htl : ((w.copyObj s).2.getIdx s).val = (w.view s).trilist := by
    have := view_copy_old w s hv s hs
    exact congrArg NMesh.trilist this
  have hvs : (w.copyObj s).2.view s = w.view s := view_copy_old w s hv s hs
  have hlt : w.objs.length < w.objs.length + 1 := Nat.lt_succ_self _
  have hne : ¬ s = w.objs.length := Nat.ne_of_lt hs
  cases k <;>
  · -- normalise every read (whatever the order of the statements in the Python body) …
    simp (maxDischargeDepth := 8) only [genFromMaskH, genFromMask, genFromMaskTriMeshH, genFromMaskTriMesh,
      genFromMaskColouredH, genFromMaskColoured, genFromMaskTexturedH, genFromMaskTextured, copyObj_fst,
      World.getIdx, World.getRows, World.setIdx, World.setRows, IVal.fresh, RVal.fresh,
      view_bind_fresh, cell_bind_fresh, valid_bind_fresh, hv0, hv, hs, hne, bind_objs_length, copy_objs_length, hlt,
      cell_copy_new, cell_copy_old, view_copy_new, view_copy_old, if_false, false_and, view_points, view_colours,
      view_tcoords, view_trilist]
    -- … then decide the three guards, whatever the arrangement of the tests
    generalize genReindexAdjacencyArray _ = res
    by_cases h1 : shape0 mask = shape0 (w.cell s Fld.points).toRows <;>
    by_cases h2 : Np.all mask = true <;>
    cases res <;>
    simp (maxDischargeDepth := 8) [h1, h2, Except.map, Except.bind, IVal.fresh, World.setIdx, World.setRows, RVal.fresh,
      World.getRows, view_bind_fresh, cell_bind_fresh, valid_bind_fresh, hv0, bind_objs_length, copy_objs_length, hlt,
      cell_copy_new, view_copy_new, setFld, toRows_rows, toIdx_idx, view_points, view_colours, view_tcoords,
      view_trilist]


/-! ## frame and ownership: what masking allocates and what it leaves alone -/

/-- `w'` is `w` plus new array cells and ONE new object all of whose arrays are new cells -/
def Grows (w w' : World α) : Prop :=
  (∃ A, w'.arrs = w.arrs ++ A) ∧ ∃ x : MObj, w'.objs = w.objs ++ [x] ∧ ∀ p ∈ x.fields, w.arrs.length ≤ p.2

theorem grows_copy (w : World α) (s : Nat) : Grows w (w.copyObj s).2 := by
  refine ⟨⟨_, copyObj_arrs w s⟩, _, copyObj_objs w s, ?_⟩
  intro p hp
  exact (reloc_ge w.arrs.length _ 0 p hp).1

theorem modify_append_last {β : Type} (l : List β) (x : β) (g : β → β) : (l ++ [x]).modify l.length g = l ++ [g x] := by
  apply List.ext_getElem?
  intro i
  rw [List.getElem?_modify]
  by_cases h : l.length = i
  · subst h; simp
  · simp only [h, if_false]
    by_cases h2 : i < l.length
    · simp [List.getElem?_append_left h2]
    · have : l.length < i := by omega
      simp [List.getElem?_append_right (by omega : l.length ≤ i)]
      rw [List.getElem?_eq_none (by simp; omega), List.getElem?_eq_none (by simp; omega)]

theorem grows_bind (w w' : World α) (f : Fld) (c : Arr α) (h : Grows w w') :
    Grows w (w'.bind w.objs.length f c none) := by
  obtain ⟨⟨A, hA⟩, x, hx, hge⟩ := h
  refine ⟨⟨A ++ [c], by rw [bind_arrs, hA, List.append_assoc]⟩,
    { x with fields := setAssoc x.fields f w'.arrs.length }, ?_, ?_⟩
  · rw [bind_objs, hx, modify_append_last]
  · intro p hp
    rcases mem_setAssoc f _ _ p hp with h' | h'
    · exact hge p h'
    · subst h'; simp [hA]

/-- FRAME of the translated `from_mask` (all three classes): the result is a NEW object; every existing object cell
and every existing array cell is exactly what it was (the receiver included: "mutates nothing"); every array the new
object holds is a NEW cell — none is shared with the receiver or with any other existing object -/
theorem genFromMaskH_grows (k : Kind) (w : World α) (s : Nat) (mask : List Bool) (r : Nat) (w' : World α)
    (h : genFromMaskH k w s mask = .ok (r, w')) : r = w.objs.length ∧ Grows w w' := by
  have hg0 := grows_copy w s
  cases k <;>
  · simp only [genFromMaskH, genFromMaskTriMeshH, genFromMaskColouredH, genFromMaskTexturedH, copyObj_fst] at h
    generalize genReindexAdjacencyArray _ = res at h
    by_cases h1 : (shape0 mask != shape0 (w.getRows s Fld.points).val) = true <;>
    by_cases h2 : Np.all mask = true <;>
    cases res <;>
    simp only [h1, h2, if_true, if_false, Bool.not_true, Bool.not_false, Bool.false_eq_true, Except.map, IVal.fresh,
      World.setIdx, World.setRows, RVal.fresh, not_true_eq_false, not_false_eq_true] at h <;>
    cases h <;>
    exact ⟨rfl, by repeat (first | exact hg0 | apply grows_bind)⟩

theorem genFromMaskH_valid (k : Kind) (w : World α) (s : Nat) (mask : List Bool) (r : Nat) (w' : World α)
    (hv : w.Valid) (h : genFromMaskH k w s mask = .ok (r, w')) : w'.Valid := by
  have hv0 := valid_copy w s hv
  cases k <;>
  · simp only [genFromMaskH, genFromMaskTriMeshH, genFromMaskColouredH, genFromMaskTexturedH, copyObj_fst] at h
    generalize genReindexAdjacencyArray _ = res at h
    by_cases h1 : (shape0 mask != shape0 (w.getRows s Fld.points).val) = true <;>
    by_cases h2 : Np.all mask = true <;>
    cases res <;>
    simp only [h1, h2, if_true, if_false, Bool.not_true, Bool.not_false, Bool.false_eq_true, Except.map, IVal.fresh,
      World.setIdx, World.setRows, RVal.fresh, not_true_eq_false, not_false_eq_true] at h <;>
    cases h <;>
    repeat (first | exact hv0 | apply valid_bind_fresh)

/-- what `Grows` says, spelled out: existing objects and arrays are untouched, the new object is the last one, and
every address it holds is a new cell -/
theorem Grows.frame {w w' : World α} (h : Grows w w') :
    w'.objs.take w.objs.length = w.objs ∧ w'.arrs.take w.arrs.length = w.arrs ∧
    w'.objs.length = w.objs.length + 1 ∧ ∀ a ∈ w'.owned w.objs.length, w.arrs.length ≤ a := by
  obtain ⟨⟨A, hA⟩, x, hx, hge⟩ := h
  refine ⟨by rw [hx]; simp, by rw [hA]; simp, by rw [hx]; simp, ?_⟩
  intro a ha
  unfold World.owned at ha
  have hlast : w'.objs.getD w.objs.length default = x := by
    rw [hx]
    have := getD_append_right' w.objs [x] 0 default
    simpa using this
  rw [hlast] at ha
  obtain ⟨p, hp, rfl⟩ := List.mem_map.1 ha
  exact hge p hp

/-- an existing object keeps its view (its arrays as every method sees them) -/
theorem Grows.view_old {w w' : World α} (h : Grows w w') (hv : w.Valid) (o : Nat) (ho : o < w.objs.length) :
    w'.view o = w.view o := by
  obtain ⟨⟨A, hA⟩, x, hx, _⟩ := h
  have hob : w'.objs.getD o default = w.objs.getD o default := by rw [hx, getD_append_left' _ _ _ _ ho]
  have hcell : ∀ f, w'.cell o f = w.cell o f := by
    intro f
    rw [cell_def, cell_def, hob, hA]
    cases hl : (w.objs.getD o default).fields.lookup f with
    | none => rfl
    | some a =>
      have hlt : a < w.arrs.length := addr_lt w hv o f a hl
      simp only [getD_append_left' _ _ _ _ hlt]
  simp only [World.view, hcell, hob]

/-- INDEPENDENCE, result ← receiver: an in-place write into ANY array that existed before the call (through the
receiver, through any other object) is invisible through the masked mesh -/
theorem Grows.write_old_invisible {w w' : World α} (h : Grows w w') (a : Nat) (ha : a < w.arrs.length) (c : Arr α) :
    (w'.write a c).view w.objs.length = w'.view w.objs.length := by
  obtain ⟨⟨A, hA⟩, x, hx, hge⟩ := h
  have hlast : w'.objs.getD w.objs.length default = x := by
    rw [hx]
    have := getD_append_right' w.objs [x] 0 default
    simpa using this
  have hcell : ∀ f, (w'.write a c).cell w.objs.length f = w'.cell w.objs.length f := by
    intro f
    simp only [cell_def, World.write, hlast]
    cases hl : x.fields.lookup f with
    | none => rfl
    | some b =>
      obtain ⟨l₁, l₂, hl', _⟩ := List.lookup_eq_some_iff.1 hl
      have hb : w.arrs.length ≤ b := hge (f, b) (by rw [hl']; simp)
      simp only [List.getD_eq_getElem?_getD]
      rw [List.getElem?_set_ne (by omega)]
  simp only [World.view, hcell]
  rfl

/-- INDEPENDENCE, receiver ← result: an in-place write into any NEW array (in particular every array of the masked
mesh) is invisible through every object that existed before the call -/
theorem Grows.write_new_invisible {w w' : World α} (h : Grows w w') (hv : w.Valid) (a : Nat) (ha : w.arrs.length ≤ a)
    (c : Arr α) (o : Nat) (ho : o < w.objs.length) : (w'.write a c).view o = w.view o := by
  rw [← h.view_old hv o ho]
  obtain ⟨⟨A, hA⟩, x, hx, _⟩ := h
  have hob : w'.objs.getD o default = w.objs.getD o default := by rw [hx, getD_append_left' _ _ _ _ ho]
  have hcell : ∀ f, (w'.write a c).cell o f = w'.cell o f := by
    intro f
    simp only [cell_def, World.write, hob]
    cases hl : (w.objs.getD o default).fields.lookup f with
    | none => rfl
    | some b =>
      have hlt : b < w.arrs.length := addr_lt w hv o f b hl
      simp only [List.getD_eq_getElem?_getD]
      rw [List.getElem?_set_ne (by omega)]
  simp only [World.view, hcell]
  rfl


/-! ## landmarks and the texture image are carried through masking as owned copies -/

theorem filter_reloc (n : Nat) (big : List (Arr α)) (g : Nat → Arr α) : ∀ (fs : List (Fld × Nat)) (j : Nat),
    (∀ i (h : i < fs.length), big.getD (n + (j + i)) default = g (fs[i].2)) →
    ((reloc n fs j).filter (fun p => p.1.isExtra)).map (fun p => (p.1, big.getD p.2 default))
      = (fs.filter (fun p => p.1.isExtra)).map (fun p => (p.1, g p.2)) := by
  intro fs
  induction fs with
  | nil => intro j _; rfl
  | cons p rest ih =>
    obtain ⟨k, a0⟩ := p
    intro j h
    rw [reloc_cons]
    have h0 := h 0 (by simp)
    have ih' := ih (j + 1) (fun i hi => by
      have := h (i + 1) (by simp; omega)
      simpa [Nat.add_assoc, Nat.add_comm 1 i] using this)
    simp only [List.filter_cons]
    cases hk : k.isExtra
    · simpa using ih'
    · simp only [if_true, List.map_cons, ih']
      simp only [Nat.add_zero, List.getElem_cons_zero] at h0
      rw [h0]

theorem extras_copy_new (w : World α) (s : Nat) : (w.copyObj s).2.extras w.objs.length = w.extras s := by
  unfold World.extras
  rw [copyObj_obj_new, copyObj_arrs]
  apply filter_reloc w.arrs.length _ (fun a => w.arrs.getD a default) (w.objs.getD s default).fields 0
  intro i hi
  rw [Nat.zero_add, getD_append_right']
  rw [List.getD_eq_getElem?_getD, List.getElem?_map, List.getElem?_eq_getElem hi]
  rfl

theorem filter_setKey (fs : List (Fld × Nat)) (f : Fld) (a : Nat) (hf : f.isExtra = false) :
    (fs.map (fun p => if (p.1 == f) = true then (f, a) else p)).filter (fun p => p.1.isExtra)
      = fs.filter (fun p => p.1.isExtra) := by
  induction fs with
  | nil => rfl
  | cons p rest ih =>
    simp only [List.map_cons, List.filter_cons, ih]
    by_cases hp : (p.1 == f) = true
    · have : p.1 = f := by simpa using hp
      simp [hp, hf, this ▸ hf]
    · simp [hp]

theorem filter_setAssoc (fs : List (Fld × Nat)) (f : Fld) (a : Nat) (hf : f.isExtra = false) :
    (setAssoc fs f a).filter (fun p => p.1.isExtra) = fs.filter (fun p => p.1.isExtra) := by
  unfold setAssoc
  split
  · exact filter_setKey fs f a hf
  · simp [List.filter_append, hf]

theorem extras_bind_fresh (w : World α) (o : Nat) (f : Fld) (c : Arr α) (hf : f.isExtra = false) (hv : w.Valid)
    (ho : o < w.objs.length) (o' : Nat) : (w.bind o f c none).extras o' = w.extras o' := by
  unfold World.extras
  rw [bind_obj w o f c ho, bind_arrs]
  have hcontent : ∀ ob ∈ w.objs, ∀ p ∈ ob.fields, (w.arrs ++ [c]).getD p.2 default = w.arrs.getD p.2 default := by
    intro ob hob p hp
    exact getD_append_left' _ _ _ _ (hv ob hob p hp)
  by_cases h : o' = o
  · subst h
    simp only [if_true, filter_setAssoc _ f _ hf]
    apply List.map_congr_left
    intro p hp
    rw [hcontent _ (getD_mem w.objs o' ho) p (List.mem_of_mem_filter hp)]
  · simp only [h, if_false]
    apply List.map_congr_left
    intro p hp
    by_cases ho' : o' < w.objs.length
    · rw [hcontent _ (getD_mem w.objs o' ho') p (List.mem_of_mem_filter hp)]
    · rw [List.getD_eq_getElem?_getD, List.getElem?_eq_none (by omega)] at hp
      simp [default] at hp

theorem extras_bind_points (w : World α) (o : Nat) (c : Arr α) (hv : w.Valid) (ho : o < w.objs.length) (o' : Nat) :
    (w.bind o .points c none).extras o' = w.extras o' := extras_bind_fresh w o .points c rfl hv ho o'
theorem extras_bind_trilist (w : World α) (o : Nat) (c : Arr α) (hv : w.Valid) (ho : o < w.objs.length) (o' : Nat) :
    (w.bind o .trilist c none).extras o' = w.extras o' := extras_bind_fresh w o .trilist c rfl hv ho o'
theorem extras_bind_colours (w : World α) (o : Nat) (c : Arr α) (hv : w.Valid) (ho : o < w.objs.length) (o' : Nat) :
    (w.bind o .colours c none).extras o' = w.extras o' := extras_bind_fresh w o .colours c rfl hv ho o'
theorem extras_bind_tcoords (w : World α) (o : Nat) (c : Arr α) (hv : w.Valid) (ho : o < w.objs.length) (o' : Nat) :
    (w.bind o .tcoords c none).extras o' = w.extras o' := extras_bind_fresh w o .tcoords c rfl hv ho o'

/-- CARRIED ALONG (landmarks, texture image): the object returned by the translated `from_mask` holds, for the
texture pixels and for every landmark group (same labels, same order), a cell with the content the receiver's has —
and by `genFromMaskH_grows` each of them is a new cell: an owned copy -/
theorem genFromMaskH_extras (k : Kind) (w : World α) (s : Nat) (mask : List Bool) (r : Nat) (w' : World α)
    (hv : w.Valid) (h : genFromMaskH k w s mask = .ok (r, w')) : w'.extras r = w.extras s := by
  have hv0 := valid_copy w s hv
  have hlt : w.objs.length < w.objs.length + 1 := Nat.lt_succ_self _
  cases k <;>
  · simp only [genFromMaskH, genFromMaskTriMeshH, genFromMaskColouredH, genFromMaskTexturedH, copyObj_fst] at h
    generalize genReindexAdjacencyArray _ = res at h
    by_cases h1 : (shape0 mask != shape0 (w.getRows s Fld.points).val) = true <;>
    by_cases h2 : Np.all mask = true <;>
    cases res <;>
    simp only [h1, h2, if_true, if_false, Bool.not_true, Bool.not_false, Bool.false_eq_true, Except.map, IVal.fresh,
      World.setIdx, World.setRows, RVal.fresh, not_true_eq_false, not_false_eq_true] at h <;>
    cases h <;>
    simp (maxDischargeDepth := 8) only [extras_bind_points, extras_bind_trilist, extras_bind_colours,
      extras_bind_tcoords, valid_bind_fresh, hv0, bind_objs_length, copy_objs_length, hlt, extras_copy_new]

/-! ## `from_tri_mask` on the heap -/

/-- the heap-level `from_tri_mask` IS the class's heap-level `from_mask` on the vertex mask it builds -/
theorem genFromTriMaskH_eq (k : Kind) (w : World α) (s : Nat) (tm : List Bool) :
    genFromTriMaskH k w s tm =
      (Np.boolIndex (w.view s).trilist tm).bind (fun t0 =>
        genFromMaskH k w s (Np.setConst (Np.zerosBool (w.view s).points.length) (Np.unique (Np.ravel t0)) true)) := by
  unfold genFromTriMaskH
  try dsimp only
  have h1 : (w.getIdx s).val = (w.view s).trilist := rfl
  have h2 : (w.getRows s .points).val = (w.view s).points := rfl
  rw [h1, h2]
  cases Np.boolIndex (w.view s).trilist tm with
  | error e => rfl
  | ok t0 =>
    simp only [Except.bind, shape0]
    cases genFromMaskH k w s _ with
    | error e => rfl
    | ok p => rfl

/-- OBLIGATION (heap level) for `TriMesh.from_tri_mask`: read back from the heap it is the value-level translation -/
theorem genFromTriMaskH_view (k : Kind) (w : World α) (s : Nat) (tm : List Bool) (hv : w.Valid) (hs : s < w.objs.length) :
    (genFromTriMaskH k w s tm).map (fun p => p.2.view p.1) = genFromTriMask k (w.view s) tm := by
  rw [genFromTriMaskH_eq]
  unfold genFromTriMask
  try dsimp only
  cases Np.boolIndex (w.view s).trilist tm with
  | error e => rfl
  | ok t0 =>
    simp only [Except.bind, shape0]
    exact genFromMaskH_view k w s _ hv hs

theorem genFromTriMaskH_inv (k : Kind) (w : World α) (s : Nat) (tm : List Bool) (r : Nat) (w' : World α)
    (h : genFromTriMaskH k w s tm = .ok (r, w')) : ∃ m, genFromMaskH k w s m = .ok (r, w') := by
  rw [genFromTriMaskH_eq] at h
  cases hb : Np.boolIndex (w.view s).trilist tm with
  | error e => rw [hb] at h; cases h
  | ok t0 => rw [hb] at h; exact ⟨_, h⟩

/-! ## the masking clauses of C17 for mesh OBJECTS (what `INFO["partial"]` used to leave to the correspondence) -/

/-- PROPERTY (objects): for a valid heap, an object `s` of class `k` and any mask, when the translated `from_mask`
(or `from_tri_mask`) of the class succeeds with object `r` in heap `w'`:
* `r` is a new object and every existing object — the receiver included — has exactly the arrays it had;
* the arrays of `r` are those the value-level `from_mask` computes from the receiver's (so every theorem about the
  value-level translation — whole triangles, consistent renumbering, payloads sliced with the orphan-corrected mask —
  holds of the object);
* the texture pixels and every landmark group of `r` have the content the receiver's have;
* every array `r` holds is a new cell: none is shared with (or a view of) an array that existed before, so writing
  into the receiver's arrays does not change `r` and writing into `r`'s arrays changes no existing object;
* the heap stays valid (the call can be followed by any other). -/
theorem src_from_mask_objects (k : Kind) (w : World α) (s : Nat) (mask : List Bool) (r : Nat) (w' : World α)
    (hv : w.Valid) (hs : s < w.objs.length) (h : genFromMaskH k w s mask = .ok (r, w')) :
    r = w.objs.length ∧ w'.objs.length = w.objs.length + 1 ∧
    (∀ o, o < w.objs.length → w'.view o = w.view o ∧ w'.objs.getD o default = w.objs.getD o default) ∧
    genFromMask k (w.view s) mask = .ok (w'.view r) ∧
    w'.extras r = w.extras s ∧
    (∀ a ∈ w'.owned r, w.arrs.length ≤ a ∧ a < w'.arrs.length) ∧
    (∀ a c, a < w.arrs.length → (w'.write a c).view r = w'.view r) ∧
    (∀ a c o, w.arrs.length ≤ a → o < w.objs.length → (w'.write a c).view o = w.view o) ∧
    w'.Valid := by
  obtain ⟨hr, hg⟩ := genFromMaskH_grows k w s mask r w' h
  have hv' := genFromMaskH_valid k w s mask r w' hv h
  have hview := genFromMaskH_view k w s mask hv hs
  rw [h] at hview
  subst hr
  obtain ⟨hf1, hf2, hf3, hf4⟩ := hg.frame
  refine ⟨rfl, hf3, ?_, hview.symm, genFromMaskH_extras k w s mask _ w' hv h, ?_, ?_, ?_, hv'⟩
  · intro o ho
    refine ⟨hg.view_old hv o ho, ?_⟩
    obtain ⟨_, x, hx, _⟩ := hg
    rw [hx, getD_append_left' _ _ _ _ ho]
  · intro a ha
    refine ⟨hf4 a ha, ?_⟩
    unfold World.owned at ha
    obtain ⟨p, hp, rfl⟩ := List.mem_map.1 ha
    exact hv' _ (getD_mem w'.objs w.objs.length (by omega)) p hp
  · intro a c ha; exact hg.write_old_invisible a ha c
  · intro a c o ha ho; exact hg.write_new_invisible hv a ha c o ho

/-- the same for `from_tri_mask` -/
theorem src_from_tri_mask_objects (k : Kind) (w : World α) (s : Nat) (tm : List Bool) (r : Nat) (w' : World α)
    (hv : w.Valid) (hs : s < w.objs.length) (h : genFromTriMaskH k w s tm = .ok (r, w')) :
    r = w.objs.length ∧
    (∀ o, o < w.objs.length → w'.view o = w.view o) ∧
    genFromTriMask k (w.view s) tm = .ok (w'.view r) ∧
    w'.extras r = w.extras s ∧
    (∀ a ∈ w'.owned r, w.arrs.length ≤ a) ∧ w'.Valid := by
  obtain ⟨m, hm⟩ := genFromTriMaskH_inv k w s tm r w' h
  obtain ⟨h1, _, h3, _, h5, h6, _, _, h9⟩ := src_from_mask_objects k w s m r w' hv hs hm
  have hview := genFromTriMaskH_view k w s tm hv hs
  rw [h] at hview
  exact ⟨h1, fun o ho => (h3 o ho).1, hview.symm, h5, fun a ha => (h6 a ha).1, h9⟩

/-! ### histories on the heap: any sequence of maskings leaves every existing object as it was -/

/-- one masking call on the heap: `(class, receiver, by triangles?, mask)` -/
abbrev MaskOp := Kind × Nat × Bool × List Bool

def stepOp (w : World α) (op : MaskOp) : World α :=
  match (if op.2.2.1 then genFromTriMaskH op.1 w op.2.1 op.2.2.2 else genFromMaskH op.1 w op.2.1 op.2.2.2) with
  | .ok p => p.2
  | .error _ => w

/-- PROPERTY (histories of objects): along ANY sequence of `from_mask` / `from_tri_mask` calls on any receivers —
successful or refused — the heap stays valid, no object is ever removed, and every object that exists at some point
keeps its arrays for ever after -/
theorem heap_history (ops : List MaskOp) : ∀ (w : World α), w.Valid →
    (ops.foldl stepOp w).Valid ∧ w.objs.length ≤ (ops.foldl stepOp w).objs.length ∧
    ∀ o, o < w.objs.length → (ops.foldl stepOp w).view o = w.view o := by
  induction ops with
  | nil => intro w hv; exact ⟨hv, Nat.le_refl _, fun _ _ => rfl⟩
  | cons op rest ih =>
    intro w hv
    have hstep : (stepOp w op).Valid ∧ w.objs.length ≤ (stepOp w op).objs.length ∧
        ∀ o, o < w.objs.length → (stepOp w op).view o = w.view o := by
      unfold stepOp
      by_cases hs : op.2.1 < w.objs.length
      · split
        · rename_i p hp
          by_cases hb : op.2.2.1 = true
          · simp only [hb, if_true] at hp
            obtain ⟨h1, h2, _, _, _, h6⟩ := src_from_tri_mask_objects op.1 w op.2.1 op.2.2.2 p.1 p.2 hv hs hp
            obtain ⟨m, hm⟩ := genFromTriMaskH_inv _ _ _ _ _ _ hp
            have := (src_from_mask_objects op.1 w op.2.1 m p.1 p.2 hv hs hm).2.1
            exact ⟨h6, by omega, h2⟩
          · simp only [hb, Bool.false_eq_true, if_false] at hp
            obtain ⟨_, h2, h3, _, _, _, _, _, h9⟩ := src_from_mask_objects op.1 w op.2.1 op.2.2.2 p.1 p.2 hv hs hp
            exact ⟨h9, by omega, fun o ho => (h3 o ho).1⟩
        · exact ⟨hv, Nat.le_refl _, fun _ _ => rfl⟩
      · -- a receiver that does not exist: whatever the call does is outside the model's objects; the frame
        -- lemmas still apply (they do not need the receiver to exist)
        split
        · rename_i p hp
          have hgv : p.1 = w.objs.length ∧ Grows w p.2 ∧ p.2.Valid := by
            by_cases hb : op.2.2.1 = true
            · simp only [hb, if_true] at hp
              obtain ⟨m, hm⟩ := genFromTriMaskH_inv _ _ _ _ _ _ hp
              exact ⟨(genFromMaskH_grows _ _ _ _ _ _ hm).1, (genFromMaskH_grows _ _ _ _ _ _ hm).2,
                genFromMaskH_valid _ _ _ _ _ _ hv hm⟩
            · simp only [hb, Bool.false_eq_true, if_false] at hp
              exact ⟨(genFromMaskH_grows _ _ _ _ _ _ hp).1, (genFromMaskH_grows _ _ _ _ _ _ hp).2,
                genFromMaskH_valid _ _ _ _ _ _ hv hp⟩
          obtain ⟨_, hg, hv'⟩ := hgv
          exact ⟨hv', by have := hg.frame.2.2.1; omega, fun o ho => hg.view_old hv o ho⟩
        · exact ⟨hv, Nat.le_refl _, fun _ _ => rfl⟩
    obtain ⟨hv1, hl1, hview1⟩ := hstep
    obtain ⟨hv2, hl2, hview2⟩ := ih (stepOp w op) hv1
    refine ⟨hv2, by simp only [List.foldl_cons]; omega, ?_⟩
    intro o ho
    simp only [List.foldl_cons]
    rw [hview2 o (by omega), hview1 o ho]


/-! ### non-vacuity: a TexturedTriMesh with two landmark groups on a heap that also holds another mesh -/

/-- cells 0-5: a textured mesh (points, trilist, tcoords, texture pixels, landmark groups "a" and "b");
cells 6-7: a plain mesh -/
def exWorld : World Nat :=
  { arrs := [.rows [10, 11, 12, 13, 14, 15, 16], .idx [[0, 1, 2], [1, 3, 2], [4, 5, 6]],
             .rows [30, 31, 32, 33, 34, 35, 36], .rows [90, 91], .rows [70, 71], .rows [80],
             .rows [1, 2, 3], .idx [[0, 1, 2]]],
    objs := [{ kind := .textured, ndims := 3,
               fields := [(.points, 0), (.trilist, 1), (.tcoords, 2), (.texture, 3), (.lm "a", 4), (.lm "b", 5)] },
             { kind := .plain, ndims := 2, fields := [(.points, 6), (.trilist, 7)] }] }

instance (w : World Nat) : Decidable w.Valid := by unfold World.Valid; exact inferInstance

example : exWorld.Valid ∧ 0 < exWorld.objs.length := by decide

/-- vertex 1 masked away: the strip dies, its other vertices become orphans, the isolated triangle stays -/
def exHeapMask : List Bool := [true, false, true, true, true, true, true]

example : (genFromMaskH .textured exWorld 0 exHeapMask).toOption.map (fun p => (p.1, p.2.view p.1))
    = some (2, { ndims := 3, points := [14, 15, 16], colours := [], tcoords := [34, 35, 36], trilist := [[0, 1, 2]] }) := by
  decide
example : (genFromMaskH .textured exWorld 0 exHeapMask).toOption.map
      (fun p => (p.2.extras p.1, (p.2.owned p.1).all (fun a => decide (8 ≤ a)), (p.2.owned p.1).length))
    = some ([(.texture, .rows [90, 91]), (.lm "a", .rows [70, 71]), (.lm "b", .rows [80])], true, 6) := by
  decide
example : (genFromMaskH .textured exWorld 0 exHeapMask).toOption.map
      (fun p => (p.2.view 0 == exWorld.view 0, p.2.view 1 == exWorld.view 1, p.2.arrs.take 8 == exWorld.arrs))
    = some (true, true, true) := by decide
example : (genFromTriMaskH .textured exWorld 0 [false, true, false]).toOption.map (fun p => (p.2.view p.1).points)
    = some [11, 12, 13] := by decide
example : (genFromMaskH .textured exWorld 0 [true, true]).toOption = none := by decide

end MenpoModel.C17.HeapProps
