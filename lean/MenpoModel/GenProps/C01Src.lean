/-
C01 — the translator tie.  `Generated/C01Src.lean` is written on every run by harness/trans_c01.py from the SOURCE TEXT
of menpo/image/base.py, masked.py, boolean.py, interpolation.py and menpo/transform/compositions.py; this file proves
every translated definition equal, for all arguments, to the hand-written definition the C01 theorems are about:

  * the sampler and the funnel (`scipy_interpolation`, the three `sample`, `_build_warp_to_shape`, the three
    `warp_to_shape`) = `samplePixels`, `imageWarp` / `maskedWarp` / `booleanWarp` (`Core/C01Src.lean`);
  * every public operation = its plan (`Core/C01Warp.lean`, `Core/C01Ext.lean`) executed through the funnel
    (`Plan2.result`, `Plan2.cropResult`), error kinds included;
  * the generators `pyramid` / `gaussian_pyramid` = the recursion `levelsObj` over the translated level step.

The proofs unfold the translated definition, rewrite the callees by their own equations and split on every decision
(`cases` on the class tag / the options, `split_ifs`, `simp_all`, `omega`), so a harmless rewrite of the Python keeps
them while a changed decision breaks them.  Hand-written; fails to build exactly when the source changed its meaning.
-/
import MenpoModel.Generated.C01Src
import MenpoModel.Props.C01

set_option linter.unusedSimpArgs false

namespace MenpoModel.C01.GenProps
open MenpoModel.C01 MenpoModel.C01.Src MenpoModel.C01.Gen

theorem foldl_set_range {β : Type} (g : Nat → β) : ∀ (k : Nat) (init : List β), k ≤ init.length →
    (List.range k).foldl (fun acc i => acc.set i (g i)) init = (List.range k).map g ++ init.drop k := by
  intro k
  induction k with
  | zero => intro init _; simp
  | succ k ih =>
    intro init hk
    rw [List.range_succ, List.foldl_append, ih init (by omega)]
    simp only [List.foldl_cons, List.foldl_nil, List.map_append, List.map_cons, List.map_nil]
    have hlen : ((List.range k).map g).length = k := by simp
    have hd : init.drop k = init[k] :: init.drop (k + 1) := List.drop_eq_getElem_cons (by omega)
    rw [List.set_append_right k (g k) (by simp), hlen, Nat.sub_self, hd, List.set_cons_zero]
    simp only [List.append_assoc, List.singleton_append]

theorem map_range_getD {α β : Type} (l : List α) (d : α) (F : α → β) :
    (List.range l.length).map (fun i => F (l.getD i d)) = l.map F := by
  apply List.ext_getElem
  · simp
  · intro i h1 h2
    simp at h1
    simp [List.getD_eq_getElem?_getD, h1]


/-! ## the sampler -/

theorem foldl_setSampled (b : Bool) (g : Nat → V2 → Rat) (l : List Nat) : ∀ (vs : List (V2 → Rat)),
    l.foldl (fun (acc : Sampled) i => setSampled acc i (g i)) ⟨b, vs⟩
      = ⟨b, l.foldl (fun acc i => acc.set i (g i)) vs⟩ := by
  induction l with
  | nil => intro vs; rfl
  | cons a l ih => intro vs; simp only [List.foldl_cons, setSampled]; exact ih _

/-- `scipy_interpolation` (translated: the loop over the channels) samples every channel at every point -/
theorem genScipyInterpolation_eq (spl : Spl) (px : Pixels) (pts : PtArr) (mode : String) (order : Nat) (cval : Rat) :
    genScipyInterpolation spl px pts mode order cval = samplePixels spl px pts mode order cval := by
  unfold genScipyInterpolation samplePixels
  simp only [Py.forLoop_eq_foldl, PyIter.iter, pyRange, id, emptySampled, nChannelsP]
  have h := foldl_setSampled px.isBool
    (fun i => mapCoordinates spl px.isBool (channel px i) pts mode order cval) (List.range px.ch.length)
    (List.replicate px.ch.length (fun (_ : V2) => (0 : Rat)))
  have h2 : (List.range px.ch.length).foldl
      (fun (acc : Sampled) i => setSampled acc i (mapCoordinates spl acc.isBool (channel px i) pts mode order cval))
      ⟨px.isBool, List.replicate px.ch.length (fun (_ : V2) => (0 : Rat))⟩
      = (List.range px.ch.length).foldl
      (fun (acc : Sampled) i => setSampled acc i (mapCoordinates spl px.isBool (channel px i) pts mode order cval))
      ⟨px.isBool, List.replicate px.ch.length (fun (_ : V2) => (0 : Rat))⟩ := by
    generalize List.replicate px.ch.length (fun (_ : V2) => (0 : Rat)) = vs
    generalize List.range px.ch.length = l
    induction l generalizing vs with
    | nil => rfl
    | cons a l ih => simp only [List.foldl_cons, setSampled]; exact ih _
  rw [h2, h, foldl_set_range _ _ _ (by simp)]
  simp only [List.drop_replicate, Nat.sub_self, List.replicate_zero, List.append_nil]
  congr 1
  exact map_range_getD px.ch (fun _ _ => 0)
    (fun f => fun q => samplerOf spl order (effMode px.isBool mode cval) ⟨px.h, px.w, f⟩ (pts q))

theorem genImageSample_eq (spl : Spl) (o : Obj) (pts : PtArr) (order : Nat) (mode : String) (cval : Rat) :
    genImageSample spl o pts order mode cval = .ok (samplePixels spl o.pix pts mode order cval) := by
  simp only [genImageSample, genScipyInterpolation_eq, pixelsOf, PyNum.num, id]

theorem genBooleanSample_eq (spl : Spl) (o : Obj) (pts : PtArr) (mode : String) (cval : Rat) :
    genBooleanSample spl o pts mode cval = .ok (samplePixels spl o.pix pts mode 0 cval) := by
  simp only [genBooleanSample, genImageSample_eq, PyNum.num, id]

theorem genMaskedSample_eq (spl : Spl) (o : Obj) (pts : PtArr) (order : Nat) (mode : String) (cval : Rat) :
    genMaskedSample spl o pts order mode cval false = .ok (samplePixels spl o.pix pts mode order cval) := by
  simp [genMaskedSample, genImageSample_eq, PyNum.num]

/-- `self.sample(…)` on an object of any class, as `Image.warp_to_shape` calls it -/
theorem sample_dispatch (spl : Spl) (o : Obj) (pts : PtArr) (order : Nat) (mode : String) (cval : Rat) :
    (match o.cls with
      | .image => genImageSample spl o pts order mode (PyNum.num cval)
      | .masked => genMaskedSample spl o pts order mode (PyNum.num cval) false
      | .boolean => genBooleanSample spl o pts mode (PyNum.num cval))
      = .ok (samplePixels spl o.pix pts mode (clsOrder o.cls order) cval) := by
  cases o.cls <;> simp [genImageSample_eq, genMaskedSample_eq, genBooleanSample_eq, clsOrder, PyNum.num]

/-! ## the funnel -/

theorem genBuildWarpToShape_eq (o : Obj) (px : Pixels) (T : TObj) (wl rt : Bool) :
    genBuildWarpToShape o px T wl rt = .ok (mkRet rt ⟨.image, px, none, warpLms o T wl, o.path⟩ T) := by
  unfold genBuildWarpToShape
  rcases o with ⟨cls, pix, mask, lms, path⟩
  cases wl <;> cases rt <;> cases path <;> cases lms <;>
    simp [mkRet, warpLms, newImage, hasLandmarks, setLandmarks, landmarksOf, mapLandmarks, hasPath, setPath, pathOf,
      ToRet.toRet]

theorem genImageWarpToShape_eq (spl : Spl) (o : Obj) (shape : IVec) (T : TObj) (wl : Bool) (order : Nat)
    (mode : String) (cval : Rat) (batch : Option Nat) (rt : Bool) :
    genImageWarpToShape spl o shape T wl order mode cval batch rt
      = .ok (mkRet rt (imageWarp spl o shape T wl order mode cval) T) := by
  unfold genImageWarpToShape
  rcases o with ⟨cls, pix, mask, lms, path⟩
  cases cls <;>
    simp [genImageSample_eq, genMaskedSample_eq, genBooleanSample_eq, genBuildWarpToShape_eq, imageWarp, warpPixels,
      reshapeSampled, samplePixels, applyPts, indicesForImageOfShape, clsOrder, PyNum.num, Function.comp_def]


theorem genBooleanWarpToShape_eq (spl : Spl) (o : Obj) (shape : IVec) (T : TObj) (wl : Bool)
    (mode : String) (cval : Rat) (batch : Option Nat) (rt : Bool) :
    genBooleanWarpToShape spl o shape T wl mode cval batch rt
      = .ok (mkRet rt (booleanWarp spl o shape T wl mode cval) T) := by
  unfold genBooleanWarpToShape
  simp only [genImageWarpToShape_eq, PyNum.num, id]
  rcases o with ⟨cls, pix, mask, lms, path⟩
  cases rt <;> cases path <;> cases hl : (warpLms ⟨cls, pix, mask, lms, none⟩ T wl) <;>
    simp_all [mkRet, Except.map, Ret.obj, imageWarp, booleanWarp, newBoolean, pixelsOf, hasLandmarks, setLandmarks,
      landmarksOf, hasPath, setPath, pathOf, ToRet.toRet, warpLms]


theorem genMaskedWarpToShape_eq (spl : Spl) (o : Obj) (shape : IVec) (T : TObj) (wl : Bool) (order : Nat)
    (mode : String) (cval : Rat) (batch : Option Nat) (rt : Bool) :
    genMaskedWarpToShape spl o shape T wl order mode cval batch rt
      = .ok (mkRet rt (maskedWarp spl o shape T wl order mode cval) T) := by
  unfold genMaskedWarpToShape
  simp only [genImageWarpToShape_eq, genBooleanWarpToShape_eq, PyNum.num, id]
  rcases o with ⟨cls, pix, mask, lms, path⟩
  cases rt <;> cases path <;>
    simp [mkRet, Except.map, Ret.obj, imageWarp, maskedWarp, asMasked, hasPath, setPath, pathOf, ToRet.toRet]

/-- **the funnel, dispatched**: `self.warp_to_shape(shape, T, …)` on an object of any of the three classes (the
`match` on the class tag the translator writes at every call site, each arm with the defaults of its own supplier)
is `warpObj` -/
theorem warp_dispatch (spl : Spl) (o : Obj) (shape : IVec) (T : TObj) (wl : Bool) (order : Nat)
    (mode : String) (cval : Rat) (cvalB : Bool) (batch : Option Nat) (rt : Bool) (hc : PyNum.num cvalB = cval) :
    (match o.cls with
      | .image => genImageWarpToShape spl o shape T wl order mode cval batch rt
      | .masked => genMaskedWarpToShape spl o shape T wl order mode cval batch rt
      | .boolean => genBooleanWarpToShape spl o shape T wl mode (PyNum.num cvalB) batch rt)
      = .ok (mkRet rt (warpObj spl o shape T wl order mode cval) T) := by
  rcases o with ⟨cls, pix, mask, lms, path⟩
  cases cls <;> simp [genImageWarpToShape_eq, genMaskedWarpToShape_eq, genBooleanWarpToShape_eq, warpObj, hc]


/-! ## `warp_to_mask` -/

theorem zipWith_replicate_map {α β γ : Type} (z : α) (F : α → β → γ) (l : List β) :
    List.zipWith F (List.replicate l.length z) l = l.map (F z) := by
  induction l with
  | nil => rfl
  | cons a l ih => simp [List.replicate_succ, ih]

theorem genImageBuildWarpToMask_eq (o tmpl : Obj) (s : Sampled) (hn : s.vals.length = o.pix.ch.length) :
    genImageBuildWarpToMask o tmpl s
      = ⟨.masked, ⟨tmpl.pix.h, tmpl.pix.w,
          s.vals.map (fun f => fun i j => if (imgOfObj tmpl).px i j = 0 then 0 else f (gridPt2 i j)), false⟩,
         some (imgOfObj tmpl), [], none⟩ := by
  simp only [genImageBuildWarpToMask, maskedBlank, fromSampledMasked, writeMask, nChannels, Option.getD_some, ← hn,
    zipWith_replicate_map]

/-- `Image.warp_to_mask` on an `Image` or a `MaskedImage` -/
theorem genImageWarpToMask_eq (spl : Spl) (o tmpl : Obj) (T : TObj) (wl : Bool) (order : Nat) (mode : String)
    (cval : Rat) (batch : Option Nat) (rt : Bool) (hc : o.cls ≠ .boolean) :
    genImageWarpToMask spl o tmpl T wl order mode cval batch rt
      = .ok (mkRet rt (imageWarpToMask spl o tmpl T wl order mode cval) T) := by
  unfold genImageWarpToMask
  rcases o with ⟨cls, pix, mask, lms, path⟩
  cases cls
  case boolean => exact absurd rfl hc
  all_goals
    simp only [genImageSample_eq, genMaskedSample_eq, PyNum.num, id, bne_self_eq_false, Bool.false_eq_true, if_false]
    rw [genImageBuildWarpToMask_eq _ _ _ (by simp [samplePixels])]
    cases wl <;> cases rt <;> cases path <;> cases lms <;>
      simp [mkRet, warpLms, imageWarpToMask, warpToMaskChannels, samplePixels, applyPts, trueIndexPts, clsOrder,
        hasLandmarks, setLandmarks, landmarksOf, mapLandmarks, hasPath, setPath, pathOf, ToRet.toRet, Function.comp_def]

/-- `MaskedImage.warp_to_mask`: `Image.warp_to_mask`, then the template is attached as the mask (it already is) -/
theorem genMaskedWarpToMask_eq (spl : Spl) (o tmpl : Obj) (T : TObj) (wl : Bool) (order : Nat) (mode : String)
    (cval : Rat) (batch : Option Nat) (rt : Bool) (hc : o.cls ≠ .boolean) :
    genMaskedWarpToMask spl o tmpl T wl order mode cval batch rt
      = .ok (mkRet rt (imageWarpToMask spl o tmpl T wl order mode cval) T) := by
  unfold genMaskedWarpToMask
  simp only [genImageWarpToMask_eq spl o tmpl T wl order mode _ batch false hc, PyNum.num, id]
  cases rt <;> simp [mkRet, Except.map, Ret.obj, setMask, imageWarpToMask, ToRet.toRet]

/-- `BooleanImage.warp_to_mask`: order 0, the result is built on a copy of the template -/
theorem genBooleanWarpToMask_eq (spl : Spl) (o tmpl : Obj) (T : TObj) (wl : Bool) (mode : String)
    (cval : Rat) (batch : Option Nat) (rt : Bool) (hc : o.cls = .boolean) :
    genBooleanWarpToMask spl o tmpl T wl mode cval batch rt
      = .ok (mkRet rt (booleanWarpToMask spl o tmpl T wl mode cval) T) := by
  unfold genBooleanWarpToMask genImageWarpToMask
  rcases o with ⟨cls, pix, mask, lms, path⟩
  simp only at hc
  subst hc
  have hpts : applyPts T (trueIndexPts tmpl) batch = fun p => T.app p := rfl
  simp only [genBooleanSample_eq, PyNum.num, id, bne_self_eq_false, Bool.false_eq_true, if_false,
    genBooleanBuildWarpToMask, hpts]
  cases wl <;> cases rt <;> cases path <;> cases lms <;> cases hall : allTrue tmpl <;>
    simp [mkRet, booleanWarpToMask, hall, hasLandmarks, setLandmarks, landmarksOf, mapLandmarks, hasPath, setPath,
      pathOf, ToRet.toRet, setPixelsSampled, fromSampledMasked, applyPts]

/-! ## helpers -/

theorem toNat_max_zero (x : Int) : (max x 0).toNat = x.toNat := by
  rcases le_total x 0 with h | h
  · rw [max_eq_right h]; simp [Int.toNat_of_nonpos h]
  · rw [max_eq_left h]

theorem genRoundImageShape_eq (v : V2) (r : Rounding) :
    genRoundImageShape v r.name = .ok ⟨r.apply v.x, r.apply v.y⟩ := by
  cases r <;> simp [genRoundImageShape, Rounding.name, roundVec, Rounding.apply]

theorem genRoundImageShape_bad (v : V2) (s : String) (h : s ≠ "ceil" ∧ s ≠ "round" ∧ s ≠ "floor") :
    genRoundImageShape v s = .error .valueErr := by
  simp [genRoundImageShape, h.1, h.2.1, h.2.2]

theorem genCentre_eq (o : Obj) : genCentre o = centre2 o.pix.h o.pix.w := by
  simp [genCentre, centre2, shapeOf, IVec.toV]

theorem genConstrainPointsToBounds_eq (o : Obj) (p : V2) :
    genConstrainPointsToBounds o p = ⟨constrainPt o.pix.h p.x, constrainPt o.pix.w p.y⟩ := by
  have hh : (0 : Rat) ≤ (o.pix.h : Rat) := Nat.cast_nonneg _
  have hw : (0 : Rat) ≤ (o.pix.w : Rat) := Nat.cast_nonneg _
  simp only [genConstrainPointsToBounds, Owned.vwhere, AsVec.vec, hsub_owned, id, vwhere, vltZero, shapeOf, IVec.toV, constrainPt, V2.sub_def, V2.ofNat_def,
    Int.cast_natCast, decide_eq_true_eq, Nat.cast_zero]
  ext <;> simp only <;> split_ifs <;> first | rfl | (exfalso; linarith)

theorem genTransformAboutCentreT_fam (o : Obj) (pv : PinvProvider) (A : Aff2) :
    genTransformAboutCentreT o (.fam pv A) = .fam .homogeneous (aboutCentre2 (centre2 o.pix.h o.pix.w) A) := by
  simp [genTransformAboutCentreT, genCentre_eq, TObj.isHomogeneous, TObj.composeBefore, TObj.translation, aboutCentre2,
    V2.neg]

theorem genScaleAboutCentre_eq (o : Obj) (s : Rat) :
    genScaleAboutCentre o s = .fam .homogeneous (aboutCentre2 (centre2 o.pix.h o.pix.w) (scale2 s s)) := by
  simp [genScaleAboutCentre, TObj.uniformScale, genTransformAboutCentreT_fam]

theorem warpObj_shape_toNat (spl : Spl) (o : Obj) (a b : Int) (T : TObj) (wl : Bool) (order : Nat) (mode : String)
    (cval : Rat) :
    warpObj spl o ⟨a, b⟩ T wl order mode cval = warpObj spl o ⟨(a.toNat : Int), (b.toNat : Int)⟩ T wl order mode cval := by
  simp only [warpObj, imageWarp, maskedWarp, booleanWarp, warpPixels, Int.toNat_natCast]


/-! ## the operations: the translated entry point = its plan executed through the funnel -/

/-- the lemmas that evaluate the class dispatch of a `self.warp_to_shape(…)` call site -/
macro "funnel_simp" : tactic => `(tactic|
  simp [genImageWarpToShape_eq, genMaskedWarpToShape_eq, genBooleanWarpToShape_eq, warpObj, Plan2.result, Plan2.execObj,
    Plan2.effOrder, shapeOf, PyNum.num, Except.map, Except.mapError, PyExc.toErr,
    toNat_max_zero])
macro "funnel_simp" "[" ts:Lean.Parser.Tactic.simpLemma,* "]" : tactic => `(tactic|
  simp [genImageWarpToShape_eq, genMaskedWarpToShape_eq, genBooleanWarpToShape_eq, warpObj, Plan2.result, Plan2.execObj,
    Plan2.effOrder, shapeOf, PyNum.num, Except.map, Except.mapError, PyExc.toErr,
    toNat_max_zero, $ts,*])

theorem genZoom_eq (spl : Spl) (o : Obj) (s : Rat) (order : Nat) (wl rt : Bool) :
    (genZoom spl o s order wl rt).mapError PyExc.toErr
      = (zoomPlan2 o.pix.h o.pix.w s).map (fun p => p.result spl .homogeneous o order wl rt) := by
  unfold genZoom zoomPlan2 pyRecip
  by_cases hs : s = 0
  · simp [hs, Except.mapError, Except.map, PyExc.toErr]
  · simp only [hs, if_false, genScaleAboutCentre_eq]
    rcases o with ⟨cls, pix, mask, lms, path⟩
    cases cls <;> funnel_simp


theorem genMirror_neg (spl : Spl) (o : Obj) (axis : Int) (order : Nat) (wl rt : Bool) (h : axis < 0) :
    genMirror spl o axis order wl rt = .error .valueErr := by
  simp [genMirror, h]

theorem genMirror_eq (spl : Spl) (o : Obj) (axis : Nat) (order : Nat) (wl rt : Bool) :
    (genMirror spl o (axis : Int) order wl rt).mapError PyExc.toErr
      = (mirrorPlan2 o.pix.h o.pix.w axis).map (fun p => p.result spl .homogeneous o order wl rt) := by
  unfold genMirror mirrorPlan2
  rcases axis with _ | _ | n
  · rcases o with ⟨cls, pix, mask, lms, path⟩
    cases cls <;>
      simp [genImageWarpToShape_eq, genMaskedWarpToShape_eq, genBooleanWarpToShape_eq, warpObj, Plan2.result,
        Plan2.execObj, Plan2.effOrder, shapeOf, PyNum.num, Except.map, Except.mapError,
        ndims, mirrorMap2, TObj.pinv, TObj.composeBefore, TObj.rotation, TObj.translation, Mat.set, Mat.eye, Vec.set,
        IVec.get, pinvBy, Aff2.comp, transl2, top]
  · rcases o with ⟨cls, pix, mask, lms, path⟩
    cases cls <;>
      simp [genImageWarpToShape_eq, genMaskedWarpToShape_eq, genBooleanWarpToShape_eq, warpObj, Plan2.result,
        Plan2.execObj, Plan2.effOrder, shapeOf, PyNum.num, Except.map, Except.mapError,
        ndims, mirrorMap2, TObj.pinv, TObj.composeBefore, TObj.rotation, TObj.translation, Mat.set, Mat.eye, Vec.set,
        IVec.get, pinvBy, Aff2.comp, transl2, top]
  · have h2 : ¬ ((n : Int) + 1 + 1 < 0) := by omega
    have h3 : ((n : Int) + 1 + 1 ≥ ndims) := by simp only [ndims]; omega
    simp [h2, h3, Except.mapError, Except.map, PyExc.toErr]


theorem genRescale_seq_eq (spl : Spl) (o : Obj) (sx sy : Rat) (r : Rounding) (order : Nat) (wl rt : Bool)
    (hnd : ¬ (o.pix.h < 2 ∨ o.pix.w < 2 ∨ scaleFactor o.pix.h sx = 0 ∨ scaleFactor o.pix.w sy = 0)) :
    (genRescale spl o (.seq [sx, sy]) r.name order wl rt).mapError PyExc.toErr
      = (rescalePlan2 o.pix.h o.pix.w sx sy r).map (fun p => p.result spl .nonUniformScale o order wl rt) := by
  unfold genRescale rescalePlan2
  simp only [pyLenScale, ndims, ScaleArg.toVec, Py.forLoop_eq_foldl, PyIter.iter, genRoundImageShape_eq,
    TObj.applyVec, TObj.app, TObj.nonUniformScale, List.length_cons, List.length_nil, List.getD_cons_zero,
    List.getD_cons_succ, List.foldl_cons, List.foldl_nil, hnd, if_false]
  by_cases hx : sx ≤ 0
  · simp [hx, Except.mapError, Except.map, PyExc.toErr]
  · by_cases hy : sy ≤ 0
    · simp [hx, hy, Except.mapError, Except.map, PyExc.toErr]
    · rcases o with ⟨cls, pix, mask, lms, path⟩
      cases cls <;>
        simp [hx, hy, genImageWarpToShape_eq, genMaskedWarpToShape_eq, genBooleanWarpToShape_eq, warpObj, Plan2.result,
          Plan2.execObj, Plan2.effOrder, shapeOf, PyNum.num, Except.map, Except.mapError,
          TObj.pinv, pinvBy, scale2, Aff2.apply, IVec.toV, scaleFactor, imageWarp, maskedWarp, booleanWarp,
          warpPixels, toNat_max_zero]


theorem genRescale_scalar_eq (spl : Spl) (o : Obj) (s : Rat) (r : Rounding) (order : Nat) (wl rt : Bool)
    (hnd : ¬ (o.pix.h < 2 ∨ o.pix.w < 2 ∨ scaleFactor o.pix.h s = 0 ∨ scaleFactor o.pix.w s = 0)) :
    (genRescale spl o (.scalar s) r.name order wl rt).mapError PyExc.toErr
      = (rescalePlan2 o.pix.h o.pix.w s s r).map (fun p => p.result spl .nonUniformScale o order wl rt) := by
  unfold genRescale rescalePlan2
  simp only [pyLenScale, ndims, ScaleArg.toVec, ScaleArg.rep, Py.forLoop_eq_foldl, PyIter.iter, genRoundImageShape_eq,
    TObj.applyVec, TObj.app, TObj.nonUniformScale, List.foldl_cons, List.foldl_nil, hnd, if_false]
  by_cases hx : s ≤ 0
  · simp [hx, Except.mapError, Except.map, PyExc.toErr]
  · rcases o with ⟨cls, pix, mask, lms, path⟩
    cases cls <;>
      funnel_simp [hx, TObj.pinv, pinvBy, scale2, Aff2.apply, IVec.toV, scaleFactor, imageWarp, maskedWarp,
        booleanWarp, warpPixels]

/-- fewer scales than dimensions: `ValueError` -/
theorem genRescale_short (spl : Spl) (o : Obj) (l : List Rat) (round : String) (order : Nat) (wl rt : Bool)
    (h : l.length < 2) : genRescale spl o (.seq l) round order wl rt = .error .valueErr := by
  unfold genRescale
  have : ((l.length : Int) < ndims) := by simp only [ndims]; omega
  simp [pyLenScale, this]


theorem genDiagonal_eq (sqrtF : Rat → Rat) (o : Obj) :
    genDiagonal sqrtF o = sqrtF ((o.pix.h : Rat) * o.pix.h + (o.pix.w : Rat) * o.pix.w) := by
  simp [genDiagonal, vsum, shapeOf, IVec.toV]

/-- `rescale_to_diagonal`: `rescale(diagonal / self.diagonal(), round)` with the DEFAULT order of `rescale` (read from
its source: 1), whatever order the caller has in mind -/
theorem genRescaleToDiagonal_eq (spl : Spl) (sqrtF : Rat → Rat) (o : Obj) (d dg : Rat) (r : Rounding) (order : Nat)
    (wl rt : Bool) (hdg : sqrtF ((o.pix.h : Rat) * o.pix.h + (o.pix.w : Rat) * o.pix.w) = dg) (hpos : 0 < dg)
    (hnd : ¬ (o.pix.h < 2 ∨ o.pix.w < 2 ∨ scaleFactor o.pix.h (d / dg) = 0 ∨ scaleFactor o.pix.w (d / dg) = 0)) :
    (genRescaleToDiagonal spl sqrtF o d r.name wl rt).mapError PyExc.toErr
      = (rescaleToDiagonalPlan2 o.pix.h o.pix.w d dg r).map (fun p => p.result spl .nonUniformScale o order wl rt) := by
  unfold genRescaleToDiagonal rescaleToDiagonalPlan2
  simp only [genDiagonal_eq, hdg, ToScaleArg.conv, genRescale_scalar_eq spl o (d / dg) r 1 wl rt hnd, not_le.mpr hpos,
    if_false]
  cases hp : rescalePlan2 o.pix.h o.pix.w (d / dg) (d / dg) r with
  | error e => rfl
  | ok p => simp [Except.map, Plan2.result, Plan2.execObj, Plan2.withOrder, Plan2.effOrder,
      rescale_plan_fields hp]

theorem genRescaleToPointcloud_eq (spl : Spl) (sqrtF : Rat → Rat) (o : Obj) (target : List V2) (group : Option String)
    (ns nt : Rat) (r : Rounding) (order : Nat) (wl rt : Bool)
    (hs : sqrtF (centredSS o.lms) = ns) (ht : sqrtF (centredSS target) = nt) (hpos : 0 < ns)
    (hnd : ¬ (o.pix.h < 2 ∨ o.pix.w < 2 ∨ scaleFactor o.pix.h (nt / ns) = 0 ∨ scaleFactor o.pix.w (nt / ns) = 0)) :
    (genRescaleToPointcloud spl sqrtF o target group r.name order wl rt).mapError PyExc.toErr
      = (rescaleToPointcloudPlan2 o.pix.h o.pix.w ns nt r).map
          (fun p => p.result spl .nonUniformScale o order wl rt) := by
  unfold genRescaleToPointcloud rescaleToPointcloudPlan2
  simp only [lmGroup, alignmentUniformScale, hs, ht, ToScaleArg.conv,
    genRescale_scalar_eq spl o (nt / ns) r order wl rt hnd, not_le.mpr hpos, if_false]

theorem genRescaleLandmarksToDiagonalRange_eq (spl : Spl) (sqrtF : Rat → Rat) (o : Obj) (dr rg : Rat)
    (group : Option String) (r : Rounding) (order : Nat) (wl rt : Bool)
    (hr : sqrtF ((rangeOf o.lms).x * (rangeOf o.lms).x + (rangeOf o.lms).y * (rangeOf o.lms).y) = rg) (hpos : 0 < rg)
    (hnd : ¬ (o.pix.h < 2 ∨ o.pix.w < 2 ∨ scaleFactor o.pix.h (dr / rg) = 0 ∨ scaleFactor o.pix.w (dr / rg) = 0)) :
    (genRescaleLandmarksToDiagonalRange spl sqrtF o dr group r.name order wl rt).mapError PyExc.toErr
      = (rescaleLandmarksToDiagonalRangePlan2 o.pix.h o.pix.w dr rg r).map
          (fun p => p.result spl .nonUniformScale o order wl rt) := by
  unfold genRescaleLandmarksToDiagonalRange rescaleLandmarksToDiagonalRangePlan2
  simp only [lmGroup, hr, ToScaleArg.conv, genRescale_scalar_eq spl o (dr / rg) r order wl rt hnd, not_le.mpr hpos,
    if_false]

theorem genResize_eq (spl : Spl) (o : Obj) (nh nw : Rat) (order : Nat) (wl rt : Bool)
    (hnd : ¬ (o.pix.h < 2 ∨ o.pix.w < 2 ∨ scaleFactor o.pix.h (nh / o.pix.h) = 0 ∨ scaleFactor o.pix.w (nw / o.pix.w) = 0)) :
    (genResize spl o ⟨nh, nw⟩ order wl rt).mapError PyExc.toErr
      = (resizePlan2 o.pix.h o.pix.w nh nw).map (fun p => p.result spl .nonUniformScale o order wl rt) := by
  unfold genResize resizePlan2
  have h0 : ¬ (o.pix.h = 0 ∨ o.pix.w = 0) := by omega
  have := genRescale_seq_eq spl o (nh / o.pix.h) (nw / o.pix.w) .round order wl rt hnd
  simp only [Rounding.name] at this
  simp [vsize, ndims, ToScaleArg.conv, shapeOf, IVec.toV, h0, this]


/-! ### the crop family -/

theorem truncR_toNat (x : Rat) : (truncR x).toNat = x.floor.toNat := by
  unfold truncR
  split_ifs with h
  · have h1 : x.floor < 0 := by
      have := Rat.floor_le x
      have : ((x.floor : Int) : Rat) < 0 := lt_of_le_of_lt (Rat.floor_le x) h
      exact_mod_cast this
    have h2 : 0 ≤ (-x).floor := by
      rw [Rat.le_floor_iff]; simp only [Int.cast_zero]; linarith
    rw [Int.toNat_of_nonpos (by omega), Int.toNat_of_nonpos (by omega)]
  · rfl

theorem genCrop_eq (spl : Spl) (o : Obj) (mn mx : V2) (constrain rt : Bool) :
    (genCrop spl o mn mx constrain rt).mapError PyExc.toErr
      = (cropPlan2 o.pix.h o.pix.w mn mx constrain).map (fun p => p.cropResult spl o rt) := by
  unfold genCrop cropPlan2
  simp only [genConstrainPointsToBounds_eq, vfloor, vceil, vsize, ndims, vallGt, vallEq, beq_self_eq_true, Bool.and_self,
    Bool.not_true, Bool.false_eq_true, if_false, V2.sub_def, vtrunc]
  rcases o with ⟨cls, pix, mask, lms, path⟩
  cases cls <;> cases rt <;> cases constrain <;>
    funnel_simp [Plan2.cropResult, Ret.setPixels, pixelBlock, vzip, PyIter.iter, TObj.translation, transl2,
      truncR_toNat, imageWarp, maskedWarp, booleanWarp, warpPixels, mkRet, Ret.mapObj] <;>
    (try split_ifs) <;> (try simp_all) <;> omega


theorem genCropToPointcloud_eq (spl : Spl) (o : Obj) (pts : List V2) (boundary : Rat) (constrain rt : Bool) :
    (genCropToPointcloud spl o pts boundary constrain rt).mapError PyExc.toErr
      = (cropToPointsPlan2 o.pix.h o.pix.w pts boundary constrain).map (fun p => p.cropResult spl o rt) := by
  simp only [genCropToPointcloud, cropToPointsPlan2, genCrop_eq]

theorem genCropToLandmarks_eq (spl : Spl) (o : Obj) (group : Option String) (boundary : Rat) (constrain rt : Bool) :
    (genCropToLandmarks spl o group boundary constrain rt).mapError PyExc.toErr
      = (cropToPointsPlan2 o.pix.h o.pix.w o.lms boundary constrain).map (fun p => p.cropResult spl o rt) := by
  simp only [genCropToLandmarks, lmGroup, genCropToPointcloud_eq]

theorem genCropToPointcloudProportion_eq (spl : Spl) (o : Obj) (pts : List V2) (prop : Rat) (minimum constrain rt : Bool) :
    (genCropToPointcloudProportion spl o pts prop minimum constrain rt).mapError PyExc.toErr
      = (cropToPointsProportionPlan2 o.pix.h o.pix.w pts prop minimum constrain).map (fun p => p.cropResult spl o rt) := by
  unfold genCropToPointcloudProportion cropToPointsProportionPlan2
  cases minimum <;> simp [genCropToPointcloud_eq, vmin, vmax, rangeOf] <;> (congr 2; split_ifs with h <;> simp [h])

theorem genCropToLandmarksProportion_eq (spl : Spl) (o : Obj) (prop : Rat) (group : Option String)
    (minimum constrain rt : Bool) :
    (genCropToLandmarksProportion spl o prop group minimum constrain rt).mapError PyExc.toErr
      = (cropToPointsProportionPlan2 o.pix.h o.pix.w o.lms prop minimum constrain).map
          (fun p => p.cropResult spl o rt) := by
  simp only [genCropToLandmarksProportion, lmGroup, genCropToPointcloudProportion_eq]

/-- `BooleanImage.bounds_true(boundary, constrain_to_bounds=False)`: the bounds of the `True` pixels -/
theorem genBoundsTrue_eq (o : Obj) (boundary : Rat) :
    genBoundsTrue o boundary false
      = (match trueIndexList o with
         | [] => .error .valueErr
         | pts => .ok (boundsOf pts boundary)) := by
  unfold genBoundsTrue colMax colMin
  cases h : trueIndexList o with
  | nil => simp
  | cons a l => simp [boundsOf]

theorem genCropToTrueMask_eq (spl : Spl) (o : Obj) (mk : Img2) (boundary : Rat) (constrain rt : Bool)
    (hm : o.mask = some mk) (hh : mk.h = o.pix.h) (hw : mk.w = o.pix.w) :
    (genCropToTrueMask spl o boundary constrain rt).mapError PyExc.toErr
      = (cropToTrueMaskPlan2 mk boundary constrain).map (fun p => p.cropResult spl o rt) := by
  unfold genCropToTrueMask cropToTrueMaskPlan2
  have ht : trueIndexList (maskObj o) = trueIndices mk := by
    simp [trueIndexList, maskObj, hm, imgOfObj, trueIndices]
  rw [genBoundsTrue_eq, ht]
  cases h : trueIndices mk with
  | nil => simp [Except.mapError, Except.map, PyExc.toErr]
  | cons a l => simp only [genCrop_eq, cropToPointsPlan2, hh, hw]


/-! ### transform about the centre, rotation -/

/-- the funnel reads `mode`, `cval` only through `modeOf` -/
theorem warpObj_mode_congr (spl : Spl) (o : Obj) (shape : IVec) (T : TObj) (wl : Bool) (order : Nat)
    (mode mode' : String) (cval cval' : Rat) (h : modeOf mode cval = modeOf mode' cval') :
    warpObj spl o shape T wl order mode cval = warpObj spl o shape T wl order mode' cval' := by
  simp only [warpObj, imageWarp, maskedWarp, booleanWarp, warpPixels, effMode, h]

theorem genTransformAboutCentre_eq (spl : Spl) (o : Obj) (pv : PinvProvider) (A : Aff2) (retain : Bool) (mode : String)
    (cval : Rat) (r : Rounding) (order : Nat) (wl rt : Bool) (hdet : A.det ≠ 0) :
    (genTransformAboutCentre spl o (.fam pv A) retain mode cval r.name order wl rt).mapError PyExc.toErr
      = (aboutPlan2 o.pix.h o.pix.w A retain (modeOf mode cval) r).map
          (fun p => p.result spl .homogeneous o order wl rt) := by
  unfold genTransformAboutCentre aboutPlan2
  simp only [hdet, if_false, genTransformAboutCentreT_fam, genCentre_eq, genRoundImageShape_eq]
  rcases o with ⟨cls, pix, mask, lms, path⟩
  cases retain
  · cases cls <;>
      funnel_simp [TObj.pinv, pinvBy, TObj.composeBefore, TObj.translation, TObj.applyList, TObj.app, boundingBox,
        boundsOf, rangeOf, aboutForward2, min4, max4, IVec.toV, top, V2.neg, imageWarp, maskedWarp,
        booleanWarp, warpPixels, effMode]
  · cases cls <;> funnel_simp [TObj.pinv, pinvBy, imageWarp, maskedWarp, booleanWarp, warpPixels, effMode]


theorem genRotateCcwAboutCentre_eq (spl : Spl) (o : Obj) (c s : Rat) (degrees retain : Bool) (mode : String)
    (cval : Rat) (r : Rounding) (order : Nat) (wl rt : Bool) (hdet : (rot2 c s).det ≠ 0) :
    (genRotateCcwAboutCentre spl o (c, s) degrees retain mode cval r.name order wl rt).mapError PyExc.toErr
      = (rotatePlan2 o.pix.h o.pix.w c s retain (modeOf mode cval) r).map
          (fun p => p.result spl .homogeneous o order wl rt) := by
  unfold genRotateCcwAboutCentre rotatePlan2
  simp only [ndims, TObj.rotationOfCosSin, bne_self_eq_false, Bool.false_eq_true, if_false]
  exact genTransformAboutCentre_eq spl o .rotation (rot2 c s) retain mode cval r order wl rt hdet

/-! ### the pyramids -/

/-- one level step on objects: `image.rescale(1.0 / downscale)` with the defaults of `rescale` -/
def stepObj (spl : Spl) (downscale : Rat) (o : Obj) : Except PyExc Obj :=
  (pyRecip downscale).bind fun k => Except.map Ret.obj (genRescale spl o (.scalar k) "ceil" 1 true false)

/-- the body of the translated generator loop: identity once a level has failed, else one more level -/
def levelBody {α : Type} (step : α → Except PyExc α) (acc : Option (Except PyExc (List α)) × List α × α) :
    Option (Except PyExc (List α)) × List α × α :=
  if acc.1.isSome then acc else
    match step acc.2.2 with
    | .error e => (some (.error e), acc.2.1, acc.2.2)
    | .ok im => (none, acc.2.1 ++ [im], im)

theorem levels_fold {ι α : Type} (step : α → Except PyExc α)
    (f : Option (Except PyExc (List α)) × List α × α → ι → Option (Except PyExc (List α)) × List α × α)
    (hf : ∀ acc it, f acc it = levelBody step acc) : ∀ (l : List ι) (L : List α) (cur : α),
    (l.foldl f (none, L, cur)).1.getD (.ok (l.foldl f (none, L, cur)).2.1) = levelsFrom step l.length L cur := by
  intro l
  induction l with
  | nil => intro L cur; rfl
  | cons a l ih =>
    intro L cur
    simp only [List.foldl_cons, List.length_cons, levelsFrom, hf]
    unfold levelBody
    simp only [Option.isSome_none, Bool.false_eq_true, if_false]
    cases hs : step cur with
    | ok im => exact ih _ _
    | error e =>
      have hstop : ∀ (l : List ι) (st : Option (Except PyExc (List α)) × List α × α), st.1.isSome = true →
          l.foldl f st = st := by
        intro l
        induction l with
        | nil => intro st _; rfl
        | cons b l ih2 =>
          intro st hst
          have : f st b = st := by rw [hf]; unfold levelBody; simp [hst]
          simp only [List.foldl_cons, this]; exact ih2 st hst
      rw [hstop l _ (by rfl)]
      rfl

/-- the same, for a loop body that is only required to agree with `levelBody` in what is observed: identity once a
level has failed; on success exactly the next state; on failure the failure and the levels so far (which image the
state then holds is not observed) -/
theorem levels_fold' {ι α : Type} (step : α → Except PyExc α)
    (f : Option (Except PyExc (List α)) × List α × α → ι → Option (Except PyExc (List α)) × List α × α)
    (hstop : ∀ acc it, acc.1.isSome = true → f acc it = acc)
    (hgo : ∀ out cur it, match step cur with
      | .ok im => f (none, out, cur) it = (none, out ++ [im], im)
      | .error e => (f (none, out, cur) it).1 = some (.error e) ∧ (f (none, out, cur) it).2.1 = out) :
    ∀ (l : List ι) (L : List α) (cur : α),
    (l.foldl f (none, L, cur)).1.getD (.ok (l.foldl f (none, L, cur)).2.1) = levelsFrom step l.length L cur := by
  have hfix : ∀ (l : List ι) (st : Option (Except PyExc (List α)) × List α × α), st.1.isSome = true →
      l.foldl f st = st := by
    intro l
    induction l with
    | nil => intro st _; rfl
    | cons b l ih2 => intro st hst; simp only [List.foldl_cons, hstop st b hst]; exact ih2 st hst
  intro l
  induction l with
  | nil => intro L cur; rfl
  | cons a l ih =>
    intro L cur
    simp only [List.foldl_cons, List.length_cons, levelsFrom]
    have h := hgo L cur a
    cases hs : step cur with
    | ok im => rw [hs] at h; simp only at h; rw [h]; exact ih _ _
    | error e =>
      rw [hs] at h
      obtain ⟨h1, h2⟩ := h
      rw [hfix l _ (by rw [h1]; rfl), h1]
      rfl

theorem genPyramid_eq (spl : Spl) (o : Obj) (n : Int) (ds : Rat) :
    genPyramid spl o n ds = levelsObj (stepObj spl ds) (n - 1).toNat o := by
  unfold genPyramid levelsObj
  simp only [Py.forLoop_eq_foldl, PyIter.iter, pyRange, id, List.nil_append]
  generalize hst : List.foldl _ (none, [o], o) _ = st
  have key := fun f hf => levels_fold (ι := Int) (stepObj spl ds) f hf
    (List.map Int.ofNat (List.range (n - 1).toNat)) [o] o
  simp only [List.length_map, List.length_range] at key
  refine Eq.trans ?_ (hst ▸ key _ ?_)
  · rcases st with ⟨_ | v, out, im⟩ <;> rfl
  · intro acc it
    unfold levelBody stepObj
    rcases acc with ⟨_ | v, out, im⟩
    · cases h1 : pyRecip ds with
      | error e => simp [Except.bind]
      | ok k =>
        simp only [Except.bind, ToScaleArg.conv]
        cases h2 : genRescale spl im (.scalar k) "ceil" 1 true false <;> simp [Except.map]
    · simp

/-- one level step of `gaussian_pyramid`: `gaussian_filter(image, sigma).rescale(1.0 / downscale)` -/
def stepGaussObj (spl : Spl) (kern : Rat → List Rat) (downscale : Rat) (sigma : Option Rat) (o : Obj) : Except PyExc Obj :=
  (pyRecip downscale).bind fun k =>
    Except.map Ret.obj (genRescale spl (gaussianFilter kern o sigma) (.scalar k) "ceil" 1 true false)

theorem genGaussianPyramid_eq (spl : Spl) (kern : Rat → List Rat) (o : Obj) (n : Int) (ds : Rat) (sigma : Option Rat) :
    genGaussianPyramid spl kern o n ds sigma
      = levelsObj (stepGaussObj spl kern ds (if sigma.isNone then some (ds / 3) else sigma)) (n - 1).toNat o := by
  unfold genGaussianPyramid levelsObj
  cases sigma with
  | none =>
    simp only [Py.forLoop_eq_foldl, PyIter.iter, pyRange, id, List.nil_append, Option.isNone_none, if_true]
    generalize hst : List.foldl _ (none, [o], o) _ = st
    have key := fun f hstop hgo => levels_fold' (ι := Int) (stepGaussObj spl kern ds (some (ds / 3))) f hstop hgo
      (List.map Int.ofNat (List.range (n - 1).toNat)) [o] o
    simp only [List.length_map, List.length_range] at key
    refine Eq.trans ?_ (hst ▸ key _ ?_ ?_)
    · rcases st with ⟨_ | v, out, im⟩ <;> rfl
    · intro acc it hs
      rcases acc with ⟨_ | v, out, im⟩
      · simp at hs
      · simp
    · intro out cur it
      unfold stepGaussObj
      cases h1 : pyRecip ds with
      | error e => simp [Except.bind]
      | ok k =>
        simp only [Except.bind, ToScaleArg.conv]
        cases h2 : genRescale spl (gaussianFilter kern cur (some (ds / 3))) (.scalar k) "ceil" 1 true false <;>
          simp [Except.map, h2]
  | some sg =>
    simp only [Py.forLoop_eq_foldl, PyIter.iter, pyRange, id, List.nil_append, Option.isNone_some, Bool.false_eq_true,
      if_false]
    generalize hst : List.foldl _ (none, [o], o) _ = st
    have key := fun f hstop hgo => levels_fold' (ι := Int) (stepGaussObj spl kern ds (some sg)) f hstop hgo
      (List.map Int.ofNat (List.range (n - 1).toNat)) [o] o
    simp only [List.length_map, List.length_range] at key
    refine Eq.trans ?_ (hst ▸ key _ ?_ ?_)
    · rcases st with ⟨_ | v, out, im⟩ <;> rfl
    · intro acc it hs
      rcases acc with ⟨_ | v, out, im⟩
      · simp at hs
      · simp
    · intro out cur it
      unfold stepGaussObj
      cases h1 : pyRecip ds with
      | error e => simp [Except.bind]
      | ok k =>
        simp only [Except.bind, ToScaleArg.conv]
        cases h2 : genRescale spl (gaussianFilter kern cur (some sg)) (.scalar k) "ceil" 1 true false <;>
          simp [Except.map, h2]


/-! ### the level step as a plan; the generators refine the plan-level pyramids -/

theorem rescalePlan2_ok_nd {h w : Nat} {sx sy : Rat} {r : Rounding} {p : Plan2} (hp : rescalePlan2 h w sx sy r = .ok p) :
    ¬ (h < 2 ∨ w < 2 ∨ scaleFactor h sx = 0 ∨ scaleFactor w sy = 0) := by
  unfold rescalePlan2 at hp
  intro hnd
  simp only [hnd, if_true] at hp
  split at hp <;> cases hp

/-- whenever the plan of a pyramid step is defined, the translated step (`1.0 / downscale`, then the translated
`rescale` with its own defaults) returns exactly the plan executed through the funnel -/
theorem stepObj_refines (spl : Spl) (ds : Rat) (o o' : Obj) (h : pyramidStepObj spl ds o = .ok o') :
    stepObj spl ds o = .ok o' := by
  unfold pyramidStepObj pyramidStep2 at h
  unfold stepObj pyRecip
  by_cases hds : ds = 0
  · rw [if_pos hds] at h; cases h
  · rw [if_neg hds] at h
    rw [if_neg hds]
    cases hp : rescalePlan2 o.pix.h o.pix.w (1 / ds) (1 / ds) .ceil with
    | error e => rw [hp] at h; cases h
    | ok p =>
      rw [hp] at h
      have hnd := rescalePlan2_ok_nd hp
      have heq := genRescale_scalar_eq spl o (1 / ds) .ceil 1 true false hnd
      rw [hp] at heq
      show Except.map Ret.obj (genRescale spl o (.scalar (1 / ds)) "ceil" 1 true false) = .ok o'
      cases hg : genRescale spl o (.scalar (1 / ds)) "ceil" 1 true false with
      | error e => rw [show Rounding.ceil.name = "ceil" from rfl, hg] at heq; cases heq
      | ok r =>
        rw [show Rounding.ceil.name = "ceil" from rfl, hg] at heq
        have hr : r = p.result spl .nonUniformScale o 1 true false := by
          simpa [Except.mapError, Except.map] using heq
        have ho : o' = (p.withOrder .linear).execObj spl .nonUniformScale o 1 true := by
          simpa [Except.map] using h.symm
        rw [hr, ho]
        simp [Except.map, Plan2.result, mkRet, Ret.obj, Plan2.execObj, Plan2.withOrder, Plan2.effOrder,
          rescale_plan_fields hp]

theorem stepGaussObj_refines (spl : Spl) (kern : Rat → List Rat) (ds : Rat) (sigma : Option Rat) (o o' : Obj)
    (h : gaussStepObj spl kern ds sigma o = .ok o') : stepGaussObj spl kern ds sigma o = .ok o' :=
  stepObj_refines spl ds (gaussianFilter kern o sigma) o' h

theorem levelsFrom_refines {ε ε' α : Type} (step : α → Except ε α) (step' : α → Except ε' α)
    (h : ∀ o o', step o = .ok o' → step' o = .ok o') : ∀ (n : Nat) (L : List α) (cur : α) (R : List α),
    levelsFrom step n L cur = .ok R → levelsFrom step' n L cur = .ok R := by
  intro n
  induction n with
  | zero => intro L cur R hR; simpa [levelsFrom] using hR
  | succ n ih =>
    intro L cur R hR
    simp only [levelsFrom] at hR ⊢
    cases hs : step cur with
    | error e => simp [hs] at hR
    | ok o' => rw [hs] at hR; rw [h _ _ hs]; exact ih _ _ _ hR

/-- **`Image.pyramid`, translated**: whenever the plan-level pyramid (every level = the pyramid-step plan executed
through the funnel on the previous level) is defined, the translated generator yields exactly its levels -/
theorem genPyramid_levels (spl : Spl) (o : Obj) (n : Int) (ds : Rat) (L : List Obj)
    (h : levelsObj (pyramidStepObj spl ds) (n - 1).toNat o = .ok L) : genPyramid spl o n ds = .ok L := by
  rw [genPyramid_eq]
  exact levelsFrom_refines _ _ (stepObj_refines spl ds) _ _ _ _ h

/-- **`Image.gaussian_pyramid`, translated** (`sigma=None` means `downscale / 3`, read from the source) -/
theorem genGaussianPyramid_levels (spl : Spl) (kern : Rat → List Rat) (o : Obj) (n : Int) (ds : Rat) (sigma : Option Rat)
    (L : List Obj)
    (h : levelsObj (gaussStepObj spl kern ds (if sigma.isNone then some (ds / 3) else sigma)) (n - 1).toNat o = .ok L) :
    genGaussianPyramid spl kern o n ds sigma = .ok L := by
  rw [genGaussianPyramid_eq]
  exact levelsFrom_refines _ _ (stepGaussObj_refines spl kern ds _) _ _ _ _ h

/-- a zero `downscale` with more than one level: `ZeroDivisionError` -/
theorem genPyramid_zero (spl : Spl) (o : Obj) (n : Int) (hn : 2 ≤ n) : genPyramid spl o n 0 = .error .zeroDiv := by
  rw [genPyramid_eq]
  obtain ⟨k, hk⟩ : ∃ k, (n - 1).toNat = k + 1 := ⟨(n - 1).toNat - 1, by omega⟩
  simp [hk, levelsObj, levelsFrom, stepObj, pyRecip, Except.bind]

end MenpoModel.C01.GenProps
