/- Obligations over the regenerated dispatch / write tables of C19 (the text is constant; the tables it speaks
   about are rewritten from the live code by harness/c19.py on every run). -/
import MenpoModel.Generated.C19Tables
import MenpoModel.Core.C19Dispatch

namespace MenpoModel.GenProps.C19
open MenpoModel.LazyList MenpoModel.Generated.C19

/-- the kinds of argument the catalogue must contain (a shrunk catalogue is a broken tie, not a pass) -/
def expectedGetitemKinds : List String :=
  ["py_int", "py_int_neg", "py_int_oob", "py_int_oob_neg", "py_bool", "np_int64", "np_int32_neg", "np_uint8",
   "np_int64_oob", "zero_d_int_array", "zero_d_float_array", "list", "list_empty", "list_neg", "list_oob", "tuple",
   "ndarray_int", "ndarray_empty", "ndarray_uint8", "generator", "range", "set", "dict", "list_of_py_bool",
   "list_of_np_int", "np_bool_array", "np_bool_array_empty", "np_bool_scalar", "float_array", "array_2d",
   "nested_list", "str", "str_empty", "slice_all", "slice_neg_step", "slice_np_bounds", "slice_oob", "slice_step0",
   "slice_float", "float", "np_float64", "none", "ellipsis"]

def expectedMapKinds : List String :=
  ["function", "builtin_type", "list_of_n", "tuple_of_n", "list_short", "list_long", "list_empty", "generator_of_n",
   "callable_iterable", "int", "none", "str_of_n", "str_short", "ndarray_of_n", "dict_of_n"]

def expectedAddKinds : List String :=
  ["lazy_list", "itself", "list", "list_empty", "tuple", "generator", "str", "dict", "ndarray", "range", "int",
   "none", "float"]

def expectedOps : List String :=
  ["add_lazy", "add_plain", "add_self", "contains", "copy", "count", "getitem_array", "getitem_int", "getitem_list",
   "getitem_slice", "index", "iter", "len", "map", "map_each", "repeat", "reversed"]

/-- the three branches of `__getitem__` (the dispatch of the tree: a 0-dimensional array is integer-like) reproduce
the observed outcome of every catalogued argument kind; a regression of fix 19448fa breaks this obligation -/
theorem getitem_dispatch_ok :
    (getitemRows.all fun r => getitemRepaired r.feat == r.observed) = true := by decide

theorem getitem_catalogue_ok : getitemRows.map (·.name) = expectedGetitemKinds := by decide

/-- laziness, measured: a call that returns a new list or raises invoked no element callable; a call that
returns an element invoked exactly one (the probed list has one callable per element) -/
theorem getitem_lazy_ok :
    (getitemRows.all fun r => r.evaluated == (if r.observed == .element then 1 else 0)) = true := by decide

theorem map_dispatch_ok :
    (mapRows.all fun r => mapCoded r.feat == r.observed && r.evaluated == 0) = true := by decide

theorem map_catalogue_ok : mapRows.map (·.name) = expectedMapKinds := by decide

theorem add_dispatch_ok :
    (addRows.all fun r => addCoded r.feat == r.observed && r.evaluated == 0) = true := by decide

theorem add_catalogue_ok : addRows.map (·.name) = expectedAddKinds := by decide

/-- no operation writes an instance attribute of the list it is applied to (or of the other operand) -/
theorem receiver_writes_ok :
    receiverWrites.map (·.1) = expectedOps ∧ (receiverWrites.all fun r => r.2.isEmpty) = true := by decide

end MenpoModel.GenProps.C19
