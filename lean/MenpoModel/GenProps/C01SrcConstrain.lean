/-
C01 — the translator tie, part 3: the operations that change landmarks / the mask IN PLACE without resampling or
re-framing (`Image.constrain_landmarks_to_bounds`, `BooleanImage.constrain_to_pointcloud` / `constrain_to_landmarks`,
`MaskedImage.constrain_mask_to_landmarks`), translated from the source text (`Generated/C01Src.lean`) and proved equal
to their object-level semantics (`Core/C01Src.lean`).  The containment test itself (`PiecewiseAffine` containment /
matplotlib's path test) is a contract parameter `inside`.
-/
import MenpoModel.GenProps.C01Src

set_option linter.unusedSimpArgs false

namespace MenpoModel.C01.GenProps
open MenpoModel.C01 MenpoModel.C01.Src MenpoModel.C01.Gen

theorem zipWith_map_right {α β γ : Type} (F : α → β → γ) (g : α → β) (l : List α) :
    List.zipWith F l (l.map g) = l.map fun a => F a (g a) := by
  induction l with
  | nil => rfl
  | cons a l ih => simp [ih]

/-- `Image.constrain_landmarks_to_bounds` (translated: the loop over the groups, the loop over the axes, the two masked
assignments per column) clamps every landmark into `[0, n − 1]` per axis and touches nothing else -/
theorem genConstrainLandmarksToBounds_eq (o : Obj) (hh : 1 ≤ o.pix.h) (hw : 1 ≤ o.pix.w) :
    genConstrainLandmarksToBounds o = constrainLandmarksObj o := by
  unfold genConstrainLandmarksToBounds constrainLandmarksObj
  simp only [Py.forLoop_eq_foldl, PyIter.iter, pyRange, id, groupNames, ndims, List.foldl_cons, List.foldl_nil,
    lmGroup, setLmGroup, column, setColumn, clampLow, clampHigh, List.map_map, Function.comp_def, zipWith_map_right]
  have h2 : (2 : Int).toNat = 2 := rfl
  simp only [h2, List.range_succ, List.range_zero, List.nil_append, List.cons_append, List.map_cons, List.map_nil,
    List.foldl_cons, List.foldl_nil, List.map_map, Function.comp_def, zipWith_map_right, Int.ofNat_eq_natCast,
    Nat.cast_zero, Nat.cast_one, if_true, one_ne_zero, if_false]
  congr 1
  apply List.map_congr_left
  intro l _
  have h1 : (1 : Rat) ≤ (o.pix.h : Rat) := by exact_mod_cast hh
  have w1 : (1 : Rat) ≤ (o.pix.w : Rat) := by exact_mod_cast hw
  simp only [constrainLandmark, clampR, top, shapeOf, IVec.get, PyNum.num, if_true, one_ne_zero, if_false]
  ext <;> simp <;> split_ifs <;> first | rfl | linarith


/-! ### `constrain_to_pointcloud` / `constrain_to_landmarks` / `constrain_mask_to_landmarks` -/

/-- the slices written by `constrain_to_pointcloud` and the index set whose test values are written there are the
SAME set of pixels when the (truncated) bounding box of the point cloud starts inside the image — which is what makes
the flat assignment well formed (numpy assigns in row-major order and raises when the sizes differ) -/
theorem constrain_sets_agree (o : Obj) (lo hi : IVec) (hx : 0 ≤ lo.x) (hy : 0 ≤ lo.y) (hx' : 0 ≤ hi.x + 1) (hy' : 0 ≤ hi.y + 1)
    (i j : Int) :
    filterLe (filterGe (filterLe (filterGe (allIndices o) 0 lo.x) 0 hi.x) 1 lo.y) 1 hi.y i j
      = (inSlice o.pix.h (lo.x, hi.x + 1) i && inSlice o.pix.w (lo.y, hi.y + 1) j) := by
  simp only [filterLe, filterGe, allIndices, coordI, inSlice, if_neg (not_lt.mpr hx), if_neg (not_lt.mpr hy),
    if_neg (not_lt.mpr hx'), if_neg (not_lt.mpr hy'), if_true, one_ne_zero, if_false]
  rw [Bool.eq_iff_iff]
  simp only [Bool.and_eq_true, decide_eq_true_eq]
  constructor <;> intro h <;> omega

/-- a bounding box that starts before the image: the slice wraps around (Python's negative index) while the index
filter does not — the two sets differ, numpy raises; such point clouds are outside the property's quantifier
("landmark groups lying in the image") -/
example : ∃ (o : Obj) (i j : Int),
    filterLe (filterGe (filterLe (filterGe (allIndices o) 0 (-2)) 0 1) 1 0) 1 1 i j
      ≠ (inSlice o.pix.h (-2, 1 + 1) i && inSlice o.pix.w (0, 1 + 1) j) :=
  ⟨⟨.boolean, ⟨4, 4, [], true⟩, none, [], none⟩, 0, 0, by decide⟩

theorem genConstrainToPointcloud_eq (inside : PipFn → List V2 → V2 → Bool) (o : Obj) (pc : List V2) (batch : Option Nat)
    (pip : String)
    (hx : 0 ≤ (vtrunc (boundsOf pc 0).1).x) (hy : 0 ≤ (vtrunc (boundsOf pc 0).1).y)
    (hx' : 0 ≤ (vtrunc (boundsOf pc 0).2).x + 1) (hy' : 0 ≤ (vtrunc (boundsOf pc 0).2).y + 1) :
    genConstrainToPointcloud inside o pc batch pip
      = if pip = "pwa" then .ok (constrainToPointcloudObj inside .pwa o pc)
        else if pip = "convex_hull" then .ok (constrainToPointcloudObj inside .hull o pc)
        else .error .valueErr := by
  unfold genConstrainToPointcloud constrainToPointcloudObj
  have h2 : (2 : Int).toNat = 2 := rfl
  rcases o with ⟨cls, ⟨h, w, ch, isb⟩, mask, lms, path⟩
  by_cases h1 : pip = "pwa"
  · subst h1
    simp only [Py.forLoop_eq_foldl, PyIter.iter, pyRange, id, ndims, h2, assignFlat, clearPixels, applyPip, PyAdd.add,
      List.range_succ, List.range_zero, List.nil_append, List.cons_append, List.map_cons, List.map_nil,
      List.getD_cons_zero, List.getD_cons_succ, IVec.get, Int.ofNat_eq_natCast, Nat.cast_zero, Nat.cast_one, if_true,
      one_ne_zero, if_false, List.map_map, Function.comp_def, inSlice, if_neg (not_lt.mpr hx), if_neg (not_lt.mpr hy),
      if_neg (not_lt.mpr hx'), if_neg (not_lt.mpr hy'), List.foldl_cons, List.foldl_nil, beq_self_eq_true,
      bne_self_eq_false, Bool.and_false, Bool.false_eq_true, Int.lt_add_one_iff]
  · by_cases h3 : pip = "convex_hull"
    · subst h3
      simp only [Py.forLoop_eq_foldl, PyIter.iter, pyRange, id, ndims, h2, assignFlat, clearPixels, applyPip, PyAdd.add,
        List.range_succ, List.range_zero, List.nil_append, List.cons_append, List.map_cons, List.map_nil,
        List.getD_cons_zero, List.getD_cons_succ, IVec.get, Int.ofNat_eq_natCast, Nat.cast_zero, Nat.cast_one, if_true,
        one_ne_zero, if_false, List.map_map, Function.comp_def, inSlice, if_neg (not_lt.mpr hx), if_neg (not_lt.mpr hy),
        if_neg (not_lt.mpr hx'), if_neg (not_lt.mpr hy'), List.foldl_cons, List.foldl_nil, beq_self_eq_true,
        bne_self_eq_false, Bool.and_false, Bool.false_eq_true, Int.lt_add_one_iff]
      simp only [show ("convex_hull" == "pwa") = false from rfl, show ("convex_hull" = "pwa") = False from by decide,
        Bool.false_eq_true, if_false]
    · simp [h1, h3, ndims]


/-- `BooleanImage.constrain_to_landmarks`: `constrain_to_pointcloud` of the group with the DEFAULT test of its source
(`'pwa'`) -/
theorem genConstrainToLandmarks_eq (inside : PipFn → List V2 → V2 → Bool) (o : Obj) (group : Option String)
    (batch : Option Nat)
    (hx : 0 ≤ (vtrunc (boundsOf o.lms 0).1).x) (hy : 0 ≤ (vtrunc (boundsOf o.lms 0).1).y)
    (hx' : 0 ≤ (vtrunc (boundsOf o.lms 0).2).x + 1) (hy' : 0 ≤ (vtrunc (boundsOf o.lms 0).2).y + 1) :
    genConstrainToLandmarks inside o group batch = .ok (constrainToPointcloudObj inside .pwa o o.lms) := by
  unfold genConstrainToLandmarks
  simp only [lmGroup]
  rw [genConstrainToPointcloud_eq inside o o.lms batch "pwa" hx hy hx' hy']
  rfl

/-- `MaskedImage.constrain_mask_to_landmarks`: the mask (a `BooleanImage`) is constrained to the image's landmark group,
everything else is the copy -/
theorem genConstrainMaskToLandmarks_eq (inside : PipFn → List V2 → V2 → Bool) (o : Obj) (group : Option String)
    (batch : Option Nat) (pip : String)
    (hx : 0 ≤ (vtrunc (boundsOf o.lms 0).1).x) (hy : 0 ≤ (vtrunc (boundsOf o.lms 0).1).y)
    (hx' : 0 ≤ (vtrunc (boundsOf o.lms 0).2).x + 1) (hy' : 0 ≤ (vtrunc (boundsOf o.lms 0).2).y + 1) :
    genConstrainMaskToLandmarks inside o group batch pip
      = if pip = "pwa" then .ok (setMask o (constrainToPointcloudObj inside .pwa (maskObj o) o.lms))
        else if pip = "convex_hull" then .ok (setMask o (constrainToPointcloudObj inside .hull (maskObj o) o.lms))
        else .error .valueErr := by
  unfold genConstrainMaskToLandmarks
  simp only [lmGroup]
  rw [genConstrainToPointcloud_eq inside (maskObj o) o.lms batch pip hx hy hx' hy']
  split_ifs <;> rfl

/-- **the constrain operations do not resample or re-frame**: the result of `constrain_mask_to_landmarks` has the
pixels, the shape, the class, the landmarks and the path of the image it was called on (it is registered through the
identity); only the mask changes: it keeps its shape, is `False` outside the integer bounding box of the landmarks
and inside it says whether the pixel passes the containment test -/
theorem constrainMask_registered (inside : PipFn → List V2 → V2 → Bool) (f : PipFn) (o : Obj) (mk : Img2)
    (hm : o.mask = some mk) :
    let R := setMask o (constrainToPointcloudObj inside f (maskObj o) o.lms)
    R.pix = o.pix ∧ R.cls = o.cls ∧ R.lms = o.lms ∧ R.path = o.path ∧
    ∃ mk', R.mask = some mk' ∧ mk'.h = mk.h ∧ mk'.w = mk.w ∧
      ∀ i j : Int, mk'.px i j =
        if (truncR (boundsOf o.lms 0).1.x ≤ i ∧ i ≤ truncR (boundsOf o.lms 0).2.x ∧ 0 ≤ i ∧ i < (mk.h : Int)) ∧
           (truncR (boundsOf o.lms 0).1.y ≤ j ∧ j ≤ truncR (boundsOf o.lms 0).2.y ∧ 0 ≤ j ∧ j < (mk.w : Int))
        then (if inside f o.lms (gridPt2 i j) then 1 else 0) else 0 := by
  intro R
  refine ⟨rfl, rfl, rfl, rfl, ?_⟩
  refine ⟨_, rfl, ?_, ?_, ?_⟩
  · simp [constrainToPointcloudObj, maskObj, hm, imgOfObj]
  · simp [constrainToPointcloudObj, maskObj, hm, imgOfObj]
  · intro i j
    simp [constrainToPointcloudObj, maskObj, hm, imgOfObj, vtrunc]

/-- `constrain_landmarks_to_bounds` keeps pixels, mask and shape; every landmark ends inside the image -/
theorem constrainLandmarks_spec (o : Obj) (hh : 1 ≤ o.pix.h) (hw : 1 ≤ o.pix.w) :
    (constrainLandmarksObj o).pix = o.pix ∧ (constrainLandmarksObj o).mask = o.mask ∧
    ∀ l ∈ (constrainLandmarksObj o).lms, inR o.pix.h l.x ∧ inR o.pix.w l.y := by
  refine ⟨rfl, rfl, ?_⟩
  intro l hl
  simp only [constrainLandmarksObj, List.mem_map] at hl
  obtain ⟨l0, _, rfl⟩ := hl
  exact (constrain_landmark_spec o.pix.h o.pix.w hh hw l0).1

end MenpoModel.C01.GenProps
