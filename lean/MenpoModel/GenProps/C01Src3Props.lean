/-
C01 — property theorems about the TRANSLATED entry points in 3-D (the n-D operations: crop family, rescale, resize,
zoom, mirror, direct warps), for images with any number of channels and EVERY interpolation order (`samplerOf3`):
landmarks, returned transform, pixels, mask; registration at grid landmarks for every order, registration of affine
content under trilinear interpolation, exact registration of the crop (pixels copied as a block).
-/
import MenpoModel.GenProps.C01Src3

set_option linter.unusedSimpArgs false

namespace MenpoModel.C01.GenProps3
open MenpoModel.C01 hiding boundsOf rangeOf
open MenpoModel.C01.Src3 MenpoModel.C01Gen3

theorem truncR_intCast (z : Int) : Src.truncR (z : Rat) = z := by
  unfold Src.truncR
  split_ifs with h
  · have : ((-z : Int) : Rat) = -(z : Rat) := by push_cast; rfl
    rw [← this, Rat.floor_intCast]; omega
  · exact Rat.floor_intCast z

def maskImg3 (o : Obj) : Img3 := o.mask.getD ⟨o.pix.n0, o.pix.n1, o.pix.n2, fun _ _ _ => 1⟩
def DtypeOK3 (o : Obj) : Prop := o.pix.isBool = decide (o.cls = .boolean)

/-- spline interpolation of every order returns the pixel at a grid point (orders 0, 1: `sample3_grid`) -/
def Interpolating3 (S : Sampler3) : Prop :=
  ∀ (im : Img3) (i j k : Int), 0 ≤ i → i ≤ (im.n0 : Int) - 1 → 0 ≤ j → j ≤ (im.n1 : Int) - 1 →
    0 ≤ k → k ≤ (im.n2 : Int) - 1 → S im (gridPt3 i j k) = im.px i j k

theorem channel_map3 (n0 n1 n2 : Nat) (ch : List (Int → Int → Int → Rat))
    (F : (Int → Int → Int → Rat) → (Int → Int → Int → Rat)) (b : Bool) (k : Nat) (hk : k < ch.length) :
    channel ⟨n0, n1, n2, ch.map F, b⟩ k = ⟨n0, n1, n2, F ((channel ⟨n0, n1, n2, ch, b⟩ k).px)⟩ := by
  simp [channel, List.getD_eq_getElem?_getD, hk]

/-! ### object level = the single-channel 3-D model, channel by channel -/

/-- **every channel, every interpolation order**: pixel `(i, j, l)` of channel `k` of the result is channel `k` of the
source sampled with the effective order and the mode of the plan at `T(i, j, l)` -/
theorem execObj3_pixel (p : Plan3) (spl : Spl) (pv : PinvProvider) (o : Obj) (hd : DtypeOK3 o) (hcls : o.cls ≠ .boolean)
    (order : Nat) (wl : Bool) (k : Nat) (hk : k < o.pix.ch.length) (i j l : Int) :
    (channel (p.execObj spl pv o order wl).pix k).px i j l
      = samplerOf3 spl (p.effOrder order) p.mode (channel o.pix k) (p.T.apply (gridPt3 i j l)) := by
  rcases o with ⟨cls, ⟨n0, n1, n2, ch, isb⟩, mask, lms, path⟩
  simp only [DtypeOK3] at hd
  simp only at hk
  cases cls <;> simp only [reduceCtorEq, decide_false, decide_true] at hd <;> subst hd
  · simp only [Plan3.execObj, warpObj3, imageWarp3, warpPixels3, Int.toNat_natCast]
    rw [channel_map3 _ _ _ _ _ _ _ hk]
    simp [clsOrder, Src.effMode, TObj.app, channel]
  · simp only [Plan3.execObj, warpObj3, maskedWarp3, warpPixels3, Int.toNat_natCast]
    rw [channel_map3 _ _ _ _ _ _ _ hk]
    simp [clsOrder, Src.effMode, TObj.app, channel]
  · exact absurd rfl hcls

/-- for the two modelled orders the channel is the `Plan3.run` the 3-D theorems of `Props/C01Base.lean` are about -/
theorem execObj3_run (p : Plan3) (spl : Spl) (pv : PinvProvider) (o : Obj) (hd : DtypeOK3 o) (hcls : o.cls ≠ .boolean)
    (order : Nat) (wl : Bool) (k : Nat) (hk : k < o.pix.ch.length) :
    (p.effOrder order = 0 → channel (p.execObj spl pv o order wl).pix k
        = warp3 .nearest p.mode (channel o.pix k) p.n0 p.n1 p.n2 p.T) ∧
    (p.effOrder order = 1 → channel (p.execObj spl pv o order wl).pix k
        = warp3 .linear p.mode (channel o.pix k) p.n0 p.n1 p.n2 p.T) := by
  have hshape : ∀ k, (channel (p.execObj spl pv o order wl).pix k).n0 = p.n0 ∧
      (channel (p.execObj spl pv o order wl).pix k).n1 = p.n1 ∧ (channel (p.execObj spl pv o order wl).pix k).n2 = p.n2 := by
    intro k
    rcases o with ⟨cls, pix, mask, lms, path⟩
    cases cls <;> simp [Plan3.execObj, warpObj3, imageWarp3, maskedWarp3, booleanWarp3, warpPixels3, channel]
  have hpx := execObj3_pixel p spl pv o hd hcls order wl k hk
  constructor <;> intro ho
  · rw [ho] at hpx
    obtain ⟨h0, h1, h2⟩ := hshape k
    cases hc : channel (p.execObj spl pv o order wl).pix k with
    | mk a b c f =>
      rw [hc] at hpx h0 h1 h2
      simp only at h0 h1 h2
      subst h0; subst h1; subst h2
      simp only [warp3, warpF3, Img3.mk.injEq, true_and]
      funext i j l
      exact hpx i j l
  · rw [ho] at hpx
    obtain ⟨h0, h1, h2⟩ := hshape k
    cases hc : channel (p.execObj spl pv o order wl).pix k with
    | mk a b c f =>
      rw [hc] at hpx h0 h1 h2
      simp only at h0 h1 h2
      subst h0; subst h1; subst h2
      simp only [warp3, warpF3, Img3.mk.injEq, true_and]
      funext i j l
      exact hpx i j l

theorem execObj3_frame (p : Plan3) (spl : Spl) (pv : PinvProvider) (o : Obj) (order : Nat) (wl : Bool) :
    (p.execObj spl pv o order wl).cls = o.cls ∧ (p.execObj spl pv o order wl).pix.n0 = p.n0 ∧
    (p.execObj spl pv o order wl).pix.n1 = p.n1 ∧ (p.execObj spl pv o order wl).pix.n2 = p.n2 ∧
    (p.execObj spl pv o order wl).pix.ch.length = o.pix.ch.length ∧ (p.execObj spl pv o order wl).path = o.path := by
  rcases o with ⟨cls, pix, mask, lms, path⟩
  cases cls <;> simp [Plan3.execObj, warpObj3, imageWarp3, maskedWarp3, booleanWarp3, warpPixels3]

theorem execObj3_lms (p : Plan3) (spl : Spl) (pv : PinvProvider) (o : Obj) (order : Nat) (wl : Bool) :
    (p.execObj spl pv o order wl).lms = if wl then o.lms.map (pinvBy3 pv p.T).apply else [] := by
  rcases o with ⟨cls, pix, mask, lms, path⟩
  cases cls <;> simp [Plan3.execObj, warpObj3, imageWarp3, maskedWarp3, booleanWarp3, warpLms3, TObj.pinv, TObj.app]

/-- the mask of a warped 3-D `MaskedImage`: the source mask through the SAME `T` with order 0 -/
theorem execObj3_mask (p : Plan3) (spl : Spl) (pv : PinvProvider) (o : Obj) (hm : o.cls = .masked) (order : Nat)
    (wl : Bool) : (p.execObj spl pv o order wl).mask = some (p.runMask (maskImg3 o)) := by
  rcases o with ⟨cls, pix, mask, lms, path⟩
  simp only at hm
  subst hm
  cases mask <;>
    simp [Plan3.execObj, warpObj3, maskedWarp3, booleanWarp3, warpPixels3, maskObj, imgOfObj, maskImg3, Plan3.runMask,
      warp3, warpF3, clsOrder, Src.effMode, samplerOf3, TObj.app]

/-! ### the closed-form pseudoinverses are the inverse on the matrices the operations hand over -/

theorem pinv3_translation (t : V3) : pinvBy3 .translation (transl3 t) = (transl3 t).inv := by
  simp [pinvBy3, transl3, Aff3.inv, Aff3.det]

theorem pinv3_nonUniformScale (a b c : Rat) (ha : a ≠ 0) (hb : b ≠ 0) (hc : c ≠ 0) :
    pinvBy3 .nonUniformScale (scale3 a b c) = (scale3 a b c).inv := by
  simp only [pinvBy3, scale3, Aff3.inv, Aff3.det]
  ext <;> simp <;> field_simp

theorem pinv3_homogeneous (m : Aff3) : pinvBy3 .homogeneous m = m.inv := rfl

@[simp] theorem obj_mkRet3 (rt : Bool) (o : Obj) (T : TObj) : (mkRet3 rt o T).obj = o := by
  cases rt <;> rfl

/-! ### PROPERTY for the translated entry points, 3-D -/

structure Registered3 (spl : Spl) (o : Obj) (R : Ret) (T : Aff3) (ord : Nat) (m : Mode) : Prop where
  transform : ∀ R' t, R = .pair R' t → ∃ pv, t = .fam pv T
  cls : R.obj.cls = o.cls
  nch : R.obj.pix.ch.length = o.pix.ch.length
  lms : R.obj.lms.map T.apply = o.lms
  pix : o.cls ≠ .boolean → ∀ k, k < o.pix.ch.length → ∀ i j l : Int,
    (channel R.obj.pix k).px i j l = samplerOf3 spl ord m (channel o.pix k) (T.apply (gridPt3 i j l))
  mask : o.cls = .masked → ∃ mk', R.obj.mask = some mk' ∧
    ∀ i j l : Int, mk'.px i j l = (maskImg3 o).sample .nearest (maskMode m) (T.apply (gridPt3 i j l))

theorem result3_registered (p : Plan3) (spl : Spl) (pv : PinvProvider) (o : Obj) (hd : DtypeOK3 o) (order : Nat)
    (rt : Bool) (hdet : p.T.det ≠ 0) (hpv : pinvBy3 pv p.T = p.T.inv) :
    Registered3 spl o (p.result spl pv o order true rt) p.T (p.effOrder order) p.mode where
  transform := by
    intro R' t h
    cases rt <;> simp [Plan3.result, mkRet3] at h
    exact ⟨pv, h.2.symm⟩
  cls := by simp only [Plan3.result, obj_mkRet3]; exact (execObj3_frame p spl pv o order true).1
  nch := by simp only [Plan3.result, obj_mkRet3]; exact (execObj3_frame p spl pv o order true).2.2.2.2.1
  lms := by
    simp only [Plan3.result, obj_mkRet3, execObj3_lms, if_true, hpv, List.map_map]
    conv_rhs => rw [← List.map_id o.lms]
    exact List.map_congr_left (fun l _ => Aff3.apply_inv_apply hdet l)
  pix := fun hcls k hk i j l => by
    simp only [Plan3.result, obj_mkRet3]
    exact execObj3_pixel p spl pv o hd hcls order true k hk i j l
  mask := fun hm => by
    refine ⟨p.runMask (maskImg3 o), ?_, fun i j l => rfl⟩
    simp only [Plan3.result, obj_mkRet3, execObj3_mask p spl pv o hm]

theorem registered3_of_eq {spl : Spl} {o : Obj} {pv : PinvProvider} {order : Nat} {rt : Bool} {g : Except PyExc Ret}
    {P : Except Err Plan3} (h : g.mapError PyExc.toErr = P.map (fun p => p.result spl pv o order true rt))
    (hinv : ∀ p, P = .ok p → p.T.det ≠ 0 ∧ pinvBy3 pv p.T = p.T.inv) (hd : DtypeOK3 o) {R : Ret} (hR : g = .ok R) :
    ∃ p, P = .ok p ∧ Registered3 spl o R p.T (p.effOrder order) p.mode := by
  rw [hR] at h
  cases P with
  | error e => simp [Except.mapError, Except.map] at h
  | ok p =>
    have : R = p.result spl pv o order true rt := by simpa [Except.mapError, Except.map] using h
    subst this
    exact ⟨p, rfl, result3_registered p spl pv o hd order rt (hinv p rfl).1 (hinv p rfl).2⟩

/-- **registration at grid landmarks, every order, every channel, 3-D** -/
theorem registered3_grid {spl : Spl} {o : Obj} {R : Ret} {T : Aff3} {ord : Nat} {m : Mode} (hreg : Registered3 spl o R T ord m)
    (hdet : T.det ≠ 0) (hcls : o.cls ≠ .boolean) (S₂ : Sampler3) (hS₂ : Interpolating3 S₂) (k : Nat)
    (hk : k < o.pix.ch.length) (l : V3) (i j q : Int)
    (hi0 : 0 ≤ i) (hi1 : i ≤ ((channel R.obj.pix k).n0 : Int) - 1) (hj0 : 0 ≤ j)
    (hj1 : j ≤ ((channel R.obj.pix k).n1 : Int) - 1) (hq0 : 0 ≤ q) (hq1 : q ≤ ((channel R.obj.pix k).n2 : Int) - 1)
    (hgrid : T.inv.apply l = gridPt3 i j q) :
    S₂ (channel R.obj.pix k) (T.inv.apply l) = samplerOf3 spl ord m (channel o.pix k) l := by
  rw [hgrid, hS₂ _ i j q hi0 hi1 hj0 hj1 hq0 hq1, hreg.pix hcls k hk i j q, ← hgrid, Aff3.apply_inv_apply hdet l]

/-- **registration of affine content, trilinear interpolation, every channel, 3-D**: when the effective order is 1 and
channel `k` of the source is `a + b·i + c·j + d·l`, channel `k` of the result read trilinearly at the returned landmark
is the original content at the original landmark — whenever the landmark's cell is sampled inside the source -/
theorem result3_registration_affine (p : Plan3) (hdet : p.T.det ≠ 0) (spl : Spl) (pv : PinvProvider) (o : Obj)
    (hd : DtypeOK3 o) (hcls : o.cls ≠ .boolean) (order : Nat) (ho : p.effOrder order = 1) (wl rt : Bool) (m₂ : Mode)
    (k : Nat) (hk : k < o.pix.ch.length) (a b c d : Rat) (l : V3)
    (hcontent : ∀ i j q : Int, 0 ≤ i → i ≤ ((channel o.pix k).n0 : Int) - 1 → 0 ≤ j → j ≤ ((channel o.pix k).n1 : Int) - 1 →
      0 ≤ q → q ≤ ((channel o.pix k).n2 : Int) - 1 →
      (channel o.pix k).px i j q = a + b * (i : Rat) + c * (j : Rat) + d * (q : Rat))
    (hl' : inR p.n0 (p.T.inv.apply l).x ∧ inR p.n1 (p.T.inv.apply l).y ∧ inR p.n2 (p.T.inv.apply l).z)
    (hcell : ∀ i j q : Int, 0 ≤ i → i ≤ (p.n0 : Int) - 1 → 0 ≤ j → j ≤ (p.n1 : Int) - 1 → 0 ≤ q → q ≤ (p.n2 : Int) - 1 →
      (p.T.inv.apply l).x - 1 < (i : Rat) → (i : Rat) < (p.T.inv.apply l).x + 1 →
      (p.T.inv.apply l).y - 1 < (j : Rat) → (j : Rat) < (p.T.inv.apply l).y + 1 →
      (p.T.inv.apply l).z - 1 < (q : Rat) → (q : Rat) < (p.T.inv.apply l).z + 1 →
      (channel o.pix k).inside (p.T.apply (gridPt3 i j q))) :
    (channel (p.result spl pv o order wl rt).obj.pix k).sample .linear m₂ (p.T.inv.apply l)
      = a + b * l.x + c * l.y + d * l.z := by
  simp only [Plan3.result, obj_mkRet3]
  rw [(execObj3_run p spl pv o hd hcls order wl k hk).2 ho]
  exact warp_registration_affine3 p.mode m₂ (channel o.pix k) p.n0 p.n1 p.n2 p.T a b c d l hdet hcontent hl' hcell

theorem rescalePlan3_ok_nd {n0 n1 n2 : Nat} {s : V3} {r : Rounding} {p : Plan3}
    (hp : rescalePlan3 n0 n1 n2 s r = .ok p) :
    ¬ (n0 < 2 ∨ n1 < 2 ∨ n2 < 2 ∨ scaleFactor n0 s.x = 0 ∨ scaleFactor n1 s.y = 0 ∨ scaleFactor n2 s.z = 0) := by
  unfold rescalePlan3 at hp
  intro hnd
  simp only [hnd, if_true] at hp
  split at hp <;> cases hp

theorem rescale3_plan_pinv {n0 n1 n2 : Nat} {s : V3} {r : Rounding} {p : Plan3}
    (hp : rescalePlan3 n0 n1 n2 s r = .ok p) : p.T.det ≠ 0 ∧ pinvBy3 .nonUniformScale p.T = p.T.inv := by
  have hnd := rescalePlan3_ok_nd hp
  refine ⟨plan3_T_invertible n0 n1 n2 p (Or.inl ⟨s, r, hp⟩), ?_⟩
  unfold rescalePlan3 at hp
  simp only [hnd, if_false] at hp
  split at hp
  · cases hp
  · cases hp
    exact pinv3_nonUniformScale _ _ _
      (one_div_ne_zero fun e => hnd (Or.inr (Or.inr (Or.inr (Or.inl e)))))
      (one_div_ne_zero fun e => hnd (Or.inr (Or.inr (Or.inr (Or.inr (Or.inl e))))))
      (one_div_ne_zero fun e => hnd (Or.inr (Or.inr (Or.inr (Or.inr (Or.inr e))))))

/-- **`Image.rescale` on a 3-D image, translated from the same source text** -/
theorem genRescale3_registered (spl : Spl) (o : Obj) (hd : DtypeOK3 o) (s : V3) (r : Rounding) (order : Nat) (rt : Bool)
    (hnd : ¬ (o.pix.n0 < 2 ∨ o.pix.n1 < 2 ∨ o.pix.n2 < 2 ∨ scaleFactor o.pix.n0 s.x = 0 ∨ scaleFactor o.pix.n1 s.y = 0 ∨
      scaleFactor o.pix.n2 s.z = 0)) (R : Ret)
    (hR : genRescale spl o (.seq [s.x, s.y, s.z]) r.name order true rt = .ok R) :
    ∃ p, rescalePlan3 o.pix.n0 o.pix.n1 o.pix.n2 s r = .ok p ∧ Registered3 spl o R p.T (p.effOrder order) p.mode :=
  registered3_of_eq (genRescale_seq_eq spl o s r order true rt hnd) (fun _ hp => rescale3_plan_pinv hp) hd hR

theorem genResize3_registered (spl : Spl) (o : Obj) (hd : DtypeOK3 o) (m : V3) (order : Nat) (rt : Bool)
    (hnd : ¬ (o.pix.n0 < 2 ∨ o.pix.n1 < 2 ∨ o.pix.n2 < 2 ∨ scaleFactor o.pix.n0 (m.x / o.pix.n0) = 0 ∨
      scaleFactor o.pix.n1 (m.y / o.pix.n1) = 0 ∨ scaleFactor o.pix.n2 (m.z / o.pix.n2) = 0)) (R : Ret)
    (hR : genResize spl o m order true rt = .ok R) :
    ∃ p, resizePlan3 o.pix.n0 o.pix.n1 o.pix.n2 m = .ok p ∧ Registered3 spl o R p.T (p.effOrder order) p.mode := by
  refine registered3_of_eq (genResize_eq spl o m order true rt hnd) (fun p hp => ?_) hd hR
  unfold resizePlan3 at hp
  split at hp
  · cases hp
  · exact rescale3_plan_pinv hp

theorem genZoom3_registered (spl : Spl) (o : Obj) (hd : DtypeOK3 o) (s : Rat) (order : Nat) (rt : Bool) (R : Ret)
    (hR : genZoom spl o s order true rt = .ok R) :
    ∃ p, zoomPlan3 o.pix.n0 o.pix.n1 o.pix.n2 s = .ok p ∧ Registered3 spl o R p.T (p.effOrder order) p.mode :=
  registered3_of_eq (genZoom_eq spl o s order true rt)
    (fun p hp => ⟨plan3_T_invertible _ _ _ p (Or.inr (Or.inr (Or.inr (Or.inl ⟨s, hp⟩)))), rfl⟩) hd hR

theorem genMirror3_registered (spl : Spl) (o : Obj) (hd : DtypeOK3 o) (axis : Nat) (order : Nat) (rt : Bool) (R : Ret)
    (hR : genMirror spl o (axis : Int) order true rt = .ok R) :
    ∃ p, mirrorPlan3 o.pix.n0 o.pix.n1 o.pix.n2 axis = .ok p ∧ Registered3 spl o R p.T (p.effOrder order) p.mode :=
  registered3_of_eq (genMirror_eq spl o axis order true rt)
    (fun p hp => ⟨plan3_T_invertible _ _ _ p (Or.inr (Or.inr (Or.inr (Or.inr (Or.inl ⟨axis, hp⟩))))), rfl⟩) hd hR

/-- the translated 3-D `crop` returns `Plan3.cropResult` of its plan -/
theorem genCrop3_exact (spl : Spl) (o : Obj) (mn mx : V3) (cb rt : Bool) (R : Ret)
    (hR : genCrop spl o mn mx cb rt = .ok R) :
    ∃ p, cropPlan3 o.pix.n0 o.pix.n1 o.pix.n2 mn mx cb = .ok p ∧ R = p.cropResult spl o rt := by
  have h := genCrop_eq spl o mn mx cb rt
  rw [hR] at h
  cases hp : cropPlan3 o.pix.n0 o.pix.n1 o.pix.n2 mn mx cb with
  | error e => rw [hp] at h; simp [Except.mapError, Except.map] at h
  | ok p => rw [hp] at h; exact ⟨p, rfl, by simpa [Except.mapError, Except.map] using h⟩

/-- **3-D crop: pixels copied as a block, landmarks shifted by the same integer offset** -/
theorem cropResult3_exact (spl : Spl) (o : Obj) (mn mx : V3) (cb : Bool) (p : Plan3)
    (hp : cropPlan3 o.pix.n0 o.pix.n1 o.pix.n2 mn mx cb = .ok p) (rt : Bool) :
    ∃ r s t : Int, 0 ≤ r ∧ 0 ≤ s ∧ 0 ≤ t ∧ p.T = transl3 ⟨(r : Rat), (s : Rat), (t : Rat)⟩ ∧
      (p.cropResult spl o rt).obj.cls = o.cls ∧
      (p.cropResult spl o rt).obj.pix.ch.length = o.pix.ch.length ∧
      (p.cropResult spl o rt).obj.lms = o.lms.map (fun l => ⟨l.x - (r : Rat), l.y - (s : Rat), l.z - (t : Rat)⟩) ∧
      (p.cropResult spl o rt).obj.lms.map p.T.apply = o.lms ∧
      (∀ k, k < o.pix.ch.length → ∀ i j q : Int,
        (channel (p.cropResult spl o rt).obj.pix k).px i j q = (channel o.pix k).px (i + r) (j + s) (q + t)) ∧
      (o.cls = .masked → (p.cropResult spl o rt).obj.mask = some (p.runMask (maskImg3 o))) := by
  have hdet : p.T.det ≠ 0 := plan3_T_invertible _ _ _ p (Or.inr (Or.inr (Or.inl ⟨mn, mx, cb, hp⟩)))
  have hT : ∃ r s t : Int, 0 ≤ r ∧ 0 ≤ s ∧ 0 ≤ t ∧ p.T = transl3 ⟨(r : Rat), (s : Rat), (t : Rat)⟩ := by
    unfold cropPlan3 at hp
    simp only at hp
    split at hp
    · cases hp
    · split at hp
      · cases hp
      · have := Except.ok_inj' hp
        subst this
        obtain ⟨r, hr, hr0, _⟩ := constrainPt_int' o.pix.n0 mn.x.floor
        obtain ⟨s, hs, hs0, _⟩ := constrainPt_int' o.pix.n1 mn.y.floor
        obtain ⟨t, ht, ht0, _⟩ := constrainPt_int' o.pix.n2 mn.z.floor
        exact ⟨r, s, t, hr0, hs0, ht0, by rw [hr, hs, ht]⟩
  obtain ⟨r, s, t, hr0, hs0, ht0, hT⟩ := hT
  have hpv : pinvBy3 .translation p.T = p.T.inv := by rw [hT]; exact pinv3_translation _
  have hlm : ∀ l : V3, p.T.inv.apply l = ⟨l.x - (r : Rat), l.y - (s : Rat), l.z - (t : Rat)⟩ := by
    intro l; rw [← hpv, hT]
    ext <;> simp [pinvBy3, transl3, Aff3.apply] <;> ring
  have hobj : (p.cropResult spl o rt).obj
      = { (p.execObj spl .translation o 0 true) with
          pix := { (p.execObj spl .translation o 0 true).pix with
            ch := o.pix.ch.map (fun f i j q => f (r + i) (s + j) (t + q)) } } := by
    cases rt <;>
      simp [Plan3.cropResult, Plan3.result, mkRet3, Ret.setPixels, Ret.mapObj, Ret.obj, pixelBlock, hT, transl3,
        truncR_intCast]
  have hfr := execObj3_frame p spl .translation o 0 true
  refine ⟨r, s, t, hr0, hs0, ht0, hT, ?_, ?_, ?_, ?_, ?_, ?_⟩
  · rw [hobj]; exact hfr.1
  · rw [hobj]; simp
  · rw [hobj]
    simp only [execObj3_lms, if_true, hpv]
    exact List.map_congr_left (fun l _ => hlm l)
  · rw [hobj]
    simp only [execObj3_lms, if_true, hpv, List.map_map]
    conv_rhs => rw [← List.map_id o.lms]
    exact List.map_congr_left (fun l _ => Aff3.apply_inv_apply hdet l)
  · intro k hk i j q
    rw [hobj]
    simp only [channel, List.getD_eq_getElem?_getD, List.getElem?_map, List.getElem?_eq_getElem hk, Option.map_some,
      Option.getD_some]
    rw [add_comm r i, add_comm s j, add_comm t q]
  · intro hm; rw [hobj]; exact execObj3_mask p spl .translation o hm 0 true

/-! ### non-vacuity -/

def exSpl3 : Spl := fun _ m => Img3.sample .linear m
def exObj3 : Obj :=
  ⟨.masked, ⟨4, 5, 6, [fun i j k => (i : Rat) + 2 * j - k, fun i j k => (i : Rat) * j + k], false⟩,
   some ⟨4, 5, 6, fun i j k => if i + j + k < 9 then 1 else 0⟩, [⟨3, 4, 5⟩, ⟨1, 2, 2⟩], none⟩

example : DtypeOK3 exObj3 := by unfold DtypeOK3; decide
example : (genRescale exSpl3 exObj3 (.scalar (1/2)) "ceil" 1 true true).toOption.map
    (fun r => (r.obj.pix.n0, r.obj.pix.n1, r.obj.pix.n2, r.obj.lms)) = some (2, 3, 3, [⟨1, 3/2, 2⟩, ⟨1/3, 3/4, 4/5⟩]) := by
  decide +kernel
example : (genCrop exSpl3 exObj3 ⟨1/2, 1, 2⟩ ⟨3, 4, 5⟩ false true).toOption.map
    (fun r => (r.obj.pix.n0, r.obj.pix.n1, r.obj.pix.n2, r.obj.lms, r.obj.pix.ch.map (fun f => f 1 1 1)))
    = some (3, 3, 3, [⟨3, 3, 3⟩, ⟨1, 1, 0⟩], [2, 5]) := by decide +kernel
example : (genMirror exSpl3 exObj3 2 3 true true).toOption.map (fun r => r.obj.lms) = some [⟨3, 4, 0⟩, ⟨1, 2, 3⟩] := by
  decide +kernel
example : (genMirror exSpl3 exObj3 3 1 true true).toOption.isNone = true := by decide +kernel
example : (genZoom exSpl3 exObj3 2 1 true false).toOption.map (fun r => r.obj.lms) = some [⟨4, 11/2, 7⟩, ⟨0, 3/2, 1⟩] := by
  decide +kernel

end MenpoModel.C01.GenProps3
