/-
C10 — obligations over the TRANSLATED vector-level methods (`Generated/C10SrcLin.lean`, rewritten by
harness/trans_c10.py on every `./check C10` from the source text of menpo/model/linear.py and menpo/model/pca.py of the
current working tree, once per class through the live MRO): every translated method equals, for ALL arguments and every
dimension, the Core definition the C10 theorems are about.

  LinearVectorModel      genLinProject / Instance / Reconstruct / ProjectOut     = linProject / linInstance / linReconstruct / linProjectOut
  MeanLinearVectorModel  genMeanProject / Instance / Reconstruct / ProjectOut     = project / inst / reconstruct / projectOut
  PCAVectorModel         genPcaProject / Reconstruct / ProjectOut                = project / reconstruct / projectOut  (U = ACTIVE components)
                         genPcaInstance (weights padded, normalized)             = instPadded / instNormalized
                         genPcaComponent                                          = component
                         genPcaWhitenedComponents / genPcaProjectWhitened         = whitened / projectWhitened
  and the `_vectors` variants row by row.  `instance` with a wrong number of weights raises.

`src_identities` states the algebraic clauses of the property for the translated PCAVectorModel methods themselves.
The proofs normalise one-row arrays to `rowMat <vector expression>` (`lin_simp`), so they do not depend on the order or
naming of the Python statements; a method that uses another product, forgets the mean, or reads `self._components`
instead of `self.components` (seeded change C10-4: no word in the vocabulary) breaks them.
-/
import MenpoModel.Generated.C10SrcLin
import MenpoModel.Props.C10

set_option linter.unusedSimpArgs false
set_option linter.unusedTactic false
set_option linter.unreachableTactic false
namespace MenpoModel.C10.GenProps
open MenpoModel.C10 MenpoModel.C10.Src MenpoModel.C10.Generated Matrix

variable {r j k d : ℕ}

@[simp] theorem msubv_apply (M : Mat r d) (v : Fin d → ℚ) (i : Fin r) (c : Fin d) : (M - v : Mat r d) i c = M i c - v c := rfl
@[simp] theorem maddv_apply (M : Mat r d) (v : Fin d → ℚ) (i : Fin r) (c : Fin d) : (M + v : Mat r d) i c = M i c + v c := rfl
@[simp] theorem mmulv_apply (M : Mat r d) (v : Fin d → ℚ) (i : Fin r) (c : Fin d) : (M * v : Mat r d) i c = M i c * v c := rfl
@[simp] theorem smulv_apply (a : ℚ) (v : Fin d → ℚ) (c : Fin d) : (a * v : Fin d → ℚ) c = a * v c := rfl
@[simp] theorem rowMat_apply (v : Fin d → ℚ) (i : Fin 1) (c : Fin d) : rowMat v i c = v c := rfl
@[simp] theorem flat1_apply (M : Mat 1 d) (c : Fin d) : flat1 M c = M 0 c := rfl
@[simp] theorem npDot_same (a : Mat r k) (b : Mat k d) : npDot a b = a * b := npDot_eq a b
@[simp] theorem shapeOf_eq (a : Mat r j) : shapeOf a = (r, j) := rfl
theorem flat1_rowMat (v : Fin d → ℚ) : flat1 (rowMat v) = v := rfl
theorem rowMat_mul (x : Fin d → ℚ) (B : Mat d k) : rowMat x * B = rowMat (x ᵥ* B) := by
  ext i c; simp [Matrix.mul_apply, vecMul, dotProduct]
theorem rowMat_sub_vec (x m : Fin d → ℚ) : (rowMat x - m : Mat 1 d) = rowMat (x - m) := by ext i c; simp
theorem rowMat_add_vec (x m : Fin d → ℚ) : (rowMat x + m : Mat 1 d) = rowMat (x + m) := by ext i c; simp
theorem rowMat_mul_vec (x m : Fin d → ℚ) : (rowMat x * m : Mat 1 d) = rowMat (fun c => x c * m c) := by ext i c; simp
theorem rowMat_sub_rowMat (x y : Fin d → ℚ) : (rowMat x - rowMat y : Mat 1 d) = rowMat (x - y) := by ext i c; simp
theorem except_ok_bind {ε α β} (a : α) (f : α → Except ε β) : (Except.ok a : Except ε α).bind f = f a := rfl
theorem except_error_bind {ε α β} (e : ε) (f : α → Except ε β) : (Except.error e : Except ε α).bind f = .error e := rfl

/-- normal form of the one-row arrays: everything is `rowMat` of a vector expression -/
macro "lin_simp" "[" ls:Lean.Parser.Tactic.simpLemma,* "]" : tactic =>
  `(tactic| simp only [$ls,*, npDot_same, shapeOf_eq, rowMat_mul, rowMat_sub_vec, rowMat_add_vec, rowMat_mul_vec,
      rowMat_sub_rowMat, flat1_rowMat, except_ok_bind, except_error_bind, beq_self_eq_true, Bool.not_true,
      bne_self_eq_false,
      Bool.false_eq_true, if_false, if_true, gt_iff_lt, lt_irrefl, decide_false])

theorem genLinProject_eq (U : Mat k d) (x : Fin d → ℚ) : genLinProject U x = linProject U x := by
  lin_simp [genLinProject, genLinProjectVectors, linProject]

theorem genLinInstance_eq (U : Mat k d) (w : Fin k → ℚ) : genLinInstance U w = .ok (linInstance U w) := by
  lin_simp [genLinInstance, genLinInstanceVectors, genLinInstanceFull, linInstance]

theorem genLinInstance_mismatch (U : Mat k d) (w : Fin j → ℚ) (h : j ≠ k) : genLinInstance U w = .error .value := by
  simp [genLinInstance, genLinInstanceVectors, h, Except.bind]

theorem genLinReconstruct_eq (U : Mat k d) (x : Fin d → ℚ) : genLinReconstruct U x = .ok (linReconstruct U x) := by
  lin_simp [genLinReconstruct, genLinReconstructVectors, genLinInstanceVectors, genLinInstanceFull, genLinProjectVectors,
    linReconstruct, linInstance, linProject]

theorem genLinProjectOut_eq (U : Mat k d) (x : Fin d → ℚ) : flat1 (genLinProjectOut U x) = linProjectOut U x := by
  lin_simp [genLinProjectOut, genLinProjectOutVectors, genLinInstanceFull, genLinProjectVectors, linProjectOut, linInstance,
    linProject]

/-! ### MeanLinearVectorModel -/

theorem genMeanProject_eq (U : Mat k d) (m x : Fin d → ℚ) : genMeanProject U m x = project U m x := by
  lin_simp [genMeanProject, genMeanProjectVectors, project]

theorem genMeanInstance_eq (U : Mat k d) (m : Fin d → ℚ) (w : Fin k → ℚ) : genMeanInstance U m w = .ok (inst U m w) := by
  lin_simp [genMeanInstance, genMeanInstanceVectors, genMeanInstanceFull, genMeanLinearInstanceFull, inst]

theorem genMeanInstance_mismatch (U : Mat k d) (m : Fin d → ℚ) (w : Fin j → ℚ) (h : j ≠ k) :
    genMeanInstance U m w = .error .value := by
  simp [genMeanInstance, genMeanInstanceVectors, h, Except.bind]

theorem genMeanReconstruct_eq (U : Mat k d) (m x : Fin d → ℚ) : genMeanReconstruct U m x = .ok (reconstruct U m x) := by
  lin_simp [genMeanReconstruct, genMeanReconstructVectors, genMeanInstanceVectors, genMeanInstanceFull,
    genMeanLinearInstanceFull, genMeanProjectVectors, reconstruct, inst, project]

theorem genMeanProjectOut_eq (U : Mat k d) (m x : Fin d → ℚ) : flat1 (genMeanProjectOut U m x) = projectOut U m x := by
  lin_simp [genMeanProjectOut, genMeanProjectOutVectors, genMeanLinearInstanceFull, genMeanProjectVectors, projectOut,
    project]

theorem genMeanComponent_eq (U : Mat k d) (m : Fin d → ℚ) (i : Fin k) (wm : Bool) (sc : ℚ) :
    genMeanComponent U m i wm sc = if wm then (fun c => sc * U i c + m c) else U i := by
  cases wm <;> simp only [genMeanComponent] <;> first | rfl | (funext c; simp)

/-! ### PCAVectorModel (`U` = the active components) -/

theorem genPcaProject_eq (U : Mat k d) (m : Fin d → ℚ) (sd : Fin k → ℚ) (x : Fin d → ℚ) :
    genPcaProject U m sd x = project U m x := by
  lin_simp [genPcaProject, genPcaProjectVectors, project]

theorem setLeftCols_full (f w : Mat r k) : setLeftCols f w = w := by
  ext i c; simp [setLeftCols]

theorem genPcaReconstruct_eq (U : Mat k d) (m : Fin d → ℚ) (sd : Fin k → ℚ) (x : Fin d → ℚ) :
    genPcaReconstruct U m sd x = .ok (reconstruct U m x) := by
  lin_simp [genPcaReconstruct, genPcaReconstructVectors, genPcaInstanceVectors, genPcaInstanceFull,
    genPcaLinearInstanceFull, genPcaProjectVectors, reconstruct, inst, project, setLeftCols_full]

theorem genPcaProjectOut_eq (U : Mat k d) (m : Fin d → ℚ) (sd : Fin k → ℚ) (x : Fin d → ℚ) :
    flat1 (genPcaProjectOut U m sd x) = projectOut U m x := by
  lin_simp [genPcaProjectOut, genPcaProjectOutVectors, genPcaLinearInstanceFull, genPcaProjectVectors, projectOut,
    project]

/-- the weights of `instance(weights)` padded with zeros: `full_weights[..., :n_weights] = weights` -/
theorem setLeftCols_zero_rowMat (w : Fin j → ℚ) :
    setLeftCols (0 : Mat 1 k) (rowMat w) = rowMat (fun c : Fin k => (List.ofFn w).getD c.val 0) := by
  ext i c
  simp only [setLeftCols, Matrix.of_apply, rowMat_apply, Matrix.zero_apply, List.getD_eq_getElem?_getD,
    List.getElem?_ofFn]
  split <;> simp_all

/-- `PCAVectorModel.instance(weights)`: at most `n_active_components` weights, padded with zeros -/
theorem genPcaInstance_eq (U : Mat k d) (m : Fin d → ℚ) (sd : Fin k → ℚ) (w : Fin j → ℚ) :
    genPcaInstance U m sd w false =
      match instPadded U m (List.ofFn w) with
      | some v => .ok v
      | none => .error .value := by
  by_cases h : j > k
  · simp [genPcaInstance, genPcaInstanceVectors, instPadded, padWeights, h, Except.bind]
  · lin_simp [genPcaInstance, genPcaInstanceVectors, genPcaInstanceFull, genPcaLinearInstanceFull, instPadded,
      padWeights, inst, setLeftCols_zero_rowMat]
    simp [h, inst, except_ok_bind, flat1_rowMat]

/-- `instance(weights, normalized_weights=True)` with a full weight vector: `weights *= eigenvalues ** 0.5` -/
theorem genPcaInstance_normalized_eq (U : Mat k d) (m : Fin d → ℚ) (sd w : Fin k → ℚ) :
    genPcaInstance U m sd w true = .ok (instNormalized U m sd w) := by
  lin_simp [genPcaInstance, genPcaInstanceVectors, genPcaInstanceFull, genPcaLinearInstanceFull, instNormalized, inst,
    setLeftCols_full]

theorem genPcaComponent_eq (U : Mat k d) (m : Fin d → ℚ) (sd : Fin k → ℚ) (i : Fin k) (wm : Bool) (sc : ℚ) :
    genPcaComponent U m sd i wm sc = component U m sd i wm sc := by
  cases wm <;> simp only [genPcaComponent, component] <;> first | rfl | (funext c; simp)

/-- `whitened_components()` / `project_whitened(vector)`: every active component divided by ITS `σ_i`, the
(mean-UNsubtracted) vector times the transpose -/
theorem genPcaWhitenedComponents_eq (U : Mat k d) (σ : Fin k → ℚ) : genPcaWhitenedComponents U σ = whitened U σ := by
  simp only [genPcaWhitenedComponents, divRows, whitened]
theorem genPcaProjectWhitened_eq (U : Mat k d) (σ : Fin k → ℚ) (x : Fin d → ℚ) :
    genPcaProjectWhitened U σ x = projectWhitened U σ x := by
  simp only [genPcaProjectWhitened, genPcaWhitenedComponents_eq, projectWhitened]

/-! ### the `_vectors` variants, row by row -/

theorem sub_vec_row (V : Mat r d) (m : Fin d → ℚ) (i : Fin r) : (V - m : Mat r d) i = V i - m := by
  funext c; simp
theorem add_vec_row (V : Mat r d) (m : Fin d → ℚ) (i : Fin r) : (V + m : Mat r d) i = V i + m := by
  funext c; simp

theorem genPcaProjectVectors_row (U : Mat k d) (m : Fin d → ℚ) (sd : Fin k → ℚ) (V : Mat r d) (i : Fin r) :
    genPcaProjectVectors U m sd V i = project U m (V i) := by
  simp only [genPcaProjectVectors, npDot_same, Matrix.mul_apply_eq_vecMul, sub_vec_row, project]

theorem genPcaReconstructVectors_eq (U : Mat k d) (m : Fin d → ℚ) (sd : Fin k → ℚ) (V : Mat r d) :
    genPcaReconstructVectors U m sd V = .ok (Matrix.of fun i => reconstruct U m (V i)) := by
  simp only [genPcaReconstructVectors, genPcaInstanceVectors, genPcaInstanceFull, genPcaLinearInstanceFull,
    genPcaProjectVectors, shapeOf_eq, gt_iff_lt, lt_irrefl, decide_false, Bool.false_eq_true, if_false,
    setLeftCols_full, npDot_same]
  congr 1
  all_goals (ext i c; simp only [maddv_apply, Matrix.of_apply, reconstruct, inst, project, Pi.add_apply];
             try rw [Matrix.mul_apply_eq_vecMul, Matrix.mul_apply_eq_vecMul, sub_vec_row])

theorem genPcaProjectOutVectors_row (U : Mat k d) (m : Fin d → ℚ) (sd : Fin k → ℚ) (V : Mat r d) (i : Fin r) :
    genPcaProjectOutVectors U m sd V i = projectOut U m (V i) := by
  funext c
  simp only [genPcaProjectOutVectors, genPcaLinearInstanceFull, genPcaProjectVectors, npDot_same, projectOut, project,
    Matrix.sub_apply, Pi.sub_apply]
  rw [Matrix.mul_apply_eq_vecMul, Matrix.mul_apply_eq_vecMul, sub_vec_row]
  rfl

theorem genLinProjectVectors_row (U : Mat k d) (V : Mat r d) (i : Fin r) :
    genLinProjectVectors U V i = linProject U (V i) := by
  simp only [genLinProjectVectors, npDot_same, Matrix.mul_apply_eq_vecMul, linProject]


/-! ### the algebraic clauses of the property, for the translated PCAVectorModel methods -/

/-- PROPERTY (translated methods): for orthonormal active components `U` (what `eigh` promises, `cov_path_identities` /
`gram_path_identities` / `identities_after_trimming`), the TRANSLATED `instance`, `project`, `reconstruct`,
`project_out` of PCAVectorModel satisfy: project(instance(w)) = w; reconstruct succeeds, is idempotent, is
`P (x − m) + m` for the symmetric idempotent `P = Uᵀ U`; x = reconstruct(x) + project_out(x); the residual is orthogonal
to every component. -/
theorem src_identities {U : Mat k d} (hU : U * Uᵀ = 1) (m : Fin d → ℚ) (sd : Fin k → ℚ) (x : Fin d → ℚ)
    (w : Fin k → ℚ) :
    (∃ v, genPcaInstance U m sd w false = .ok v ∧ genPcaProject U m sd v = w) ∧
    (∃ y, genPcaReconstruct U m sd x = .ok y ∧ genPcaReconstruct U m sd y = .ok y ∧
      y = projector U *ᵥ (x - m) + m ∧ y + flat1 (genPcaProjectOut U m sd x) = x) ∧
    projector U * projector U = projector U ∧ (projector U)ᵀ = projector U ∧
    U *ᵥ flat1 (genPcaProjectOut U m sd x) = 0 := by
  obtain ⟨p1, p2, p3, p4⟩ := reconstruct_is_orthogonal_projection hU m x
  refine ⟨?_, ⟨reconstruct U m x, genPcaReconstruct_eq U m sd x, ?_, p1, ?_⟩, p2, p3, ?_⟩
  · have hpad : padWeights k (List.ofFn w) = some fun i => (List.ofFn w).getD i.val 0 := by
      simp [padWeights]
    have hw : (fun i : Fin k => (List.ofFn w).getD i.val 0) = w := by
      funext i; simp [List.getD_eq_getElem?_getD, List.getElem?_ofFn]
    refine ⟨inst U m w, ?_, ?_⟩
    · rw [genPcaInstance_eq]; simp only [instPadded, hpad, hw, Option.map_some]
    · rw [genPcaProject_eq]; exact project_instance_clause hU m w
  · rw [genPcaReconstruct_eq, reconstruct_idempotent_clause hU]
  · rw [genPcaProjectOut_eq]; exact p4
  · rw [genPcaProjectOut_eq]; exact residual_orthogonal_clause hU m x

/-- non-vacuity: the rational rotation of `Props/C10.lean`, one active component -/
example : genPcaReconstruct (prefixRows exU (by decide : 1 ≤ 2)) ![1, 2] ![1] ![6, 2] = .ok ![14/5, 22/5] := by
  rw [genPcaReconstruct_eq]; congr 1; decide +kernel
/-- too many weights: `instance` raises -/
example : genPcaInstance exU ![1, 2] ![1, 1] ![3, 0, 1] false = .error .value := by
  rw [genPcaInstance_eq]; simp [instPadded, padWeights]
example : exU * exUᵀ = 1 := by decide +kernel

end MenpoModel.C10.GenProps
