/-
C05 — obligations over the DTYPE reading of the translated vectorisation code (`Generated/C05SrcDt.lean`: the same
source text as `Generated/C05Src.lean`, every array expression read as its dtype, every value-dependent test as an
opaque guard).  The model's dtype calculus (`fviDtype`, `fromVecDtype`, `asVecDtype` of Core/Vectorize.lean — which
construction idiom each supplier uses: a reshape of the vector, a fresh `np.eye`, an assignment into the existing
buffer, a coercion to bool) was transcribed by hand and tied by the correspondence only; here it is DERIVED from the
source: on every path on which a supplier returns, for every valuation of the guards, the dtype of the rebuilt array
is the one the calculus predicts.
-/
import MenpoModel.Generated.C05SrcDt
import MenpoModel.Generated.C05Dispatch
import MenpoModel.GenProps.C05

set_option linter.unusedVariables false
set_option linter.unusedSimpArgs false

namespace MenpoModel.C05.DtProps
open MenpoModel.C05

/-- the call raised, or it returned an array of dtype `d` -/
def OkOr (o : Option Dt) (d : Dt) : Prop := o = none ∨ o = some d

syntax "dt_auto" (" [" Lean.Parser.Tactic.simpLemma,* "]")? : tactic
macro_rules
  | `(tactic| dt_auto) => `(tactic| (unfold OkOr; (repeat' split) <;> simp_all))
  | `(tactic| dt_auto [$ls,*]) => `(tactic| (unfold OkOr; simp only [$ls,*]; (repeat' split) <;> simp_all))

variable (g : Nat → Bool) (full : Bool) (own vec : Dt) (c k : Bool)

/-! ## suppliers -/

theorem PointCloud__as_vector_dt : OkOr (SrcDt.PointCloud__as_vector g own) own := by
  dt_auto [SrcDt.PointCloud__as_vector]
theorem PointCloud__from_vector_inplace_dt : OkOr (SrcDt.PointCloud__from_vector_inplace g own vec) vec := by
  dt_auto [SrcDt.PointCloud__from_vector_inplace]
theorem TexturedTriMesh_from_vector_dt : OkOr (SrcDt.TexturedTriMesh_from_vector g own vec) vec := by
  dt_auto [SrcDt.TexturedTriMesh_from_vector]

theorem Image__as_vector_dt : OkOr (SrcDt.Image__as_vector g own k) own := by
  dt_auto [SrcDt.Image__as_vector]
theorem Image_from_vector_dt : OkOr (SrcDt.Image_from_vector g own vec c) vec := by
  dt_auto [SrcDt.Image_from_vector]
theorem Image__from_vector_inplace_dt : OkOr (SrcDt.Image__from_vector_inplace g own vec c) vec := by
  dt_auto [SrcDt.Image__from_vector_inplace]
theorem MaskedImage__as_vector_dt : OkOr (SrcDt.MaskedImage__as_vector g full own k) own := by
  dt_auto [SrcDt.MaskedImage__as_vector, SrcDt.MaskedImage_masked_pixels]
/-- both branches of `MaskedImage.from_vector` build an array of the VECTOR's dtype (the blank canvas included) -/
theorem MaskedImage_from_vector_dt : OkOr (SrcDt.MaskedImage_from_vector g full own vec) vec := by
  dt_auto [SrcDt.MaskedImage_from_vector]
/-- the in-place update rebinds to (a copy of) the vector under an all-true mask and writes into the existing buffer
otherwise -/
theorem MaskedImage__from_vector_inplace_dt :
    OkOr (SrcDt.MaskedImage__from_vector_inplace g (SrcDt.MaskedImage__set_masked_pixels g full) own vec c)
      (if full then vec else own) := by
  dt_auto [SrcDt.MaskedImage__from_vector_inplace, SrcDt.MaskedImage__set_masked_pixels]
theorem BooleanImage_from_vector_dt : OkOr (SrcDt.BooleanImage_from_vector g own vec c) .bool := by
  dt_auto [SrcDt.BooleanImage_from_vector]

theorem Homogeneous__as_vector_dt : OkOr (SrcDt.Homogeneous__as_vector g own) own := by
  dt_auto [SrcDt.Homogeneous__as_vector]
theorem Homogeneous__set_h_matrix_dt : OkOr (SrcDt.Homogeneous__set_h_matrix g own vec c) vec := by
  dt_auto [SrcDt.Homogeneous__set_h_matrix]
theorem Affine__set_h_matrix_dt : OkOr (SrcDt.Affine__set_h_matrix g own vec c) vec := by
  dt_auto [SrcDt.Affine__set_h_matrix]
theorem AlignmentAffine__set_h_matrix_dt : OkOr (SrcDt.AlignmentAffine__set_h_matrix g own vec c) vec := by
  have := Affine__set_h_matrix_dt g own vec c
  unfold OkOr at this ⊢
  simp only [SrcDt.AlignmentAffine__set_h_matrix]
  rcases this with h | h <;> simp [h]
theorem Affine__as_vector_dt : OkOr (SrcDt.Affine__as_vector g own) .float64 := by
  dt_auto [SrcDt.Affine__as_vector]
theorem Similarity__as_vector_dt : OkOr (SrcDt.Similarity__as_vector g own) .float64 := by
  dt_auto [SrcDt.Similarity__as_vector]
theorem Translation__as_vector_dt : OkOr (SrcDt.Translation__as_vector g own) own := by
  dt_auto [SrcDt.Translation__as_vector]
theorem UniformScale__as_vector_dt : OkOr (SrcDt.UniformScale__as_vector g own) own := by
  dt_auto [SrcDt.UniformScale__as_vector]
theorem NonUniformScale__as_vector_dt : OkOr (SrcDt.NonUniformScale__as_vector g own) own := by
  dt_auto [SrcDt.NonUniformScale__as_vector, SrcDt.NonUniformScale_scale]

/-- whatever `_set_h_matrix` the class resolves to, it stores the matrix it is given -/
def StoresGiven (S : Dt → Dt → Option Dt) : Prop := ∀ s m, OkOr (S s m) m

theorem Homogeneous__from_vector_inplace_dt (S : Dt → Dt → Option Dt) (hS : StoresGiven S) :
    OkOr (SrcDt.Homogeneous__from_vector_inplace g S own vec) vec := by
  have := hS own vec
  unfold OkOr at this ⊢
  simp only [SrcDt.Homogeneous__from_vector_inplace]
  rcases this with h | h <;> simp [h]

/-- `Affine._from_vector_inplace` builds its matrix from a fresh `np.eye`: float64 whatever the receiver stored -/
theorem Affine__from_vector_inplace_dt (S : Dt → Dt → Option Dt) (hS : StoresGiven S) :
    OkOr (SrcDt.Affine__from_vector_inplace g S own vec) .float64 := by
  have := hS own .float64
  unfold OkOr at this ⊢
  simp only [SrcDt.Affine__from_vector_inplace]
  rcases this with h | h <;> (repeat' split) <;> simp_all

/-- … and so does `Similarity._from_vector_inplace` (it does not fill the receiver's own matrix) -/
theorem Similarity__from_vector_inplace_dt (S : Dt → Dt → Option Dt) (hS : StoresGiven S) :
    OkOr (SrcDt.Similarity__from_vector_inplace g S own vec) .float64 := by
  have := hS own .float64
  unfold OkOr at this ⊢
  simp only [SrcDt.Similarity__from_vector_inplace]
  rcases this with h | h <;> (repeat' split) <;> simp_all

theorem AlignmentSimilarity__from_vector_inplace_dt (S : Dt → Dt → Option Dt) (hS : StoresGiven S) :
    OkOr (SrcDt.AlignmentSimilarity__from_vector_inplace g S own vec) .float64 := by
  have := Similarity__from_vector_inplace_dt g own vec S hS
  unfold OkOr at this ⊢
  simp only [SrcDt.AlignmentSimilarity__from_vector_inplace]
  rcases this with h | h <;> simp [h]

/-- the suppliers that write INTO the receiver's matrix keep its dtype -/
theorem Translation__from_vector_inplace_dt : OkOr (SrcDt.Translation__from_vector_inplace g own vec) own := by
  dt_auto [SrcDt.Translation__from_vector_inplace]
theorem AlignmentTranslation__from_vector_inplace_dt :
    OkOr (SrcDt.AlignmentTranslation__from_vector_inplace g own vec) own := by
  have := Translation__from_vector_inplace_dt g own vec
  unfold OkOr at this ⊢
  simp only [SrcDt.AlignmentTranslation__from_vector_inplace]
  rcases this with h | h <;> simp [h]
theorem UniformScale__from_vector_inplace_dt : OkOr (SrcDt.UniformScale__from_vector_inplace g own vec) own := by
  dt_auto [SrcDt.UniformScale__from_vector_inplace]
theorem AlignmentUniformScale__from_vector_inplace_dt :
    OkOr (SrcDt.AlignmentUniformScale__from_vector_inplace g own vec) own := by
  have := UniformScale__from_vector_inplace_dt g own vec
  unfold OkOr at this ⊢
  simp only [SrcDt.AlignmentUniformScale__from_vector_inplace]
  rcases this with h | h <;> simp [h]
theorem NonUniformScale__from_vector_inplace_dt : OkOr (SrcDt.NonUniformScale__from_vector_inplace g own vec) own := by
  dt_auto [SrcDt.NonUniformScale__from_vector_inplace]
theorem Rotation_set_rotation_matrix_dt : OkOr (SrcDt.Rotation_set_rotation_matrix g own vec) own := by
  dt_auto [SrcDt.Rotation_set_rotation_matrix]
theorem AlignmentRotation_set_rotation_matrix_dt : OkOr (SrcDt.AlignmentRotation_set_rotation_matrix g own vec) own := by
  have := Rotation_set_rotation_matrix_dt g own vec
  unfold OkOr at this ⊢
  simp only [SrcDt.AlignmentRotation_set_rotation_matrix]
  rcases this with h | h <;> simp [h]
theorem Rotation__from_vector_inplace_dt (R : Dt → Dt → Option Dt) (hR : ∀ s m, OkOr (R s m) s) :
    OkOr (SrcDt.Rotation__from_vector_inplace g R own vec) own := by
  have := hR own .float64
  unfold OkOr at this ⊢
  simp only [SrcDt.Rotation__from_vector_inplace]
  rcases this with h | h <;> (repeat' split) <;> simp_all

/-! ## assembled through the regenerated method-resolution table -/

def dSetH (r : Row) (g : Nat → Bool) : Dt → Dt → Option Dt :=
  match r.setH with
  | .Homogeneous => fun s m => SrcDt.Homogeneous__set_h_matrix g s m true
  | .Affine => fun s m => SrcDt.Affine__set_h_matrix g s m false
  | .AlignmentAffine => fun s m => SrcDt.AlignmentAffine__set_h_matrix g s m false
  | _ => fun _ _ => none

def dSetRot (r : Row) (g : Nat → Bool) : Dt → Dt → Option Dt :=
  match r.setRot with
  | .Rotation => SrcDt.Rotation_set_rotation_matrix g
  | .AlignmentRotation => SrcDt.AlignmentRotation_set_rotation_matrix g
  | _ => fun _ _ => none

/-- dtype of the receiver's array after `_from_vector_inplace(v)`, as the source says -/
def dFvi (r : Row) (g : Nat → Bool) (full : Bool) (own vec : Dt) : Option Dt :=
  match r.fvi with
  | .PointCloud => SrcDt.PointCloud__from_vector_inplace g own vec
  | .Image => SrcDt.Image__from_vector_inplace g own vec true
  | .MaskedImage => SrcDt.MaskedImage__from_vector_inplace g (SrcDt.MaskedImage__set_masked_pixels g full) own vec true
  | .Homogeneous => SrcDt.Homogeneous__from_vector_inplace g (dSetH r g) own vec
  | .Affine => SrcDt.Affine__from_vector_inplace g (dSetH r g) own vec
  | .Similarity => SrcDt.Similarity__from_vector_inplace g (dSetH r g) own vec
  | .AlignmentSimilarity => SrcDt.AlignmentSimilarity__from_vector_inplace g (dSetH r g) own vec
  | .Translation => SrcDt.Translation__from_vector_inplace g own vec
  | .AlignmentTranslation => SrcDt.AlignmentTranslation__from_vector_inplace g own vec
  | .UniformScale => SrcDt.UniformScale__from_vector_inplace g own vec
  | .AlignmentUniformScale => SrcDt.AlignmentUniformScale__from_vector_inplace g own vec
  | .NonUniformScale => SrcDt.NonUniformScale__from_vector_inplace g own vec
  | .Rotation => SrcDt.Rotation__from_vector_inplace g (dSetRot r g) own vec
  | _ => none

/-- dtype of the array of `from_vector(v)` (`copy()` keeps the dtype) -/
def dFromVec (r : Row) (g : Nat → Bool) (full : Bool) (own vec : Dt) : Option Dt :=
  match r.fromVector with
  | .Image => SrcDt.Image_from_vector g own vec true
  | .MaskedImage => SrcDt.MaskedImage_from_vector g full own vec
  | .BooleanImage => SrcDt.BooleanImage_from_vector g own vec true
  | .TexturedTriMesh => SrcDt.TexturedTriMesh_from_vector g own vec
  | .Vectorizable | .Homogeneous => dFvi r g full own vec
  | _ => none

/-- dtype of `_as_vector()` -/
def dAsVec (r : Row) (g : Nat → Bool) (full : Bool) (own : Dt) : Option Dt :=
  match r.asVector with
  | .PointCloud => SrcDt.PointCloud__as_vector g own
  | .Image => SrcDt.Image__as_vector g own false
  | .MaskedImage => SrcDt.MaskedImage__as_vector g full own false
  | .Homogeneous => SrcDt.Homogeneous__as_vector g own
  | .Affine => SrcDt.Affine__as_vector g own
  | .Similarity => SrcDt.Similarity__as_vector g own
  | .Translation => SrcDt.Translation__as_vector g own
  | .UniformScale => SrcDt.UniformScale__as_vector g own
  | .NonUniformScale => SrcDt.NonUniformScale__as_vector g own
  | _ => none

theorem dSetH_stores (r : Row) : StoresGiven (dSetH r g) := by
  intro s m
  unfold dSetH
  cases r.setH <;> first
    | exact Homogeneous__set_h_matrix_dt g s m true
    | exact Affine__set_h_matrix_dt g s m false
    | exact AlignmentAffine__set_h_matrix_dt g s m false
    | exact Or.inl rfl

theorem dSetRot_keeps (r : Row) : ∀ s m, OkOr (dSetRot r g s m) s := by
  intro s m
  unfold dSetRot
  cases r.setRot <;> first
    | exact Rotation_set_rotation_matrix_dt g s m
    | exact AlignmentRotation_set_rotation_matrix_dt g s m
    | exact Or.inl rfl

/-- DERIVED dtype calculus, in-place update: for every class row, every valuation of the value-dependent tests and every
pair of dtypes, `_from_vector_inplace` raises or leaves an array of dtype `fviDtype` -/
theorem fvi_dtype_src (r : Row) : OkOr (dFvi r g full own vec) (fviDtype r.fvi full own vec) := by
  unfold dFvi fviDtype
  cases r.fvi <;> first
    | exact PointCloud__from_vector_inplace_dt g own vec
    | exact Image__from_vector_inplace_dt g own vec true
    | exact MaskedImage__from_vector_inplace_dt g full own vec true
    | exact Homogeneous__from_vector_inplace_dt g own vec _ (dSetH_stores g r)
    | exact Affine__from_vector_inplace_dt g own vec _ (dSetH_stores g r)
    | exact Similarity__from_vector_inplace_dt g own vec _ (dSetH_stores g r)
    | exact AlignmentSimilarity__from_vector_inplace_dt g own vec _ (dSetH_stores g r)
    | exact Translation__from_vector_inplace_dt g own vec
    | exact AlignmentTranslation__from_vector_inplace_dt g own vec
    | exact UniformScale__from_vector_inplace_dt g own vec
    | exact AlignmentUniformScale__from_vector_inplace_dt g own vec
    | exact NonUniformScale__from_vector_inplace_dt g own vec
    | exact Rotation__from_vector_inplace_dt g own vec _ (dSetRot_keeps g r)
    | exact Or.inl rfl

/-- DERIVED dtype calculus, `from_vector` -/
theorem fromVec_dtype_src (r : Row) : OkOr (dFromVec r g full own vec) (fromVecDtype r full own vec) := by
  unfold dFromVec fromVecDtype
  cases r.fromVector <;> first
    | exact Image_from_vector_dt g own vec true
    | exact MaskedImage_from_vector_dt g full own vec
    | exact BooleanImage_from_vector_dt g own vec true
    | exact TexturedTriMesh_from_vector_dt g own vec
    | exact fvi_dtype_src g full own vec r
    | exact Or.inl rfl

/-- DERIVED dtype calculus, `_as_vector` (the rotation's quaternion comes out of `eigh`: not read from the source) -/
theorem asVec_dtype_src (r : Row) : OkOr (dAsVec r g full own) (asVecDtype r own) := by
  unfold dAsVec asVecDtype
  cases r.asVector <;> first
    | exact PointCloud__as_vector_dt g own
    | exact Image__as_vector_dt g own false
    | exact MaskedImage__as_vector_dt g full own false
    | exact Homogeneous__as_vector_dt g own
    | exact Affine__as_vector_dt g own
    | exact Similarity__as_vector_dt g own
    | exact Translation__as_vector_dt g own
    | exact UniformScale__as_vector_dt g own
    | exact NonUniformScale__as_vector_dt g own
    | exact Or.inl rfl

/-- some valuation of the first eight guards makes `from_vector` return -/
def reach (r : Row) (full : Bool) : Bool :=
  (List.range 256).any (fun b => (dFromVec r (fun n => b.testBit n) full .float32 .int64).isSome)

/-- non-vacuity: for every class of the current hierarchy some valuation of the guards makes `from_vector` return (and
then, by `fromVec_dtype_src`, with the predicted dtype); the dispatch table is the regenerated one -/
theorem fromVec_dtype_reachable : ∀ r ∈ Generated.dispatch, reach r true = true ∧ reach r false = true := by
  decide +kernel

/-- the derived calculus on the current classes, spelled out for the two cases the seeded campaign probed: a masked
image with a partial mask given a float64 vector is rebuilt as float64 (not in the image's own dtype), and a Similarity
holding an integer matrix is rebuilt as float64 -/
theorem masked_and_similarity_dtype (g : Nat → Bool) :
    OkOr (dFromVec (rowOf .MaskedImage) g false .uint8 .float64) .float64 ∧
    OkOr (dFromVec (rowOf .Similarity) g false .int64 .float64) .float64 :=
  ⟨fromVec_dtype_src g false .uint8 .float64 _, fromVec_dtype_src g false .int64 .float64 _⟩

end MenpoModel.C05.DtProps
