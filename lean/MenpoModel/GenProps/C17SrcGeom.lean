/-
C17 — obligations over the GEOMETRY part of `Generated/C17Src.lean` (the bodies of TriMesh.tri_areas, mean_tri_area,
edge_vectors, edge_lengths, unique_edge_vectors, unique_edge_lengths, mean_edge_length, tri_normals, vertex_normals and
of menpo/shape/mesh/normals.py: _normalize, compute_face_normals, compute_vertex_normals — TRANSLATED from the source
text of the working tree on every run): every translated definition equals the definition of `Core/C17Mesh.lean` the
C17 theorems are about, for ALL meshes; then the geometry clauses of the property restated for the translated methods.

  genTriAreas_eq2 / _eq3 / _other     tri_areas: 2-D = meshAreas2 (exact), 3-D = sqrt(|cross|²)/2 row by row, else ValueError
  genMeanTriArea_eq2 / _eq3           mean_tri_area
  genEdgeVectors_eq2 / _eq3           edge_vectors = edgeVecs of every triangle
  genEdgeLengths_eq2 / _eq3           edge_lengths = sqrt of meshEdgeSq
  genUniqueEdgeVectors_eq2 / _eq3, genUniqueEdgeLengths_eq2 / _eq3 (equal to the first-occurrence listing, Perm uniqueEdgeSq)
  genMeanEdgeLength_eq2 / _eq3        mean_edge_length (both values of `unique`)
  genNormalize_eq                     _normalize = normalizeRows  (IEEE 0/0 -> nan -> 0 included)
  genComputeFaceNormals_eq            compute_face_normals = faceNormals
  genComputeVertexNormals_eq          compute_vertex_normals = vertexNormals (zeros, three np.add.at passes, _normalize)
  genTriNormals_eq, genVertexNormals_eq   the 3-D guards

`np.sqrt` is a parameter `sqrt : Rat → Rat`; where a statement needs its contract the hypothesis is `SqrtOn` (the
returned value is the non-negative root on the rows it is applied to) or the weaker `RootZero`.
Hand-written; `lake build` re-checks it against what the code says now.
-/
import MenpoModel.GenProps.C17Src

namespace MenpoModel.C17.SrcProps
open MenpoModel.C17 MenpoModel.C17.Np MenpoModel.C17.Gen

variable {C T : Type}

/-- the arrays of a 3-D / 2-D mesh object whose vertices are the exact points `pts` -/
def gm3 (pts : List V3) (ts : List Tri) (cs : List C) (tc : List T) : NMesh (List Rat) C T :=
  { ndims := 3, points := pts.map V3.toList, colours := cs, tcoords := tc, trilist := rows ts }
def gm2 (pts : List V2) (ts : List Tri) (cs : List C) (tc : List T) : NMesh (List Rat) C T :=
  { ndims := 2, points := pts.map V2.toList, colours := cs, tcoords := tc, trilist := rows ts }

/-! ## `points[trilist]` and the column / element-wise primitives on it -/

/-- `points[trilist]`: the corner rows of every triangle (`Core.triCorners`) -/
theorem fancy_rows {α β : Type} (f : α → β) (pts : List α) (ts : List Tri) :
    fancy (pts.map f) (rows ts) = (triCorners pts ts).map (fun q => [f q.1, f q.2.1, f q.2.2]) := by
  induction ts with
  | nil => rfl
  | cons t rest ih =>
    simp only [fancy, rows, triCorners, List.map_cons, List.filterMap_cons] at ih ⊢
    rw [ih]
    simp only [Tri.verts, List.map_cons, List.map_nil, List.getElem?_map, getTri]
    cases pts[t.1]? <;> cases pts[t.2.1]? <;> cases pts[t.2.2]? <;> simp [allSome]

theorem V3.toList_sub (a b : V3) : V3.toList a - V3.toList b = V3.toList (V3.sub a b) := rfl
theorem V2.toList_sub (a b : V2) : V2.toList a - V2.toList b = V2.toList (V2.sub a b) := rfl

theorem sumSq_toList3 (v : V3) : sumSq (V3.toList v) = V3.normSq v := by
  simp only [sumSq, V3.toList, List.map_cons, List.map_nil, List.foldr_cons, List.foldr_nil, V3.normSq, V3.dot]
  ring
theorem sumSq_toList2 (v : V2) : sumSq (V2.toList v) = V2.normSq v := by
  simp only [sumSq, V2.toList, List.map_cons, List.map_nil, List.foldr_cons, List.foldr_nil, V2.normSq, V2.dot]
  ring

theorem crossRow_toList (a b : V3) : crossRow (V3.toList a) (V3.toList b) = V3.toList (V3.cross a b) := by
  simp [crossRow, V3.toList, V3.cross]

/-- the column differences `t[:, i] - t[:, j]` of `t = points[trilist]` (3-D) -/
theorem col_sub3 (T3 : List (V3 × V3 × V3)) (g h : V3 × V3 × V3 → V3) :
    (T3.map (fun q => V3.toList (g q)) - T3.map (fun q => V3.toList (h q)))
      = T3.map (fun q => V3.toList (V3.sub (g q) (h q))) := by
  rw [sub_def2, zipWith_map_same]; rfl
theorem col_sub2 (T2 : List (V2 × V2 × V2)) (g h : V2 × V2 × V2 → V2) :
    (T2.map (fun q => V2.toList (g q)) - T2.map (fun q => V2.toList (h q)))
      = T2.map (fun q => V2.toList (V2.sub (g q) (h q))) := by
  rw [sub_def2, zipWith_map_same]; rfl

/-! rewriting lemmas: every primitive applied to `T.map …` is again a `T.map …` -/

theorem col3_0 {α β : Type} [Inhabited β] (l : List α) (f0 f1 f2 : α → β) :
    col (l.map (fun q => [f0 q, f1 q, f2 q])) 0 = l.map f0 := by simp [col]
theorem col3_1 {α β : Type} [Inhabited β] (l : List α) (f0 f1 f2 : α → β) :
    col (l.map (fun q => [f0 q, f1 q, f2 q])) 1 = l.map f1 := by simp [col]
theorem col3_2 {α β : Type} [Inhabited β] (l : List α) (f0 f1 f2 : α → β) :
    col (l.map (fun q => [f0 q, f1 q, f2 q])) 2 = l.map f2 := by simp [col]
theorem colV2_0 {α : Type} (l : List α) (g : α → V2) : col (l.map (fun q => V2.toList (g q))) 0 = l.map (fun q => (g q).x) := by
  simp [col, V2.toList]
theorem colV2_1 {α : Type} (l : List α) (g : α → V2) : col (l.map (fun q => V2.toList (g q))) 1 = l.map (fun q => (g q).y) := by
  simp [col, V2.toList]
theorem sub_map2V3 {α : Type} (l : List α) (g h : α → V3) :
    (l.map (fun q => V3.toList (g q)) - l.map (fun q => V3.toList (h q))) = l.map (fun q => V3.toList (V3.sub (g q) (h q))) := by
  rw [sub_def2, zipWith_map_same]; rfl
theorem sub_map2V2 {α : Type} (l : List α) (g h : α → V2) :
    (l.map (fun q => V2.toList (g q)) - l.map (fun q => V2.toList (h q))) = l.map (fun q => V2.toList (V2.sub (g q) (h q))) := by
  rw [sub_def2, zipWith_map_same]; rfl
theorem sub_map1 {α : Type} (l : List α) (g h : α → Rat) : (l.map g - l.map h) = l.map (fun q => g q - h q) := by
  rw [sub_def1, zipWith_map_same]
theorem mul_map1 {α : Type} (l : List α) (g h : α → Rat) : (l.map g * l.map h) = l.map (fun q => g q * h q) := by
  rw [mul_def1, zipWith_map_same]
theorem smul_map1 {α : Type} (l : List α) (g : α → Rat) (c : Rat) : (l.map g * c) = l.map (fun q => g q * c) := by
  rw [smul_def1, List.map_map]; rfl
theorem abs1_map {α : Type} (l : List α) (g : α → Rat) : abs1 (l.map g) = l.map (fun q => absQ (g q)) := by
  simp [abs1, List.map_map, Function.comp_def]
theorem cross_map {α : Type} (l : List α) (g h : α → V3) :
    cross (l.map (fun q => V3.toList (g q))) (l.map (fun q => V3.toList (h q))) = l.map (fun q => V3.toList (V3.cross (g q) (h q))) := by
  simp only [cross, zipWith_map_same, crossRow_toList]
theorem normAxis1_map3 {α : Type} (sqrt : Rat → Rat) (l : List α) (g : α → V3) :
    normAxis1 sqrt (l.map (fun q => V3.toList (g q))) = l.map (fun q => sqrt (V3.normSq (g q))) := by
  simp [normAxis1, List.map_map, Function.comp_def, sumSq_toList3]
theorem normAxis1_map2 {α : Type} (sqrt : Rat → Rat) (l : List α) (g : α → V2) :
    normAxis1 sqrt (l.map (fun q => V2.toList (g q))) = l.map (fun q => sqrt (V2.normSq (g q))) := by
  simp [normAxis1, List.map_map, Function.comp_def, sumSq_toList2]

/-! ## `tri_areas`, `mean_tri_area` -/

/-- OBLIGATION `TriMesh.tri_areas`, 2-D branch: the translated body is the model's `meshAreas2` (exact) -/
theorem genTriAreas_eq2 (sqrt : Rat → Rat) (pts : List V2) (ts : List Tri) (cs : List C) (tc : List T) :
    genTriAreas sqrt (gm2 pts ts cs tc) = .ok (meshAreas2 pts ts) := by
  unfold genTriAreas
  try dsimp only
  simp only [gm2, Np.index, IntIndex.get, fancy_rows, col3_0, col3_1, col3_2, sub_map2V2, colV2_0, colV2_1, mul_map1,
    sub_map1, smul_map1, abs1_map]
  rfl

/-- OBLIGATION `TriMesh.tri_areas`, 3-D branch: half the root of the squared norm of the cross products
`meshFaceNormalsRaw` — so its square is the model's `meshAreasSq3` wherever `sqrt` is a root -/
theorem genTriAreas_eq3 (sqrt : Rat → Rat) (pts : List V3) (ts : List Tri) (cs : List C) (tc : List T) :
    genTriAreas sqrt (gm3 pts ts cs tc) =
      .ok ((meshFaceNormalsRaw pts ts).map (fun n => sqrt (V3.normSq n) * (1 / 2))) := by
  unfold genTriAreas
  try dsimp only
  simp only [gm3, Np.index, IntIndex.get, fancy_rows, col3_0, col3_1, col3_2, sub_map2V3, cross_map, normAxis1_map3,
    smul_map1]
  simp [meshFaceNormalsRaw, faceNormalRaw, List.map_map, Function.comp_def]

/-- OBLIGATION `TriMesh.tri_areas`, `else` branch: any other dimension raises ValueError -/
theorem genTriAreas_other (sqrt : Rat → Rat) (s : NMesh (List Rat) C T) (h2 : s.ndims ≠ 2) (h3 : s.ndims ≠ 3) :
    genTriAreas sqrt s = .error .shape := by
  unfold genTriAreas
  try dsimp only
  simp [h2, h3]


theorem genMeanTriArea_eq2 (sqrt : Rat → Rat) (pts : List V2) (ts : List Tri) (cs : List C) (tc : List T) :
    genMeanTriArea sqrt (gm2 pts ts cs tc) = .ok (meanQ (meshAreas2 pts ts)) := by
  unfold genMeanTriArea; rw [genTriAreas_eq2]; rfl

theorem genMeanTriArea_eq3 (sqrt : Rat → Rat) (pts : List V3) (ts : List Tri) (cs : List C) (tc : List T) :
    genMeanTriArea sqrt (gm3 pts ts cs tc) =
      .ok (meanQ ((meshFaceNormalsRaw pts ts).map (fun n => sqrt (V3.normSq n) * (1 / 2)))) := by
  unfold genMeanTriArea; rw [genTriAreas_eq3]; rfl

/-! ## `edge_vectors`, `edge_lengths` -/

theorem hstack3_map {α β : Type} (l : List α) (f g h : α → List β) :
    hstack3 (l.map f) (l.map g) (l.map h) = l.map (fun q => f q ++ g q ++ h q) := by
  simp only [hstack3, hstack2, zipWith_map_same]

/-- reshaping `k`-wide: rows that are the concatenation of three `k`-long pieces become those pieces -/
theorem reshape_three {α β : Type} (k : Nat) (hk : 0 < k) (l : List α) (f g h : α → List β)
    (hf : ∀ q, (f q).length = k) (hg : ∀ q, (g q).length = k) (hh : ∀ q, (h q).length = k) :
    Np.reshapeRows (l.map (fun q => f q ++ g q ++ h q)).flatten k = l.flatMap (fun q => [f q, g q, h q]) := by
  have e : (fun q => f q ++ g q ++ h q) = (fun q => ([f q, g q, h q] : List (List β)).flatten) := by
    funext q; simp
  rw [e, flatten_map_flatten, reshapeRows_flatten k hk]
  intro r hr
  simp only [List.mem_flatMap, List.mem_cons, List.not_mem_nil, or_false] at hr
  obtain ⟨q, _, rfl | rfl | rfl⟩ := hr
  · exact hf q
  · exact hg q
  · exact hh q

/-- OBLIGATION `TriMesh.edge_vectors` (3-D): the rows are the model's `edgeVecs3` of every triangle, in order -/
theorem genEdgeVectors_eq3 (pts : List V3) (ts : List Tri) (cs : List C) (tc : List T) :
    genEdgeVectors (gm3 pts ts cs tc) =
      ((triCorners pts ts).flatMap (fun q => edgeVecs3 q.1 q.2.1 q.2.2)).map V3.toList := by
  unfold genEdgeVectors
  try dsimp only
  simp only [gm3, Np.index, IntIndex.get, fancy_rows, col3_0, col3_1, col3_2, sub_map2V3, hstack3_map, Np.reshape,
    Np.ravel, Flat.flat]
  rw [reshape_three 3 (by decide) _ _ _ _ (fun _ => rfl) (fun _ => rfl) (fun _ => rfl)]
  simp only [List.map_flatMap, edgeVecs3, List.map_cons, List.map_nil]

theorem genEdgeVectors_eq2 (pts : List V2) (ts : List Tri) (cs : List C) (tc : List T) :
    genEdgeVectors (gm2 pts ts cs tc) =
      ((triCorners pts ts).flatMap (fun q => edgeVecs2 q.1 q.2.1 q.2.2)).map V2.toList := by
  unfold genEdgeVectors
  try dsimp only
  simp only [gm2, Np.index, IntIndex.get, fancy_rows, col3_0, col3_1, col3_2, sub_map2V2, hstack3_map, Np.reshape,
    Np.ravel, Flat.flat]
  rw [reshape_three 2 (by decide) _ _ _ _ (fun _ => rfl) (fun _ => rfl) (fun _ => rfl)]
  simp only [List.map_flatMap, edgeVecs2, List.map_cons, List.map_nil]

theorem normAxis1_toList3 (sqrt : Rat → Rat) (l : List V3) :
    normAxis1 sqrt (l.map V3.toList) = l.map (fun v => sqrt (V3.normSq v)) := normAxis1_map3 sqrt l id
theorem normAxis1_toList2 (sqrt : Rat → Rat) (l : List V2) :
    normAxis1 sqrt (l.map V2.toList) = l.map (fun v => sqrt (V2.normSq v)) := normAxis1_map2 sqrt l id

/-- OBLIGATION `TriMesh.edge_lengths`: the roots of the model's squared edge lengths `meshEdgeSq3` / `meshEdgeSq2`,
slot by slot -/
theorem genEdgeLengths_eq3 (sqrt : Rat → Rat) (pts : List V3) (ts : List Tri) (cs : List C) (tc : List T) :
    genEdgeLengths sqrt (gm3 pts ts cs tc) = (meshEdgeSq3 pts ts).map sqrt := by
  unfold genEdgeLengths
  try dsimp only
  rw [genEdgeVectors_eq3, normAxis1_toList3]
  simp only [meshEdgeSq3, edgeSq3, List.map_flatMap, List.map_map, Function.comp_def]

theorem genEdgeLengths_eq2 (sqrt : Rat → Rat) (pts : List V2) (ts : List Tri) (cs : List C) (tc : List T) :
    genEdgeLengths sqrt (gm2 pts ts cs tc) = (meshEdgeSq2 pts ts).map sqrt := by
  unfold genEdgeLengths
  try dsimp only
  rw [genEdgeVectors_eq2, normAxis1_toList2]
  simp only [meshEdgeSq2, edgeSq2, List.map_flatMap, List.map_map, Function.comp_def]


/-! ## `unique_edge_vectors`, `unique_edge_lengths`, `mean_edge_length` -/

/-- a `[lo, hi]` row read back as a pair -/
def rowToEdge (r : List Nat) : Edge := (r.getD 0 0, r.getD 1 0)

theorem rowToEdge_toRow (e : Edge) : rowToEdge e.toRow = e := rfl

/-- the unique edges in the order `unique_edge_indices` lists them here (first occurrences) -/
def firstEdges (ts : List Tri) : List Edge := (firstRows ((sortedEdges ts).map Edge.toRow)).map rowToEdge

theorem firstRows_as_edges (ts : List Tri) :
    firstRows ((sortedEdges ts).map Edge.toRow) = (firstEdges ts).map Edge.toRow := by
  simp only [firstEdges, List.map_map]
  symm
  rw [← List.map_id (firstRows _)]
  simp only [List.map_map]
  apply List.map_congr_left
  intro r hr
  rw [mem_firstRows] at hr
  obtain ⟨e, _, rfl⟩ := List.mem_map.1 hr
  rfl

theorem firstEdges_perm {P C T : Type} (d : Nat) (M : Mesh P C T) : (firstEdges M.tris).Perm (uniqueEdges M.tris) := by
  have h := (src_unique_edges_once d M).2.2
  rw [genUniqueEdgeIndices_eq] at h
  have h' := h.map rowToEdge
  simpa [firstEdges, List.map_map, Function.comp_def, rowToEdge_toRow] using h'

/-- the vector of an undirected edge `(lo, hi)`: `points[hi] - points[lo]` (no row when an index is out of range) -/
def edgeVecAt3 (pts : List V3) (e : Edge) : Option V3 :=
  match pts[e.1]?, pts[e.2]? with
  | some a, some b => some (V3.sub b a)
  | _, _ => none
def edgeVecAt2 (pts : List V2) (e : Edge) : Option V2 :=
  match pts[e.1]?, pts[e.2]? with
  | some a, some b => some (V2.sub b a)
  | _, _ => none

/-- the two end points of an edge, when both indices are in range -/
def pairAt {α : Type} (pts : List α) (e : Edge) : Option (α × α) :=
  match pts[e.1]?, pts[e.2]? with
  | some a, some b => some (a, b)
  | _, _ => none

theorem fancy_edges {α β : Type} (f : α → β) (pts : List α) (es : List Edge) :
    fancy (pts.map f) (es.map Edge.toRow) = es.filterMap (fun e => (pairAt pts e).map (fun p => [f p.1, f p.2])) := by
  induction es with
  | nil => rfl
  | cons e rest ih =>
    simp only [fancy, List.map_cons, List.filterMap_cons] at ih ⊢
    rw [ih]
    simp only [Edge.toRow, List.map_cons, List.map_nil, List.getElem?_map, pairAt]
    cases pts[e.1]? <;> cases pts[e.2]? <;> simp [allSome]

theorem col_filterMap2 {α β γ : Type} [Inhabited β] (es : List α) (g : α → Option γ) (f0 f1 : γ → β) :
    col (es.filterMap (fun e => (g e).map (fun p => [f0 p, f1 p]))) 0 = es.filterMap (fun e => (g e).map f0) ∧
    col (es.filterMap (fun e => (g e).map (fun p => [f0 p, f1 p]))) 1 = es.filterMap (fun e => (g e).map f1) := by
  induction es with
  | nil => exact ⟨rfl, rfl⟩
  | cons e rest ih =>
    simp only [col, List.filterMap_cons] at ih ⊢
    cases g e with
    | none => simpa using ih
    | some p =>
      simp only [Option.map_some, List.map_cons, List.getD_cons_zero, List.getD_cons_succ]
      exact ⟨by rw [ih.1], by rw [ih.2]⟩

theorem sub_filterMap3 {α γ : Type} (es : List α) (g : α → Option γ) (f0 f1 : γ → V3) :
    (es.filterMap (fun e => (g e).map (fun p => V3.toList (f1 p))) - es.filterMap (fun e => (g e).map (fun p => V3.toList (f0 p))))
      = (es.filterMap (fun e => (g e).map (fun p => V3.sub (f1 p) (f0 p)))).map V3.toList := by
  rw [sub_def2]
  induction es with
  | nil => rfl
  | cons e rest ih =>
    simp only [List.filterMap_cons]
    cases g e with
    | none => simpa using ih
    | some p => simp only [Option.map_some, List.zipWith_cons_cons, List.map_cons, ih]; rfl
theorem sub_filterMap2 {α γ : Type} (es : List α) (g : α → Option γ) (f0 f1 : γ → V2) :
    (es.filterMap (fun e => (g e).map (fun p => V2.toList (f1 p))) - es.filterMap (fun e => (g e).map (fun p => V2.toList (f0 p))))
      = (es.filterMap (fun e => (g e).map (fun p => V2.sub (f1 p) (f0 p)))).map V2.toList := by
  rw [sub_def2]
  induction es with
  | nil => rfl
  | cons e rest ih =>
    simp only [List.filterMap_cons]
    cases g e with
    | none => simpa using ih
    | some p => simp only [Option.map_some, List.zipWith_cons_cons, List.map_cons, ih]; rfl

theorem edgeVecAt3_as (pts : List V3) : edgeVecAt3 pts = fun e => (pairAt pts e).map (fun p => V3.sub p.2 p.1) := by
  funext e; simp only [edgeVecAt3, pairAt]; cases pts[e.1]? <;> cases pts[e.2]? <;> rfl
theorem edgeVecAt2_as (pts : List V2) : edgeVecAt2 pts = fun e => (pairAt pts e).map (fun p => V2.sub p.2 p.1) := by
  funext e; simp only [edgeVecAt2, pairAt]; cases pts[e.1]? <;> cases pts[e.2]? <;> rfl

/-- OBLIGATION `TriMesh.unique_edge_vectors` (3-D) -/
theorem genUniqueEdgeVectors_eq3 (pts : List V3) (ts : List Tri) (cs : List C) (tc : List T) :
    genUniqueEdgeVectors (gm3 pts ts cs tc) = ((firstEdges ts).filterMap (edgeVecAt3 pts)).map V3.toList := by
  unfold genUniqueEdgeVectors
  try dsimp only
  rw [genUniqueEdgeIndices_rows _ ts rfl, firstRows_as_edges]
  simp only [gm3, Np.index, IntIndex.get, fancy_edges]
  rw [(col_filterMap2 _ _ _ _).1, (col_filterMap2 _ _ _ _).2, sub_filterMap3, edgeVecAt3_as]

theorem genUniqueEdgeVectors_eq2 (pts : List V2) (ts : List Tri) (cs : List C) (tc : List T) :
    genUniqueEdgeVectors (gm2 pts ts cs tc) = ((firstEdges ts).filterMap (edgeVecAt2 pts)).map V2.toList := by
  unfold genUniqueEdgeVectors
  try dsimp only
  rw [genUniqueEdgeIndices_rows _ ts rfl, firstRows_as_edges]
  simp only [gm2, Np.index, IntIndex.get, fancy_edges]
  rw [(col_filterMap2 _ _ _ _).1, (col_filterMap2 _ _ _ _).2, sub_filterMap2, edgeVecAt2_as]

theorem uniqueEdgeSq3_as (pts : List V3) (ts : List Tri) :
    uniqueEdgeSq3 pts ts = ((uniqueEdges ts).filterMap (edgeVecAt3 pts)).map V3.normSq := by
  simp only [uniqueEdgeSq3, List.map_filterMap]
  congr 1; funext e
  simp only [edgeVecAt3]
  cases pts[e.1]? <;> cases pts[e.2]? <;> rfl
theorem uniqueEdgeSq2_as (pts : List V2) (ts : List Tri) :
    uniqueEdgeSq2 pts ts = ((uniqueEdges ts).filterMap (edgeVecAt2 pts)).map V2.normSq := by
  simp only [uniqueEdgeSq2, List.map_filterMap]
  congr 1; funext e
  simp only [edgeVecAt2]
  cases pts[e.1]? <;> cases pts[e.2]? <;> rfl

/-- OBLIGATION `TriMesh.unique_edge_lengths`: the roots of the squared lengths of the unique edges — the model's
`uniqueEdgeSq3` / `uniqueEdgeSq2` up to the order in which the unique edges are listed -/
theorem genUniqueEdgeLengths_eq3 (sqrt : Rat → Rat) (pts : List V3) (ts : List Tri) (cs : List C) (tc : List T) :
    genUniqueEdgeLengths sqrt (gm3 pts ts cs tc) =
      ((firstEdges ts).filterMap (edgeVecAt3 pts)).map (fun v => sqrt (V3.normSq v)) ∧
    (genUniqueEdgeLengths sqrt (gm3 pts ts cs tc)).Perm ((uniqueEdgeSq3 pts ts).map sqrt) := by
  have h : genUniqueEdgeLengths sqrt (gm3 pts ts cs tc) =
      ((firstEdges ts).filterMap (edgeVecAt3 pts)).map (fun v => sqrt (V3.normSq v)) := by
    unfold genUniqueEdgeLengths; rw [genUniqueEdgeVectors_eq3, normAxis1_toList3]
  refine ⟨h, ?_⟩
  rw [h, uniqueEdgeSq3_as, List.map_map]
  exact ((firstEdges_perm 3 (⟨pts, cs, tc, ts⟩ : Mesh V3 C T)).filterMap _).map _

theorem genUniqueEdgeLengths_eq2 (sqrt : Rat → Rat) (pts : List V2) (ts : List Tri) (cs : List C) (tc : List T) :
    genUniqueEdgeLengths sqrt (gm2 pts ts cs tc) =
      ((firstEdges ts).filterMap (edgeVecAt2 pts)).map (fun v => sqrt (V2.normSq v)) ∧
    (genUniqueEdgeLengths sqrt (gm2 pts ts cs tc)).Perm ((uniqueEdgeSq2 pts ts).map sqrt) := by
  have h : genUniqueEdgeLengths sqrt (gm2 pts ts cs tc) =
      ((firstEdges ts).filterMap (edgeVecAt2 pts)).map (fun v => sqrt (V2.normSq v)) := by
    unfold genUniqueEdgeLengths; rw [genUniqueEdgeVectors_eq2, normAxis1_toList2]
  refine ⟨h, ?_⟩
  rw [h, uniqueEdgeSq2_as, List.map_map]
  exact ((firstEdges_perm 2 (⟨pts, cs, tc, ts⟩ : Mesh V2 C T)).filterMap _).map _

theorem meanQ_perm (l l' : List Rat) (h : l.Perm l') : meanQ l = meanQ l' := by
  unfold meanQ
  rw [h.length_eq, h.foldr_eq' (fun x _ y _ z => by ring)]

/-- OBLIGATION `TriMesh.mean_edge_length`: the mean of `unique_edge_lengths` (default) or of `edge_lengths` -/
theorem genMeanEdgeLength_eq3 (sqrt : Rat → Rat) (pts : List V3) (ts : List Tri) (cs : List C) (tc : List T) :
    genMeanEdgeLength sqrt (gm3 pts ts cs tc) true = meanQ ((uniqueEdgeSq3 pts ts).map sqrt) ∧
    genMeanEdgeLength sqrt (gm3 pts ts cs tc) false = meanQ ((meshEdgeSq3 pts ts).map sqrt) := by
  unfold genMeanEdgeLength
  try dsimp only
  simp only [if_true, Bool.false_eq_true, if_false, Np.mean, genEdgeLengths_eq3]
  exact ⟨meanQ_perm _ _ (genUniqueEdgeLengths_eq3 sqrt pts ts cs tc).2, trivial⟩

theorem genMeanEdgeLength_eq2 (sqrt : Rat → Rat) (pts : List V2) (ts : List Tri) (cs : List C) (tc : List T) :
    genMeanEdgeLength sqrt (gm2 pts ts cs tc) true = meanQ ((uniqueEdgeSq2 pts ts).map sqrt) ∧
    genMeanEdgeLength sqrt (gm2 pts ts cs tc) false = meanQ ((meshEdgeSq2 pts ts).map sqrt) := by
  unfold genMeanEdgeLength
  try dsimp only
  simp only [if_true, Bool.false_eq_true, if_false, Np.mean, genEdgeLengths_eq2]
  exact ⟨meanQ_perm _ _ (genUniqueEdgeLengths_eq2 sqrt pts ts cs tc).2, trivial⟩


/-! ## `_normalize`, `compute_face_normals`, `compute_vertex_normals`, `tri_normals`, `vertex_normals` -/

theorem normSq_eq_zero (v : V3) (h : V3.normSq v = 0) : v = V3.zero := by
  simp only [V3.normSq, V3.dot] at h
  have hx : v.x = 0 := by nlinarith [mul_self_nonneg v.x, mul_self_nonneg v.y, mul_self_nonneg v.z]
  have hy : v.y = 0 := by nlinarith [mul_self_nonneg v.x, mul_self_nonneg v.y, mul_self_nonneg v.z]
  have hz : v.z = 0 := by nlinarith [mul_self_nonneg v.x, mul_self_nonneg v.y, mul_self_nonneg v.z]
  ext <;> simp [V3.zero, hx, hy, hz]

/-- the part of the `np.sqrt` contract `_normalize` relies on to turn `0/0` (and nothing else) into `0`:
a root that is zero is the root of zero -/
def RootZero (sqrt : Rat → Rat) (vs : List V3) : Prop := ∀ v ∈ vs, sqrt (V3.normSq v) = 0 → V3.normSq v = 0

theorem rootZero_of_isRoot (sqrt : Rat → Rat) (vs : List V3) (h : ∀ v ∈ vs, IsRoot (sqrt (V3.normSq v)) (V3.normSq v)) :
    RootZero sqrt vs := by
  intro v hv h0
  have := (h v hv).2
  rw [h0] at this
  simpa using this.symm

/-- one entry of `nan_to_num(v / r)` -/
theorem nanToNum_fdiv (x r : Rat) (h : r = 0 → x = 0) : nanToNum1 (fdiv x r) = 1 / r * x := by
  unfold fdiv
  by_cases hr : r = 0
  · simp [hr, h hr, nanToNum1]
  · simp only [hr, if_false, nanToNum1]; field_simp

/-- OBLIGATION `_normalize`: the translated body (`nan_to_num(v / sqrt((v ** 2).sum(axis=1, keepdims=True)))` with
IEEE division) is the model's `normalizeRows`, the row norms being `sqrt` of the squared norms — provided a zero root
comes from a zero row only -/
theorem genNormalize_eq (sqrt : Rat → Rat) (vs : List V3) (h : RootZero sqrt vs) :
    genNormalize sqrt (vs.map V3.toList) =
      (normalizeRows (vs.map (fun v => sqrt (V3.normSq v))) vs).map V3.toList := by
  unfold genNormalize
  try dsimp only
  simp only [sq2, sumAxis1Keep, sqrt2, divCol, nanToNum, normalizeRows, List.map_map,
    List.zipWith_map_left, List.zipWith_map_right, List.zipWith_self]
  apply List.map_congr_left
  intro v hv
  have hs : List.foldr (fun x y => x + y) 0 [v.x * v.x, v.y * v.y, v.z * v.z] = V3.normSq v := by
    simp only [List.foldr_cons, List.foldr_nil, V3.normSq, V3.dot]; ring
  simp only [Function.comp_def, V3.toList, List.map_cons, List.map_nil, List.getD_cons_zero, hs]
  have hx : sqrt (V3.normSq v) = 0 → v.x = 0 ∧ v.y = 0 ∧ v.z = 0 := fun h0 => by
    have := normSq_eq_zero v (h v hv h0); rw [this]; exact ⟨rfl, rfl, rfl⟩
  rw [nanToNum_fdiv _ _ (fun e => (hx e).1), nanToNum_fdiv _ _ (fun e => (hx e).2.1),
    nanToNum_fdiv _ _ (fun e => (hx e).2.2)]
  unfold normalize1
  by_cases h0 : sqrt (V3.normSq v) = 0
  · simp [h0, V3.zero]
  · simp [h0, V3.smul]

/-- OBLIGATION `compute_face_normals`: the translated body is the model's `faceNormals` -/
theorem genComputeFaceNormals_eq (sqrt : Rat → Rat) (pts : List V3) (ts : List Tri)
    (h : RootZero sqrt (meshFaceNormalsRaw pts ts)) :
    genComputeFaceNormals sqrt (pts.map V3.toList) (rows ts) =
      (faceNormals ((meshFaceNormalsRaw pts ts).map (fun n => sqrt (V3.normSq n))) pts ts).map V3.toList := by
  unfold genComputeFaceNormals
  try dsimp only
  simp only [Np.index, IntIndex.get, fancy_rows, col3_0, col3_1, col3_2, sub_map2V3, cross_map]
  have e : (triCorners pts ts).map (fun q => V3.toList (V3.cross (V3.sub q.2.1 q.1) (V3.sub q.2.2 q.1)))
      = (meshFaceNormalsRaw pts ts).map V3.toList := by
    simp [meshFaceNormalsRaw, faceNormalRaw, List.map_map, Function.comp_def]
  rw [e, genNormalize_eq sqrt _ h]
  rfl


theorem zerosLike_toList (pts : List V3) :
    zerosLike (pts.map V3.toList) = (List.replicate pts.length V3.zero).map V3.toList := by
  simp only [zerosLike, List.map_map, List.map_replicate]
  rw [← List.map_const']
  apply List.map_congr_left
  intro v _
  rfl

theorem cols_rows (ts : List Tri) :
    col (rows ts) 0 = ts.map (fun t => t.1) ∧ col (rows ts) 1 = ts.map (fun t => t.2.1) ∧
    col (rows ts) 2 = ts.map (fun t => t.2.2) := by
  have h : rows ts = ts.map (fun t => [t.1, t.2.1, t.2.2]) := rfl
  rw [h]
  exact ⟨col3_0 _ _ _ _, col3_1 _ _ _ _, col3_2 _ _ _ _⟩

theorem modify_toList (acc : List V3) (i : Nat) (x : V3) :
    (acc.map V3.toList).modify i (fun r => List.zipWith (fun a b => a + b) r (V3.toList x))
      = (acc.modify i (fun a => V3.add a x)).map V3.toList := by
  apply List.ext_getElem?
  intro j
  simp only [List.getElem?_modify, List.getElem?_map]
  by_cases h : i = j
  · simp only [h, if_true]
    cases acc[j]? with
    | none => rfl
    | some a => rfl
  · simp only [h, if_false]
    cases acc[j]? <;> rfl

/-- `np.add.at` on rows is the model's `scatterAdd` -/
theorem addAt_toList (idx : List Nat) : ∀ (acc vals : List V3),
    Np.addAt (acc.map V3.toList) idx (vals.map V3.toList) = (scatterAdd acc idx vals).map V3.toList := by
  induction idx with
  | nil => intro acc vals; rfl
  | cons i rest ih =>
    intro acc vals
    cases vals with
    | nil => rfl
    | cons x xs =>
      have h := ih (acc.modify i (fun a => V3.add a x)) xs
      simp only [scatterAdd, List.map_cons, List.zip_cons_cons, List.foldl_cons, Np.addAt, C17.addAt] at h ⊢
      rw [modify_toList, h]

theorem zerosDT_rows (p : List (List Rat)) (dt : DType) : (zerosDT p dt).rows = zerosLike p := rfl
theorem zerosDT_dt (p : List (List Rat)) (dt : DType) : (zerosDT p dt).dt = dt := rfl
theorem addAtDT_dt (acc : Acc) (idx : List Nat) (vals : List (List Rat)) : (addAtDT acc idx vals).dt = acc.dt := rfl
/-- on a floating point accumulator `np.add.at` adds (no truncation) -/
theorem addAtDT_float (acc : Acc) (idx : List Nat) (vals : List (List Rat)) (h : acc.dt = .float) :
    (addAtDT acc idx vals).rows = Np.addAt acc.rows idx vals := by
  simp only [addAtDT, Np.addAt, h]

theorem zerosDT_float (p : List (List Rat)) : zerosDT p .float = ⟨.float, zerosLike p⟩ := rfl
theorem addAtDT_mk_float (rows : List (List Rat)) (idx : List Nat) (vals : List (List Rat)) :
    addAtDT ⟨.float, rows⟩ idx vals = ⟨.float, Np.addAt rows idx vals⟩ := by
  simp only [addAtDT, Np.addAt]

/-- an INTEGER accumulator truncates what is added (what `np.zeros(points.shape, dtype=points.dtype)` gives for an
integer `points` array): a unit normal with all components below 1 in magnitude leaves the row at zero — the
mechanism of finding notes/fixes/C17-vertex-normals-integer-points.diff -/
theorem addAtDT_int_truncates :
    (addAtDT (zerosDT [[0, 0, 0]] .int) [0] [[-1/2, 1/2, 3/4]]).rows = [[0, 0, 0]] ∧
    (addAtDT (zerosDT [[0, 0, 0]] .float) [0] [[-1/2, 1/2, 3/4]]).rows = [[-1/2, 1/2, 3/4]] := by decide +kernel

/-- OBLIGATION `compute_vertex_normals` (floating point accumulator: float points, or the accumulator dtype taken from
the face normals): zeros, the three `np.add.at` passes over the columns of the triangle list, `_normalize` — the
model's `vertexNormals` -/
theorem genComputeVertexNormals_eq (sqrt : Rat → Rat) (pts : List V3) (ts : List Tri)
    (h : RootZero sqrt (meshFaceNormalsRaw pts ts))
    (h' : RootZero sqrt (vertexNormalSumsCoded pts.length ts
      (faceNormals ((meshFaceNormalsRaw pts ts).map (fun n => sqrt (V3.normSq n))) pts ts))) :
    genComputeVertexNormals sqrt .float (pts.map V3.toList) (rows ts) =
      (vertexNormals ((meshFaceNormalsRaw pts ts).map (fun n => sqrt (V3.normSq n)))
        ((vertexNormalSumsCoded pts.length ts
          (faceNormals ((meshFaceNormalsRaw pts ts).map (fun n => sqrt (V3.normSq n))) pts ts)).map
            (fun n => sqrt (V3.normSq n))) pts ts).map V3.toList := by
  unfold genComputeVertexNormals
  try dsimp only
  rw [genComputeFaceNormals_eq sqrt pts ts h, (cols_rows ts).1, (cols_rows ts).2.1, (cols_rows ts).2.2]
  simp only [zerosDT_float, addAtDT_mk_float, zerosLike_toList]
  rw [addAt_toList, addAt_toList, addAt_toList]
  exact genNormalize_eq sqrt _ h'

/-- OBLIGATION `TriMesh.tri_normals` / `TriMesh.vertex_normals`: only 3-D meshes, then the two functions of
normals.py on `self.points`, `self.trilist` -/
theorem genTriNormals_eq (sqrt : Rat → Rat) (s : NMesh (List Rat) C T) :
    genTriNormals sqrt s = if s.ndims = 3 then .ok (genComputeFaceNormals sqrt s.points s.trilist) else .error .shape := by
  unfold genTriNormals
  try dsimp only
  by_cases h : s.ndims = 3 <;> simp [h]

theorem genVertexNormals_eq (sqrt : Rat → Rat) (pdt : DType) (s : NMesh (List Rat) C T) :
    genVertexNormals sqrt pdt s = if s.ndims = 3 then .ok (genComputeVertexNormals sqrt pdt s.points s.trilist) else .error .shape := by
  unfold genVertexNormals
  try dsimp only
  by_cases h : s.ndims = 3 <;> simp [h]


/-! ## the geometry clauses of C17, restated for the TRANSLATED methods

`sqrt : Rat → Rat` is whatever `np.sqrt` computes; `SqrtOn sqrt vs` is its contract on the rows it is applied to
(`sqrt (v·v)` is the non-negative root).  A rational mesh whose norms are rational satisfies it (examples below); over
ℝ the same statements hold for `Real.sqrt` with no hypothesis (`Props/C17Real.lean`). -/

/-- the `np.sqrt` contract on the rows `vs` -/
def SqrtOn (sqrt : Rat → Rat) (vs : List V3) : Prop := ∀ v ∈ vs, IsRoot (sqrt (V3.normSq v)) (V3.normSq v)

theorem SqrtOn.rootsOf {sqrt : Rat → Rat} {vs : List V3} (h : SqrtOn sqrt vs) :
    RootsOf (vs.map (fun v => sqrt (V3.normSq v))) vs := by
  induction vs with
  | nil => trivial
  | cons v rest ih =>
    exact ⟨h v (by simp), ih (fun w hw => h w (by simp [hw]))⟩

/-- PROPERTY for the translated `tri_areas`, 2-D ("areas are non-negative, unchanged by rigid motion and scale by
s-squared"): exact, no `sqrt` involved -/
theorem src_tri_areas2 (sqrt : Rat → Rat) (pts : List V2) (ts : List Tri) (cs : List C) (tc : List T) :
    (∃ as, genTriAreas sqrt (gm2 pts ts cs tc) = .ok as ∧ ∀ a ∈ as, 0 ≤ a) ∧
    (∀ (A : M2) (t : V2), A.IsOrtho →
      genTriAreas sqrt (gm2 (pts.map (aff2 A t)) ts cs tc) = genTriAreas sqrt (gm2 pts ts cs tc)) ∧
    (∀ (s : Rat) (t : V2), genTriAreas sqrt (gm2 (pts.map (aff2 (M2.scalar s) t)) ts cs tc) =
      (genTriAreas sqrt (gm2 pts ts cs tc)).map (fun as => as.map (fun a => s ^ 2 * a))) := by
  refine ⟨⟨_, genTriAreas_eq2 sqrt pts ts cs tc, ?_⟩, ?_, ?_⟩
  · intro a ha
    simp only [meshAreas2, List.mem_map] at ha
    obtain ⟨q, _, rfl⟩ := ha
    exact area2_nonneg _ _ _
  · intro A t hA
    rw [genTriAreas_eq2, genTriAreas_eq2, (mesh_areas2_rigid A hA t pts ts).1]
  · intro s t
    rw [genTriAreas_eq2, genTriAreas_eq2, mesh_areas2_scale]; rfl

/-- PROPERTY for the translated `tri_areas`, 3-D: unchanged by every rigid motion (no hypothesis on `sqrt`: the
squared norms do not change); under the `sqrt` contract non-negative with squares the exact squared areas, hence
multiplied by `s²` by a uniform scaling -/
theorem src_tri_areas3 (sqrt : Rat → Rat) (pts : List V3) (ts : List Tri) (cs : List C) (tc : List T) :
    (∀ (A : M3) (t : V3), A.IsOrtho →
      genTriAreas sqrt (gm3 (pts.map (aff3 A t)) ts cs tc) = genTriAreas sqrt (gm3 pts ts cs tc)) ∧
    (SqrtOn sqrt (meshFaceNormalsRaw pts ts) →
      ∃ as, genTriAreas sqrt (gm3 pts ts cs tc) = .ok as ∧ (∀ a ∈ as, 0 ≤ a) ∧
        as.map (fun a => a * a) = meshAreasSq3 pts ts) ∧
    (∀ (s : Rat) (t : V3), SqrtOn sqrt (meshFaceNormalsRaw pts ts) →
      SqrtOn sqrt (meshFaceNormalsRaw (pts.map (aff3 (M3.scalar s) t)) ts) →
      genTriAreas sqrt (gm3 (pts.map (aff3 (M3.scalar s) t)) ts cs tc) =
        (genTriAreas sqrt (gm3 pts ts cs tc)).map (fun as => as.map (fun a => s ^ 2 * a))) := by
  have hsq : ∀ (p : List V3), meshAreasSq3 p ts = (meshFaceNormalsRaw p ts).map (fun n => V3.normSq n * (1 / 4)) := by
    intro p; simp [meshAreasSq3, meshFaceNormalsRaw, areaSq3, areaVec3, faceNormalRaw, List.map_map, Function.comp_def]
  refine ⟨?_, ?_, ?_⟩
  · intro A t hA
    rw [genTriAreas_eq3, genTriAreas_eq3]
    have h := (mesh_areasSq3_rigid A hA t pts ts).1
    rw [hsq, hsq] at h
    have h4 : ∀ l : List V3, l.map (fun n => sqrt (V3.normSq n) * (1 / 2))
        = (l.map (fun n => V3.normSq n * (1 / 4))).map (fun q => sqrt (q * 4) * (1 / 2)) := by
      intro l; simp only [List.map_map, Function.comp_def]
      apply List.map_congr_left; intro n _
      rw [show V3.normSq n * (1 / 4) * 4 = V3.normSq n by ring]
    rw [h4, h4, h]
  · intro hc
    refine ⟨_, genTriAreas_eq3 sqrt pts ts cs tc, ?_, ?_⟩
    · intro a ha
      obtain ⟨n, hn, rfl⟩ := List.mem_map.1 ha
      have := (hc n hn).1
      nlinarith
    · rw [hsq]
      simp only [List.map_map, Function.comp_def]
      apply List.map_congr_left
      intro n hn
      have := (hc n hn).2
      calc sqrt (V3.normSq n) * (1 / 2) * (sqrt (V3.normSq n) * (1 / 2))
          = (sqrt (V3.normSq n) * sqrt (V3.normSq n)) * (1 / 4) := by ring
        _ = V3.normSq n * (1 / 4) := by rw [this]
  · intro s t hc hc'
    rw [genTriAreas_eq3, genTriAreas_eq3]
    simp only [Except.map, Except.ok.injEq, List.map_map, Function.comp_def]
    have hraw : meshFaceNormalsRaw (pts.map (aff3 (M3.scalar s) t)) ts
        = (meshFaceNormalsRaw pts ts).map (V3.smul (s ^ 2)) := meshFaceNormalsRaw_scale s t pts ts
    rw [hraw] at hc' ⊢
    simp only [List.map_map, Function.comp_def]
    apply List.map_congr_left
    intro n hn
    have h1 := hc n hn
    have h2 := hc' (V3.smul (s ^ 2) n) (List.mem_map.2 ⟨n, hn, rfl⟩)
    have hn2 : V3.normSq (V3.smul (s ^ 2) n) = (s ^ 2 * sqrt (V3.normSq n)) * (s ^ 2 * sqrt (V3.normSq n)) := by
      rw [V3.normSq_smul]
      have := h1.2
      calc s ^ 2 * s ^ 2 * V3.normSq n = s ^ 2 * s ^ 2 * (sqrt (V3.normSq n) * sqrt (V3.normSq n)) := by rw [this]
        _ = _ := by ring
    have hnn : 0 ≤ s ^ 2 * sqrt (V3.normSq n) := mul_nonneg (sq_nonneg s) h1.1
    have heq : sqrt (V3.normSq (V3.smul (s ^ 2) n)) = s ^ 2 * sqrt (V3.normSq n) := by
      have hroot : IsRoot (s ^ 2 * sqrt (V3.normSq n)) (V3.normSq (V3.smul (s ^ 2) n)) := ⟨hnn, hn2.symm⟩
      exact IsRoot.unique h2 hroot
    rw [heq]; ring


/-- PROPERTY for the translated `edge_lengths` ("edge lengths are non-negative, unchanged by rigid motion and scale by
s"): unchanged by every rigid motion outright; under the contract on the squared lengths non-negative, and
multiplied by `|s|` by a uniform scaling -/
theorem src_edge_lengths3 (sqrt : Rat → Rat) (pts : List V3) (ts : List Tri) (cs : List C) (tc : List T) :
    (∀ (A : M3) (t : V3), A.IsOrtho →
      genEdgeLengths sqrt (gm3 (pts.map (aff3 A t)) ts cs tc) = genEdgeLengths sqrt (gm3 pts ts cs tc)) ∧
    ((∀ q ∈ meshEdgeSq3 pts ts, IsRoot (sqrt q) q) → ∀ l ∈ genEdgeLengths sqrt (gm3 pts ts cs tc), 0 ≤ l) ∧
    (∀ (s : Rat) (t : V3), (∀ q ∈ meshEdgeSq3 pts ts, IsRoot (sqrt q) q) →
      (∀ q ∈ meshEdgeSq3 pts ts, IsRoot (sqrt (s ^ 2 * q)) (s ^ 2 * q)) →
      genEdgeLengths sqrt (gm3 (pts.map (aff3 (M3.scalar s) t)) ts cs tc) =
        (genEdgeLengths sqrt (gm3 pts ts cs tc)).map (fun l => absQ s * l)) := by
  refine ⟨?_, ?_, ?_⟩
  · intro A t hA
    rw [genEdgeLengths_eq3, genEdgeLengths_eq3, (mesh_areasSq3_rigid A hA t pts ts).2]
  · intro hc l hl
    rw [genEdgeLengths_eq3] at hl
    obtain ⟨q, hq, rfl⟩ := List.mem_map.1 hl
    exact (hc q hq).1
  · intro s t hc hc'
    rw [genEdgeLengths_eq3, genEdgeLengths_eq3, mesh_edgeSq3_scale]
    simp only [List.map_map, Function.comp_def]
    apply List.map_congr_left
    intro q hq
    have h1 := hc q hq
    have h2 := hc' q hq
    have habs : 0 ≤ absQ s := absQ_nonneg s
    have hsq : absQ s * absQ s = s ^ 2 := by
      unfold absQ; split <;> ring
    have hroot : IsRoot (absQ s * sqrt q) (s ^ 2 * q) :=
      ⟨mul_nonneg habs h1.1, by
        calc absQ s * sqrt q * (absQ s * sqrt q) = (absQ s * absQ s) * (sqrt q * sqrt q) := by ring
          _ = s ^ 2 * q := by rw [hsq, h1.2]⟩
    exact IsRoot.unique h2 hroot

/-- PROPERTY for the translated `tri_normals` ("triangle normals are unit vectors …"): on a 3-D mesh, under the
`sqrt` contract on the cross products, the call succeeds, returns the model's `faceNormals`, every triangle of
non-zero area gets a unit row, and the rows do not depend on the uniform scale of the mesh (`s ≠ 0`) -/
theorem src_tri_normals (sqrt : Rat → Rat) (pts : List V3) (ts : List Tri) (cs : List C) (tc : List T)
    (hc : SqrtOn sqrt (meshFaceNormalsRaw pts ts)) :
    genTriNormals sqrt (gm3 pts ts cs tc) =
      .ok ((faceNormals ((meshFaceNormalsRaw pts ts).map (fun n => sqrt (V3.normSq n))) pts ts).map V3.toList) ∧
    (∀ (j : Nat) (raw : V3), (meshFaceNormalsRaw pts ts)[j]? = some raw → raw ≠ V3.zero →
      ∃ n, (faceNormals ((meshFaceNormalsRaw pts ts).map (fun n => sqrt (V3.normSq n))) pts ts)[j]? = some n ∧
        V3.normSq n = 1) ∧
    (∀ (s : Rat) (t : V3), s ≠ 0 → SqrtOn sqrt (meshFaceNormalsRaw (pts.map (aff3 (M3.scalar s) t)) ts) →
      genTriNormals sqrt (gm3 (pts.map (aff3 (M3.scalar s) t)) ts cs tc) = genTriNormals sqrt (gm3 pts ts cs tc)) := by
  have hmain : ∀ (p : List V3), SqrtOn sqrt (meshFaceNormalsRaw p ts) →
      genTriNormals sqrt (gm3 p ts cs tc) =
        .ok ((faceNormals ((meshFaceNormalsRaw p ts).map (fun n => sqrt (V3.normSq n))) p ts).map V3.toList) := by
    intro p hp
    rw [genTriNormals_eq]
    simp only [gm3, if_true]
    rw [genComputeFaceNormals_eq sqrt p ts (rootZero_of_isRoot sqrt _ hp)]
  refine ⟨hmain pts hc, ?_, ?_⟩
  · intro j raw hj hnd
    exact face_normals_unit _ pts ts hc.rootsOf j raw hj hnd
  · intro s t hs hc'
    rw [hmain _ hc', hmain _ hc]
    have h := face_normals_scale_invariant s hs t _ pts ts hc.rootsOf
    have hu := RootsOf.unique hc'.rootsOf h.1
    rw [hu, h.2]

/-- PROPERTY for the translated `vertex_normals`: on a 3-D mesh, under the `sqrt` contract on the cross products
and on the accumulated rows, the call succeeds and returns the model's `vertexNormals` — entry by entry the
normalised sum of the unit normals of the incident triangles, a unit vector wherever that sum is not zero -/
theorem src_vertex_normals (sqrt : Rat → Rat) (pts : List V3) (ts : List Tri) (cs : List C) (tc : List T)
    (hc : SqrtOn sqrt (meshFaceNormalsRaw pts ts))
    (hc' : SqrtOn sqrt (vertexNormalSumsCoded pts.length ts
      (faceNormals ((meshFaceNormalsRaw pts ts).map (fun n => sqrt (V3.normSq n))) pts ts))) :
    ∃ vn : List V3, genVertexNormals sqrt .float (gm3 pts ts cs tc) = .ok (vn.map V3.toList) ∧ vn.length = pts.length ∧
      ∀ v, v < pts.length →
        ∃ n, vn[v]? = some n ∧
          (incidentSum ts (faceNormals ((meshFaceNormalsRaw pts ts).map (fun n => sqrt (V3.normSq n))) pts ts) v ≠ V3.zero →
            V3.normSq n = 1) := by
  refine ⟨vertexNormals ((meshFaceNormalsRaw pts ts).map (fun n => sqrt (V3.normSq n)))
    ((vertexNormalSumsCoded pts.length ts
      (faceNormals ((meshFaceNormalsRaw pts ts).map (fun n => sqrt (V3.normSq n))) pts ts)).map
        (fun n => sqrt (V3.normSq n))) pts ts, ?_, ?_, ?_⟩
  · rw [genVertexNormals_eq]
    simp only [gm3, if_true]
    rw [genComputeVertexNormals_eq sqrt pts ts (rootZero_of_isRoot sqrt _ hc) (rootZero_of_isRoot sqrt _ hc')]
  · simp [vertexNormals, normalizeRows, vertexNormalSumsCoded_length]
  · intro v hv
    obtain ⟨r, _, _, hget, hunit⟩ := vertex_normal_is_normalised_incident_sum _ _ pts ts hc'.rootsOf v hv
    exact ⟨_, hget, hunit⟩

/-! ### non-vacuity: a mesh with rational norms, and a `sqrt` that is exact on the numbers it meets -/

/-- a square-root function that is exact on the squares that occur below (what `np.sqrt` returns there) -/
def exSqrt (q : Rat) : Rat :=
  if q = 81 then 9 else if q = 9 then 3 else if q = 36 then 6 else if q = 1296 then 36 else if q = 144 then 12 else
  if q = 25 then 5 else if q = 16 then 4 else if q = 4 then 2 else if q = 1 then 1 else 0

/-- one triangle with the cross product (-6, 6, -3) of norm 9, and its image under the scale 2 -/
def exG : List V3 := [⟨0, 0, 0⟩, ⟨1, 2, 2⟩, ⟨2, 1, -2⟩]

example : SqrtOn exSqrt (meshFaceNormalsRaw exG [(0, 1, 2)]) ∧
    SqrtOn exSqrt (meshFaceNormalsRaw (exG.map (aff3 (M3.scalar 2) ⟨1, 0, 0⟩)) [(0, 1, 2)]) := by
  constructor <;> intro v hv <;> simp [meshFaceNormalsRaw, triCorners, getTri, exG, faceNormalRaw, aff3, M3.scalar,
    M3.mulVec, V3.add, V3.sub, V3.cross] at hv <;> subst hv <;> (constructor <;> decide +kernel)
example : genTriAreas exSqrt (gm3 exG [(0, 1, 2)] ([] : List Unit) ([] : List Unit)) = .ok [9 / 2] ∧
    genTriAreas exSqrt (gm3 (exG.map (aff3 (M3.scalar 2) ⟨1, 0, 0⟩)) [(0, 1, 2)] ([] : List Unit) ([] : List Unit))
      = .ok [18] ∧
    genTriNormals exSqrt (gm3 exG [(0, 1, 2)] ([] : List Unit) ([] : List Unit)) = .ok [[-2/3, 2/3, -1/3]] ∧
    genTriNormals exSqrt (gm3 (exG.map (aff3 (M3.scalar 2) ⟨1, 0, 0⟩)) [(0, 1, 2)] ([] : List Unit) ([] : List Unit))
      = .ok [[-2/3, 2/3, -1/3]] ∧
    genVertexNormals exSqrt .float (gm3 exG [(0, 1, 2)] ([] : List Unit) ([] : List Unit))
      = .ok [[-2/3, 2/3, -1/3], [-2/3, 2/3, -1/3], [-2/3, 2/3, -1/3]] ∧
    genEdgeLengths exSqrt (gm3 exG [(0, 1, 2)] ([] : List Unit) ([] : List Unit)) = [3, 0, 3] := by decide +kernel
example : genTriAreas exSqrt (gm2 [⟨0, 0⟩, ⟨4, 0⟩, ⟨1, 3⟩] [(0, 1, 2)] ([] : List Unit) ([] : List Unit)) = .ok [6] ∧
    genMeanEdgeLength exSqrt (gm2 [⟨0, 0⟩, ⟨3, 4⟩, ⟨3, 0⟩] [(0, 1, 2)] ([] : List Unit) ([] : List Unit)) true = 4 := by
  decide +kernel

end MenpoModel.C17.SrcProps
