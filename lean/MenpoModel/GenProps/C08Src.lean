/-
C08 — obligations over the TRANSLATED alignment machinery (harness/trans_c08.py, harness/py2lean2.py).

`Generated/C08Src.lean` is rewritten from the source text of the current working tree by every `./check C08`.  The
theorems below say that what the source says now is, for all arguments, the Core model the C08 theorems are about:

  set_target, _target_setter_with_verification, _verify_target, _target_setter      = setTarget / verifyTarget
  every _sync_state_from_target (through the dispatcher made from the live MROs)      = sync
  _sync_target_from_state, _new_target_from_state, aligned_source                      = syncTarget / alignedSource
  Alignment.__init__, _verify_source_and_target, the constructors of the seven
  alignment classes and of their homogeneous parents (for every newborn object)        = build fixed
  _build_coefficients / _rebuild_target_vectors (numpy expression by numpy expression) = Np.tpsCoef / Np.pwaVectors
  the defaults of every option parameter                                               = the model's `Opts` defaults
  MultipleAlignment.__init__, GeneralizedProcrustesAnalysis.__init__,
  _recursive_procrustes (the recursion with both exit tests, for every max_iterations) = gpaChecked / recProcrustes

The proofs do not depend on the shape of the translated terms (unfold, rewrite with the equalities already proved,
case split on every `if` / `match`, `simp_all`): a harmless rewrite of the Python keeps them, a changed decision — a
dropped option, a swapped argument, another attribute, a changed exit test — breaks them.
-/
import MenpoModel.Generated.C08Src
import MenpoModel.Props.C08

set_option linter.unusedSectionVars false
set_option linter.unusedSimpArgs false
set_option linter.unusedVariables false

namespace MenpoModel.GenProps.C08Src
open MenpoModel.C08 MenpoModel.Generated.C08

variable {Pts A S : Type} [Inhabited A]

/-! ### the exception monad -/

@[simp] theorem bind_eta {ε α : Type} (x : Except ε α) : (x.bind fun a => .ok a) = x := by cases x <;> rfl
@[simp] theorem bind_ok {ε α β : Type} (a : α) (f : α → Except ε β) : (Except.ok a : Except ε α).bind f = f a := rfl
@[simp] theorem bind_error {ε α β : Type} (err : ε) (f : α → Except ε β) :
    (Except.error err : Except ε α).bind f = .error err := rfl
@[simp] theorem map_ok {ε α β : Type} (a : α) (f : α → β) : (Except.ok a : Except ε α).map f = .ok (f a) := rfl
@[simp] theorem map_error {ε α β : Type} (err : ε) (f : α → β) : (Except.error err : Except ε α).map f = .error err := rfl

/-- applying a transform keeps the number of points and of dimensions (hypothesis of the obligations that pass
through `_sync_target_from_state`, where the aligned source is verified against the target held) -/
def ApplyKeepsShape (e : Ext Pts A) : Prop :=
  ∀ h p, e.nDims (e.applyHom h p) = e.nDims p ∧ e.nPoints (e.applyHom h p) = e.nPoints p

/-! ### `Targetable` / `Alignment`: the verified setter -/

theorem genNDims_eq (e : Ext Pts A) (o : Obj Pts A) : genNDims e o = e.nDims o.target := rfl
theorem genNPoints_eq (e : Ext Pts A) (o : Obj Pts A) : genNPoints e o = e.nPoints o.target := rfl

theorem genVerifyTarget_eq (e : Ext Pts A) (o : Obj Pts A) (t : Pts) :
    genVerifyTarget e o t = liftErr (verifyTarget e o t) := by
  unfold genVerifyTarget verifyTarget
  repeat' split
  all_goals simp_all

theorem genTargetSetter_eq (o : Obj Pts A) (t : Pts) : genTargetSetter o t = { o with target := t } := rfl

theorem genTargetSetterWithVerification_eq (e : Ext Pts A) (o : Obj Pts A) (t : Pts) :
    genTargetSetterWithVerification e o t = liftErr ((verifyTarget e o t).map fun _ => { o with target := t }) := by
  unfold genTargetSetterWithVerification
  rw [genVerifyTarget_eq]
  cases verifyTarget e o t <;> simp [genTargetSetter_eq, liftErr]

theorem genAlignedSource_eq (e : Ext Pts A) (o : Obj Pts A) : genAlignedSource e o = alignedSource e o := rfl
theorem genNewTargetFromState_eq (e : Ext Pts A) (o : Obj Pts A) : genNewTargetFromState e o = alignedSource e o := rfl

/-- `_sync_target_from_state`: the model's `syncTarget` keeps the object when the verification fails (the caller sees
the exception); the code raises -/
theorem genSyncTargetFromState_eq (e : Ext Pts A) (o : Obj Pts A) :
    genSyncTargetFromState e o =
      liftErr ((verifyTarget e o (alignedSource e o)).map fun _ => syncTarget e o) := by
  unfold genSyncTargetFromState syncTarget
  simp only [genNewTargetFromState_eq, genTargetSetterWithVerification_eq, bind_eta]
  cases verifyTarget e o (alignedSource e o) <;> rfl

/-- … on an object whose point sets agree in shape, with a shape-preserving `apply`, it succeeds and leaves the
aligned source in `.target` -/
theorem genSyncTargetFromState_hom (e : Ext Pts A) (hs : ApplyKeepsShape e) (o : Obj Pts A) (h : Mat)
    (hst : o.state = .hom h) (hsh : SameShape e o.source o.target) :
    genSyncTargetFromState e o = .ok { o with target := e.applyHom h o.source } := by
  have ha := hs h o.source
  have hv : verifyTarget e o (e.applyHom h o.source) = .ok () :=
    verifyTarget_ok e _ _ ⟨ha.1.trans hsh.1, ha.2.trans hsh.2⟩
  simp [genSyncTargetFromState_eq, alignedSource, syncTarget, hst, hv, liftErr]

theorem syncTarget_hom (e : Ext Pts A) (hs : ApplyKeepsShape e) (o : Obj Pts A) (h : Mat)
    (hst : o.state = .hom h) (hsh : SameShape e o.source o.target) :
    syncTarget e o = { o with target := e.applyHom h o.source } := by
  have ha := hs h o.source
  have hv : verifyTarget e o (e.applyHom h o.source) = .ok () :=
    verifyTarget_ok e _ _ ⟨ha.1.trans hsh.1, ha.2.trans hsh.2⟩
  simp [alignedSource, syncTarget, hst, hv]

/-! ### every `_sync_state_from_target` -/

section sync
variable (np : Np Pts A) (e : Ext Pts A)

/-- the simp set that opens the vocabulary of `Core/C08Py.lean` -/
macro "src_simp" : tactic => `(tactic|
  simp [genVirtSetH, genVirtSetRot, affineSetH, rotationSetR, Obj.setH, Obj.h, Obj.setCoef, Obj.setL, Obj.l, Obj.coef,
    Obj.setTv, attrFlag, genDefault_procrustes_rotation, genDefault_procrustes_allow_mirror,
    genDefault_tps_min_singular_val, sync, Kinded] at *)

theorem genSync_AlignmentAffine_eq (o : Obj Pts A) (hc : o.cls = .affine) (hk : Kinded o) :
    genSync_AlignmentAffine np e o = .ok (sync e o) := by
  obtain ⟨cls, rot, mir, ker, sv, src, tgt, st⟩ := o
  subst hc; cases st <;> unfold genSync_AlignmentAffine <;> src_simp

theorem genSync_AlignmentSimilarity_eq (o : Obj Pts A) (hc : o.cls = .similarity) (hk : Kinded o) :
    genSync_AlignmentSimilarity np e o = .ok (sync e o) := by
  obtain ⟨cls, rot, mir, ker, sv, src, tgt, st⟩ := o
  subst hc; cases st <;> unfold genSync_AlignmentSimilarity <;> src_simp

theorem genSync_AlignmentRotation_eq (o : Obj Pts A) (hc : o.cls = .rotation) (hk : Kinded o) :
    genSync_AlignmentRotation np e o = .ok (sync e o) := by
  obtain ⟨cls, rot, mir, ker, sv, src, tgt, st⟩ := o
  subst hc; cases st <;> unfold genSync_AlignmentRotation <;> src_simp

theorem genSync_AlignmentTranslation_eq (o : Obj Pts A) (hc : o.cls = .translation) (hk : Kinded o) :
    genSync_AlignmentTranslation np e o = .ok (sync e o) := by
  obtain ⟨cls, rot, mir, ker, sv, src, tgt, st⟩ := o
  subst hc; cases st <;> unfold genSync_AlignmentTranslation <;> src_simp

theorem genSync_AlignmentUniformScale_eq (o : Obj Pts A) (hc : o.cls = .uniformScale) (hk : Kinded o) :
    genSync_AlignmentUniformScale np e o = .ok (sync e o) := by
  obtain ⟨cls, rot, mir, ker, sv, src, tgt, st⟩ := o
  subst hc; cases st <;> unfold genSync_AlignmentUniformScale <;> src_simp

/-- `_build_coefficients`, numpy expression by numpy expression -/
theorem genBuildCoefficients_eq (o : Obj Pts A) (l c : A) (hs : o.state = .tps l c) :
    genBuildCoefficients np o =
      { o with state := .tps l (np.tpsCoef l (o.minSV.getD (1 / 10000)) o.target) } := by
  obtain ⟨cls, rot, mir, ker, sv, src, tgt, st⟩ := o
  simp only at hs; subst hs
  unfold genBuildCoefficients Np.tpsCoef
  src_simp

/-- `_rebuild_target_vectors`, numpy expression by numpy expression -/
theorem genRebuildTargetVectors_eq (o : Obj Pts A) :
    genRebuildTargetVectors np o = { o with state := .pwa (np.pwaVectors o.source o.target) } := by
  unfold genRebuildTargetVectors Np.pwaVectors
  src_simp

theorem genSync_ThinPlateSplines_eq (hf : NpFits np e) (o : Obj Pts A) (hc : o.cls = .tps) (hk : Kinded o) :
    genSync_ThinPlateSplines np e o = .ok (sync e o) := by
  obtain ⟨cls, rot, mir, ker, sv, src, tgt, st⟩ := o
  subst hc
  cases st <;> simp [Kinded] at hk
  unfold genSync_ThinPlateSplines
  rw [genBuildCoefficients_eq np _ _ _ rfl]
  simp [sync, hf.2.1]

theorem genSync_AbstractPWA_eq (hf : NpFits np e) (o : Obj Pts A) (hc : o.cls = .pwa) (hk : Kinded o) :
    genSync_AbstractPWA np e o = .ok (sync e o) := by
  obtain ⟨cls, rot, mir, ker, sv, src, tgt, st⟩ := o
  subst hc
  cases st <;> simp [Kinded] at hk
  unfold genSync_AbstractPWA
  rw [genRebuildTargetVectors_eq]
  simp [sync, hf.2.2]

/-- the dispatcher made from the live MROs runs, on every class, the re-fit the model's `sync` transcribes -/
theorem genSync_eq (hf : NpFits np e) (o : Obj Pts A) (hk : Kinded o) : genSync np e o = .ok (sync e o) := by
  unfold genSync
  split
  · exact genSync_AlignmentAffine_eq np e o (by assumption) hk
  · exact genSync_AlignmentSimilarity_eq np e o (by assumption) hk
  · exact genSync_AlignmentRotation_eq np e o (by assumption) hk
  · exact genSync_AlignmentTranslation_eq np e o (by assumption) hk
  · exact genSync_AlignmentUniformScale_eq np e o (by assumption) hk
  · exact genSync_ThinPlateSplines_eq np e hf o (by assumption) hk
  · exact genSync_AbstractPWA_eq np e hf o (by assumption) hk

/-- `Targetable.set_target` as the source has it = the model's `setTarget` (`ValueError` for every rejection) -/
theorem genSetTarget_eq (hf : NpFits np e) (o : Obj Pts A) (hk : Kinded o) (t : Pts) :
    genSetTarget np e o t = liftErr (setTarget e o t) := by
  unfold genSetTarget setTarget
  rw [genTargetSetterWithVerification_eq]
  cases verifyTarget e o t with
  | error err => rfl
  | ok u =>
    have hk' : Kinded ({ o with target := t } : Obj Pts A) := hk
    simp [liftErr, genSync_eq np e hf _ hk']

end sync

/-! ### the constructors -/

section ctor
variable (np : Np Pts A) (e : Ext Pts A)

theorem genVerifySourceAndTarget_eq (s t : Pts) :
    genVerifySourceAndTarget e s t = liftErr (verifySourceTarget e s t) := by
  unfold genVerifySourceAndTarget verifySourceTarget
  repeat' split
  all_goals simp_all

/-- `Alignment.__init__`: verify, then bind `_source` and `_target` -/
theorem genInit_Alignment_eq (self : Obj Pts A) (s t : Pts) :
    genInit_Alignment e self s t =
      liftErr ((verifySourceTarget e s t).map fun _ => { self with source := s, target := t }) := by
  unfold genInit_Alignment
  rw [genVerifySourceAndTarget_eq]
  cases verifySourceTarget e s t <;> rfl

/-- `Homogeneous.__init__` / `Affine.__init__` / `Similarity.__init__` end in the *virtual* `_set_h_matrix` -/
theorem genInit_Similarity_eq (self : Obj Pts A) (h : Mat) (c k : Bool) :
    genInit_Similarity e self h c k = genVirtSetH e (self.setH eye) h c k := by
  simp [genInit_Similarity, genInit_Affine, genInit_Homogeneous]

theorem genInit_Affine_eq (self : Obj Pts A) (h : Mat) (c k : Bool) :
    genInit_Affine e self h c k = genVirtSetH e (self.setH eye) h c k := by
  simp [genInit_Affine, genInit_Homogeneous]

/-- what `verifySourceTarget` establishes -/
theorem verify_shape {s t : Pts} {u : Unit} (h : verifySourceTarget e s t = .ok u) :
    e.nDims s = e.nDims t ∧ e.nPoints s = e.nPoints t := (verifySourceTarget_ok_iff e s t).mp h

/-- opens a newborn object into its fields -/
macro "open_newborn" self:ident hn:ident : tactic => `(tactic|
  (obtain ⟨cls, rot, mir, ker, sv, src, tgt, st⟩ := $self
   obtain ⟨h1, h2, h3, h4, h5⟩ := $hn
   simp only at h1 h2 h3 h4 h5
   subst h1 h2 h3 h4 h5))

theorem genInit_AlignmentTranslation_eq (self : Obj Pts A) (hn : Newborn .translation self) (op : Opts) (s t : Pts) :
    genInit_AlignmentTranslation e self s t = liftErr (build fixed e .translation op s t) := by
  open_newborn self hn
  unfold genInit_AlignmentTranslation build
  rw [genInit_Alignment_eq]
  cases hv : verifySourceTarget e s t with
  | error err => rfl
  | ok u =>
    simp [genInit_Translation, genInit_Similarity_eq, buildCore, liftErr]
    src_simp
    split <;> simp_all [liftErr]

theorem genInit_AlignmentUniformScale_eq (self : Obj Pts A) (hn : Newborn .uniformScale self) (op : Opts) (s t : Pts) :
    genInit_AlignmentUniformScale e self s t = liftErr (build fixed e .uniformScale op s t) := by
  open_newborn self hn
  unfold genInit_AlignmentUniformScale build
  rw [genInit_Alignment_eq]
  cases hv : verifySourceTarget e s t with
  | error err => rfl
  | ok u =>
    obtain ⟨hd, hp⟩ := verify_shape e hv
    simp [genInit_UniformScale, genInit_Similarity_eq, buildCore, liftErr]
    src_simp
    by_cases h2 : e.nDims s = 2 <;> by_cases h3 : e.nDims s = 3 <;> simp_all [liftErr] <;> omega

theorem genInit_AlignmentSimilarity_eq (self : Obj Pts A) (hn : Newborn .similarity self) (s t : Pts) (r m : Bool)
    (op : Opts) (hr : op.rotation = r) (hm : op.allowMirror = m) :
    genInit_AlignmentSimilarity e self s t r m = liftErr (build fixed e .similarity op s t) := by
  open_newborn self hn
  subst hr hm
  unfold genInit_AlignmentSimilarity build
  rw [genInit_Alignment_eq]
  cases hv : verifySourceTarget e s t with
  | error err => rfl
  | ok u =>
    simp [genInit_Similarity_eq, buildCore, liftErr, fixed]
    src_simp

/-- `AlignmentAffine.__init__`: `Affine.__init__` goes through the class's own `_set_h_matrix`, which re-syncs the
target from the state; the constructor then binds the requested target again -/
theorem genInit_AlignmentAffine_eq (hs : ApplyKeepsShape e) (self : Obj Pts A) (hn : Newborn .affine self) (op : Opts)
    (s t : Pts) : genInit_AlignmentAffine e self s t = liftErr (build fixed e .affine op s t) := by
  open_newborn self hn
  unfold genInit_AlignmentAffine build
  rw [genInit_Alignment_eq]
  cases hv : verifySourceTarget e s t with
  | error err => rfl
  | ok u =>
    have hsh : SameShape e s t := verify_shape e hv
    simp [genInit_Affine_eq, buildCore, liftErr, fixed]
    src_simp
    simp [genVirtSetH_AlignmentAffine, affineSetH, Obj.setH]
    rw [genSyncTargetFromState_hom e hs _ _ rfl hsh]
    simp

theorem genInit_AlignmentRotation_eq (hs : ApplyKeepsShape e) (self : Obj Pts A) (hn : Newborn .rotation self)
    (s t : Pts) (m : Bool) (op : Opts) (hm : op.allowMirror = m) :
    genInit_AlignmentRotation e self s t m = liftErr (build fixed e .rotation op s t) := by
  open_newborn self hn
  subst hm
  unfold genInit_AlignmentRotation build
  rw [genInit_Alignment_eq]
  cases hv : verifySourceTarget e s t with
  | error err => rfl
  | ok u =>
    have hsh : SameShape e s t := verify_shape e hv
    simp [genInit_Rotation, genInit_Similarity_eq, buildCore, liftErr, fixed]
    src_simp
    simp [genVirtSetRot_AlignmentRotation, rotationSetR, Obj.setH, Obj.h]
    rw [genSyncTargetFromState_hom e hs _ _ rfl hsh]
    simp

theorem genInit_ThinPlateSplines_eq (hf : NpFits np e) (self : Obj Pts A) (hn : Newborn .tps self) (s t : Pts)
    (kern : Option Nat) (floor : Rat) (op : Opts) (hk : op.kernel = kern.getD 0) (hv : op.minSV = floor) :
    genInit_ThinPlateSplines np e self s t kern floor = liftErr (build fixed e .tps op s t) := by
  open_newborn self hn
  subst hv
  unfold genInit_ThinPlateSplines build
  rw [genInit_Alignment_eq]
  cases hv : verifySourceTarget e s t with
  | error err => rfl
  | ok u =>
    obtain ⟨hd, hp⟩ := verify_shape e hv
    cases kern <;> simp at hk <;>
      simp [buildCore, liftErr, genNDims_eq, genNPoints_eq, Obj.setL, Obj.setCoef,
        Obj.l, Obj.coef, hf.1, hf.2.1, Np.tpsL, hk, hd, hp] <;>
      split <;> simp_all [liftErr] <;> rw [genBuildCoefficients_eq np _ _ _ rfl] <;> simp

theorem genInit_AbstractPWA_eq (hf : NpFits np e) (self : Obj Pts A) (hn : Newborn .pwa self) (op : Opts) (s t : Pts) :
    genInit_AbstractPWA np e self s t = liftErr (build fixed e .pwa op (np.meshOf s) t) := by
  open_newborn self hn
  unfold genInit_AbstractPWA build Np.meshOf
  simp only [genInit_Alignment_eq]
  cases hm : np.isTriMesh s <;> simp only [hm, Bool.not_false, Bool.not_true, Bool.false_eq_true, if_true, if_false] <;>
    (cases hv : verifySourceTarget e _ t with
     | error err => rfl
     | ok u =>
       obtain ⟨hd, hp⟩ := verify_shape e hv
       simp [buildCore, liftErr, genNDims_eq, genRebuildTargetVectors_eq, hf.2.2, hd]
       split <;> simp_all [liftErr])

/-- `PythonPWA.__init__` / `CachedPWA.__init__` add attributes no re-fit reads (`s, sij, sik`, the apply memo) -/
theorem genInit_PythonPWA_eq (self : Obj Pts A) (s t : Pts) :
    genInit_PythonPWA np e self s t = genInit_AbstractPWA np e self s t := by
  simp [genInit_PythonPWA]

theorem genInit_CachedPWA_eq (self : Obj Pts A) (s t : Pts) :
    genInit_CachedPWA np e self s t = genInit_AbstractPWA np e self s t := by
  simp [genInit_CachedPWA, genInit_PythonPWA_eq]

/-- the kernel argument a model option stands for: `kernel=None` for 0 -/
def kernelArg (k : Nat) : Option Nat := if k = 0 then none else some k

/-- PROPERTY tie: the constructor call of every class, translated, is the model's `build` on the repaired tree —
for every option value, every source and target (piecewise affine: on the `TriMesh` the constructor makes) -/
theorem genBuild_eq (hs : ApplyKeepsShape e) (hf : NpFits np e) (c : Cls) (op : Opts) (s t : Pts) :
    genBuild np e c op s t = liftErr (build fixed e c op (if c = .pwa then np.meshOf s else s) t) := by
  unfold genBuild
  cases c <;> simp
  · exact genInit_AlignmentAffine_eq e hs _ (blank_newborn _ _ _) op s t
  · exact genInit_AlignmentSimilarity_eq e _ (blank_newborn _ _ _) s t _ _ op rfl rfl
  · exact genInit_AlignmentRotation_eq e hs _ (blank_newborn _ _ _) s t _ op rfl
  · exact genInit_AlignmentTranslation_eq e _ (blank_newborn _ _ _) op s t
  · exact genInit_AlignmentUniformScale_eq e _ (blank_newborn _ _ _) op s t
  · refine genInit_ThinPlateSplines_eq np e hf _ (blank_newborn _ _ _) s t _ _ op ?_ rfl
    split <;> simp_all
  · rw [genInit_CachedPWA_eq]
    exact genInit_AbstractPWA_eq np e hf _ (blank_newborn _ _ _) op s t

/-- the defaults the source gives the option parameters are the model's -/
theorem genDefaultOpts_eq : genDefaultOpts = ({} : Opts) := by
  rfl

theorem genDefaults_eq :
    genDefault_procrustes_rotation = true ∧ genDefault_procrustes_allow_mirror = false ∧
    genDefault_similarity_rotation = true ∧ genDefault_similarity_allow_mirror = false ∧
    genDefault_rotation_allow_mirror = false ∧ genDefault_tps_min_singular_val = 1 / 10000 ∧
    genDefault_tps_kernel = none ∧ genDefault_gpa_allow_mirror = false := by
  exact ⟨rfl, rfl, rfl, rfl, rfl, rfl, rfl, rfl⟩

end ctor

/-! ### what may happen between two `set_target` calls: copies, inverses, parameter edits -/

section edits
variable (np : Np Pts A) (e : Ext Pts A)

/-- `HomogFamilyAlignment.copy` at value level: an equal object.  That the copy *owns* its matrix is visible in the
translation only as a type (`Owned`: `_h_matrix` must be bound to the result of `.copy()`, else the generated file does
not compile); the independence of copies is the heap model's and the oracle's subject -/
theorem genCopy_eq (o : Obj Pts A) (h : Mat) (hst : o.state = .hom h) : genCopy o = o := by
  obtain ⟨cls, rot, mir, ker, sv, src, tgt, st⟩ := o
  simp only at hst; subst hst
  simp [genCopy, Obj.setH, Obj.h]

/-- `HomogFamilyAlignment.pseudoinverse` = the model's `pinv` on the homogeneous classes -/
theorem genPseudoinverse_eq (inv : Mat → Mat) (o : Obj Pts A) (h : Mat) (hst : o.state = .hom h)
    (hc : o.cls ≠ .tps ∧ o.cls ≠ .pwa) : genPseudoinverse inv o = pinv e inv o := by
  obtain ⟨cls, rot, mir, ker, sv, src, tgt, st⟩ := o
  simp only at hst hc; subst hst
  cases cls <;> simp at hc <;> simp [genPseudoinverse, genCopy, pinv, Obj.setH, Obj.h]

/-- `ThinPlateSplines.pseudoinverse` (a fresh construction in the other direction with a kernel of the same kind and
the remembered floor) = the model's `pinv`, on every constructed TPS.  The model's kernels are numbers: *which point
set the kernel is centred on* is not a term of this equality — the translator has a rule only for
`type(self.kernel)(self.target.points)` (and only for `R2LogR2RBF(source.points)` in the constructor), so another
centre makes the source untranslatable -/
theorem genPseudoinverse_ThinPlateSplines_eq (hf : NpFits np e) (inv : Mat → Mat) (op : Opts) (s t : Pts)
    (o : Obj Pts A) (hb : build fixed e .tps op s t = .ok o) :
    genPseudoinverse_ThinPlateSplines np e o = .ok (pinv e inv o) := by
  have hsh := build_shape fixed e .tps op s t o hb
  unfold build at hb
  split at hb
  · simp at hb
  · simp only [buildCore] at hb
    split at hb
    · simp at hb
    · rename_i hv hd
      simp only [Except.ok.injEq] at hb; subst hb
      have hd2 : e.nDims s = 2 := by simpa using hd
      have hv' : verifySourceTarget e t s = .ok () :=
        (verifySourceTarget_ok_iff e t s).mpr ⟨hsh.1.symm, hsh.2.symm⟩
      simp only [genPseudoinverse_ThinPlateSplines, Option.getD_some]
      rw [genInit_ThinPlateSplines_eq np e hf _ (blank_newborn _ _ _) t s (some op.kernel) op.minSV
        { kernel := op.kernel, minSV := op.minSV } rfl rfl]
      simp [build, hv', buildCore, hd2, hsh.1.symm ▸ hd2, pinv, liftErr, genDefault_tps_min_singular_val]

/-- `Translation._from_vector_inplace` / `UniformScale._from_vector_inplace` are plain array writes -/
theorem genFromVector_Translation_eq (o : Obj Pts A) (p : Nat → Rat) :
    genFromVector_Translation e o p = o.setH (setLastCol (e.nDims o.source) p o.h) := rfl

theorem genFromVector_UniformScale_eq (o : Obj Pts A) (p : Rat) :
    genFromVector_UniformScale e o p =
      .ok (o.setH (setCorner (e.nDims o.source) (fillDiag (e.nDims o.source) p o.h))) := by
  simp [genFromVector_UniformScale, Obj.setH, Obj.h]

/-- the `_from_vector_inplace` overrides of the alignment classes = the model's `vEdit … .fromVector`
(`m`: the matrix the parameter vector stands for) -/
theorem genFromVector_AlignmentSimilarity_eq (hs : ApplyKeepsShape e) (o : Obj Pts A) (h m : Mat)
    (hc : o.cls = .similarity) (hst : o.state = .hom h) (hsh : SameShape e o.source o.target) :
    genFromVector_AlignmentSimilarity e o m = .ok (vEdit e o .fromVector m) := by
  obtain ⟨cls, rot, mir, ker, sv, src, tgt, st⟩ := o
  simp only at hc hst hsh; subst hc hst
  simp only [genFromVector_AlignmentSimilarity, Obj.setH, bind_eta]
  rw [genSyncTargetFromState_hom e hs _ m rfl hsh]
  simp only [vEdit]
  rw [syncTarget_hom e hs _ _ rfl hsh]

theorem genFromVector_AlignmentTranslation_eq (hs : ApplyKeepsShape e) (o : Obj Pts A) (h m : Mat)
    (hc : o.cls = .translation) (hst : o.state = .hom h) (hsh : SameShape e o.source o.target) :
    genFromVector_AlignmentTranslation e o (fun i => m i (e.nDims o.source)) = .ok (vEdit e o .fromVector m) := by
  obtain ⟨cls, rot, mir, ker, sv, src, tgt, st⟩ := o
  simp only at hc hst hsh; subst hc hst
  simp only [genFromVector_AlignmentTranslation, genFromVector_Translation_eq, Obj.setH, Obj.h, bind_eta]
  rw [genSyncTargetFromState_hom e hs _ _ rfl hsh]
  simp only [vEdit]
  rw [syncTarget_hom e hs _ _ rfl hsh]

theorem genFromVector_AlignmentUniformScale_eq (hs : ApplyKeepsShape e) (o : Obj Pts A) (h m : Mat)
    (hc : o.cls = .uniformScale) (hst : o.state = .hom h) (hsh : SameShape e o.source o.target) :
    genFromVector_AlignmentUniformScale e o (m 0 0) = .ok (vEdit e o .fromVector m) := by
  obtain ⟨cls, rot, mir, ker, sv, src, tgt, st⟩ := o
  simp only at hc hst hsh; subst hc hst
  simp only [genFromVector_AlignmentUniformScale, genFromVector_UniformScale_eq, Obj.setH, Obj.h, bind_ok, bind_eta]
  rw [genSyncTargetFromState_hom e hs _ _ rfl hsh]
  simp only [vEdit]
  rw [syncTarget_hom e hs _ _ rfl hsh]

/-- `AlignmentRotation.set_rotation_matrix` (reached through the virtual call) = `vEdit … .fromVector` -/
theorem genVirtSetRot_eq (hs : ApplyKeepsShape e) (o : Obj Pts A) (h m : Mat) (k : Bool)
    (hc : o.cls = .rotation) (hst : o.state = .hom h) (hsh : SameShape e o.source o.target) :
    genVirtSetRot e o m k = .ok (vEdit e o .fromVector m) := by
  obtain ⟨cls, rot, mir, ker, sv, src, tgt, st⟩ := o
  simp only at hc hst hsh; subst hc hst
  simp only [genVirtSetRot, genVirtSetRot_AlignmentRotation, rotationSetR, Obj.setH, Obj.h, bind_eta]
  rw [genSyncTargetFromState_hom e hs _ _ rfl hsh]
  simp only [vEdit]
  rw [syncTarget_hom e hs _ _ rfl hsh]

/-- `Homogeneous._compose_before_inplace / _compose_after_inplace` on an alignment (through the virtual
`_set_h_matrix`: only `AlignmentAffine` re-syncs its target) = `vEdit … .composeBefore / .composeAfter` -/
theorem genCompose_eq (hs : ApplyKeepsShape e) (o : Obj Pts A) (h m : Mat) (hst : o.state = .hom h)
    (hc : o.cls ≠ .tps ∧ o.cls ≠ .pwa) (hsh : SameShape e o.source o.target) :
    genCompose_before e o ⟨m⟩ = .ok (vEdit e o .composeBefore m) ∧
    genCompose_after e o ⟨m⟩ = .ok (vEdit e o .composeAfter m) := by
  obtain ⟨cls, rot, mir, ker, sv, src, tgt, st⟩ := o
  simp only at hc hst hsh; subst hst
  cases cls <;> simp at hc <;>
    simp only [genCompose_before, genCompose_after, genVirtSetH, genVirtSetH_AlignmentAffine, affineSetH, Obj.setH,
      Obj.h, vEdit, bind_eta, bind_ok, Bool.not_true, Bool.false_and, Bool.false_eq_true, if_false] <;>
    (try exact ⟨trivial, trivial⟩)
  constructor
  · rw [genSyncTargetFromState_hom e hs _ _ rfl hsh, syncTarget_hom e hs _ _ rfl hsh]
  · rw [genSyncTargetFromState_hom e hs _ _ rfl hsh, syncTarget_hom e hs _ _ rfl hsh]

/-- `procrustes_alignment`, translated: which pieces it composes, in which branch, with which option -/
theorem genProcrustesAlignment_eq (pk : ProcK Pts) (nd : Pts → Nat) (s t : Pts) (r m : Bool) :
    genProcrustesAlignment pk nd s t r m = pk.procrustes nd r m s t := by
  unfold genProcrustesAlignment ProcK.procrustes
  cases r <;> simp

/-- … so with `rotation=False` the `allow_mirror` option has no effect, and `allow_mirror` reaches nothing but the
optimal-rotation fit -/
theorem procrustes_rotation_off_ignores_mirror (pk : ProcK Pts) (nd : Pts → Nat) (s t : Pts) (m m' : Bool) :
    genProcrustesAlignment pk nd s t false m = genProcrustesAlignment pk nd s t false m' := by
  simp [genProcrustesAlignment_eq, ProcK.procrustes]

end edits

/-! ### generalized Procrustes analysis -/

section gpa
variable (np : Np Pts A) (e : Ext Pts A) (gk : GpaK Pts S)

theorem sync_kinded (o : Obj Pts A) (hk : Kinded o) : Kinded (sync e o) := by
  obtain ⟨cls, rot, mir, ker, sv, src, tgt, st⟩ := o
  cases cls <;> cases st <;> simp [Kinded, sync] at hk ⊢

theorem setTarget_kinded (o o' : Obj Pts A) (t : Pts) (hk : Kinded o) (h : setTarget e o t = .ok o') : Kinded o' := by
  unfold setTarget at h
  split at h
  · simp at h
  · simp only [Except.ok.injEq] at h; subst h
    exact sync_kinded e _ hk

theorem setAll_kinded (t : Pts) : ∀ (os os' : List (Obj Pts A)), (∀ o ∈ os, Kinded o) → setAll e t os = .ok os' →
    ∀ o ∈ os', Kinded o := by
  intro os
  induction os with
  | nil => intro os' _ h; simp only [setAll, Except.ok.injEq] at h; subst h; simp
  | cons o os ih =>
    intro os' hk h
    simp only [setAll] at h
    cases ho : setTarget e o t with
    | error err => simp [ho] at h
    | ok o1 =>
      cases hs : setAll e t os with
      | error err => simp [ho, hs] at h
      | ok os1 =>
        simp only [ho, hs, Except.ok.injEq] at h; subst h
        intro x hx
        rcases List.mem_cons.mp hx with hx | hx
        · rw [hx]; exact setTarget_kinded e o o1 t (hk o (by simp)) ho
        · exact ih os1 (fun y hy => hk y (by simp [hy])) hs x hx

/-- `for t in self.transforms: t.set_target(new_tgt)` = the model's `setAll` -/
theorem mapExcept_setTarget (hf : NpFits np e) (t : Pts) : ∀ (os : List (Obj Pts A)), (∀ o ∈ os, Kinded o) →
    mapExcept (fun o => genSetTarget np e o t) os = liftErr (setAll e t os) := by
  intro os
  induction os with
  | nil => intro _; rfl
  | cons o os ih =>
    intro hk
    simp only [mapExcept, setAll, genSetTarget_eq np e hf o (hk o (by simp)) t, ih (fun y hy => hk y (by simp [hy]))]
    cases setTarget e o t <;> simp [liftErr]
    cases setAll e t os <;> simp [liftErr]

theorem genNew_AlignmentSimilarity_eq (s t : Pts) (r m : Bool) :
    genNew_AlignmentSimilarity e s t r m =
      liftErr (build fixed e .similarity { rotation := r, allowMirror := m } s t : Except Err (Obj Pts A)) :=
  genInit_AlignmentSimilarity_eq e _ (blank_newborn _ _ _) s t r m _ rfl rfl

/-- `[AlignmentSimilarity(source, self.target, allow_mirror=allow_mirror) for source in self.sources]` = `buildAll`
with rotation on (the default of the constructor, read from the source) -/
theorem mapExcept_new (t : Pts) (m : Bool) : ∀ (sources : List Pts),
    mapExcept (fun s => genNew_AlignmentSimilarity e s t (allowmirror := m)) sources =
      liftErr (buildAll fixed e { rotation := true, allowMirror := m } t sources : Except Err (List (Obj Pts A))) := by
  intro sources
  induction sources with
  | nil => rfl
  | cons s ss ih =>
    simp only [mapExcept, buildAll, ih]
    rw [genNew_AlignmentSimilarity_eq]
    cases build fixed e .similarity { rotation := true, allowMirror := m } s t <;> simp [liftErr]
    cases buildAll fixed e { rotation := true, allowMirror := m } t ss <;> simp [liftErr]

theorem buildAll_kinded (op : Opts) (t : Pts) : ∀ (sources : List Pts) (ts : List (Obj Pts A)),
    buildAll fixed e op t sources = .ok ts → ∀ o ∈ ts, Kinded o := by
  intro sources
  induction sources with
  | nil => intro ts h; simp only [buildAll, Except.ok.injEq] at h; subst h; simp
  | cons s ss ih =>
    intro ts h
    simp only [buildAll] at h
    cases hbo : build fixed e .similarity op s t with
    | error err => simp [hbo] at h
    | ok o =>
      cases hbs : buildAll fixed e op t ss with
      | error err => simp [hbo, hbs] at h
      | ok os =>
        simp only [hbo, hbs, Except.ok.injEq] at h; subst h
        intro x hx
        rcases List.mem_cons.mp hx with hx | hx
        · rw [hx]; exact build_kinded fixed e .similarity op s t o hbo
        · exact ih os hbs x hx

/-- the iteration does not read the `converged` flag it is given -/
theorem recProcrustes_converged_irrelevant (g : GpaExt Pts) (initial : Pts) (n : Nat) (st : Gpa Pts A) (b : Bool) :
    recProcrustes e g initial n { st with converged := b } = recProcrustes e g initial n st := by
  cases n <;> simp [recProcrustes]

/-- the attributes of the GPA object the iteration updates -/
def withGpa (st : PyGpa Pts A S) (r : Gpa Pts A) : PyGpa Pts A S :=
  { st with transforms := r.transforms, target := r.target, nIterations := r.nIterations }

/-- one round of the translated `_recursive_procrustes`, in the words of the model (`GpaK.toExt`) -/
theorem genRecursiveProcrustes_step (initial : Pts) (f : Nat) (st : PyGpa Pts A S)
    (hscale : st.initialTargetScale = gk.norm initial) :
    genRecursiveProcrustes np e gk (f + 1) st =
      if st.nIterations > st.maxIterations then .ok (st, false)
      else if gk.toExt.closeEnough st.target (gk.toExt.newTarget initial (st.transforms.map (alignedSource e))) then
        .ok (st, true)
      else
        (mapExcept (fun o => genSetTarget np e o (gk.toExt.newTarget initial (st.transforms.map (alignedSource e))))
          st.transforms).bind fun ts =>
        genRecursiveProcrustes np e gk f
          { st with nIterations := st.nIterations + 1, transforms := ts,
                    target := gk.toExt.newTarget initial (st.transforms.map (alignedSource e)) } := by
  simp only [genRecursiveProcrustes, GpaK.toExt, genAlignedSource_eq, hscale, bind_eta, decide_eq_true_eq]
  repeat' split
  all_goals simp_all

/-- `_recursive_procrustes`, translated with both exit tests — `n_iterations > max_iterations` and the convergence
test — is the model's iteration run with `max_iterations + 1 - n_iterations` rounds of fuel, for every
`max_iterations`; Python's recursion depth (`fuel`) is never the limit when it exceeds that number -/
theorem genRecursiveProcrustes_eq (hf : NpFits np e) (initial : Pts) : ∀ (n fuel : Nat) (st : PyGpa Pts A S),
    st.maxIterations + 1 - st.nIterations = n → n < fuel → (∀ o ∈ st.transforms, Kinded o) →
    st.initialTargetScale = gk.norm initial →
    genRecursiveProcrustes np e gk fuel st =
      (liftErr (recProcrustes e gk.toExt initial n st.toGpa)).map fun r => (withGpa st r, r.converged) := by
  intro n
  induction n with
  | zero =>
    intro fuel st hn hfuel _ hscale
    obtain ⟨f, rfl⟩ : ∃ f, fuel = f + 1 := ⟨fuel - 1, by omega⟩
    have hgt : st.nIterations > st.maxIterations := by omega
    rw [genRecursiveProcrustes_step np e gk initial f st hscale, if_pos hgt]
    simp [recProcrustes, liftErr, withGpa, PyGpa.toGpa]
  | succ n ih =>
    intro fuel st hn hfuel hk hscale
    obtain ⟨f, rfl⟩ : ∃ f, fuel = f + 1 := ⟨fuel - 1, by omega⟩
    have hle : ¬ st.nIterations > st.maxIterations := by omega
    rw [genRecursiveProcrustes_step np e gk initial f st hscale, if_neg hle]
    simp only [recProcrustes, PyGpa.toGpa]
    split <;> rename_i hb
    · simp [hb, liftErr, withGpa]
    · simp only [hb, if_false, Bool.false_eq_true]
      rw [mapExcept_setTarget np e hf _ _ hk]
      cases hs : setAll e _ st.transforms with
      | error err => simp [liftErr]
      | ok ts =>
        simp only [liftErr, bind_ok]
        have hk' := setAll_kinded e _ _ ts hk hs
        rw [ih f { st with nIterations := st.nIterations + 1, transforms := ts,
                           target := gk.toExt.newTarget initial (st.transforms.map (alignedSource e)) }
          (by simp; omega) (by omega) hk' hscale]
        simp only [PyGpa.toGpa]
        rw [← recProcrustes_converged_irrelevant e gk.toExt initial n _ false]
        rfl

/-- `MultipleAlignment.__init__` -/
theorem genInit_MultipleAlignment_eq (self : PyGpa Pts A S) (sources : List Pts) (target : Option Pts) :
    genInit_MultipleAlignment e gk self sources target =
      if sources.length < 2 ∧ target.isNone then .error .valueError
      else match sources with
        | [] => .error .indexError
        | s0 :: _ =>
          if target.isSome ∧ e.nDims s0 = 0 then .error .assertionError
          else .ok { self with nSources := sources.length, nPoints := e.nPoints s0, nDims := e.nDims s0,
                               sources := sources, target := target.getD (gk.meanOf sources) } := by
  cases target <;> cases sources <;> simp [genInit_MultipleAlignment, pyIndex] <;> (try split) <;> simp_all

/-- PROPERTY tie (GPA): `GeneralizedProcrustesAnalysis(sources, target, allow_mirror)` as the source has it — the
argument checks of `MultipleAlignment.__init__`, the fresh `AlignmentSimilarity` per source with the constructor's
default `rotation`, `max_iterations = 100`, the recursion, the final re-binding of a given target — is the model's
`gpa` on the repaired tree behind those checks -/
theorem genInit_GeneralizedProcrustesAnalysis_eq (hf : NpFits np e) (self : PyGpa Pts A S) (sources : List Pts)
    (m : Bool) (target : Option Pts) :
    (genInit_GeneralizedProcrustesAnalysis np e gk self sources m target).map PyGpa.toGpa =
      gpaChecked e gk.toExt 100 sources target m := by
  have key : ∀ (a b c : Nat) (srcs : List Pts) (cv : Bool) (t0 : Pts) (ts : List (Obj Pts A)),
      buildAll fixed e { rotation := true, allowMirror := m } t0 sources = .ok ts →
      genRecursiveProcrustes np e gk pyRecursionLimit
          { nSources := a, nPoints := b, nDims := c, sources := srcs, target := t0, transforms := ts,
            initialTargetScale := gk.norm t0, nIterations := 1, maxIterations := 100, converged := cv } =
        (liftErr (recProcrustes e gk.toExt t0 100
            { transforms := ts, target := t0, nIterations := 1, converged := false })).map fun r =>
          (({ nSources := a, nPoints := b, nDims := c, sources := srcs, target := r.target,
              transforms := r.transforms, initialTargetScale := gk.norm t0, nIterations := r.nIterations,
              maxIterations := 100, converged := cv } : PyGpa Pts A S), r.converged) := by
    intro a b c srcs cv t0 ts hb
    rw [genRecursiveProcrustes_eq np e gk hf t0 100 pyRecursionLimit _ (by simp) (by decide)
      (fun o ho => buildAll_kinded e _ _ _ _ hb o ho) rfl]
    simp only [PyGpa.toGpa, withGpa]
    rw [← recProcrustes_converged_irrelevant e gk.toExt t0 100 _ false]
  have hmean : gk.toExt.meanOf = gk.meanOf := rfl
  cases target with
  | none =>
    simp only [genInit_GeneralizedProcrustesAnalysis, genInit_MultipleAlignment_eq, gpaChecked, gpa, hmean]
    by_cases hlen : sources.length < 2
    · simp [hlen]
    · cases sources with
      | nil => simp at hlen
      | cons s0 ss =>
        simp only [hlen, false_and, if_false, Option.isSome_none, Bool.false_eq_true, bind_ok, Option.getD_none,
          mapExcept_new]
        cases hb : buildAll fixed e { rotation := true, allowMirror := m } (gk.meanOf (s0 :: ss)) (s0 :: ss) with
        | error err => simp [liftErr, hb]
        | ok ts =>
          simp only [liftErr, bind_ok]
          rw [key _ _ _ _ _ _ _ hb]
          cases recProcrustes e gk.toExt (gk.meanOf (s0 :: ss)) 100
              { transforms := ts, target := gk.meanOf (s0 :: ss), nIterations := 1, converged := false } <;>
            simp [liftErr, PyGpa.toGpa]
  | some t =>
    simp only [genInit_GeneralizedProcrustesAnalysis, genInit_MultipleAlignment_eq, gpaChecked, gpa]
    cases sources with
    | nil => simp
    | cons s0 ss =>
      by_cases hd : e.nDims s0 = 0
      · simp [hd]
      · simp only [hd, Option.isNone_some, Bool.false_eq_true, and_false, and_self, if_false, Option.isSome_some,
          bind_ok, Option.getD_some, mapExcept_new]
        cases hb : buildAll fixed e { rotation := true, allowMirror := m } t (s0 :: ss) with
        | error err => simp [liftErr, hb]
        | ok ts =>
          simp only [liftErr, bind_ok]
          rw [key _ _ _ _ _ _ _ hb]
          cases recProcrustes e gk.toExt t 100
              { transforms := ts, target := t, nIterations := 1, converged := false } <;>
            simp [liftErr, PyGpa.toGpa]

end gpa

end MenpoModel.GenProps.C08Src
