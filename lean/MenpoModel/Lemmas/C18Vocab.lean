/-
C18 — lemmas about the vocabulary of the source translation (`Core/C18Src.lean`) and the Core model only: numpy
broadcasting against the row-wise forms of `Core/C18Feature.lean`, `as_vector` / `from_vector`, `List.mapM` in `Except`,
slices with a step, the fill loop of `gaussian_filter`, slice assignment.  Hand-written and independent of the shape of
the translated terms; `GenProps/C18Src.lean` uses them.  Core Lean only (no Mathlib).
-/
import MenpoModel.Core.C18Src

namespace MenpoModel.C18.Vocab
open MenpoModel.C18

/-! ## window centres -/

theorem correctPt_eq (c : Centres) : correctPt c = corrPt (centresMin c, centresStep c) := by
  funext p; unfold correctPt corrPt; rfl

/-! ## broadcasting -/

theorem zipWith_map_right {α β γ} (f : α → β → γ) (g : α → β) (l : List α) :
    List.zipWith f l (l.map g) = l.map fun a => f a (g a) := by
  induction l with
  | nil => rfl
  | cons a l ih => simp [ih]

theorem bsub_map (x : Chans) (g : List Rat → Rat) :
    bsub x (x.map g) = x.map fun row => row.map (· - g row) := by
  rcases x with _ | ⟨r, _ | ⟨r', t⟩⟩
  · rfl
  · rfl
  · simp only [bsub, List.map_cons]
    rw [← List.map_cons (f := g), ← List.map_cons (f := g), zipWith_map_right]
    rfl

theorem bdiv_of_length (x : Chans) (s : Scl) (h : s.length = x.length) :
    bdiv x s = List.zipWith (fun row v => row.map (· / v)) x s := by
  rcases s with _ | ⟨s0, _ | ⟨s1, t⟩⟩
  · rfl
  · rcases x with _ | ⟨r, _ | ⟨r', u⟩⟩ <;> simp_all [bdiv]
  · rfl

theorem centre_all (x : Chans) : centre .all x = bsub x [mean x.flatten] := rfl

theorem centre_perChannel (x : Chans) : centre .perChannel x = bsub x (x.map mean) := by
  rw [bsub_map]; rfl

theorem ite_fix_ne (a : Rat) : ¬ ((if a = 0 then (1 : Rat) else a) = 0) := by
  by_cases h : a = 0 <;> simp [h]

/-- `normalize` on an image is `normalize` on its vector, put back with `from_vector` -/
theorem normalizeImg_eq (stat : List Rat → Rat) (mode : Mode) (e fx : Bool) (im : Img Arr) :
    normalizeImg stat mode e fx im = (normalizeV stat mode e fx (asVector im)).map (fromVector im) := by
  unfold normalizeImg asVector fromVector
  cases im.mask with
  | none => rfl
  | some m => by_cases h : m.bits.all id = true <;> simp [h]

/-! ## `List.mapM` in `Except` -/

theorem mapM_ok {α β ε : Type} (f : α → Except ε β) (g : α → β) (l : List α) (h : ∀ a ∈ l, f a = .ok (g a)) :
    l.mapM f = .ok (l.map g) := by
  induction l with
  | nil => rfl
  | cons a t ih =>
    have h1 := h a (by simp)
    have h2 := ih (fun b hb => h b (by simp [hb]))
    simp [List.mapM_cons, h1, h2, bind, Except.bind, pure, Except.pure]

theorem mapM_err_head {α β ε : Type} (f : α → Except ε β) (a : α) (t : List α) (e : ε) (h : f a = .error e) :
    (a :: t).mapM f = .error e := by
  simp [List.mapM_cons, h, bind, Except.bind]

/-! ## gradient: the shape of a rectangular array, `l[i::2]` of an interleaved list -/

theorem rect_dims (h w : Nat) (p : Px) (hr : Rect h w p) (M : Chan2) (hM : M ∈ p) :
    nRows M = h ∧ nCols M = if h = 0 then 0 else w := by
  obtain ⟨h1, h2⟩ := hr M hM
  refine ⟨h1, ?_⟩
  rcases M with _ | ⟨r, t⟩
  · simp at h1; simp [nCols, ← h1]
  · have := h2 r (by simp)
    have hh : h ≠ 0 := by simp at h1; omega
    simp [nCols, this, hh]

theorem takeEvery_two_zero {α β} (f g : β → α) (l : List β) :
    takeEvery 2 0 (l.map (fun b => [f b, g b])).flatten = l.map f := by
  induction l with
  | nil => rfl
  | cons b t ih => simp [takeEvery, ih]

theorem takeEvery_two_one {α β} (f g : β → α) (l : List β) :
    takeEvery 2 1 (l.map (fun b => [f b, g b])).flatten = l.map g := by
  induction l with
  | nil => rfl
  | cons b t ih => simp [takeEvery, ih]

theorem flatten_map_singleton' {α β} (f : β → α) (l : List β) : (l.map fun b => [f b]).flatten = l.map f := by
  induction l with
  | nil => rfl
  | cons b t ih => simp [ih]

/-- what `gradient2` returns when it returns -/
theorem gradient2_ok_append (p g : Px) (h : gradient2 false p = .ok g) : g = p.map gradY ++ p.map gradX := by
  unfold gradient2 at h
  split at h
  · cases h
  · split at h
    · cases h
    · cases h; rfl

/-! ## `gaussian_filter`: filling a pre-allocated output channel by channel -/

theorem fill_length {β} (G : Nat → β) (init : List β) (n : Nat) :
    ((List.range n).foldl (fun acc d => acc.set d (G d)) init).length = init.length := by
  induction n with
  | zero => rfl
  | succ n ih => simp [List.range_succ, List.foldl_append, ih]

theorem fill_get {β} (G : Nat → β) (init : List β) (n i : Nat) :
    ((List.range n).foldl (fun acc d => acc.set d (G d)) init)[i]? =
      if i < n ∧ i < init.length then some (G i) else init[i]? := by
  induction n with
  | zero => simp
  | succ n ih =>
    simp only [List.range_succ, List.foldl_append, List.foldl_cons, List.foldl_nil, List.getElem?_set, fill_length, ih]
    by_cases h1 : n = i
    · subst h1; by_cases h2 : n < init.length <;> simp [h2]
    · have : (i < n + 1) ↔ i < n := by omega
      simp [h1, this]

theorem fill_loop {α β} (F : α → β) (a0 : α) (z : β) (p : List α) :
    (List.range p.length).foldl (fun acc d => acc.set d (F (p.getD d a0))) (List.replicate p.length z) = p.map F := by
  apply List.ext_getElem?
  intro i
  rw [fill_get (fun d => F (p.getD d a0))]
  by_cases h : i < p.length <;> simp [h]

/-! ## slice assignment on a list that starts with blocks of known length (`igo`, `es`) -/

theorem setSlice_zero {α} (r : List α) (b : Nat) (w : List α) : setSlice r 0 b w = w ++ r.drop b := by
  simp [setSlice]

theorem setSliceFrom_zero {α} (r w : List α) : setSliceFrom r 0 w = w := by simp [setSliceFrom]

theorem setSlice_skip {α} (v r w : List α) (n a b : Nat) (h : v.length = n) :
    setSlice (v ++ r) (n + a) (n + b) w = v ++ setSlice r a b w := by
  subst h; simp [setSlice, List.take_append, List.drop_append, List.take_of_length_le, List.drop_eq_nil_of_le]

theorem setSlice_skip0 {α} (v r w : List α) (n b : Nat) (h : v.length = n) :
    setSlice (v ++ r) n (n + b) w = v ++ setSlice r 0 b w := by
  have := setSlice_skip v r w n 0 b h; simpa using this

theorem setSliceFrom_skip {α} (v r w : List α) (n a : Nat) (h : v.length = n) :
    setSliceFrom (v ++ r) (n + a) w = v ++ setSliceFrom r a w := by
  subst h; simp [setSliceFrom, List.take_append, List.take_of_length_le]

theorem setSliceFrom_skip0 {α} (v r w : List α) (n : Nat) (h : v.length = n) :
    setSliceFrom (v ++ r) n w = v ++ w := by
  have := setSliceFrom_skip v r w n 0 h; simpa [setSliceFrom_zero] using this

theorem mul_three (n : Nat) : n * 3 = n + (n + n) := by omega
theorem mul_four (n : Nat) : n * 4 = n + (n + (n + n)) := by omega

/-- dropping exactly a leading block -/
theorem drop_block {α} (v r : List α) (n : Nat) (h : v.length = n) : List.drop n (v ++ r) = r := by
  subst h; simp

theorem drop_whole {α} (v : List α) (n : Nat) (h : v.length = n) : List.drop n v = [] := by
  subst h; simp

/-- a pre-allocated output of `n + m` channels is a block of `n` followed by a block of `m` -/
theorem replicate_blocks {α} (n m : Nat) (a : α) : List.replicate (n + m) a = List.replicate n a ++ List.replicate m a :=
  (List.replicate_append_replicate).symm

theorem take_map_append {α β} (f g : α → β) (l : List α) : List.take l.length (l.map f ++ l.map g) = l.map f := by
  simp

theorem drop_map_append {α β} (f g : α → β) (l : List α) : List.drop l.length (l.map f ++ l.map g) = l.map g := by
  simp

theorem zipWith_map_map {α β γ δ} (f : β → γ → δ) (g : α → β) (h : α → γ) (l : List α) :
    List.zipWith f (l.map g) (l.map h) = l.map fun a => f (g a) (h a) := by
  induction l with
  | nil => rfl
  | cons a t ih => simp [ih]

theorem zipWith_left_zipWith {α β γ ε} (f : α → γ → ε) (k : α → β → γ) (l : List α) (m : List β) :
    List.zipWith f l (List.zipWith k l m) = List.zipWith (fun a b => f a (k a b)) l m := by
  induction l generalizing m with
  | nil => simp
  | cons a t ih => cases m <;> simp [ih]

theorem zipWith_right_zipWith {α β γ ε} (f : β → γ → ε) (k : α → β → γ) (l : List α) (m : List β) :
    List.zipWith f m (List.zipWith k l m) = List.zipWith (fun a b => f b (k a b)) l m := by
  induction l generalizing m with
  | nil => simp
  | cons a t ih => cases m <;> simp [ih]

/-! ## gradient orientation as data -/

theorem sinA_angleOf (mag : Rat → Rat → Rat) (f g : Chan2 → Chan2) (l : Px) :
    sinA mag (angleOf (l.map f) (l.map g)) = l.map fun M => sinC mag (f M) (g M) := by
  simp [sinA, angleOf]
theorem cosA_angleOf (mag : Rat → Rat → Rat) (f g : Chan2 → Chan2) (l : Px) :
    cosA mag (angleOf (l.map f) (l.map g)) = l.map fun M => cosC mag (f M) (g M) := by
  simp [cosA, angleOf]
theorem sinA_dbl (mag : Rat → Rat → Rat) (f g : Chan2 → Chan2) (l : Px) :
    sinA mag (dblAngle (angleOf (l.map f) (l.map g))) = l.map fun M => sin2C mag (f M) (g M) := by
  simp [sinA, dblAngle, angleOf]
theorem cosA_dbl (mag : Rat → Rat → Rat) (f g : Chan2 → Chan2) (l : Px) :
    cosA mag (dblAngle (angleOf (l.map f) (l.map g))) = l.map fun M => cos2C mag (f M) (g M) := by
  simp [cosA, dblAngle, angleOf]

/-! ## `Except.bind` -/

theorem bind_ok' {ε α β} (a : α) (f : α → Except ε β) : (Except.ok a).bind f = f a := rfl
theorem bind_error' {ε α β} (e : ε) (f : α → Except ε β) : (Except.error e : Except ε α).bind f = .error e := rfl
theorem bind_ok_id {ε α} (m : Except ε α) : (m.bind fun d => Except.ok d) = m := by cases m <;> rfl

end MenpoModel.C18.Vocab
