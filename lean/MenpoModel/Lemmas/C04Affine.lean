/-
C04 helper lemmas: `Homogeneous._apply` against a left inverse; block structure of affine matrices
(`[[L, t], [0, 1]]`), their products and inverses.
-/
import MenpoModel.Lemmas.C04Mat
import Mathlib.Tactic.FieldSimp
import Mathlib.Tactic.Ring
import Mathlib.Tactic.Linarith

namespace MenpoModel.C04
open Matrix

variable {d : ℕ}


@[simp] theorem hom_castSucc (x : Vec d) (i : Fin d) : hom x i.castSucc = x i := by
  simp [hom]
@[simp] theorem hom_last (x : Vec d) : hom x (Fin.last d) = 1 := by
  simp [hom]

theorem applyH_some {H : Mat (d + 1)} {x y : Vec d} (h : applyH H x = some y) :
    (toM H *ᵥ hom x) (Fin.last d) ≠ 0 ∧
      ∀ i, y i = (toM H *ᵥ hom x) i.castSucc / (toM H *ᵥ hom x) (Fin.last d) := by
  unfold applyH at h
  simp only [mulVec_eq] at h
  split at h
  · cases h
  · rename_i hw
    refine ⟨hw, fun i => ?_⟩
    have := Option.some.inj h
    rw [← this]

/-- a left inverse matrix undoes `apply` on every point of the domain -/
theorem applyH_left_inverse {H B : Mat (d + 1)} (hB : toM B * toM H = 1) {x y : Vec d}
    (h : applyH H x = some y) : applyH B y = some x := by
  obtain ⟨hw, hy⟩ := applyH_some h
  set v := toM H *ᵥ hom x with hv
  set w := v (Fin.last d) with hw'
  have hhom : hom y = w⁻¹ • v := by
    funext i
    refine Fin.lastCases ?_ (fun i => ?_) i
    · simp [← hw', hw]
    · simp [hy, div_eq_inv_mul]
  have hB' : toM B *ᵥ hom y = w⁻¹ • hom x := by
    rw [hhom, Matrix.mulVec_smul, hv, Matrix.mulVec_mulVec, hB, Matrix.one_mulVec]
  unfold applyH
  simp only [mulVec_eq, hB']
  have hwi : w⁻¹ ≠ 0 := inv_ne_zero hw
  simp [hwi]
  funext i
  field_simp



/-- bottom row `[0 … 0 1]` -/
def IsAffineM (H : Mat (d + 1)) : Prop :=
  (∀ j : Fin d, H (Fin.last d) j.castSucc = 0) ∧ H (Fin.last d) (Fin.last d) = 1

@[simp] theorem ofAffine_cc (L : Mat d) (t : Vec d) (i j : Fin d) :
    ofAffine L t i.castSucc j.castSucc = L i j := by simp [ofAffine]
@[simp] theorem ofAffine_cl (L : Mat d) (t : Vec d) (i : Fin d) :
    ofAffine L t i.castSucc (Fin.last d) = t i := by simp [ofAffine]
@[simp] theorem ofAffine_lc (L : Mat d) (t : Vec d) (j : Fin d) :
    ofAffine L t (Fin.last d) j.castSucc = 0 := by simp [ofAffine]
@[simp] theorem ofAffine_ll (L : Mat d) (t : Vec d) :
    ofAffine L t (Fin.last d) (Fin.last d) = 1 := by simp [ofAffine]

@[simp] theorem linPart_ofAffine (L : Mat d) (t : Vec d) : linPart (ofAffine L t) = L := by
  funext i j; simp [linPart]
@[simp] theorem transPart_ofAffine (L : Mat d) (t : Vec d) : transPart (ofAffine L t) = t := by
  funext i; simp [transPart]

theorem isAffineM_ofAffine (L : Mat d) (t : Vec d) : IsAffineM (ofAffine L t) :=
  ⟨fun j => by simp, by simp⟩

theorem eq_ofAffine {H : Mat (d + 1)} (h : IsAffineM H) : H = ofAffine (linPart H) (transPart H) := by
  funext i j
  refine Fin.lastCases ?_ (fun i => ?_) i <;> refine Fin.lastCases ?_ (fun j => ?_) j
  · simp [h.2]
  · simp [h.1]
  · simp [transPart]
  · simp [linPart]

theorem ofAffine_mul (L L' : Mat d) (t t' : Vec d) :
    toM (ofAffine L t) * toM (ofAffine L' t') =
      toM (ofAffine (ofM (toM L * toM L')) (toM L *ᵥ t' + t)) := by
  ext i j
  rw [Matrix.mul_apply, Fin.sum_univ_castSucc]
  refine Fin.lastCases ?_ (fun i => ?_) i <;> refine Fin.lastCases ?_ (fun j => ?_) j
  · simp
  · simp
  · simp [Matrix.mulVec, dotProduct]
  · simp [Matrix.mul_apply]

theorem ofAffine_one : toM (ofAffine (d := d) Mat.one fun _ => 0) = 1 := by
  ext i j
  refine Fin.lastCases ?_ (fun i => ?_) i <;> refine Fin.lastCases ?_ (fun j => ?_) j
  · simp
  · simp [Matrix.one_apply, Fin.ext_iff]; omega
  · simp [Matrix.one_apply, Fin.ext_iff]; omega
  · simp [Matrix.one_apply, Mat.one]

/-- the inverse of an affine matrix is affine: bottom row of `H⁻¹` is `e_lastᵀ H⁻¹ = e_lastᵀ` -/
theorem isAffineM_of_right_inverse {H B : Mat (d + 1)} (h : IsAffineM H) (hB : toM H * toM B = 1) :
    IsAffineM B := by
  have e1 : Pi.single (Fin.last d) (1 : ℚ) ᵥ* toM H = Pi.single (Fin.last d) 1 := by
    rw [Matrix.single_one_vecMul]
    funext j
    refine Fin.lastCases ?_ (fun j => ?_) j
    · simp [h.2]
    · simp [h.1, (Fin.castSucc_lt_last j).ne]
  have e2 : Pi.single (Fin.last d) (1 : ℚ) ᵥ* toM B = Pi.single (Fin.last d) 1 := by
    have := congrArg (fun v => v ᵥ* toM B) e1
    simp only [Matrix.vecMul_vecMul, hB, Matrix.vecMul_one] at this
    exact this.symm
  rw [Matrix.single_one_vecMul] at e2
  constructor
  · intro j
    have := congrFun e2 j.castSucc
    simpa [Pi.single_apply, (Fin.castSucc_lt_last j).ne] using this
  · have := congrFun e2 (Fin.last d)
    simpa using this


/-- inverse of an affine matrix, block form: `[[L, t], [0, 1]]⁻¹ = [[L⁻¹, -L⁻¹ t], [0, 1]]` -/
theorem affine_inverse {H : Mat (d + 1)} (h : IsAffineM H) (hdet : (toM H).det ≠ 0) :
    (toM (linPart H)).det ≠ 0 ∧
      (toM H)⁻¹ = toM (ofAffine (ofM (toM (linPart H))⁻¹) (-((toM (linPart H))⁻¹ *ᵥ transPart H))) := by
  have hu : IsUnit (toM H).det := isUnit_iff_ne_zero.mpr hdet
  set B : Mat (d + 1) := ofM (toM H)⁻¹ with hBdef
  have hHB : toM H * toM B = 1 := by simp [hBdef, Matrix.mul_nonsing_inv _ hu]
  have hBa : IsAffineM B := isAffineM_of_right_inverse h hHB
  have e := hHB
  rw [eq_ofAffine h, eq_ofAffine hBa, ofAffine_mul, ← ofAffine_one] at e
  have e' := toM_injective e
  have eL := congrArg linPart e'
  have et := congrArg transPart e'
  simp only [linPart_ofAffine, transPart_ofAffine] at eL et
  have eL' : toM (linPart H) * toM (linPart B) = 1 := by
    have := congrArg toM eL
    simpa [one_eq] using this
  have hdL : (toM (linPart H)).det ≠ 0 := Matrix.det_ne_zero_of_right_inverse eL'
  have hLinv : (toM (linPart H))⁻¹ = toM (linPart B) := Matrix.inv_eq_right_inv eL'
  have huL : IsUnit (toM (linPart H)).det := isUnit_iff_ne_zero.mpr hdL
  have ht : transPart B = -((toM (linPart H))⁻¹ *ᵥ transPart H) := by
    have h1 := congrArg (fun v => (toM (linPart H))⁻¹ *ᵥ v) et
    simp only [Matrix.mulVec_add, Matrix.mulVec_mulVec, Matrix.nonsing_inv_mul _ huL,
      Matrix.one_mulVec] at h1
    have h2 : (toM (linPart H))⁻¹ *ᵥ (fun _ => (0 : ℚ)) = 0 := by
      funext i; simp [Matrix.mulVec, dotProduct]
    rw [h2] at h1
    exact eq_neg_of_add_eq_zero_left h1
  refine ⟨hdL, ?_⟩
  have : (toM H)⁻¹ = toM B := by simp [hBdef]
  rw [this, eq_ofAffine hBa, ht, hLinv]
  rfl

end MenpoModel.C04
