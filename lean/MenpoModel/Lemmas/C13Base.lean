/-
C13 — crops and patches are pixel-exact and honour their boundary contract.
Property theorems over the executable model `Core/C13Crop.lean` (core Lean only, no Mathlib): crop,
slicing path, sampling path, path equivalence, fill.  The write-back theorems are in
`Lemmas/C13Set.lean`, the samplers in `Lemmas/C13Sampler.lean`, the public wrappers in
`Lemmas/C13Api.lean`; `Props/C13.lean` imports all of them.
PROPERTY marks the theorems registered in the harness; the rest are helper lemmas.
-/
import MenpoModel.Core.C13Crop
import MenpoModel.Lemmas.C13NDArr
namespace MenpoModel.C13
open MenpoModel.PyData

theorem half_floor : (1/2 : Rat).floor = 0 := by decide +kernel
theorem floor_int_add_half (k : Int) : ((k : Rat) + 1/2).floor = k := by
  rw [Rat.add_comm, Rat.floor_add_intCast, half_floor]; omega
theorem nearest_inside (n : Nat) (x : Int) (h0 : 0 ≤ x) (h1 : x < n) :
    ¬((x : Rat) < 0 ∨ ((((n : Int) - 1 : Int)) : Rat) < (x : Rat)) := by
  intro h
  rcases h with h | h
  · have := (Rat.intCast_lt_intCast (a := x) (b := 0)).1 (by simpa using h); omega
  · have := (Rat.intCast_lt_intCast).1 h; omega

/-- the request stays inside the image along this axis -/
def Axis.inside (a : Axis) : Prop := 0 ≤ a.lo ∧ a.hi ≤ (a.n : Int)
instance (a : Axis) : Decidable a.inside := by unfold Axis.inside; exact inferInstance

theorem clampB_eq_iff (n : Nat) (x : Int) : clampB n x = x ↔ 0 ≤ x ∧ x ≤ (n : Int) := by
  simp only [clampB]; split <;> split <;> omega

theorem clampB_range (n : Nat) (x : Int) : 0 ≤ clampB n x ∧ clampB n x ≤ (n : Int) := by
  simp only [clampB]; split <;> split <;> omega

/-- the clamped bounds are the intersection of the requested half-open interval with the image -/
theorem clamp_is_intersection (a : Axis) (x : Int) :
    (a.loB ≤ x ∧ x < a.hiB) ↔ ((a.lo ≤ x ∧ x < a.hi) ∧ (0 ≤ x ∧ x < (a.n : Int))) := by
  simp only [Axis.loB, Axis.hiB, clampB]
  repeat' split
  all_goals omega

theorem all_inside_iff (axes : List Axis) (hpos : ∀ a ∈ axes, a.lo < a.hi) :
    ((axes.all fun a => a.loB == a.lo) && (axes.all fun a => a.hiB == a.hi)) = true ↔ ∀ a ∈ axes, a.inside := by
  simp only [Bool.and_eq_true, List.all_eq_true, beq_iff_eq, Axis.loB, Axis.hiB, clampB_eq_iff, Axis.inside]
  constructor
  · intro h a ha; have := h.1 a ha; have := h.2 a ha; omega
  · intro h; constructor <;> intro a ha <;> have := h a ha <;> have := hpos a ha <;> omega

theorem raises_repaired (constrain : Bool) (axes : List Axis) (hpos : ∀ a ∈ axes, a.lo < a.hi) :
    raises .repaired constrain axes = true ↔ (constrain = false ∧ ¬ ∀ a ∈ axes, a.inside) := by
  have h := all_inside_iff axes hpos
  simp only [raises]
  generalize ((axes.all fun a => a.loB == a.lo) && (axes.all fun a => a.hiB == a.hi)) = b at h ⊢
  cases constrain <;> cases b <;> simp_all

theorem cropBounds_ok_or (v : Variant) (shape : List Nat) (mn mx : List Rat) (constrain : Bool)
    (hlen : mn.length = shape.length ∧ mx.length = shape.length)
    (hpos : ∀ a ∈ mkAxes shape mn mx, a.lo < a.hi) :
    cropBounds v shape mn mx constrain =
      if raises v constrain (mkAxes shape mn mx) then .error .boundary else .ok (mkAxes shape mn mx) := by
  unfold cropBounds
  have : (mkAxes shape mn mx).all (fun a => decide (a.hi > a.lo)) = true := by
    simp only [List.all_eq_true, decide_eq_true_eq]; exact hpos
  simp [hlen, this]

/-- PROPERTY (boundary contract, repaired decision). -/
theorem crop_boundary_contract (shape : List Nat) (mn mx : List Rat) (constrain : Bool)
    (hlen : mn.length = shape.length ∧ mx.length = shape.length)
    (hpos : ∀ a ∈ mkAxes shape mn mx, a.lo < a.hi) :
    ((∀ a ∈ mkAxes shape mn mx, a.inside) →
        cropBounds .repaired shape mn mx constrain = .ok (mkAxes shape mn mx) ∧
        ∀ a ∈ mkAxes shape mn mx, a.loB = a.lo ∧ a.hiB = a.hi) ∧
    ((¬ ∀ a ∈ mkAxes shape mn mx, a.inside) → constrain = true →
        cropBounds .repaired shape mn mx constrain = .ok (mkAxes shape mn mx)) ∧
    ((¬ ∀ a ∈ mkAxes shape mn mx, a.inside) → constrain = false →
        cropBounds .repaired shape mn mx constrain = .error .boundary) := by
  have hr := raises_repaired constrain (mkAxes shape mn mx) hpos
  rw [cropBounds_ok_or .repaired shape mn mx constrain hlen hpos]
  refine ⟨?_, ?_, ?_⟩
  · intro hin
    have : raises .repaired constrain (mkAxes shape mn mx) = false := by
      cases h : raises .repaired constrain (mkAxes shape mn mx) with
      | false => rfl
      | true => exact absurd hin (hr.1 h).2
    refine ⟨by simp [this], ?_⟩
    intro a ha
    have := hin a ha
    simp only [Axis.loB, Axis.hiB, clampB_eq_iff, Axis.inside] at *
    have := hpos a ha
    omega
  · intro hout hc
    have : raises .repaired constrain (mkAxes shape mn mx) = false := by
      cases h : raises .repaired constrain (mkAxes shape mn mx) with
      | false => rfl
      | true => have := (hr.1 h).1; simp_all
    simp [this]
  · intro hout hc
    have : raises .repaired constrain (mkAxes shape mn mx) = true := hr.2 ⟨hc, hout⟩
    simp [this]

/-- an `ok` answer is never silently altered: it is the request itself, or constraining was allowed -/
theorem crop_never_silently_altered (shape : List Nat) (mn mx : List Rat) (constrain : Bool) (axes : List Axis)
    (h : cropBounds .repaired shape mn mx constrain = .ok axes) :
    axes = mkAxes shape mn mx ∧ (constrain = true ∨ ∀ a ∈ axes, a.loB = a.lo ∧ a.hiB = a.hi) := by
  simp only [cropBounds] at h
  split at h
  · cases h
  · split at h
    · cases h
    · rename_i hall
      split at h
      · cases h
      · rename_i hr
        injection h with h
        subst h
        refine ⟨rfl, ?_⟩
        cases constrain with
        | true => exact Or.inl rfl
        | false =>
          right
          intro a ha
          simp only [raises, Bool.false_or, Bool.not_eq_true, Bool.not_eq_false', Bool.and_eq_true, List.all_eq_true, beq_iff_eq] at hr
          exact ⟨hr.1 a ha, hr.2 a ha⟩

/-- REFUTATION of the coded decision (`or`): a request leaving the image on one side only is
answered with clipped bounds although constraining is disabled. -/
theorem crop_coded_silently_clips :
    ∃ (shape : List Nat) (mn mx : List Rat) (axes : List Axis),
      cropBounds .coded shape mn mx false = .ok axes ∧
      (∃ a ∈ axes, ¬ a.inside) ∧ (∃ a ∈ axes, a.loB ≠ a.lo) :=
  ⟨[6, 7], [-2, 1], [3, 4], [⟨6, -2, 3⟩, ⟨7, 1, 4⟩], by decide +kernel,
    ⟨⟨6, -2, 3⟩, by simp, by decide⟩, ⟨⟨6, -2, 3⟩, by simp, by decide⟩⟩

/-- the same request under the repaired decision is refused -/
example : cropBounds .repaired [6, 7] [-2, 1] [3, 4] false = .error .boundary := by decide +kernel
example : cropBounds .repaired [6, 7] [-2, 1] [3, 4] true = .ok [⟨6, -2, 3⟩, ⟨7, 1, 4⟩] := by decide +kernel


/-- the source multi-index template index `p` is read from: `p + ⌊min⌋_clamped` -/
def shiftIdx : List Nat → List Axis → List Nat
  | i :: p, a :: as => (i + a.loB.toNat) :: shiftIdx p as
  | _, _ => []

theorem get?_some_of_WF {α : Type} (a : NDArr α) (h : a.WF) (idx : List Nat) (hi : inRange a.shape idx = true) :
    ∃ v, a.get? idx = some v := by
  have := offset_lt a.shape idx hi
  unfold NDArr.WF at h
  simp only [NDArr.get?, hi, if_true]
  exact ⟨a.data[offset a.shape idx]'(by omega), List.getElem?_eq_getElem _⟩

theorem nearest_shift (axes : List Axis) : ∀ (p : List Nat), inRange (axes.map Axis.len) p = true →
    nearestIdxC (axes.map Axis.n) (shiftPt p axes) = some (shiftIdx p axes) ∧
    inRange (axes.map Axis.n) (shiftIdx p axes) = true := by
  induction axes with
  | nil => intro p h; cases p <;> simp_all [inRange, nearestIdxC, shiftPt, shiftIdx]
  | cons a as ih =>
    intro p h
    cases p with
    | nil => simp [inRange] at h
    | cons i p =>
      simp only [List.map_cons, inRange, Bool.and_eq_true, decide_eq_true_eq] at h
      obtain ⟨h1, h2⟩ := ih p h.2
      have hr := clampB_range a.n a.lo
      have hr2 := clampB_range a.n a.hi
      have hi : (i : Int) + a.loB < a.n := by
        have := h.1; unfold Axis.len at this; unfold Axis.loB Axis.hiB at *; omega
      have h0 : 0 ≤ (i : Int) + a.loB := by unfold Axis.loB; omega
      have hin := nearest_inside a.n ((i : Int) + a.loB) h0 hi
      simp only [List.map_cons, shiftPt, nearestIdxC, hin, if_false, h1, Option.map_some, shiftIdx,
        floor_int_add_half, inRange, h2, Bool.and_true, decide_eq_true_eq]
      have e : ((i : Int) + a.loB).toNat = i + a.loB.toNat := by unfold Axis.loB at *; omega
      refine ⟨by rw [e], ?_⟩
      unfold Axis.loB at *; omega

/-- PROPERTY (pixel exactness of crop): the cropped array has extent `hiB − loB` per axis and its
element at `(c, p)` is the source element at `(c, p + loB)`, for every channel and every `p`. -/
theorem crop_exact {α : Type} (pix : NDArr α) (C : Nat) (axes : List Axis) (zero : α)
    (hshape : pix.shape = C :: axes.map Axis.n) (hwf : pix.WF) :
    (cropPixels pix axes zero).shape = C :: axes.map Axis.len ∧
    ∀ (c : Nat) (p : List Nat), c < C → inRange (axes.map Axis.len) p = true →
      (cropPixels pix axes zero).get? (c :: p) = pix.get? (c :: shiftIdx p axes) ∧
      ((cropPixels pix axes zero).get? (c :: p)).isSome = true := by
  refine ⟨by simp [cropPixels, ofFn, hshape], ?_⟩
  intro c p hc hp
  obtain ⟨h1, h2⟩ := nearest_shift axes p hp
  have hin : inRange pix.shape (c :: shiftIdx p axes) = true := by
    simp [hshape, inRange, hc, h2]
  obtain ⟨v, hv⟩ := get?_some_of_WF pix hwf _ hin
  have : (cropPixels pix axes zero).get? (c :: p) = some v := by
    unfold cropPixels
    rw [get_ofFn _ _ _ (by simp [hshape, inRange, hc, hp])]
    simp [sample0c, hshape, h1, NDArr.getD, hv]
  rw [this, hv]; simp



theorem crop_landmarks_registered (axes : List Axis) : ∀ (p : List Nat), p.length = axes.length →
    cropLandmarks axes [(shiftIdx p axes).map fun (i : Nat) => (i : Rat)] = [p.map fun (i : Nat) => (i : Rat)] := by
  induction axes with
  | nil => intro p h; cases p <;> simp_all [cropLandmarks, shiftIdx]
  | cons a as ih =>
    intro p h
    cases p with
    | nil => simp at h
    | cons i p =>
      have := ih p (by simpa using h)
      simp only [cropLandmarks, List.map_cons, List.map_nil, List.cons.injEq, and_true] at this ⊢
      simp only [shiftIdx, List.map_cons, List.zipWith_cons_cons, List.cons.injEq]
      refine ⟨?_, this⟩
      have hr := clampB_range a.n a.lo
      have e : ((a.loB.toNat : Nat) : Int) = a.loB := by unfold Axis.loB; omega
      have : ((a.loB.toNat : Nat) : Rat) = (a.loB : Rat) := by rw [← e]; rfl
      rw [Rat.natCast_add, this, Rat.add_sub_cancel]

/-! ### sampling path -/

def sampledFn {α : Type} (sample : Nat → Pt → α) (g : List Nat → Pt) : List Nat → α
  | c :: rest => sample c (g rest)
  | [] => sample 0 (g [])

theorem sampled_eq_ofFn {α : Type} (sample : Nat → Pt → α) (C : Nat) (s : List Nat) (g : List Nat → Pt) :
    ((List.range C).flatMap fun c => ((indices s).map g).map (sample c)) =
      (indices (C :: s)).map (sampledFn sample g) := by
  simp only [indices, List.map_flatMap, List.map_map]
  rfl

/-- PROPERTY (patch layout, repaired reshape): for every channel count the sampling path returns
an array of shape `(centres, offsets, channels, ph, pw)` whose element `(i, j, c, r, q)` is the
sample of channel `c` at `centre_i + offset_j + grid(r, q)` — whatever the sampler (order, mode). -/
theorem sampling_patch_layout {α : Type} (sample : Nat → Pt → α) (C ph pw : Nat) (centres : List Pt)
    (offsets : Option (List Pt)) (dflt : α) :
    ∃ out, extractSampling .repaired sample C ph pw centres offsets dflt = .ok out ∧
      out.shape = [centres.length, (offsets.getD [(0, 0)]).length, C, ph, pw] ∧
      ∀ i j c r q, inRange [centres.length, (offsets.getD [(0, 0)]).length, C, ph, pw] [i, j, c, r, q] = true →
        out.get? [i, j, c, r, q] =
          some (sample c (samplePt ph pw (getPt centres i) (getPt (offsets.getD [(0, 0)]) j) r q)) := by
  generalize hoffs : offsets.getD [(0, 0)] = offs
  unfold extractSampling
  simp only [hoffs]
  rw [sampled_eq_ofFn]
  simp only [reshape, List.length_map, length_indices, if_true]
  refine ⟨_, rfl, rfl, ?_⟩
  intro i j c r q hin
  rw [get_ofFn _ _ _ hin]
  simp only [inRange, Bool.and_eq_true, decide_eq_true_eq, Bool.and_true] at hin
  have hin2 : inRange [C, ph, pw, centres.length, offs.length] [c, r, q, i, j] = true := by
    simp [inRange]; omega
  have := get_ofFn [C, ph, pw, centres.length, offs.length]
    (sampledFn sample (samplePtAt ph pw centres offs)) [c, r, q, i, j] hin2
  simp only [ofFn] at this
  simp only [NDArr.getD, this, Option.getD_some, sampledFn, samplePtAt]

/-- REFUTATION of the coded reshape (literal 3): with any channel count other than three and a
non-empty request the sampling path raises (numpy: cannot reshape) instead of returning patches. -/
theorem sampling_coded_fails {α : Type} (sample : Nat → Pt → α) (C ph pw : Nat) (centres : List Pt)
    (offsets : Option (List Pt)) (dflt : α) (hC : C ≠ 3)
    (hne : 0 < ph * (pw * (centres.length * (offsets.getD [(0, 0)]).length))) :
    extractSampling .coded sample C ph pw centres offsets dflt = .error .value := by
  generalize hoffs : offsets.getD [(0, 0)] = offs at hne
  unfold extractSampling
  simp only [hoffs]
  rw [sampled_eq_ofFn]
  simp only [reshape, List.length_map, length_indices, sz]
  rw [if_neg]
  intro h
  simp only [Nat.mul_one] at h hne
  exact hC (Nat.eq_of_mul_eq_mul_right hne h)

example : extractSampling .coded (fun c (_ : Pt) => c) 3 2 2 [(1, 1)] none 0 =
    extractSampling .repaired (fun c (_ : Pt) => c) 3 2 2 [(1, 1)] none 0 := by decide +kernel



theorem adjBound_facts (len : Nat) (v : Int) :
    (v < -(len : Int) ∧ adjBound len false v = 0) ∨
    (-(len : Int) ≤ v ∧ v < 0 ∧ adjBound len false v = v + len) ∨
    (0 ≤ v ∧ v < len ∧ adjBound len false v = v) ∨
    ((len : Int) ≤ v ∧ adjBound len false v = len) := by
  simp only [adjBound]
  repeat' split
  all_goals first | omega | simp_all

theorem adjBound_id (len : Nat) (v : Int) (h0 : 0 ≤ v) (h1 : v ≤ len) : adjBound len false v = v := by
  rcases adjBound_facts len v with h | h | h | h <;> omega

theorem clip0_facts (n : Nat) (x : Int) :
    (x < 0 ∧ clip0 n x = 0) ∨ (0 ≤ x ∧ x ≤ n ∧ clip0 n x = x) ∨ ((n : Int) < x ∧ clip0 n x = n) := by
  simp only [clip0]
  repeat' split
  all_goals omega

theorem plan_arith (n ph : Nat) (lo a b s0 s1 : Int)
    (c1 : (lo < 0 ∧ a = 0) ∨ (0 ≤ lo ∧ lo ≤ n ∧ a = lo) ∨ ((n : Int) < lo ∧ a = n))
    (c2 : (lo + ph < 0 ∧ b = 0) ∨ (0 ≤ lo + ph ∧ lo + ph ≤ n ∧ b = lo + ph) ∨ ((n : Int) < lo + ph ∧ b = n))
    (a1 : (a - lo < -(ph : Int) ∧ s0 = 0) ∨ (-(ph : Int) ≤ a - lo ∧ a - lo < 0 ∧ s0 = a - lo + ph) ∨
      (0 ≤ a - lo ∧ a - lo < ph ∧ s0 = a - lo) ∨ ((ph : Int) ≤ a - lo ∧ s0 = ph))
    (a2 : ((ph : Int) + (b - (lo + ph)) < -(ph : Int) ∧ s1 = 0) ∨
      (-(ph : Int) ≤ (ph : Int) + (b - (lo + ph)) ∧ (ph : Int) + (b - (lo + ph)) < 0 ∧ s1 = (ph : Int) + (b - (lo + ph)) + ph) ∨
      (0 ≤ (ph : Int) + (b - (lo + ph)) ∧ (ph : Int) + (b - (lo + ph)) < ph ∧ s1 = (ph : Int) + (b - (lo + ph))) ∨
      ((ph : Int) ≤ (ph : Int) + (b - (lo + ph)) ∧ s1 = ph)) :
    (SlicePlan.mk s0.toNat s1.toNat a.toNat b.toNat).ok = true ∧
    ∀ r, r < ph →
      ((SlicePlan.mk s0.toNat s1.toNat a.toNat b.toNat).covers r = true ↔ (0 ≤ lo + r ∧ lo + r < n)) ∧
      ((SlicePlan.mk s0.toNat s1.toNat a.toNat b.toNat).covers r = true →
        (((SlicePlan.mk s0.toNat s1.toNat a.toNat b.toNat).src r : Nat) : Int) = lo + r) := by
  simp only [SlicePlan.ok, SlicePlan.covers, SlicePlan.src,
    SlicePlan.tlen, SlicePlan.slen, Bool.or_eq_true, beq_iff_eq, Bool.and_eq_true]
  simp only [decide_eq_true_eq]
  refine ⟨by omega, ?_⟩
  intro r hr
  refine ⟨by omega, ?_⟩
  intro hc
  split <;> omega

theorem clip0_range (n : Nat) (x : Int) : 0 ≤ clip0 n x ∧ clip0 n x ≤ n := by
  rcases clip0_facts n x with h | h | h <;> omega

/-- slice arithmetic of one axis, for consistent bounds `hi = lo + ph` (always the case away from
rounding ties): the assignment is well-shaped, it covers exactly the patch rows whose source row
`lo + r` lies inside the image, and reads them from exactly that row. -/
theorem axisPlan_spec (n ph : Nat) (lo : Int) :
    (axisPlan n ph lo (lo + ph)).ok = true ∧
    ∀ r, r < ph →
      ((axisPlan n ph lo (lo + ph)).covers r = true ↔ (0 ≤ lo + r ∧ lo + r < n)) ∧
      ((axisPlan n ph lo (lo + ph)).covers r = true → (((axisPlan n ph lo (lo + ph)).src r : Nat) : Int) = lo + r) := by
  have h := plan_arith n ph lo (clip0 n lo) (clip0 n (lo + ph)) _ _ (clip0_facts n lo) (clip0_facts n (lo + ph))
    (adjBound_facts ph (clip0 n lo - lo)) (adjBound_facts ph ((ph : Int) + (clip0 n (lo + ph) - (lo + ph))))
  have e : axisPlan n ph lo (lo + ph) = SlicePlan.mk (adjBound ph false (clip0 n lo - lo)).toNat
      (adjBound ph false ((ph : Int) + (clip0 n (lo + ph) - (lo + ph)))).toNat (clip0 n lo).toNat (clip0 n (lo + ph)).toNat := by
    simp only [axisPlan, pySliceN]
    rw [adjBound_id n _ (clip0_range n lo).1 (clip0_range n lo).2,
      adjBound_id n _ (clip0_range n (lo + ph)).1 (clip0_range n (lo + ph)).2]
  rw [e]; exact h


/-- reference value of a patch pixel: the source pixel at integer location `(x, y)` of channel `c`,
the fill value when that location is outside the image -/
def pixAt {α : Type} (pix : NDArr α) (c : Nat) (x y : Int) (cval : α) : α :=
  match pix.shape with
  | [_, H, W] => if 0 ≤ x ∧ x < (H : Int) ∧ 0 ≤ y ∧ y < (W : Int) then pix.getD [c, x.toNat, y.toNat] cval else cval
  | _ => cval

theorem inRange2 (n k : Nat) (ij : List Nat) (h : inRange [n, k] ij = true) :
    ∃ i j, ij = [i, j] ∧ i < n ∧ j < k := by
  match ij, h with
  | [i, j], h => exact ⟨i, j, rfl, by simp [inRange] at h; omega⟩
  | [], h => simp [inRange] at h
  | [_], h => simp [inRange] at h
  | _ :: _ :: _ :: _, h => simp [inRange] at h

/-- the low corner (row, column) of the window the slicing path reads for centre `i`, offset `j` -/
def sliceLo (ph pw : Nat) (ctr off : Pt) : Int × Int :=
  ((sliceBounds ph ctr.1 off.1).1, (sliceBounds pw ctr.2 off.2).1)

/-- the rounded corners of a window are `ph` (`pw`) apart — true away from rounding ties -/
def Consistent (ph pw : Nat) (ctr off : Pt) : Prop :=
  (sliceBounds ph ctr.1 off.1).2 = (sliceBounds ph ctr.1 off.1).1 + ph ∧
  (sliceBounds pw ctr.2 off.2).2 = (sliceBounds pw ctr.2 off.2).1 + pw

theorem window_elem_eq {α : Type} (pix : NDArr α) (C H W : Nat) (hshape : pix.shape = [C, H, W])
    (ph pw : Nat) (lr lc : Int) (c r q : Nat) (hr : r < ph) (hq : q < pw) (cval : α) :
    (if ((axisPlan H ph lr (lr + ph)).covers r && (axisPlan W pw lc (lc + pw)).covers q) = true then
      pix.getD [c, (axisPlan H ph lr (lr + ph)).src r, (axisPlan W pw lc (lc + pw)).src q] cval else cval) =
    pixAt pix c (lr + r) (lc + q) cval := by
  obtain ⟨hr1, hr2⟩ := (axisPlan_spec H ph lr).2 r hr
  obtain ⟨hq1, hq2⟩ := (axisPlan_spec W pw lc).2 q hq
  simp only [pixAt, hshape]
  by_cases hcr : (axisPlan H ph lr (lr + ph)).covers r = true
  · by_cases hcq : (axisPlan W pw lc (lc + pw)).covers q = true
    · have e1 := hr2 hcr
      have e2 := hq2 hcq
      have i1 := hr1.1 hcr
      have i2 := hq1.1 hcq
      rw [if_pos (by simp [hcr, hcq]), if_pos ⟨i1.1, i1.2, i2.1, i2.2⟩]
      have e1' : (axisPlan H ph lr (lr + ph)).src r = (lr + (r : Int)).toNat := by omega
      have e2' : (axisPlan W pw lc (lc + pw)).src q = (lc + (q : Int)).toNat := by omega
      rw [e1', e2']
    · have : ¬ (0 ≤ lc + (q : Int) ∧ lc + (q : Int) < W) := fun h => hcq (hq1.2 h)
      rw [if_neg (by simp [hcq]), if_neg (by intro h; exact this ⟨h.2.2.1, h.2.2.2⟩)]
  · have : ¬ (0 ≤ lr + (r : Int) ∧ lr + (r : Int) < H) := fun h => hcr (hr1.2 h)
    rw [if_neg (by simp [hcr]), if_neg (by intro h; exact this ⟨h.1, h.2.1⟩)]

/-- PROPERTY (slicing path, pixel exactness and fill): away from rounding ties the slicing path
never raises, returns shape `(centres, offsets, C, ph, pw)` for every `C`, and patch pixel `(r, q)`
is the source pixel at `(lo_r + r, lo_c + q)` when that lies inside the image and `cval` otherwise. -/
theorem extractSlice_spec {α : Type} (pix : NDArr α) (C H W : Nat) (hshape : pix.shape = [C, H, W])
    (centres : List Pt) (ph pw : Nat) (offsets : Option (List Pt)) (cval : α)
    (hcons : ∀ i j, i < centres.length → j < (offsets.getD [(0, 0)]).length →
      Consistent ph pw (getPt centres i) (getPt (offsets.getD [(0, 0)]) j)) :
    ∃ out, extractSlice pix centres ph pw offsets cval = .ok out ∧
      out.shape = [centres.length, (offsets.getD [(0, 0)]).length, C, ph, pw] ∧
      ∀ i j c r q, inRange [centres.length, (offsets.getD [(0, 0)]).length, C, ph, pw] [i, j, c, r, q] = true →
        out.get? [i, j, c, r, q] =
          some (pixAt pix c ((sliceLo ph pw (getPt centres i) (getPt (offsets.getD [(0, 0)]) j)).1 + r)
                            ((sliceLo ph pw (getPt centres i) (getPt (offsets.getD [(0, 0)]) j)).2 + q) cval) := by
  generalize hoffs : offsets.getD [(0, 0)] = offs at hcons ⊢
  unfold extractSlice
  simp only [hshape, hoffs]
  have hall : ((indices [centres.length, offs.length]).all
      (plansOK fun i j => slicePlans H W ph pw (getPt centres i) (getPt offs j))) = true := by
    rw [List.all_eq_true]
    intro ij hij
    obtain ⟨i, j, rfl, hi, hj⟩ := inRange2 _ _ ij ((mem_indices _ _).1 hij)
    obtain ⟨h1, h2⟩ := hcons i j hi hj
    simp only [plansOK, slicePlans, h1, h2, Bool.and_eq_true]
    exact ⟨(axisPlan_spec H ph _).1, (axisPlan_spec W pw _).1⟩
  rw [if_pos hall]
  refine ⟨_, rfl, rfl, ?_⟩
  intro i j c r q hin
  rw [get_ofFn _ _ _ hin]
  simp only [inRange, Bool.and_eq_true, decide_eq_true_eq, Bool.and_true] at hin
  obtain ⟨h1, h2⟩ := hcons i j hin.1 hin.2.1
  simp only [sliceElem, slicePlans, sliceLo]
  simp only [h1, h2]
  exact congrArg some (window_elem_eq pix C H W hshape ph pw _ _ c r q hin.2.2.2.1 hin.2.2.2.2 cval)



theorem zero_lt_half : (0 : Rat) < 1/2 := by decide +kernel

theorem roundHalfEven_intCast (k : Int) : roundHalfEven (k : Rat) = k := by
  simp only [roundHalfEven, Rat.floor_intCast]
  have : (k : Rat) - (k : Rat) = 0 := by grind
  rw [this, if_pos zero_lt_half]

theorem natCast_div_mod (ph : Nat) : (ph : Rat) = 2 * ((ph / 2 : Nat) : Rat) + ((ph % 2 : Nat) : Rat) := by
  have h := Nat.div_add_mod ph 2
  have : ((2 * (ph / 2) + ph % 2 : Nat) : Rat) = (ph : Rat) := by rw [h]
  rw [← this, Rat.natCast_add, Rat.natCast_mul]; rfl

/-- the low corner offset of a window of extent `ph` around an integer centre: `-(ph // 2)` -/
theorem lo_arg (ph : Nat) (c o : Int) :
    (c : Rat) + halfPixel ph + (o : Rat) + -halfExt ph = (((c + o - ((ph / 2 : Nat) : Int) : Int)) : Rat) := by
  have h := natCast_div_mod ph
  simp only [halfPixel, halfExt, Rat.intCast_sub, Rat.intCast_add, Rat.intCast_natCast]
  grind

theorem hi_arg (ph : Nat) (c o : Int) :
    (c : Rat) + halfPixel ph + (o : Rat) + halfExt ph = (((c + o - ((ph / 2 : Nat) : Int) + (ph : Int) : Int)) : Rat) := by
  have h := natCast_div_mod ph
  simp only [halfPixel, halfExt, Rat.intCast_sub, Rat.intCast_add, Rat.intCast_natCast]
  grind

theorem grid_arg (ph a : Nat) (c o : Int) :
    gridCoord ph a + (c : Rat) + (o : Rat) = (((c + o - ((ph / 2 : Nat) : Int) + (a : Int) : Int)) : Rat) := by
  have h := natCast_div_mod ph
  simp only [gridCoord, halfPixel, halfExt, Rat.intCast_sub, Rat.intCast_add, Rat.intCast_natCast]
  grind

/-- at integer centres and offsets the rounded window corners are exact and `ph` apart -/
theorem sliceBounds_int (ph : Nat) (c o : Int) :
    sliceBounds ph (c : Rat) (o : Rat) = (c + o - ((ph / 2 : Nat) : Int), c + o - ((ph / 2 : Nat) : Int) + (ph : Int)) := by
  simp only [sliceBounds, lo_arg, roundHalfEven_intCast]


theorem intCast_lt_zero_iff (x : Int) : (x : Rat) < 0 ↔ x < 0 := by
  have := Rat.intCast_lt_intCast (a := x) (b := 0)
  simpa using this

/-- order-0 constant-mode sampling at an integer location is the reference pixel -/
theorem sample0c_int {α : Type} (pix : NDArr α) (C H W : Nat) (hshape : pix.shape = [C, H, W])
    (c : Nat) (x y : Int) (cval : α) :
    sample0c pix c [(x : Rat), (y : Rat)] cval = pixAt pix c x y cval := by
  simp only [sample0c, pixAt, hshape, List.tail_cons, nearestIdxC, floor_int_add_half,
    intCast_lt_zero_iff, Rat.intCast_lt_intCast]
  by_cases hx : x < 0 ∨ (H : Int) - 1 < x
  · rw [if_pos hx, if_neg (by omega)]
  · rw [if_neg hx]
    by_cases hy : y < 0 ∨ (W : Int) - 1 < y
    · rw [if_pos hy]; simp only [Option.map_none]; rw [if_neg (by omega)]
    · rw [if_neg hy, if_pos (by omega)]; rfl

/-- integer-valued points -/
def toPt (p : Int × Int) : Pt := ((p.1 : Rat), (p.2 : Rat))

theorem getPt_map (l : List (Int × Int)) (i : Nat) : getPt (l.map toPt) i = toPt (l.getD i (0, 0)) := by
  simp only [getPt, List.getD_eq_getElem?_getD, List.getElem?_map]
  cases l[i]? <;> simp [toPt]

/-- the low corner of the window around integer centre `c`, offset `o` -/
def winLo (ph pw : Nat) (c o : Int × Int) : Int × Int :=
  (c.1 + o.1 - ((ph / 2 : Nat) : Int), c.2 + o.2 - ((pw / 2 : Nat) : Int))

theorem consistent_int (ph pw : Nat) (c o : Int × Int) : Consistent ph pw (toPt c) (toPt o) := by
  simp only [Consistent, toPt, sliceBounds_int, and_self]

theorem sliceLo_int (ph pw : Nat) (c o : Int × Int) : sliceLo ph pw (toPt c) (toPt o) = winLo ph pw c o := by
  simp only [sliceLo, toPt, sliceBounds_int, winLo]

theorem samplePt_int (ph pw : Nat) (c o : Int × Int) (a b : Nat) :
    samplePt ph pw (toPt c) (toPt o) a b =
      ((((winLo ph pw c o).1 + (a : Int) : Int) : Rat), (((winLo ph pw c o).2 + (b : Int) : Int) : Rat)) := by
  simp only [samplePt, toPt, grid_arg, winLo]

def offsZ (offsets : Option (List (Int × Int))) : List (Int × Int) := offsets.getD [(0, 0)]

theorem getD_map_offs (offsets : Option (List (Int × Int))) :
    (offsets.map (List.map toPt)).getD [(0, 0)] = (offsZ offsets).map toPt := by
  cases offsets <;> simp [offsZ, toPt]

/-- PROPERTY (both paths, integer centres and offsets): each path returns shape
`(centres, offsets, C, ph, pw)` and patch pixel `(i, j, c, r, q)` is the source pixel at
`(centre_i + offset_j − ⌊(ph, pw)/2⌋ + (r, q))`, the fill value when that lies outside the image. -/
theorem patches_at_integers {α : Type} (pix : NDArr α) (C H W : Nat) (hshape : pix.shape = [C, H, W])
    (cz : List (Int × Int)) (ph pw : Nat) (oz : Option (List (Int × Int))) (cval : α) :
    (∃ out, extractSlice pix (cz.map toPt) ph pw (oz.map (List.map toPt)) cval = .ok out ∧
      out.shape = [cz.length, (offsZ oz).length, C, ph, pw] ∧
      ∀ i j c r q, inRange [cz.length, (offsZ oz).length, C, ph, pw] [i, j, c, r, q] = true →
        out.get? [i, j, c, r, q] = some (pixAt pix c
          ((winLo ph pw (cz.getD i (0, 0)) ((offsZ oz).getD j (0, 0))).1 + r)
          ((winLo ph pw (cz.getD i (0, 0)) ((offsZ oz).getD j (0, 0))).2 + q) cval)) ∧
    (∃ out, extractSampling0c .repaired pix (cz.map toPt) ph pw (oz.map (List.map toPt)) cval = .ok out ∧
      out.shape = [cz.length, (offsZ oz).length, C, ph, pw] ∧
      ∀ i j c r q, inRange [cz.length, (offsZ oz).length, C, ph, pw] [i, j, c, r, q] = true →
        out.get? [i, j, c, r, q] = some (pixAt pix c
          ((winLo ph pw (cz.getD i (0, 0)) ((offsZ oz).getD j (0, 0))).1 + r)
          ((winLo ph pw (cz.getD i (0, 0)) ((offsZ oz).getD j (0, 0))).2 + q) cval)) := by
  constructor
  · obtain ⟨out, h1, h2, h3⟩ := extractSlice_spec pix C H W hshape (cz.map toPt) ph pw (oz.map (List.map toPt)) cval
      (by intro i j _ _; rw [getD_map_offs, getPt_map, getPt_map]; exact consistent_int ph pw _ _)
    rw [getD_map_offs] at h2 h3
    simp only [List.length_map] at h2 h3
    refine ⟨out, h1, h2, ?_⟩
    intro i j c r q hin
    rw [h3 i j c r q hin, getPt_map, getPt_map, sliceLo_int]
  · obtain ⟨out, h1, h2, h3⟩ := sampling_patch_layout (fun c pt => sample0c pix c [pt.1, pt.2] cval) C ph pw
      (cz.map toPt) (oz.map (List.map toPt)) cval
    rw [getD_map_offs] at h2 h3
    simp only [List.length_map] at h2 h3
    refine ⟨out, by simp only [extractSampling0c, hshape]; exact h1, h2, ?_⟩
    intro i j c r q hin
    rw [h3 i j c r q hin, getPt_map, getPt_map, samplePt_int]
    simp only []
    rw [sample0c_int pix C H W hshape]



/-- PROPERTY (path equivalence): at integer centres and offsets the slicing path and the sampling
path (order 0, constant mode, repaired reshape) return the same shape and the same pixels. -/
theorem slice_eq_sampling_at_integers {α : Type} (pix : NDArr α) (C H W : Nat) (hshape : pix.shape = [C, H, W])
    (cz : List (Int × Int)) (ph pw : Nat) (oz : Option (List (Int × Int))) (cval : α) :
    ∃ a b, extractSlice pix (cz.map toPt) ph pw (oz.map (List.map toPt)) cval = .ok a ∧
      extractSampling0c .repaired pix (cz.map toPt) ph pw (oz.map (List.map toPt)) cval = .ok b ∧
      a.shape = b.shape ∧ a.shape = [cz.length, (offsZ oz).length, C, ph, pw] ∧
      ∀ i j c r q, inRange a.shape [i, j, c, r, q] = true → a.get? [i, j, c, r, q] = b.get? [i, j, c, r, q] := by
  obtain ⟨⟨a, ha1, ha2, ha3⟩, ⟨b, hb1, hb2, hb3⟩⟩ := patches_at_integers pix C H W hshape cz ph pw oz cval
  refine ⟨a, b, ha1, hb1, by rw [ha2, hb2], ha2, ?_⟩
  intro i j c r q hin
  rw [ha2] at hin
  rw [ha3 i j c r q hin, hb3 i j c r q hin]

theorem pixAt_outside {α : Type} (pix : NDArr α) (C H W : Nat) (hshape : pix.shape = [C, H, W]) (c : Nat)
    (x y : Int) (cval : α) (hout : x < 0 ∨ (H : Int) ≤ x ∨ y < 0 ∨ (W : Int) ≤ y) : pixAt pix c x y cval = cval := by
  simp only [pixAt, hshape]
  rw [if_neg (by omega)]

theorem pixAt_inside {α : Type} (pix : NDArr α) (C H W : Nat) (hshape : pix.shape = [C, H, W]) (hwf : pix.WF)
    (c : Nat) (hc : c < C) (x y : Int) (cval : α) (hin : 0 ≤ x ∧ x < (H : Int) ∧ 0 ≤ y ∧ y < (W : Int)) :
    pix.get? [c, x.toNat, y.toNat] = some (pixAt pix c x y cval) := by
  simp only [pixAt, hshape]
  rw [if_pos hin]
  obtain ⟨v, hv⟩ := get?_some_of_WF pix hwf [c, x.toNat, y.toNat] (by simp [hshape, inRange]; omega)
  simp [NDArr.getD, hv]

/-- PROPERTY (fill): on both paths, at integer centres and offsets, every patch pixel whose source
location lies outside the image equals the fill value. -/
theorem outside_is_fill {α : Type} (pix : NDArr α) (C H W : Nat) (hshape : pix.shape = [C, H, W])
    (cz : List (Int × Int)) (ph pw : Nat) (oz : Option (List (Int × Int))) (cval : α) :
    ∃ a b, extractSlice pix (cz.map toPt) ph pw (oz.map (List.map toPt)) cval = .ok a ∧
      extractSampling0c .repaired pix (cz.map toPt) ph pw (oz.map (List.map toPt)) cval = .ok b ∧
      ∀ i j c r q, inRange [cz.length, (offsZ oz).length, C, ph, pw] [i, j, c, r, q] = true →
        (let w := winLo ph pw (cz.getD i (0, 0)) ((offsZ oz).getD j (0, 0))
         w.1 + r < 0 ∨ (H : Int) ≤ w.1 + r ∨ w.2 + q < 0 ∨ (W : Int) ≤ w.2 + q) →
        a.get? [i, j, c, r, q] = some cval ∧ b.get? [i, j, c, r, q] = some cval := by
  obtain ⟨⟨a, ha1, _, ha3⟩, ⟨b, hb1, _, hb3⟩⟩ := patches_at_integers pix C H W hshape cz ph pw oz cval
  refine ⟨a, b, ha1, hb1, ?_⟩
  intro i j c r q hin hout
  rw [ha3 i j c r q hin, hb3 i j c r q hin, pixAt_outside pix C H W hshape c _ _ cval hout]
  exact ⟨rfl, rfl⟩

/-- order-0 constant-mode sampling returns the fill value at any location with a coordinate outside
`[0, n − 1]` (fractional locations included) -/
theorem sample0c_outside {α : Type} (pix : NDArr α) (C H W : Nat) (hshape : pix.shape = [C, H, W]) (c : Nat)
    (x y : Rat) (cval : α)
    (hout : x < 0 ∨ ((((H : Int) - 1 : Int)) : Rat) < x ∨ y < 0 ∨ ((((W : Int) - 1 : Int)) : Rat) < y) :
    sample0c pix c [x, y] cval = cval := by
  simp only [sample0c, hshape, List.tail_cons, nearestIdxC]
  by_cases hx : x < 0 ∨ ((((H : Int) - 1 : Int)) : Rat) < x
  · rw [if_pos hx]
  · rw [if_neg hx]
    have hy : y < 0 ∨ ((((W : Int) - 1 : Int)) : Rat) < y := by
      rcases hout with h | h | h | h
      · exact absurd (Or.inl h) hx
      · exact absurd (Or.inr h) hx
      · exact Or.inl h
      · exact Or.inr h
    rw [if_pos hy]; rfl



theorem truncZ_intCast (k : Int) : truncZ (k : Rat) = k := by
  simp only [truncZ, Rat.floor_intCast, Rat.ceil_intCast, ite_self]

/-- the window of centre `c` (offset `o`) lies inside the image -/
def Interior (H W ph pw : Nat) (c o : Int × Int) : Prop :=
  0 ≤ (winLo ph pw c o).1 ∧ (winLo ph pw c o).1 + (ph : Int) ≤ H ∧
  0 ≤ (winLo ph pw c o).2 ∧ (winLo ph pw c o).2 + (pw : Int) ≤ W

theorem pySliceN_window (n ph : Nat) (p : Int) (h0 : 0 ≤ p - ((ph / 2 : Nat) : Int))
    (h1 : p - ((ph / 2 : Nat) : Int) + (ph : Int) ≤ n) :
    pySliceN n (p - ((ph / 2 : Nat) : Int)) (p + ((ph / 2 + ph % 2 : Nat) : Int)) =
      ((p - ((ph / 2 : Nat) : Int)).toNat, (p - ((ph / 2 : Nat) : Int)).toNat + ph) := by
  simp only [pySliceN]
  rw [adjBound_id n _ h0 (by omega), adjBound_id n _ (by omega) (by omega)]
  congr 1
  omega

theorem mem_range_zip {β : Type} (n : Nat) (l : List β) (x : Nat × β) (hx : x ∈ (List.range n).zip l) :
    x.1 < l.length ∧ l[x.1]? = some x.2 := by
  obtain ⟨k, hk, hk2⟩ := List.mem_iff_getElem.1 hx
  have hk' := hk
  simp only [List.length_zip, List.length_range] at hk'
  rw [List.getElem_zip] at hk2
  subst hk2
  simp only [List.getElem_range]
  exact ⟨by omega, by simp⟩

/-- `x` is not a rounding tie -/
def NoTie (x : Rat) : Prop := x - (x.floor : Rat) ≠ 1/2

theorem roundHalfEven_add_int (x : Rat) (n : Int) (h : NoTie x) :
    roundHalfEven (x + (n : Rat)) = roundHalfEven x + n := by
  simp only [roundHalfEven, Rat.floor_add_intCast]
  have e : x + (n : Rat) - ((x.floor + n : Int) : Rat) = x - (x.floor : Rat) := by
    rw [Rat.intCast_add]; grind
  rw [e]
  by_cases h1 : x - (x.floor : Rat) < 1/2
  · rw [if_pos h1, if_pos h1]
  · rw [if_neg h1, if_neg h1]
    have h2 : 1/2 < x - (x.floor : Rat) := by
      unfold NoTie at h
      grind
    rw [if_pos h2, if_pos h2]; omega

/-- away from rounding ties the two rounded corners of the ORIGINAL computation are exactly `ph` apart: there the
original and the repaired bounds coincide -/
theorem sliceBoundsCoded_eq (ph : Nat) (ctr off : Rat)
    (h : NoTie (ctr + halfPixel ph + off + -halfExt ph)) :
    sliceBoundsCoded ph ctr off = sliceBounds ph ctr off := by
  simp only [sliceBoundsCoded, sliceBounds]
  have e : ctr + halfPixel ph + off + halfExt ph = (ctr + halfPixel ph + off + -halfExt ph) + ((ph : Int) : Rat) := by
    simp only [halfExt, Rat.intCast_natCast]; grind
  rw [e, roundHalfEven_add_int _ _ h]

/-- REFUTATION of the original rounding of both corners: at the half-integer centre 5/2 with the odd extent 3 the
two rounded corners are 2 apart, not 3 (the slice assignment then raises ValueError: genuine defect, repaired by
notes/fixes/C13-slice-rounding-tie.diff) -/
theorem sliceBoundsCoded_tie : (sliceBoundsCoded 3 (5/2) 0).2 ≠ (sliceBoundsCoded 3 (5/2) 0).1 + 3 := by decide +kernel

/-- the window of the slicing path always has the patch extent (the high corner is derived from the low one) -/
theorem sliceBounds_consistent (ph : Nat) (ctr off : Rat) :
    (sliceBounds ph ctr off).2 = (sliceBounds ph ctr off).1 + ph := rfl

theorem consistent_all (ph pw : Nat) (ctr off : Pt) : Consistent ph pw ctr off :=
  ⟨sliceBounds_consistent ph _ _, sliceBounds_consistent pw _ _⟩

theorem consistent_of_noTie (ph pw : Nat) (ctr off : Pt)
    (_h1 : NoTie (ctr.1 + halfPixel ph + off.1 + -halfExt ph))
    (_h2 : NoTie (ctr.2 + halfPixel pw + off.2 + -halfExt pw)) : Consistent ph pw ctr off :=
  consistent_all ph pw ctr off


/-- PROPERTY (slicing path, any centres away from rounding ties): never raises, shape
`(centres, offsets, C, ph, pw)` for every channel count, pixel-exact inside, fill value outside. -/
theorem slicing_patch_layout {α : Type} (pix : NDArr α) (C H W : Nat) (hshape : pix.shape = [C, H, W])
    (centres : List Pt) (ph pw : Nat) (offsets : Option (List Pt)) (cval : α)
    (hnt : ∀ i j, i < centres.length → j < (offsets.getD [(0, 0)]).length →
      NoTie ((getPt centres i).1 + halfPixel ph + (getPt (offsets.getD [(0, 0)]) j).1 + -halfExt ph) ∧
      NoTie ((getPt centres i).2 + halfPixel pw + (getPt (offsets.getD [(0, 0)]) j).2 + -halfExt pw)) :
    ∃ out, extractSlice pix centres ph pw offsets cval = .ok out ∧
      out.shape = [centres.length, (offsets.getD [(0, 0)]).length, C, ph, pw] ∧
      ∀ i j c r q, inRange [centres.length, (offsets.getD [(0, 0)]).length, C, ph, pw] [i, j, c, r, q] = true →
        out.get? [i, j, c, r, q] =
          some (pixAt pix c ((sliceLo ph pw (getPt centres i) (getPt (offsets.getD [(0, 0)]) j)).1 + r)
                            ((sliceLo ph pw (getPt centres i) (getPt (offsets.getD [(0, 0)]) j)).2 + q) cval) :=
  extractSlice_spec pix C H W hshape centres ph pw offsets cval
    (fun i j hi hj => consistent_of_noTie ph pw _ _ (hnt i j hi hj).1 (hnt i j hi hj).2)

/-- PROPERTY (patch shape, slicing path, EVERY centre - rounding ties included): the slicing path never raises and
returns shape `(centres, offsets, C, ph, pw)` for every channel count; every element is the source pixel of its window
position (window low corner = the rounded low corner), the fill value outside the image -/
theorem slicing_patch_layout_all {α : Type} (pix : NDArr α) (C H W : Nat) (hshape : pix.shape = [C, H, W])
    (centres : List Pt) (ph pw : Nat) (offsets : Option (List Pt)) (cval : α) :
    ∃ out, extractSlice pix centres ph pw offsets cval = .ok out ∧
      out.shape = [centres.length, (offsets.getD [(0, 0)]).length, C, ph, pw] ∧
      ∀ i j c r q, inRange [centres.length, (offsets.getD [(0, 0)]).length, C, ph, pw] [i, j, c, r, q] = true →
        out.get? [i, j, c, r, q] =
          some (pixAt pix c ((sliceLo ph pw (getPt centres i) (getPt (offsets.getD [(0, 0)]) j)).1 + r)
                            ((sliceLo ph pw (getPt centres i) (getPt (offsets.getD [(0, 0)]) j)).2 + q) cval) :=
  extractSlice_spec pix C H W hshape centres ph pw offsets cval (fun _ _ _ _ => consistent_all ph pw _ _)

/-- `Image.crop` is the bounds decision followed by the translation warp -/
theorem crop_eq {α : Type} (v : Variant) (pix : NDArr α) (mn mx : List Rat) (constrain : Bool) (zero : α)
    (lms : List (List Rat)) :
    crop v pix mn mx constrain zero lms =
      (cropBounds v pix.shape.tail mn mx constrain).map fun axes =>
        (cropPixels pix axes zero, cropLandmarks axes lms) := by
  unfold crop
  cases cropBounds v pix.shape.tail mn mx constrain <;> rfl

theorem mkAxes_spec : ∀ (shape : List Nat) (mn mx : List Rat), mn.length = shape.length → mx.length = shape.length →
    (mkAxes shape mn mx).map Axis.n = shape ∧ (mkAxes shape mn mx).map Axis.lo = mn.map Rat.floor ∧
    (mkAxes shape mn mx).map Axis.hi = mx.map Rat.ceil := by
  intro shape
  induction shape with
  | nil => intro mn mx h1 h2; cases mn <;> cases mx <;> simp_all [mkAxes]
  | cons n s ih =>
    intro mn mx h1 h2
    cases mn with
    | nil => simp at h1
    | cons a mn =>
      cases mx with
      | nil => simp at h2
      | cons b mx =>
        obtain ⟨i1, i2, i3⟩ := ih mn mx (by simpa using h1) (by simpa using h2)
        simp [mkAxes, i1, i2, i3]


/-- PROPERTY (crop, whole statement for the repaired decision): a well-formed request on an image of
spatial shape `shape` is refused with `ImageBoundaryError` exactly when it leaves the image and
constraining is disabled; otherwise the result has extent `hiB − loB` per axis (the request itself
when it is inside, its intersection with the image otherwise), pixel `(c, p)` is source pixel
`(c, p + loB)` for every channel, and the landmarks are shifted by `loB`. -/
theorem crop_spec {α : Type} (pix : NDArr α) (C : Nat) (shape : List Nat) (mn mx : List Rat) (constrain : Bool)
    (zero : α) (lms : List (List Rat)) (hshape : pix.shape = C :: shape) (hwf : pix.WF)
    (hlen : mn.length = shape.length ∧ mx.length = shape.length)
    (hpos : ∀ a ∈ mkAxes shape mn mx, a.lo < a.hi) :
    (crop .repaired pix mn mx constrain zero lms = .error .boundary ↔
      (constrain = false ∧ ¬ ∀ a ∈ mkAxes shape mn mx, a.inside)) ∧
    (¬(constrain = false ∧ ¬ ∀ a ∈ mkAxes shape mn mx, a.inside) →
      ∃ out, crop .repaired pix mn mx constrain zero lms = .ok (out, cropLandmarks (mkAxes shape mn mx) lms) ∧
        out.shape = C :: (mkAxes shape mn mx).map Axis.len ∧
        ∀ c p, c < C → inRange ((mkAxes shape mn mx).map Axis.len) p = true →
          out.get? (c :: p) = pix.get? (c :: shiftIdx p (mkAxes shape mn mx)) ∧ (out.get? (c :: p)).isSome = true) := by
  have hb := cropBounds_ok_or .repaired shape mn mx constrain hlen hpos
  have hr := raises_repaired constrain (mkAxes shape mn mx) hpos
  have hn := (mkAxes_spec shape mn mx hlen.1 hlen.2).1
  rw [crop_eq, hshape, List.tail_cons, hb]
  by_cases h : raises .repaired constrain (mkAxes shape mn mx) = true
  · rw [if_pos h]
    exact ⟨⟨fun _ => hr.1 h, fun _ => rfl⟩, fun hno => absurd (hr.1 h) hno⟩
  · rw [if_neg h]
    refine ⟨⟨fun he => (by cases he), fun hc => absurd (hr.2 hc) h⟩, fun _ => ?_⟩
    obtain ⟨e1, e2⟩ := crop_exact pix C (mkAxes shape mn mx) zero (by rw [hshape, hn]) hwf
    exact ⟨_, rfl, e1, e2⟩


/-! ### non-vacuity: the hypotheses of the theorems are satisfiable on concrete, non-trivial values -/

def exImg : NDArr Int := ofFn [2, 6, 7] fun idx => match idx with
  | [c, r, q] => ((c * 42 + r * 7 + q : Nat) : Int)
  | _ => 0

example : exImg.WF := ofFn_WF _ _
example : exImg.shape = [2, 6, 7] := rfl
-- a fractional in-bounds request: rows ⌊3/2⌋..⌈3⌉, columns ⌊1⌋..⌈9/2⌉
example : cropBounds .repaired [6, 7] [3/2, 1] [3, 9/2] false = .ok [⟨6, 1, 3⟩, ⟨7, 1, 5⟩] := by decide +kernel
example : ∀ a ∈ mkAxes [6, 7] [3/2, 1] [3, 9/2], a.inside := by decide +kernel
example : ∀ a ∈ mkAxes [6, 7] [3/2, 1] [3, 9/2], a.lo < a.hi := by decide +kernel
example : ((crop .repaired exImg [3/2, 1] [3, 9/2] false 0 [[2, 3]]).toOption.map fun r => (r.1.shape, r.1.data, r.2)) =
    some ([2, 2, 4], [8, 9, 10, 11, 15, 16, 17, 18, 50, 51, 52, 53, 57, 58, 59, 60], [[1, 2]]) := by decide +kernel
-- a request leaving the image at the top only: clipped when allowed, refused otherwise (repaired)
example : ¬ ∀ a ∈ mkAxes [6, 7] [-2, 1] [3, 4], a.inside := by decide +kernel
example : ((crop .repaired exImg [-2, 1] [3, 4] true 0 []).toOption.map fun r => r.1.shape) = some [2, 3, 3] := by
  decide +kernel
-- patches: integer centres, one interior, one at the corner (outside pixels take the fill value −1)
example : ((extractSlice exImg [(2, 3), (0, 0)] 3 2 none (-1)).toOption.map fun p => (p.shape, p.data)) =
    some ([2, 1, 2, 3, 2], [9, 10, 16, 17, 23, 24, 51, 52, 58, 59, 65, 66,
                            -1, -1, -1, 0, -1, 7, -1, -1, -1, 42, -1, 49]) := by decide +kernel
example : extractSlice exImg [(2, 3), (0, 0)] 3 2 none (-1) =
    extractSampling0c .repaired exImg [(2, 3), (0, 0)] 3 2 none (-1) := by decide +kernel
example : extractSampling0c .coded exImg [(2, 3), (0, 0)] 3 2 none (-1) = .error .value := by decide +kernel
-- a half-integer centre with an odd extent (the audit's case): a full (3, 2) window, rows 2..4
example : ((extractSlice exImg [(5/2, 3)] 3 2 none 0).toOption.map fun p => (p.shape, p.data)) =
    some ([1, 1, 2, 3, 2], [16, 17, 23, 24, 30, 31, 58, 59, 65, 66, 72, 73]) := by decide +kernel
example : NoTie (27/10 + halfPixel 3 + 0 + -halfExt 3) := by unfold NoTie; decide +kernel
example : ¬ NoTie (5/2 + halfPixel 3 + 0 + -halfExt 3) := by unfold NoTie; decide +kernel

end MenpoModel.C13
