/-
C12 — the coded covariances, `_covariance_matrix_inverse` and the two constructors (`Core/C12Src.lean`) against the
executable model (`Core/C12GMRF.lean`): `edgeCov_eq` / `vertexCov_eq` (the array handed to `np.cov` is the model's
`edgeData` / `vertexData`), `covInverseCoded_none` (`np.linalg.inv` branch = the model's checked exact inverse, also for a
single feature thanks to `np.atleast_2d`), `covInverseCoded_some` (the truncated-SVD formula = the model's `svdTrunc`),
`vecInit_dense_eq_build` / `vecInit_sparse_build` (`GMRFVectorModel.__init__` = the model's `build`).
-/
import MenpoModel.Lemmas.C12SrcLoops
import MenpoModel.Lemmas.C12Quad
import MenpoModel.Lemmas.C12Bsr

set_option linter.unusedSimpArgs false
set_option linter.unusedVariables false

namespace MenpoModel.C12.Src
open MenpoModel.C12 MenpoModel.Py

/-! ### the covariance of an edge / vertex block -/

/-- what `np.cov` returns for a `d × d` covariance `C`: 0-dimensional when `d = 1` -/
def arrOf (d : Nat) (C : Mat) : Arr := if d = 1 then .scalar (ent C 0 0) else .mat C

theorem npCov_tab (N d : Nat) (f : Nat → Nat → Rat) (bias : Bool) (hN : 0 < N) :
    npCov (tab N d f) bias = arrOf d (covMat (tab N d f) N d bias) := by
  unfold npCov arrOf
  rw [tab_length, rowLen_tab N d f hN]
  split
  · rename_i h; subst h; rfl
  · rfl

theorem getD_two_ranges (a c k p : Nat) (hp : p < 2 * k) :
    (List.range' a k ++ List.range' c k).getD p 0 = if p < k then a + p else c + (p - k) := by
  rw [List.getD_eq_getElem?_getD]
  by_cases h : p < k
  · rw [if_pos h, List.getElem?_append_left (by simp [h])]
    simp [List.getElem?_range', h]
  · rw [if_neg h, List.getElem?_append_right (by simp; omega)]
    have : p - k < k := by omega
    simp [List.getElem?_range', this]

/-- `X[:, list(range(v1·k, (v1+1)·k)) + list(range(v2·k, (v2+1)·k))]` is the model's concatenated edge data -/
theorem takeCols_eq_edgeData (k : Nat) (X : Mat) (e : Nat × Nat) :
    takeCols X (pyRange (e.1 * k) ((e.1 + 1) * k) ++ pyRange (e.2 * k) ((e.2 + 1) * k)) =
      edgeData .concat k X X.length e := by
  unfold takeCols edgeData pyRange
  have h1 : (e.1 + 1) * k - e.1 * k = k := by rw [Nat.succ_mul]; omega
  have h2 : (e.2 + 1) * k - e.2 * k = k := by rw [Nat.succ_mul]; omega
  rw [h1, h2]
  have hl : (List.range' (e.1 * k) k ++ List.range' (e.2 * k) k).length = Mode.concat.dim k := by
    simp [Mode.dim]; omega
  rw [hl]
  apply tab_congr
  intro i p _ hp
  simp only [Mode.dim] at hp
  rw [getD_two_ranges _ _ _ _ hp]
  unfold edgeVec
  simp only
  split <;> rfl

theorem sliceCols_eq (X : Mat) (v k : Nat) (h : (v + 1) * k ≤ rowLen X) :
    sliceCols X (v * k) ((v + 1) * k) = tab X.length k fun i p => ent X i (v * k + p) := by
  unfold sliceCols
  have : min ((v + 1) * k) (rowLen X) - v * k = k := by
    rw [Nat.min_eq_left h, Nat.succ_mul]; omega
  rw [this]

/-- `X[:, v1 block] - X[:, v2 block]` is the model's difference edge data -/
theorem subCols_eq_edgeData (k : Nat) (X : Mat) (e : Nat × Nat) (hN : 0 < X.length)
    (h1 : (e.1 + 1) * k ≤ rowLen X) (h2 : (e.2 + 1) * k ≤ rowLen X) :
    sliceCols X (e.1 * k) ((e.1 + 1) * k) - sliceCols X (e.2 * k) ((e.2 + 1) * k) = edgeData .sub k X X.length e := by
  rw [sliceCols_eq X e.1 k h1, sliceCols_eq X e.2 k h2]
  show tab (tab X.length k _).length (rowLen (tab X.length k _)) _ = _
  rw [tab_length, rowLen_tab _ _ _ hN]
  unfold edgeData
  apply tab_congr
  intro i p hi hp
  have hp' : p < k := hp
  rw [ent_tab, ent_tab, if_pos ⟨hi, hp'⟩, if_pos ⟨hi, hp'⟩]
  rfl

/-- **the covariance `_create_*_precision` computes for an edge is the model's** (`np.cov` of the model's edge data,
0-dimensional for a single column) -/
theorem edgeCov_eq (m : Mode) (k : Nat) (X : Mat) (g : GraphS) (bias : Bool) (e : Nat) (hN : 0 < X.length)
    (h1 : ((g.edgeAt e).1 + 1) * k ≤ rowLen X) (h2 : ((g.edgeAt e).2 + 1) * k ≤ rowLen X) :
    edgeCov X g k (toS m) bias e =
      arrOf (m.dim k) (covMat (edgeData m k X X.length (g.edgeAt e)) X.length (m.dim k) bias) := by
  cases m with
  | concat =>
    show npCov (takeCols X _) bias = _
    rw [takeCols_eq_edgeData]
    exact npCov_tab _ _ _ bias hN
  | sub =>
    show npCov (sliceCols X _ _ - sliceCols X _ _) bias = _
    rw [subCols_eq_edgeData k X _ hN h1 h2]
    exact npCov_tab _ _ _ bias hN

theorem vertexCov_eq (k : Nat) (X : Mat) (bias : Bool) (v : Nat) (hN : 0 < X.length) (h : (v + 1) * k ≤ rowLen X) :
    vertexCov X k bias v = arrOf k (covMat (vertexData k X X.length v) X.length k bias) := by
  unfold vertexCov
  rw [sliceCols_eq X v k h]
  exact npCov_tab _ _ _ bias hN

/-! ### `_covariance_matrix_inverse` -/

theorem isTab_covMat (D : Mat) (N d : Nat) (bias : Bool) : IsTab d d (covMat D N d bias) := isTab_tab _ _ _

theorem atleast2d_arrOf (d : Nat) (C : Mat) (hC : IsTab d d C) : atleast2d (arrOf d C) = .mat C := by
  unfold arrOf
  split
  · rename_i h
    subst h
    show Arr.mat [[ent C 0 0]] = Arr.mat C
    conv_rhs => rw [hC]
    rfl
  · rfl

theorem isTab_invChecked (C : Mat) (d : Nat) (B : Mat) (h : invChecked C d = some B) : IsTab d d B := by
  unfold invChecked at h
  split at h
  · exact absurd h (by simp)
  · split at h
    · injection h with h; subst h; exact isTab_tab _ _ _
    · exact absurd h (by simp)

/-- an optional block as the result of an inversion that may raise -/
def okOr {β : Type} (o : Option β) : Except PyErr β :=
  match o with
  | some B => .ok B
  | none => .error .singular

theorem npInv_mat (C : Mat) : npInv (.mat C) = okOr (invChecked C C.length) := by
  unfold npInv okOr
  simp only
  cases h : invChecked C C.length <;> simp [h]

/-- **`n_components=None`**: `np.atleast_2d`, then `np.linalg.inv` — the model's checked exact inverse, also when the
covariance came back 0-dimensional (a single feature) -/
theorem covInverseCoded_none (svd : Mat → Option (Mat × List Rat × Mat)) (d : Nat) (C : Mat) (hC : IsTab d d C) :
    covInverseCoded svd (arrOf d C) none = okOr (invChecked C d) := by
  unfold covInverseCoded
  simp only [Option.isNone_none, if_true]
  rw [atleast2d_arrOf d C hC, npInv_mat, hC.length]

/-- without `np.atleast_2d` (the code before the repair) a single feature cannot be inverted -/
theorem npInv_scalar_refused (x : Rat) : npInv (.scalar x) = .error .linAlg0d := rfl

theorem covInverseCoded_none_shape (svd : Mat → Option (Mat × List Rat × Mat)) (d : Nat) (C : Mat) (hC : IsTab d d C)
    (B : Mat) (h : covInverseCoded svd (arrOf d C) none = .ok B) : IsTab d d B := by
  rw [covInverseCoded_none svd d C hC] at h
  unfold okOr at h
  split at h
  · rename_i B' hB'
    injection h with h; subst h
    exact isTab_invChecked C d _ hB'
  · exact absurd h (by simp)

/-! ### the constructors against the model's `build` -/

theorem collectL_congr {ε β : Type} (f f' : Nat → Except ε β) (xs : List Nat) (h : ∀ e ∈ xs, f e = f' e) :
    collectL f xs = collectL f' xs := by
  induction xs with
  | nil => rfl
  | cons x xs ih =>
    unfold collectL
    rw [h x (by simp), ih (fun e he => h e (by simp [he]))]

theorem collectL_okOr {α β : Type} (F : α → Option β) (l : List α) (d : α) :
    collectL (fun i => okOr (F (l.getD i d))) (List.range l.length) = okOr (mapM? F l) := by
  have hgen : ∀ (xs : List Nat) , collectL (fun i => okOr (F (l.getD i d))) xs = okOr (mapM? F (xs.map fun i => l.getD i d)) := by
    intro xs
    induction xs with
    | nil => rfl
    | cons x xs ih =>
      unfold collectL
      simp only [List.map_cons, mapM?]
      rw [ih]
      cases F (l.getD x d) <;> cases mapM? F (List.map (fun i => l.getD i d) xs) <;> rfl
  rw [hgen, map_getD_range]

/-- the per-edge inversions of the coded constructors (with the coded `_covariance_matrix_inverse`,
`n_components=None`) are the model's `edgeBlocks` -/
theorem collect_edges (m : Mode) (k V : Nat) (X : Mat) (g : GraphS) (bias : Bool)
    (svd : Mat → Option (Mat × List Rat × Mat)) (hN : 0 < X.length) (hW : rowLen X = V * k)
    (hv : ∀ e ∈ g.edges, e.1 < V ∧ e.2 < V) :
    collectL (fun e => covInverseCoded svd (edgeCov X g k (toS m) bias e) none) (List.range g.nEdges) =
      okOr (edgeBlocks m k X X.length bias g.edges) := by
  unfold edgeBlocks
  rw [← collectL_okOr _ g.edges (0, 0)]
  apply collectL_congr
  intro e he
  have hlt : e < g.edges.length := List.mem_range.1 he
  have hmem : g.edgeAt e ∈ g.edges := by
    unfold GraphS.edgeAt
    rw [List.getD_eq_getElem?_getD, List.getElem?_eq_getElem hlt]
    exact List.getElem_mem hlt
  obtain ⟨h1, h2⟩ := hv _ hmem
  have b1 : ((g.edgeAt e).1 + 1) * k ≤ rowLen X := by rw [hW]; exact Nat.mul_le_mul_right k h1
  have b2 : ((g.edgeAt e).2 + 1) * k ≤ rowLen X := by rw [hW]; exact Nat.mul_le_mul_right k h2
  rw [edgeCov_eq m k X g bias e hN b1 b2, covInverseCoded_none svd _ _ (isTab_covMat _ _ _ _)]
  rfl

theorem collect_vertices (k V : Nat) (X : Mat) (bias : Bool) (svd : Mat → Option (Mat × List Rat × Mat))
    (hN : 0 < X.length) (hW : rowLen X = V * k) :
    collectL (fun v => covInverseCoded svd (vertexCov X k bias v) none) (List.range V) =
      okOr (vertexBlocks k X X.length bias V) := by
  unfold vertexBlocks
  have h := collectL_okOr (fun v => invChecked (covMat (vertexData k X X.length v) X.length k bias) k) (List.range V) 0
  rw [List.length_range] at h
  rw [← h]
  apply collectL_congr
  intro v hv
  have hlt : v < V := List.mem_range.1 hv
  have b : (v + 1) * k ≤ rowLen X := by rw [hW]; exact Nat.mul_le_mul_right k hlt
  rw [vertexCov_eq k X bias v hN b, covInverseCoded_none svd _ _ (isTab_covMat _ _ _ _)]
  have : (List.range V).getD v 0 = v := by simp [List.getD_eq_getElem?_getD, hlt]
  rw [this]

theorem edge_shape (m : Mode) (k V : Nat) (X : Mat) (g : GraphS) (bias : Bool)
    (svd : Mat → Option (Mat × List Rat × Mat)) (hN : 0 < X.length) (hW : rowLen X = V * k)
    (hv : ∀ e ∈ g.edges, e.1 < V ∧ e.2 < V) (e : Nat) (he : e < g.nEdges) (B : Mat)
    (h : covInverseCoded svd (edgeCov X g k (toS m) bias e) none = .ok B) : IsTab (m.dim k) (m.dim k) B := by
  have hmem : g.edgeAt e ∈ g.edges := by
    unfold GraphS.edgeAt
    rw [List.getD_eq_getElem?_getD, List.getElem?_eq_getElem he]
    exact List.getElem_mem he
  obtain ⟨h1, h2⟩ := hv _ hmem
  have b1 : ((g.edgeAt e).1 + 1) * k ≤ rowLen X := by rw [hW]; exact Nat.mul_le_mul_right k h1
  have b2 : ((g.edgeAt e).2 + 1) * k ≤ rowLen X := by rw [hW]; exact Nat.mul_le_mul_right k h2
  rw [edgeCov_eq m k X g bias e hN b1 b2] at h
  exact covInverseCoded_none_shape svd _ _ (isTab_covMat _ _ _ _) B h

theorem vertex_shape (k V : Nat) (X : Mat) (bias : Bool) (svd : Mat → Option (Mat × List Rat × Mat))
    (hN : 0 < X.length) (hW : rowLen X = V * k) (v : Nat) (hv : v < V) (B : Mat)
    (h : covInverseCoded svd (vertexCov X k bias v) none = .ok B) : IsTab k k B := by
  have b : (v + 1) * k ≤ rowLen X := by rw [hW]; exact Nat.mul_le_mul_right k hv
  rw [vertexCov_eq k X bias v hN b] at h
  exact covInverseCoded_none_shape svd _ _ (isTab_covMat _ _ _ _) B h

/-- the attributes `GMRFVectorModel.__init__` sets on an `N × V·k` data array, with the precision `S` -/
def expectedVec (m : Mode) (k V N : Nat) (X : Mat) (es : List (Nat × Nat)) (ns : Option Nat) (dtype : DType)
    (sparse bias : Bool) (S : Storage) : VecModel :=
  ⟨if ns.isNone then some N else ns, V * k, k, ⟨es, V⟩, toS m, none, sparse, dtype, bias, false, meanVec X N (V * k), S,
    none⟩

theorem vecInit_unfold (cinv : Arr → Option Nat → Except PyErr Mat) (argsort : List Nat → List Nat) (X : Mat)
    (g : GraphS) (ns : Option Nat) (mode : ModeS) (nc : Option Nat) (dtype : DType) (sparse bias : Bool) (k : Nat)
    (hk : rowLen X / g.nVertices = k) :
    vecInitCoded cinv argsort (.arr2 X) g ns mode nc dtype sparse bias false =
      ((callCtorCoded cinv argsort (ctorSel g sparse mode) false X g (rowLen X) k dtype nc bias).bind
          CtorOut.asMatrix).map
        (fun S => ⟨if ns.isNone then some X.length else ns, rowLen X, k, g, mode, nc, sparse, dtype, bias, false,
            meanVec X X.length (rowLen X), S, none⟩) := by
  unfold vecInitCoded
  subst hk
  simp only [Bool.false_eq_true, if_false]
  have hd : dataToMatrixCoded (PyData.arr2 X) ns = (PyData.arr2 X, if ns.isNone then some X.length else ns) := rfl
  simp only [hd, PyData.toMat, PyData.shape1, PyData.mean0]
  generalize (callCtorCoded cinv argsort (ctorSel g sparse mode) false X g (rowLen X) (rowLen X / g.nVertices) dtype nc
    bias).bind CtorOut.asMatrix = r
  cases r <;> rfl

theorem callCtor_asMatrix (cinv : Arr → Option Nat → Except PyErr Mat) (argsort : List Nat → List Nat) (X : Mat)
    (g : GraphS) (n k : Nat) (dtype : DType) (nc : Option Nat) (bias : Bool) (m : ModeS) :
    (callCtorCoded cinv argsort .denseDiag false X g n k dtype nc bias).bind CtorOut.asMatrix =
      (denseDiagCoded cinv X g n k dtype nc bias).map Storage.dense ∧
    (callCtorCoded cinv argsort (.denseEdges m) false X g n k dtype nc bias).bind CtorOut.asMatrix =
      (denseCoded cinv X g n k m dtype nc bias).map Storage.dense ∧
    (callCtorCoded cinv argsort .sparseDiag false X g n k dtype nc bias).bind CtorOut.asMatrix =
      (sparseDiagCoded cinv argsort X g n k dtype nc bias).map (Storage.bsr n k) ∧
    (callCtorCoded cinv argsort (.sparseEdges m) false X g n k dtype nc bias).bind CtorOut.asMatrix =
      (sparseCoded cinv argsort X g n k m dtype nc bias).map (Storage.bsr n k) := by
  refine ⟨?_, ?_, ?_, ?_⟩
  · show (Except.map _ (denseDiagCoded cinv X g n k dtype nc bias)).bind CtorOut.asMatrix = _
    cases denseDiagCoded cinv X g n k dtype nc bias <;> rfl
  · show (Except.map _ (denseCoded cinv X g n k m dtype nc bias)).bind CtorOut.asMatrix = _
    cases denseCoded cinv X g n k m dtype nc bias <;> rfl
  · show (Except.map _ (sparseDiagCoded cinv argsort X g n k dtype nc bias)).bind CtorOut.asMatrix = _
    cases sparseDiagCoded cinv argsort X g n k dtype nc bias <;> rfl
  · show (Except.map _ (sparseCoded cinv argsort X g n k m dtype nc bias)).bind CtorOut.asMatrix = _
    cases sparseCoded cinv argsort X g n k m dtype nc bias <;> rfl

theorem ctorSel_cases (es : List (Nat × Nat)) (V : Nat) (sparse : Bool) (mode : ModeS) :
    ctorSel ⟨es, V⟩ sparse mode =
      if es.isEmpty then (if sparse then .sparseDiag else .denseDiag)
      else (if sparse then .sparseEdges mode else .denseEdges mode) := by
  unfold ctorSel GraphS.nEdges
  cases es <;> simp

/-- **`GMRFVectorModel(X, graph, mode=…, sparse=False, bias=…)` is the model's `build`** (dense storage, exact data,
`n_components=None`), IN EXACT ARITHMETIC: it raises `LinAlgError` exactly when the model finds a singular covariance
(floating-point `np.linalg.inv` raises only on an exact zero pivot; ill-conditioned data are outside the property's
quantifier and are rejected by the generator) and otherwise sets the
attributes of `expectedVec` with the model's dense precision -/
theorem vecInit_dense_eq_build (m : Mode) (k V : Nat) (X : Mat) (es : List (Nat × Nat)) (bias : Bool)
    (svd : Mat → Option (Mat × List Rat × Mat)) (argsort : List Nat → List Nat) (ns : Option Nat) (dtype : DType)
    (hV : 0 < V) (hN : 0 < X.length) (hW : rowLen X = V * k) (hv : ∀ e ∈ es, e.1 < V ∧ e.2 < V) :
    vecInitCoded (covInverseCoded svd) argsort (.arr2 X) ⟨es, V⟩ ns (toS m) none dtype false bias false =
      (okOr (build m k V X X.length bias es)).map
        (fun M => expectedVec m k V X.length X es ns dtype false bias (.dense M.denseP)) := by
  have hk : rowLen X / (GraphS.mk es V).nVertices = k := by
    show rowLen X / V = k
    rw [hW, Nat.mul_div_cancel_left k hV]
  rw [vecInit_unfold _ _ _ _ _ _ _ _ _ _ k hk, hW, ctorSel_cases]
  obtain ⟨c1, c2, _, _⟩ := callCtor_asMatrix (covInverseCoded svd) argsort X ⟨es, V⟩ (V * k) k dtype none bias (toS m)
  unfold build
  cases hes : es.isEmpty with
  | true =>
    simp only [if_true, Bool.false_eq_true, if_false]
    rw [c1, denseDiagCoded_eq _ X ⟨es, V⟩ (V * k) k dtype none bias
      (fun v hvV B hB => vertex_shape k V X bias svd hN hW v hvV B hB)]
    have := collect_vertices k V X bias svd hN hW
    simp only [GraphS.nVertices] at this ⊢
    rw [this]
    cases vertexBlocks k X X.length bias V with
    | none => rfl
    | some Bs => rfl
  | false =>
    simp only [Bool.false_eq_true, if_false]
    rw [c2, denseCoded_eq m _ X ⟨es, V⟩ (V * k) k dtype none bias
      (fun e he B hB => edge_shape m k V X ⟨es, V⟩ bias svd hN hW hv e he B hB)]
    have := collect_edges m k V X ⟨es, V⟩ bias svd hN hW hv
    simp only [GraphS.nEdges] at this ⊢
    rw [this]
    cases edgeBlocks m k X X.length bias es with
    | none => rfl
    | some Bs => rfl

/-- the inverted covariances of the model's `build`: one per vertex for an edgeless graph, one per edge otherwise -/
def blocksOf (m : Mode) (k V : Nat) (X : Mat) (N : Nat) (bias : Bool) (es : List (Nat × Nat)) : Option (List Mat) :=
  if es.isEmpty then vertexBlocks k X N bias V else edgeBlocks m k X N bias es

/-- the triplets both sparse constructors store -/
def tripsOf (m : Mode) (k : Nat) (es : List (Nat × Nat)) (Bs : List Mat) : List Trip :=
  if es.isEmpty then diagTrips k 0 Bs else allTrips m k es Bs

theorem build_eq_blocks (m : Mode) (k V : Nat) (X : Mat) (N : Nat) (bias : Bool) (es : List (Nat × Nat)) :
    build m k V X N bias es = (blocksOf m k V X N bias es).map fun Bs =>
      ⟨if es.isEmpty then denseDiag k (V * k) Bs else dense m k (V * k) es Bs, assemble V (tripsOf m k es Bs),
        meanVec X N (V * k)⟩ := by
  unfold build blocksOf tripsOf
  cases hes : es.isEmpty with
  | true =>
    simp only [if_true]
    cases vertexBlocks k X N bias V <;> rfl
  | false =>
    simp only [Bool.false_eq_true, if_false]
    cases edgeBlocks m k X N bias es <;> rfl

/-- **`GMRFVectorModel(X, graph, mode=…, sparse=True, bias=…)`**: the same inverted covariances as the model's `build`
(so it raises exactly when `build` fails), stored as the model's triplets and assembled by the model's `assembleSorted`
after the re-ordering `rows.argsort()` gives -/
theorem vecInit_sparse_eq (m : Mode) (k V : Nat) (X : Mat) (es : List (Nat × Nat)) (bias : Bool)
    (svd : Mat → Option (Mat × List Rat × Mat)) (argsort : List Nat → List Nat) (ns : Option Nat) (dtype : DType)
    (hV : 0 < V) (hN : 0 < X.length) (hW : rowLen X = V * k) (hv : ∀ e ∈ es, e.1 < V ∧ e.2 < V) :
    vecInitCoded (covInverseCoded svd) argsort (.arr2 X) ⟨es, V⟩ ns (toS m) none dtype true bias false =
      (okOr (blocksOf m k V X X.length bias es)).map
        (fun Bs => expectedVec m k V X.length X es ns dtype true bias
          (.bsr (V * k) k (assembleSorted V (permT (tripsOf m k es Bs) (argsort ((tripsOf m k es Bs).map (·.row))))))) := by
  have hk : rowLen X / (GraphS.mk es V).nVertices = k := by
    show rowLen X / V = k
    rw [hW, Nat.mul_div_cancel_left k hV]
  rw [vecInit_unfold _ _ _ _ _ _ _ _ _ _ k hk, hW, ctorSel_cases]
  obtain ⟨_, _, c3, c4⟩ := callCtor_asMatrix (covInverseCoded svd) argsort X ⟨es, V⟩ (V * k) k dtype none bias (toS m)
  unfold blocksOf tripsOf
  cases hes : es.isEmpty with
  | true =>
    simp only [if_true, ite_true]
    rw [c3, sparseDiagCoded_eq _ argsort X ⟨es, V⟩ (V * k) k dtype none bias
      (fun v hvV B hB => vertex_shape k V X bias svd hN hW v hvV B hB)]
    have := collect_vertices k V X bias svd hN hW
    simp only [GraphS.nVertices] at this ⊢
    rw [this]
    cases vertexBlocks k X X.length bias V with
    | none => rfl
    | some Bs => rfl
  | false =>
    simp only [Bool.false_eq_true, if_false, if_true, ite_true]
    rw [c4, sparseCoded_eq m _ argsort X ⟨es, V⟩ (V * k) k dtype none bias
      (fun e he B hB => edge_shape m k V X ⟨es, V⟩ bias svd hN hW hv e he B hB)]
    have := collect_edges m k V X ⟨es, V⟩ bias svd hN hW hv
    simp only [GraphS.nEdges] at this ⊢
    rw [this]
    cases edgeBlocks m k X X.length bias es with
    | none => rfl
    | some Bs => rfl

/-! ### numpy's `argsort` as a contract -/

/-- what `rows.argsort()` promises: a permutation of the positions that lists the rows in ascending order (numpy's
default sort is not stable: nothing is said about ties) -/
def ArgsortOK (argsort : List Nat → List Nat) (rows : List Nat) : Prop :=
  (argsort rows).Perm (List.range rows.length) ∧ ((argsort rows).map fun i => rows.getD i 0).Pairwise (· ≤ ·)

theorem permT_perm (ts : List Trip) (p : List Nat) (hp : p.Perm (List.range ts.length)) : (permT ts p).Perm ts := by
  unfold permT
  have := List.Perm.map (fun i => ts.getD i default) hp
  rw [map_getD_range] at this
  exact this

theorem permT_sorted (ts : List Trip) (p : List Nat)
    (hs : (p.map fun i => (ts.map (·.row)).getD i 0).Pairwise (· ≤ ·)) :
    (permT ts p).Pairwise (fun a b => a.row ≤ b.row) := by
  unfold permT
  rw [List.pairwise_map] at hs ⊢
  apply List.Pairwise.imp _ hs
  intro a b hab
  have e : ∀ i, (ts.map (·.row)).getD i 0 = (ts.getD i default).row := fun i => getD_map' (·.row) ts i default
  rw [e a, e b] at hab
  exact hab

/-- **the block-sparse-row matrix the coded constructors assemble denotes the sum of the stored triplets**, for every
`argsort` that keeps numpy's promise -/
theorem coded_bsr_denotes_sum (argsort : List Nat → List Nat) (k V : Nat) (ts : List Trip)
    (ha : ArgsortOK argsort (ts.map (·.row))) (I J : Nat) (hI : I / k < V) :
    bsrEnt k (assembleSorted V (permT ts (argsort (ts.map (·.row))))) I J = tripsEntFlat k ts I J := by
  obtain ⟨h1, h2⟩ := ha
  rw [List.length_map] at h1
  exact bsr_sorted_denotes ts _ V (permT_perm ts _ h1) (permT_sorted ts _ h2) _ _ _ _ hI

/-! ### `_covariance_matrix_inverse` with `n_components`: the coded slices and products are the model's `svdTrunc` -/

theorem sumTo_congr (n : Nat) (f g : Nat → Rat) (h : ∀ i, i < n → f i = g i) : sumTo n f = sumTo n g := by
  induction n with
  | zero => rfl
  | succ n ih =>
    unfold sumTo
    rw [ih (fun i hi => h i (by omega)), h n (by omega)]

theorem sumTo_delta (n j : Nat) (hj : j < n) (a : Nat → Rat) (c : Nat → Rat) :
    sumTo n (fun l => a l * (if l = j then c l else 0)) = a j * c j := by
  rw [sumTo_eq]
  rw [Finset.sum_eq_single j]
  · simp
  · intro b _ hb; simp [hb]
  · intro h; exact absurd (Finset.mem_range.2 hj) h

theorem getD_take (s : List Rat) (r i : Nat) (hi : i < r) : (s.take r).getD i 0 = s.getD i 0 := by
  simp [List.getD_eq_getElem?_getD, List.getElem?_take, hi]

/-- **`n_components = r`**: `s[:, :r].dot(np.diag(1 / v[:r])).dot(d[:r, :])` on the factors numpy's SVD returns is the
model's `svdTrunc` (which `svdTrunc_eq_specTrunc` identifies with the truncated pseudo-inverse) -/
theorem covInverseCoded_some (svd : Mat → Option (Mat × List Rat × Mat)) (d r : Nat) (C U Vh : Mat) (s : List Rat)
    (hd : 0 < d) (hr : 0 < r) (hC : IsTab d d C) (hsvd : svd C = some (U, s, Vh))
    (hU : IsTab d d U) (hV : IsTab d d Vh) (hs : s.length = d) :
    covInverseCoded svd (arrOf d C) (some r) = .ok (svdTrunc d r U s Vh) := by
  unfold covInverseCoded
  simp only [Option.isNone_some, Bool.false_eq_true, if_false]
  rw [atleast2d_arrOf d C hC]
  have hn : npSvd svd (.mat C) = .ok (U, s, Vh) := by
    unfold npSvd
    simp only [hsvd]
  rw [hn]
  simp only
  congr 1
  have hr' : 0 < min r d := by omega
  have e1 : colsTo U (some r) = tab d (min r d) (ent U) := by
    unfold colsTo
    rw [hU.length, hU.rowLen hd]; rfl
  have e2 : rowsTo Vh (some r) = tab (min r d) d (ent Vh) := by
    unfold rowsTo
    rw [hV.length, hV.rowLen hd]; rfl
  have e3 : (takeTo s (some r)).length = min r d := by
    show (s.take r).length = _
    rw [List.length_take, hs]
  have e4 : diagRecip (takeTo s (some r)) =
      tab (min r d) (min r d) fun i j => if i = j then 1 / s.getD i 0 else 0 := by
    unfold diagRecip
    rw [e3]
    apply tab_congr
    intro i j hi _
    split
    · show 1 / (s.take r).getD i 0 = _
      rw [getD_take s r i (by omega)]
    · rfl
  rw [e1, e2, e4]
  unfold matDot svdTrunc
  simp only [tab_length]
  rw [rowLen_tab _ _ _ hr', rowLen_tab _ _ _ hr']
  apply tab_congr
  intro i j hi hj
  apply sumTo_congr
  intro l hl
  rw [ent_tab, if_pos ⟨hi, hl⟩, ent_tab, if_pos ⟨hl, hj⟩]
  congr 1
  have : (fun l' => ent (tab d (min r d) (ent U)) i l' *
      ent (tab (min r d) (min r d) fun i j => if i = j then 1 / s.getD i 0 else 0) l' l) =
      (fun l' => ent U i l' * (if l' = l then 1 / s.getD l' 0 else 0)) := by
    funext l'
    by_cases hl' : l' < min r d
    · rw [ent_tab, if_pos ⟨hi, hl'⟩, ent_tab, if_pos ⟨hl', hl⟩]
    · rw [ent_tab, if_neg (fun h => hl' h.2)]
      have : l' ≠ l := by omega
      simp [this]
  rw [this, sumTo_delta (min r d) l hl (ent U i) (fun l' => 1 / s.getD l' 0)]

end MenpoModel.C12.Src
