/-
C01 — a symmetric normalised correlation (the Gaussian blur of `gaussian_pyramid`) leaves an affine ramp unchanged
away from the border.
-/
import MenpoModel.Lemmas.C01Interp
import MenpoModel.Core.C01Ext

namespace MenpoModel.C01

theorem reflectI_of_range {n : Nat} {i : Int} (h0 : 0 ≤ i) (h1 : i ≤ (n : Int) - 1) : reflectI n i = i := by
  unfold reflectI
  rw [if_neg (not_lt.mpr h0), if_neg (by omega)]
  exact clampI_of_range h0 h1

/-- the two sides of the kernel: each pair `f(i − k) + f(i + k)` of an affine `f` is `2 f(i)` -/
theorem sideSum_affine {n : Nat} {f : Int → Rat} {a b : Rat} {i : Int}
    (ws : List Rat) : ∀ (k : Nat),
    (∀ m : Int, i - ((k : Int) + ws.length - 1) ≤ m → m ≤ i + ((k : Int) + ws.length - 1) → 0 ≤ m ∧ m ≤ (n : Int) - 1 ∧ f m = a + b * (m : Rat)) →
    sideSum n f i k ws = 2 * (a + b * (i : Rat)) * ws.sum := by
  induction ws with
  | nil => intro k _; simp [sideSum]
  | cons wt ws ih =>
    intro k hf
    simp only [sideSum, List.sum_cons]
    have hlen : ((wt :: ws).length : Int) = (ws.length : Int) + 1 := by simp
    have hk0 : (0 : Int) ≤ (k : Int) := Int.natCast_nonneg k
    have hl0 : (0 : Int) ≤ (ws.length : Int) := Int.natCast_nonneg _
    obtain ⟨l0, l1, lf⟩ := hf (i - (k : Int)) (by rw [hlen]; omega) (by rw [hlen]; omega)
    obtain ⟨r0, r1, rf⟩ := hf (i + (k : Int)) (by rw [hlen]; omega) (by rw [hlen]; omega)
    rw [reflectI_of_range l0 l1, reflectI_of_range r0 r1, lf, rf]
    rw [ih (k + 1) (by
      intro m hm0 hm1
      apply hf m
      · rw [hlen]; push_cast at hm0 ⊢; omega
      · rw [hlen]; push_cast at hm1 ⊢; omega)]
    push_cast; ring

/-- **one axis**: a symmetric kernel of total weight 1 reproduces an affine function at every index whose whole
window `[i − r, i + r]` lies inside the axis (`r` = radius = number of half weights − 1) -/
theorem blurAxis_affine_interior {wts : List Rat} {n : Nat} {f : Int → Rat} {a b : Rat} {i : Int}
    (hsum : kernelSum wts = 1)
    (hf : ∀ m : Int, i - ((wts.length - 1 : Nat) : Int) ≤ m → m ≤ i + ((wts.length - 1 : Nat) : Int) →
      0 ≤ m ∧ m ≤ (n : Int) - 1 ∧ f m = a + b * (m : Rat)) :
    blurAxis wts n f i = a + b * (i : Rat) := by
  cases wts with
  | nil =>
    simp only [blurAxis]
    exact (hf i (by simp) (by simp)).2.2
  | cons w0 ws =>
    simp only [blurAxis]
    have hlen : (((w0 :: ws).length - 1 : Nat) : Int) = (ws.length : Int) := by simp
    have hl0 : (0 : Int) ≤ (ws.length : Int) := Int.natCast_nonneg _
    rw [(hf i (by rw [hlen]; omega) (by rw [hlen]; omega)).2.2]
    rw [sideSum_affine ws 1 (by
      intro m hm0 hm1
      apply hf m
      · rw [hlen]; push_cast at hm0 ⊢; omega
      · rw [hlen]; push_cast at hm1 ⊢; omega)]
    simp only [kernelSum] at hsum
    have : w0 = 1 - 2 * ws.sum := by linarith
    rw [this]; ring

/-- **2-D**: the blur of `gaussian_filter` reproduces affine content at every pixel at least `r` away from all
four borders -/
theorem blur2_affine_interior {wts : List Rat} {im : Img2} {a b c : Rat} (hsum : kernelSum wts = 1)
    (hcontent : ∀ i j : Int, 0 ≤ i → i ≤ (im.h : Int) - 1 → 0 ≤ j → j ≤ (im.w : Int) - 1 →
      im.px i j = a + b * (i : Rat) + c * (j : Rat))
    {i j : Int} (hi0 : ((wts.length - 1 : Nat) : Int) ≤ i) (hi1 : i + ((wts.length - 1 : Nat) : Int) ≤ (im.h : Int) - 1)
    (hj0 : ((wts.length - 1 : Nat) : Int) ≤ j) (hj1 : j + ((wts.length - 1 : Nat) : Int) ≤ (im.w : Int) - 1) :
    (blur2 wts im).px i j = a + b * (i : Rat) + c * (j : Rat) := by
  show blurAxis wts im.w (fun j' => blurAxis wts im.h (fun i' => im.px i' j') i) j = _
  have e : a + b * (i : Rat) + c * (j : Rat) = (a + b * (i : Rat)) + c * (j : Rat) := by ring
  rw [e]
  apply blurAxis_affine_interior hsum
  intro j' hj'0 hj'1
  have hj'a : 0 ≤ j' := by omega
  have hj'b : j' ≤ (im.w : Int) - 1 := by omega
  refine ⟨hj'a, hj'b, ?_⟩
  have e2 : a + b * (i : Rat) + c * (j' : Rat) = (a + c * (j' : Rat)) + b * (i : Rat) := by ring
  rw [e2]
  apply blurAxis_affine_interior hsum
  intro i' hi'0 hi'1
  have hi'a : 0 ≤ i' := by omega
  have hi'b : i' ≤ (im.h : Int) - 1 := by omega
  refine ⟨hi'a, hi'b, ?_⟩
  rw [hcontent i' j' hi'a hi'b hj'a hj'b]; ring

end MenpoModel.C01
