/-
C14 — the DFS cycle detector on UNDIRECTED graphs of every size: `_has_cycles(adjacency_list, False)`
answers `True` exactly when the graph has a self-loop or a simple cycle (k ≥ 3 distinct vertices, each
adjacent to the next, the last to the first).
Soundness: the tree edges recorded so far connect all entered vertices; a neighbour `y` of `node` that
is already entered and is not `node`'s tree parent is not `node`'s tree child either (rows have no
repeats), so the tree walk `node ⇝ y` avoids the edge `{node, y}` and closes to a simple cycle.
Completeness: while no back edge is recorded, every vertex exits with all its neighbours but at most
one (its tree parent) exited earlier — an elimination order, which no simple cycle survives.
Core Lean only.
-/
import MenpoModel.Lemmas.C14Dfs

namespace MenpoModel.C14.Dfs
open MenpoModel.C14

/-! ### the reference: self-loop or simple cycle -/

/-- `C` lists `k ≥ 3` distinct vertices, each adjacent to the cyclically next one -/
def SimpleCycle (adj : Nat → List Nat) (C : List Nat) : Prop :=
  3 ≤ C.length ∧ C.Nodup ∧ ∀ i, i < C.length → C.getD ((i + 1) % C.length) 0 ∈ adj (C.getD i 0)

/-- the textbook reference for undirected (simple) graphs -/
def UndCycle (adj : Nat → List Nat) : Prop := (∃ u, u ∈ adj u) ∨ ∃ C, SimpleCycle adj C

def Sym (adj : Nat → List Nat) : Prop := ∀ u v, v ∈ adj u → u ∈ adj v

theorem nodup_getD_inj : ∀ (l : List Nat) (i j : Nat), l.Nodup → i < l.length → j < l.length →
    l.getD i 0 = l.getD j 0 → i = j
  | [], i, _, _, hi, _, _ => by simp at hi
  | a :: l, 0, 0, _, _, _, _ => rfl
  | a :: l, 0, j + 1, hnd, _, hj, h => by
    exfalso
    simp only [List.getD_cons_zero, List.getD_cons_succ] at h
    have hj' : j < l.length := by simpa using hj
    have : l.getD j 0 ∈ l := by
      rw [List.getD_eq_getElem?_getD, List.getElem?_eq_getElem hj']; exact List.getElem_mem hj'
    exact (List.nodup_cons.1 hnd).1 (h ▸ this)
  | a :: l, i + 1, 0, hnd, hi, _, h => by
    exfalso
    simp only [List.getD_cons_zero, List.getD_cons_succ] at h
    have hi' : i < l.length := by simpa using hi
    have : l.getD i 0 ∈ l := by
      rw [List.getD_eq_getElem?_getD, List.getElem?_eq_getElem hi']; exact List.getElem_mem hi'
    exact (List.nodup_cons.1 hnd).1 (h ▸ this)
  | a :: l, i + 1, j + 1, hnd, hi, hj, h => by
    simp only [List.getD_cons_succ] at h
    have := nodup_getD_inj l i j (List.nodup_cons.1 hnd).2 (by simpa using hi) (by simpa using hj) h
    omega

theorem getD_mem (l : List Nat) (i : Nat) (hi : i < l.length) : l.getD i 0 ∈ l := by
  rw [List.getD_eq_getElem?_getD, List.getElem?_eq_getElem hi]; exact List.getElem_mem hi

theorem mem_getD (l : List Nat) (v : Nat) (hv : v ∈ l) : ∃ i, i < l.length ∧ l.getD i 0 = v := by
  obtain ⟨i, hi, h⟩ := List.mem_iff_getElem.1 hv
  exact ⟨i, hi, by rw [List.getD_eq_getElem?_getD, List.getElem?_eq_getElem hi]; simpa using h⟩

/-- a vertex of a simple cycle has two different neighbours on the cycle -/
theorem SimpleCycle.two_nbrs {adj C} (hs : Sym adj) (h : SimpleCycle adj C) (u : Nat) (hu : u ∈ C) :
    ∃ a b, a ∈ C ∧ b ∈ C ∧ a ≠ b ∧ a ∈ adj u ∧ b ∈ adj u := by
  obtain ⟨h3, hnd, hadj⟩ := h
  obtain ⟨i, hi, rfl⟩ := mem_getD C u hu
  -- next and previous index
  have h3' : 3 ≤ C.length := h3
  generalize hk : C.length = k at h3' hi hadj
  have hnx : (i + 1) % k = (if i + 1 = k then 0 else i + 1) := by
    by_cases h1 : i + 1 = k
    · simp [h1]
    · rw [if_neg h1]; exact Nat.mod_eq_of_lt (by omega)
  have hpv : ((if i = 0 then k - 1 else i - 1) + 1) % k = i := by
    by_cases h0 : i = 0
    · rw [if_pos h0, h0, show k - 1 + 1 = k by omega]; exact Nat.mod_self k
    · rw [if_neg h0, show i - 1 + 1 = i by omega]; exact Nat.mod_eq_of_lt hi
  have hnxlt : (if i + 1 = k then 0 else i + 1) < k := by split <;> omega
  have hpvlt : (if i = 0 then k - 1 else i - 1) < k := by split <;> omega
  have hne : (if i + 1 = k then 0 else i + 1) ≠ (if i = 0 then k - 1 else i - 1) := by
    split <;> split <;> omega
  refine ⟨C.getD (if i + 1 = k then 0 else i + 1) 0, C.getD (if i = 0 then k - 1 else i - 1) 0,
    getD_mem C _ (hk ▸ hnxlt), getD_mem C _ (hk ▸ hpvlt), ?_, ?_, ?_⟩
  · intro he; exact hne (nodup_getD_inj C _ _ hnd (hk ▸ hnxlt) (hk ▸ hpvlt) he)
  · have := hadj i hi; rwa [hnx] at this
  · have := hadj _ hpvlt; rw [hpv] at this; exact hs _ _ this

/-! ### completeness: an elimination order leaves no cycle -/

/-- every list member has all its neighbours but at most one later in the list, and is not its own neighbour -/
def UTopo (adj : Nat → List Nat) : List Nat → Prop
  | [] => True
  | u :: l => u ∉ l ∧ (∃ p, p ≠ u ∧ ∀ y ∈ adj u, y ∈ l ∨ y = p) ∧ UTopo adj l

theorem UTopo.no_loop {adj} : ∀ {l : List Nat}, UTopo adj l → ∀ u ∈ l, u ∉ adj u
  | [], _, u, hu => by simp at hu
  | w :: l, h, u, hu => by
    by_cases hul : u ∈ l
    · exact UTopo.no_loop h.2.2 u hul
    · simp only [List.mem_cons] at hu
      rcases hu with rfl | hu
      · obtain ⟨p, hp, hall⟩ := h.2.1
        intro hself
        rcases hall u hself with h1 | h1
        · exact hul h1
        · exact hp h1.symm
      · exact absurd hu hul

theorem UTopo.no_cycle {adj} (hs : Sym adj) {C} (hC : SimpleCycle adj C) :
    ∀ {l : List Nat}, UTopo adj l → ∀ v ∈ C, v ∉ l
  | [], _, v, _ => by simp
  | u :: l, h, v, hv => by
    have ih := UTopo.no_cycle hs hC h.2.2
    intro hvl
    simp only [List.mem_cons] at hvl
    rcases hvl with rfl | hvl
    · obtain ⟨p, _, hall⟩ := h.2.1
      obtain ⟨a, b, ha, hb, hab, hau, hbu⟩ := hC.two_nbrs hs v hv
      have h1 : a = p := by
        rcases hall a hau with h1 | h1
        · exact absurd h1 (ih a ha)
        · exact h1
      have h2 : b = p := by
        rcases hall b hbu with h2 | h2
        · exact absurd h2 (ih b hb)
        · exact h2
      exact hab (h1.trans h2.symm)
    · exact ih v hv hvl

theorem mark_false_back (node : Nat) (st : St) (y : Nat) :
    (mark false node st y).backEdges =
      if st.entered.contains y && (lookup st.treeEdges node != some y) then (y, node) :: st.backEdges
      else st.backEdges := by
  unfold mark
  cases h1 : st.entered.contains y <;> cases h2 : (lookup st.treeEdges node != some y) <;> simp

theorem mark_tree (d : Bool) (node : Nat) (st : St) (y : Nat) :
    (mark d node st y).treeEdges = if st.entered.contains y then st.treeEdges else (y, node) :: st.treeEdges := by
  unfold mark
  cases h1 : st.entered.contains y
  · simp
  · simp only [Bool.not_true, Bool.false_eq_true, if_false, if_true]
    split <;> rfl

theorem lookup_cons_ne (T : List (Nat × Nat)) (k c p : Nat) (h : c ≠ k) : lookup ((c, p) :: T) k = lookup T k := by
  simp [lookup, h]

/-- the recorded parent of an entered vertex never changes -/
theorem Exec.lookup_stable {adj d c st st'} (h : Exec adj d c st st') :
    ∀ k ∈ st.entered, lookup st'.treeEdges k = lookup st.treeEdges k := by
  induction h with
  | skip _ => exact fun _ _ => rfl
  | visit _ _ ih => intro k hk; exact ih k (by simp [hk])
  | nil => exact fun _ _ => rfl
  | @cons node y ys st st1 st2 h1 _ ih1 ih2 =>
    intro k hk
    rw [ih2 k (h1.entered_mono k (by simpa using hk)), ih1 k (by simpa using hk), mark_tree]
    by_cases hy : st.entered.contains y = true
    · rw [if_pos hy]
    · rw [if_neg hy]
      have hy' : y ∉ st.entered := by simpa using hy
      exact lookup_cons_ne _ _ _ _ (fun he => hy' (he ▸ hk))

theorem lookup_mem (T : List (Nat × Nat)) (k v : Nat) (h : lookup T k = some v) : (k, v) ∈ T := by
  unfold lookup at h
  rcases hf : T.find? (·.1 == k) with _ | e
  · simp [hf] at h
  · simp only [hf, Option.map_some, Option.some.injEq] at h
    have h1 := List.find?_some hf
    have h2 := List.mem_of_find?_eq_some hf
    have : e = (k, v) := by
      cases e with
      | mk a b => simp at h1 h; simp [h1, h]
    exact this ▸ h2

/-- recorded parents are entered vertices -/
def VE (st : St) : Prop := ∀ e ∈ st.treeEdges, e.2 ∈ st.entered

theorem VE_mark (d node st y) (hn : node ∈ st.entered) (h : VE st) : VE (mark d node st y) := by
  intro e he
  rw [mark_tree] at he
  simp only [mark_entered]
  split at he
  · exact h e he
  · simp only [List.mem_cons] at he
    rcases he with rfl | he
    · exact hn
    · exact h e he

theorem Exec.vals_entered {adj d c st st'} (h : Exec adj d c st st') :
    (match c with | .call _ => True | .loop node _ => node ∈ st.entered) → VE st → VE st' := by
  induction h with
  | skip _ => exact fun _ h => h
  | @visit node st st2 _ _ ih =>
    intro _ hv
    have := ih (by simp) (fun e he => by simp; exact Or.inr (hv e (by simpa using he)))
    exact this
  | nil => exact fun _ h => h
  | @cons node y ys st st1 st2 h1 _ ih1 ih2 =>
    intro hn hv
    exact ih2 (h1.entered_mono _ (by simpa using hn)) (ih1 trivial (VE_mark _ _ _ _ hn hv))

def InvU (adj : Nat → List Nat) (st : St) : Prop := st.backEdges = [] → UTopo adj st.exited

theorem und_complete {adj : Nat → List Nat} {c st st'} (h : Exec adj false c st st') :
    InvU adj st → (∀ v ∈ st.exited, v ∈ st.entered) → VE st →
    (match c with | .call _ => True | .loop node _ => Gray st node) →
    InvU adj st' ∧ (match c with
      | .call _ => True
      | .loop node ys => st'.backEdges = [] → ∀ y ∈ ys, y ∈ st'.exited ∨ lookup st.treeEdges node = some y) := by
  induction h with
  | skip _ => exact fun h _ _ _ => ⟨h, trivial⟩
  | @visit node st st2 hn h2 ih =>
    intro hi hsub hve _
    have hn' := (contains_false_iff _ _).1 hn
    have hg : Gray (enter node st) node := ⟨by simp, fun hx => hn' (hsub _ (by simpa using hx))⟩
    obtain ⟨hi2, hall⟩ := ih hi (fun v hv => by simp; exact Or.inr (hsub v (by simpa using hv)))
      (fun e he => by simp; exact Or.inr (hve e (by simpa using he))) hg
    refine ⟨?_, trivial⟩
    intro hb
    simp only [exit_back] at hb
    simp only [exit_exited]
    refine ⟨((h2.gray_iff node).2 hg).2, ?_, hi2 hb⟩
    -- the single neighbour that may still be open: the recorded parent
    rcases hl : lookup st.treeEdges node with _ | q
    · refine ⟨node + 1, by omega, fun y hy => ?_⟩
      rcases hall hb y hy with h1 | h1
      · exact Or.inl h1
      · simp only [enter_tree, hl] at h1; cases h1
    · have hq : q ≠ node := by
        intro he
        have := hve _ (lookup_mem _ _ _ hl)
        exact hn' (he ▸ this)
      refine ⟨q, hq, fun y hy => ?_⟩
      rcases hall hb y hy with h1 | h1
      · exact Or.inl h1
      · simp only [enter_tree, hl, Option.some.injEq] at h1; exact Or.inr h1.symm
  | nil => exact fun h _ _ _ => ⟨h, fun _ y hy => by simp at hy⟩
  | @cons node y ys st st1 st2 h1 h2 ih1 ih2 =>
    intro hi hsub hve hg
    have hi1 : InvU adj (mark false node st y) := by
      intro hb
      have := hi (mark_back_nil _ _ _ _ hb)
      simpa using this
    have hve1 : VE (mark false node st y) := VE_mark _ _ _ _ hg.1 hve
    obtain ⟨hi2, -⟩ := ih1 hi1 (by simpa using hsub) hve1 trivial
    have hg1 : Gray st1 node := (h1.gray_iff node).2 ((gray_mark _ _ _ _ _).2 hg)
    obtain ⟨hi3, hys⟩ := ih2 hi2 (h1.exited_sub (by simpa using hsub)) (h1.vals_entered trivial hve1) hg1
    refine ⟨hi3, ?_⟩
    intro hb y' hy'
    have hlk : lookup st1.treeEdges node = lookup st.treeEdges node := by
      rw [h1.lookup_stable node (by simpa using hg.1), mark_tree]
      by_cases hy : st.entered.contains y = true
      · rw [if_pos hy]
      · rw [if_neg hy]
        have hy'' : y ∉ st.entered := by simpa using hy
        exact lookup_cons_ne _ _ _ _ (fun he => hy'' (he ▸ hg.1))
    simp only [List.mem_cons] at hy'
    rcases hy' with rfl | hy'
    · rcases h1.call_exited with he | hgy
      · exact Or.inl (h2.exited_mono _ he)
      · right
        have hm := h1.back_nil (h2.back_nil hb)
        rw [mark_false_back] at hm
        have hgy' := (gray_mark _ _ _ _ _).1 hgy
        have hc : st.entered.contains y' = true := (contains_iff _ _).2 hgy'.1
        by_cases hl : lookup st.treeEdges node = some y'
        · exact hl
        · exfalso
          have : (st.entered.contains y' && (lookup st.treeEdges node != some y')) = true := by
            rw [hc, Bool.true_and]; simpa using hl
          rw [if_pos this] at hm
          cases hm
    · rcases hys hb y' hy' with h3 | h3
      · exact Or.inl h3
      · exact Or.inr (hlk ▸ h3)

/-! ### soundness: a recorded back edge closes a simple cycle -/

inductive RWalk (R : Nat → Nat → Prop) : Nat → Nat → Prop where
  | refl (v : Nat) : RWalk R v v
  | head {a b c : Nat} : R a b → RWalk R b c → RWalk R a c

theorem RWalk.trans {R a b c} (h1 : RWalk R a b) (h2 : RWalk R b c) : RWalk R a c := by
  induction h1 with
  | refl => exact h2
  | head hab _ ih => exact RWalk.head hab (ih h2)

theorem RWalk.tail {R a b c} (h1 : RWalk R a b) (h2 : R b c) : RWalk R a c :=
  h1.trans (RWalk.head h2 (RWalk.refl c))

theorem RWalk.symm {R a b} (hs : ∀ a b, R a b → R b a) (h : RWalk R a b) : RWalk R b a := by
  induction h with
  | refl => exact RWalk.refl _
  | head hab _ ih => exact ih.tail (hs _ _ hab)

theorem RWalk.mono {R R' : Nat → Nat → Prop} {a b} (hm : ∀ a b, R a b → R' a b) (h : RWalk R a b) : RWalk R' a b := by
  induction h with
  | refl => exact RWalk.refl _
  | head hab _ ih => exact RWalk.head (hm _ _ hab) ih

def Chain (R : Nat → Nat → Prop) : List Nat → Prop
  | [] => True
  | [_] => True
  | a :: b :: l => R a b ∧ Chain R (b :: l)

theorem Chain.tail {R a} : ∀ {l : List Nat}, Chain R (a :: l) → Chain R l
  | [], _ => trivial
  | _ :: _, h => h.2

theorem Chain.suffix {R} : ∀ (s : List Nat) {l : List Nat}, Chain R (s ++ l) → Chain R l
  | [], _, h => h
  | _ :: s, _, h => Chain.suffix s (Chain.tail h)

theorem Chain.getD {R} : ∀ (l : List Nat), Chain R l → ∀ i, i + 1 < l.length → R (l.getD i 0) (l.getD (i + 1) 0)
  | [], _, i, hi => by simp at hi
  | [_], _, i, hi => by simp at hi
  | a :: b :: l, h, 0, _ => h.1
  | a :: b :: l, h, i + 1, hi => by
    have := Chain.getD (b :: l) h.2 i (by simpa using hi)
    simpa using this

/-- a walk can be shortened to a path without repeated vertices -/
theorem RWalk.simple_path {R a b} (h : RWalk R a b) :
    ∃ l : List Nat, l.head? = some a ∧ l.getLast? = some b ∧ l.Nodup ∧ Chain R l := by
  induction h with
  | refl v => exact ⟨[v], rfl, rfl, by simp, trivial⟩
  | @head a b c hab _ ih =>
    obtain ⟨l, hh, hl, hnd, hch⟩ := ih
    by_cases ha : a ∈ l
    · obtain ⟨s, t, rfl⟩ := List.append_of_mem ha
      refine ⟨a :: t, rfl, ?_, ?_, Chain.suffix s hch⟩
      · rw [← hl, List.getLast?_append, List.getLast?_cons]; rfl
      · exact List.Nodup.sublist (List.sublist_append_right s (a :: t)) hnd
    · cases l with
      | nil => simp at hh
      | cons x l' =>
        simp only [List.head?_cons, Option.some.injEq] at hh
        subst hh
        exact ⟨a :: x :: l', rfl, by rw [List.getLast?_cons_cons]; exact hl,
          List.nodup_cons.2 ⟨ha, hnd⟩, hab, hch⟩

/-- an edge `v – u` together with a walk `u ⇝ v` that never steps directly from `u` to `v` gives a simple cycle -/
theorem cycle_of_walk {adj : Nat → List Nat} (u v : Nat) (huv : u ≠ v) (hclose : u ∈ adj v)
    (h : RWalk (fun a b => b ∈ adj a ∧ ¬ (a = u ∧ b = v)) u v) : ∃ C, SimpleCycle adj C := by
  obtain ⟨l, hh, hl, hnd, hch⟩ := h.simple_path
  match l, hh, hl, hnd, hch with
  | [], hh, _, _, _ => simp at hh
  | [x], hh, hl, _, _ =>
    simp at hh hl; exact absurd (hh.symm.trans hl) huv
  | [x, w], hh, hl, _, hch =>
    simp at hh hl
    exact absurd ⟨hh, hl⟩ hch.1.2
  | x :: w :: z :: m, hh, hl, hnd, hch =>
    refine ⟨x :: w :: z :: m, by simp, hnd, ?_⟩
    intro i hi
    generalize hC : x :: w :: z :: m = C at *
    by_cases h1 : i + 1 < C.length
    · rw [Nat.mod_eq_of_lt h1]
      exact (Chain.getD C hch i h1).1
    · have hik : i + 1 = C.length := by omega
      rw [hik, Nat.mod_self]
      have h0 : C.getD 0 0 = u := by
        subst hC; simp at hh; simp [hh]
      have hlast : C.getD i 0 = v := by
        rw [List.getLast?_eq_getElem?] at hl
        rw [List.getD_eq_getElem?_getD, show i = C.length - 1 by omega, hl]; rfl
      rw [h0, hlast]; exact hclose

/-- tree step: `{a, b}` is a recorded tree edge -/
def TStep (T : List (Nat × Nat)) (a b : Nat) : Prop := (a, b) ∈ T ∨ (b, a) ∈ T

theorem TStep.symm {T a b} (h : TStep T a b) : TStep T b a := Or.symm h

/-- the facts about the recorded tree edges `T` and the entered vertices `E` that make a back edge a
cycle; `pend` is the vertex whose tree edge has been recorded and whose call comes next -/
structure SInvL (adj : Nat → List Nat) (E : List Nat) (T : List (Nat × Nat)) (pend : Option Nat) : Prop where
  keys : ∀ e ∈ T, e.1 ∈ E ∨ some e.1 = pend
  keysNodup : (T.map (·.1)).Nodup
  vals : ∀ e ∈ T, e.2 ∈ E
  edge : ∀ e ∈ T, e.1 ∈ adj e.2
  conn : ∀ a b, a ∈ E → (b ∈ E ∨ some b = pend) → RWalk (TStep T) a b

def SInv (adj : Nat → List Nat) (st : St) (pend : Option Nat) : Prop := SInvL adj st.entered st.treeEdges pend

theorem lookup_of_mem : ∀ (T : List (Nat × Nat)) (k v : Nat), (k, v) ∈ T → (T.map (·.1)).Nodup → lookup T k = some v
  | [], _, _, h, _ => by simp at h
  | (c, p) :: T, k, v, h, hnd => by
    simp only [List.map_cons, List.nodup_cons] at hnd
    simp only [List.mem_cons] at h
    rcases h with h | h
    · cases h; simp [lookup]
    · have hk : k ∈ T.map (·.1) := List.mem_map.2 ⟨(k, v), h, rfl⟩
      have hne : c ≠ k := fun he => hnd.1 (he ▸ hk)
      rw [lookup_cons_ne _ _ _ _ hne]
      exact lookup_of_mem T k v h hnd.2

theorem cycle_of_back {adj : Nat → List Nat} (hs : Sym adj) {st : St} {node y : Nat}
    (hinv : SInv adj st none) (hn : node ∈ st.entered) (hy : y ∈ st.entered) (hadj : y ∈ adj node)
    (hl : lookup st.treeEdges node ≠ some y) (hc : (y, node) ∉ st.treeEdges) : UndCycle adj := by
  by_cases hyn : y = node
  · exact Or.inl ⟨node, hyn ▸ hadj⟩
  · right
    refine cycle_of_walk node y (fun h => hyn h.symm) (hs _ _ hadj) ?_
    refine RWalk.mono ?_ (hinv.conn node y hn (Or.inl hy))
    intro a b hab
    rcases hab with hab | hab
    · refine ⟨hs _ _ (hinv.edge _ hab), ?_⟩
      rintro ⟨rfl, rfl⟩
      exact hl (lookup_of_mem _ _ _ hab hinv.keysNodup)
    · refine ⟨hinv.edge _ hab, ?_⟩
      rintro ⟨rfl, rfl⟩
      exact hc hab

/-- tree edges recorded by a run point to vertices entered during the run (or, in a loop, to its node) -/
theorem Exec.tree_new {adj d c st st'} (h : Exec adj d c st st') :
    ∀ e ∈ st'.treeEdges, e ∈ st.treeEdges ∨ e.2 ∉ st.entered ∨
      (match c with | .call _ => False | .loop node ys => e.2 = node ∧ e.1 ∈ ys) := by
  induction h with
  | skip _ => exact fun e he => Or.inl he
  | @visit node st st2 hn _ ih =>
    intro e he
    have hn' := (contains_false_iff _ _).1 hn
    rcases ih e (by simpa using he) with h1 | h1 | h1
    · exact Or.inl (by simpa using h1)
    · exact Or.inr (Or.inl (fun h => h1 (by simp [h])))
    · exact Or.inr (Or.inl (fun h => hn' (h1.1 ▸ h)))
  | nil => exact fun e he => Or.inl he
  | @cons node y ys st st1 st2 h1 _ ih1 ih2 =>
    intro e he
    rcases ih2 e he with h3 | h3 | h3
    · rcases ih1 e h3 with h4 | h4 | h4
      · rw [mark_tree] at h4
        split at h4
        · exact Or.inl h4
        · simp only [List.mem_cons] at h4
          rcases h4 with rfl | h4
          · exact Or.inr (Or.inr ⟨rfl, by simp⟩)
          · exact Or.inl h4
      · exact Or.inr (Or.inl (by simpa using h4))
      · exact h4.elim
    · exact Or.inr (Or.inl (fun h => h3 (h1.entered_mono _ (by simpa using h))))
    · exact Or.inr (Or.inr ⟨h3.1, by simp [h3.2]⟩)

def CycOK (adj : Nat → List Nat) (st : St) : Prop := st.backEdges ≠ [] → UndCycle adj

/-- a call of an entered vertex: nothing is pending any more -/
theorem sinv_skip {adj st y} (hinv : SInv adj st (some y)) (hy' : y ∈ st.entered) : SInv adj st none := by
  refine ⟨?_, hinv.keysNodup, hinv.vals, hinv.edge, ?_⟩
  · intro e he
    rcases hinv.keys e he with h1 | h1
    · exact Or.inl h1
    · simp only [Option.some.injEq] at h1; exact Or.inl (h1 ▸ hy')
  · intro a b ha hb
    refine hinv.conn a b ha (Or.inl ?_)
    rcases hb with hb | hb
    · exact hb
    · cases hb

/-- entering the pending vertex -/
theorem sinv_enter {adj st y} (hinv : SInv adj st (some y)) : SInv adj (enter y st) none := by
  refine ⟨?_, hinv.keysNodup, ?_, hinv.edge, ?_⟩
  · intro e he
    rcases hinv.keys e he with h1 | h1
    · exact Or.inl (by simp [h1])
    · simp only [Option.some.injEq] at h1; exact Or.inl (by simp [h1])
  · intro e he; simp; exact Or.inr (hinv.vals e he)
  · intro a b ha hb
    simp only [enter_entered, List.mem_cons] at ha
    have hb' : b = y ∨ b ∈ st.entered := by
      rcases hb with hb | hb
      · simpa using hb
      · cases hb
    rcases ha with rfl | ha
    · rcases hb' with rfl | hb'
      · exact RWalk.refl _
      · exact (hinv.conn b a hb' (Or.inr rfl)).symm (fun _ _ => TStep.symm)
    · rcases hb' with rfl | hb'
      · exact hinv.conn a b ha (Or.inr rfl)
      · exact hinv.conn a b ha (Or.inl hb')

theorem sinv_keys {adj st} (hinv : SInv adj st none) : ∀ e ∈ st.treeEdges, e.1 ∈ st.entered := by
  intro e he
  rcases hinv.keys e he with h | h
  · exact h
  · cases h

/-- the bookkeeping for the neighbour `y` of `node`: `y` becomes pending -/
theorem sinv_mark {adj st node y} (hinv : SInv adj st none) (hn : node ∈ st.entered) (hyadj : y ∈ adj node) :
    SInv adj (mark false node st y) (some y) := by
  unfold SInv
  rw [mark_tree, mark_entered]
  by_cases hy : st.entered.contains y = true
  · rw [if_pos hy]
    have hy' := (contains_iff _ _).1 hy
    refine ⟨fun e he => Or.inl (sinv_keys hinv e he), hinv.keysNodup, hinv.vals, hinv.edge, fun a b ha hb => ?_⟩
    refine hinv.conn a b ha (Or.inl ?_)
    rcases hb with hb | hb
    · exact hb
    · simp only [Option.some.injEq] at hb; exact hb ▸ hy'
  · rw [if_neg hy]
    have hy' : y ∉ st.entered := by simpa using hy
    have hkeys := sinv_keys hinv
    refine ⟨?_, ?_, ?_, ?_, ?_⟩
    · intro e he
      simp only [List.mem_cons] at he
      rcases he with rfl | he
      · exact Or.inr rfl
      · exact Or.inl (hkeys e he)
    · simp only [List.map_cons, List.nodup_cons]
      refine ⟨?_, hinv.keysNodup⟩
      intro hmem
      obtain ⟨e, he, hey⟩ := List.mem_map.1 hmem
      exact hy' (hey ▸ hkeys e he)
    · intro e he
      simp only [List.mem_cons] at he
      rcases he with rfl | he
      · exact hn
      · exact hinv.vals e he
    · intro e he
      simp only [List.mem_cons] at he
      rcases he with rfl | he
      · exact hyadj
      · exact hinv.edge e he
    · intro a b ha hb
      have hmono : ∀ a b, TStep st.treeEdges a b → TStep ((y, node) :: st.treeEdges) a b := by
        intro a b h
        rcases h with h | h
        · exact Or.inl (by simp [h])
        · exact Or.inr (by simp [h])
      rcases hb with hb | hb
      · exact (hinv.conn a b ha (Or.inl hb)).mono hmono
      · simp only [Option.some.injEq] at hb
        subst hb
        exact ((hinv.conn a node ha (Or.inl hn)).mono hmono).tail (Or.inr (by simp))

/-- the children recorded for `node` so far are not among the neighbours still to come -/
theorem children_fresh {adj d node y ys st st1} (h1 : Exec adj d (.call y) (mark d node st y) st1)
    (hn : node ∈ st.entered) (hndys : (y :: ys).Nodup) (hch : ∀ c ∈ y :: ys, (c, node) ∉ st.treeEdges) :
    ∀ c ∈ ys, (c, node) ∉ st1.treeEdges := by
  have hynd := List.nodup_cons.1 hndys
  intro c hcys hmem
  rcases h1.tree_new _ hmem with h3 | h3 | h3
  · rw [mark_tree] at h3
    split at h3
    · exact hch c (by simp [hcys]) h3
    · simp only [List.mem_cons, Prod.mk.injEq] at h3
      rcases h3 with h3 | h3
      · exact hynd.1 (h3.1 ▸ hcys)
      · exact hch c (by simp [hcys]) h3
  · exact h3 (by simpa using hn)
  · exact h3.elim

/-- what a loop over the neighbours `ys` of `node` needs to know -/
def LoopPre (adj : Nat → List Nat) (node : Nat) (ys : List Nat) (st : St) : Prop :=
  SInv adj st none ∧ node ∈ st.entered ∧ ys.Nodup ∧ (∀ y ∈ ys, y ∈ adj node) ∧ ∀ c ∈ ys, (c, node) ∉ st.treeEdges

theorem loopPre_enter {adj st y} (hnd : ∀ u, (adj u).Nodup) (hinv : SInv adj st (some y)) (hy' : y ∉ st.entered) :
    LoopPre adj y (adj y) (enter y st) :=
  ⟨sinv_enter hinv, by simp, hnd y, fun _ h => h, fun c _ hcy => hy' (hinv.vals _ (by simpa using hcy))⟩

/-- the tree-edge invariant is kept by every call and every loop -/
theorem und_sinv {adj : Nat → List Nat} (hnd : ∀ u, (adj u).Nodup) {d c st st'}
    (h : Exec adj d c st st') (hd : d = false) :
    (match c with
      | .call y => SInv adj st (some y)
      | .loop node ys => LoopPre adj node ys st) →
    SInv adj st' none := by
  subst hd
  induction h with
  | @skip y st hy => exact fun hinv => sinv_skip hinv ((contains_iff _ _).1 hy)
  | @visit y st st2 hy _ ih =>
    intro hinv
    exact ih (loopPre_enter hnd hinv ((contains_false_iff _ _).1 hy))
  | nil => exact fun h => h.1
  | @cons node y ys st st1 st2 h1 _ ih1 ih2 =>
    intro hpre
    obtain ⟨hinv, hn, hndys, hys, hch⟩ := hpre
    have hinv2 := ih1 (sinv_mark hinv hn (hys y (by simp)))
    exact ih2 ⟨hinv2, h1.entered_mono _ (by simpa using hn), (List.nodup_cons.1 hndys).2,
      fun y' hy' => hys y' (by simp [hy']), children_fresh h1 hn hndys hch⟩

theorem und_sound {adj : Nat → List Nat} (hs : Sym adj) (hnd : ∀ u, (adj u).Nodup) {c st st'}
    (h : Exec adj false c st st') :
    (match c with
      | .call y => SInv adj st (some y)
      | .loop node ys => LoopPre adj node ys st) →
    CycOK adj st → CycOK adj st' := by
  induction h with
  | skip _ => exact fun _ hc => hc
  | @visit y st st2 hy _ ih =>
    intro hinv hc
    exact ih (loopPre_enter hnd hinv ((contains_false_iff _ _).1 hy)) hc
  | nil => exact fun _ hc => hc
  | @cons node y ys st st1 st2 h1 _ ih1 ih2 =>
    intro hpre hc
    obtain ⟨hinv, hn, hndys, hys, hch⟩ := hpre
    have hyadj : y ∈ adj node := hys y (by simp)
    have hinv1 := sinv_mark hinv hn hyadj
    have hc1 : CycOK adj (mark false node st y) := by
      intro hb
      rw [mark_false_back] at hb
      split at hb
      · rename_i hcond
        simp only [Bool.and_eq_true, contains_iff, bne_iff_ne, ne_eq] at hcond
        exact cycle_of_back hs hinv hn hcond.1 hyadj hcond.2 (hch y (by simp))
      · exact hc hb
    have hinv2 := und_sinv hnd h1 rfl hinv1
    exact ih2 ⟨hinv2, h1.entered_mono _ (by simpa using hn), (List.nodup_cons.1 hndys).2,
      fun y' hy' => hys y' (by simp [hy']), children_fresh h1 hn hndys hch⟩ (ih1 hinv1 hc1)

theorem sinv_empty (adj : Nat → List Nat) (x : Nat) : SInv adj St.empty (some x) :=
  ⟨fun e he => by simp [St.empty] at he, by simp [St.empty], fun e he => by simp [St.empty] at he,
    fun e he => by simp [St.empty] at he, fun a b ha => by simp [St.empty] at ha⟩

/-- UNBOUNDED CORRECTNESS (undirected).  For symmetric adjacency lists of any length without repeated
entries, the recursive detector answers `True` iff the graph has a self-loop or a simple cycle. -/
theorem hasCyclesL_undirected (adjL : List (List Nat)) (hadj : ∀ u, ∀ y ∈ adjOf adjL u, y < adjL.length)
    (hs : Sym (adjOf adjL)) (hnd : ∀ u, (adjOf adjL u).Nodup) :
    hasCyclesL adjL false = true ↔ UndCycle (adjOf adjL) := by
  rw [hasCyclesL_iff]
  constructor
  · rintro ⟨x, hx, hb⟩
    have hex := top_exec adjL false hadj x hx
    exact und_sound hs hnd hex (sinv_empty _ x) (fun h => absurd rfl h) hb
  · intro hcyc
    have key : ∀ v c, c ∈ adjOf adjL v →
        (dfs adjL false (2 * adjL.length + 2) v ⟨[], [], [], []⟩).backEdges = [] →
        UTopo (adjOf adjL) (dfs adjL false (2 * adjL.length + 2) v ⟨[], [], [], []⟩).exited ∧
        v ∈ (dfs adjL false (2 * adjL.length + 2) v ⟨[], [], [], []⟩).exited := by
      intro v c hc hb
      have hv := adjOf_lt_of_mem hc
      have hex := top_exec adjL false hadj v hv
      have hinv := (und_complete hex (fun _ => by simp [St.empty, UTopo]) (by simp [St.empty])
        (fun e he => by simp [St.empty] at he) trivial).1 hb
      refine ⟨hinv, ?_⟩
      rcases hex.call_exited with h | h
      · exact h
      · simp [Gray, St.empty] at h
    rcases hcyc with ⟨u, hu⟩ | ⟨C, hC⟩
    · refine ⟨u, adjOf_lt_of_mem hu, fun hb => ?_⟩
      obtain ⟨h1, h2⟩ := key u u hu hb
      exact h1.no_loop u h2 hu
    · have h0 : 0 < C.length := by have := hC.1; omega
      have hv0 : C.getD 0 0 ∈ C := getD_mem C 0 h0
      have hnb := hC.2.2 0 h0
      refine ⟨C.getD 0 0, adjOf_lt_of_mem hnb, fun hb => ?_⟩
      obtain ⟨h1, h2⟩ := key _ _ hnb hb
      exact h1.no_cycle hs hC _ hv0 h2

end MenpoModel.C14.Dfs

