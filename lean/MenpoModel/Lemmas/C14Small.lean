/-
C14 — the two exhaustive small domains of the property (every undirected graph on ≤ 5 vertices,
every loop-free directed graph on ≤ 4 vertices), as codes, and the per-graph checks that the chunk
files `Lemmas/C14U*.lean`, `Lemmas/C14D*.lean` decide by kernel evaluation.
Core Lean only.
-/
import MenpoModel.Core.C14Graph

namespace MenpoModel.C14

/-- unordered pairs `i < j` of `0…n-1`, row-major -/
def pairsU (n : Nat) : List (Nat × Nat) :=
  (List.range n).flatMap fun i => ((List.range n).filter fun j => decide (i < j)).map fun j => (i, j)
/-- ordered pairs `i ≠ j` of `0…n-1`, row-major -/
def pairsD (n : Nat) : List (Nat × Nat) :=
  (List.range n).flatMap fun i => ((List.range n).filter fun j => i != j).map fun j => (i, j)

/-- the sub-list of `ps` selected by the bits of `code` -/
def edgesOf (ps : List (Nat × Nat)) (code : Nat) : List (Nat × Nat) :=
  (ps.zipIdx).filterMap fun (p, i) => if code.testBit i then some p else none

/-- the undirected graph number `code` on `n` vertices, built by the model of `init_from_edges` -/
def gU (n code : Nat) : Graph := fromEdgesSym n (edgesOf (pairsU n) code)
/-- the loop-free directed graph number `code` on `n` vertices -/
def gD (n code : Nat) : Graph := fromEdges n (edgesOf (pairsD n) code)

/-- undirected: the DFS detector agrees with the cyclomatic-number reference and `is_tree` with
"connected and acyclic" -/
def smallOkU (n code : Nat) : Bool :=
  let g := gU n code
  (g.hasCycles false == g.refCycleU) && (g.isTree false == g.refTreeU)

/-- directed: the DFS detector agrees with the closed-walk reference; `is_tree` is "the underlying
graph is a tree"; the `Tree` constructor accepts exactly the arborescences, for every root -/
def smallOkD (n code : Nat) : Bool :=
  let g := gD n code
  (g.hasCycles true == g.refCycleD) &&
  (g.isTree true == g.refPolytree) &&
  ((List.range n).all fun r => g.treeCtorOk r == (decide (2 ≤ n) && g.refArborescence r))

/-- chunks of a finite range cover the range -/
theorem chunk_cover (P : Nat → Prop) (m k : Nat)
    (h : ∀ j, j < k → ∀ c : Fin m, P (c.val + m * j)) : ∀ c : Fin (m * k), P c.val := by
  intro c
  have hm : 0 < m := by
    rcases Nat.eq_zero_or_pos m with h0 | h0
    · subst h0; exact absurd c.isLt (by simp)
    · exact h0
  have hk : c.val / m < k := by
    apply Nat.div_lt_of_lt_mul; exact c.isLt
  have := h (c.val / m) hk ⟨c.val % m, Nat.mod_lt _ hm⟩
  simpa [Nat.mod_add_div] using this

/-! the domains below the top size are small enough for one kernel evaluation each -/

theorem smallU_1 : ∀ c : Fin 1, smallOkU 1 c.val = true := by decide +kernel
theorem smallU_2 : ∀ c : Fin 2, smallOkU 2 c.val = true := by decide +kernel
theorem smallU_3 : ∀ c : Fin 8, smallOkU 3 c.val = true := by decide +kernel
theorem smallU_4 : ∀ c : Fin 64, smallOkU 4 c.val = true := by decide +kernel
theorem smallD_1 : ∀ c : Fin 1, smallOkD 1 c.val = true := by decide +kernel
theorem smallD_2 : ∀ c : Fin 4, smallOkD 2 c.val = true := by decide +kernel
theorem smallD_3 : ∀ c : Fin 64, smallOkD 3 c.val = true := by decide +kernel

end MenpoModel.C14
