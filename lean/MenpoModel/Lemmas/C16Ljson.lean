/-
C16 — helper lemmas for the LJSON round trip (core Lean only).
-/
import MenpoModel.Core.C16

namespace MenpoModel.C16

/-! ### `mapE` -/

theorem mapE_map_ok {α β γ} (f : β → Except Err γ) (g : α → β) (h : α → γ) (l : List α)
    (hf : ∀ a ∈ l, f (g a) = .ok (h a)) : mapE f (l.map g) = .ok (l.map h) := by
  induction l with
  | nil => rfl
  | cons a t ih =>
    have h1 := hf a (by simp)
    have h2 := ih (fun b hb => hf b (by simp [hb]))
    simp only [List.map_cons, mapE, h1, h2]

/-! ### numbers -/

theorem decNat_jNat (k : Nat) : decNat (jNat k) = .ok k := by
  simp [decNat, jNat]

theorem decOpt_jOpt (x : Option Rat) : decOpt (jOpt x) = .ok x := by
  cases x <;> rfl

theorem decPair_jPair (p : Nat × Nat) : decPair (jPair p) = .ok p := by
  simp [decPair, jPair, decArr, decNat_jNat]

/-! ### points -/

theorem regroup2_flatten {α} (pts : List (List α)) (h : ∀ r ∈ pts, r.length = 2) :
    regroup2 pts.flatten = pts := by
  induction pts with
  | nil => rfl
  | cons r t ih =>
    have hr := h r (by simp)
    match r, hr with
    | [a, b], _ =>
      simp only [List.flatten_cons, List.cons_append, List.nil_append, regroup2]
      rw [ih (fun x hx => h x (by simp [hx]))]

theorem regroup3_flatten {α} (pts : List (List α)) (h : ∀ r ∈ pts, r.length = 3) :
    regroup3 pts.flatten = pts := by
  induction pts with
  | nil => rfl
  | cons r t ih =>
    have hr := h r (by simp)
    match r, hr with
    | [a, b, c], _ =>
      simp only [List.flatten_cons, List.cons_append, List.nil_append, regroup3]
      rw [ih (fun x hx => h x (by simp [hx]))]

/-- the exporter keeps 2-D and 3-D point lists as they are -/
theorem exportPoints_id (pts : List (List (Option Rat))) (hne : pts ≠ [])
    (d : Nat) (hd : d = 2 ∨ d = 3) (hrows : ∀ r ∈ pts, r.length = d) : exportPoints pts = pts := by
  cases pts with
  | nil => exact absurd rfl hne
  | cons r t =>
    have hr : r.length = d := hrows r (by simp)
    unfold exportPoints
    rcases hd with hd | hd
    · subst hd
      simp only [hr, if_true]
      exact regroup2_flatten _ hrows
    · subst hd
      simp only [hr]
      exact regroup3_flatten _ hrows

theorem length_flatten_uniform {α} (d : Nat) (rows : List (List α)) (h : ∀ r ∈ rows, r.length = d) :
    rows.flatten.length = d * rows.length := by
  induction rows with
  | nil => simp
  | cons r t ih =>
    have hr := h r (by simp)
    have := ih (fun x hx => h x (by simp [hx]))
    simp only [List.flatten_cons, List.length_append, List.length_cons, hr, this, Nat.mul_add, Nat.mul_one]
    omega

theorem chunksOf_flatten {α} (d : Nat) (hd : 0 < d) (rows : List (List α)) (h : ∀ r ∈ rows, r.length = d) :
    ∀ fuel, rows.length < fuel → chunksOf d fuel rows.flatten = rows := by
  induction rows with
  | nil => intro fuel _; cases fuel <;> simp [chunksOf]
  | cons r t ih =>
    intro fuel hf
    have hr : r.length = d := h r (by simp)
    cases fuel with
    | zero => simp at hf
    | succ f =>
      have ht := ih (fun x hx => h x (by simp [hx])) f (by simp at hf; omega)
      cases r with
      | nil => simp at hr; omega
      | cons a r' =>
        have htake : ((a :: r') ++ t.flatten).take d = a :: r' := by
          rw [← hr]; exact List.take_left'  rfl
        have hdrop : ((a :: r') ++ t.flatten).drop d = t.flatten := by
          rw [← hr]; exact List.drop_left' rfl
        show chunksOf d (f + 1) ((a :: r') ++ t.flatten) = _
        rw [show (a :: r') ++ t.flatten = a :: (r' ++ t.flatten) from rfl]
        simp only [chunksOf]
        rw [show a :: (r' ++ t.flatten) = (a :: r') ++ t.flatten from rfl, htake, hdrop, ht]

@[simp] theorem decArr_arr (xs : List Json) : decArr (.arr xs) = .ok xs := rfl
@[simp] theorem decStr_str (x : String) : decStr (.str x) = .ok x := rfl

theorem decRow_encode (r : List (Option Rat)) : decRow (.arr (r.map jOpt)) = .ok r := by
  have := mapE_map_ok decOpt jOpt id r (fun x _ => decOpt_jOpt x)
  simp only [List.map_id] at this
  simp only [decRow, decArr_arr, this]

theorem decPoints_encode (pts : List (List (Option Rat))) (hne : pts ≠ [])
    (d : Nat) (hd : 0 < d) (hrows : ∀ r ∈ pts, r.length = d) :
    decPoints (.arr (pts.map fun r => .arr (r.map jOpt))) = .ok pts := by
  have hrowsE : mapE decRow (pts.map fun r => Json.arr (r.map jOpt)) = .ok (pts.map id) :=
    mapE_map_ok _ _ _ _ (fun r _ => decRow_encode r)
  simp only [List.map_id] at hrowsE
  unfold decPoints
  simp only [decArr_arr, hrowsE]
  cases pts with
  | nil => exact absurd rfl hne
  | cons r0 rs =>
    have hr0 : r0.length = d := hrows r0 (by simp)
    have hlen := length_flatten_uniform d (r0 :: rs) hrows
    have hmod : (r0 :: rs).flatten.length % d = 0 := by rw [hlen]; exact Nat.mul_mod_right d _
    have hcond : ¬ (r0.length = 0 ∨ (r0 :: rs).flatten.length % r0.length ≠ 0) := by
      rw [hr0]; intro h; rcases h with h | h
      · omega
      · exact h hmod
    simp only [hcond, if_false]
    rw [hr0]
    congr 1
    apply chunksOf_flatten d hd (r0 :: rs) hrows
    rw [hlen]
    have : (r0 :: rs).length ≤ d * (r0 :: rs).length := Nat.le_mul_of_pos_left _ hd
    omega

/-! ### object lookups of the fixed schema -/

@[simp] theorem get_label (a b : Json) : (Json.obj [(.label, a), (.mask, b)]).get .label = some a := rfl
@[simp] theorem get_mask (a b : Json) : (Json.obj [(.label, a), (.mask, b)]).get .mask = some b := rfl
@[simp] theorem get_labels (a b : Json) : (Json.obj [(.labels, a), (.landmarks, b)]).get .labels = some a := rfl
@[simp] theorem get_landmarks (a b : Json) : (Json.obj [(.labels, a), (.landmarks, b)]).get .landmarks = some b := rfl
@[simp] theorem get_points1 (a : Json) : (Json.obj [(.points, a)]).get .points = some a := rfl
@[simp] theorem get_conn1 (a : Json) : (Json.obj [(.points, a)]).get .connectivity = none := rfl
@[simp] theorem get_points2 (a b : Json) : (Json.obj [(.connectivity, a), (.points, b)]).get .points = some b := rfl
@[simp] theorem get_conn2 (a b : Json) : (Json.obj [(.connectivity, a), (.points, b)]).get .connectivity = some a := rfl
@[simp] theorem get_version (a b : Json) : (Json.obj [(.groups, a), (.version, b)]).get .version = some b := rfl
@[simp] theorem get_groups (a b : Json) : (Json.obj [(.groups, a), (.version, b)]).get .groups = some a := rfl

/-! ### label masks -/

theorem mem_indicesOf (m : List Bool) (i : Nat) : i ∈ indicesOf m ↔ i < m.length ∧ m.getD i false = true := by
  simp [indicesOf]

theorem maskOf_indicesOf (m : List Bool) : maskOf m.length (indicesOf m) = m := by
  apply List.ext_getElem
  · simp [maskOf]
  · intro i h1 h2
    simp only [maskOf, List.getElem_map, List.getElem_range]
    have hi : i < m.length := h2
    cases hb : m[i] with
    | true =>
      have : i ∈ indicesOf m := (mem_indicesOf m i).2 ⟨hi, by simp [List.getD_eq_getElem?_getD, hi, hb]⟩
      simpa using this
    | false =>
      have : ¬ i ∈ indicesOf m := by
        intro hm
        have := ((mem_indicesOf m i).1 hm).2
        simp [List.getD_eq_getElem?_getD, hi, hb] at this
      simpa using this

theorem indicesOf_lt (m : List Bool) : (indicesOf m).all (· < m.length) = true := by
  simp only [List.all_eq_true, decide_eq_true_eq]
  intro i hi
  exact ((mem_indicesOf m i).1 hi).1

theorem decLabel_encode (n : Nat) (l : String × List Bool) (hl : l.2.length = n) :
    decLabel n (encodeLabel l) = .ok l := by
  have hidx := mapE_map_ok decNat jNat id (indicesOf l.2) (fun k _ => decNat_jNat k)
  simp only [List.map_id] at hidx
  subst hl
  simp [decLabel, encodeLabel, hidx, indicesOf_lt, maskOf_indicesOf]

/-! ### one group, all groups -/

theorem decodeGroup_encode (s : Shape) (h : s.WF) : decodeGroup (encodeGroup s) = .ok (expectedImport s) := by
  obtain ⟨hne, ⟨d, hd, hrows⟩, hconn, hlab⟩ := h
  have hdpos : 0 < d := by rcases hd with h | h <;> omega
  have hpts : decPoints (.arr ((exportPoints s.points).map fun r => .arr (r.map jOpt))) = .ok s.points := by
    rw [exportPoints_id s.points hne d hd hrows]
    exact decPoints_encode s.points hne d hdpos hrows
  have hlabels : mapE (decLabel s.points.length) (s.labels.map encodeLabel) = .ok (s.labels.map id) :=
    mapE_map_ok _ _ _ _ (fun l hl => decLabel_encode _ l (hlab l hl))
  simp only [List.map_id] at hlabels
  cases hc : s.conn with
  | none =>
    simp [decodeGroup, encodeGroup, expectedImport, hc, hpts, hlabels]
  | some c =>
    have hcE : mapE decPair (c.map jPair) = .ok (c.map id) :=
      mapE_map_ok _ _ _ _ (fun p _ => decPair_jPair p)
    simp only [List.map_id] at hcE
    have hall : (c.all fun e => decide (e.1 < s.points.length) && decide (e.2 < s.points.length)) = true := by
      simp only [List.all_eq_true, Bool.and_eq_true, decide_eq_true_eq]
      intro e he
      exact hconn e (by simp [hc, he])
    simp [decodeGroup, encodeGroup, expectedImport, hc, hpts, hlabels, hcE, hall]

theorem decodeGroups_encode (gs : List (String × Shape)) (h : ∀ g ∈ gs, g.2.WF) :
    decodeGroups (gs.map fun g => (Key.user g.1, encodeGroup g.2)) =
      .ok (gs.map fun g => (g.1, expectedImport g.2)) := by
  induction gs with
  | nil => rfl
  | cons g t ih =>
    have h1 := decodeGroup_encode g.2 (h g (by simp))
    have h2 := ih (fun x hx => h x (by simp [hx]))
    simp only [List.map_cons, decodeGroups, h1, h2]

theorem sortGroups_perm {α} (gs : List (String × α)) : (sortGroups gs).Perm gs :=
  List.mergeSort_perm _ _

/-! ### the undirected edge set -/

theorem adjSym_iff (c : List (Nat × Nat)) (i j : Nat) :
    adjSym c i j = true ↔ ((i, j) ∈ c ∨ (j, i) ∈ c) := by
  simp only [adjSym, List.any_eq_true, Bool.or_eq_true, Bool.and_eq_true, beq_iff_eq]
  constructor
  · rintro ⟨e, he, h | h⟩
    · left; obtain ⟨h1, h2⟩ := h; rw [← h1, ← h2]; exact he
    · right; obtain ⟨h1, h2⟩ := h; rw [← h1, ← h2]; exact he
  · rintro (h | h)
    · exact ⟨(i, j), h, Or.inl ⟨rfl, rfl⟩⟩
    · exact ⟨(j, i), h, Or.inr ⟨rfl, rfl⟩⟩

theorem mem_symEdges (n : Nat) (c : List (Nat × Nat)) (i j : Nat) :
    (i, j) ∈ symEdges n c ↔ i < n ∧ j < n ∧ i ≤ j ∧ ((i, j) ∈ c ∨ (j, i) ∈ c) := by
  simp only [symEdges, List.mem_flatMap, List.mem_range, List.mem_map, List.mem_filter, Bool.and_eq_true,
    decide_eq_true_eq, adjSym_iff, Prod.mk.injEq]
  constructor
  · rintro ⟨a, ha, b, ⟨hb, hab, hc⟩, rfl, rfl⟩
    exact ⟨ha, hb, hab, hc⟩
  · rintro ⟨ha, hb, hab, hc⟩
    exact ⟨i, ha, j, ⟨hb, hab, hc⟩, rfl, rfl⟩

end MenpoModel.C16
