/-
C13 — the hand-written half of the translator tie: every mirror definition `Src.f` of Core/C13Src.lean (the
translated menpo function written over the vocabulary, in the shape of the Python source) EQUALS the Core
definition the C13 property theorems are about.  Core Lean only (no Mathlib).

  constrainPointsToBounds_eq            Image.constrain_points_to_bounds   = per-axis clampB
  crop_eq_core                          Image.crop                         = crop .repaired          (well-formed image)
  pcBounds_eq / pcRange_eq              PointCloud.bounds / range          = pcBounds / pcRange      (+ the ValueError)
  cropToPointcloud_eq_core, cropToLandmarks_eq_core, cropToPointcloudProportion_eq_core,
  cropToLandmarksProportion_eq_core, trueIndices_eq, cropToTrueMask_eq_core
                                        the crop_to_* wrappers             = the wrappers of Core/C13Api.lean
  centeredPatch_eq                      _centered_patch                    = the gridCoord grid in C order
  extractPatchesBySampling_eq_core      extract_patches_by_sampling        = extractSampling .repaired
  setPatches_eq_core                    set_patches (patches.py)           = setPatches .repaired    (loop = setLoop)
  extractPatchesWithSlice_eq_core       extract_patches_with_slice         = extractSlice            (nested loops =
                                                                             the element-wise array; invariant
                                                                             `stateAt` by induction over both loops)

  extractPatches_eq_core, extractPatchesAroundLandmarks_eq_core
                                        Image.extract_patches (dispatch, both return formats) = extractPatches + toPatchList
  convertPatchesList_eq_core            _convert_patches_list_to_single_array = fromPatchList   (nested loops with a
                                                                             running index; lists of one patch shape)
  setPatchesApi_single_eq_core, setPatchesApi_list_eq_core, setPatchesApi_bad_offset
                                        Image.set_patches (offset spellings, defaults, list conversion) = setPatchesApi

GenProps/C13Src.lean proves `Generated.genF = Src.f` against the text regenerated from /repo on every run, so the
chain  source text -> genF = Src.f = Core definition  makes the property theorems statements about what the
source says now.
-/
import MenpoModel.Core.C13Src
import MenpoModel.Lemmas.C13Api
namespace MenpoModel.C13.Src
open MenpoModel.C13 MenpoModel.PyData

variable {α : Type}
set_option linter.unusedSimpArgs false


theorem constrain_aux : ∀ (s : List Nat) (pts : List Int),
    V.maskAssign (V.maskFill pts (V.ltZero pts) 0) (V.ltZero (V.sub (V.ofNat s) (V.maskFill pts (V.ltZero pts) 0))) (V.ofNat s)
      = List.zipWith clampB s pts := by
  intro s
  induction s with
  | nil => intro pts; simp [V.maskAssign, V.ofNat]
  | cons n s ih =>
    intro pts
    cases pts with
    | nil => simp [V.maskAssign, V.maskFill, V.ltZero, V.sub]
    | cons x pts =>
      have := ih pts
      simp only [V.maskAssign, V.maskFill, V.ltZero, V.sub, V.ofNat, List.map_cons, List.zipWith_cons_cons,
        List.zip_cons_cons, List.cons.injEq] at this ⊢
      refine ⟨?_, this⟩
      simp only [clampB]
      by_cases h : x < 0 <;> simp [h] <;> omega

/-- `Image.constrain_points_to_bounds` is the per-axis clamp of the model -/
theorem constrainPointsToBounds_eq (pix : NDArr α) (pts : List Int) :
    constrainPointsToBounds pix pts = List.zipWith clampB pix.shape.tail pts := by
  unfold constrainPointsToBounds Img.shape
  exact constrain_aux _ _



/-! ### Image.crop -/

theorem allGt_axes (axes : List Axis) :
    V.allGt (axes.map Axis.hi) (axes.map Axis.lo) = axes.all fun a => decide (a.hi > a.lo) := by
  induction axes with
  | nil => rfl
  | cons a as ih => simp only [V.allGt, List.map_cons, List.zipWith_cons_cons, List.all_cons, id] at ih ⊢; rw [ih]

theorem clamp_lo_axes (axes : List Axis) :
    List.zipWith clampB (axes.map Axis.n) (axes.map Axis.lo) = axes.map Axis.loB := by
  induction axes with
  | nil => rfl
  | cons a as ih => simp only [List.map_cons, List.zipWith_cons_cons, ih, Axis.loB]

theorem clamp_hi_axes (axes : List Axis) :
    List.zipWith clampB (axes.map Axis.n) (axes.map Axis.hi) = axes.map Axis.hiB := by
  induction axes with
  | nil => rfl
  | cons a as ih => simp only [List.map_cons, List.zipWith_cons_cons, ih, Axis.hiB]

theorem allEq_lo_axes (axes : List Axis) :
    V.allEq (axes.map Axis.loB) (axes.map Axis.lo) = axes.all fun a => a.loB == a.lo := by
  induction axes with
  | nil => rfl
  | cons a as ih => simp only [V.allEq, List.map_cons, List.zipWith_cons_cons, List.all_cons, id] at ih ⊢; rw [ih]

theorem allEq_hi_axes (axes : List Axis) :
    V.allEq (axes.map Axis.hiB) (axes.map Axis.hi) = axes.all fun a => a.hiB == a.hi := by
  induction axes with
  | nil => rfl
  | cons a as ih => simp only [V.allEq, List.map_cons, List.zipWith_cons_cons, List.all_cons, id] at ih ⊢; rw [ih]

theorem sub_len_axes (axes : List Axis) :
    (V.sub (axes.map Axis.hiB) (axes.map Axis.loB)).map Int.toNat = axes.map Axis.len := by
  induction axes with
  | nil => rfl
  | cons a as ih => simp only [V.sub, List.map_cons, List.zipWith_cons_cons, Axis.len] at ih ⊢; rw [ih]

theorem shiftPt_zip (axes : List Axis) : ∀ (p : List Nat),
    List.zipWith (fun (i : Nat) (m : Int) => ((((i : Int) + m : Int)) : Rat)) p (axes.map Axis.loB) = shiftPt p axes := by
  induction axes with
  | nil => intro p; cases p <;> simp [shiftPt]
  | cons a as ih => intro p; cases p with
    | nil => simp [shiftPt]
    | cons i p => simp only [List.map_cons, List.zipWith_cons_cons, shiftPt, ih]

/-- the translation warp of `Image.crop` is the model's `cropPixels` / `cropLandmarks` -/
theorem warpTranslate0_axes (zero : α) (pix : NDArr α) (lms : List (List Rat)) (axes : List Axis) :
    Img.warpTranslate0 zero pix lms (V.sub (axes.map Axis.hiB) (axes.map Axis.loB)) (axes.map Axis.loB) =
      (cropPixels pix axes zero, cropLandmarks axes lms) := by
  unfold Img.warpTranslate0 cropPixels cropLandmarks
  rw [sub_len_axes]
  congr 1
  · congr 1
    funext idx
    cases idx with
    | nil => rfl
    | cons c p => simp only [shiftPt_zip]
  · apply List.map_congr_left
    intro pt _
    rw [List.zipWith_map_right]

theorem blockPlan_axes (axes : List Axis) :
    Img.blockPlan (axes.map Axis.n) ((List.zip (V.asInt (axes.map Axis.loB)) (V.asInt (axes.map Axis.hiB))).map
        fun p => ((p.1 : Int), (p.2 : Int))) = axes.map fun a => (a.loB.toNat, a.len) := by
  induction axes with
  | nil => rfl
  | cons a as ih =>
    simp only [V.asInt, List.map_cons, List.zip_cons_cons, Img.blockPlan] at ih ⊢
    rw [ih]
    have h1 := clampB_range a.n a.lo
    have h2 := clampB_range a.n a.hi
    simp only [pySliceN, Axis.loB, Axis.hiB, Axis.len, adjBound_id _ _ h1.1 h1.2, adjBound_id _ _ h2.1 h2.2,
      List.cons.injEq, Prod.mk.injEq, true_and, and_true]
    omega

theorem shiftIdx_zip (axes : List Axis) : ∀ (p : List Nat),
    List.zipWith (fun (i : Nat) (q : Nat × Nat) => i + q.1) p (axes.map fun a => (a.loB.toNat, a.len)) = shiftIdx p axes := by
  induction axes with
  | nil => intro p; cases p <;> simp [shiftIdx]
  | cons a as ih => intro p; cases p with
    | nil => simp [shiftIdx]
    | cons i p => simp only [List.map_cons, List.zipWith_cons_cons, shiftIdx, ih]

/-- the block copied at the end of `Image.crop` is what the translation warp sampled (pixel exactness of the
warp, `crop_exact`) -/
theorem block_axes (zero : α) (pix : NDArr α) (C : Nat) (axes : List Axis)
    (hshape : pix.shape = C :: axes.map Axis.n) (hwf : pix.WF) :
    Img.block zero pix ((List.zip (V.asInt (axes.map Axis.loB)) (V.asInt (axes.map Axis.hiB))).map
        fun p => ((p.1 : Int), (p.2 : Int))) = cropPixels pix axes zero := by
  unfold Img.block
  simp only [hshape, List.tail_cons, blockPlan_axes, List.headD_cons, List.map_map]
  have hlen : (axes.map ((fun (q : Nat × Nat) => q.2) ∘ fun a => (a.loB.toNat, a.len))) = axes.map Axis.len := by
    apply List.map_congr_left; intro a _; rfl
  rw [hlen]
  unfold cropPixels
  simp only [hshape, List.headD_cons]
  apply ofFn_congr
  intro idx hidx
  cases idx with
  | nil => simp [inRange] at hidx
  | cons c p =>
    simp only [inRange, Bool.and_eq_true, decide_eq_true_eq] at hidx
    obtain ⟨e1, e2⟩ := crop_exact pix C axes zero hshape hwf
    obtain ⟨h1, h2⟩ := e2 c p hidx.1 hidx.2
    have hg : (cropPixels pix axes zero).get? (c :: p) = some (sample0c pix c (shiftPt p axes) zero) := by
      unfold cropPixels
      rw [get_ofFn _ _ _ (by simp [hshape, inRange, hidx.1, hidx.2])]
    rw [hg] at h1
    simp only [shiftIdx_zip, NDArr.getD, ← h1, Option.getD_some]

/-- the part of `Src.crop` after the length check, on the axes of the model -/
def cropTail (pix : NDArr α) (lms : List (List Rat)) (zero : α) (shape : List Nat) (mn mx : List Int) (c : Bool) :
    Except Err (Img α) :=
  if (!V.allGt mx mn) = true then Except.error Err.value
  else
    if (!(c || V.allEq (List.zipWith clampB shape mn) mn && V.allEq (List.zipWith clampB shape mx) mx)) = true then
      Except.error Err.boundary
    else
      ((Img.warpTranslate0 zero pix lms (V.sub (List.zipWith clampB shape mx) (List.zipWith clampB shape mn))
                (List.zipWith clampB shape mn)).assignAll
            (Img.block zero pix
              (List.map (fun p => (p.fst, p.snd))
                ((V.asInt (List.zipWith clampB shape mn)).zip (V.asInt (List.zipWith clampB shape mx)))))).bind
        fun cropped => Except.ok cropped

theorem cropTail_axes (pix : NDArr α) (C : Nat) (axes : List Axis) (hshape : pix.shape = C :: axes.map Axis.n)
    (hwf : pix.WF) (lms : List (List Rat)) (zero : α) (c : Bool) :
    cropTail pix lms zero (axes.map Axis.n) (axes.map Axis.lo) (axes.map Axis.hi) c =
      match (if (!axes.all fun a => decide (a.hi > a.lo)) = true then Except.error Err.value
             else if raises Variant.repaired c axes = true then Except.error Err.boundary else Except.ok axes) with
      | Except.error e => Except.error e
      | Except.ok axes => Except.ok (cropPixels pix axes zero, cropLandmarks axes lms) := by
  unfold cropTail
  simp only [allGt_axes, clamp_lo_axes, clamp_hi_axes, allEq_lo_axes, allEq_hi_axes]
  cases hp : (axes.all fun a => decide (a.hi > a.lo))
  · simp
  · simp only [Bool.not_true, Bool.false_eq_true, if_false, raises]
    by_cases hr : (c || ((axes.all fun a => a.loB == a.lo) && axes.all fun a => a.hiB == a.hi)) = true
    · simp only [hr, Bool.not_true, Bool.false_eq_true, if_false]
      rw [warpTranslate0_axes, block_axes zero pix C axes hshape hwf]
      simp [Img.assignAll, Except.bind, cropPixels, ofFn]
    · simp only [Bool.not_eq_true] at hr
      simp only [hr, Bool.not_false, if_true]

/-- PROPERTY (the translated `Image.crop` is the model's crop): floor / ceil, both ValueErrors, the bounded
copies, the raise-or-clip decision, the translation warp and the final block copy of the source - as translated
from base.py - compute exactly `crop .repaired` on every well-formed image -/
theorem crop_eq_core (pix : NDArr α) (C : Nat) (shape : List Nat) (hshape : pix.shape = C :: shape) (hwf : pix.WF)
    (lms : List (List Rat)) (zero : α) (mn mx : List Rat) (c rt : Bool) :
    Src.crop pix lms zero mn mx c rt = C13.crop .repaired pix mn mx c zero lms := by
  unfold Src.crop C13.crop cropBounds
  simp only [hshape, List.tail_cons, Img.nDims, V.floor, V.ceil, List.length_map, constrainPointsToBounds_eq]
  by_cases hl : mn.length = shape.length ∧ mx.length = shape.length
  · obtain ⟨a1, a2, a3⟩ := mkAxes_spec shape mn mx hl.1 hl.2
    have hc : (!(mn.length == mx.length && mx.length == shape.length)) = false := by simp [hl.1, hl.2]
    have hn : (¬(mn.length = shape.length ∧ mx.length = shape.length)) = False := by simp [hl]
    simp only [hc, hn, Bool.false_eq_true, if_false]
    have key := cropTail_axes pix C (mkAxes shape mn mx) (by rw [hshape, a1]) hwf lms zero c
    simp only [a1, a2, a3, cropTail] at key
    exact key
  · have hc : (!(mn.length == mx.length && mx.length == shape.length)) = true := by
      simp only [Bool.not_eq_eq_eq_not, Bool.not_true, Bool.and_eq_false_imp, beq_iff_eq, beq_eq_false_iff_ne]
      intro h1 h2; exact hl ⟨by omega, h2⟩
    rw [hc, if_pos rfl, if_pos hl]




/-! ### PointCloud.bounds / range and the crop_to_* wrappers -/

theorem except_bind_ok {ε β γ : Type} (a : β) (f : β → Except ε γ) : (Except.ok a : Except ε β).bind f = f a := rfl
theorem except_bind_error {ε β γ : Type} (e : ε) (f : β → Except ε γ) : (Except.error e : Except ε β).bind f = .error e := rfl

/-- `PointCloud.bounds`: ValueError on a cloud without points, otherwise the model's per-axis `(min − b, max + b)` -/
theorem pcBounds_eq (pts : List (List Rat)) (b : Rat) :
    Src.pcBounds pts b = if pts.isEmpty then .error .value else .ok (C13.pcBounds pts b) := by
  unfold Src.pcBounds Pc.colMin Pc.colMax C13.pcBounds
  cases h : pts.isEmpty
  · simp only [Bool.false_eq_true, if_false, except_bind_ok]
    congr 2
    · show List.map (· - b) _ = _; rw [List.map_map]; rfl
    · show List.map (· + b) _ = _; rw [List.map_map]; rfl
  · simp only [if_true, except_bind_error]

/-- `PointCloud.range` -/
theorem pcRange_eq (pts : List (List Rat)) :
    Src.pcRange pts 0 = if pts.isEmpty then .error .value else .ok (C13.pcRange pts) := by
  unfold Src.pcRange
  rw [pcBounds_eq]
  cases h : pts.isEmpty
  · simp only [Bool.false_eq_true, if_false, except_bind_ok, C13.pcBounds, C13.pcRange]
    congr 1
    show List.zipWith (· - ·) _ _ = _
    rw [List.zipWith_map_left, List.zipWith_map_right, List.zipWith_self]
    apply List.map_congr_left
    intro k _
    grind
  · simp only [if_true, except_bind_error]

/-- PROPERTY (`crop_to_pointcloud` / `crop_to_landmarks` as translated are the model's wrapper) -/
theorem cropToPointcloud_eq_core (pix : NDArr α) (C : Nat) (shape : List Nat) (hshape : pix.shape = C :: shape)
    (hwf : pix.WF) (lms : List (List Rat)) (zero : α) (pts : List (List Rat)) (b : Rat) (c rt : Bool) :
    Src.cropToPointcloud pix lms zero pts b c rt = C13.cropToPointcloud .repaired pix pts b c zero lms := by
  unfold Src.cropToPointcloud C13.cropToPointcloud
  rw [pcBounds_eq]
  cases h : pts.isEmpty
  · simp only [Bool.false_eq_true, if_false, except_bind_ok]
    exact crop_eq_core pix C shape hshape hwf lms zero _ _ c rt
  · simp only [if_true, except_bind_error]

theorem cropToLandmarks_eq_core (pix : NDArr α) (C : Nat) (shape : List Nat) (hshape : pix.shape = C :: shape)
    (hwf : pix.WF) (lms : List (List Rat)) (zero : α) (b : Rat) (c rt : Bool) :
    Src.cropToLandmarks pix lms zero b c rt = C13.cropToPointcloud .repaired pix lms b c zero lms :=
  cropToPointcloud_eq_core pix C shape hshape hwf lms zero lms b c rt

theorem pcRange_isEmpty (pts : List (List Rat)) : (C13.pcRange pts).isEmpty = (pcDims pts == 0) := by
  unfold C13.pcRange
  cases h : pcDims pts with
  | zero => rfl
  | succ n => simp [List.range_succ_eq_map]

/-- PROPERTY (`crop_to_pointcloud_proportion` / `crop_to_landmarks_proportion` as translated are the model's) -/
theorem cropToPointcloudProportion_eq_core (pix : NDArr α) (C : Nat) (shape : List Nat) (hshape : pix.shape = C :: shape)
    (hwf : pix.WF) (lms : List (List Rat)) (zero : α) (pts : List (List Rat)) (q : Rat) (m c rt : Bool) :
    Src.cropToPointcloudProportion pix lms zero pts q m c rt =
      C13.cropToPointcloudProportion .repaired pix pts q m c zero lms := by
  unfold Src.cropToPointcloudProportion C13.cropToPointcloudProportion proportionBoundary
  rw [pcRange_eq]
  cases h : pts.isEmpty
  · simp only [Bool.false_eq_true, if_false, except_bind_ok, V.minE, V.maxE, pcRange_isEmpty, Bool.false_or]
    cases hd : (pcDims pts == 0)
    · cases m <;>
        simp only [Bool.false_eq_true, if_false, if_true, except_bind_ok] <;>
        exact cropToPointcloud_eq_core pix C shape hshape hwf lms zero pts _ c rt
    · cases m <;> simp only [if_true, except_bind_error, Bool.false_eq_true, if_false]
  · cases m <;> simp only [if_true, except_bind_error, Bool.true_or, Bool.false_eq_true, if_false]

theorem cropToLandmarksProportion_eq_core (pix : NDArr α) (C : Nat) (shape : List Nat) (hshape : pix.shape = C :: shape)
    (hwf : pix.WF) (lms : List (List Rat)) (zero : α) (q : Rat) (m c rt : Bool) :
    Src.cropToLandmarksProportion pix lms zero q m c rt =
      C13.cropToPointcloudProportion .repaired pix lms q m c zero lms :=
  cropToPointcloudProportion_eq_core pix C shape hshape hwf lms zero lms q m c rt

/-! ### BooleanImage.true_indices / bounds_true, MaskedImage.crop_to_true_mask -/

/-- `true_indices()`: both branches (all-true shortcut, `np.nonzero`) list the true positions in C order -/
theorem trueIndices_eq (mask : NDArr Bool) : Src.trueIndices mask = C13.trueIndices mask := by
  unfold Src.trueIndices Mask.allTrue Mask.allIndices Mask.nonzeroIndices C13.trueIndices
  split
  · rename_i h
    rw [List.all_eq_true] at h
    exact (List.filter_eq_self.2 h).symm
  · rfl

theorem natPts_isEmpty (idx : List (List Nat)) : (natPts idx).isEmpty = idx.isEmpty := by
  cases idx <;> rfl

theorem column_natPts_mem (idx : List (List Nat)) (k : Nat) (x : Rat) (hx : x ∈ column (natPts idx) k) :
    ∃ n : Nat, x = (n : Rat) := by
  simp only [column, natPts, List.map_map, List.mem_map, Function.comp] at hx
  obtain ⟨p, _, hp⟩ := hx
  exact ⟨p.getD k 0, by rw [← hp, natPts_getD]⟩

theorem column_ne_nil (pts : List (List Rat)) (k : Nat) (h : pts.isEmpty = false) : column pts k ≠ [] := by
  cases pts with
  | nil => simp at h
  | cons p ps => simp [column]

theorem floor_cast_min (idx : List (List Nat)) (k : Nat) (h : idx.isEmpty = false) :
    (((minL (column (natPts idx) k)).floor : Int) : Rat) = minL (column (natPts idx) k) := by
  obtain ⟨n, hn⟩ := column_natPts_mem idx k _ (minL_mem _ (column_ne_nil _ k (by rw [natPts_isEmpty]; exact h)))
  rw [hn, natCast_floor, Rat.intCast_natCast]

theorem floor_cast_max (idx : List (List Nat)) (k : Nat) (h : idx.isEmpty = false) :
    (((maxL (column (natPts idx) k)).floor : Int) : Rat) = maxL (column (natPts idx) k) := by
  obtain ⟨n, hn⟩ := column_natPts_mem idx k _ (maxL_mem _ (column_ne_nil _ k (by rw [natPts_isEmpty]; exact h)))
  rw [hn, natCast_floor, Rat.intCast_natCast]

/-- PROPERTY (`crop_to_true_mask` as translated, through `bounds_true(constrain_to_bounds=False)` and
`true_indices`, is the model's wrapper) -/
theorem cropToTrueMask_eq_core (pix : NDArr α) (C : Nat) (shape : List Nat) (hshape : pix.shape = C :: shape)
    (hwf : pix.WF) (lms : List (List Rat)) (zero : α) (mask : NDArr Bool) (b : Int) (c rt : Bool) :
    Src.cropToTrueMask pix lms zero mask b c rt = C13.cropToTrueMask .repaired pix mask b c zero lms := by
  unfold Src.cropToTrueMask Src.boundsTrue C13.cropToTrueMask C13.cropToPointcloud Pc.colMaxZ Pc.colMinZ
  rw [trueIndices_eq, natPts_isEmpty]
  cases h : (C13.trueIndices mask).isEmpty
  · simp only [Bool.false_eq_true, if_false, except_bind_ok]
    rw [crop_eq_core pix C shape hshape hwf]
    congr 1
    · show V.toRat (List.map (· - b) _) = _
      simp only [V.toRat, List.map_map, C13.pcBounds]
      apply List.map_congr_left
      intro k _
      simp only [Function.comp, Rat.intCast_sub, floor_cast_min _ k h]
    · show V.toRat (List.map (· + b) _) = _
      simp only [V.toRat, List.map_map, C13.pcBounds]
      apply List.map_congr_left
      intro k _
      simp only [Function.comp, Rat.intCast_add, floor_cast_max _ k h]
  · simp only [if_true, except_bind_error]




theorem flatMap_congr' {β γ : Type} (l : List β) (f g : β → List γ) (h : ∀ a ∈ l, f a = g a) :
    l.flatMap f = l.flatMap g := by
  induction l with
  | nil => rfl
  | cons x xs ih =>
    rw [List.flatMap_cons, List.flatMap_cons, h x (List.mem_cons_self ..), ih fun a ha => h a (List.mem_cons_of_mem _ ha)]

/-! ### _centered_patch -/

/-- the centred sampling grid of the model: point `(a, b)` of a `ph × pw` patch, in C order -/
def gridPoints (ph pw : Nat) : List Pt :=
  (List.range ph).flatMap fun a => (List.range pw).map fun b => (gridCoord ph a, gridCoord pw b)

theorem natCast_ne_zero_of_lt (i n : Nat) (h : i < n) : ((n : Nat) : Rat) ≠ 0 := by
  intro h0
  have : ((n : Nat) : Rat) = ((0 : Nat) : Rat) := by rw [h0]; rfl
  have := Rat.natCast_inj.1 this
  omega

theorem linspace_grid (ph : Nat) :
    (Np.linspaceOpen (-(Np.tdiv ph 2)) (Np.tdiv ph 2) ph).map (· + C13.halfPixel ph) =
      (List.range ph).map (gridCoord ph) := by
  unfold Np.linspaceOpen
  rw [List.map_map]
  apply List.map_congr_left
  intro i hi
  have hne := natCast_ne_zero_of_lt i ph (List.mem_range.1 hi)
  simp only [Function.comp, gridCoord, halfExt, Np.tdiv]
  have e : ((ph : Rat) / ((2 : Nat) : Rat) - -((ph : Rat) / ((2 : Nat) : Rat))) / (ph : Rat) = 1 := by
    have : ((2 : Nat) : Rat) = 2 := rfl
    rw [this]
    grind
  rw [e]
  have : ((2 : Nat) : Rat) = 2 := rfl
  rw [this]
  grind

theorem zip_const (x : Rat) (Y : List Rat) : (Y.map fun _ => x).zip Y = Y.map fun b => (x, b) := by
  induction Y with
  | nil => rfl
  | cons y Y ih => simp [List.zip_cons_cons, ih]

theorem stackPoints_mesh (X Y : List Rat) :
    Np.stackPoints (Np.meshgridIJ X Y) = X.flatMap fun a => Y.map fun b => (a, b) := by
  unfold Np.stackPoints Np.meshgridIJ
  induction X with
  | nil => rfl
  | cons x X ih =>
    simp only [List.map_cons, List.zipWith_cons_cons, List.flatten_cons, List.flatMap_cons] at ih ⊢
    rw [ih]
    rw [zip_const]

/-- `_centered_patch(patch_shape)` is the model's centred grid -/
theorem centeredPatch_eq (ps : Nat × Nat) : Src.centeredPatch ps = .ok (gridPoints ps.1 ps.2) := by
  unfold Src.centeredPatch Np.len2
  simp only [beq_self_eq_true, if_true]
  congr 1
  rw [stackPoints_mesh, listPt_add, List.map_flatMap]
  unfold gridPoints
  have h1 := linspace_grid ps.1
  have h2 := linspace_grid ps.2
  generalize Np.linspaceOpen (-(Np.tdiv ps.1 2)) (Np.tdiv ps.1 2) ps.1 = X at h1
  generalize Np.linspaceOpen (-(Np.tdiv ps.2 2)) (Np.tdiv ps.2 2) ps.2 = Y at h2
  have e : (List.range ps.1).flatMap (fun a => (List.range ps.2).map fun b => (gridCoord ps.1 a, gridCoord ps.2 b)) =
      ((List.range ps.1).map (gridCoord ps.1)).flatMap fun a' =>
        ((List.range ps.2).map (gridCoord ps.2)).map fun b' => (a', b') := by
    rw [List.flatMap_map]
    apply flatMap_congr'
    intro a _
    simp only [Function.comp, List.map_map]
    rfl
  rw [e, ← h1, ← h2, List.flatMap_map]
  apply flatMap_congr'
  intro a _
  simp only [Function.comp, List.map_map]
  apply List.map_congr_left
  intro b _
  rfl





/-! ### extract_patches_by_sampling -/

theorem map_eq_range_getPt {γ : Type} (l : List Pt) (g : Pt → γ) :
    l.map g = (List.range l.length).map fun i => g (getPt l i) := by
  apply List.ext_getElem
  · simp
  · intro i h1 h2
    simp only [List.getElem_map, List.getElem_range, getPt, List.getD_eq_getElem?_getD]
    rw [List.getElem?_eq_getElem (by simpa using h1)]
    rfl

theorem flatMap_eq_range_getPt {γ : Type} (l : List Pt) (g : Pt → List γ) :
    l.flatMap g = (List.range l.length).flatMap fun i => g (getPt l i) := by
  rw [List.flatMap_def, map_eq_range_getPt, List.flatMap_def]

theorem indices4_map {γ : Type} (a b c d : Nat) (f : List Nat → γ) :
    (indices [a, b, c, d]).map f =
      (List.range a).flatMap fun i => (List.range b).flatMap fun j => (List.range c).flatMap fun l =>
        (List.range d).map fun m => f [i, j, l, m] := by
  simp only [indices, List.map_flatMap, List.map_map, List.flatMap_assoc, List.flatMap_map, List.map_cons, List.map_nil,
    List.flatMap_cons, List.flatMap_nil, List.append_nil, Function.comp]
  simp only [← List.map_eq_flatMap]

/-- the sampling locations of the translated code (centred grid broadcast against centres and offsets, flattened in
C order) are the model's `samplePtAt` over the `(ph, pw, n, k)` index grid -/
theorem samplePoints_some (ph pw : Nat) (centres offs : List Pt) :
    ((gridPoints ph pw).flatMap fun a => centres.map fun b => a + b).flatMap (fun x => offs.map fun o => x + o) =
      (indices [ph, pw, centres.length, offs.length]).map (samplePtAt ph pw centres offs) := by
  rw [indices4_map]
  unfold gridPoints
  simp only [List.flatMap_assoc, List.flatMap_map]
  apply flatMap_congr'; intro a _
  apply flatMap_congr'; intro b _
  rw [flatMap_eq_range_getPt centres]
  apply flatMap_congr'; intro l _
  rw [map_eq_range_getPt offs]
  apply List.map_congr_left; intro m _
  rfl

/-- without offsets the model adds the zero offset -/
theorem samplePoints_none (ph pw : Nat) (centres : List Pt) :
    ((gridPoints ph pw).flatMap fun a => centres.map fun b => a + b) =
      (indices [ph, pw, centres.length, 1]).map (samplePtAt ph pw centres [(0, 0)]) := by
  have h := samplePoints_some ph pw centres [(0, 0)]
  simp only [List.map_cons, List.map_nil, List.length_cons, List.length_nil] at h
  rw [← h, List.flatMap_assoc]
  apply flatMap_congr'; intro a _
  rw [List.flatMap_map]
  simp only [Function.comp, ← List.map_eq_flatMap]
  apply List.map_congr_left; intro b _
  simp only [pt_add, Rat.add_zero]

theorem inRange5 (s1 s2 s3 s4 s5 : Nat) (idx : List Nat) (h : inRange [s1, s2, s3, s4, s5] idx = true) :
    ∃ i j c r q, idx = [i, j, c, r, q] ∧ i < s1 ∧ j < s2 ∧ c < s3 ∧ r < s4 ∧ q < s5 := by
  match idx, h with
  | [i, j, c, r, q], h =>
    simp only [inRange, Bool.and_eq_true, decide_eq_true_eq, and_true] at h
    exact ⟨i, j, c, r, q, rfl, h.1, h.2.1, h.2.2.1, h.2.2.2.1, h.2.2.2.2⟩
  | [], h => simp [inRange] at h
  | [_], h => simp [inRange] at h
  | [_, _], h => simp [inRange] at h
  | [_, _, _], h => simp [inRange] at h
  | [_, _, _, _], h => simp [inRange] at h
  | _ :: _ :: _ :: _ :: _ :: _ :: _, h => simp [inRange] at h

/-- PROPERTY (`extract_patches_by_sampling` as translated is the model's sampling path): the centred grid from
`_centered_patch`, its broadcast against centres and offsets, the flattening handed to the sampler, the reshape
to `(C, ph, pw, n, k)` with the channel count of the image, and the transposition -/
theorem extractPatchesBySampling_eq_core (pixels : NDArr α) (C H W : Nat) (hshape : pixels.shape = [C, H, W])
    (centres : List Pt) (ps : Nat × Nat) (offsets : Option (List Pt)) (sampler : Nat → Mode → Nat → Pt → α)
    (order : Nat) (mode : Mode) (cval : α) :
    Src.extractPatchesBySampling pixels centres ps offsets sampler order mode cval =
      extractSampling .repaired (sampler order mode) C ps.1 ps.2 centres offsets cval := by
  unfold Src.extractPatchesBySampling extractSampling
  rw [centeredPatch_eq]
  simp only [Np.ndim, hshape, List.length_cons, List.length_nil, bne_self_eq_false, Bool.false_eq_true, if_false,
    except_bind_ok, Np.flatPoints, Np.outerAdd, Np.outerAdd3, Np.len0, HasLen0.len0, List.headD_cons, Np.sampleAll,
    Np.reshapeE]
  cases offsets with
  | none =>
    simp only [Option.isNone_none, Bool.not_true, Bool.false_eq_true, if_false, Option.getD_none, List.length_cons,
      List.length_nil, samplePoints_none]
    cases hr : reshape _ _ with
    | none => rfl
    | some flat =>
      have hs : flat.shape = [C, ps.1, ps.2, centres.length, 1] := by
        unfold reshape at hr; split at hr <;> simp at hr; rw [← hr]
      simp only [except_bind_ok, Np.transpose34012, hs, Nat.zero_add]
      congr 1
  | some offs =>
    simp only [Option.isNone_some, Bool.not_false, if_true, Option.getD_some, samplePoints_some]
    cases hr : reshape _ _ with
    | none => rfl
    | some flat =>
      have hs : flat.shape = [C, ps.1, ps.2, centres.length, offs.length] := by
        unfold reshape at hr; split at hr <;> simp at hr; rw [← hr]
      simp only [except_bind_ok, Np.transpose34012, hs, Nat.zero_add]
      congr 1

/-- an array that is not `(C, H, W)` is refused by the translated function as by the model's dispatch -/
theorem extractPatchesBySampling_not3 (pixels : NDArr α) (h : pixels.shape.length ≠ 3)
    (centres : List Pt) (ps : Nat × Nat) (offsets : Option (List Pt)) (sampler : Nat → Mode → Nat → Pt → α)
    (order : Nat) (mode : Mode) (cval : α) :
    Src.extractPatchesBySampling pixels centres ps offsets sampler order mode cval = .error .value := by
  unfold Src.extractPatchesBySampling
  simp [Np.ndim, h]





/-! ### set_patches (menpo/image/patches.py) -/

/-- reading a sub-array `a[i]` is reading `a` with `i` prepended to the index -/
theorem get?_row (a : NDArr α) (n : Nat) (s : List Nat) (hs : a.shape = n :: s) (i : Nat) (hi : i < n) (idx : List Nat) :
    (a.row i).get? idx = a.get? (i :: idx) := by
  unfold NDArr.row NDArr.get?
  simp only [hs, List.tail_cons, inRange, hi, decide_true, Bool.true_and, offset]
  by_cases h : inRange s idx = true
  · have := offset_lt s idx h
    simp only [h, if_true, List.getElem?_take, this, List.getElem?_drop]
  · simp only [h, Bool.false_eq_true, if_false]

theorem getD_row (a : NDArr α) (n : Nat) (s : List Nat) (hs : a.shape = n :: s) (i : Nat) (hi : i < n) (idx : List Nat)
    (d : α) : (a.row i).getD idx d = a.getD (i :: idx) d := by
  unfold NDArr.getD; rw [get?_row a n s hs i hi]

theorem row_shape (a : NDArr α) (i : Nat) : (a.row i).shape = a.shape.tail := rfl

/-- one iteration of the translated loop is one `setOne` of the model -/
theorem setStep_ok (dflt : α) (patches cur : NDArr α) (n k C' ph pw C H W : Nat)
    (hp : patches.shape = [n, k, C', ph, pw]) (hc : cur.shape = [C, H, W]) (offset : Int × Int) (oi i : Nat)
    (hi : i < n) (ctr : Pt) :
    setStep dflt (ph, pw) offset oi (.ok cur) (patches.row i, ctr) =
      setOne .repaired patches cur i ctr offset oi dflt := by
  unfold setStep setOne Np.viewAt Np.assignWindow
  simp only [hp, hc, row_shape, List.tail_cons, List.headD_cons]
  by_cases hk : k ≤ oi
  · simp only [hk, if_true, Nat.not_lt.2 hk, if_false]
  · have hk' : oi < k := Nat.lt_of_not_le hk
    simp only [hk, hk', if_true, if_false, row_shape, hp, hc, List.tail_cons, placeZ, Np.roundPt, pt_add, Np.toPt,
      Np.fdiv, Np.pmod]
    apply ite_congr rfl (fun _ => ?_) (fun _ => rfl)
    · congr 1
      apply ofFn_congr
      intro idx hidx
      match idx, hidx with
      | [c, r, q], _ =>
        simp only [setElem]
        apply ite_congr rfl (fun _ => ?_) (fun _ => rfl)
        rw [getD_row _ k [C', ph, pw] (by rw [row_shape, hp]; rfl) oi hk',
          getD_row _ n [k, C', ph, pw] hp i hi]
      | [], h => simp [inRange] at h
      | [_], h => simp [inRange] at h
      | [_, _], h => simp [inRange] at h
      | _ :: _ :: _ :: _ :: _, h => simp [inRange] at h

theorem setStep_error (dflt : α) (ps : Nat × Nat) (offset : Int × Int) (oi : Nat) (e : Err) (it : NDArr α × Pt) :
    setStep dflt ps offset oi (.error e) it = .error e := rfl

theorem foldl_setStep_error (dflt : α) (ps : Nat × Nat) (offset : Int × Int) (oi : Nat) (e : Err)
    (l : List (NDArr α × Pt)) : l.foldl (setStep dflt ps offset oi) (.error e) = .error e := by
  induction l with
  | nil => rfl
  | cons x xs ih => rw [List.foldl_cons, setStep_error, ih]

theorem setOne_shape (v : Variant) (patches cur nxt : NDArr α) (C H W : Nat) (hc : cur.shape = [C, H, W])
    (i : Nat) (ctr : Pt) (offset : Int × Int) (oi : Nat) (dflt : α)
    (h : setOne v patches cur i ctr offset oi dflt = .ok nxt) : nxt.shape = [C, H, W] := by
  unfold setOne at h
  split at h
  · rename_i hp hc'
    rw [hc] at hc'
    cases hc'
    split at h
    · cases h
    · dsimp only at h
      split at h
      · cases h; rfl
      · cases h
  · cases h

theorem foldl_setStep (dflt : α) (patches : NDArr α) (n k C' ph pw : Nat) (hp : patches.shape = [n, k, C', ph, pw])
    (offset : Int × Int) (oi : Nat) : ∀ (l : List (Nat × Pt)) (cur : NDArr α) (C H W : Nat), cur.shape = [C, H, W] →
    (∀ x ∈ l, x.1 < n) →
    (l.map fun x => (patches.row x.1, x.2)).foldl (setStep dflt (ph, pw) offset oi) (.ok cur) =
      setLoop .repaired patches offset oi dflt l cur := by
  intro l
  induction l with
  | nil => intro cur C H W _ _; rfl
  | cons x xs ih =>
    intro cur C H W hc hl
    rw [List.map_cons, List.foldl_cons, setStep_ok dflt patches cur n k C' ph pw C H W hp hc offset oi x.1
      (hl x (List.mem_cons_self ..)) x.2]
    simp only [setLoop]
    cases hs : setOne .repaired patches cur x.1 x.2 offset oi dflt with
    | error e => simp only [foldl_setStep_error]
    | ok nxt =>
      exact ih nxt C H W (setOne_shape _ _ _ _ C H W hc _ _ _ _ _ hs) fun y hy => hl y (List.mem_cons_of_mem _ hy)

/-- PROPERTY (`set_patches` of patches.py as translated - the loop over `zip(patches, patch_centers)`, the offset
index, `np.round` of the shifted centre, the low / high half extents and the slice assignment - is the model's
`setPatches` with the rounding placement) -/
theorem setPatches_eq_core (dflt : α) (patches pix : NDArr α) (n k C' ph pw : Nat)
    (hp : patches.shape = [n, k, C', ph, pw]) (centres : List Pt) (offset : Int × Int) (oi : Nat) :
    Src.setPatches dflt patches (.ok pix) centres offset oi =
      C13.setPatches .repaired patches pix centres offset oi dflt := by
  by_cases h3 : ∃ C H W, pix.shape = [C, H, W]
  · obtain ⟨C, H, W, hx⟩ := h3
    unfold Src.setPatches C13.setPatches Np.ndimE
    simp only [hp, hx, List.length_cons, List.length_nil, bne_self_eq_false, Bool.false_eq_true, if_false,
      Py.forLoop_eq_foldl, Np.iter, PyIter.iter, NDArr.rows, List.headD_cons, List.zip_map_left, Np.last2]
    have := foldl_setStep dflt patches n k C' ph pw hp offset oi ((List.range n).zip centres) pix C H W hx
      (fun x hx => List.mem_range.1 (List.of_mem_zip hx).1)
    have e : (List.map (Prod.map patches.row id) ((List.range n).zip centres)) =
        (List.map (fun x => (patches.row x.fst, x.snd)) ((List.range n).zip centres)) := by
      apply List.map_congr_left; intro x _; rfl
    rw [e]; exact this
  · have hl : pix.shape.length ≠ 3 := by
      intro hl
      apply h3
      match hs : pix.shape, hl with
      | [C, H, W], _ => exact ⟨C, H, W, rfl⟩
    unfold Src.setPatches C13.setPatches Np.ndimE
    simp only [hp, bne_iff_ne, ne_eq, hl, not_false_eq_true, if_true]
    split
    · rename_i h1 h2; exact absurd ⟨_, _, _, h2⟩ h3
    · rfl





/-! ### extract_patches_with_slice -/

theorem enumerate_range_map {β : Type} (n : Nat) (f : Nat → β) :
    Np.enumerate ((List.range n).map f) = (List.range n).map fun i => (i, f i) := by
  unfold Np.enumerate
  apply List.ext_getElem
  · simp
  · intro i h1 h2
    simp

theorem tdiv2 (ph : Nat) : Np.tdiv ph 2 = halfExt ph := rfl

/-- `bounds[i][j]` of the translated code, for centre `c` and offset `o` -/
def bndOf (ps : Nat × Nat) (c o : Pt) : Bnd :=
  (((sliceBounds ps.1 c.1 o.1).1, (sliceBounds ps.2 c.2 o.2).1), ((sliceBounds ps.1 c.1 o.1).2, (sliceBounds ps.2 c.2 o.2).2))

theorem bounds_eq (ps : Nat × Nat) (centres offs : List Pt) :
    Np.highFromLow (Np.roundBounds (Np.cornerGrid (centres + Np.halfPixel ps) (some offs)
        ((-(Np.tdiv ps.1 2), -(Np.tdiv ps.2 2)), (Np.tdiv ps.1 2, Np.tdiv ps.2 2)))) ps =
      (List.range centres.length).map fun i => (List.range offs.length).map fun j =>
        bndOf ps (getPt centres i) (getPt offs j) := by
  unfold Np.highFromLow Np.roundBounds Np.cornerGrid
  simp only [listPt_add, List.map_map, Option.getD_some]
  rw [map_eq_range_getPt centres]
  apply List.map_congr_left; intro i _
  simp only [Function.comp]
  rw [map_eq_range_getPt offs, List.map_map, List.map_map]
  apply List.map_congr_left; intro j _
  simp only [Function.comp, bndOf, sliceBounds, Np.roundPt, pt_add, Np.halfPixel, tdiv2]

theorem zip_map_map_self {β γ δ : Type} (l : List β) (f : β → γ) (g : β → δ) :
    (l.map f).zip (l.map g) = l.map fun a => (f a, g a) := by
  induction l with
  | nil => rfl
  | cons x xs ih => simp [List.zip_cons_cons, ih]

theorem zipWith_map_map_self {β γ δ ε : Type} (l : List β) (f : β → γ) (g : β → δ) (h : γ → δ → ε) :
    List.zipWith h (l.map f) (l.map g) = l.map fun a => h (f a) (g a) := by
  induction l with
  | nil => rfl
  | cons x xs ih => simp [ih]

/-- the two nested loops over `enumerate(zip(..))` as folds over index ranges -/
theorem sliceLoops_grid (pixels : NDArr α) (ps : Nat × Nat) (cval : α) (init : Except Err (NDArr α)) (n k : Nat)
    (PB TB : Nat → Nat → Bnd) :
    sliceLoops pixels ps cval init ((List.range n).map fun i => (List.range k).map (PB i))
        ((List.range n).map fun i => (List.range k).map (TB i)) =
      (List.range n).foldl (fun P i =>
        (List.range k).foldl (fun P j => sliceStep pixels ps cval i P (j, PB i j, TB i j)) P) init := by
  unfold sliceLoops
  simp only [Py.forLoop_eq_foldl, zip_map_map_self, enumerate_range_map, List.foldl_map]

/-- the grid of jobs of the translated function: clipped bounds and their difference to the bounds -/
theorem jobs_grid (s : Nat × Nat) (n k : Nat) (B : Nat → Nat → Bnd) :
    Np.clipBounds ((List.range n).map fun i => (List.range k).map (B i)) s =
        ((List.range n).map fun i => (List.range k).map fun j => Np.clipBnd s (B i j)) ∧
    (Np.clipBounds ((List.range n).map fun i => (List.range k).map (B i)) s -
        ((List.range n).map fun i => (List.range k).map (B i)) : List (List Bnd)) =
        ((List.range n).map fun i => (List.range k).map fun j => Np.subBnd (Np.clipBnd s (B i j)) (B i j)) := by
  have h1 : Np.clipBounds ((List.range n).map fun i => (List.range k).map (B i)) s =
        ((List.range n).map fun i => (List.range k).map fun j => Np.clipBnd s (B i j)) := by
    unfold Np.clipBounds
    rw [List.map_map]
    apply List.map_congr_left; intro i _
    simp only [Function.comp, List.map_map]
    rfl
  refine ⟨h1, ?_⟩
  rw [h1]
  show List.zipWith _ _ _ = _
  rw [zipWith_map_map_self]
  apply List.map_congr_left; intro i _
  rw [zipWith_map_map_self]

/-- the plans of iteration `(i, j)` of the model -/
def planAt (H W : Nat) (ps : Nat × Nat) (centres offs : List Pt) (i j : Nat) : SlicePlan × SlicePlan :=
  slicePlans H W ps.1 ps.2 (getPt centres i) (getPt offs j)

/-- element of the patch array after the first `i` rows of iterations and the first `j` iterations of row `i` -/
def partialElem (pix : NDArr α) (plan : Nat → Nat → SlicePlan × SlicePlan) (cval : α) (i j : Nat) : List Nat → α
  | [i', j', c, r, q] => if i' < i ∨ (i' = i ∧ j' < j) then sliceElem pix plan cval [i', j', c, r, q] else cval
  | _ => cval

def okRow (plan : Nat → Nat → SlicePlan × SlicePlan) (i j : Nat) : Bool :=
  (List.range j).all fun j' => (plan i j').1.ok && (plan i j').2.ok

def okBefore (plan : Nat → Nat → SlicePlan × SlicePlan) (k i j : Nat) : Bool :=
  ((List.range i).all fun i' => okRow plan i' k) && okRow plan i j

/-- the loop invariant: the carried array after the iterations before `(i, j)` -/
def stateAt (pix : NDArr α) (plan : Nat → Nat → SlicePlan × SlicePlan) (cval : α) (S : List Nat) (k i j : Nat) :
    Except Err (NDArr α) :=
  if okBefore plan k i j then .ok (ofFn S (partialElem pix plan cval i j)) else .error .value

theorem getD_ofFn (S : List Nat) (f : List Nat → α) (p : List Nat) (h : inRange S p = true) (d : α) :
    (ofFn S f).getD p d = f p := by
  unfold NDArr.getD; rw [get_ofFn S f p h]; rfl

theorem planOf_row (H W : Nat) (ps : Nat × Nat) (centres offs : List Pt) (i j : Nat) :
    Np.planOf ps.fst H
        ((Np.subBnd (Np.clipBnd (H, W) (bndOf ps (getPt centres i) (getPt offs j)))
            (bndOf ps (getPt centres i) (getPt offs j))).fst.fst,
          ↑ps.fst + (Np.subBnd (Np.clipBnd (H, W) (bndOf ps (getPt centres i) (getPt offs j)))
            (bndOf ps (getPt centres i) (getPt offs j))).snd.fst)
        ((Np.clipBnd (H, W) (bndOf ps (getPt centres i) (getPt offs j))).fst.fst,
          (Np.clipBnd (H, W) (bndOf ps (getPt centres i) (getPt offs j))).snd.fst) =
      (planAt H W ps centres offs i j).1 := rfl

theorem planOf_col (H W : Nat) (ps : Nat × Nat) (centres offs : List Pt) (i j : Nat) :
    Np.planOf ps.snd W
        ((Np.subBnd (Np.clipBnd (H, W) (bndOf ps (getPt centres i) (getPt offs j)))
            (bndOf ps (getPt centres i) (getPt offs j))).fst.snd,
          ↑ps.snd + (Np.subBnd (Np.clipBnd (H, W) (bndOf ps (getPt centres i) (getPt offs j)))
            (bndOf ps (getPt centres i) (getPt offs j))).snd.snd)
        ((Np.clipBnd (H, W) (bndOf ps (getPt centres i) (getPt offs j))).fst.snd,
          (Np.clipBnd (H, W) (bndOf ps (getPt centres i) (getPt offs j))).snd.snd) =
      (planAt H W ps centres offs i j).2 := rfl

/-- one iteration of the inner loop advances the invariant -/
theorem sliceStep_inv (pixels : NDArr α) (C H W : Nat) (hshape : pixels.shape = [C, H, W]) (ps : Nat × Nat) (cval : α)
    (centres offs : List Pt) (n k i j : Nat) (hi : i < n) (hj : j < k) :
    sliceStep pixels ps cval i (stateAt pixels (planAt H W ps centres offs) cval [n, k, C, ps.1, ps.2] k i j)
        (j, Np.clipBnd (H, W) (bndOf ps (getPt centres i) (getPt offs j)),
          Np.subBnd (Np.clipBnd (H, W) (bndOf ps (getPt centres i) (getPt offs j)))
            (bndOf ps (getPt centres i) (getPt offs j))) =
      stateAt pixels (planAt H W ps centres offs) cval [n, k, C, ps.1, ps.2] k i (j + 1) := by
  have hok : okBefore (planAt H W ps centres offs) k i (j + 1) =
      (okBefore (planAt H W ps centres offs) k i j &&
        ((planAt H W ps centres offs i j).1.ok && (planAt H W ps centres offs i j).2.ok)) := by
    simp only [okBefore, okRow, List.range_succ, List.all_append, List.all_cons, List.all_nil, Bool.and_true,
      Bool.and_assoc]
  unfold stateAt
  rw [hok]
  cases hb : okBefore (planAt H W ps centres offs) k i j
  · rfl
  · simp only [if_true, Bool.true_and, sliceStep, Np.assignPatch, hshape]
    have hs : (ofFn [n, k, C, ps.1, ps.2] (partialElem pixels (planAt H W ps centres offs) cval i j)).shape =
        [n, k, C, ps.1, ps.2] := rfl
    simp only [hs, hi, hj, and_self, not_true_eq_false, if_false, beq_self_eq_true, Bool.true_or, Bool.true_and]
    rw [planOf_row, planOf_col]
    apply ite_congr rfl (fun _ => ?_) (fun _ => rfl)
    congr 1
    apply ofFn_congr
    intro idx hidx
    obtain ⟨i', j', c, r, q, rfl, h1, h2, h3, h4, h5⟩ := inRange5 _ _ _ _ _ idx hidx
    simp only [getD_ofFn _ _ _ hidx, partialElem, sliceElem]
    have hc1 : (if (C == 1) = true then 0 else c) = c := by
      by_cases hC : C = 1
      · simp [hC]; omega
      · simp [hC]
    rw [hc1]
    by_cases hij : i' = i ∧ j' = j
    · obtain ⟨rfl, rfl⟩ := hij
      have hn : ¬(i' < i' ∨ i' = i' ∧ j' < j') := by omega
      have hy : (i' < i' ∨ i' = i' ∧ j' < j' + 1) := by omega
      simp only [true_and, hn, if_false, hy, if_true, Bool.and_eq_true]
      by_cases hcv : (planAt H W ps centres offs i' j').1.covers r = true ∧ (planAt H W ps centres offs i' j').2.covers q = true
      · rw [if_pos hcv, if_pos hcv]; simp
      · rw [if_neg hcv, if_neg hcv]; simp
    · have hn : ¬(i' = i ∧ j' = j ∧ (planAt H W ps centres offs i j).1.covers r = true ∧
          (planAt H W ps centres offs i j).2.covers q = true) := fun h => hij ⟨h.1, h.2.1⟩
      rw [if_neg hn]
      have hiff : (i' < i ∨ i' = i ∧ j' < j + 1) ↔ (i' < i ∨ i' = i ∧ j' < j) := by omega
      simp only [hiff]

theorem sliceStep_error (pixels : NDArr α) (ps : Nat × Nat) (cval : α) (i : Nat) (e : Err) (it : Nat × Bnd × Bnd) :
    sliceStep pixels ps cval i (.error e) it = .error e := rfl

/-- the inner loop over the offsets of centre `i` -/
theorem inner_fold (pixels : NDArr α) (C H W : Nat) (hshape : pixels.shape = [C, H, W]) (ps : Nat × Nat) (cval : α)
    (centres offs : List Pt) (n k i : Nat) (hi : i < n) : ∀ m, m ≤ k →
    (List.range m).foldl (fun P j => sliceStep pixels ps cval i P
        (j, Np.clipBnd (H, W) (bndOf ps (getPt centres i) (getPt offs j)),
          Np.subBnd (Np.clipBnd (H, W) (bndOf ps (getPt centres i) (getPt offs j)))
            (bndOf ps (getPt centres i) (getPt offs j))))
        (stateAt pixels (planAt H W ps centres offs) cval [n, k, C, ps.1, ps.2] k i 0) =
      stateAt pixels (planAt H W ps centres offs) cval [n, k, C, ps.1, ps.2] k i m := by
  intro m
  induction m with
  | zero => intro _; rfl
  | succ m ih =>
    intro hm
    rw [List.range_succ, List.foldl_append, ih (by omega)]
    exact sliceStep_inv pixels C H W hshape ps cval centres offs n k i m hi (by omega)

/-- finishing row `i` is starting row `i + 1` -/
theorem row_end (pixels : NDArr α) (plan : Nat → Nat → SlicePlan × SlicePlan) (cval : α) (n k C ph pw i : Nat) :
    stateAt pixels plan cval [n, k, C, ph, pw] k i k = stateAt pixels plan cval [n, k, C, ph, pw] k (i + 1) 0 := by
  unfold stateAt
  have hok : okBefore plan k i k = okBefore plan k (i + 1) 0 := by
    simp only [okBefore, okRow, List.range_succ, List.all_append, List.all_cons, List.all_nil, Bool.and_true,
      List.range_zero]
  rw [hok]
  apply ite_congr rfl (fun _ => ?_) (fun _ => rfl)
  congr 1
  apply ofFn_congr
  intro idx hidx
  obtain ⟨i', j', c, r, q, rfl, h1, h2, h3, h4, h5⟩ := inRange5 _ _ _ _ _ idx hidx
  have hiff : (i' < i ∨ i' = i ∧ j' < k) ↔ (i' < i + 1 ∨ i' = i + 1 ∧ j' < 0) := by omega
  simp only [partialElem, hiff]

/-- the outer loop over the centres -/
theorem outer_fold (pixels : NDArr α) (C H W : Nat) (hshape : pixels.shape = [C, H, W]) (ps : Nat × Nat) (cval : α)
    (centres offs : List Pt) (n k : Nat) : ∀ m, m ≤ n →
    (List.range m).foldl (fun P i => (List.range k).foldl (fun P j => sliceStep pixels ps cval i P
        (j, Np.clipBnd (H, W) (bndOf ps (getPt centres i) (getPt offs j)),
          Np.subBnd (Np.clipBnd (H, W) (bndOf ps (getPt centres i) (getPt offs j)))
            (bndOf ps (getPt centres i) (getPt offs j)))) P)
        (stateAt pixels (planAt H W ps centres offs) cval [n, k, C, ps.1, ps.2] k 0 0) =
      stateAt pixels (planAt H W ps centres offs) cval [n, k, C, ps.1, ps.2] k m 0 := by
  intro m
  induction m with
  | zero => intro _; rfl
  | succ m ih =>
    intro hm
    rw [List.range_succ, List.foldl_append, ih (by omega)]
    simp only [List.foldl_cons, List.foldl_nil]
    rw [inner_fold pixels C H W hshape ps cval centres offs n k m (by omega) k (Nat.le_refl k), row_end]

theorem all_indices2 (n k : Nat) (p : List Nat → Bool) :
    (indices [n, k]).all p = (List.range n).all fun i => (List.range k).all fun j => p [i, j] := by
  simp only [indices, List.all_flatMap, List.all_map, List.map_cons, List.map_nil, List.flatMap_cons, List.flatMap_nil,
    List.append_nil, Function.comp, List.all_cons, List.all_nil, Bool.and_true]

/-- PROPERTY (`extract_patches_with_slice` as translated - half-pixel shift, corner offsets, `np.round`, `np.clip`, the
patch bounds, the two nested loops over `enumerate(zip(pixel_bounds, patch_bounds))` and the slice assignment in
their body - is the model's slicing path): the loops write exactly the element-wise array of `extractSlice`,
and raise ValueError exactly when one of the iterations' assignments does not broadcast -/
theorem extractPatchesWithSlice_eq_core (pixels : NDArr α) (centres : List Pt) (ps : Nat × Nat)
    (offsets : Option (List Pt)) (cval : α) :
    Src.extractPatchesWithSlice pixels centres ps offsets cval = extractSlice pixels centres ps.1 ps.2 offsets cval := by
  by_cases h3 : ∃ C H W, pixels.shape = [C, H, W]
  · obtain ⟨C, H, W, hshape⟩ := h3
    unfold Src.extractPatchesWithSlice extractSlice
    have hoffs : (if offsets.isNone = true then some [((0 : Rat), (0 : Rat))] else offsets) =
        some (offsets.getD [(0, 0)]) := by cases offsets <;> rfl
    have hk : (if (!offsets.isNone) = true then (offsets.getD []).length else 1) = (offsets.getD [(0, 0)]).length := by
      cases offsets <;> rfl
    simp only [Np.ndim, hshape, List.length_cons, List.length_nil, bne_self_eq_false, Bool.false_eq_true, if_false,
      hoffs, hk, Np.spatial, List.getD_cons_succ, List.getD_cons_zero, Np.len0, HasLen0.len0, List.headD_cons]
    generalize offsets.getD [(0, 0)] = offs
    rw [bounds_eq]
    obtain ⟨e1, e2⟩ := jobs_grid (H, W) centres.length offs.length
      (fun i j => bndOf ps (getPt centres i) (getPt offs j))
    rw [e2, e1, sliceLoops_grid]
    have h0 : (Except.ok (full [centres.length, offs.length, C, ps.1, ps.2] cval) : Except Err (NDArr α)) =
        stateAt pixels (planAt H W ps centres offs) cval [centres.length, offs.length, C, ps.1, ps.2] offs.length 0 0 := by
      unfold stateAt
      simp only [okBefore, okRow, List.range_zero, List.all_nil, Bool.and_self, if_true, full]
      congr 1
      apply ofFn_congr
      intro idx hidx
      obtain ⟨i', j', c, r, q, rfl, _⟩ := inRange5 _ _ _ _ _ idx hidx
      simp [partialElem]
    rw [h0, outer_fold pixels C H W hshape ps cval centres offs centres.length offs.length centres.length (Nat.le_refl _)]
    unfold stateAt
    have hall : okBefore (planAt H W ps centres offs) offs.length centres.length 0 =
        (indices [centres.length, offs.length]).all
          (plansOK fun i j => slicePlans H W ps.1 ps.2 (getPt centres i) (getPt offs j)) := by
      rw [all_indices2]
      simp only [okBefore, okRow, List.range_zero, List.all_nil, Bool.and_true, plansOK, planAt]
    rw [hall]
    apply ite_congr rfl (fun _ => ?_) (fun _ => rfl)
    congr 1
    apply ofFn_congr
    intro idx hidx
    obtain ⟨i', j', c, r, q, rfl, h1, _⟩ := inRange5 _ _ _ _ _ idx hidx
    have : i' < centres.length ∨ i' = centres.length ∧ j' < 0 := Or.inl h1
    simp only [partialElem, this, if_true]
    rfl
  · have hl : pixels.shape.length ≠ 3 := by
      intro hl
      apply h3
      match hs : pixels.shape, hl with
      | [C, H, W], _ => exact ⟨C, H, W, rfl⟩
    unfold Src.extractPatchesWithSlice extractSlice
    simp only [Np.ndim, bne_iff_ne, ne_eq, hl, not_false_eq_true, if_true]
    split
    · rename_i C H W h2; exact absurd ⟨_, _, _, h2⟩ h3
    · rfl


/-! ### _convert_patches_list_to_single_array -/

theorem inRange_cons2 (n k : Nat) (rest idx : List Nat) (h : inRange (n :: k :: rest) idx = true) :
    ∃ i j r, idx = i :: j :: r ∧ i < n ∧ j < k ∧ inRange rest r = true := by
  match idx, h with
  | i :: j :: r, h =>
    simp only [inRange, Bool.and_eq_true, decide_eq_true_eq] at h
    exact ⟨i, j, r, rfl, h.1, h.2.1, h.2.2⟩
  | [], h => simp [inRange] at h
  | [_], h => simp [inRange] at h

/-- element of the assembled array after the first `p` rows and the first `o` entries of row `p` -/
def convElem (l : List (NDArr α)) (k : Nat) (dflt : α) (p o : Nat) : List Nat → α
  | i :: j :: r => if i < p ∨ (i = p ∧ j < o) then listElem l k dflt (i :: j :: r) else dflt
  | _ => dflt

theorem convertStep_inv (dflt : α) (l : List (NDArr α)) (rest : List Nat) (hl : ∀ e ∈ l, e.shape = rest)
    (n k : Nat) (hk : n * k ≤ l.length) (p o : Nat) (hp : p < n) (ho : o < k) :
    convertStep dflt l p (.ok (ofFn (n :: k :: rest) (convElem l k dflt p o)), p * k + o) o =
      (.ok (ofFn (n :: k :: rest) (convElem l k dflt p (o + 1))), p * k + (o + 1)) := by
  have ht : p * k + o < l.length := by
    have h1 : (p + 1) * k ≤ n * k := Nat.mul_le_mul_right _ hp
    rw [Nat.succ_mul] at h1
    omega
  unfold convertStep Np.assignEntry
  simp only [List.getElem?_eq_getElem ht]
  have hs : (ofFn (n :: k :: rest) (convElem l k dflt p o)).shape = n :: k :: rest := rfl
  simp only [hs, hp, ho, and_self, not_true_eq_false, if_false, hl _ (List.getElem_mem ht), if_true, Prod.mk.injEq,
    Nat.add_assoc, and_true]
  congr 1
  apply ofFn_congr
  intro idx hidx
  obtain ⟨i, j, r, rfl, hi, hj, hr⟩ := inRange_cons2 n k rest idx hidx
  simp only [getD_ofFn _ _ _ hidx, convElem]
  by_cases hij : i = p ∧ j = o
  · obtain ⟨rfl, rfl⟩ := hij
    have hy : (i < i ∨ i = i ∧ j < j + 1) := by omega
    simp only [and_self, if_true, listElem, List.getElem?_eq_getElem ht, Option.map_some, Option.getD_some]
    simp
  · rw [if_neg hij]
    have hiff : (i < p ∨ i = p ∧ j < o + 1) ↔ (i < p ∨ i = p ∧ j < o) := by omega
    simp only [hiff]

theorem convert_inner (dflt : α) (l : List (NDArr α)) (rest : List Nat) (hl : ∀ e ∈ l, e.shape = rest)
    (n k : Nat) (hk : n * k ≤ l.length) (p : Nat) (hp : p < n) : ∀ m, m ≤ k →
    (List.range m).foldl (convertStep dflt l p) (.ok (ofFn (n :: k :: rest) (convElem l k dflt p 0)), p * k + 0) =
      (.ok (ofFn (n :: k :: rest) (convElem l k dflt p m)), p * k + m) := by
  intro m
  induction m with
  | zero => intro _; rfl
  | succ m ih =>
    intro hm
    rw [List.range_succ, List.foldl_append, ih (by omega)]
    exact convertStep_inv dflt l rest hl n k hk p m hp (by omega)

theorem convert_row_end (l : List (NDArr α)) (rest : List Nat) (dflt : α) (n k p : Nat) :
    ofFn (n :: k :: rest) (convElem l k dflt p k) = ofFn (n :: k :: rest) (convElem l k dflt (p + 1) 0) := by
  apply ofFn_congr
  intro idx hidx
  obtain ⟨i, j, r, rfl, hi, hj, hr⟩ := inRange_cons2 n k rest idx hidx
  have hiff : (i < p ∨ i = p ∧ j < k) ↔ (i < p + 1 ∨ i = p + 1 ∧ j < 0) := by omega
  simp only [convElem, hiff]

theorem convert_outer (dflt : α) (l : List (NDArr α)) (rest : List Nat) (hl : ∀ e ∈ l, e.shape = rest)
    (n k : Nat) (hk : n * k ≤ l.length) : ∀ m, m ≤ n →
    (List.range m).foldl (fun st p => (List.range k).foldl (convertStep dflt l p) st)
        (.ok (ofFn (n :: k :: rest) (convElem l k dflt 0 0)), 0) =
      (.ok (ofFn (n :: k :: rest) (convElem l k dflt m 0)), m * k) := by
  intro m
  induction m with
  | zero => intro _; simp
  | succ m ih =>
    intro hm
    rw [List.range_succ, List.foldl_append, ih (by omega)]
    simp only [List.foldl_cons, List.foldl_nil]
    have := convert_inner dflt l rest hl n k hk m (by omega) k (Nat.le_refl k)
    simp only [Nat.add_zero] at this
    rw [this, convert_row_end, Nat.succ_mul]

/-- PROPERTY (`_convert_patches_list_to_single_array` as translated - the integer division, the attributes of the
first entry, `np.empty`, the two nested loops with their running index - is the model's `fromPatchList`) on lists
of patch images of one shape `(C, h, w)` -/
theorem convertPatchesList_eq_core (dflt : α) (l : List (NDArr α)) (C h w : Nat) (hl : ∀ e ∈ l, e.shape = [C, h, w])
    (n : Nat) : Src.convertPatchesList dflt l n = fromPatchList l n dflt := by
  unfold Src.convertPatchesList fromPatchList Np.intDivE
  by_cases hn : n = 0
  · simp only [hn, if_true]; rfl
  · simp only [hn, if_false]
    cases l with
    | nil => rfl
    | cons p0 ps =>
      have h0 : p0.shape = [C, h, w] := hl p0 (by simp)
      have hk : n * ((p0 :: ps).length / n) ≤ (p0 :: ps).length := by
        rw [Nat.mul_comm]; exact Nat.div_mul_le_self _ _
      simp only [PList.nChannels0, PList.height0, PList.width0, h0, List.headD_cons, List.length_cons, List.length_nil,
        Py.forLoop_eq_foldl]
      show Except.bind (Except.ok _) _ = _
      simp only [Except.bind]
      have hinit : (Except.ok (full [n, (p0 :: ps).length / n, C, h, w] dflt) : Except Err (NDArr α)) =
          .ok (ofFn (n :: ((p0 :: ps).length / n) :: [C, h, w]) (convElem (p0 :: ps) ((p0 :: ps).length / n) dflt 0 0)) := by
        unfold full
        congr 1
        apply ofFn_congr
        intro idx hidx
        obtain ⟨i, j, r, rfl, _⟩ := inRange_cons2 _ _ _ idx hidx
        simp [convElem]
      have := convert_outer dflt (p0 :: ps) [C, h, w] hl n ((p0 :: ps).length / n) hk n (Nat.le_refl n)
      simp only [List.length_cons] at this hinit
      simp only [List.getD_cons_succ, List.getD_cons_zero, Nat.add_one_sub_one, Nat.reduceAdd, Nat.reduceSub]
      rw [hinit, this]
      show Except.ok _ = Except.ok _
      congr 1
      apply ofFn_congr
      intro idx hidx
      obtain ⟨i, j, r, rfl, hi, _⟩ := inRange_cons2 _ _ _ idx hidx
      have : i < n ∨ i = n ∧ j < 0 := Or.inl hi
      simp only [convElem, this, if_true]


theorem convert_inner_idx (dflt : α) (l : List (NDArr α)) (k p : Nat) (A : Except Err (NDArr α)) : ∀ m,
    (List.range m).foldl (convertStep dflt l p) (A, p * k + 0) =
      ((List.range m).foldl (fun A o => Np.assignEntry dflt A p o l (p * k + o)) A, p * k + m) := by
  intro m
  induction m with
  | zero => rfl
  | succ m ih =>
    rw [List.range_succ, List.foldl_append, List.foldl_append, ih]
    simp only [List.foldl_cons, List.foldl_nil, convertStep, Nat.add_assoc]

theorem convert_outer_idx (dflt : α) (l : List (NDArr α)) (k : Nat) (A : Except Err (NDArr α)) : ∀ m,
    (List.range m).foldl (fun st p => (List.range k).foldl (convertStep dflt l p) st) (A, 0) =
      ((List.range m).foldl (fun A p => (List.range k).foldl (fun A o => Np.assignEntry dflt A p o l (p * k + o)) A) A,
        m * k) := by
  intro m
  induction m with
  | zero => simp
  | succ m ih =>
    rw [List.range_succ, List.foldl_append, List.foldl_append, ih]
    simp only [List.foldl_cons, List.foldl_nil]
    have := convert_inner_idx dflt l k m
      ((List.range m).foldl (fun A p => (List.range k).foldl (fun A o => Np.assignEntry dflt A p o l (p * k + o)) A) A) k
    simp only [Nat.add_zero] at this
    rw [this, Nat.succ_mul]

/-- the running index of `_convert_patches_list_to_single_array` is `p * n_offsets + o`: the spelling with a
counter and the spelling with the computed index are the same function, for all arguments -/
theorem convertPatchesListIdx_eq (dflt : α) (l : List (NDArr α)) (n : Nat) :
    convertPatchesListIdx dflt l n = convertPatchesList dflt l n := by
  unfold convertPatchesListIdx convertPatchesList
  simp only [Py.forLoop_eq_foldl, convert_outer_idx]


/-! ### Image.extract_patches / set_patches (the public entry points) -/

theorem row_WF (a : NDArr α) (n : Nat) (s : List Nat) (hs : a.shape = n :: s) (hwf : a.WF) (i : Nat) (hi : i < n) :
    (a.row i).WF := by
  unfold NDArr.WF NDArr.row at *
  simp only [hs, List.tail_cons, sz, List.length_take, List.length_drop] at *
  have h1 : (i + 1) * sz s ≤ n * sz s := Nat.mul_le_mul_right _ hi
  rw [Nat.succ_mul] at h1
  omega

/-- `a[i][j]` is the model's `patchAt a d [i, j]` -/
theorem row_row_eq_patchAt (a : NDArr α) (n k : Nat) (rest : List Nat) (hs : a.shape = n :: k :: rest) (hwf : a.WF)
    (d : α) (i j : Nat) (hi : i < n) (hj : j < k) : (a.row i).row j = patchAt a d [i, j] := by
  have w1 := row_WF a n (k :: rest) hs hwf i hi
  have s1 : (a.row i).shape = k :: rest := by rw [row_shape, hs]; rfl
  have w2 := row_WF (a.row i) k rest s1 w1 j hj
  apply NDArr.ext_get _ _ w2 (ofFn_WF _ _)
  · simp only [row_shape, hs, patchAt, ofFn, List.tail_cons, List.drop_succ_cons, List.drop_zero]
  · intro idx hidx
    have hr : ((a.row i).row j).shape = rest := by rw [row_shape, s1]; rfl
    rw [hr] at hidx
    rw [get?_row _ k rest s1 j hj, get?_row a n (k :: rest) hs i hi]
    simp only [hs, List.drop_succ_cons, List.drop_zero]
    rw [get_ofFn _ _ _ hidx]
    have hin : inRange a.shape (i :: j :: idx) = true := by simp [hs, inRange, hi, hj, hidx]
    obtain ⟨v, hv⟩ := get?_some_of_WF a hwf _ hin
    simp only [List.cons_append, List.nil_append, NDArr.getD, hv, Option.getD_some]

/-- `[Image(o, copy=False) for p in single_array for o in p]` is the model's patch list -/
theorem rows_flat_eq_toPatchList (a : NDArr α) (n k : Nat) (rest : List Nat) (hs : a.shape = n :: k :: rest)
    (hwf : a.WF) (d : α) :
    ((Np.iter a).flatMap fun p => (Np.iter p).flatMap fun o => [o]) = toPatchList a d := by
  unfold toPatchList
  simp only [Np.iter, PyIter.iter, NDArr.rows, hs, List.headD_cons, List.take_succ_cons, List.take_zero,
    List.flatMap_map, indices, List.map_flatMap, List.map_map, List.map_cons, List.map_nil, List.flatMap_cons,
    List.flatMap_nil, List.append_nil, Function.comp, ← List.map_eq_flatMap]
  apply flatMap_congr'; intro i hi
  have hi' := List.mem_range.1 hi
  have s1 : (a.row i).shape = k :: rest := by rw [row_shape, hs]; rfl
  simp only [s1, List.headD_cons]
  apply List.map_congr_left; intro j hj
  exact row_row_eq_patchAt a n k rest hs hwf d i j hi' (List.mem_range.1 hj)

theorem extractSampling_ok_form (v : Variant) (sample : Nat → Pt → α) (C ph pw : Nat) (centres : List Pt)
    (offsets : Option (List Pt)) (dflt : α) (out : NDArr α)
    (h : extractSampling v sample C ph pw centres offsets dflt = .ok out) :
    out.WF ∧ ∃ lit, out.shape = [centres.length, (offsets.getD [(0, 0)]).length, lit, ph, pw] := by
  unfold extractSampling at h
  dsimp only at h
  split at h
  · cases h
  · injection h with h; subst h; exact ⟨ofFn_WF _ _, _, rfl⟩

/-- the model's answer in the two return formats of `Image.extract_patches` -/
def outOf (asSingle : Bool) (d : α) (a : NDArr α) : PatchesOut α :=
  if asSingle then .single a else .list (toPatchList a d)

/-- PROPERTY (`Image.extract_patches` as translated - the 2-D check, the `order == 0 and mode == 'constant'`
dispatch, the arguments handed to either path, and both return formats - is the model's `extractPatches`
followed by the model's list format) -/
theorem extractPatches_eq_core (pix : NDArr α) (C H W : Nat) (hshape : pix.shape = [C, H, W])
    (sampler : Nat → Mode → Nat → Pt → α) (centres : List Pt) (ps : Nat × Nat) (offsets : Option (List Pt))
    (asSingle : Bool) (order : Nat) (mode : Mode) (cval : α) :
    Src.extractPatches pix sampler centres ps offsets asSingle order mode cval =
      (C13.extractPatches .repaired sampler pix centres ps.1 ps.2 offsets order mode cval).map (outOf asSingle cval) := by
  unfold Src.extractPatches C13.extractPatches
  simp only [Img.nDims, hshape, List.tail_cons, List.length_cons, List.length_nil, bne_self_eq_false,
    Bool.false_eq_true, if_false]
  by_cases hd : order = 0 ∧ mode = Mode.constant
  · have hb : (order == 0 && mode == Mode.constant) = true := by simp [hd.1, hd.2]
    rw [if_pos hb, if_pos hd, extractPatchesWithSlice_eq_core]
    cases he : extractSlice pix centres ps.1 ps.2 offsets cval with
    | error e => rfl
    | ok a =>
      have hwf := extractSlice_WF pix centres ps.1 ps.2 offsets cval a he
      have hs : a.shape = [centres.length, (offsets.getD [(0, 0)]).length, C, ps.1, ps.2] := by
        unfold extractSlice at he
        simp only [hshape] at he
        split at he
        · cases he; rfl
        · cases he
      simp only [except_bind_ok, Except.map, outOf]
      cases asSingle
      · simp only [Bool.false_eq_true, if_false]
        rw [rows_flat_eq_toPatchList a _ _ _ hs hwf cval]
      · rfl
  · have hb : (order == 0 && mode == Mode.constant) = false := by
      cases h : (order == 0 && mode == Mode.constant)
      · rfl
      · simp only [Bool.and_eq_true, beq_iff_eq] at h; exact absurd h hd
    rw [hb, if_neg hd, extractPatchesBySampling_eq_core pix C H W hshape]
    simp only [Bool.false_eq_true, if_false]
    cases he : extractSampling .repaired (sampler order mode) C ps.1 ps.2 centres offsets cval with
    | error e => rfl
    | ok a =>
      obtain ⟨hwf, lit, hs⟩ := extractSampling_ok_form _ _ _ _ _ _ _ _ a he
      simp only [except_bind_ok, Except.map, outOf]
      cases asSingle
      · simp only [Bool.false_eq_true, if_false]
        rw [rows_flat_eq_toPatchList a _ _ _ hs hwf cval]
      · rfl

/-- an image that is not two-dimensional is refused -/
theorem extractPatches_not2d (pix : NDArr α) (h : Img.nDims pix ≠ 2)
    (sampler : Nat → Mode → Nat → Pt → α) (centres : List Pt) (ps : Nat × Nat) (offsets : Option (List Pt))
    (asSingle : Bool) (order : Nat) (mode : Mode) (cval : α) :
    Src.extractPatches pix sampler centres ps offsets asSingle order mode cval = .error .value := by
  unfold Src.extractPatches
  simp only [bne_iff_ne, ne_eq, h, not_false_eq_true, if_true]

/-- PROPERTY (`extract_patches_around_landmarks` as translated): always the slicing path with fill value 0 -/
theorem extractPatchesAroundLandmarks_eq_core (pix : NDArr α) (C H W : Nat) (hshape : pix.shape = [C, H, W])
    (sampler : Nat → Mode → Nat → Pt → α) (lms : List Pt) (zero : α) (ps : Nat × Nat) (offsets : Option (List Pt))
    (asSingle : Bool) :
    Src.extractPatchesAroundLandmarks pix sampler lms zero ps offsets asSingle =
      (extractAroundLandmarks pix lms ps.1 ps.2 offsets zero).map (outOf asSingle zero) := by
  unfold Src.extractPatchesAroundLandmarks extractAroundLandmarks
  rw [extractPatches_eq_core pix C H W hshape]
  simp [C13.extractPatches]

/-- the model's view of the `offset` argument -/
def offOpt : Option OffArg → Option (Int × Int)
  | none => none
  | some (.tuple a b) => some (a, b)
  | some (.arr _ [a, b]) => some (a, b)
  | some (.arr _ _) => none

/-- the spellings of `offset` the documentation allows: `None`, a pair, a `(1, 2)` array -/
def OffArg.legal : Option OffArg → Bool
  | none => true
  | some (.tuple _ _) => true
  | some (.arr [1, 2] [_, _]) => true
  | _ => false

theorem except_bind_id {ε β : Type} (x : Except ε β) : (x.bind fun c => .ok c) = x := by
  cases x <;> rfl

theorem setPatchesTail_single (dflt : α) (pix a : NDArr α) (n k C' ph pw : Nat) (hp : a.shape = [n, k, C', ph, pw])
    (centres : List Pt) (x y : Int) (oi : Option Nat) :
    Src.setPatchesTail dflt pix (.single a) centres (some (.arr [1, 2] [x, y])) oi =
      C13.setPatches .repaired a pix centres (x, y) (oi.getD 0) dflt := by
  unfold Src.setPatchesTail
  simp only [OffArg.shapeIs12, Bool.not_true, Bool.false_eq_true, if_false, PatchArg.isList, PatchArg.setInto,
    OffArg.toPair]
  rw [setPatches_eq_core dflt a pix n k C' ph pw hp]
  cases oi <;> simp only [except_bind_id, Option.isNone_none, Option.isNone_some, if_true, Bool.false_eq_true, if_false,
    Option.getD_some, Option.getD_none]

/-- PROPERTY (`Image.set_patches` as translated, array argument): the 2-D check, the three spellings of `offset`
(`None` = `(0, 0)`, a pair, a `(1, 2)` array), `offset_index=None` = 0, the copy and the call of `set_patches` are
the model's `setPatchesApi` -/
theorem setPatchesApi_single_eq_core (dflt : α) (pix a : NDArr α) (C H W n k C' ph pw : Nat)
    (hshape : pix.shape = [C, H, W]) (hp : a.shape = [n, k, C', ph, pw]) (centres : List Pt)
    (offset : Option OffArg) (hl : OffArg.legal offset = true) (oi : Option Nat) :
    Src.setPatchesApi dflt pix (.single a) centres offset oi =
      C13.setPatchesApi .repaired (.single a) pix centres (offOpt offset) oi dflt := by
  unfold Src.setPatchesApi C13.setPatchesApi
  simp only [Img.nDims, hshape, List.tail_cons, List.length_cons, List.length_nil, bne_self_eq_false,
    Bool.false_eq_true, if_false]
  match offset, hl with
  | none, _ =>
    simp only [Option.isNone_none, if_true, offOpt, Option.getD_none]
    exact setPatchesTail_single dflt pix a n k C' ph pw hp centres 0 0 oi
  | some (.tuple x y), _ =>
    simp only [Option.isNone_some, Bool.false_eq_true, if_false, OffArg.isTuple, Bool.true_or, if_true, OffArg.asRow,
      offOpt, Option.getD_some]
    exact setPatchesTail_single dflt pix a n k C' ph pw hp centres x y oi
  | some (.arr [1, 2] [x, y]), _ =>
    simp only [Option.isNone_some, Bool.false_eq_true, if_false, OffArg.isTuple, OffArg.isList, Bool.or_self, offOpt,
      Option.getD_some]
    exact setPatchesTail_single dflt pix a n k C' ph pw hp centres x y oi

/-- an offset array of another shape is refused with ValueError -/
theorem setPatchesApi_bad_offset (dflt : α) (pix : NDArr α) (patches : PatchArg α) (centres : List Pt)
    (s : List Nat) (d : List Int) (hs : s ≠ [1, 2]) (oi : Option Nat) :
    Src.setPatchesApi dflt pix patches centres (some (.arr s d)) oi = .error .value := by
  unfold Src.setPatchesApi Src.setPatchesTail
  have h12 : OffArg.shapeIs12 (some (.arr s d)) = false := by
    unfold OffArg.shapeIs12
    split
    · rename_i h; injection h with h; injection h with h1 h2; exact absurd h1 hs
    · rfl
  simp only [Option.isNone_some, Bool.false_eq_true, if_false, OffArg.isTuple, OffArg.isList, Bool.or_self, h12,
    Bool.not_false, if_true]
  split <;> rfl

/-- PROPERTY (`Image.set_patches` as translated, list argument): the list is converted first (the translated
`_convert_patches_list_to_single_array`, equal to the model's `fromPatchList`) and then written as an array -/
theorem setPatchesApi_list_eq_core (dflt : α) (pix : NDArr α) (l : List (NDArr α)) (C H W C' ph pw : Nat)
    (hshape : pix.shape = [C, H, W]) (hl0 : ∀ p ∈ l, p.shape = [C', ph, pw]) (centres : List Pt)
    (offset : Option OffArg) (hl : OffArg.legal offset = true) (oi : Option Nat) :
    Src.setPatchesApi dflt pix (.list l) centres offset oi =
      C13.setPatchesApi .repaired (.list l) pix centres (offOpt offset) oi dflt := by
  have hconv := convertPatchesList_eq_core dflt l C' ph pw hl0 centres.length
  cases hf : fromPatchList l centres.length dflt with
  | error e =>
    unfold Src.setPatchesApi Src.setPatchesTail C13.setPatchesApi
    simp only [Img.nDims, hshape, List.tail_cons, List.length_cons, List.length_nil, bne_self_eq_false,
      Bool.false_eq_true, if_false, PatchArg.isList, if_true, PatchArg.convert, hconv, hf, Except.map, except_bind_error]
    match offset, hl with
    | none, _ => simp [OffArg.shapeIs12]
    | some (.tuple x y), _ => simp [OffArg.shapeIs12, OffArg.isTuple, OffArg.asRow]
    | some (.arr [1, 2] [x, y]), _ => simp [OffArg.shapeIs12, OffArg.isTuple, OffArg.isList]
  | ok a =>
    have hp : a.shape = [centres.length, l.length / centres.length, C', ph, pw] := by
      unfold fromPatchList at hf
      split at hf
      · cases hf
      · split at hf
        · cases hf
        · rename_i p0 rest
          injection hf with hf; subst hf
          simp only [ofFn, hl0 p0 (by simp)]
    have hsingle := setPatchesApi_single_eq_core dflt pix a C H W _ _ C' ph pw hshape hp centres offset hl oi
    have e1 : Src.setPatchesApi dflt pix (.list l) centres offset oi =
        Src.setPatchesApi dflt pix (.single a) centres offset oi := by
      unfold Src.setPatchesApi Src.setPatchesTail
      simp only [PatchArg.isList, if_true, PatchArg.convert, hconv, hf, Except.map, except_bind_ok, Bool.false_eq_true,
        if_false]
    rw [e1, hsingle]
    simp only [C13.setPatchesApi, hf]

end MenpoModel.C13.Src
