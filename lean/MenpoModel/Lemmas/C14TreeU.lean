/-
C14 — `UndirectedGraph.is_tree()` for graphs of every size: it holds exactly for the non-empty connected
graphs without cycle, and it equals the model's reference `refTreeU` (cyclomatic number 0 and one
component) on EVERY symmetric graph; on connected graphs the detector equals the cyclomatic-number
reference `refCycleU`.  Uses the edge count of `Lemmas/C14Forest.lean`.  Core Lean only.
-/
import MenpoModel.Lemmas.C14Cycle
import MenpoModel.Lemmas.C14Forest

namespace MenpoModel.C14
open Graph Dfs

theorem und_eq_row (g : Graph) (hs : g.Symmetric) (u : Nat) (hu : u < g.n) : g.und u = g.row u := by
  unfold Graph.und Graph.row
  apply List.filter_congr
  intro v hv
  have hv' := List.mem_range.1 hv
  rw [hs v u hv' hu]
  simp

theorem uedges_adjacencyList (g : Graph) : uedges (adjOf g.adjacencyList) g.n = g.edgesU := by
  unfold uedges Graph.edgesU
  have : ∀ (l : List Nat), (∀ i ∈ l, i < g.n) →
      (l.flatMap fun i => ((adjOf g.adjacencyList i).filter fun j => decide (i ≤ j)).map fun j => (i, j)) =
      (l.flatMap fun i => ((g.row i).filter fun j => decide (i ≤ j)).map fun j => (i, j)) := by
    intro l
    induction l with
    | nil => intro _; rfl
    | cons a t ih =>
      intro h
      simp only [List.flatMap_cons]
      rw [ih (fun i hi => h i (by simp [hi])), adjOf_adjacencyList, if_pos (h a (by simp))]
  exact this _ (fun i hi => List.mem_range.1 hi)

theorem nUndEdges_eq (g : Graph) (hs : g.Symmetric) : g.nUndEdges = g.edgesU.length := by
  unfold Graph.nUndEdges Graph.edgesU
  rw [List.length_flatMap, List.length_flatMap]
  congr 1
  apply List.map_congr_left
  intro i hi
  rw [und_eq_row g hs i (List.mem_range.1 hi), List.length_map]

theorem walk_of_reach_und (g : Graph) (hs : g.Symmetric) (x v : Nat) (hx : x < g.n) (h : Reach g.und x v) :
    Walk (adjOf g.adjacencyList) x v := by
  have : v < g.n ∧ Walk (adjOf g.adjacencyList) x v := by
    induction h with
    | refl => exact ⟨hx, Walk.refl _⟩
    | @tail b c _ hy ih =>
      rw [und_eq_row g hs b ih.1] at hy
      have hy' := (mem_row g _ _).1 hy
      exact ⟨hy'.1, Walk.tail ih.2 ((mem_adjOf_adjacencyList g _ _).2 ⟨ih.1, hy'.1, hy'.2⟩)⟩
  exact this.2

/-- a connected graph has at least `n - 1` edges, and the detector finds no cycle iff it has exactly `n - 1` -/
theorem connected_edge_count (g : Graph) (hs : g.Symmetric) (hc : g.Connected) (hn : 0 < g.n) :
    g.n ≤ g.edgesU.length + 1 ∧ (g.hasCycles false = false ↔ g.edgesU.length + 1 = g.n) := by
  have key : ∀ x, x < g.n →
      g.n ≤ g.edgesU.length + 1 ∧
      ((dfs g.adjacencyList false (2 * g.adjacencyList.length + 2) x ⟨[], [], [], []⟩).backEdges = [] ↔
        g.edgesU.length + 1 = g.n) := by
    intro x hx
    have := back_nil_iff_edge_count g.adjacencyList (adjacencyList_wf g) (adjacencyList_sym g hs)
      (adjacencyList_nodup g) x (by rw [adjacencyList_length]; exact hx)
      (fun v hv => walk_of_reach_und g hs x v hx (hc x v hx (by rw [adjacencyList_length] at hv; exact hv)))
    rw [adjacencyList_length, uedges_adjacencyList] at this
    rw [adjacencyList_length]
    exact this
  refine ⟨(key 0 hn).1, ?_⟩
  have hiff : g.hasCycles false = false ↔
      ∀ x, x < g.n → (dfs g.adjacencyList false (2 * g.adjacencyList.length + 2) x ⟨[], [], [], []⟩).backEdges = [] := by
    rw [← Bool.not_eq_true, Graph.hasCycles, hasCyclesL_iff, adjacencyList_length]
    constructor
    · intro h x hx
      apply Classical.byContradiction
      intro hne
      exact h ⟨x, hx, hne⟩
    · rintro h ⟨x, hx, hne⟩
      exact hne (h x hx)
  rw [hiff]
  constructor
  · intro h; exact (key 0 hn).2.1 (h 0 hn)
  · intro h x hx; exact (key x hx).2.2 h

/-- UNBOUNDED.  `UndirectedGraph.is_tree()` is "non-empty, connected, without cycle": the edge count the
code tests is implied. -/
theorem isTree_undirected_iff_connected_acyclic (g : Graph) (hs : g.Symmetric) :
    g.isTree false = true ↔ 0 < g.n ∧ g.Connected ∧ ¬ g.HasUndCycle := by
  rw [isTree_undirected_iff g hs]
  constructor
  · rintro ⟨h1, h2, h3⟩; exact ⟨by omega, h3, h2⟩
  · rintro ⟨hn, hc, hac⟩
    refine ⟨?_, hac, hc⟩
    have hcyc : g.hasCycles false = false := by
      rw [← Bool.not_eq_true, hasCycles_undirected_iff g hs]; exact hac
    exact (connected_edge_count g hs hc hn).2.1 hcyc

/-- UNBOUNDED.  On every symmetric graph `is_tree` equals the reference "cyclomatic number 0 and one
component" (the small-domain table `hasCycles_correct_small_undirected` for all sizes). -/
theorem isTree_eq_refTreeU (g : Graph) (hs : g.Symmetric) : g.isTree false = g.refTreeU := by
  unfold Graph.isTree Graph.refTreeU Graph.isTreeCoded Graph.refCycleU Graph.edges
  rw [nUndEdges_eq g hs]
  simp only [Bool.false_eq_true, if_false]
  by_cases hc1 : g.nComponents = 1
  · have hn : 0 < g.n := by
      rcases Nat.eq_zero_or_pos g.n with h0 | h0
      · rw [nComponents_zero g h0] at hc1; cases hc1
      · exact h0
    have hconn : g.Connected := (nComponents_eq_one_iff g hn).1 hc1
    obtain ⟨hle, hiff⟩ := connected_edge_count g hs hconn hn
    rw [hc1]
    by_cases hm : g.edgesU.length + 1 = g.n
    · have := hiff.2 hm
      simp [this, hm]
    · have h1 : (g.edgesU.length + 1 == g.n) = false := by simpa using hm
      have h2 : decide (g.edgesU.length + 1 > g.n) = true := by simp; omega
      simp [h1, h2]
  · have : (g.nComponents == 1) = false := by simpa using hc1
    simp [this]

/-- UNBOUNDED.  On every connected symmetric graph the detector equals the cyclomatic-number reference. -/
theorem hasCycles_eq_refCycleU_of_connected (g : Graph) (hs : g.Symmetric) (hc : g.Connected) (hn : 0 < g.n) :
    g.hasCycles false = g.refCycleU := by
  unfold Graph.refCycleU
  rw [nUndEdges_eq g hs, (nComponents_eq_one_iff g hn).2 hc]
  obtain ⟨hle, hiff⟩ := connected_edge_count g hs hc hn
  by_cases hm : g.edgesU.length + 1 = g.n
  · rw [hiff.2 hm]; simp; omega
  · have : g.hasCycles false = true := by
      cases h : g.hasCycles false
      · exact absurd (hiff.1 h) hm
      · rfl
    rw [this]; simp; omega

end MenpoModel.C14
