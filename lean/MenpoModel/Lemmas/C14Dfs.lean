/-
C14 — the recursive DFS cycle detector `_has_cycles` for graphs of EVERY size, part 1:
a fuel-free big-step semantics `Exec` of the state-passing transcription `dfs`, the proof that `dfs`
with the fuel `hasCyclesL` gives it realises `Exec` (the fuel never runs out), and the structural
facts of a run (entered / exited only grow, the set of "gray" vertices is restored by every call, …).
Core Lean only.
-/
import MenpoModel.Lemmas.C14Basic

namespace MenpoModel.C14.Dfs
open MenpoModel.C14

/-- adjacency function of an adjacency list (`adjacency_list[node]`) -/
def adjOf (adjL : List (List Nat)) (u : Nat) : List Nat := adjL.getD u []

/-- the bookkeeping done for the neighbour `y` of `node` before `dfs(y, …)` is called -/
def mark (d : Bool) (node : Nat) (st : St) (y : Nat) : St :=
  if !st.entered.contains y then { st with treeEdges := (y, node) :: st.treeEdges }
  else if (!d && lookup st.treeEdges node != some y) || (d && !st.exited.contains y)
    then { st with backEdges := (y, node) :: st.backEdges }
  else st

def enter (node : Nat) (st : St) : St := { st with entered := node :: st.entered }
def exit (node : Nat) (st : St) : St := { st with exited := node :: st.exited }

theorem dfs_zero (adjL : List (List Nat)) (d : Bool) (node : Nat) (st : St) : dfs adjL d 0 node st = st := rfl

theorem dfs_succ (adjL : List (List Nat)) (d : Bool) (fuel node : Nat) (st : St) :
    dfs adjL d (fuel + 1) node st =
      if st.entered.contains node then st
      else exit node ((adjOf adjL node).foldl (fun st y => dfs adjL d fuel y (mark d node st y)) (enter node st)) := rfl

/-- what is being executed: the call `dfs(node)` or the rest `ys` of the `for y in adjacency_list[node]` loop -/
inductive Cmd where
  | call (node : Nat)
  | loop (node : Nat) (ys : List Nat)

/-- big-step semantics of `_has_cycles.dfs` (no fuel) -/
inductive Exec (adj : Nat → List Nat) (d : Bool) : Cmd → St → St → Prop where
  | skip {node : Nat} {st : St} : st.entered.contains node = true → Exec adj d (.call node) st st
  | visit {node : Nat} {st st2 : St} : st.entered.contains node = false →
      Exec adj d (.loop node (adj node)) (enter node st) st2 → Exec adj d (.call node) st (exit node st2)
  | nil {node : Nat} {st : St} : Exec adj d (.loop node []) st st
  | cons {node y : Nat} {ys : List Nat} {st st1 st2 : St} :
      Exec adj d (.call y) (mark d node st y) st1 → Exec adj d (.loop node ys) st1 st2 →
      Exec adj d (.loop node (y :: ys)) st st2

@[simp] theorem mark_entered (d node st y) : (mark d node st y).entered = st.entered := by
  unfold mark; split
  · rfl
  · split <;> rfl
@[simp] theorem mark_exited (d node st y) : (mark d node st y).exited = st.exited := by
  unfold mark; split
  · rfl
  · split <;> rfl
@[simp] theorem enter_entered (node st) : (enter node st).entered = node :: st.entered := rfl
@[simp] theorem enter_exited (node st) : (enter node st).exited = st.exited := rfl
@[simp] theorem enter_tree (node st) : (enter node st).treeEdges = st.treeEdges := rfl
@[simp] theorem enter_back (node st) : (enter node st).backEdges = st.backEdges := rfl
@[simp] theorem exit_entered (node st) : (exit node st).entered = st.entered := rfl
@[simp] theorem exit_exited (node st) : (exit node st).exited = node :: st.exited := rfl
@[simp] theorem exit_tree (node st) : (exit node st).treeEdges = st.treeEdges := rfl
@[simp] theorem exit_back (node st) : (exit node st).backEdges = st.backEdges := rfl

theorem contains_iff (l : List Nat) (v : Nat) : l.contains v = true ↔ v ∈ l := by simp
theorem contains_false_iff (l : List Nat) (v : Nat) : l.contains v = false ↔ v ∉ l := by
  rw [← contains_iff]; cases l.contains v <;> simp

/-! ### structural facts of a run -/

/-- entered only grows -/
theorem Exec.entered_mono {adj d c st st'} (h : Exec adj d c st st') : ∀ v, v ∈ st.entered → v ∈ st'.entered := by
  induction h with
  | skip _ => exact fun v hv => hv
  | visit _ _ ih => intro v hv; exact ih v (by simp [hv])
  | nil => exact fun v hv => hv
  | cons _ _ ih1 ih2 => intro v hv; exact ih2 v (ih1 v (by simpa using hv))

/-- exited only grows -/
theorem Exec.exited_mono {adj d c st st'} (h : Exec adj d c st st') : ∀ v, v ∈ st.exited → v ∈ st'.exited := by
  induction h with
  | skip _ => exact fun v hv => hv
  | visit _ _ ih => intro v hv; simp; exact Or.inr (ih v (by simpa using hv))
  | nil => exact fun v hv => hv
  | cons _ _ ih1 ih2 => intro v hv; exact ih2 v (ih1 v (by simpa using hv))

/-- a call leaves its node entered -/
theorem Exec.call_entered {adj d node st st'} (h : Exec adj d (.call node) st st') : node ∈ st'.entered := by
  cases h with
  | skip h => exact (contains_iff _ _).1 h
  | visit _ h2 => exact h2.entered_mono node (by simp)

/-- the entered list stays duplicate-free -/
theorem Exec.entered_nodup {adj d c st st'} (h : Exec adj d c st st') : st.entered.Nodup → st'.entered.Nodup := by
  induction h with
  | skip _ => exact id
  | visit hn _ ih =>
    intro hnd
    exact ih (by simp only [enter_entered]; exact List.nodup_cons.2 ⟨(contains_false_iff _ _).1 hn, hnd⟩)
  | nil => exact id
  | cons _ _ ih1 ih2 => intro hnd; exact ih2 (ih1 (by simpa using hnd))

/-- the vertices touched stay below `n` when the adjacency lists do -/
theorem Exec.entered_lt {adj d c st st'} (n : Nat) (hadj : ∀ u, ∀ y ∈ adj u, y < n) (h : Exec adj d c st st') :
    (match c with | .call node => node < n | .loop _ ys => ∀ y ∈ ys, y < n) →
    (∀ v ∈ st.entered, v < n) → ∀ v ∈ st'.entered, v < n := by
  induction h with
  | skip _ => exact fun _ h => h
  | @visit node st st2 _ _ ih =>
    intro hc hb
    exact ih (fun y hy => hadj node y hy) (by intro v hv; simp at hv; rcases hv with rfl | hv; exact hc; exact hb v hv)
  | nil => exact fun _ h => h
  | cons _ _ ih1 ih2 =>
    intro hc hb
    exact ih2 (fun y hy => hc y (by simp [hy])) (ih1 (hc _ (by simp)) (by simpa using hb))

/-- "gray" = entered and not yet exited (the recursion stack) -/
def Gray (st : St) (v : Nat) : Prop := v ∈ st.entered ∧ v ∉ st.exited

/-- every call and every loop restores the gray set -/
theorem Exec.gray_iff {adj d c st st'} (h : Exec adj d c st st') : ∀ v, Gray st' v ↔ Gray st v := by
  induction h with
  | skip _ => exact fun v => Iff.rfl
  | @visit node st st2 hn _ ih =>
    intro v
    have hn' := (contains_false_iff _ _).1 hn
    have := ih v
    simp only [Gray, enter_entered, enter_exited, exit_entered, exit_exited, List.mem_cons] at this ⊢
    constructor
    · rintro ⟨h1, h2⟩
      have h3 := this.1 ⟨h1, fun h => h2 (Or.inr h)⟩
      rcases h3.1 with rfl | h4
      · exact absurd (Or.inl rfl) h2
      · exact ⟨h4, h3.2⟩
    · rintro ⟨h1, h2⟩
      have h3 := this.2 ⟨Or.inr h1, h2⟩
      refine ⟨h3.1, ?_⟩
      rintro (rfl | h4)
      · exact hn' h1
      · exact h3.2 h4
  | nil => exact fun v => Iff.rfl
  | cons _ _ ih1 ih2 =>
    intro v
    rw [ih2 v, ih1 v]
    simp [Gray]

/-- exited vertices are entered -/
theorem Exec.exited_sub {adj d c st st'} (h : Exec adj d c st st') :
    (∀ v ∈ st.exited, v ∈ st.entered) → ∀ v ∈ st'.exited, v ∈ st'.entered := by
  induction h with
  | skip _ => exact id
  | @visit node st st2 _ h2 ih =>
    intro hs v hv
    simp only [exit_exited, List.mem_cons] at hv
    rcases hv with rfl | hv
    · exact h2.entered_mono _ (by simp)
    · exact ih (fun v hv => by simp; exact Or.inr (hs v (by simpa using hv))) v hv
  | nil => exact id
  | cons _ _ ih1 ih2 => intro hs; exact ih2 (ih1 (by simpa using hs))

/-- after a call the node is exited, unless it was on the stack already -/
theorem Exec.call_exited {adj d node st st'} (h : Exec adj d (.call node) st st') :
    node ∈ st'.exited ∨ Gray st node := by
  cases h with
  | skip h =>
    by_cases hx : node ∈ st.exited
    · exact Or.inl hx
    · exact Or.inr ⟨(contains_iff _ _).1 h, hx⟩
  | visit _ _ => exact Or.inl (by simp)

/-- back edges are never removed -/
theorem mark_back_ne_nil (d node st y) : st.backEdges ≠ [] → (mark d node st y).backEdges ≠ [] := by
  unfold mark; split
  · exact id
  · split
    · intro _; simp
    · exact id

theorem Exec.back_ne_nil {adj d c st st'} (h : Exec adj d c st st') : st.backEdges ≠ [] → st'.backEdges ≠ [] := by
  induction h with
  | skip _ => exact id
  | visit _ _ ih => intro hb; exact ih hb
  | nil => exact id
  | cons _ _ ih1 ih2 => intro hb; exact ih2 (ih1 (mark_back_ne_nil _ _ _ _ hb))

theorem Exec.back_nil {adj d c st st'} (h : Exec adj d c st st') : st'.backEdges = [] → st.backEdges = [] := by
  intro h'
  rcases hb : st.backEdges with _ | ⟨x, l⟩
  · rfl
  · exact absurd h' (h.back_ne_nil (by simp [hb]))

/-! ### the fuel given by `hasCyclesL` never runs out -/

theorem foldl_exec {adj : Nat → List Nat} {d : Bool} (F : St → Nat → St) (node : Nat) (n : Nat)
    (hadj : ∀ u, ∀ y ∈ adj u, y < n) (k : Nat)
    (hF : ∀ st y, y < n → st.entered.Nodup → (∀ v ∈ st.entered, v < n) → k ≤ st.entered.length →
      Exec adj d (.call y) (mark d node st y) (F st y)) :
    ∀ (ys : List Nat) (st : St), (∀ y ∈ ys, y < n) → st.entered.Nodup → (∀ v ∈ st.entered, v < n) →
      k ≤ st.entered.length → Exec adj d (.loop node ys) st (ys.foldl F st) := by
  intro ys
  induction ys with
  | nil => intro st _ _ _ _; exact Exec.nil
  | cons y ys ih =>
    intro st hys hnd hb hk
    have h1 := hF st y (hys y (by simp)) hnd hb hk
    rw [List.foldl_cons]
    refine Exec.cons h1 (ih _ (fun y hy => hys y (by simp [hy])) (h1.entered_nodup (by simpa using hnd)) ?_ ?_)
    · exact h1.entered_lt n hadj (hys y (by simp)) (by simpa using hb)
    · have hsub : st.entered ⊆ (F st y).entered := fun v hv => h1.entered_mono v (by simpa using hv)
      exact Nat.le_trans hk (List.Nodup.length_le_of_subset hnd hsub)

/-- `dfs` with fuel `f` realises the fuel-free semantics whenever `n < f + |entered|` -/
theorem dfs_exec (adjL : List (List Nat)) (d : Bool)
    (hadj : ∀ u, ∀ y ∈ adjOf adjL u, y < adjL.length) :
    ∀ (fuel node : Nat) (st : St), node < adjL.length → st.entered.Nodup → (∀ v ∈ st.entered, v < adjL.length) →
      adjL.length < fuel + st.entered.length →
      Exec (adjOf adjL) d (.call node) st (dfs adjL d fuel node st) := by
  intro fuel
  induction fuel with
  | zero =>
    intro node st hn hnd hb hf
    rw [dfs_zero]
    by_cases he : st.entered.contains node = true
    · exact Exec.skip he
    · exfalso
      have he' : node ∉ st.entered := by simpa using he
      have : (node :: st.entered).length ≤ (List.range adjL.length).length :=
        List.Nodup.length_le_of_subset (List.nodup_cons.2 ⟨he', hnd⟩)
          (fun v hv => by
            simp only [List.mem_cons] at hv
            rcases hv with rfl | hv
            · exact List.mem_range.2 hn
            · exact List.mem_range.2 (hb v hv))
      simp at this
      omega
  | succ f ih =>
    intro node st hn hnd hb hf
    rw [dfs_succ]
    by_cases he : st.entered.contains node = true
    · rw [if_pos he]; exact Exec.skip he
    · rw [if_neg he]
      have he' : node ∉ st.entered := by simpa using he
      refine Exec.visit (by simpa using he) ?_
      refine foldl_exec (fun st y => dfs adjL d f y (mark d node st y)) node adjL.length hadj (st.entered.length + 1) ?_
        (adjOf adjL node) (enter node st) (hadj node) ?_ ?_ ?_
      · intro st' y hy hnd' hb' hk
        exact ih y (mark d node st' y) hy (by simpa using hnd') (by simpa using hb') (by simp; omega)
      · simp only [enter_entered]; exact List.nodup_cons.2 ⟨he', hnd⟩
      · intro v hv; simp at hv; rcases hv with rfl | hv; exact hn; exact hb v hv
      · simp

/-! ### shared helpers of the two correctness proofs -/

theorem gray_mark (d node st y v) : Gray (mark d node st y) v ↔ Gray st v := by simp [Gray]

theorem mark_back_nil (d node st y) : (mark d node st y).backEdges = [] → st.backEdges = [] := by
  intro h
  rcases hb : st.backEdges with _ | ⟨x, l⟩
  · rfl
  · exact absurd h (mark_back_ne_nil d node st y (by simp [hb]))

theorem adjOf_lt_of_mem {adjL : List (List Nat)} {v c : Nat} (h : c ∈ adjOf adjL v) : v < adjL.length := by
  rcases Nat.lt_or_ge v adjL.length with h' | h'
  · exact h'
  · simp [adjOf, List.getD_eq_getElem?_getD, List.getElem?_eq_none h'] at h

def St.empty : St := ⟨[], [], [], []⟩

theorem top_exec (adjL : List (List Nat)) (d : Bool) (hadj : ∀ u, ∀ y ∈ adjOf adjL u, y < adjL.length)
    (x : Nat) (hx : x < adjL.length) :
    Exec (adjOf adjL) d (.call x) St.empty (dfs adjL d (2 * adjL.length + 2) x ⟨[], [], [], []⟩) :=
  dfs_exec adjL d hadj _ x St.empty hx (by simp [St.empty]) (by simp [St.empty]) (by simp [St.empty]; omega)

theorem hasCyclesL_iff (adjL : List (List Nat)) (d : Bool) :
    hasCyclesL adjL d = true ↔
      ∃ x, x < adjL.length ∧ (dfs adjL d (2 * adjL.length + 2) x ⟨[], [], [], []⟩).backEdges ≠ [] := by
  simp [hasCyclesL]

end MenpoModel.C14.Dfs
