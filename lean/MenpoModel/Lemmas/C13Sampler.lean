/-
C13 — the concrete samplers (`scipy.ndimage.map_coordinates`, orders 0 and 1, modes 'constant' and
'nearest', as modelled by `sampleRat` in Core/C13Crop.lean) as theorems:

  * order 1 in two dimensions is the bilinear formula (`sample1_bilinear`), a convex combination
    (`bilinear_weights`), and returns the pixel itself at integer locations (`sampleRat_at_integer`);
  * mode 'constant' returns the fill value outside `[0, n−1]` for both orders (`sampleRat_outside`);
  * mode 'nearest' is mode 'constant' at the clamped location (`sample_nearest_eq_clamp`), the clamped
    location is inside the image (`clampRat_range`), so the fill value is never used
    (`sample0_nearest_is_pixel`);
  * therefore the path equivalence of the property (slicing = sampling at integer centres and offsets)
    holds for order 1 as well, and for mode 'nearest' wherever the window lies inside the image
    (`slice_eq_sampling_at_integers_orders`, `nearest_eq_constant_inside`).
Core Lean only.
-/
import MenpoModel.Lemmas.C13Base
namespace MenpoModel.C13

/-! ### clamping -/

theorem clampRat_range (n : Nat) (hn : 0 < n) (c : Rat) :
    0 ≤ clampRat n c ∧ clampRat n c ≤ ((((n : Int) - 1 : Int)) : Rat) := by
  have h0 : (0 : Rat) ≤ ((((n : Int) - 1 : Int)) : Rat) := by
    have : (0 : Int) ≤ (n : Int) - 1 := by omega
    simpa using (Rat.intCast_le_intCast (a := 0) (b := (n : Int) - 1)).2 this
  simp only [clampRat]
  split
  · exact ⟨Rat.le_refl, h0⟩
  · split
    · exact ⟨h0, Rat.le_refl⟩
    · constructor <;> grind

theorem clampRat_id (n : Nat) (c : Rat) (h0 : 0 ≤ c) (h1 : c ≤ ((((n : Int) - 1 : Int)) : Rat)) :
    clampRat n c = c := by
  simp only [clampRat]
  rw [if_neg (by grind), if_neg (by grind)]

theorem clampRat_idem (n : Nat) (hn : 0 < n) (c : Rat) : clampRat n (clampRat n c) = clampRat n c :=
  clampRat_id n _ (clampRat_range n hn c).1 (clampRat_range n hn c).2

/-- what `np.clip`-like clamping does on each side -/
theorem clampRat_cases (n : Nat) (c : Rat) :
    (c < 0 ∧ clampRat n c = 0) ∨
    (0 ≤ c ∧ ((((n : Int) - 1 : Int)) : Rat) < c ∧ clampRat n c = ((((n : Int) - 1 : Int)) : Rat)) ∨
    (0 ≤ c ∧ c ≤ ((((n : Int) - 1 : Int)) : Rat) ∧ clampRat n c = c) := by
  simp only [clampRat]
  by_cases h : c < 0
  · left; exact ⟨h, by rw [if_pos h]⟩
  · right
    have h0 : 0 ≤ c := by grind
    by_cases h2 : ((((n : Int) - 1 : Int)) : Rat) < c
    · left; exact ⟨h0, h2, by rw [if_neg h, if_pos h2]⟩
    · right; exact ⟨h0, by grind, by rw [if_neg h, if_neg h2]⟩

/-! ### mode 'nearest' is mode 'constant' at the clamped location -/

theorem corners1_nearest (s : List Nat) : ∀ (p : List Rat), p.length = s.length →
    corners1 .nearest s p = corners1 .constant s (List.zipWith clampRat s p) := by
  induction s with
  | nil => intro p h; cases p <;> simp_all [corners1]
  | cons n s ih =>
    intro p h
    cases p with
    | nil => simp at h
    | cons c p =>
      simp only [corners1, List.zipWith_cons_cons]
      rw [ih p (by simpa using h)]

/-- PROPERTY (clamp semantics of mode 'nearest'): sampling with mode 'nearest' at `pt` is sampling
with mode 'constant' at the location clamped to `[0, n−1]` on every axis, for both orders. -/
theorem sample_nearest_eq_clamp (order : Nat) (pix : NDArr Rat) (ch : Nat) (pt : List Rat) (cval : Rat)
    (hlen : pt.length = pix.shape.tail.length) :
    sampleRat order .nearest pix ch pt cval =
      sampleRat order .constant pix ch (List.zipWith clampRat pix.shape.tail pt) cval := by
  simp only [sampleRat]
  split
  · rfl
  · rw [corners1_nearest _ _ hlen]

/-! ### order 1 in two dimensions -/

theorem floor_toNat_cast (x : Rat) (h : 0 ≤ x) : ((x.floor.toNat : Nat) : Int) = x.floor := by
  have : 0 ≤ x.floor := by rw [Rat.le_floor_iff]; simpa using h
  omega

/-- value of a pixel for the interpolation sums (`0` outside, where the weight is `0` as well) -/
def px (pix : NDArr Rat) (c i j : Nat) : Rat := pix.getD [c, i, j] 0

/-- the four bilinear weights at `(x, y)` are non-negative and sum to one -/
theorem bilinear_weights (x y : Rat) :
    let wx := x - (x.floor : Rat)
    let wy := y - (y.floor : Rat)
    0 ≤ (1 - wx) * (1 - wy) ∧ 0 ≤ (1 - wx) * wy ∧ 0 ≤ wx * (1 - wy) ∧ 0 ≤ wx * wy ∧
    (1 - wx) * (1 - wy) + (1 - wx) * wy + wx * (1 - wy) + wx * wy = 1 := by
  intro wx wy
  have hx0 := Rat.floor_le x
  have hx1 := Rat.lt_floor_add_one x
  have hy0 := Rat.floor_le y
  have hy1 := Rat.lt_floor_add_one y
  rw [Rat.intCast_add] at hx1 hy1
  have a0 : 0 ≤ wx := by grind
  have a1 : 0 ≤ 1 - wx := by grind
  have b0 : 0 ≤ wy := by grind
  have b1 : 0 ≤ 1 - wy := by grind
  refine ⟨Rat.mul_nonneg a1 b1, Rat.mul_nonneg a1 b0, Rat.mul_nonneg a0 b1, Rat.mul_nonneg a0 b0, ?_⟩
  grind

/-- PROPERTY (order 1 is bilinear interpolation): inside `[0, H−1] × [0, W−1]` order-1 sampling
(either mode) is the bilinear formula over the four neighbouring pixels with weights given by the
fractional parts of the coordinates. -/
theorem sample1_bilinear (pix : NDArr Rat) (C H W : Nat) (hshape : pix.shape = [C, H, W]) (c : Nat)
    (x y cval : Rat) (hx0 : 0 ≤ x) (hx1 : x ≤ ((((H : Int) - 1 : Int)) : Rat))
    (hy0 : 0 ≤ y) (hy1 : y ≤ ((((W : Int) - 1 : Int)) : Rat)) :
    sampleRat 1 .constant pix c [x, y] cval =
      (1 - (x - (x.floor : Rat))) * (1 - (y - (y.floor : Rat))) * px pix c x.floor.toNat y.floor.toNat +
      (1 - (x - (x.floor : Rat))) * (y - (y.floor : Rat)) * px pix c x.floor.toNat (y.floor.toNat + 1) +
      (x - (x.floor : Rat)) * (1 - (y - (y.floor : Rat))) * px pix c (x.floor.toNat + 1) y.floor.toNat +
      (x - (x.floor : Rat)) * (y - (y.floor : Rat)) * px pix c (x.floor.toNat + 1) (y.floor.toNat + 1) := by
  have nx : ¬(x < 0 ∨ ((((H : Int) - 1 : Int)) : Rat) < x) := by grind
  have ny : ¬(y < 0 ∨ ((((W : Int) - 1 : Int)) : Rat) < y) := by grind
  simp only [sampleRat, hshape, List.tail_cons, corners1, if_neg nx, if_neg ny, px]
  simp only [show ¬((1 : Nat) = 0) by decide, if_false]
  by_cases wx : x - (x.floor : Rat) = 0 <;> by_cases wy : y - (y.floor : Rat) = 0
  all_goals simp only [wx, wy, if_true, if_false, List.flatMap_cons, List.flatMap_nil, List.append_nil,
    List.cons_append, List.nil_append, List.foldl_cons, List.foldl_nil]
  all_goals grind

theorem outside_cast (n : Nat) (x : Int) :
    ((x : Rat) < 0 ∨ ((((n : Int) - 1 : Int)) : Rat) < (x : Rat)) ↔ (x < 0 ∨ (n : Int) - 1 < x) := by
  rw [intCast_lt_zero_iff, Rat.intCast_lt_intCast]

theorem sub_floor_intCast (k : Int) : (k : Rat) - (((k : Rat).floor : Int) : Rat) = 0 := by
  rw [Rat.floor_intCast]; grind

/-- PROPERTY (interpolation reproduces the samples; 'constant' fills outside): at an integer location
both orders of the 'constant' sampler return the pixel at that location, and the fill value when the
location lies outside the image. -/
theorem sampleRat_at_integer (order : Nat) (pix : NDArr Rat) (C H W : Nat) (hshape : pix.shape = [C, H, W])
    (hwf : pix.WF) (c : Nat) (hc : c < C) (x y : Int) (cval : Rat) :
    sampleRat order .constant pix c [(x : Rat), (y : Rat)] cval = pixAt pix c x y cval := by
  by_cases ho : order = 0
  · simp only [sampleRat, if_pos ho]
    exact sample0c_int pix C H W hshape c x y cval
  · by_cases hin : 0 ≤ x ∧ x < (H : Int) ∧ 0 ≤ y ∧ y < (W : Int)
    · have e := sample1_bilinear pix C H W hshape c (x : Rat) (y : Rat) cval
        (by simpa using (Rat.intCast_le_intCast (a := 0) (b := x)).2 hin.1)
        ((Rat.intCast_le_intCast).2 (by omega))
        (by simpa using (Rat.intCast_le_intCast (a := 0) (b := y)).2 hin.2.2.1)
        ((Rat.intCast_le_intCast).2 (by omega))
      have e' : sampleRat order .constant pix c [(x : Rat), (y : Rat)] cval =
          sampleRat 1 .constant pix c [(x : Rat), (y : Rat)] cval := by
        simp only [sampleRat, if_neg ho, show ¬((1 : Nat) = 0) by decide, if_false]
      rw [e', e, sub_floor_intCast, sub_floor_intCast, Rat.floor_intCast, Rat.floor_intCast]
      have hp := pixAt_inside pix C H W hshape hwf c hc x y cval hin
      have : px pix c x.toNat y.toNat = pixAt pix c x y cval := by
        simp only [px, NDArr.getD, hp, Option.getD_some]
      rw [this]
      grind
    · simp only [sampleRat, if_neg ho, hshape, List.tail_cons, corners1]
      rw [pixAt_outside pix C H W hshape c x y cval (by omega)]
      by_cases hx : x < 0 ∨ (H : Int) - 1 < x
      · rw [if_pos ((outside_cast H x).2 hx)]
      · rw [if_neg (fun h => hx ((outside_cast H x).1 h))]
        have hy : y < 0 ∨ (W : Int) - 1 < y := by omega
        rw [if_pos ((outside_cast W y).2 hy)]

/-- PROPERTY (fill): mode 'constant' returns the fill value at every location with a coordinate outside
`[0, n − 1]`, fractional locations included, for both orders. -/
theorem sampleRat_outside (order : Nat) (pix : NDArr Rat) (C H W : Nat) (hshape : pix.shape = [C, H, W]) (c : Nat)
    (x y cval : Rat)
    (hout : x < 0 ∨ ((((H : Int) - 1 : Int)) : Rat) < x ∨ y < 0 ∨ ((((W : Int) - 1 : Int)) : Rat) < y) :
    sampleRat order .constant pix c [x, y] cval = cval := by
  by_cases ho : order = 0
  · simp only [sampleRat, if_pos ho]
    exact sample0c_outside pix C H W hshape c x y cval hout
  · simp only [sampleRat, if_neg ho, hshape, List.tail_cons, corners1]
    by_cases hx : x < 0 ∨ ((((H : Int) - 1 : Int)) : Rat) < x
    · rw [if_pos hx]
    · rw [if_neg hx]
      have hy : y < 0 ∨ ((((W : Int) - 1 : Int)) : Rat) < y := by
        rcases hout with h | h | h | h
        · exact absurd (Or.inl h) hx
        · exact absurd (Or.inr h) hx
        · exact Or.inl h
        · exact Or.inr h
      rw [if_pos hy]

/-- PROPERTY ('nearest' never fills): on a non-empty image the order-0 'nearest' sampler returns the
pixel nearest to the clamped location, which is a pixel of the image, whatever the location. -/
theorem sample0_nearest_is_pixel (pix : NDArr Rat) (C H W : Nat) (hshape : pix.shape = [C, H, W])
    (hH : 0 < H) (hW : 0 < W) (c : Nat) (x y cval : Rat) :
    (clampRat H x + 1/2).floor.toNat < H ∧ (clampRat W y + 1/2).floor.toNat < W ∧
    sampleRat 0 .nearest pix c [x, y] cval =
      pix.getD [c, (clampRat H x + 1/2).floor.toNat, (clampRat W y + 1/2).floor.toNat] cval := by
  obtain ⟨a0, a1⟩ := clampRat_range H hH x
  obtain ⟨b0, b1⟩ := clampRat_range W hW y
  have fl : ∀ (n : Nat) (z : Rat), 0 ≤ z → z ≤ ((((n : Int) - 1 : Int)) : Rat) → 0 < n → (z + 1/2).floor.toNat < n := by
    intro n z z0 z1 hn
    have h1 : (z + 1/2).floor < (n : Int) := by
      rw [Rat.floor_lt_iff]
      have : ((((n : Int) - 1 : Int)) : Rat) = ((n : Int) : Rat) - 1 := by
        rw [Rat.intCast_sub]; rfl
      have hh := zero_lt_half
      grind
    have h0 : 0 ≤ (z + 1/2).floor := by
      rw [Rat.le_floor_iff]
      have hh := zero_lt_half
      simp only [Rat.intCast_zero]
      grind
    omega
  refine ⟨fl H _ a0 a1 hH, fl W _ b0 b1 hW, ?_⟩
  simp only [sampleRat, if_true, sample0c, hshape, List.tail_cons, List.zipWith_cons_cons, List.zipWith_nil_left,
    nearestIdxC]
  rw [if_neg (by grind), if_neg (by grind)]
  rfl

/-! ### the path equivalence for both orders -/

/-- the sampling path with any sampler that returns the reference pixel at integer locations equals the
reference patch at integer centres and offsets -/
theorem sampling_at_integers_of {α : Type} (sample : Nat → Pt → α) (pix : NDArr α) (C : Nat)
    (cz : List (Int × Int)) (ph pw : Nat) (oz : Option (List (Int × Int))) (cval : α)
    (hs : ∀ c x y, c < C → sample c ((x : Int), (y : Int)) = pixAt pix c x y cval) :
    ∃ out, extractSampling .repaired sample C ph pw (cz.map toPt) (oz.map (List.map toPt)) cval = .ok out ∧
      out.shape = [cz.length, (offsZ oz).length, C, ph, pw] ∧
      ∀ i j c r q, inRange [cz.length, (offsZ oz).length, C, ph, pw] [i, j, c, r, q] = true →
        out.get? [i, j, c, r, q] = some (pixAt pix c
          ((winLo ph pw (cz.getD i (0, 0)) ((offsZ oz).getD j (0, 0))).1 + r)
          ((winLo ph pw (cz.getD i (0, 0)) ((offsZ oz).getD j (0, 0))).2 + q) cval) := by
  obtain ⟨out, h1, h2, h3⟩ := sampling_patch_layout sample C ph pw (cz.map toPt) (oz.map (List.map toPt)) cval
  rw [getD_map_offs] at h2 h3
  simp only [List.length_map] at h2 h3
  refine ⟨out, h1, h2, ?_⟩
  intro i j c r q hin
  rw [h3 i j c r q hin, getPt_map, getPt_map, samplePt_int]
  simp only [inRange, Bool.and_eq_true, decide_eq_true_eq, Bool.and_true] at hin
  rw [hs c _ _ hin.2.2.1]

/-- PROPERTY (path equivalence, orders 0 and 1): at integer centres and offsets the slicing path and
the sampling path with mode 'constant' return the same shape and the same pixels, for interpolation
order 0 and for order 1 (bilinear interpolation reproduces the samples).  The model's `sampleRat` is bilinear for
every order >= 1, so the statement is restricted to the orders it models (scipy's splines of order 2-5 are not). -/
theorem slice_eq_sampling_at_integers_orders (order : Nat) (_horder : order ≤ 1) (pix : NDArr Rat) (C H W : Nat)
    (hshape : pix.shape = [C, H, W]) (hwf : pix.WF)
    (cz : List (Int × Int)) (ph pw : Nat) (oz : Option (List (Int × Int))) (cval : Rat) :
    ∃ a b, extractSlice pix (cz.map toPt) ph pw (oz.map (List.map toPt)) cval = .ok a ∧
      extractSampling .repaired (fun c pt => sampleRat order .constant pix c [pt.1, pt.2] cval) C ph pw
        (cz.map toPt) (oz.map (List.map toPt)) cval = .ok b ∧
      a.shape = b.shape ∧ a.shape = [cz.length, (offsZ oz).length, C, ph, pw] ∧
      ∀ i j c r q, inRange a.shape [i, j, c, r, q] = true → a.get? [i, j, c, r, q] = b.get? [i, j, c, r, q] := by
  obtain ⟨⟨a, ha1, ha2, ha3⟩, _⟩ := patches_at_integers pix C H W hshape cz ph pw oz cval
  obtain ⟨b, hb1, hb2, hb3⟩ := sampling_at_integers_of
    (fun c pt => sampleRat order .constant pix c [pt.1, pt.2] cval) pix C cz ph pw oz cval
    (fun c x y hc => sampleRat_at_integer order pix C H W hshape hwf c hc x y cval)
  refine ⟨a, b, ha1, hb1, by rw [ha2, hb2], ha2, ?_⟩
  intro i j c r q hin
  rw [ha2] at hin
  rw [ha3 i j c r q hin, hb3 i j c r q hin]

/-- PROPERTY (mode 'nearest' inside the image): at a location inside `[0, H−1] × [0, W−1]` the 'nearest'
sampler is the 'constant' sampler, for both orders — the modes differ only outside the image. -/
theorem nearest_eq_constant_inside (order : Nat) (pix : NDArr Rat) (C H W : Nat) (hshape : pix.shape = [C, H, W])
    (c : Nat) (x y cval : Rat) (hx0 : 0 ≤ x) (hx1 : x ≤ ((((H : Int) - 1 : Int)) : Rat))
    (hy0 : 0 ≤ y) (hy1 : y ≤ ((((W : Int) - 1 : Int)) : Rat)) :
    sampleRat order .nearest pix c [x, y] cval = sampleRat order .constant pix c [x, y] cval := by
  rw [sample_nearest_eq_clamp order pix c [x, y] cval (by simp [hshape])]
  simp only [hshape, List.tail_cons, List.zipWith_cons_cons, List.zipWith_nil_left,
    clampRat_id H x hx0 hx1, clampRat_id W y hy0 hy1]

/-! ### non-vacuity -/

def exImgQ : NDArr Rat := ofFn [2, 3, 4] fun idx => match idx with
  | [c, r, q] => ((c * 12 + r * 4 + q : Nat) : Rat) / 2
  | _ => 0

example : exImgQ.WF := ofFn_WF _ _
-- bilinear at (1/2, 5/4) of channel 1: the mean structure of the four neighbours
example : sampleRat 1 .constant exImgQ 1 [1/2, 5/4] 0 = 61/8 := by decide +kernel
example : (0 : Rat) ≤ 1/2 ∧ (1/2 : Rat) ≤ ((((3 : Int) - 1 : Int)) : Rat) := by decide +kernel
-- at an integer location both orders return the pixel, outside the fill value
example : sampleRat 1 .constant exImgQ 1 [2, 3] 7 = 23/2 ∧ sampleRat 0 .constant exImgQ 1 [2, 3] 7 = 23/2 := by
  decide +kernel
example : sampleRat 1 .constant exImgQ 1 [2, 13/4] 7 = 7 ∧ sampleRat 1 .nearest exImgQ 1 [2, 13/4] 7 = 23/2 := by
  decide +kernel
example : sampleRat 0 .nearest exImgQ 0 [-5, 9] 7 = 3/2 := by decide +kernel

end MenpoModel.C13
