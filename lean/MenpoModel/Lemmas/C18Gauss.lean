/-
C18 helper lemmas: the symmetric correlation with reflected borders (`corr1`): constants are preserved everywhere,
affine sequences away from the borders, under the contract `w0 + 2·Σ ws = 1`.
-/
import MenpoModel.Lemmas.C18Kernels

namespace MenpoModel.C18

theorem refl_lt (n : Nat) (m : Int) (hn : 0 < n) : refl n m < n := by
  unfold refl
  simp only []
  have hpos : (0 : Int) < 2 * (n : Int) := by omega
  have h1 := Int.emod_nonneg m (ne_of_gt hpos)
  have h2 := Int.emod_lt_of_pos m hpos
  split
  · assumption
  · omega

theorem refl_id (n : Nat) (m : Nat) (hm : m < n) : refl n (m : Int) = m := by
  unfold refl
  simp only []
  have : (m : Int) % (2 * (n : Int)) = m := Int.emod_eq_of_lt (by omega) (by omega)
  rw [this]
  simp [hm]

theorem sum_cons' (a : Rat) (l : List Rat) : (a :: l).sum = a + l.sum := by simp

/-- side sum over a sequence that reads the constant `c` wherever it is sampled -/
theorem sideSum_const (x : Nat → Rat) (n i : Nat) (c : Rat) (hn : 0 < n) (hx : ∀ k, k < n → x k = c)
    (d : Nat) (ws : List Rat) : sideSum x n i d ws = ws.sum * (2 * c) := by
  induction ws generalizing d with
  | nil => simp [sideSum]
  | cons w t ih =>
    simp only [sideSum, sum_cons']
    rw [hx _ (refl_lt n _ hn), hx _ (refl_lt n _ hn), ih]
    ring

/-- PROPERTY (gaussian_filter keeps constants, borders included) -/
theorem corr1_const (k : Kern) (x : Nat → Rat) (n i : Nat) (c : Rat) (hi : i < n) (hx : ∀ t, t < n → x t = c)
    (hk : k.total = 1) : corr1 k x n i = c := by
  unfold corr1
  rw [sideSum_const x n i c (by omega) hx, hx i hi]
  unfold Kern.total at hk
  have : k.w0 * c + k.ws.sum * (2 * c) = (k.w0 + 2 * k.ws.sum) * c := by ring
  rw [this, hk]; ring

/-- side sum over an affine sequence, all taps inside the array -/
theorem sideSum_affine (a b : Rat) (n i : Nat) (d : Nat) (ws : List Rat)
    (hlo : d + ws.length ≤ i + 1) (hhi : i + d + ws.length ≤ n) :
    sideSum (fun t => a + b * (t : Rat)) n i d ws = ws.sum * (2 * (a + b * (i : Rat))) := by
  induction ws generalizing d with
  | nil => simp [sideSum]
  | cons w t ih =>
    simp only [List.length_cons] at hlo hhi
    simp only [sideSum, sum_cons']
    have hd : d ≤ i := by omega
    have e1 : ((i : Int) - (d : Int)) = ((i - d : Nat) : Int) := by omega
    have e2 : ((i : Int) + (d : Int)) = ((i + d : Nat) : Int) := by omega
    rw [e1, e2, refl_id n (i - d) (by omega), refl_id n (i + d) (by omega), ih (d + 1) (by omega) (by omega)]
    have c1 : ((i - d : Nat) : Rat) = (i : Rat) - (d : Rat) := Nat.cast_sub hd
    rw [c1]; push_cast; ring

/-- PROPERTY (gaussian_filter keeps affine ramps away from the borders) -/
theorem corr1_affine_interior (k : Kern) (a b : Rat) (n i : Nat) (hlo : k.ws.length ≤ i) (hhi : i + k.ws.length < n)
    (hk : k.total = 1) : corr1 k (fun t => a + b * (t : Rat)) n i = a + b * (i : Rat) := by
  unfold corr1
  rw [sideSum_affine a b n i 1 k.ws (by omega) (by omega)]
  unfold Kern.total at hk
  have : k.w0 * (a + b * (i : Rat)) + k.ws.sum * (2 * (a + b * (i : Rat)))
      = (k.w0 + 2 * k.ws.sum) * (a + b * (i : Rat)) := by ring
  rw [this, hk]; ring

theorem sideSum_congr (x y : Nat → Rat) (n i : Nat) (hn : 0 < n) (h : ∀ t, t < n → x t = y t) (d : Nat) (ws : List Rat) :
    sideSum x n i d ws = sideSum y n i d ws := by
  induction ws generalizing d with
  | nil => rfl
  | cons w t ih =>
    simp only [sideSum]
    rw [h _ (refl_lt n _ hn), h _ (refl_lt n _ hn), ih]

theorem corr1_congr (k : Kern) (x y : Nat → Rat) (n i : Nat) (hi : i < n) (h : ∀ t, t < n → x t = y t) :
    corr1 k x n i = corr1 k y n i := by
  unfold corr1
  rw [h i hi, sideSum_congr x y n i (by omega) h]

end MenpoModel.C18
