/-
C01 — bilinear sampling as a convex combination of the (at most four) grid points of a cell, and what follows:
linearity in the content, a sup-norm bound, and the exact value of a warped affine image under an arbitrary
(piecewise affine, thin plate spline, …) transform.
-/
import MenpoModel.Lemmas.C01Interp
import MenpoModel.Core.C01Ext

namespace MenpoModel.C01

/-- order 1 on one axis, inside the axis: a convex combination of two grid points of the axis, both strictly
closer than one pixel to the coordinate, whose barycentre is the coordinate -/
theorem axis1_linear_two_point {n : Nat} {x : Rat} (hx : inR n x) :
    ∃ (i₀ i₁ : Int) (t : Rat), 0 ≤ t ∧ t ≤ 1 ∧
      0 ≤ i₀ ∧ i₀ ≤ (n : Int) - 1 ∧ 0 ≤ i₁ ∧ i₁ ≤ (n : Int) - 1 ∧
      x - 1 < (i₀ : Rat) ∧ (i₀ : Rat) < x + 1 ∧ x - 1 < (i₁ : Rat) ∧ (i₁ : Rat) < x + 1 ∧
      (1 - t) * (i₀ : Rat) + t * (i₁ : Rat) = x ∧
      ∀ f : Int → Rat, axis1 .linear n f x = (1 - t) * f i₀ + t * f i₁ := by
  obtain ⟨h0, h1⟩ := hx
  have hi0 : 0 ≤ x.floor := floor_nonneg_of h0
  have hi1 : x.floor ≤ (n : Int) - 1 := floor_le_top h1
  have hfl : (x.floor : Rat) ≤ x := Rat.floor_le x
  have hfl2 : x - 1 < (x.floor : Rat) := Rat.lt_floor
  by_cases ht : x = (x.floor : Rat)
  · refine ⟨x.floor, x.floor, 0, le_refl _, by norm_num, hi0, hi1, hi0, hi1, hfl2, by linarith, hfl2, by linarith,
      by rw [← ht]; ring, ?_⟩
    intro f
    unfold axis1
    rw [clampR_of_inR ⟨h0, h1⟩]
    simp only [clampI_of_range hi0 hi1]
    have : x - (x.floor : Rat) = 0 := by linarith
    rw [this]; ring
  · have hlt : (x.floor : Rat) < x := lt_of_le_of_ne hfl (fun h => ht h.symm)
    have hi2 : x.floor + 1 ≤ (n : Int) - 1 := by
      have : (x.floor : Rat) < top n := lt_of_lt_of_le hlt h1
      unfold top at this
      have : x.floor < (n : Int) - 1 := by exact_mod_cast this
      omega
    have hi2' : 0 ≤ x.floor + 1 := by omega
    refine ⟨x.floor, x.floor + 1, x - (x.floor : Rat), by linarith, by linarith, hi0, hi1, hi2', hi2, hfl2,
      by linarith, by push_cast; linarith, by push_cast; linarith, by push_cast; ring, ?_⟩
    intro f
    unfold axis1
    rw [clampR_of_inR ⟨h0, h1⟩]
    simp only [clampI_of_range hi0 hi1, clampI_of_range hi2' hi2]

/-- order 1 in 2-D, inside the image: a convex combination of four grid points of the cell -/
theorem core2_linear_four_point {h w : Nat} {p : V2} (hp : inR h p.x ∧ inR w p.y) :
    ∃ (i₀ i₁ j₀ j₁ : Int) (t s : Rat), 0 ≤ t ∧ t ≤ 1 ∧ 0 ≤ s ∧ s ≤ 1 ∧
      (∀ i, i = i₀ ∨ i = i₁ → 0 ≤ i ∧ i ≤ (h : Int) - 1 ∧ p.x - 1 < (i : Rat) ∧ (i : Rat) < p.x + 1) ∧
      (∀ j, j = j₀ ∨ j = j₁ → 0 ≤ j ∧ j ≤ (w : Int) - 1 ∧ p.y - 1 < (j : Rat) ∧ (j : Rat) < p.y + 1) ∧
      (1 - t) * (i₀ : Rat) + t * (i₁ : Rat) = p.x ∧ (1 - s) * (j₀ : Rat) + s * (j₁ : Rat) = p.y ∧
      ∀ px : Int → Int → Rat, (Img2.mk h w px).core .linear p
        = (1 - t) * ((1 - s) * px i₀ j₀ + s * px i₀ j₁) + t * ((1 - s) * px i₁ j₀ + s * px i₁ j₁) := by
  obtain ⟨i₀, i₁, t, ht0, ht1, a0, a1, b0, b1, c0, c1, d0, d1, hbx, hfx⟩ := axis1_linear_two_point hp.1
  obtain ⟨j₀, j₁, s, hs0, hs1, e0, e1, f0, f1, g0, g1, k0, k1, hby, hfy⟩ := axis1_linear_two_point hp.2
  refine ⟨i₀, i₁, j₀, j₁, t, s, ht0, ht1, hs0, hs1, ?_, ?_, hbx, hby, ?_⟩
  · intro i hi; rcases hi with rfl | rfl
    · exact ⟨a0, a1, c0, c1⟩
    · exact ⟨b0, b1, d0, d1⟩
  · intro j hj; rcases hj with rfl | rfl
    · exact ⟨e0, e1, g0, g1⟩
    · exact ⟨f0, f1, k0, k1⟩
  · intro px
    unfold Img2.core
    simp only [hfx, hfy]

/-- **bilinear sampling is linear in the content** (locally): if near `p` the content is `a + b·f + c·g`, the
sample is `a + b·(sample of f) + c·(sample of g)` -/
theorem core2_linear_comb_local {h w : Nat} {F f g : Int → Int → Rat} {p : V2} {a b c : Rat}
    (hp : inR h p.x ∧ inR w p.y)
    (hF : ∀ i j : Int, 0 ≤ i → i ≤ (h : Int) - 1 → 0 ≤ j → j ≤ (w : Int) - 1 →
      p.x - 1 < (i : Rat) → (i : Rat) < p.x + 1 → p.y - 1 < (j : Rat) → (j : Rat) < p.y + 1 →
      F i j = a + b * f i j + c * g i j) :
    (Img2.mk h w F).core .linear p
      = a + b * (Img2.mk h w f).core .linear p + c * (Img2.mk h w g).core .linear p := by
  obtain ⟨i₀, i₁, j₀, j₁, t, s, _, _, _, _, hi, hj, _, _, hpx⟩ := core2_linear_four_point hp
  rw [hpx F, hpx f, hpx g]
  obtain ⟨x0, x1, x2, x3⟩ := hi i₀ (Or.inl rfl)
  obtain ⟨y0, y1, y2, y3⟩ := hi i₁ (Or.inr rfl)
  obtain ⟨z0, z1, z2, z3⟩ := hj j₀ (Or.inl rfl)
  obtain ⟨u0, u1, u2, u3⟩ := hj j₁ (Or.inr rfl)
  rw [hF i₀ j₀ x0 x1 z0 z1 x2 x3 z2 z3, hF i₀ j₁ x0 x1 u0 u1 x2 x3 u2 u3,
      hF i₁ j₀ y0 y1 z0 z1 y2 y3 z2 z3, hF i₁ j₁ y0 y1 u0 u1 y2 y3 u2 u3]
  ring

theorem absR_eq_abs (x : Rat) : absR x = |x| := by
  unfold absR
  split
  · rename_i h; rw [abs_of_neg h]
  · rename_i h; rw [abs_of_nonneg (not_lt.mp h)]

/-- **bilinear sampling does not expand the sup norm** (locally): two contents that differ by at most `ε` on the
grid points of the cell give samples that differ by at most `ε` -/
theorem core2_linear_close_local {h w : Nat} {F G : Int → Int → Rat} {p : V2} {ε : Rat}
    (hp : inR h p.x ∧ inR w p.y)
    (hFG : ∀ i j : Int, 0 ≤ i → i ≤ (h : Int) - 1 → 0 ≤ j → j ≤ (w : Int) - 1 →
      p.x - 1 < (i : Rat) → (i : Rat) < p.x + 1 → p.y - 1 < (j : Rat) → (j : Rat) < p.y + 1 →
      |F i j - G i j| ≤ ε) :
    |(Img2.mk h w F).core .linear p - (Img2.mk h w G).core .linear p| ≤ ε := by
  obtain ⟨i₀, i₁, j₀, j₁, t, s, ht0, ht1, hs0, hs1, hi, hj, _, _, hpx⟩ := core2_linear_four_point hp
  rw [hpx F, hpx G]
  obtain ⟨x0, x1, x2, x3⟩ := hi i₀ (Or.inl rfl)
  obtain ⟨y0, y1, y2, y3⟩ := hi i₁ (Or.inr rfl)
  obtain ⟨z0, z1, z2, z3⟩ := hj j₀ (Or.inl rfl)
  obtain ⟨u0, u1, u2, u3⟩ := hj j₁ (Or.inr rfl)
  have e00 := abs_le.mp (hFG i₀ j₀ x0 x1 z0 z1 x2 x3 z2 z3)
  have e01 := abs_le.mp (hFG i₀ j₁ x0 x1 u0 u1 x2 x3 u2 u3)
  have e10 := abs_le.mp (hFG i₁ j₀ y0 y1 z0 z1 y2 y3 z2 z3)
  have e11 := abs_le.mp (hFG i₁ j₁ y0 y1 u0 u1 y2 y3 u2 u3)
  have ht' : 0 ≤ 1 - t := by linarith
  have hs' : 0 ≤ 1 - s := by linarith
  have key : (1 - t) * ((1 - s) * F i₀ j₀ + s * F i₀ j₁) + t * ((1 - s) * F i₁ j₀ + s * F i₁ j₁)
      - ((1 - t) * ((1 - s) * G i₀ j₀ + s * G i₀ j₁) + t * ((1 - s) * G i₁ j₀ + s * G i₁ j₁))
      = (1 - t) * (1 - s) * (F i₀ j₀ - G i₀ j₀) + (1 - t) * s * (F i₀ j₁ - G i₀ j₁)
        + t * (1 - s) * (F i₁ j₀ - G i₁ j₀) + t * s * (F i₁ j₁ - G i₁ j₁) := by ring
  have wsum : (1 - t) * (1 - s) + (1 - t) * s + t * (1 - s) + t * s = 1 := by ring
  have w00 : 0 ≤ (1 - t) * (1 - s) := mul_nonneg ht' hs'
  have w01 : 0 ≤ (1 - t) * s := mul_nonneg ht' hs0
  have w10 : 0 ≤ t * (1 - s) := mul_nonneg ht0 hs'
  have w11 : 0 ≤ t * s := mul_nonneg ht0 hs0
  rw [key, abs_le]
  constructor
  · have a1 := mul_le_mul_of_nonneg_left e00.1 w00
    have a2 := mul_le_mul_of_nonneg_left e01.1 w01
    have a3 := mul_le_mul_of_nonneg_left e10.1 w10
    have a4 := mul_le_mul_of_nonneg_left e11.1 w11
    have : -ε = ((1 - t) * (1 - s) + (1 - t) * s + t * (1 - s) + t * s) * -ε := by rw [wsum]; ring
    rw [this]; linarith
  · have a1 := mul_le_mul_of_nonneg_left e00.2 w00
    have a2 := mul_le_mul_of_nonneg_left e01.2 w01
    have a3 := mul_le_mul_of_nonneg_left e10.2 w10
    have a4 := mul_le_mul_of_nonneg_left e11.2 w11
    have : ε = ((1 - t) * (1 - s) + (1 - t) * s + t * (1 - s) + t * s) * ε := by rw [wsum]; ring
    rw [this]; linarith

/-- for an affine transform the interpolated transform is the transform -/
theorem interpT_affine (h w : Nat) (A : Aff2) {p : V2} (hp : inR h p.x ∧ inR w p.y) :
    interpT h w A.apply p = A.apply p := by
  unfold interpT
  have hx : (txImg h w A.apply).core .linear p = A.tx + A.a * p.x + A.b * p.y := by
    apply core2_linear_local (im := txImg h w A.apply) hp
    intro i j _ _ _ _ _ _ _ _
    simp only [txImg, Aff2.apply, gridPt2]; ring
  have hy : (tyImg h w A.apply).core .linear p = A.ty + A.c * p.x + A.d * p.y := by
    apply core2_linear_local (im := tyImg h w A.apply) hp
    intro i j _ _ _ _ _ _ _ _
    simp only [tyImg, Aff2.apply, gridPt2]; ring
  rw [hx, hy]
  ext <;> simp only [Aff2.apply] <;> ring

end MenpoModel.C01
