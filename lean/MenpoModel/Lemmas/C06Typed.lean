/-
C06, part 3: conformance to the attribute-kind table under the updates of `stepH`.  Rebinding an attribute of an
object keeps the heap conforming when the kind stored is listed for that attribute (`attr_update_conforms`: what
the regenerated obligation `mutEffects_ok` establishes of every observed mutator effect); updating a dict keeps
it conforming when every attribute holding that dict may hold a dict of the new member kind
(`dict_update_conforms`).  Core Lean only.
-/
import MenpoModel.Lemmas.C06Ops

namespace MenpoModel.C06

/-! ### conformance under updates of one cell -/

/-- the sort of a cell: all that `elemOf` of a reference to it depends on -/
def cellTag : Cell → Elem
  | .buf _ => .buf
  | .node (.obj _) _ => .obj
  | _ => .other

theorem elemOf_eq_tag (h : Heap) (a : Nat) : elemOf h (.ref a) = match h[a]? with | some c => cellTag c | none => .other := by
  simp only [elemOf]
  cases hc : h[a]? with
  | none => rfl
  | some c =>
    cases c with
    | buf d => rfl
    | node k fs => cases k <;> rfl

/-- replacing a cell by one of the same sort changes no `elemOf` -/
theorem elemOf_set_tag {h : Heap} {a : Nat} {c c' : Cell} (hc : h[a]? = some c) (ht : cellTag c' = cellTag c) (v : Val) :
    elemOf (h.set a c') v = elemOf h v := by
  cases v with
  | imm t => rfl
  | ref b =>
    rw [elemOf_eq_tag, elemOf_eq_tag]
    by_cases hb : b = a
    · subst hb
      rw [List.getElem?_set_self (get_lt hc), hc]
      exact ht
    · rw [List.getElem?_set_ne (Ne.symm hb)]

/-- … and no `kindOf` except that of references to a replaced container -/
theorem kindOf_set_other {h : Heap} {a : Nat} {c c' : Cell} (hc : h[a]? = some c) (ht : cellTag c' = cellTag c)
    {v : Val} (hv : v ≠ .ref a) : kindOf (h.set a c') v = kindOf h v := by
  cases v with
  | imm t => rfl
  | ref b =>
    have hb : b ≠ a := fun e => hv (by rw [e])
    simp only [kindOf, List.getElem?_set_ne (Ne.symm hb)]
    cases hcb : h[b]? with
    | none => rfl
    | some cb =>
      cases cb with
      | buf _ => rfl
      | node k fs =>
        cases k with
        | obj C => rfl
        | frozen => rfl
        | dict =>
          simp only
          congr 2
          apply List.map_congr_left
          intro p _
          exact elemOf_set_tag hc ht p.2
        | list =>
          simp only
          congr 2
          apply List.map_congr_left
          intro p _
          exact elemOf_set_tag hc ht p.2

theorem kindOf_set_obj {h : Heap} {a : Nat} {C : String} {fs fs' : Slots} (hc : h[a]? = some (.node (.obj C) fs))
    (v : Val) : kindOf (h.set a (.node (.obj C) fs')) v = kindOf h v := by
  by_cases hv : v = .ref a
  · subst hv
    simp [kindOf, List.getElem?_set_self (get_lt hc), hc]
  · exact kindOf_set_other (c' := .node (.obj C) fs') hc rfl hv

theorem kinded_congr {h h2 : Heap} {fs : Slots} (hk : ∀ x v, (x, v) ∈ fs → kindOf h2 v = kindOf h v) :
    kinded h2 fs = kinded h fs := by
  simp only [kinded]
  apply List.map_congr_left
  intro p hp
  rw [hk p.1 p.2 hp]

/-- replacing the attributes of an object by ones that pass the table check keeps the heap conforming -/
theorem wt_set_obj {tbl : AttrTable} {sup : SupplierTable} {h : Heap} (hwt : wtHeap tbl sup h = true) {a : Nat}
    {C : String} {fs fs' : Slots} (hc : h[a]? = some (.node (.obj C) fs))
    (hnew : wtSlots tbl sup C (kinded h fs') = true) : wtHeap tbl sup (h.set a (.node (.obj C) fs')) = true := by
  simp only [wtHeap, List.all_eq_true]
  intro cell hmem
  rcases List.mem_or_eq_of_mem_set hmem with hold | rfl
  · cases cell with
    | buf _ => rfl
    | node k gs =>
      cases k with
      | dict => rfl
      | list => rfl
      | frozen => rfl
      | obj D =>
        rw [wtCell_eq, kinded_congr (fun x v _ => kindOf_set_obj hc v), ← wtCell_eq]
        exact List.all_eq_true.mp hwt _ hold
  · rw [wtCell_eq, kinded_congr (fun x v _ => kindOf_set_obj hc v)]
    exact hnew

/-! ### (name, kind) lists under `putSlot` -/

def putKind : List (String × Kind) → String → Kind → List (String × Kind)
  | [], x, k => [(x, k)]
  | (y, w) :: t, x, k => if y == x then (y, k) :: t else (y, w) :: putKind t x k

theorem kinded_putSlot (h : Heap) (fs : Slots) (x : String) (v : Val) :
    kinded h (putSlot fs x v) = putKind (kinded h fs) x (kindOf h v) := by
  induction fs with
  | nil => rfl
  | cons p t ih =>
    obtain ⟨y, w⟩ := p
    simp only [putSlot, kinded, List.map_cons, putKind]
    split
    · rfl
    · simp only [List.map_cons]
      congr 1

theorem putKind_names {ks : List (String × Kind)} {x : String} (hx : x ∈ ks.map (·.1)) (k : Kind) :
    (putKind ks x k).map (·.1) = ks.map (·.1) := by
  induction ks with
  | nil => simp at hx
  | cons p t ih =>
    obtain ⟨y, w⟩ := p
    simp only [putKind]
    split
    · rfl
    · rename_i hne
      simp only [List.map_cons, List.mem_cons] at hx ⊢
      rcases hx with rfl | hx
      · simp at hne
      · rw [ih hx]

theorem putKind_lookup_isSome (ks : List (String × Kind)) (x z : String) (k : Kind) :
    (ks.lookup z).isSome = true → ((putKind ks x k).lookup z).isSome = true := by
  induction ks with
  | nil => intro h; simp [List.lookup] at h
  | cons p t ih =>
    obtain ⟨y, w⟩ := p
    intro h
    simp only [putKind]
    split
    · simp only [List.lookup] at h ⊢
      split
      · rfl
      · rename_i hz
        simp only [hz] at h
        exact h
    · simp only [List.lookup] at h ⊢
      split
      · rfl
      · rename_i hz
        simp only [hz] at h
        exact ih h

theorem mem_putKind {ks : List (String × Kind)} {x : String} {k : Kind} {q : String × Kind}
    (m : q ∈ putKind ks x k) : q ∈ ks ∨ q = (x, k) := by
  induction ks with
  | nil => simp only [putKind, List.mem_singleton] at m; exact .inr m
  | cons p t ih =>
    obtain ⟨y, w⟩ := p
    simp only [putKind] at m
    split at m
    · rename_i hy
      have hy' : y = x := by simpa using hy
      simp only [List.mem_cons] at m
      rcases m with rfl | m
      · exact .inr (by rw [hy'])
      · exact .inl (List.mem_cons_of_mem _ m)
    · simp only [List.mem_cons] at m
      rcases m with rfl | m
      · exact .inl List.mem_cons_self
      · rcases ih m with l | r
        · exact .inl (List.mem_cons_of_mem _ l)
        · exact .inr r

/-- rebinding an existing attribute to a value of a listed kind passes the table check -/
theorem wtSlots_putKind {tbl : AttrTable} {sup : SupplierTable} {C : String} {ks : List (String × Kind)}
    (hw : wtSlots tbl sup C ks = true) {x : String} (hx : x ∈ ks.map (·.1)) {k : Kind}
    (hk : kindListed tbl C x k = true) : wtSlots tbl sup C (putKind ks x k) = true := by
  simp only [wtSlots, Bool.and_eq_true, decide_eq_true_eq] at hw ⊢
  obtain ⟨⟨hnd, hsp⟩, hall⟩ := hw
  refine ⟨⟨by rw [putKind_names hx]; exact hnd, ?_⟩, ?_⟩
  · cases hs : specialSlot (resOf sup C) with
    | none => rfl
    | some z =>
      simp only [hs] at hsp ⊢
      exact putKind_lookup_isSome ks x z k hsp
  · simp only [kindListed] at hk
    cases hl : tbl.lookup C with
    | none => simp [hl] at hall
    | some attrs =>
      simp only [hl] at hall hk ⊢
      simp only [List.all_eq_true] at hall ⊢
      intro q hq
      rcases mem_putKind hq with hold | rfl
      · exact hall q hold
      · simp only
        cases hla : attrs.lookup x with
        | none => simp [hla] at hk
        | some l => simp only [hla] at hk ⊢; exact hk

/-! ### updates of a container: only the attributes that hold it change kind -/

/-- every attribute (of any object) that holds the container at `a` may hold a container of kind `K` -/
def refsListed (tbl : AttrTable) (h : Heap) (a : Nat) (K : Kind) : Bool :=
  h.all fun cell =>
    match cell with
    | .node (.obj C) gs => gs.all fun p => p.2 != .ref a || kindListed tbl C p.1 K
    | _ => true

theorem lookup_isSome_names (ks : List (String × Kind)) (x : String) :
    (ks.lookup x).isSome = decide (x ∈ ks.map (·.1)) := by
  induction ks with
  | nil => simp [List.lookup]
  | cons p t ih =>
    obtain ⟨y, w⟩ := p
    simp only [List.lookup, List.map_cons, List.mem_cons]
    split
    · rename_i hxy
      have : x = y := by simpa using hxy
      simp [this]
    · rename_i hxy
      have hne : x ≠ y := by simpa using hxy
      rw [ih]
      simp [hne]

/-- the table check depends on the names and on each (name, kind) being listed -/
theorem wtSlots_of_names {tbl : AttrTable} {sup : SupplierTable} {C : String} {ks ks' : List (String × Kind)}
    (hw : wtSlots tbl sup C ks = true) (hn : ks'.map (·.1) = ks.map (·.1))
    (hl : ∀ q, q ∈ ks' → q ∈ ks ∨ kindListed tbl C q.1 q.2 = true) : wtSlots tbl sup C ks' = true := by
  simp only [wtSlots, Bool.and_eq_true, decide_eq_true_eq] at hw ⊢
  obtain ⟨⟨hnd, hsp⟩, hall⟩ := hw
  refine ⟨⟨by rw [hn]; exact hnd, ?_⟩, ?_⟩
  · cases hs : specialSlot (resOf sup C) with
    | none => rfl
    | some z =>
      simp only [hs] at hsp ⊢
      rw [lookup_isSome_names] at hsp ⊢
      rw [hn]
      exact hsp
  · cases hlk : tbl.lookup C with
    | none => simp [hlk] at hall
    | some attrs =>
      simp only [hlk] at hall ⊢
      simp only [List.all_eq_true] at hall ⊢
      intro q hq
      rcases hl q hq with hold | hnew
      · exact hall q hold
      · simp only [kindListed, hlk] at hnew
        cases hla : attrs.lookup q.1 with
        | none => simp [hla] at hnew
        | some l => simp only [hla] at hnew ⊢; exact hnew

theorem wt_set_dict {tbl : AttrTable} {sup : SupplierTable} {h : Heap} (hwt : wtHeap tbl sup h = true) {a : Nat}
    {fs fs' : Slots} (hc : h[a]? = some (.node .dict fs))
    (hrefs : refsListed tbl h a (.dictOf (joinElems (fs'.map fun p => elemOf h p.2))) = true) :
    wtHeap tbl sup (h.set a (.node .dict fs')) = true := by
  have htag : cellTag (Cell.node .dict fs') = cellTag (Cell.node .dict fs) := rfl
  have hself : kindOf (h.set a (.node .dict fs')) (.ref a) = .dictOf (joinElems (fs'.map fun p => elemOf h p.2)) := by
    simp only [kindOf, List.getElem?_set_self (get_lt hc)]
    congr 2
    apply List.map_congr_left
    intro p _
    exact elemOf_set_tag hc htag p.2
  simp only [wtHeap, List.all_eq_true]
  intro cell hmem
  rcases List.mem_or_eq_of_mem_set hmem with hold | rfl
  · cases cell with
    | buf _ => rfl
    | node k gs =>
      cases k with
      | dict => rfl
      | list => rfl
      | frozen => rfl
      | obj D =>
        have hw := List.all_eq_true.mp hwt _ hold
        rw [wtCell_eq] at hw ⊢
        apply wtSlots_of_names hw
        · simp [kinded, List.map_map, Function.comp_def]
        · intro q hq
          simp only [kinded, List.mem_map] at hq
          obtain ⟨p, hp, rfl⟩ := hq
          by_cases hv : p.2 = .ref a
          · right
            have hr := List.all_eq_true.mp hrefs _ hold
            simp only at hr
            have hr2 := List.all_eq_true.mp hr p hp
            simp only [hv, bne_self_eq_false, Bool.false_or] at hr2
            simp only [hv, hself]
            exact hr2
          · left
            simp only [kinded, List.mem_map]
            exact ⟨p, hp, by rw [kindOf_set_other hc htag hv]⟩
  · rfl

/-- appending well-typed cells -/
theorem wt_append {tbl : AttrTable} {sup : SupplierTable} {h : Heap} (hc : Closed h) (hwt : wtHeap tbl sup h = true)
    {frag : List Cell} (hf : frag.all (wtCell tbl sup (h ++ frag)) = true) : wtHeap tbl sup (h ++ frag) = true := by
  simp only [wtHeap, List.all_append, Bool.and_eq_true]
  refine ⟨?_, hf⟩
  simp only [List.all_eq_true]
  intro cell hmem
  cases cell with
  | buf _ => rfl
  | node k gs =>
    cases k with
    | dict => rfl
    | list => rfl
    | frozen => rfl
    | obj D =>
      obtain ⟨b, hlt, hget⟩ := List.getElem_of_mem hmem
      have hget? : h[b]? = some (.node (.obj D) gs) := by rw [List.getElem?_eq_getElem hlt, hget]
      rw [wtCell_eq, kinded_ext hc (Ext.append h frag) (fun x v m => hc.slot_valid hget? m), ← wtCell_eq]
      exact List.all_eq_true.mp hwt _ hmem

/-! ### the operations of `stepH` that rebind an attribute of an object -/

/-- rebinding an existing attribute `x` of an object of class `C` to a value whose runtime kind the table
lists for `(C, x)` keeps the heap conforming (what `mutEffects_ok` checks of every observed effect) -/
theorem attr_update_conforms {tbl : AttrTable} {sup : SupplierTable} {h1 : Heap} (hwt1 : wtHeap tbl sup h1 = true)
    {a : Nat} {C : String} {fs : Slots} (hc : h1[a]? = some (.node (.obj C) fs)) {x : String}
    (hx : x ∈ slotNames fs) (v : Val) (hk : kindListed tbl C x (kindOf h1 v) = true) :
    wtHeap tbl sup (h1.set a (.node (.obj C) (putSlot fs x v))) = true := by
  apply wt_set_obj hwt1 hc
  rw [kinded_putSlot]
  have hw := List.all_eq_true.mp hwt1 _ (List.mem_of_getElem? hc)
  rw [wtCell_eq] at hw
  apply wtSlots_putKind hw ?_ hk
  simpa [kinded, slotNames, List.map_map, Function.comp_def] using hx

theorem nodeAt_heap {res : String → CopyImpl} {w : HW} {i : Nat} {p : Path} {a : Nat} {k : NodeKind} {fs : Slots}
    (e : nodeAt res w i p = .ok (a, k, fs)) : w.heap[a]? = some (.node k fs) := by
  obtain ⟨_, _, _, hc⟩ := nodeAt_ok e
  exact hc

/-- PROPERTY support: `o<p>.x = None` on an object whose table lists an immutable for `x` -/
theorem putImm_conforms {tbl : AttrTable} {sup : SupplierTable} {w w' : HW} (hwt : wtHeap tbl sup w.heap = true)
    {i : Nat} {p : Path} {x : String} (e : stepH tbl sup w (.putImm i p x) = .ok w')
    {a : Nat} {C : String} {fs : Slots} (hn : nodeAt (resOf sup) w i p = .ok (a, .obj C, fs))
    (hx : x ∈ slotNames fs) (hk : kindListed tbl C x (.elem .imm) = true) : wtHeap tbl sup w'.heap = true := by
  simp only [stepH, hn, NodeKind.assignable, if_true, Except.ok.injEq] at e
  subst e
  exact attr_update_conforms hwt (nodeAt_heap hn) hx (.imm 0) hk

/-- PROPERTY support: `o<p>.x = <fresh object graph>` (array rebinding, `set_target`, a lazily created manager) -/
theorem putFresh_conforms {tbl : AttrTable} {sup : SupplierTable} {w w' : HW} (S : Sep (resOf sup) w)
    (hwt : wtHeap tbl sup w.heap = true) {i : Nat} {p : Path} {x : String} {frag : List Cell}
    (e : stepH tbl sup w (.putFresh i p x frag) = .ok w')
    {a : Nat} {C : String} {fs : Slots} (hn : nodeAt (resOf sup) w i p = .ok (a, .obj C, fs))
    (hx : x ∈ slotNames fs) (hfrag : frag.all (wtCell tbl sup (w.heap ++ frag)) = true)
    (hk : kindListed tbl C x (kindOf (w.heap ++ frag) (.ref (w.heap.length + frag.length - 1))) = true) :
    wtHeap tbl sup w'.heap = true := by
  simp only [stepH, hn, NodeKind.assignable, if_true] at e
  split at e
  · simp only [Except.ok.injEq] at e
    subst e
    have hc := nodeAt_heap hn
    have hc1 : (w.heap ++ frag)[a]? = some (.node (.obj C) fs) := by
      rw [(Ext.append w.heap frag).get (get_lt hc)]; exact hc
    exact attr_update_conforms (wt_append S.closed hwt hfrag) hc1 hx _ hk
  · cases e

/-- PROPERTY support: `o_i<p>.x = o_j<q>.copy()` (`image.landmarks = other.landmarks`): the copy has the
runtime kind of its source -/
theorem putCopy_conforms {tbl : AttrTable} {sup : SupplierTable} {w w' : HW} (S : Sep (resOf sup) w)
    (hwt : wtHeap tbl sup w.heap = true) {i : Nat} {p : Path} {x : String} {j : Nat} {q : Path}
    (e : stepH tbl sup w (.putCopy i p x j q) = .ok w')
    {a : Nat} {C : String} {fs : Slots} (hn : nodeAt (resOf sup) w i p = .ok (a, .obj C, fs))
    (hx : x ∈ slotNames fs) {rj s : Nat} {l : Lim} (hj : w.roots[j]? = some rj)
    (hr : resolve (resOf sup) w.heap .full rj q = some (s, l))
    (hk : kindListed tbl C x (kindOf w.heap (.ref s)) = true) : wtHeap tbl sup w'.heap = true := by
  simp only [stepH, hn, NodeKind.assignable, if_true, hj, hr] at e
  split at e
  · rename_i h1 c hcp
    simp only [Except.ok.injEq] at e
    subst e
    have hs : s < w.heap.length := S.own_lt hj (resolve_own _ w.heap q .full rj _ _ hr).1
    have hv : Valid w.heap (.ref s) := by intro b eb; cases eb; exact hs
    have hcp' := hcp
    simp only [copyAt] at hcp'
    split at hcp'
    · split at hcp'
      · rename_i h1' c' hcc
        simp only [Except.ok.injEq, Prod.mk.injEq] at hcp'
        obtain ⟨rfl, rfl⟩ := hcp'
        have b := copy_basic (resOf sup) w.heap _ w.heap (.ref s) _ _ (Ctx.refl S.closed) hv hcc
        have hwt1 := copy_preserves_wt tbl sup S.closed hwt hv hcc
        have hc := nodeAt_heap hn
        have hc1 : h1'[a]? = some (.node (.obj C) fs) := by rw [b.ext.get (get_lt hc)]; exact hc
        have hkind : kindOf h1' (.ref c') = kindOf w.heap (.ref s) := by
          rw [← kindOf_absF h1' _ 0, ← kindOf_absF w.heap _ 0, b.same 2]
        exact attr_update_conforms hwt1 hc1 hx _ (by rw [hkind]; exact hk)
      · cases hcp'
      · cases hcp'
    · cases hcp'
  · cases e

/-- PROPERTY support: `lm[k] = group.copy()` / `del lm[k]` — an update of a dict.  The heap keeps conforming
when every attribute that holds this dict may hold a dict of the new member kind (`refsListed`, executable). -/
theorem dict_update_conforms {tbl : AttrTable} {sup : SupplierTable} {h1 : Heap} (hwt1 : wtHeap tbl sup h1 = true)
    {a : Nat} {fs : Slots} (hc : h1[a]? = some (.node .dict fs)) (fs' : Slots)
    (hrefs : refsListed tbl h1 a (.dictOf (joinElems (fs'.map fun p => elemOf h1 p.2))) = true) :
    wtHeap tbl sup (h1.set a (.node .dict fs')) = true := wt_set_dict hwt1 hc hrefs

end MenpoModel.C06
