/-
C18 helper lemmas: the nearest-neighbour source index, landmark scaling, gather/scatter, zipWith.
Core Lean + `omega` only.
-/
import MenpoModel.Core.C18Feature

namespace MenpoModel.C18

theorem zipWith_map_self {α β γ} (f : α → β → γ) (g : α → β) (l : List α) :
    List.zipWith f l (l.map g) = l.map fun a => f a (g a) := by
  induction l with
  | nil => rfl
  | cons a t ih => simp [ih]

/-! ### nearest source index along one axis -/

/-- for non-degenerate extents the chosen source index `k` is a valid index and lies within half a pixel of the
exact sampling position `i·(o−1)/(n−1)`:  `|k·(n−1) − i·(o−1)| ≤ (n−1)/2`, written without division -/
theorem srcAxis_nearest (o n i : Nat) (ho : 2 ≤ o) (hn : 2 ≤ n) (hi : i < n) :
    ∃ k, (srcAxis o n i = .at k ∨ srcAxis o n i = .tie k) ∧ k < o ∧
      2 * (i * (o - 1)) ≤ 2 * (k * (n - 1)) + (n - 1) ∧ 2 * (k * (n - 1)) ≤ 2 * (i * (o - 1)) + (n - 1) := by
  have hdeg : ¬ (n ≤ 1 ∨ o ≤ 1) := by omega
  let num := 2 * i * (o - 1) + (n - 1)
  let den := 2 * (n - 1)
  let q := num / den
  refine ⟨min (o - 1) q, ?_, ?_, ?_, ?_⟩
  · unfold srcAxis
    simp only [hdeg, if_false]
    by_cases ht : (2 * i * (o - 1) + (n - 1)) % (2 * (n - 1)) = 0
    · right; simp [ht, q, num, den]
    · left; simp [ht, q, num, den]
  · have : min (o - 1) q ≤ o - 1 := Nat.min_le_left _ _
    omega
  all_goals
    have hden : 0 < den := by simp only [den]; omega
    have h1 : den * q ≤ num := Nat.mul_div_le num den
    have h2 : num < den * (q + 1) := by
      have := Nat.lt_mul_div_succ num hden
      simpa [q, Nat.mul_add] using this
    -- atoms: a = i*(o-1), e = q*(n-1), kd = (o-1)*(n-1)
    have ha : 2 * i * (o - 1) = 2 * (i * (o - 1)) := by rw [Nat.mul_assoc]
    have he : den * q = 2 * (q * (n - 1)) := by simp only [den]; rw [Nat.mul_assoc, Nat.mul_comm (n - 1) q]
    have he' : den * (q + 1) = 2 * (q * (n - 1)) + 2 * (n - 1) := by
      simp only [den]; rw [Nat.mul_add, Nat.mul_one, Nat.mul_assoc, Nat.mul_comm (n - 1) q]
    have hia : i * (o - 1) ≤ (n - 1) * (o - 1) := Nat.mul_le_mul_right _ (by omega)
    have hcomm : (n - 1) * (o - 1) = (o - 1) * (n - 1) := Nat.mul_comm _ _
    simp only [num] at h1 h2
    rw [ha] at h1 h2
    rw [he] at h1
    rw [he'] at h2
    rcases Nat.le_total (o - 1) q with hle | hle
    · rw [Nat.min_eq_left hle]
      have hm : (o - 1) * (n - 1) ≤ q * (n - 1) := Nat.mul_le_mul_right _ hle
      omega
    · rw [Nat.min_eq_right hle]
      omega

/-- an axis whose extent does not change is sampled at the identity (never a tie) -/
theorem srcAxis_same (o i : Nat) (ho : 2 ≤ o) (hi : i < o) : srcAxis o o i = .at i := by
  have hdeg : ¬ (o ≤ 1 ∨ o ≤ 1) := by omega
  unfold srcAxis
  simp only [hdeg, if_false]
  have hd : 0 < o - 1 := by omega
  have hnum : 2 * i * (o - 1) + (o - 1) = (o - 1) + 2 * (o - 1) * i := by
    rw [Nat.mul_assoc, Nat.mul_assoc, Nat.mul_comm i (o - 1), Nat.add_comm]
  have hmod : (2 * i * (o - 1) + (o - 1)) % (2 * (o - 1)) = o - 1 := by
    rw [hnum, Nat.add_mul_mod_self_left]; exact Nat.mod_eq_of_lt (by omega)
  have hdiv : (2 * i * (o - 1) + (o - 1)) / (2 * (o - 1)) = i := by
    rw [hnum, Nat.add_mul_div_left _ _ (by omega : 0 < 2 * (o - 1)), Nat.div_eq_of_lt (by omega)]; omega
  rw [hmod, hdiv]
  have : o - 1 ≠ 0 := by omega
  simp only [this, if_false]
  congr 1
  exact Nat.min_eq_right (by omega)

/-! ### landmarks -/

theorem scaleLms_keys (sf : List Rat) (l : Lms) : (scaleLms sf l).map (·.1) = l.map (·.1) := by
  simp [scaleLms, List.map_map, Function.comp_def]

theorem scaleLms_sizes (sf : List Rat) (l : Lms) :
    (scaleLms sf l).map (·.2.length) = l.map (·.2.length) := by
  simp [scaleLms, List.map_map, Function.comp_def]

/-- every point of every group is multiplied coordinate-wise by the factors -/
theorem scaleLms_points (sf : List Rat) (l : Lms) :
    (scaleLms sf l).map (·.2) = l.map fun kg => kg.2.map (scalePt sf) := by
  simp [scaleLms, List.map_map, Function.comp_def]

theorem scalePt_2d (n0 n1 o0 o1 : Nat) (y x : Rat) :
    scalePt (ratio [n0, n1] [o0, o1]) [y, x] = [y * ((n0 : Rat) / o0), x * ((n1 : Rat) / o1)] := rfl

theorem scalePt_3d (n0 n1 n2 o0 o1 o2 : Nat) (z y x : Rat) :
    scalePt (ratio [n0, n1, n2] [o0, o1, o2]) [z, y, x]
      = [z * ((n0 : Rat) / o0), y * ((n1 : Rat) / o1), x * ((n2 : Rat) / o2)] := rfl

theorem scalePt_getElem? (sf : List Rat) (p : Pt) (k : Nat) :
    (scalePt sf p)[k]? = (p[k]?).bind fun a => (sf[k]?).map fun b => a * b := by
  unfold scalePt
  rw [List.getElem?_zipWith]
  cases p[k]? <;> cases sf[k]? <;> simp

theorem ratio_getElem? (new old : List Nat) (k : Nat) :
    (ratio new old)[k]? = (new[k]?).bind fun n => (old[k]?).map fun o => (n : Rat) / (o : Rat) := by
  unfold ratio
  rw [List.getElem?_zipWith]
  cases new[k]? <;> cases old[k]? <;> simp

/-! ### gather / scatter -/

theorem gather_scatter {α} (z : α) (bits : List Bool) (vs : List α) (h : vs.length = bits.count true) :
    gather bits (scatter z bits vs) = vs := by
  induction bits generalizing vs with
  | nil => cases vs with
    | nil => rfl
    | cons v t => simp at h
  | cons b bs ih =>
    cases b with
    | false =>
      simp only [scatter]
      simp only [List.count_cons, beq_iff_eq] at h
      exact ih vs (by simpa using h)
    | true =>
      cases vs with
      | nil => simp at h
      | cons v t =>
        simp only [scatter, gather, if_true]
        simp only [List.count_cons, List.length_cons] at h
        rw [ih t (by simpa using h)]

theorem scatter_length {α} (z : α) (bits : List Bool) (vs : List α) : (scatter z bits vs).length = bits.length := by
  induction bits generalizing vs with
  | nil => rfl
  | cons b bs ih =>
    cases b with
    | false => simp [scatter, ih]
    | true => cases vs <;> simp [scatter, ih]

/-- outside the mask the rebuilt image holds the fill value -/
theorem scatter_unmasked {α} (z : α) (bits : List Bool) (vs : List α) (k : Nat) (h : bits[k]? = some false) :
    (scatter z bits vs)[k]? = some z := by
  induction bits generalizing vs k with
  | nil => simp at h
  | cons b bs ih =>
    cases k with
    | zero =>
      simp only [List.getElem?_cons_zero, Option.some.injEq] at h
      subst h; simp [scatter]
    | succ k =>
      simp only [List.getElem?_cons_succ] at h
      cases b with
      | false => simp only [scatter]; exact ih vs k h
      | true => cases vs with
        | nil => simp only [scatter]; exact ih [] k h
        | cons v t => simp only [scatter, if_true, List.getElem?_cons_succ]; exact ih t k h

theorem gather_length {α} (bits : List Bool) (xs : List α) (h : xs.length = bits.length) :
    (gather bits xs).length = bits.count true := by
  induction bits generalizing xs with
  | nil => simp [gather]
  | cons b bs ih =>
    cases xs with
    | nil => simp at h
    | cons x t =>
      have ht : t.length = bs.length := by simpa using h
      cases b with
      | false => simp [gather, ih t ht]
      | true => simp [gather, ih t ht]

end MenpoModel.C18
