/-
C17 — the grid triangulation of `init_2d_grid` (`subsampled_grid_triangulation`): well formed, two
triangles per cell, three distinct corners per triangle.
-/
import MenpoModel.Lemmas.C17Mask

namespace MenpoModel.C17

theorem mem_gridCells (r c : Nat) (p : Nat × Nat) : p ∈ gridCells r c ↔ p.1 + 1 < r ∧ p.2 + 1 < c := by
  simp only [gridCells, List.mem_flatMap, List.mem_range, List.mem_map]
  constructor
  · rintro ⟨i, hi, j, hj, rfl⟩; exact ⟨by simp; omega, by simp; omega⟩
  · rintro ⟨h1, h2⟩; exact ⟨p.1, by omega, p.2, by omega, rfl⟩

theorem gridCells_length (r c : Nat) : (gridCells r c).length = (r - 1) * (c - 1) := by
  simp only [gridCells, List.length_flatMap, List.length_map, List.length_range]
  generalize r - 1 = a
  induction a with
  | zero => simp
  | succ a ih => rw [List.range_succ, List.map_append, List.sum_append, ih]; simp [Nat.succ_mul]

theorem grid_index_lt (r c i j : Nat) (hi : i < r) (hj : j < c) : i * c + j < r * c := by
  have h1 : (i + 1) * c ≤ r * c := Nat.mul_le_mul_right c hi
  rw [Nat.add_mul, Nat.one_mul] at h1
  omega

theorem grid_wf (r c : Nat) : WF (r * c) (gridTriangulation r c) := by
  intro t ht v hv
  simp only [gridTriangulation, List.mem_append, List.mem_map] at ht
  rcases ht with ⟨p, hp, rfl⟩ | ⟨p, hp, rfl⟩ <;>
  · obtain ⟨h1, h2⟩ := (mem_gridCells r c p).1 hp
    simp only [gridDown, gridUp, Tri.verts, List.mem_cons, List.not_mem_nil, or_false] at hv
    rcases hv with rfl | rfl | rfl
    all_goals first
      | exact grid_index_lt r c _ _ (by omega) (by omega)
      | (rw [Nat.add_assoc]; exact grid_index_lt r c _ _ (by omega) (by omega))

theorem grid_length (r c : Nat) : (gridTriangulation r c).length = 2 * ((r - 1) * (c - 1)) := by
  simp [gridTriangulation, gridCells_length]; omega

theorem grid_distinct (r c : Nat) : ∀ t ∈ gridTriangulation r c, t.verts.Nodup := by
  intro t ht
  simp only [gridTriangulation, List.mem_append, List.mem_map] at ht
  rcases ht with ⟨p, hp, rfl⟩ | ⟨p, hp, rfl⟩ <;>
  · obtain ⟨h1, h2⟩ := (mem_gridCells r c p).1 hp
    have hc : p.2 + 1 < c := h2
    simp only [gridDown, gridUp, Tri.verts, List.nodup_cons, List.mem_cons, List.not_mem_nil, or_false,
      List.nodup_nil, and_true, not_or]
    rw [Nat.add_mul, Nat.one_mul]
    generalize p.1 * c = q
    refine ⟨⟨?_, ?_⟩, ?_⟩
    all_goals first | omega | exact ⟨by omega, not_false⟩

end MenpoModel.C17
