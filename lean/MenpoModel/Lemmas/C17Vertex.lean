/-
C17 — the scatter-add of `compute_vertex_normals`, `_normalize` under the `sqrt` contract, and the
whole-mesh forms of the geometry queries (Mathlib tactics).
-/
import MenpoModel.Lemmas.C17Geom
import MenpoModel.Lemmas.C17Mask

namespace MenpoModel.C17

/-! ### vector algebra -/

theorem V3.add_assoc' (a b c : V3) : V3.add (V3.add a b) c = V3.add a (V3.add b c) := by
  ext <;> simp [V3.add] <;> ring
theorem V3.add_comm' (a b : V3) : V3.add a b = V3.add b a := by
  ext <;> simp [V3.add] <;> ring
theorem V3.add_zero' (a : V3) : V3.add a V3.zero = a := by
  ext <;> simp [V3.add, V3.zero]
theorem V3.zero_add' (a : V3) : V3.add V3.zero a = a := by
  ext <;> simp [V3.add, V3.zero]
theorem V3.add4 (a b c d : V3) : V3.add (V3.add a b) (V3.add c d) = V3.add (V3.add a c) (V3.add b d) := by
  ext <;> simp [V3.add] <;> ring
theorem V3.smul_zero' (k : Rat) : V3.smul k V3.zero = V3.zero := by
  ext <;> simp [V3.smul, V3.zero]
theorem V3.zero_smul' (a : V3) : V3.smul 0 a = V3.zero := by
  ext <;> simp [V3.smul, V3.zero]
theorem V3.one_smul' (a : V3) : V3.smul 1 a = a := by
  ext <;> simp [V3.smul]
theorem V3.smul_add' (k : Rat) (a b : V3) : V3.smul k (V3.add a b) = V3.add (V3.smul k a) (V3.smul k b) := by
  ext <;> simp [V3.smul, V3.add] <;> ring
theorem V3.add_smul' (j k : Rat) (a : V3) : V3.smul (j + k) a = V3.add (V3.smul j a) (V3.smul k a) := by
  ext <;> simp [V3.smul, V3.add] <;> ring
theorem V3.smul_smul' (j k : Rat) (a : V3) : V3.smul j (V3.smul k a) = V3.smul (j * k) a := by
  ext <;> simp [V3.smul] <;> ring
theorem V3.normSq_smul (k : Rat) (a : V3) : V3.normSq (V3.smul k a) = k * k * V3.normSq a := by
  simp only [V3.normSq, V3.dot, V3.smul]; ring
theorem V3.normSq_zero : V3.normSq V3.zero = 0 := by simp [V3.normSq, V3.dot, V3.zero]

theorem V3.normSq_eq_zero (a : V3) (h : V3.normSq a = 0) : a = V3.zero := by
  simp only [V3.normSq, V3.dot] at h
  have hx : a.x = 0 := by nlinarith [mul_self_nonneg a.x, mul_self_nonneg a.y, mul_self_nonneg a.z]
  have hy : a.y = 0 := by nlinarith [mul_self_nonneg a.x, mul_self_nonneg a.y, mul_self_nonneg a.z]
  have hz : a.z = 0 := by nlinarith [mul_self_nonneg a.x, mul_self_nonneg a.y, mul_self_nonneg a.z]
  ext <;> simp [V3.zero, hx, hy, hz]

theorem M3.mulVec_add (A : M3) (a b : V3) : A.mulVec (V3.add a b) = V3.add (A.mulVec a) (A.mulVec b) := by
  ext <;> simp [M3.mulVec, V3.add] <;> ring
theorem M3.mulVec_smul (A : M3) (k : Rat) (a : V3) : A.mulVec (V3.smul k a) = V3.smul k (A.mulVec a) := by
  ext <;> simp [M3.mulVec, V3.smul] <;> ring
theorem M3.mulVec_zero (A : M3) : A.mulVec V3.zero = V3.zero := by
  ext <;> simp [M3.mulVec, V3.zero]

/-! ### sums of vectors -/

theorem vsum_cons (x : V3) (l : List V3) : vsum (x :: l) = V3.add x (vsum l) := rfl

theorem vsum_perm {l l' : List V3} (h : l.Perm l') : vsum l = vsum l' := by
  induction h with
  | nil => rfl
  | cons x _ ih => simp only [vsum_cons, ih]
  | swap x y l =>
    simp only [vsum_cons]
    rw [← V3.add_assoc', ← V3.add_assoc', V3.add_comm' y x]
  | trans _ _ ih1 ih2 => exact ih1.trans ih2

theorem vsum_map_add {α} (L : List α) (f g : α → V3) :
    vsum (L.map (fun p => V3.add (f p) (g p))) = V3.add (vsum (L.map f)) (vsum (L.map g)) := by
  induction L with
  | nil => simp [vsum, V3.add_zero']
  | cons p L ih => simp only [List.map_cons, vsum_cons, ih, V3.add4]

theorem vsum_filter_ite {α} (L : List α) (P : α → Bool) (f : α → V3) :
    vsum ((L.filter P).map f) = vsum (L.map (fun p => if P p then f p else V3.zero)) := by
  induction L with
  | nil => rfl
  | cons p L ih =>
    by_cases hp : P p = true
    · simp [hp, vsum_cons, ih]
    · simp [hp, vsum_cons, ih, V3.zero_add']

theorem vsum_map_mulVec (A : M3) (l : List V3) : vsum (l.map A.mulVec) = A.mulVec (vsum l) := by
  induction l with
  | nil => simp [vsum, M3.mulVec_zero]
  | cons x l ih => simp only [List.map_cons, vsum_cons, ih, M3.mulVec_add]

theorem vsum_map_smul (k : Rat) (l : List V3) : vsum (l.map (V3.smul k)) = V3.smul k (vsum l) := by
  induction l with
  | nil => simp [vsum, V3.smul_zero']
  | cons x l ih => simp only [List.map_cons, vsum_cons, ih, V3.smul_add']

/-! ### `np.add.at` -/

def scatterL (acc : List V3) (l : List (Nat × V3)) : List V3 := l.foldl (fun a p => addAt a p.1 p.2) acc

theorem scatterL_length (acc : List V3) (l : List (Nat × V3)) : (scatterL acc l).length = acc.length := by
  induction l generalizing acc with
  | nil => rfl
  | cons p l ih => simp [scatterL, List.foldl_cons] at ih ⊢; rw [ih]; simp [addAt]

/-- every entry receives, on top of what it held, the sum of the values scattered onto its index -/
theorem scatterL_get (acc : List V3) (l : List (Nat × V3)) (v : Nat) :
    (scatterL acc l)[v]? =
      acc[v]?.map (fun a => V3.add a (vsum ((l.filter (fun p => p.1 == v)).map (fun p => p.2)))) := by
  induction l generalizing acc with
  | nil => cases h : acc[v]? <;> simp [scatterL, h, vsum, V3.add_zero']
  | cons p l ih =>
    have := ih (addAt acc p.1 p.2)
    simp only [scatterL, List.foldl_cons] at this ⊢
    rw [this, addAt, List.getElem?_modify]
    cases h : acc[v]? with
    | none => simp
    | some a =>
      by_cases hp : p.1 = v
      · simp [hp, vsum_cons, V3.add_assoc']
      · have hp' : (p.1 == v) = false := by simpa using hp
        simp [hp, hp']

theorem replicate_get (n v : Nat) (hv : v < n) : (List.replicate n V3.zero)[v]? = some V3.zero := by
  simp [hv]

/-- one corner column: the sum of the face normals of the rows whose `g`-corner is `v` -/
def colSum (g : Tri → Nat) (L : List (Tri × V3)) (v : Nat) : V3 :=
  vsum ((L.filter (fun p => g p.1 == v)).map (fun p => p.2))

theorem zip_map_col (g : Tri → Nat) (ts : List Tri) (fn : List V3) :
    (ts.map g).zip fn = (ts.zip fn).map (fun p => (g p.1, p.2)) := by
  rw [List.zip_map_left]; rfl

theorem col_filter (g : Tri → Nat) (L : List (Tri × V3)) (v : Nat) :
    vsum (((L.map (fun p => (g p.1, p.2))).filter (fun p => p.1 == v)).map (fun p => p.2)) = colSum g L v := by
  simp only [colSum, List.filter_map, List.map_map]
  rfl

theorem count_verts (t : Tri) (v : Nat) (x : V3) :
    V3.smul ((t.verts.count v : Nat) : Rat) x =
      V3.add (V3.add (if (t.1 == v) = true then x else V3.zero) (if (t.2.1 == v) = true then x else V3.zero))
        (if (t.2.2 == v) = true then x else V3.zero) := by
  obtain ⟨a, b, c⟩ := t
  simp only [Tri.verts, List.count_cons, List.count_nil]
  by_cases h1 : a = v <;> by_cases h2 : b = v <;> by_cases h3 : c = v <;>
    simp [h1, h2, h3, V3.zero_smul', V3.one_smul', V3.add_zero', V3.zero_add'] <;>
    (ext <;> simp [V3.smul, V3.add] <;> ring)

theorem cols_eq_incident (L : List (Tri × V3)) (v : Nat) :
    V3.add (V3.add (colSum (fun t => t.1) L v) (colSum (fun t => t.2.1) L v)) (colSum (fun t => t.2.2) L v)
      = vsum (L.map (fun p => V3.smul ((p.1.verts.count v : Nat) : Rat) p.2)) := by
  simp only [colSum, vsum_filter_ite]
  rw [← vsum_map_add, ← vsum_map_add]
  congr 1
  apply List.map_congr_left
  intro p _
  exact (count_verts p.1 v p.2).symm

/-- the coded three-pass scatter-add computes, for every vertex, the sum of its incident normals -/
theorem vertexNormalSumsCoded_get (n : Nat) (ts : List Tri) (fn : List V3) (v : Nat) (hv : v < n) :
    (vertexNormalSumsCoded n ts fn)[v]? = some (incidentSum ts fn v) := by
  change (scatterL (scatterL (scatterL _ _) _) _)[v]? = _
  rw [scatterL_get, scatterL_get, scatterL_get, replicate_get n v hv]
  rw [zip_map_col (fun t => t.1), zip_map_col (fun t => t.2.1), zip_map_col (fun t => t.2.2)]
  rw [col_filter (fun t => t.1), col_filter (fun t => t.2.1), col_filter (fun t => t.2.2)]
  simp only [Option.map_some, incidentSum]
  rw [V3.zero_add', cols_eq_incident]

theorem vertexNormalSumsCoded_length (n : Nat) (ts : List Tri) (fn : List V3) :
    (vertexNormalSumsCoded n ts fn).length = n := by
  change (scatterL (scatterL (scatterL _ _) _) _).length = _
  simp [scatterL_length]

theorem vertexNormalSums_get (n : Nat) (ts : List Tri) (fn : List V3) (v : Nat) (hv : v < n) :
    (vertexNormalSums n ts fn)[v]? = some (incidentSum ts fn v) := by
  simp only [vertexNormalSums, List.getElem?_map, List.getElem?_range hv, Option.map_some, incidentSum]
  congr 1
  -- foldl over the rows = foldr-sum of the mapped rows
  have key : ∀ (L : List (Tri × V3)) (acc : V3),
      L.foldl (fun acc p => V3.add acc (V3.smul ((p.1.verts.count v : Nat) : Rat) p.2)) acc
        = V3.add acc (vsum (L.map (fun p => V3.smul ((p.1.verts.count v : Nat) : Rat) p.2))) := by
    intro L
    induction L with
    | nil => intro acc; simp [vsum, V3.add_zero']
    | cons p L ih => intro acc; simp only [List.foldl_cons, List.map_cons, vsum_cons, ih, V3.add_assoc']
  rw [key, V3.zero_add']

/-- the coded scatter-add is the specification, as whole arrays -/
theorem vertexNormalSumsCoded_eq (n : Nat) (ts : List Tri) (fn : List V3) :
    vertexNormalSumsCoded n ts fn = vertexNormalSums n ts fn := by
  apply List.ext_getElem?
  intro v
  by_cases hv : v < n
  · rw [vertexNormalSumsCoded_get n ts fn v hv, vertexNormalSums_get n ts fn v hv]
  · have h1 : (vertexNormalSumsCoded n ts fn).length ≤ v := by rw [vertexNormalSumsCoded_length]; omega
    have h2 : (vertexNormalSums n ts fn).length ≤ v := by simp [vertexNormalSums]; omega
    rw [List.getElem?_eq_none h1, List.getElem?_eq_none h2]

theorem incidentSum_perm (ts ts' : List Tri) (fn fn' : List V3) (v : Nat)
    (h : (ts.zip fn).Perm (ts'.zip fn')) : incidentSum ts fn v = incidentSum ts' fn' v :=
  vsum_perm (h.map _)

theorem incidentSum_mulVec (A : M3) (ts : List Tri) (fn : List V3) (v : Nat) :
    incidentSum ts (fn.map A.mulVec) v = A.mulVec (incidentSum ts fn v) := by
  simp only [incidentSum, List.zip_map_right, List.map_map]
  rw [← vsum_map_mulVec, List.map_map]
  congr 1
  apply List.map_congr_left
  intro p _
  simp [Function.comp, M3.mulVec_smul]

theorem incidentSum_smul (k : Rat) (ts : List Tri) (fn : List V3) (v : Nat) :
    incidentSum ts (fn.map (V3.smul k)) v = V3.smul k (incidentSum ts fn v) := by
  simp only [incidentSum, List.zip_map_right, List.map_map]
  rw [← vsum_map_smul, List.map_map]
  congr 1
  apply List.map_congr_left
  intro p _
  simp [Function.comp, V3.smul_smul', mul_comm]

theorem vertexNormalSumsCoded_mulVec (A : M3) (n : Nat) (ts : List Tri) (fn : List V3) :
    vertexNormalSumsCoded n ts (fn.map A.mulVec) = (vertexNormalSumsCoded n ts fn).map A.mulVec := by
  apply List.ext_getElem?
  intro v
  by_cases hv : v < n
  · rw [vertexNormalSumsCoded_get _ _ _ v hv, List.getElem?_map, vertexNormalSumsCoded_get _ _ _ v hv,
      incidentSum_mulVec]; rfl
  · have h1 : (vertexNormalSumsCoded n ts (fn.map A.mulVec)).length ≤ v := by
      rw [vertexNormalSumsCoded_length]; omega
    have h2 : ((vertexNormalSumsCoded n ts fn).map A.mulVec).length ≤ v := by
      rw [List.length_map, vertexNormalSumsCoded_length]; omega
    rw [List.getElem?_eq_none h1, List.getElem?_eq_none h2]

/-- number of corners of the triangle list that are the vertex `v` -/
def valence (ts : List Tri) (v : Nat) : Nat := (ts.map (fun t => t.verts.count v)).sum

theorem incidentSum_const (N : V3) (ts : List Tri) (v : Nat) :
    incidentSum ts (List.replicate ts.length N) v = V3.smul ((valence ts v : Nat) : Rat) N := by
  induction ts with
  | nil => simp [incidentSum, vsum, valence, V3.zero_smul']
  | cons t ts ih =>
    simp only [incidentSum] at ih
    simp only [incidentSum, List.length_cons, List.replicate_succ, List.zip_cons_cons, List.map_cons,
      vsum_cons, ih, valence, List.sum_cons, Nat.cast_add, V3.add_smul']

/-! ### `_normalize` under the `sqrt` contract -/

theorem IsRoot.zero_iff {r : Rat} {v : V3} (h : IsRoot r (V3.normSq v)) : r = 0 ↔ v = V3.zero := by
  constructor
  · intro hr; apply V3.normSq_eq_zero; rw [← h.2, hr]; ring
  · intro hv
    have : r * r = 0 := by rw [h.2, hv, V3.normSq_zero]
    exact mul_self_eq_zero.1 this

theorem IsRoot.unique {r r' q : Rat} (h : IsRoot r q) (h' : IsRoot r' q) : r = r' :=
  root_unique r r' h.1 h'.1 (by rw [h.2, h'.2])

/-- a row that is not the zero vector is normalised to a unit vector -/
theorem normalize1_unit (r : Rat) (v : V3) (h : IsRoot r (V3.normSq v)) (hv : v ≠ V3.zero) :
    V3.normSq (normalize1 r v) = 1 := by
  have h0 : r ≠ 0 := fun hr => hv (h.zero_iff.1 hr)
  simp only [normalize1, h0, if_false]
  exact V3.normalize_unit v r h.2 h0

/-- the zero row stays zero (`0/0 = nan`, `nan_to_num`) -/
theorem normalize1_zero (r : Rat) (h : IsRoot r (V3.normSq V3.zero)) : normalize1 r V3.zero = V3.zero := by
  have : r = 0 := h.zero_iff.2 rfl
  simp [normalize1, this]

theorem normalize1_mulVec (A : M3) (r : Rat) (v : V3) :
    normalize1 r (A.mulVec v) = A.mulVec (normalize1 r v) := by
  unfold normalize1
  split
  · exact (M3.mulVec_zero A).symm
  · exact (M3.mulVec_smul A _ v).symm

theorem normalize1_scale (k r : Rat) (v : V3) (hk : k ≠ 0) :
    normalize1 (k * r) (V3.smul k v) = normalize1 r v := by
  unfold normalize1
  by_cases hr : r = 0
  · simp [hr]
  · have hkr : k * r ≠ 0 := mul_ne_zero hk hr
    simp only [hkr, hr, if_false, V3.smul_smul']
    congr 1
    field_simp

theorem normalizeRows_map_mulVec (A : M3) (rs : List Rat) (vs : List V3) :
    normalizeRows rs (vs.map A.mulVec) = (normalizeRows rs vs).map A.mulVec := by
  induction rs generalizing vs with
  | nil => simp [normalizeRows]
  | cons r rs ih =>
    cases vs with
    | nil => simp [normalizeRows]
    | cons v vs =>
      simp only [normalizeRows, List.map_cons, List.zipWith_cons_cons] at ih ⊢
      rw [ih vs, normalize1_mulVec]

theorem normalizeRows_scale (k : Rat) (hk : k ≠ 0) (rs : List Rat) (vs : List V3) :
    normalizeRows (rs.map (fun r => k * r)) (vs.map (V3.smul k)) = normalizeRows rs vs := by
  induction rs generalizing vs with
  | nil => simp [normalizeRows]
  | cons r rs ih =>
    cases vs with
    | nil => simp [normalizeRows]
    | cons v vs =>
      simp only [normalizeRows, List.map_cons, List.zipWith_cons_cons] at ih ⊢
      rw [ih vs, normalize1_scale k r v hk]

theorem RootsOf.length_eq {rs : List Rat} {vs : List V3} (h : RootsOf rs vs) : rs.length = vs.length := by
  induction rs generalizing vs with
  | nil => cases vs <;> simp_all [RootsOf]
  | cons r rs ih =>
    cases vs with
    | nil => simp [RootsOf] at h
    | cons v vs => simp only [RootsOf] at h; simp [ih h.2]

theorem RootsOf.get {rs : List Rat} {vs : List V3} (h : RootsOf rs vs) (j : Nat) (r : Rat) (v : V3)
    (hr : rs[j]? = some r) (hv : vs[j]? = some v) : IsRoot r (V3.normSq v) := by
  induction rs generalizing vs j with
  | nil => simp at hr
  | cons r0 rs ih =>
    cases vs with
    | nil => simp at hv
    | cons v0 vs =>
      simp only [RootsOf] at h
      cases j with
      | zero => simp at hr hv; subst hr; subst hv; exact h.1
      | succ j => simp at hr hv; exact ih h.2 j hr hv

/-- the roots are determined by the rows: whatever `np.sqrt` returns under its contract is `rs` -/
theorem RootsOf.unique {rs rs' : List Rat} {vs : List V3} (h : RootsOf rs vs) (h' : RootsOf rs' vs) :
    rs = rs' := by
  induction rs generalizing rs' vs with
  | nil => cases vs <;> cases rs' <;> simp_all [RootsOf]
  | cons r rs ih =>
    cases vs with
    | nil => simp [RootsOf] at h
    | cons v vs =>
      cases rs' with
      | nil => simp [RootsOf] at h'
      | cons r' rs' =>
        simp only [RootsOf] at h h'
        rw [h.1.unique h'.1, ih h.2 h'.2]

theorem RootsOf.map_ortho (A : M3) (hA : A.IsOrtho) {rs : List Rat} {vs : List V3} (h : RootsOf rs vs) :
    RootsOf rs (vs.map A.mulVec) := by
  induction rs generalizing vs with
  | nil => cases vs <;> simp_all [RootsOf]
  | cons r rs ih =>
    cases vs with
    | nil => simp [RootsOf] at h
    | cons v vs =>
      simp only [RootsOf, List.map_cons] at h ⊢
      exact ⟨by rw [V3.normSq_mulVec_ortho A hA]; exact h.1, ih h.2⟩

theorem RootsOf.map_scale (k : Rat) (hk : 0 ≤ k) {rs : List Rat} {vs : List V3} (h : RootsOf rs vs) :
    RootsOf (rs.map (fun r => k * r)) (vs.map (V3.smul k)) := by
  induction rs generalizing vs with
  | nil => cases vs <;> simp_all [RootsOf]
  | cons r rs ih =>
    cases vs with
    | nil => simp [RootsOf] at h
    | cons v vs =>
      simp only [RootsOf, List.map_cons] at h ⊢
      refine ⟨⟨mul_nonneg hk h.1.1, ?_⟩, ih h.2⟩
      rw [V3.normSq_smul, ← h.1.2]; ring

/-! ### whole-mesh queries under a motion of the vertices -/

theorem getTri_map {α β} (f : α → β) (pts : List α) (t : Tri) :
    getTri (pts.map f) t = (getTri pts t).map (fun q => (f q.1, f q.2.1, f q.2.2)) := by
  simp only [getTri, List.getElem?_map]
  cases pts[t.1]? <;> cases pts[t.2.1]? <;> cases pts[t.2.2]? <;> rfl

theorem triCorners_map {α β} (f : α → β) (pts : List α) (ts : List Tri) :
    triCorners (pts.map f) ts = (triCorners pts ts).map (fun q => (f q.1, f q.2.1, f q.2.2)) := by
  simp only [triCorners, List.map_filterMap]
  apply List.filterMap_congr
  intro t _
  exact getTri_map f pts t

theorem getTri_some_of_wf {α} (pts : List α) (t : Tri) (h : ∀ v ∈ t.verts, v < pts.length) :
    ∃ q, getTri pts t = some q := by
  have h1 := h t.1 (by simp [Tri.verts])
  have h2 := h t.2.1 (by simp [Tri.verts])
  have h3 := h t.2.2 (by simp [Tri.verts])
  simp [getTri, List.getElem?_eq_getElem h1, List.getElem?_eq_getElem h2, List.getElem?_eq_getElem h3]

/-- on a well-formed mesh `points[trilist]` has one row per triangle -/
theorem triCorners_length {α} (pts : List α) (ts : List Tri) (hwf : WF pts.length ts) :
    (triCorners pts ts).length = ts.length := by
  induction ts with
  | nil => rfl
  | cons t ts ih =>
    obtain ⟨q, hq⟩ := getTri_some_of_wf pts t (hwf t List.mem_cons_self)
    have := ih (fun t' ht' => hwf t' (List.mem_cons_of_mem _ ht'))
    simp only [triCorners, List.filterMap_cons, hq, List.length_cons] at this ⊢
    rw [this]

theorem meshFaceNormalsRaw_rigid (A : M3) (hA : A.IsOrtho) (t : V3) (pts : List V3) (ts : List Tri) :
    meshFaceNormalsRaw (pts.map (aff3 A t)) ts
      = (meshFaceNormalsRaw pts ts).map (fun n => V3.smul A.det (A.mulVec n)) := by
  simp only [meshFaceNormalsRaw, triCorners_map, List.map_map]
  apply List.map_congr_left
  intro q _
  simp only [Function.comp, faceNormalRaw, V3.sub_aff, V3.cross_mulVec_ortho A hA]

theorem meshFaceNormalsRaw_scale (s : Rat) (t : V3) (pts : List V3) (ts : List Tri) :
    meshFaceNormalsRaw (pts.map (aff3 (M3.scalar s) t)) ts
      = (meshFaceNormalsRaw pts ts).map (V3.smul (s ^ 2)) := by
  simp only [meshFaceNormalsRaw, triCorners_map, List.map_map]
  apply List.map_congr_left
  intro q _
  simp only [Function.comp, faceNormalRaw, V3.sub_aff, V3.cross_scalar]

/-- for unit `N` and `u, v ⟂ N` the cross product `u × v` is a multiple of `N` -/
theorem V3.cross_parallel (N u v : V3) (hN : V3.normSq N = 1) (hu : V3.dot N u = 0) (hv : V3.dot N v = 0) :
    V3.cross u v = V3.smul (V3.dot (V3.cross u v) N) N := by
  simp only [V3.normSq, V3.dot] at hN hu hv
  ext
  · simp only [V3.cross, V3.smul, V3.dot]
    linear_combination (-(u.y * v.z - u.z * v.y)) * hN + (-(N.y * u.z - N.z * u.y)) * hv
      + (N.y * v.z - N.z * v.y) * hu
  · simp only [V3.cross, V3.smul, V3.dot]
    linear_combination (-(u.z * v.x - u.x * v.z)) * hN + (-(N.z * u.x - N.x * u.z)) * hv
      + (N.z * v.x - N.x * v.z) * hu
  · simp only [V3.cross, V3.smul, V3.dot]
    linear_combination (-(u.x * v.y - u.y * v.x)) * hN + (-(N.x * u.y - N.y * u.x)) * hv
      + (N.x * v.y - N.y * v.x) * hu

end MenpoModel.C17
