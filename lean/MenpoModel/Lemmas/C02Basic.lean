/-
C02 helper lemmas: slots, heap extension, the frame relation.  Core Lean only.
-/
import MenpoModel.Core.C02

namespace MenpoModel.C02

/-! ### the method-resolution table the model is written against -/

theorem supInplace_shape (c : SCls) : supInplace expectedDispatch (.shape c) = some .Shape := by
  cases c <;> rfl
theorem supSelf_shape (c : SCls) : supSelf expectedDispatch (.shape c) = some .PointCloud := by
  cases c <;> rfl
theorem supTransform_shape (c : SCls) : supTransform expectedDispatch (.shape c) = some .Transformable := by
  cases c <;> rfl
theorem supCopy_shape (c : SCls) :
    supCopy expectedDispatch (.shape c) =
      some (if c = .LabelledPointUndirectedGraph then .LabelledPointUndirectedGraph else .Copyable) := by
  cases c <;> rfl
theorem supInplace_lm : supInplace expectedDispatch .LandmarkManager = some .LandmarkManager := rfl
theorem supCopy_lm : supCopy expectedDispatch .LandmarkManager = some .LandmarkManager := rfl

/-! ### slots -/

theorem lookup_setSlot_ne (fs : Slots) {x y : String} (v : Val) (hxy : y ≠ x) :
    (setSlot fs x v).lookup y = fs.lookup y := by
  induction fs with
  | nil => rfl
  | cons p t ih =>
    obtain ⟨z, w⟩ := p
    simp only [setSlot]
    by_cases hz : z == x
    · have hzx : z = x := by simpa using hz
      have hyz : (y == z) = false := by simp [hzx, hxy]
      simp [hz, List.lookup, hyz]
    · simp only [hz, Bool.false_eq_true, if_false, List.lookup]
      cases y == z <;> simp [ih]

theorem lookup_setSlot_self (fs : Slots) {x : String} {w : Val} (v : Val) (hx : fs.lookup x = some w) :
    (setSlot fs x v).lookup x = some v := by
  induction fs with
  | nil => simp [List.lookup] at hx
  | cons p t ih =>
    obtain ⟨z, u⟩ := p
    simp only [setSlot]
    by_cases hz : z == x
    · have hzx : z = x := by simpa using hz
      simp [hzx]
    · have hxz : (x == z) = false := by
        have : ¬ z = x := by simpa using hz
        simp [Ne.symm this]
      simp only [hz, Bool.false_eq_true, if_false, List.lookup, hxz]
      simp only [List.lookup, hxz] at hx
      exact ih hx

theorem setSlot_setSlot (fs : Slots) (x : String) (v w : Val) :
    setSlot (setSlot fs x v) x w = setSlot fs x w := by
  induction fs with
  | nil => rfl
  | cons p t ih =>
    obtain ⟨z, u⟩ := p
    simp only [setSlot]
    by_cases hz : z == x
    · simp [hz, setSlot]
    · simp [hz, setSlot, ih]

/-! ### heap extension -/

/-- `h'` is `h` plus newly allocated cells -/
def Ext (h h' : Heap) : Prop := ∃ t, h' = h ++ t

theorem Ext.refl (h : Heap) : Ext h h := ⟨[], by simp⟩
theorem Ext.trans {h1 h2 h3 : Heap} (a : Ext h1 h2) (b : Ext h2 h3) : Ext h1 h3 := by
  obtain ⟨t, rfl⟩ := a; obtain ⟨u, rfl⟩ := b; exact ⟨t ++ u, by simp⟩
theorem Ext.append (h t : Heap) : Ext h (h ++ t) := ⟨t, rfl⟩
theorem Ext.len {h h' : Heap} (e : Ext h h') : h.length ≤ h'.length := by
  obtain ⟨t, rfl⟩ := e; simp
theorem get_lt {h : Heap} {a : Nat} {c : Cell} (e : h[a]? = some c) : a < h.length := by
  rcases Nat.lt_or_ge a h.length with hlt | hge
  · exact hlt
  · rw [List.getElem?_eq_none hge] at e; cases e
theorem Ext.get {h h' : Heap} (e : Ext h h') {a : Nat} {c : Cell} (ha : h[a]? = some c) : h'[a]? = some c := by
  obtain ⟨t, rfl⟩ := e
  rw [List.getElem?_append_left (get_lt ha)]; exact ha
theorem Ext.get_lt {h h' : Heap} (e : Ext h h') {a : Nat} (ha : a < h.length) : h'[a]? = h[a]? := by
  obtain ⟨t, rfl⟩ := e
  exact List.getElem?_append_left ha
theorem get_last (h : Heap) (c : Cell) : (h ++ [c])[h.length]? = some c := by simp

/-! ### frames -/

theorem Frame.refl (lo hi : Nat) (h : Heap) : Frame lo hi h h := ⟨Nat.le_refl _, fun _ _ => .inl rfl⟩

theorem Frame.of_ext {h h' : Heap} (lo hi : Nat) (e : Ext h h') : Frame lo hi h h' :=
  ⟨e.len, fun _ ha => .inl (e.get_lt ha)⟩

theorem Frame.mono {lo hi lo' hi' : Nat} {h h' : Heap} (fr : Frame lo hi h h') (h1 : lo' ≤ lo) (h2 : hi ≤ hi') :
    Frame lo' hi' h h' :=
  ⟨fr.len, fun a ha => (fr.same a ha).imp id fun ⟨x, y, z⟩ => ⟨by omega, by omega, z⟩⟩

theorem Frame.trans {lo hi : Nat} {h1 h2 h3 : Heap} (a : Frame lo hi h1 h2) (b : Frame lo hi h2 h3) :
    Frame lo hi h1 h3 := by
  refine ⟨Nat.le_trans a.len b.len, fun x hx => ?_⟩
  have hx2 : x < h2.length := Nat.lt_of_lt_of_le hx a.len
  rcases a.same x hx with e1 | ⟨l1, l2, c, fs, w, e1, e2⟩
  · rcases b.same x hx2 with e2 | ⟨l1, l2, c, fs, w, e2, e3⟩
    · exact .inl (e2.trans e1)
    · exact .inr ⟨l1, l2, c, fs, w, e1 ▸ e2, e3⟩
  · rcases b.same x hx2 with e3 | ⟨_, _, c', fs', w', e3, e4⟩
    · exact .inr ⟨l1, l2, c, fs, w, e1, e3.trans e2⟩
    · rw [e2] at e3
      injection e3 with e3; injection e3 with ec ef
      injection ec with ec
      subst ec; subst ef
      exact .inr ⟨l1, l2, c, fs, w', e1, by rw [e4, setSlot_setSlot]⟩

/-- a cell that is not a shape object survives -/
theorem Frame.keep {lo hi : Nat} {h h' : Heap} (fr : Frame lo hi h h') {b : Nat} {cell : Cell}
    (hb : h[b]? = some cell) (hn : ∀ c fs, cell ≠ .obj (.shape c) fs) : h'[b]? = some cell := by
  rcases fr.same b (get_lt hb) with e | ⟨_, _, c, fs, _, e1, _⟩
  · rw [e, hb]
  · rw [hb] at e1; injection e1 with e1; exact absurd e1 (hn c fs)

/-- a cell outside the interval survives -/
theorem Frame.keep_out {lo hi : Nat} {h h' : Heap} (fr : Frame lo hi h h') {b : Nat} {cell : Cell}
    (hb : h[b]? = some cell) (ho : b < lo ∨ hi ≤ b) : h'[b]? = some cell := by
  rcases fr.same b (get_lt hb) with e | ⟨l1, l2, _⟩
  · rw [e, hb]
  · omega

end MenpoModel.C02
