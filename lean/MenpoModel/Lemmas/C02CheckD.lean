/-
C02: an executable test of `RepD` (what the driver and the examples evaluate), sound for the proposition.
Core Lean only.
-/
import MenpoModel.Lemmas.C02RepD
import MenpoModel.Lemmas.C02Check

namespace MenpoModel.C02

/-- all other attributes, by deep digest -/
def deepXB (h : Heap) (fs : Slots) (ex : Extra) : Bool :=
  digestSlots (digest DFUEL h) (filterX fs) == some (exToks ex)

theorem deepXB_sound {h : Heap} {fs : Slots} {ex : Extra} (e : deepXB h fs ex = true) :
    DeepX h fs ex (fun b => b < h.length) := by
  have e' : digestSlots (digest DFUEL h) (filterX fs) = some (exToks ex) := by simpa [deepXB] using e
  exact ⟨DFUEL, e', fun b hb => digestSlots_reads_lt e' b hb⟩

mutual
def repDB (h : Heap) : Shape → Val → Bool
  | .mk c x gs ex, v =>
    match v with
    | .ref a =>
      match h[a]? with
      | some (.obj (.shape c') fs) =>
        c' == c && arrAt h (fs.lookup "points") == some x && deepXB h fs ex && labelOKB h c fs &&
        (match fs.lookup "_landmarks" with
          | some (.imm 0) => gs.isNil
          | some (.ref l) =>
            match h[l]? with
            | some (.obj .LandmarkManager ls) =>
              match dictAt h (ls.lookup "_landmark_groups") with
              | some gvs => repGDB h gs gvs
              | none => false
            | _ => false
          | _ => false)
      | _ => false
    | _ => false
def repGDB (h : Heap) : Groups → Slots → Bool
  | .nil, gvs => gvs.isEmpty
  | .cons n g r, gvs =>
    match gvs with
    | (n', v) :: t => n' == n && repDB h g v && repGDB h r t
    | [] => false
end

mutual
theorem repDB_sound {h : Heap} : ∀ (s : Shape) (v : Val), repDB h s v = true → RepD h.length h s v
  | .mk c x gs ex, v, e => by
    unfold repDB at e
    unfold RepD
    split at e
    · rename_i a
      split at e
      · rename_i c' fs ha
        simp only [Bool.and_eq_true, beq_iff_eq] at e
        obtain ⟨⟨⟨⟨hc, hp⟩, hx⟩, hl⟩, hg⟩ := e
        subst hc
        obtain ⟨p, hp1, hp2⟩ := arrAt_some hp
        refine ⟨a, fs, p, rfl, ha, hp1, hp2, deepXB_sound hx, labelOKB_sound hl, ?_⟩
        split at hg
        · rename_i hlm
          left
          refine ⟨hlm, ?_⟩
          cases gs with
          | nil => rfl
          | cons _ _ _ => simp [Groups.isNil] at hg
        · rename_i l hlm
          split at hg
          · rename_i ls hls
            split at hg
            · rename_i gvs hgv
              obtain ⟨g, hg1, hg2⟩ := dictAt_some hgv
              exact .inr ⟨l, ls, g, gvs, hlm, hls, hg1, hg2, repGDB_sound gs gvs hg⟩
            · cases hg
          · cases hg
        · cases hg
      · cases e
    · cases e
theorem repGDB_sound {h : Heap} : ∀ (gs : Groups) (gvs : Slots), repGDB h gs gvs = true → RepGD h.length h gs gvs
  | .nil, gvs, e => by
    unfold repGDB at e; unfold RepGD
    cases gvs with
    | nil => rfl
    | cons _ _ => simp at e
  | .cons n g r, gvs, e => by
    unfold repGDB at e; unfold RepGD
    split at e
    · rename_i n' v t
      simp only [Bool.and_eq_true, beq_iff_eq] at e
      obtain ⟨⟨hn, hb⟩, hr⟩ := e
      subst hn
      exact ⟨v, t, rfl, repDB_sound g v hb, repGDB_sound r t hr⟩
    · cases e
end

end MenpoModel.C02
