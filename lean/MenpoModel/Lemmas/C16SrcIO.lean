/-
C16 — small facts about `Fp` and the specifications of the export plumbing (Core/C16SrcIO.lean) used by the obligations
over the translated functions.  Core Lean only.
-/
import MenpoModel.Core.C16SrcIO
import MenpoModel.Lemmas.C16Src

namespace MenpoModel.C16
open PyX

theorem Fp.toPath_of_not_isStr (fp : Fp) (h : fp.isStr = false) : fp.toPath = fp := by
  cases fp <;> simp_all [Fp.isStr, Fp.toPath]

theorem Fp.toPath_str (s : List Char) : (Fp.str s).toPath = Fp.path s := rfl
theorem Fp.toPath_path (s : List Char) : (Fp.path s).toPath = Fp.path s := rfl
theorem Fp.toPath_handle (h : Handle) : (Fp.handle h).toPath = Fp.handle h := rfl
theorem Fp.getName_handle (t : Option Path) (n : List Char) (g : Bool) :
    Fp.getName (.handle ⟨t, some n, g⟩) = .ok (.str n) := rfl

theorem Fp.toPath_toPath (fp : Fp) : fp.toPath.toPath = fp.toPath := by cases fp <;> rfl

theorem Fp.isStrOrPath_toPath (fp : Fp) : fp.toPath.isStrOrPath = fp.isStrOrPath := by cases fp <;> rfl

theorem Fp.isPath_toPath (fp : Fp) : fp.toPath.isPath = fp.isStrOrPath := by cases fp <;> rfl

theorem Fp.isStr_toPath (fp : Fp) : fp.toPath.isStr = false := by cases fp <;> rfl

/-- `_validate_and_get_export_func` converts a `str` itself: converting beforehand changes nothing -/
theorem validateAndGetSpec_toPath (env : Env) (cwd : Path) (fp : Fp) :
    validateAndGetSpec env cwd fp = validateAndGetSpec env cwd fp.toPath := by
  funext m ext ow fs
  unfold validateAndGetSpec
  rw [Fp.toPath_toPath]

theorem normalizeExt_ne_attr (x : OStr) (e : Exc) (h : normalizeExt x = .error e) : e ≠ .attributeError := by
  rcases x with _ | _ | ⟨c, t⟩ <;> simp [normalizeExt] at h
  subst h; decide

theorem parseAndValidateSpec_ne_attr (x : Fp) (ext : OStr) (m : List (String × String)) (e : Exc)
    (h : parseAndValidateSpec x ext m = .error e) : e ≠ .attributeError := by
  unfold parseAndValidateSpec at h
  split at h
  · simp at h; subst h; decide
  · split at h
    · simp at h
    · split at h
      · rename_i hn
        simp at h; subst h
        exact normalizeExt_ne_attr _ _ hn
      · split at h
        · simp at h
        · simp at h; subst h; decide

theorem normalizeExt_ne_over (x : OStr) (e : Exc) (h : normalizeExt x = .error e) : e ≠ .overwriteError := by
  rcases x with _ | _ | ⟨c, t⟩ <;> simp [normalizeExt] at h
  subst h; decide

theorem parseAndValidateSpec_ne_over (x : Fp) (ext : OStr) (m : List (String × String)) (e : Exc)
    (h : parseAndValidateSpec x ext m = .error e) : e ≠ .overwriteError := by
  unfold parseAndValidateSpec at h
  split at h
  · simp at h; subst h; decide
  · split at h
    · simp at h
    · split at h
      · rename_i hn
        simp at h; subst h
        exact normalizeExt_ne_over _ _ hn
      · split at h
        · simp at h
        · simp at h; subst h; decide

/-- `_validate_and_get_export_func` never raises AttributeError (so the `except AttributeError` around it in `_export`
only ever catches a file object without a `name`) -/
theorem validateAndGetSpec_ne_attr (env : Env) (cwd : Path) (fp : Fp) (m : List (String × String)) (ext : OStr)
    (ow : Bool) (fs fs' : FSb) (e : Exc) (h : validateAndGetSpec env cwd fp m ext ow fs = (.error e, fs')) :
    e ≠ .attributeError := by
  unfold validateAndGetSpec at h
  simp only at h
  split at h
  · simp at h; rw [← h.1]; decide
  · split at h
    · rename_i hp
      simp at h
      rw [← h.1]
      exact parseAndValidateSpec_ne_attr _ _ _ _ hp
    · split at h
      · rename_i hc
        simp at h
        rw [← h.1]
        unfold extToFuncSpec at hc
        split at hc <;> simp at hc
        subst hc; decide
      · simp at h

theorem validateAndGetFSpec_toPath (env : Env) (cwd : Path) (fp : Fp) :
    validateAndGetFSpec env cwd fp = validateAndGetFSpec env cwd fp.toPath := by
  funext m ext ow
  unfold validateAndGetFSpec
  rw [validateAndGetSpec_toPath]

end MenpoModel.C16
