/-
C06: a copy reaches only cells it allocated or cells the original reached: every slot of every cell allocated
by `copyCall` refers to a cell allocated by the same call or repeats a slot value of a source cell reachable from
the copied value (`copy_newslots`), hence `copy_reach_aux`.  No table hypothesis.  Core Lean only.
-/
import MenpoModel.Lemmas.C06Copy

namespace MenpoModel.C06

/-- reachability restricted to an old heap -/
theorem reach_restrict {h h' : Heap} (hc : Closed h) (e : Ext h h') {v : Val} {b : Nat}
    (r : Reach h' v b) : Valid h v → Reach h v b := by
  induction r with
  | here => intro _; exact .here
  | step hcell hm _ ih =>
    intro hv
    have ha := hv _ rfl
    rw [e.get ha] at hcell
    exact .step hcell hm (ih (hc.slot_valid hcell hm))

theorem reach_trans {h : Heap} {v : Val} {a b : Nat} (r1 : Reach h v a) (r2 : Reach h (.ref a) b) : Reach h v b := by
  induction r1 with
  | here => exact r2
  | step hcell hm _ ih => exact .step hcell hm (ih r2)

/-- every slot of every cell allocated since `h` refers to a cell allocated since `h`, or is a slot value of a
cell of the source heap that the copied value reaches -/
def NewSlots (h0 : Heap) (v : Val) (h h' : Heap) : Prop :=
  ∀ (a' : Nat) (k : NodeKind) (fs' : Slots), h.length ≤ a' → h'[a']? = some (Cell.node k fs') →
    ∀ x w, (x, w) ∈ fs' → (∃ b, w = .ref b ∧ h.length ≤ b) ∨ (∃ t, w = .imm t) ∨
      ∃ (a : Nat) (k0 : NodeKind) (fs : Slots) (y : String), Reach h0 v a ∧ h0[a]? = some (Cell.node k0 fs) ∧ (y, w) ∈ fs

theorem NewSlots.refl (h0 : Heap) (v : Val) (h : Heap) : NewSlots h0 v h h := by
  intro a' k fs' hge hc
  exact absurd (get_lt hc) (by omega)

theorem NewSlots.trans {h0 : Heap} {v : Val} {h h1 h2 : Heap} (e01 : Ext h h1) (e12 : Ext h1 h2)
    (n1 : NewSlots h0 v h h1) (n2 : NewSlots h0 v h1 h2) : NewSlots h0 v h h2 := by
  intro a' k fs' hge hc x w m
  rcases Nat.lt_or_ge a' h1.length with hlt | hge1
  · rw [e12.get hlt] at hc
    exact n1 a' k fs' hge hc x w m
  · rcases n2 a' k fs' hge1 hc x w m with ⟨b, rfl, hb⟩ | r
    · exact .inl ⟨b, rfl, Nat.le_trans e01.len hb⟩
    · exact .inr r

/-- from a slot of the copied object to the copied object -/
theorem NewSlots.lift {h0 : Heap} {a : Nat} {k : NodeKind} {fs : Slots} {x : String} {u : Val} {h h' : Heap}
    (hc : h0[a]? = some (.node k fs)) (m : (x, u) ∈ fs) (n : NewSlots h0 u h h') : NewSlots h0 (.ref a) h h' := by
  intro a' k' fs' hge hc' y w mw
  rcases n a' k' fs' hge hc' y w mw with l | l | ⟨a2, k2, fs2, y2, r, hc2, m2⟩
  · exact .inl l
  · exact .inr (.inl l)
  · exact .inr (.inr ⟨a2, k2, fs2, y2, .step hc m r, hc2, m2⟩)

theorem NewSlots.snoc_buf {h0 : Heap} {v : Val} {h hN : Heap} (eN : Ext h hN) (n : NewSlots h0 v h hN) (d : List Int) :
    NewSlots h0 v h (hN ++ [.buf d]) := by
  apply NewSlots.trans eN (Ext.append _ _) n
  intro a' k fs' hge hc
  have hl := get_lt hc
  simp only [List.length_append, List.length_cons, List.length_nil] at hl
  have : a' = hN.length := by omega
  subst this
  rw [get_last] at hc
  cases hc

/-- appending a node whose slots are new references or slot values of reachable source cells -/
theorem NewSlots.snoc_node {h0 : Heap} {v : Val} {h hN : Heap} (n : NewSlots h0 v h hN)
    (k : NodeKind) (fsN : Slots)
    (hs : ∀ x w, (x, w) ∈ fsN → (∃ b, w = .ref b ∧ h.length ≤ b) ∨ (∃ t, w = .imm t) ∨
      ∃ (a : Nat) (k0 : NodeKind) (fs : Slots) (y : String), Reach h0 v a ∧ h0[a]? = some (Cell.node k0 fs) ∧ (y, w) ∈ fs) :
    NewSlots h0 v h (hN ++ [.node k fsN]) := by
  intro a' k' fs' hge hc x w m
  rcases Nat.lt_or_ge a' hN.length with hlt | hge1
  · rw [List.getElem?_append_left hlt] at hc
    exact n a' k' fs' hge hc x w m
  · have hl := get_lt hc
    simp only [List.length_append, List.length_cons, List.length_nil] at hl
    have : a' = hN.length := by omega
    subst this
    rw [get_last] at hc
    cases hc
    exact hs x w m

/-- the values the attribute loop produces: new cells, or the source's own values -/
theorem slots_vals {rec : Heap → Val → Except Err (Heap × Val)} {h0 : Heap}
    (Hb : ∀ hs v he v1, Ctx h0 hs → Valid h0 v → rec hs v = .ok (he, v1) → Basic h0 hs v he v1)
    {h : Heap} {fs : Slots} {h1 : Heap} {fs1 : Slots} (r : SlotsRel rec h fs h1 fs1) :
    Ctx h0 h → (∀ x v, (x, v) ∈ fs → Valid h0 v) →
      ∀ x w, (x, w) ∈ fs1 → (∃ b, w = .ref b ∧ h.length ≤ b) ∨ (x, w) ∈ fs := by
  induction r with
  | nil h => intro _ _ x w m; cases m
  | @copied h x0 v hA vA t h2 t2 hr rt ih =>
    intro c hv x w m
    have bA := Hb h v hA vA c (hv x0 v List.mem_cons_self) hr
    simp only [List.mem_cons, Prod.mk.injEq] at m
    rcases m with ⟨rfl, rfl⟩ | m
    · obtain ⟨a', ha', hge, _⟩ := bA.root
      exact .inl ⟨a', ha', hge⟩
    · rcases ih (bA.ctx c) (fun y u mm => hv y u (List.mem_cons_of_mem _ mm)) x w m with ⟨b, rfl, hb⟩ | r
      · exact .inl ⟨b, rfl, Nat.le_trans bA.ext.len hb⟩
      · exact .inr (List.mem_cons_of_mem _ r)
  | @shared h x0 v t h2 t2 hr _ ih =>
    intro c hv x w m
    simp only [List.mem_cons, Prod.mk.injEq] at m
    rcases m with ⟨rfl, rfl⟩ | m
    · exact .inr List.mem_cons_self
    · rcases ih c (fun y u mm => hv y u (List.mem_cons_of_mem _ mm)) x w m with l | r
      · exact .inl l
      · exact .inr (List.mem_cons_of_mem _ r)

theorem slots_newslots {rec : Heap → Val → Except Err (Heap × Val)} {h0 : Heap} {a : Nat} {k : NodeKind} {fs0 : Slots}
    (hc0 : h0[a]? = some (.node k fs0))
    (Hb : ∀ hs v he v1, Ctx h0 hs → Valid h0 v → rec hs v = .ok (he, v1) → Basic h0 hs v he v1)
    (Hn : ∀ hs v he v1, Ctx h0 hs → Valid h0 v → rec hs v = .ok (he, v1) → NewSlots h0 v hs he)
    {h : Heap} {fs : Slots} {h1 : Heap} {fs1 : Slots} (r : SlotsRel rec h fs h1 fs1) :
    Ctx h0 h → (∀ x v, (x, v) ∈ fs → (x, v) ∈ fs0) → NewSlots h0 (.ref a) h h1 := by
  induction r with
  | nil h => intro _ _; exact NewSlots.refl h0 _ h
  | @copied h x v hA vA t h2 t2 hr rt ih =>
    intro c hsub
    have hv0 : ∀ y u, (y, u) ∈ fs0 → Valid h0 u := fun y u m => c.c0.slot_valid hc0 m
    have hm : (x, v) ∈ fs0 := hsub x v List.mem_cons_self
    have bA := Hb h v hA vA c (hv0 x v hm) hr
    have nA := (Hn h v hA vA c (hv0 x v hm) hr).lift hc0 hm
    have hsubt : ∀ y u, (y, u) ∈ t → (y, u) ∈ fs0 := fun y u m => hsub y u (List.mem_cons_of_mem _ m)
    have sb := slots_basic Hb rt (bA.ctx c) (fun y u m => hv0 y u (hsubt y u m))
    exact NewSlots.trans bA.ext sb.ext nA (ih (bA.ctx c) hsubt)
  | @shared h x v t h2 t2 hr _ ih =>
    intro c hsub
    exact ih c (fun y u m => hsub y u (List.mem_cons_of_mem _ m))

theorem copy_newslots (res : String → CopyImpl) (h0 : Heap) :
    ∀ (n : Nat) (h : Heap) (v : Val) (h' : Heap) (v' : Val), Ctx h0 h → Valid h0 v →
      copyCall res n h v = .ok (h', v') → NewSlots h0 v h h' := by
  intro n
  induction n with
  | zero => intro h v h' v' _ _ e; simp [copyCall] at e
  | succ n ih =>
    intro h v h' v' c hv e
    have ihb := copy_basic res h0 n
    cases v with
    | imm t => simp [copyCall] at e
    | ref a =>
      have halt := hv a rfl
      have hget : h[a]? = h0[a]? := c.ext.get halt
      have old : ∀ {k fs}, h0[a]? = some (.node k fs) → ∀ x w, (x, w) ∈ fs →
          (∃ b, w = .ref b ∧ h.length ≤ b) ∨ (∃ t, w = .imm t) ∨
          ∃ (a2 : Nat) (k0 : NodeKind) (fs2 : Slots) (y : String), Reach h0 (.ref a) a2 ∧
            h0[a2]? = some (Cell.node k0 fs2) ∧ (y, w) ∈ fs2 :=
        fun hc x w m => .inr (.inr ⟨a, _, _, x, .here, hc, m⟩)
      have ofvals : ∀ {k fs}, h0[a]? = some (.node k fs) → ∀ {fs1 : Slots},
          (∀ x w, (x, w) ∈ fs1 → (∃ b, w = .ref b ∧ h.length ≤ b) ∨ (x, w) ∈ fs) → ∀ x w, (x, w) ∈ fs1 →
          (∃ b, w = .ref b ∧ h.length ≤ b) ∨ (∃ t, w = .imm t) ∨
          ∃ (a2 : Nat) (k0 : NodeKind) (fs2 : Slots) (y : String), Reach h0 (.ref a) a2 ∧
            h0[a2]? = some (Cell.node k0 fs2) ∧ (y, w) ∈ fs2 := by
        intro k fs hc fs1 hvals x w m
        rcases hvals x w m with l | r
        · exact .inl l
        · exact old hc x w r
      simp only [copyCall] at e
      split at e
      · cases e
      · rename_i d hcell
        simp only [Except.ok.injEq, Prod.mk.injEq] at e
        obtain ⟨rfl, rfl⟩ := e
        exact NewSlots.snoc_buf (Ext.refl h) (NewSlots.refl h0 _ h) d
      · rename_i fs hcell
        simp only [Except.ok.injEq, Prod.mk.injEq] at e
        obtain ⟨rfl, rfl⟩ := e
        rw [hget] at hcell
        exact NewSlots.snoc_node (NewSlots.refl h0 _ h) _ _ (old hcell)
      · rename_i fs hcell
        simp only [Except.ok.injEq, Prod.mk.injEq] at e
        obtain ⟨rfl, rfl⟩ := e
        rw [hget] at hcell
        exact NewSlots.snoc_node (NewSlots.refl h0 _ h) _ _ (old hcell)
      · cases e
      · rename_i C fs hcell
        rw [hget] at hcell
        have hvfs : ∀ x v, (x, v) ∈ fs → Valid h0 v := fun x v m => c.c0.slot_valid hcell m
        split at e
        · -- Copyable.copy
          split at e
          · rename_i h1 fs1 hcs
            simp only [Except.ok.injEq, Prod.mk.injEq] at e
            obtain ⟨rfl, rfl⟩ := e
            have r := copySlots_rel _ _ _ _ hcs
            exact NewSlots.snoc_node (slots_newslots hcell ihb ih r c (fun _ _ m => m)) _ _
              (ofvals hcell (slots_vals ihb r c hvfs))
          · cases e
        · -- LandmarkManager.copy
          split at e
          · rename_i h1 fs1 hcs
            split at e
            · rename_i h2 d2 hde
              simp only [Except.ok.injEq, Prod.mk.injEq] at e
              obtain ⟨rfl, rfl⟩ := e
              have r := copySlots_rel _ _ _ _ hcs
              have sb := slots_basic ihb r c hvfs
              have c1 : Ctx h0 h1 := ⟨c.c0, c.ext.trans sb.ext, sb.closed⟩
              obtain ⟨d, gs, hv2, gs2, hlx, hd0, rv, rfl, rfl⟩ := deepen_inv res ihb c hvfs r hde
              have hvgs : ∀ y u, (y, u) ∈ gs → Valid h0 u := fun y u m => c.c0.slot_valid hd0 m
              have sv := slots_basic ihb rv c1 hvgs
              have n1 := NewSlots.trans sb.ext sv.ext (slots_newslots hcell ihb ih r c (fun _ _ m => m))
                ((slots_newslots hd0 ihb ih rv c1 (fun _ _ m => m)).lift hcell (lookup_mem hlx))
              have n2 : NewSlots h0 (.ref a) h (hv2 ++ [.node .dict gs2]) := by
                apply NewSlots.snoc_node n1
                intro y w m
                rcases slots_vals ihb rv c1 hvgs y w m with ⟨b, rfl, hb⟩ | rr
                · exact .inl ⟨b, rfl, Nat.le_trans sb.ext.len hb⟩
                · exact .inr (.inr ⟨d, _, _, y, .step hcell (lookup_mem hlx) .here, hd0, rr⟩)
              apply NewSlots.snoc_node n2
              intro y w m
              rcases mem_setSlot m with ⟨_, rfl⟩ | ⟨m1, _⟩
              · exact .inl ⟨_, rfl, Nat.le_trans sb.ext.len sv.ext.len⟩
              · exact ofvals hcell (slots_vals ihb r c hvfs) y w m1
            · cases e
          · cases e
        · -- LabelledPointUndirectedGraph.copy
          split at e
          · rename_i h1 fs1 hcs
            split at e
            · rename_i h2 d2 hde
              simp only [Except.ok.injEq, Prod.mk.injEq] at e
              obtain ⟨rfl, rfl⟩ := e
              have r := copySlots_rel _ _ _ _ hcs
              have sb := slots_basic ihb r c hvfs
              have c1 : Ctx h0 h1 := ⟨c.c0, c.ext.trans sb.ext, sb.closed⟩
              obtain ⟨d, gs, hv2, gs2, hlx, hd0, rv, rfl, rfl⟩ := deepen_inv res ihb c hvfs r hde
              have hvgs : ∀ y u, (y, u) ∈ gs → Valid h0 u := fun y u m => c.c0.slot_valid hd0 m
              have sv := slots_basic ihb rv c1 hvgs
              have n1 := NewSlots.trans sb.ext sv.ext (slots_newslots hcell ihb ih r c (fun _ _ m => m))
                ((slots_newslots hd0 ihb ih rv c1 (fun _ _ m => m)).lift hcell (lookup_mem hlx))
              have n2 : NewSlots h0 (.ref a) h (hv2 ++ [.node .dict gs2]) := by
                apply NewSlots.snoc_node n1
                intro y w m
                rcases slots_vals ihb rv c1 hvgs y w m with ⟨b, rfl, hb⟩ | rr
                · exact .inl ⟨b, rfl, Nat.le_trans sb.ext.len hb⟩
                · exact .inr (.inr ⟨d, _, _, y, .step hcell (lookup_mem hlx) .here, hd0, rr⟩)
              apply NewSlots.snoc_node n2
              intro y w m
              rcases mem_setSlot m with ⟨_, rfl⟩ | ⟨m1, _⟩
              · exact .inl ⟨_, rfl, Nat.le_trans sb.ext.len sv.ext.len⟩
              · exact ofvals hcell (slots_vals ihb r c hvfs) y w m1
            · cases e
          · cases e
        · -- LazyList.copy
          split at e
          · rename_i h1 fs1 hcs
            split at e
            · rename_i l hll
              split at e
              · rename_i items hitems
                simp only [Except.ok.injEq, Prod.mk.injEq] at e
                obtain ⟨rfl, rfl⟩ := e
                have r := copySlots_rel _ _ _ _ hcs
                have sb := slots_basic ihb r c hvfs
                have hvl : Valid h0 (.ref l) := hvfs _ _ (lookup_mem hll)
                have hl0 : h0[l]? = some (.node .list items) := by
                  rw [← c.ext.get (hvl l rfl)]; exact hitems
                have n2 : NewSlots h0 (.ref a) h (h1 ++ [.node .list items]) := by
                  apply NewSlots.snoc_node (slots_newslots hcell ihb ih r c (fun _ _ m => m))
                  intro y w m
                  exact .inr (.inr ⟨l, _, _, y, .step hcell (lookup_mem hll) .here, hl0, m⟩)
                apply NewSlots.snoc_node n2
                intro y w m
                rcases mem_setSlot m with ⟨_, rfl⟩ | ⟨m1, _⟩
                · exact .inl ⟨_, rfl, sb.ext.len⟩
                · exact ofvals hcell (slots_vals ihb r c hvfs) y w m1
              · cases e
            · cases e
          · cases e
        · -- HomogFamilyAlignment.copy
          split at e
          · rename_i m hlm
            split at e
            · rename_i h1 m1 hcm
              simp only [Except.ok.injEq, Prod.mk.injEq] at e
              obtain ⟨rfl, rfl⟩ := e
              have hvm : Valid h0 m := hvfs _ _ (lookup_mem hlm)
              have bm := ihb h m h1 m1 c hvm hcm
              apply NewSlots.snoc_node ((ih h m h1 m1 c hvm hcm).lift hcell (lookup_mem hlm))
              intro y w mm
              rcases mem_setSlot mm with ⟨_, rfl⟩ | ⟨m1', _⟩
              · obtain ⟨a', ha', hge, _⟩ := bm.root
                exact .inl ⟨a', ha', hge⟩
              · exact old hcell y w m1'
            · cases e
          · cases e
        · cases e

/-- PROPERTY support: whatever the copy reaches is new or was reachable from the original -/
theorem copy_reach_aux {h h' : Heap} {v : Val} (hc : Closed h) (e : Ext h h') (ns : NewSlots h v h h')
    {w : Val} {b : Nat} (r : Reach h' w b) : (∃ c, w = .ref c ∧ h.length ≤ c) → h.length ≤ b ∨ Reach h v b := by
  induction r with
  | here =>
    rintro ⟨c, hw, hge⟩
    cases hw
    exact .inl hge
  | step hcell hm r' ih =>
    rintro ⟨c, hw, hge⟩
    cases hw
    rcases ns _ _ _ hge hcell _ _ hm with l | ⟨t, rfl⟩ | ⟨a2, k2, fs2, y, r2, hc2, m2⟩
    · exact ih l
    · cases r'
    · right
      exact reach_trans r2 (.step hc2 m2 (reach_restrict hc e r' (hc.slot_valid hc2 m2)))

end MenpoModel.C06
