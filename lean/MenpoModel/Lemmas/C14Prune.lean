/-
C14 — `PointTree.from_mask` : the component pruning (`pruneLoop`, `Graph.treeFromMask`) keeps exactly
the masked-in vertices joined to the root through masked-in vertices, renumbers them order
preservingly, returns exactly the induced subgraph and the re-indexed root, and stops on a connected
graph.  All sizes.  Core Lean only.
-/
import MenpoModel.Lemmas.C14Reach

namespace MenpoModel.C14
open Graph

/-! ### list helpers -/

theorem getD_of_lt {l : List Nat} {i : Nat} (hi : i < l.length) : l.getD i 0 = l[i] := by
  simp [List.getD_eq_getElem?_getD, hi]

theorem getD_mem_of_lt {l : List Nat} {i : Nat} (hi : i < l.length) : l.getD i 0 ∈ l := by
  rw [getD_of_lt hi]; exact List.getElem_mem hi

theorem exists_getD_of_mem {l : List Nat} {x : Nat} (hx : x ∈ l) : ∃ i, i < l.length ∧ l.getD i 0 = x := by
  obtain ⟨i, hi, rfl⟩ := List.getElem_of_mem hx
  exact ⟨i, hi, getD_of_lt hi⟩

theorem sorted_getD_lt {l : List Nat} (hl : l.Pairwise (· < ·)) {i j : Nat} (hij : i < j) (hj : j < l.length) :
    l.getD i 0 < l.getD j 0 := by
  rw [getD_of_lt (Nat.lt_trans hij hj), getD_of_lt hj]
  exact List.pairwise_iff_getElem.1 hl i j _ hj hij

theorem sorted_getD_inj {l : List Nat} (hl : l.Pairwise (· < ·)) {i j : Nat} (hi : i < l.length) (hj : j < l.length)
    (h : l.getD i 0 = l.getD j 0) : i = j := by
  rcases Nat.lt_trichotomy i j with hlt | heq | hgt
  · have := sorted_getD_lt hl hlt hj; omega
  · exact heq
  · have := sorted_getD_lt hl hgt hi; omega

/-- two strictly increasing lists with the same members are equal -/
theorem sorted_ext (l1 l2 : List Nat) (h1 : l1.Pairwise (· < ·)) (h2 : l2.Pairwise (· < ·))
    (h : ∀ x, x ∈ l1 ↔ x ∈ l2) : l1 = l2 := by
  induction l1 generalizing l2 with
  | nil =>
    cases l2 with
    | nil => rfl
    | cons b t => exact absurd ((h b).2 (List.mem_cons_self ..)) (by simp)
  | cons a t ih =>
    cases l2 with
    | nil => exact absurd ((h a).1 (List.mem_cons_self ..)) (by simp)
    | cons b t2 =>
      rw [List.pairwise_cons] at h1 h2
      have hab : a = b := by
        rcases List.mem_cons.1 ((h a).1 (List.mem_cons_self ..)) with hab | hat2
        · exact hab
        · rcases List.mem_cons.1 ((h b).2 (List.mem_cons_self ..)) with hba | hbt
          · exact hba.symm
          · have := h1.1 b hbt; have := h2.1 a hat2; omega
      subst hab
      congr 1
      apply ih t2 h1.2 h2.2
      intro x
      constructor
      · intro hx
        rcases List.mem_cons.1 ((h x).1 (List.mem_cons_of_mem _ hx)) with hxa | hxt
        · have := h1.1 x hx; omega
        · exact hxt
      · intro hx
        rcases List.mem_cons.1 ((h x).2 (List.mem_cons_of_mem _ hx)) with hxa | hxt
        · have := h2.1 x hx; omega
        · exact hxt

/-- in a strictly increasing list the position of an entry is the number of smaller entries -/
theorem sorted_count_below {l : List Nat} (hl : l.Pairwise (· < ·)) {i : Nat} (hi : i < l.length) :
    (l.filter fun x => decide (x < l.getD i 0)).length = i := by
  induction l generalizing i with
  | nil => simp at hi
  | cons a t ih =>
    rw [List.pairwise_cons] at hl
    cases i with
    | zero =>
      have : (a :: t).getD 0 0 = a := rfl
      rw [this, List.length_eq_zero_iff, List.filter_eq_nil_iff]
      intro x hx
      rcases List.mem_cons.1 hx with rfl | hxt
      · simp
      · have := hl.1 x hxt; simp; omega
    | succ i =>
      simp only [List.length_cons, Nat.add_lt_add_iff_right] at hi
      have hget : (a :: t).getD (i + 1) 0 = t.getD i 0 := rfl
      have hlt : a < t.getD i 0 := hl.1 _ (getD_mem_of_lt hi)
      rw [hget, List.filter_cons, if_pos (by simpa using hlt), List.length_cons, ih hl.2 hi]

theorem getD_false_eq_true_iff (m : List Bool) (v : Nat) : m.getD v false = true ↔ m[v]? = some true := by
  rw [List.getD_eq_getElem?_getD]
  cases m[v]? with
  | none => simp
  | some b => simp

theorem lt_of_getElem?_eq_some {α} {m : List α} {v : Nat} {a : α} (h : m[v]? = some a) : v < m.length := by
  rcases Nat.lt_or_ge v m.length with hlt | hge
  · exact hlt
  · simp [List.getElem?_eq_none hge] at h

/-! ### more on `maskFilter` / `keepIdx` -/

theorem maskFilter_sublist {α} (l : List α) (m : List Bool) : (maskFilter l m).Sublist l := by
  induction l generalizing m with
  | nil => cases m <;> simp [maskFilter]
  | cons x xs ih =>
    cases m with
    | nil => simp [maskFilter]
    | cons b bs =>
      cases b
      · simpa [maskFilter] using (ih bs).cons x
      · simpa [maskFilter] using (ih bs).cons_cons x

theorem keepIdx_sorted (n : Nat) (m : List Bool) : (keepIdx n m).Pairwise (· < ·) :=
  List.Pairwise.sublist (maskFilter_sublist _ _) List.pairwise_lt_range

theorem keepIdx_lt (n : Nat) (m : List Bool) (x : Nat) (hx : x ∈ keepIdx n m) : x < n :=
  List.mem_range.1 ((maskFilter_sublist _ _).subset hx)

theorem mem_keepIdx (n : Nat) (m : List Bool) (hlen : m.length = n) (x : Nat) :
    x ∈ keepIdx n m ↔ m[x]? = some true := by
  subst hlen
  constructor
  · intro hx
    obtain ⟨i, hi⟩ := List.mem_iff_getElem?.1 hx
    exact (keepIdx_spec m i x hi).1
  · intro hx
    exact List.mem_of_getElem? (keepIdx_rank m x hx)

theorem keepIdx_getElem?_rank (n : Nat) (m : List Bool) (hlen : m.length = n) (v : Nat) (hv : m[v]? = some true) :
    (keepIdx n m)[rank m v]? = some v := by
  subst hlen
  exact keepIdx_rank m v hv

theorem keepIdx_getD_rank (n : Nat) (m : List Bool) (hlen : m.length = n) (v : Nat) (hv : m[v]? = some true) :
    (keepIdx n m).getD (rank m v) 0 = v := by
  subst hlen
  rw [List.getD_eq_getElem?_getD, keepIdx_rank m v hv]; rfl

theorem rank_lt_keepIdx_length (n : Nat) (m : List Bool) (hlen : m.length = n) (v : Nat) (hv : m[v]? = some true) :
    rank m v < (keepIdx n m).length := by
  subst hlen
  rw [keepIdx_length]; exact rank_lt_count m v hv

/-! ### induced views

`View g h keep` : `h` is (inside its vertex range) the subgraph of `g` induced by the strictly
increasing vertex list `keep`, vertex `i` of `h` being vertex `keep[i]` of `g`. -/

structure View (g h : Graph) (keep : List Nat) : Prop where
  n_eq : h.n = keep.length
  sorted : keep.Pairwise (· < ·)
  lt : ∀ x, x ∈ keep → x < g.n
  w_eq : ∀ i j, i < h.n → j < h.n → h.w i j = g.w (keep.getD i 0) (keep.getD j 0)

/-- neighbours in the underlying undirected graph between listed vertices only -/
def undOn (g : Graph) (keep : List Nat) (a : Nat) : List Nat :=
  (g.und a).filter fun b => keep.contains b && keep.contains a

theorem mem_undOn (g : Graph) (keep : List Nat) (a b : Nat) :
    b ∈ undOn g keep a ↔ b ∈ g.und a ∧ b ∈ keep ∧ a ∈ keep := by
  simp [undOn]

theorem view_of_select (g : Graph) (keep : List Nat) (hs : keep.Pairwise (· < ·)) (hlt : ∀ x, x ∈ keep → x < g.n) :
    View g (g.select keep) keep :=
  ⟨rfl, hs, hlt, fun _ _ _ _ => rfl⟩

namespace View

variable {g h : Graph} {keep : List Nat}

theorem getD_lt (V : View g h keep) {i : Nat} (hi : i < h.n) : keep.getD i 0 < g.n :=
  V.lt _ (getD_mem_of_lt (V.n_eq ▸ hi))

theorem getD_mem (V : View g h keep) {i : Nat} (hi : i < h.n) : keep.getD i 0 ∈ keep :=
  MenpoModel.C14.getD_mem_of_lt (V.n_eq ▸ hi)

theorem inj (V : View g h keep) {i j : Nat} (hi : i < h.n) (hj : j < h.n) (hij : keep.getD i 0 = keep.getD j 0) :
    i = j :=
  sorted_getD_inj V.sorted (V.n_eq ▸ hi) (V.n_eq ▸ hj) hij

/-- edges of the view are the edges of `g` between the listed vertices -/
theorem mem_und (V : View g h keep) {i j : Nat} (hi : i < h.n) :
    j ∈ h.und i ↔ j < h.n ∧ keep.getD j 0 ∈ undOn g keep (keep.getD i 0) := by
  rw [MenpoModel.C14.mem_und, mem_undOn, MenpoModel.C14.mem_und]
  constructor
  · rintro ⟨hj, hw⟩
    rw [V.w_eq i j hi hj, V.w_eq j i hj hi] at hw
    exact ⟨hj, ⟨V.getD_lt hj, hw⟩, V.getD_mem hj, V.getD_mem hi⟩
  · rintro ⟨hj, ⟨_, hw⟩, _, _⟩
    rw [V.w_eq i j hi hj, V.w_eq j i hj hi]
    exact ⟨hj, hw⟩

/-- walks of the view are walks of `g` through listed vertices -/
theorem reach_fwd (V : View g h keep) {i j : Nat} (hi : i < h.n) (r : Reach h.und i j) :
    j < h.n ∧ Reach (undOn g keep) (keep.getD i 0) (keep.getD j 0) := by
  induction r with
  | refl => exact ⟨hi, .refl _⟩
  | tail _ hc ih =>
    have := (V.mem_und ih.1).1 hc
    exact ⟨this.1, .tail ih.2 this.2⟩

/-- walks of `g` through listed vertices are walks of the view -/
theorem reach_bwd (V : View g h keep) {i y : Nat} (hi : i < h.n) (r : Reach (undOn g keep) (keep.getD i 0) y) :
    ∃ j, j < h.n ∧ keep.getD j 0 = y ∧ Reach h.und i j := by
  induction r with
  | refl => exact ⟨i, hi, rfl, .refl _⟩
  | tail _ hc ih =>
    obtain ⟨jb, hjb, hkb, hrb⟩ := ih
    rename_i b c _
    have hck : c ∈ keep := ((mem_undOn g keep b c).1 hc).2.1
    obtain ⟨jc, hjc, hkc⟩ := exists_getD_of_mem hck
    have hjc' : jc < h.n := V.n_eq ▸ hjc
    refine ⟨jc, hjc', hkc, .tail hrb ?_⟩
    rw [V.mem_und hjb, hkb, hkc]
    exact ⟨hjc', hc⟩

theorem reach_iff (V : View g h keep) {i j : Nat} (hi : i < h.n) (hj : j < h.n) :
    Reach h.und i j ↔ Reach (undOn g keep) (keep.getD i 0) (keep.getD j 0) := by
  constructor
  · exact fun r => (V.reach_fwd hi r).2
  · intro r
    obtain ⟨j', hj', hk, hr⟩ := V.reach_bwd hi r
    rw [← V.inj hj' hj hk]; exact hr

/-- selecting a strictly increasing list of vertices of a view gives a view -/
theorem select (V : View g h keep) (k : List Nat) (hs : k.Pairwise (· < ·)) (hlt : ∀ x, x ∈ k → x < h.n) :
    View g (h.select k) (k.map fun i => keep.getD i 0) where
  n_eq := by simp [Graph.select]
  sorted := by
    rw [List.pairwise_map]
    refine List.Pairwise.imp_of_mem ?_ hs
    intro a b _ hb hab
    exact sorted_getD_lt V.sorted hab (V.n_eq ▸ hlt b hb)
  lt := by
    intro x hx
    obtain ⟨i, hi, rfl⟩ := List.mem_map.1 hx
    exact V.getD_lt (hlt i hi)
  w_eq := by
    intro i j hi hj
    have hi' : i < k.length := hi
    have hj' : j < k.length := hj
    have e : ∀ t, t < k.length → (k.map fun i => keep.getD i 0).getD t 0 = keep.getD (k.getD t 0) 0 := by
      intro t ht
      simp [List.getD_eq_getElem?_getD, ht]
    rw [e i hi', e j hj']
    exact V.w_eq _ _ (hlt _ (MenpoModel.C14.getD_mem_of_lt hi')) (hlt _ (MenpoModel.C14.getD_mem_of_lt hj'))

end View

/-! ### one pruning round -/

/-- the mask `pruneLoop` builds: membership in the component of the root -/
def compMask (h : Graph) (ρ : Nat) : List Bool := (List.range h.n).map fun v => (h.component ρ).contains v

theorem compMask_length (h : Graph) (ρ : Nat) : (compMask h ρ).length = h.n := by simp [compMask]

theorem compMask_get (h : Graph) (ρ : Nat) (hρ : ρ < h.n) (v : Nat) :
    (compMask h ρ)[v]? = some true ↔ Reach h.und ρ v := by
  rw [← mem_component h ρ v hρ]
  constructor
  · intro hv
    have hlt : v < h.n := by simpa [compMask] using lt_of_getElem?_eq_some hv
    simpa [compMask, hlt] using hv
  · intro hv
    have hlt : v < h.n := component_lt h ρ v hρ hv
    simpa [compMask, hlt] using hv

/-- what one round of the loop computes -/
structure Round (g h : Graph) (keep : List Nat) (ρ : Nat) (h1 : Graph) (r1 : Nat) (keep1 : List Nat) : Prop where
  view : View g h1 keep1
  mem : ∀ x, x ∈ keep1 ↔ Reach (undOn g keep) (keep.getD ρ 0) x
  root_lt : r1 < h1.n
  root_eq : keep1.getD r1 0 = keep.getD ρ 0
  conn : h1.nComponents = 1

theorem round_spec {g h : Graph} {keep : List Nat} (V : View g h keep) (ρ : Nat) (hρ : ρ < h.n) :
    Round g h keep ρ (h.select (keepIdx h.n (compMask h ρ))) (rank (compMask h ρ) ρ)
      ((keepIdx h.n (compMask h ρ)).map fun i => keep.getD i 0) := by
  have hlen := compMask_length h ρ
  have hmem : ∀ x, x ∈ keepIdx h.n (compMask h ρ) ↔ Reach h.und ρ x := fun x => by
    rw [mem_keepIdx _ _ hlen, compMask_get h ρ hρ]
  have hk_lt : ∀ x, x ∈ keepIdx h.n (compMask h ρ) → x < h.n := keepIdx_lt _ _
  have hk_sorted := keepIdx_sorted h.n (compMask h ρ)
  have hρm : (compMask h ρ)[ρ]? = some true := (compMask_get h ρ hρ ρ).2 (.refl _)
  have V1 : View h (h.select (keepIdx h.n (compMask h ρ))) (keepIdx h.n (compMask h ρ)) :=
    view_of_select h _ hk_sorted hk_lt
  have hroot_lt : rank (compMask h ρ) ρ < (h.select (keepIdx h.n (compMask h ρ))).n :=
    rank_lt_keepIdx_length _ _ hlen ρ hρm
  refine ⟨V.select _ hk_sorted hk_lt, ?_, hroot_lt, ?_, ?_⟩
  · intro x
    rw [List.mem_map]
    constructor
    · rintro ⟨i, hi, rfl⟩
      exact (V.reach_fwd hρ ((hmem i).1 hi)).2
    · intro hx
      obtain ⟨j, _, hkj, hrj⟩ := V.reach_bwd hρ hx
      exact ⟨j, (hmem j).2 hrj, hkj⟩
  · have hk := keepIdx_getElem?_rank h.n (compMask h ρ) hlen ρ hρm
    simp only [List.getD_eq_getElem?_getD, List.getElem?_map, hk, Option.map_some, Option.getD_some]
  · -- the selected graph is connected
    have hpos : 0 < (h.select (keepIdx h.n (compMask h ρ))).n := Nat.lt_of_le_of_lt (Nat.zero_le _) hroot_lt
    rw [nComponents_eq_one_iff _ hpos]
    intro i j hi hj
    rw [V1.reach_iff hi hj]
    have hai : Reach h.und ρ ((keepIdx h.n (compMask h ρ)).getD i 0) := (hmem _).1 (V1.getD_mem hi)
    have haj : Reach h.und ρ ((keepIdx h.n (compMask h ρ)).getD j 0) := (hmem _).1 (V1.getD_mem hj)
    have hij : Reach h.und ((keepIdx h.n (compMask h ρ)).getD i 0) ((keepIdx h.n (compMask h ρ)).getD j 0) :=
      (reach_und_symm h hρ hai).trans haj
    -- every vertex of that walk is in the component
    have key : ∀ a b, Reach h.und ρ a → Reach h.und a b →
        Reach (undOn h (keepIdx h.n (compMask h ρ))) a b := by
      intro a b ha hab
      induction hab with
      | refl => exact .refl _
      | tail hab' hc ih =>
        refine .tail ih ?_
        rw [mem_undOn]
        exact ⟨hc, (hmem _).2 ((ha.trans hab').tail hc), (hmem _).2 (ha.trans hab')⟩
    exact key _ _ hai hij

/-! ### the loop -/

theorem pruneLoop_of_conn (f : Nat) (h : Graph) (ρ : Nat) (keep : List Nat) (hc : h.nComponents = 1) :
    pruneLoop f h ρ keep = (h, ρ, keep) := by
  cases f with
  | zero => rfl
  | succ f => simp [pruneLoop, hc]

/-- positive fuel is enough: the loop returns after at most one round -/
theorem pruneLoop_view {g h : Graph} {keep : List Nat} (V : View g h keep) (ρ : Nat) (hρ : ρ < h.n) (f : Nat) :
    Round g h keep ρ (pruneLoop (f + 1) h ρ keep).1 (pruneLoop (f + 1) h ρ keep).2.1
      (pruneLoop (f + 1) h ρ keep).2.2 := by
  by_cases hgt : h.nComponents > 1
  · have hR := round_spec V ρ hρ
    have : pruneLoop (f + 1) h ρ keep =
        (h.select (keepIdx h.n (compMask h ρ)), rank (compMask h ρ) ρ,
          (keepIdx h.n (compMask h ρ)).map fun i => keep.getD i 0) := by
      rw [pruneLoop, if_pos hgt]
      exact pruneLoop_of_conn f _ _ _ hR.conn
    rw [this]; exact hR
  · have hpos : 0 < h.n := Nat.lt_of_le_of_lt (Nat.zero_le _) hρ
    have hc : h.nComponents = 1 := by
      have := nComponents_pos h hpos; omega
    rw [pruneLoop_of_conn _ _ _ _ hc]
    refine ⟨V, ?_, hρ, rfl, hc⟩
    intro x
    constructor
    · intro hx
      obtain ⟨i, hi, rfl⟩ := exists_getD_of_mem hx
      have hi' : i < h.n := V.n_eq ▸ hi
      exact (V.reach_fwd hρ ((nComponents_eq_one_iff h hpos).1 hc ρ i hρ hi')).2
    · intro hx
      obtain ⟨j, hj, hkj, _⟩ := V.reach_bwd hρ hx
      rw [← hkj]; exact V.getD_mem hj

/-! ### the statement over original vertex numbers -/

/-- neighbours in the underlying undirected graph of `g` between masked-in vertices only -/
def maskedUnd (g : Graph) (m : List Bool) (a : Nat) : List Nat :=
  (g.und a).filter fun b => m.getD b false && m.getD a false

/-- `v` is masked in and joined to the root `r` through masked-in vertices only -/
def Kept (g : Graph) (m : List Bool) (r v : Nat) : Prop :=
  m[v]? = some true ∧ Reach (maskedUnd g m) r v

/-- the same as a computation -/
def keptB (g : Graph) (m : List Bool) (r v : Nat) : Bool :=
  m.getD v false && (reachFrom g.n (maskedUnd g m) r).contains v

theorem mem_maskedUnd (g : Graph) (m : List Bool) (a b : Nat) :
    b ∈ maskedUnd g m a ↔ b ∈ g.und a ∧ m[b]? = some true ∧ m[a]? = some true := by
  simp only [maskedUnd, List.mem_filter, Bool.and_eq_true, getD_false_eq_true_iff]

theorem keptB_iff (g : Graph) (m : List Bool) (r v : Nat) (hr : r < g.n) :
    keptB g m r v = true ↔ Kept g m r v := by
  have hnb : ∀ u, ∀ y ∈ maskedUnd g m u, y < g.n := fun u y hy =>
    und_lt g u y ((mem_maskedUnd g m u y).1 hy).1
  simp only [keptB, Kept, Bool.and_eq_true, getD_false_eq_true_iff, List.contains_iff_mem,
    mem_reachFrom g.n (maskedUnd g m) hnb r v hr]

/-- if anything is kept at all then the root itself is masked in -/
theorem Kept.root_kept {g : Graph} {m : List Bool} {r v : Nat} (h : Kept g m r v) : m[r]? = some true := by
  rcases h.2.cases_head with rfl | ⟨b, hb, _⟩
  · exact h.1
  · exact ((mem_maskedUnd g m r b).1 hb).2.2

theorem reach_undOn_keepIdx_iff (g : Graph) (m : List Bool) (hlen : m.length = g.n) (a b : Nat) :
    Reach (undOn g (keepIdx g.n m)) a b ↔ Reach (maskedUnd g m) a b := by
  apply Reach.congr
  intro x y
  rw [mem_undOn, mem_maskedUnd, mem_keepIdx _ _ hlen, mem_keepIdx _ _ hlen]

/-- The bundle of facts about the result `(g', r', keep')` of the pruning for graph `g`, mask `m`,
root `r` (all over the ORIGINAL vertex numbers of `g`). -/
structure PruneSpec (g : Graph) (m : List Bool) (r : Nat) (g' : Graph) (r' : Nat) (keep' : List Nat) : Prop where
  /-- order-preserving renumbering … -/
  sorted : keep'.Pairwise (· < ·)
  /-- … of exactly the masked-in vertices joined to the root through masked-in vertices -/
  mem : ∀ v, v ∈ keep' ↔ Kept g m r v
  n_eq : g'.n = keep'.length
  /-- exactly the induced subgraph -/
  w_eq : ∀ i j, i < g'.n → j < g'.n → g'.w i j = g.w (keep'.getD i 0) (keep'.getD j 0)
  /-- the root re-indexed -/
  root_lt : r' < g'.n
  root_eq : keep'.getD r' 0 = r
  /-- the loop has terminated on a connected graph -/
  conn : g'.nComponents = 1

/-- **`pruneLoop` after masking** : for every graph, every mask of the right length that keeps the
root.  (Positive fuel suffices — one round — so `g.n + 1` does.) -/
theorem pruneLoop_spec (g : Graph) (r : Nat) (m : List Bool) (hlen : m.length = g.n) (hr : m[r]? = some true) :
    PruneSpec g m r
      (pruneLoop (g.n + 1) (g.select (keepIdx g.n m)) (rank m r) (keepIdx g.n m)).1
      (pruneLoop (g.n + 1) (g.select (keepIdx g.n m)) (rank m r) (keepIdx g.n m)).2.1
      (pruneLoop (g.n + 1) (g.select (keepIdx g.n m)) (rank m r) (keepIdx g.n m)).2.2 := by
  have V : View g (g.select (keepIdx g.n m)) (keepIdx g.n m) :=
    view_of_select g _ (keepIdx_sorted _ _) (keepIdx_lt _ _)
  have hρ : rank m r < (g.select (keepIdx g.n m)).n := rank_lt_keepIdx_length _ _ hlen r hr
  have hroot : (keepIdx g.n m).getD (rank m r) 0 = r := keepIdx_getD_rank _ _ hlen r hr
  have R := pruneLoop_view V (rank m r) hρ g.n
  refine ⟨R.view.sorted, ?_, R.view.n_eq, R.view.w_eq, R.root_lt, R.root_eq.trans hroot, R.conn⟩
  intro v
  rw [R.mem, hroot, reach_undOn_keepIdx_iff g m hlen, Kept]
  constructor
  · intro hv
    refine ⟨?_, hv⟩
    rcases hv.cases_tail with rfl | ⟨b, _, hb⟩
    · exact hr
    · exact ((mem_maskedUnd g m b v).1 hb).2.1
  · exact fun hv => hv.2

/-! derived forms -/

/-- the kept list as a computation: the increasing list of the vertices satisfying `keptB` -/
theorem PruneSpec.keep_eq {g : Graph} {m : List Bool} {r : Nat} {g' : Graph} {r' : Nat} {keep' : List Nat}
    (S : PruneSpec g m r g' r' keep') (hlen : m.length = g.n) :
    keep' = (List.range g.n).filter (keptB g m r) := by
  have hr : r < g.n := by
    have : Kept g m r r := (S.mem r).1 (S.root_eq ▸ getD_mem_of_lt (S.n_eq ▸ S.root_lt))
    exact hlen ▸ lt_of_getElem?_eq_some this.1
  apply sorted_ext _ _ S.sorted (List.Pairwise.sublist List.filter_sublist List.pairwise_lt_range)
  intro x
  rw [S.mem, List.mem_filter, keptB_iff g m r x hr, List.mem_range]
  constructor
  · intro hx; exact ⟨hlen ▸ lt_of_getElem?_eq_some hx.1, hx⟩
  · exact fun hx => hx.2

/-- the new root index is the number of kept vertices below the root -/
theorem PruneSpec.root_index {g : Graph} {m : List Bool} {r : Nat} {g' : Graph} {r' : Nat} {keep' : List Nat}
    (S : PruneSpec g m r g' r' keep') : r' = (keep'.filter fun x => decide (x < r)).length := by
  have := sorted_count_below S.sorted (S.n_eq ▸ S.root_lt)
  rw [S.root_eq] at this
  exact this.symm

/-- every kept vertex is a vertex of `g`, masked in -/
theorem PruneSpec.keep_lt {g : Graph} {m : List Bool} {r : Nat} {g' : Graph} {r' : Nat} {keep' : List Nat}
    (S : PruneSpec g m r g' r' keep') (hlen : m.length = g.n) (v : Nat) (hv : v ∈ keep') :
    v < g.n ∧ m[v]? = some true :=
  ⟨hlen ▸ lt_of_getElem?_eq_some ((S.mem v).1 hv).1, ((S.mem v).1 hv).1⟩

/-- the result is connected: any two new vertices are joined in the underlying undirected graph -/
theorem PruneSpec.connected {g : Graph} {m : List Bool} {r : Nat} {g' : Graph} {r' : Nat} {keep' : List Nat}
    (S : PruneSpec g m r g' r' keep') : ∀ i j, i < g'.n → j < g'.n → Reach g'.und i j :=
  (nComponents_eq_one_iff g' (Nat.lt_of_le_of_lt (Nat.zero_le _) S.root_lt)).1 S.conn

/-! ### `Graph.treeFromMask` -/

theorem treeFromMask_maskLength (g : Graph) (r : Nat) (m : List Bool) (hlen : m.length ≠ g.n) :
    g.treeFromMask r m = .error .maskLength := by
  simp [Graph.treeFromMask, hlen]

/-- the all-true shortcut returns the same graph, root and all vertices -/
theorem treeFromMask_allTrue (g : Graph) (r : Nat) (m : List Bool) (hlen : m.length = g.n) (hall : m.all id = true) :
    g.treeFromMask r m = .ok (g, r, List.range g.n) := by
  simp only [Graph.treeFromMask, hlen, ne_eq, not_true_eq_false, if_false, hall, if_true]

theorem treeFromMask_rootRemoved (g : Graph) (r : Nat) (m : List Bool) (hlen : m.length = g.n)
    (hall : m.all id = false) (hr : m.getD r false = false) :
    g.treeFromMask r m = .error .rootRemoved := by
  simp only [Graph.treeFromMask, hlen, ne_eq, not_true_eq_false, if_false, hall, Bool.false_eq_true, hr,
    Bool.not_false, if_true]

/-- otherwise: prune, then the constructor with checks decides -/
theorem treeFromMask_eq (g : Graph) (r : Nat) (m : List Bool) (hlen : m.length = g.n)
    (hall : m.all id = false) (hr : m.getD r false = true) :
    g.treeFromMask r m =
      match (pruneLoop (g.n + 1) (g.select (keepIdx g.n m)) (rank m r) (keepIdx g.n m)).1.treeCtor
          (pruneLoop (g.n + 1) (g.select (keepIdx g.n m)) (rank m r) (keepIdx g.n m)).2.1 with
      | .error e => .error e
      | .ok _ => .ok (pruneLoop (g.n + 1) (g.select (keepIdx g.n m)) (rank m r) (keepIdx g.n m)) := by
  simp only [Graph.treeFromMask, hlen, ne_eq, not_true_eq_false, if_false, hall, Bool.false_eq_true, hr,
    Bool.not_true]
  rfl

/-- **`PointTree.from_mask`** : whenever a mask that is not all true is accepted, the result is the
induced subgraph on exactly the masked-in vertices joined to the root through masked-in vertices,
renumbered order preservingly, with the root re-indexed, and it is connected. -/
theorem treeFromMask_spec (g : Graph) (r : Nat) (m : List Bool) (g' : Graph) (r' : Nat) (keep' : List Nat)
    (hall : m.all id = false) (hok : g.treeFromMask r m = .ok (g', r', keep')) :
    PruneSpec g m r g' r' keep' := by
  by_cases hlen : m.length = g.n
  · cases hr : m.getD r false with
    | false => rw [treeFromMask_rootRemoved g r m hlen hall hr] at hok; cases hok
    | true =>
      rw [treeFromMask_eq g r m hlen hall hr] at hok
      have S := pruneLoop_spec g r m hlen ((getD_false_eq_true_iff m r).1 hr)
      split at hok
      · cases hok
      · have : pruneLoop (g.n + 1) (g.select (keepIdx g.n m)) (rank m r) (keepIdx g.n m) = (g', r', keep') := by
          injection hok
        rw [this] at S
        exact S
  · rw [treeFromMask_maskLength g r m hlen] at hok; cases hok

/-- an accepted mask has the length of the graph (all-true shortcut included) -/
theorem treeFromMask_ok_length (g : Graph) (r : Nat) (m : List Bool) (res : Graph × Nat × List Nat)
    (hok : g.treeFromMask r m = .ok res) : m.length = g.n := by
  apply Classical.byContradiction
  intro hlen
  rw [treeFromMask_maskLength g r m hlen] at hok; cases hok

/-- the accepted result additionally passed the `Tree` constructor checks -/
theorem treeFromMask_ctor (g : Graph) (r : Nat) (m : List Bool) (g' : Graph) (r' : Nat) (keep' : List Nat)
    (hall : m.all id = false) (hok : g.treeFromMask r m = .ok (g', r', keep')) :
    g'.treeCtor r' = .ok () := by
  by_cases hlen : m.length = g.n
  · cases hr : m.getD r false with
    | false => rw [treeFromMask_rootRemoved g r m hlen hall hr] at hok; cases hok
    | true =>
      rw [treeFromMask_eq g r m hlen hall hr] at hok
      split at hok
      · cases hok
      · rename_i u hu
        have : pruneLoop (g.n + 1) (g.select (keepIdx g.n m)) (rank m r) (keepIdx g.n m) = (g', r', keep') := by
          injection hok
        rw [this] at hu
        exact hu
  · rw [treeFromMask_maskLength g r m hlen] at hok; cases hok

/-! ### a concrete instance

The tree `3 → {1, 0}`, `1 → {2, 5}`, `5 → 6`, `0 → 4` rooted at `3`; masking out the inner vertex `1`
keeps `2, 5, 6` in the mask but cuts them off from the root: only `0, 3, 4` survive, the root becomes
new vertex `1`. -/

def pruneExTree : Graph := Graph.ofRows
  [[0,0,0,0,1,0,0],
   [0,0,1,0,0,1,0],
   [0,0,0,0,0,0,0],
   [1,1,0,0,0,0,0],
   [0,0,0,0,0,0,0],
   [0,0,0,0,0,0,1],
   [0,0,0,0,0,0,0]]

def pruneExMask : List Bool := [true, false, true, true, true, true, true]

example : pruneExTree.treeCtorOk 3 = true := by decide

example : pruneExMask.length = pruneExTree.n ∧ pruneExMask.all id = false ∧ pruneExMask[3]? = some true := by decide

/-- the expected outcome, as a computation (a `Graph` holds a function: compare its rows) -/
def pruneExCheck : Except Err (Graph × Nat × List Nat) → Bool
  | .ok (g', r', keep') =>
      keep' == [0, 3, 4] && r' == 1 && g'.rows == [[0,0,1],[1,0,0],[0,0,0]] &&
      keep' != keepIdx pruneExTree.n pruneExMask
  | .error _ => false

theorem pruneEx_check : pruneExCheck (pruneExTree.treeFromMask 3 pruneExMask) = true := by decide

/-- the general theorem instantiated on it: the call is accepted, the bundle holds, and the kept
list is strictly smaller than the mask -/
example : ∃ g' r' keep', pruneExTree.treeFromMask 3 pruneExMask = .ok (g', r', keep') ∧
    PruneSpec pruneExTree pruneExMask 3 g' r' keep' ∧ keep' = [0, 3, 4] ∧ r' = 1 ∧
    g'.rows = [[0,0,1],[1,0,0],[0,0,0]] ∧ keep' ≠ keepIdx pruneExTree.n pruneExMask := by
  have hc := pruneEx_check
  cases h : pruneExTree.treeFromMask 3 pruneExMask with
  | error e => rw [h] at hc; exact absurd hc (by simp [pruneExCheck])
  | ok res =>
    obtain ⟨g', r', keep'⟩ := res
    rw [h] at hc
    simp only [pruneExCheck, Bool.and_eq_true, beq_iff_eq, bne_iff_ne] at hc
    exact ⟨g', r', keep', rfl, treeFromMask_spec pruneExTree 3 pruneExMask g' r' keep' (by decide) h,
      hc.1.1.1, hc.1.1.2, hc.1.2, hc.2⟩

end MenpoModel.C14
