/-
C06: `copy()` succeeds.  On a heap whose references point to earlier cells (an acyclic object
graph, numbered children first), that conforms to a well-formed table and whose classes all
resolve to a modelled `copy`, `copyCall` with fuel `a + 2` on the object at address `a` returns
`ok` — the conditional theorems `copy_equal` / `copy_independent` are never vacuous there.
Core Lean only.
-/
import MenpoModel.Lemmas.C06Fresh

namespace MenpoModel.C06

/-- references point to earlier cells: the object graph is acyclic and numbered children first
(the harness encodes live objects this way; `orderedB` is the executable check) -/
def Ordered (h : Heap) : Prop :=
  ∀ (a : Nat) k fs, h[a]? = some (Cell.node k fs) → ∀ x b, (x, Val.ref b) ∈ fs → b < a

def orderedB (h : Heap) : Bool :=
  (List.range h.length).all fun a => match h[a]? with
    | some (.node _ fs) => fs.all fun p => match p.2 with | .imm _ => true | .ref b => decide (b < a)
    | _ => true

theorem copySlots_err_src {rec : Heap → Val → Except Err (Heap × Val)} {h0 : Heap}
    (Hb : ∀ hs v he v1, Ctx h0 hs → Valid h0 v → rec hs v = .ok (he, v1) → Basic h0 hs v he v1) :
    ∀ (fs : Slots) (h : Heap), Ctx h0 h → (∀ x v, (x, v) ∈ fs → Valid h0 v) →
      ∀ e, copySlots rec h fs = .error e →
        ∃ hs x v, (x, v) ∈ fs ∧ Ctx h0 hs ∧ rec hs v = .error e ∧ e ≠ .attr := by
  intro fs
  induction fs with
  | nil => intro h _ _ e he; simp [copySlots] at he
  | cons p t ih =>
    obtain ⟨x, v⟩ := p
    intro h c hv e he
    have hvt : ∀ y u, (y, u) ∈ t → Valid h0 u := fun y u m => hv y u (List.mem_cons_of_mem _ m)
    simp only [copySlots] at he
    split at he
    · rename_i hA vA hr
      split at he
      · cases he
      · rename_i e' ht
        cases he
        have bA := Hb h v hA vA c (hv x v List.mem_cons_self) hr
        obtain ⟨hs, y, u, m, chs, hru, hne⟩ := ih hA (bA.ctx c) hvt _ ht
        exact ⟨hs, y, u, List.mem_cons_of_mem _ m, chs, hru, hne⟩
    · split at he
      · cases he
      · rename_i e' ht
        cases he
        obtain ⟨hs, y, u, m, chs, hru, hne⟩ := ih h c hvt _ ht
        exact ⟨hs, y, u, List.mem_cons_of_mem _ m, chs, hru, hne⟩
    · rename_i e' hne hr
      cases he
      exact ⟨h, x, v, List.mem_cons_self, c, hr, hne⟩

theorem copyValues_err_src {rec : Heap → Val → Except Err (Heap × Val)} {h0 : Heap}
    (Hb : ∀ hs v he v1, Ctx h0 hs → Valid h0 v → rec hs v = .ok (he, v1) → Basic h0 hs v he v1) :
    ∀ (fs : Slots) (h : Heap), Ctx h0 h → (∀ x v, (x, v) ∈ fs → Valid h0 v) →
      ∀ e, copyValues rec h fs = .error e → ∃ hs x v, (x, v) ∈ fs ∧ Ctx h0 hs ∧ rec hs v = .error e := by
  intro fs
  induction fs with
  | nil => intro h _ _ e he; simp [copyValues] at he
  | cons p t ih =>
    obtain ⟨x, v⟩ := p
    intro h c hv e he
    have hvt : ∀ y u, (y, u) ∈ t → Valid h0 u := fun y u m => hv y u (List.mem_cons_of_mem _ m)
    simp only [copyValues] at he
    split at he
    · rename_i hA vA hr
      split at he
      · cases he
      · rename_i e' ht
        cases he
        have bA := Hb h v hA vA c (hv x v List.mem_cons_self) hr
        obtain ⟨hs, y, u, m, chs, hru⟩ := ih hA (bA.ctx c) hvt _ ht
        exact ⟨hs, y, u, List.mem_cons_of_mem _ m, chs, hru⟩
    · rename_i e' hr
      cases he
      exact ⟨h, x, v, List.mem_cons_self, c, hr⟩

/-- with enough fuel and only modelled classes, the only way `copy()` can fail is AttributeError -/
theorem copy_err_attr (res : String → CopyImpl) (h0 : Heap) (ho : Ordered h0)
    (hknown : ∀ (a : Nat) C fs, h0[a]? = some (Cell.node (.obj C) fs) → res C ≠ .unknown) :
    ∀ (n : Nat) (h : Heap) (v : Val), Ctx h0 h → Valid h0 v → 1 ≤ n → (∀ a, v = .ref a → a + 2 ≤ n) →
      ∀ e, copyCall res n h v = .error e → e = .attr := by
  intro n
  induction n with
  | zero => intro h v _ _ h1; omega
  | succ n ih =>
    intro h v c hv _ hfuel e he
    have Hb := copy_basic res h0 n
    cases v with
    | imm t => simp only [copyCall, Except.error.injEq] at he; exact he.symm
    | ref a =>
      have halt := hv a rfl
      have hget : h[a]? = h0[a]? := c.ext.get halt
      have hfa := hfuel a rfl
      simp only [copyCall, hget] at he
      cases hcell : h0[a]? with
      | none => simp only [hcell, Except.error.injEq] at he; exact he.symm
      | some cell =>
        cases cell with
        | buf d => simp [hcell] at he
        | node k fs =>
          have hvfs : ∀ x v, (x, v) ∈ fs → Valid h0 v := fun x v m => c.c0.slot_valid hcell m
          -- a nested call on a slot value has enough fuel
          have hrec : ∀ hs x u, (x, u) ∈ fs → Ctx h0 hs → ∀ e', copyCall res n hs u = .error e' → e' = .attr := by
            intro hs x u m chs e' hu
            refine ih hs u chs (hvfs x u m) (by omega) ?_ e' hu
            intro b hb
            subst hb
            have := ho a k fs hcell x b m
            omega
          cases k with
          | dict => simp [hcell] at he
          | list => simp [hcell] at he
          | frozen => simp only [hcell, Except.error.injEq] at he; exact he.symm
          | obj C =>
            simp only [hcell] at he
            have hslots : ∀ e', copySlots (copyCall res n) h fs = .error e' → False := by
              intro e' hcs
              obtain ⟨hs, x, u, m, chs, hu, hne⟩ := copySlots_err_src Hb fs h c hvfs e' hcs
              exact hne (hrec hs x u m chs e' hu)
            have hdeep : ∀ (x : String) (h1 : Heap) (fs1 : Slots), SlotsRel (copyCall res n) h fs h1 fs1 →
                ∀ e', deepenValues (copyCall res n) x h1 fs1 = .error e' → e' = .attr := by
              intro x h1 fs1 r e' hde
              have sb := slots_basic Hb r c hvfs
              have c1 : Ctx h0 h1 := ⟨c.c0, c.ext.trans sb.ext, sb.closed⟩
              simp only [deepenValues] at hde
              split at hde
              · rename_i d' hl
                split at hde
                · rename_i gs' hd'
                  split at hde
                  · cases hde
                  · rename_i e'' hcv
                    cases hde
                    obtain ⟨d, hlx, hd0⟩ := deepen_src res Hb c hvfs r hl hd'
                    obtain ⟨hs, y, u, m, chs, hu⟩ := copyValues_err_src Hb gs' h1 c1
                      (fun y u m => c.c0.slot_valid hd0 m) _ hcv
                    refine ih hs u chs (c.c0.slot_valid hd0 m) (by omega) ?_ _ hu
                    intro b hb
                    subst hb
                    have l1 := ho d .dict gs' hd0 y b m
                    have l2 := ho a (.obj C) fs hcell x d (lookup_mem hlx)
                    omega
                · simp only [Except.error.injEq] at hde; exact hde.symm
              · simp only [Except.error.injEq] at hde; exact hde.symm
            cases himpl : res C with
            | generic =>
              simp only [himpl] at he
              split at he
              · cases he
              · rename_i e' hcs; exact (hslots e' hcs).elim
            | landmarkManager =>
              simp only [himpl] at he
              split at he
              · rename_i h1 fs1 hcs
                split at he
                · cases he
                · rename_i e' hde
                  cases he
                  exact hdeep _ h1 fs1 (copySlots_rel _ _ _ _ hcs) _ hde
              · rename_i e' hcs; exact (hslots e' hcs).elim
            | labelled =>
              simp only [himpl] at he
              split at he
              · rename_i h1 fs1 hcs
                split at he
                · cases he
                · rename_i e' hde
                  cases he
                  exact hdeep _ h1 fs1 (copySlots_rel _ _ _ _ hcs) _ hde
              · rename_i e' hcs; exact (hslots e' hcs).elim
            | lazyList =>
              simp only [himpl] at he
              split at he
              · split at he
                · split at he
                  · cases he
                  · simp only [Except.error.injEq] at he; exact he.symm
                · simp only [Except.error.injEq] at he; exact he.symm
              · rename_i e' hcs; exact (hslots e' hcs).elim
            | homogAlign =>
              simp only [himpl] at he
              split at he
              · rename_i m hlm
                split at he
                · cases he
                · rename_i e' hcm
                  cases he
                  exact hrec h _ m (lookup_mem hlm) c _ hcm
              · simp only [Except.error.injEq] at he; exact he.symm
            | unknown => exact absurd himpl (hknown a C fs hcell)

/-- PROPERTY support (totality): `o.copy()` returns.  For an object at address `a` of an ordered,
closed heap conforming to well-formed tables whose classes all resolve to a modelled `copy`,
`copyCall` with fuel `a + 2` (or more) is `ok`. -/
theorem copy_succeeds (res : String → CopyImpl) (h : Heap) (hc : Closed h) (ho : Ordered h)
    (dh : DeepHeap res h)
    (hknown : ∀ (a : Nat) C fs, h[a]? = some (Cell.node (.obj C) fs) → res C ≠ .unknown)
    (a : Nat) (C : String) (fs : Slots) (hobj : h[a]? = some (.node (.obj C) fs)) (n : Nat) (hn : a + 2 ≤ n) :
    ∃ h' v', copyCall res n h (.ref a) = .ok (h', v') := by
  have hv : Valid h (.ref a) := by intro b eb; cases eb; exact get_lt hobj
  cases hr : copyCall res n h (.ref a) with
  | ok r => exact ⟨r.1, r.2, rfl⟩
  | error e =>
    have he := copy_err_attr res h ho hknown n h (.ref a) (Ctx.refl hc) hv (by omega)
      (by intro b hb; cases hb; exact hn) e hr
    subst he
    exact absurd hr (copy_no_attr res h dh n h (.ref a) (Ctx.refl hc) hv (by simp [kindOf, hobj, hasCopyK]))

end MenpoModel.C06
