/-
C02: an executable test of the hypothesis `Rep h s v` of the heap theorems, with its soundness proof.
The driver runs it on every heap it is given, so each correspondence case is known to lie inside the
theorems' domain.  Core Lean only.
-/
import MenpoModel.Core.C02

namespace MenpoModel.C02

def arrAt (h : Heap) (v : Option Val) : Option Arr :=
  match v with
  | some (.ref b) => match h[b]? with
    | some (.arr dd) => some dd
    | _ => none
  | _ => none

def dictAt (h : Heap) (v : Option Val) : Option Slots :=
  match v with
  | some (.ref b) => match h[b]? with
    | some (.dict ms) => some ms
    | _ => none
  | _ => none

theorem arrAt_some {h : Heap} {v : Option Val} {dd : Arr} (e : arrAt h v = some dd) :
    ∃ b, v = some (.ref b) ∧ h[b]? = some (.arr dd) := by
  unfold arrAt at e
  split at e
  · rename_i b
    split at e
    · rename_i d hd; injection e with e; subst e; exact ⟨b, rfl, hd⟩
    · cases e
  · cases e

theorem dictAt_some {h : Heap} {v : Option Val} {ms : Slots} (e : dictAt h v = some ms) :
    ∃ b, v = some (.ref b) ∧ h[b]? = some (.dict ms) := by
  unfold dictAt at e
  split at e
  · rename_i b
    split at e
    · rename_i d hd; injection e with e; subst e; exact ⟨b, rfl, hd⟩
    · cases e
  · cases e

def repXB (h : Heap) (fs : Slots) (ex : Extra) : Bool :=
  ex.all fun e => e.1 != "points" &&
    match e.2 with
    | .imm t => fs.lookup e.1 == some (.imm t)
    | .arr dd => arrAt h (fs.lookup e.1) == some dd
    | .dict _ => true
    | .deep _ => true

theorem repXB_sound {h : Heap} {fs : Slots} {ex : Extra} (e : repXB h fs ex = true) : RepX h fs ex := by
  intro x xv hm
  have := List.all_eq_true.mp e (x, xv) hm
  simp only [Bool.and_eq_true, bne_iff_ne, ne_eq] at this
  refine ⟨this.1, ?_⟩
  have h2 := this.2
  cases xv with
  | imm t => simpa using h2
  | arr dd =>
    simp only [beq_iff_eq] at h2
    obtain ⟨b, hb1, hb2⟩ := arrAt_some h2
    exact ⟨b, hb1, hb2⟩
  | dict items => trivial
  | deep toks => trivial

def labelOKB (h : Heap) (c : SCls) (fs : Slots) : Bool :=
  c != .LabelledPointUndirectedGraph ||
    match dictAt h (fs.lookup "_labels_to_masks") with
    | some ms => ms.all fun p => (arrAt h (some p.2)).isSome
    | none => false

theorem labelOKB_sound {h : Heap} {c : SCls} {fs : Slots} (e : labelOKB h c fs = true) : LabelOK h c fs := by
  intro hc
  subst hc
  simp only [labelOKB, bne_self_eq_false, Bool.false_or] at e
  split at e
  · rename_i ms hms
    obtain ⟨m, hm1, hm2⟩ := dictAt_some hms
    refine ⟨m, ms, hm1, hm2, fun p hp => ?_⟩
    have := List.all_eq_true.mp e p hp
    obtain ⟨dd, hdd⟩ := Option.isSome_iff_exists.mp this
    obtain ⟨b, hb1, hb2⟩ := arrAt_some hdd
    injection hb1 with hb1
    exact ⟨b, dd, hb1, hb2⟩
  · cases e

mutual
def repB (h : Heap) : Shape → Val → Bool
  | .mk c x gs ex, v =>
    match v with
    | .ref a =>
      match h[a]? with
      | some (.obj (.shape c') fs) =>
        c' == c && arrAt h (fs.lookup "points") == some x && repXB h fs ex && labelOKB h c fs &&
        (match fs.lookup "_landmarks" with
          | some (.imm 0) => gs.isNil
          | some (.ref l) =>
            match h[l]? with
            | some (.obj .LandmarkManager ls) =>
              match dictAt h (ls.lookup "_landmark_groups") with
              | some gvs => repGB h gs gvs
              | none => false
            | _ => false
          | _ => false)
      | _ => false
    | _ => false
def repGB (h : Heap) : Groups → Slots → Bool
  | .nil, gvs => gvs.isEmpty
  | .cons n g r, gvs =>
    match gvs with
    | (n', v) :: t => n' == n && repB h g v && repGB h r t
    | [] => false
end

mutual
theorem repB_sound {h : Heap} : ∀ (s : Shape) (v : Val), repB h s v = true → Rep h s v
  | .mk c x gs ex, v, e => by
    unfold repB at e
    unfold Rep
    split at e
    · rename_i a
      split at e
      · rename_i c' fs ha
        simp only [Bool.and_eq_true, beq_iff_eq] at e
        obtain ⟨⟨⟨⟨hc, hp⟩, hx⟩, hl⟩, hg⟩ := e
        subst hc
        obtain ⟨p, hp1, hp2⟩ := arrAt_some hp
        refine ⟨a, fs, p, rfl, ha, hp1, hp2, repXB_sound hx, labelOKB_sound hl, ?_⟩
        split at hg
        · rename_i hlm
          left
          refine ⟨hlm, ?_⟩
          cases gs with
          | nil => rfl
          | cons _ _ _ => simp [Groups.isNil] at hg
        · rename_i l hlm
          split at hg
          · rename_i ls hls
            split at hg
            · rename_i gvs hgv
              obtain ⟨g, hg1, hg2⟩ := dictAt_some hgv
              exact .inr ⟨l, ls, g, gvs, hlm, hls, hg1, hg2, repGB_sound gs gvs hg⟩
            · cases hg
          · cases hg
        · cases hg
      · cases e
    · cases e
theorem repGB_sound {h : Heap} : ∀ (gs : Groups) (gvs : Slots), repGB h gs gvs = true → RepG h gs gvs
  | .nil, gvs, e => by
    unfold repGB at e; unfold RepG
    cases gvs with
    | nil => rfl
    | cons _ _ => simp at e
  | .cons n g r, gvs, e => by
    unfold repGB at e; unfold RepG
    split at e
    · rename_i n' v t
      simp only [Bool.and_eq_true, beq_iff_eq] at e
      obtain ⟨⟨hn, hb⟩, hr⟩ := e
      subst hn
      exact ⟨v, t, rfl, repB_sound g v hb, repGB_sound r t hr⟩
    · cases e
end

end MenpoModel.C02
