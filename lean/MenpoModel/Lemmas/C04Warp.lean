/-
C04 helper lemmas for the warps: point algebra, the coded barycentric formula is exact in the plane,
triangle lookup, soundness of the checked solve, symmetry of the spline system.
-/
import MenpoModel.Core.C04Warp
import MenpoModel.Lemmas.C04Mat
import Mathlib.Tactic.FieldSimp
import Mathlib.Tactic.Ring
import Mathlib.Tactic.Linarith

set_option linter.unusedSimpArgs false

namespace MenpoModel.C04

theorem P2.ext' {a b : P2} (hx : a.x = b.x) (hy : a.y = b.y) : a = b := by
  cases a; cases b; simp_all

@[simp] theorem P2.add_x (a b : P2) : (a + b).x = a.x + b.x := rfl
@[simp] theorem P2.add_y (a b : P2) : (a + b).y = a.y + b.y := rfl
@[simp] theorem P2.sub_x (a b : P2) : (a - b).x = a.x - b.x := rfl
@[simp] theorem P2.sub_y (a b : P2) : (a - b).y = a.y - b.y := rfl
@[simp] theorem P2.smul_x (k : ℚ) (a : P2) : (k * a).x = k * a.x := rfl
@[simp] theorem P2.smul_y (k : ℚ) (a : P2) : (k * a).y = k * a.y := rfl

/-- twice the signed area -/
def Tri.cross (s : Tri) : ℚ := (s.b.x - s.a.x) * (s.c.y - s.a.y) - (s.b.y - s.a.y) * (s.c.x - s.a.x)

/-- the point with barycentric coordinates `(α, β)` in `s` -/
def Tri.combo (s : Tri) (α β : ℚ) : P2 := s.a + (α * (s.b - s.a) + β * (s.c - s.a))

theorem gram_eq (s : Tri) :
    (s.b - s.a).dot (s.b - s.a) * (s.c - s.a).dot (s.c - s.a)
      - (s.b - s.a).dot (s.c - s.a) * (s.b - s.a).dot (s.c - s.a) = s.cross * s.cross := by
  simp only [P2.dot, Tri.cross, P2.sub_x, P2.sub_y]; ring

/-- the coded dot-product formula returns the barycentric coordinates of any point of the plane -/
theorem ab_combo (s : Tri) (h : s.cross ≠ 0) (α β : ℚ) : s.ab (s.combo α β) = (α, β) := by
  have hg := gram_eq s
  have hne : (s.b - s.a).dot (s.b - s.a) * (s.c - s.a).dot (s.c - s.a)
      - (s.b - s.a).dot (s.c - s.a) * (s.b - s.a).dot (s.c - s.a) ≠ 0 := by
    rw [hg]; exact mul_ne_zero h h
  unfold Tri.ab
  simp only
  rw [Prod.mk.injEq]
  constructor
  · rw [one_div, mul_inv_eq_iff_eq_mul₀ hne]
    simp only [P2.dot, Tri.combo, P2.sub_x, P2.sub_y, P2.add_x, P2.add_y, P2.smul_x, P2.smul_y]; ring
  · rw [one_div, mul_inv_eq_iff_eq_mul₀ hne]
    simp only [P2.dot, Tri.combo, P2.sub_x, P2.sub_y, P2.add_x, P2.add_y, P2.smul_x, P2.smul_y]; ring

/-- in the plane every point is the combination its coded coordinates describe -/
theorem combo_ab (s : Tri) (h : s.cross ≠ 0) (p : P2) : s.combo (s.ab p).1 (s.ab p).2 = p := by
  have hc : s.cross * s.cross ≠ 0 := mul_ne_zero h h
  have hg := gram_eq s
  unfold Tri.ab
  simp only [hg]
  apply P2.ext'
  · simp only [P2.dot, Tri.combo, P2.sub_x, P2.sub_y, P2.add_x, P2.add_y, P2.smul_x, P2.smul_y]
    field_simp
    simp only [Tri.cross]; ring
  · simp only [P2.dot, Tri.combo, P2.sub_x, P2.sub_y, P2.add_x, P2.add_y, P2.smul_x, P2.smul_y]
    field_simp
    simp only [Tri.cross]; ring

theorem piece_eq (s t : Tri) (p : P2) : piece s t p = t.combo (s.ab p).1 (s.ab p).2 := rfl

/-- the image keeps its barycentric coordinates -/
theorem ab_piece (s t : Tri) (ht : t.cross ≠ 0) (p : P2) : t.ab (piece s t p) = s.ab p := by
  rw [piece_eq, ab_combo t ht]

theorem contains_piece (s t : Tri) (ht : t.cross ≠ 0) (p : P2) :
    t.contains (piece s t p) = s.contains p := by
  unfold Tri.contains; rw [ab_piece s t ht]

/-- each affine piece is undone by the piece of the exchanged triangle pair -/
theorem piece_piece (s t : Tri) (hs : s.cross ≠ 0) (ht : t.cross ≠ 0) (p : P2) :
    piece t s (piece s t p) = p := by
  rw [piece_eq t s, ab_piece s t ht, combo_ab s hs]


/-! ### lookup -/

theorem lookup_some {m : PWA} {p : P2} {q : Tri × Tri} (h : m.lookup p = some q) :
    q ∈ m ∧ q.1.contains p = true := by
  have := List.mem_of_getLast? h
  simpa [List.mem_filter] using this

theorem lookup_exists {m : PWA} {p : P2} {q : Tri × Tri} (hq : q ∈ m) (hc : q.1.contains p = true) :
    ∃ q', m.lookup p = some q' := by
  unfold PWA.lookup
  cases h : (m.filter fun q => q.1.contains p).getLast? with
  | some q' => exact ⟨q', rfl⟩
  | none =>
    rw [List.getLast?_eq_none_iff] at h
    have : q ∈ m.filter fun q => q.1.contains p := by simp [List.mem_filter, hq, hc]
    rw [h] at this; cases this

theorem mem_pinv {m : PWA} {q : Tri × Tri} : q ∈ m.pinv ↔ (q.2, q.1) ∈ m := by
  unfold PWA.pinv
  constructor
  · intro h
    obtain ⟨r, hr, e⟩ := List.mem_map.mp h
    subst e; simpa using hr
  · intro h
    exact List.mem_map.mpr ⟨(q.2, q.1), h, rfl⟩

theorem pinv_pinv (m : PWA) : m.pinv.pinv = m := by
  unfold PWA.pinv; simp [List.map_map, Function.comp_def]

theorem mem_idxList {n : ℕ} (i : Idx n) : i ∈ idxList n := by
  unfold idxList
  cases i with
  | inl k => simp [List.mem_finRange]
  | inr a => simp [List.mem_finRange]

/-- the checked solve only ever returns solutions -/
theorem solve_sound {n : ℕ} {M : Idx n → Idx n → ℚ} {Y C : Idx n → P2} (h : solve M Y = some C) (i : Idx n) :
    sumIdx (fun j => M i j * (C j).x) = (Y i).x ∧ sumIdx (fun j => M i j * (C j).y) = (Y i).y := by
  unfold solve at h
  simp only at h
  split at h
  · rename_i hall
    have hC := Option.some.inj h
    rw [List.all_eq_true] at hall
    have := hall i (mem_idxList i)
    simp only [Bool.and_eq_true, decide_eq_true_eq] at this
    rw [← hC]; exact this
  · cases h

theorem d2_comm (a b : P2) : d2 a b = d2 b a := by unfold d2; ring

theorem kern_comm (φ : ℚ → ℚ) (a b : P2) : kern φ a b = kern φ b a := by
  unfold kern; rw [d2_comm]

/-- with the kernel centred on the source points the system matrix is symmetric -/
theorem sysL_symm {n : ℕ} (φ : ℚ → ℚ) (src : Fin n → P2) (i j : Idx n) :
    sysL φ src src i j = sysL φ src src j i := by
  cases i <;> cases j <;> simp [sysL, kern_comm]

end MenpoModel.C04
