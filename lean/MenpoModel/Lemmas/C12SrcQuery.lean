/-
C12 — `_mahalanobis_distance` as coded (`Core/C12Src.lean`: `mahalanobisCoreCoded`, proved equal to the translation of
the source text) against the model's two branches (`mahalSparse`, `mahalDense` of `Core/C12GMRF.lean`), to which the
Mahalanobis theorems of `Props/C12.lean` apply.
-/
import MenpoModel.Lemmas.C12SrcInit

set_option linter.unusedSimpArgs false
set_option linter.unusedVariables false

namespace MenpoModel.C12.Src
open MenpoModel.C12 MenpoModel.Py

/-- what the routine returns for the distances `d`: a number for one sample, the array otherwise -/
def outOf (d : List Rat) : MahalOut := if d.length == 1 then .scalar (d.getD 0 0) else .vec d

theorem ent_replicate (mu : List Rat) (mm i j : Nat) (hi : i < mm) : ent (List.replicate mm mu) i j = mu.getD j 0 := by
  unfold ent
  simp [List.getD_eq_getElem?_getD, hi]

/-- `samples - np.tile(mean_vector[..., None], n_samples).T` is the model's `subMean` -/
theorem sub_tile_eq_subMean (S : Mat) (mu : List Rat) (mm n : Nat) (hm : 0 < mm) (hS : IsTab mm n S) :
    S - tileRows mu S.length = subMean S mu n := by
  show tab S.length (rowLen S) (fun i j => ent S i j - ent (tileRows mu S.length) i j) = _
  rw [hS.length, hS.rowLen hm]
  unfold tileRows subMean
  have hS' : S = (List.range mm).map fun a => S.getD a [] := by
    have := map_getD_range S []
    rw [hS.length] at this
    exact this.symm
  conv_rhs => rw [hS', List.map_map]
  unfold tab
  apply List.map_congr_left
  intro a ha
  apply List.map_congr_left
  intro b hb
  show ent S a b - ent (List.replicate mm mu) a b = _
  rw [ent_replicate mu mm a b (List.mem_range.1 ha)]
  rfl

theorem isTab_subMean (S : Mat) (mu : List Rat) (mm n : Nat) (hm : 0 < mm) (hS : IsTab mm n S) :
    IsTab mm n (subMean S mu n) := by
  rw [← sub_tile_eq_subMean S mu mm n hm hS]
  show IsTab mm n (tab S.length (rowLen S) _)
  rw [hS.length, hS.rowLen hm]
  exact isTab_tab _ _ _

/-- **sparse branch**: `np.diag(samples.dot(precision.dot(samples.T)))` is the model's `mahalSparse` -/
theorem sparse_branch_eq (P : Storage) (s : Mat) (mm n : Nat) (hm : 0 < mm) (hn : 0 < n) (hs : IsTab mm n s)
    (hP : P.n = n) :
    diagOf (pyDot s (pyDot P (transposeM s) : Mat) : Mat) = mahalSparse n P.ent s := by
  have hT : transposeM s = tab n mm fun i j => ent s j i := by
    unfold transposeM
    rw [hs.length, hs.rowLen hm]
  have htmp : (pyDot P (transposeM s) : Mat) = tab n mm fun I i' => sumTo n fun J => P.ent I J * ent s i' J := by
    show tab P.n (rowLen (transposeM s)) (fun I c => sumTo P.n fun J => P.ent I J * ent (transposeM s) J c) = _
    rw [hP, hT, rowLen_tab _ _ _ hn]
    apply tab_congr
    intro I c _ hc
    apply sumTo_congr
    intro J hJ
    rw [ent_tab, if_pos ⟨hJ, hc⟩]
  rw [htmp]
  show diagOf (matDot s _) = _
  unfold matDot mahalSparse diagOf
  simp only [tab_length]
  rw [hs.length, rowLen_tab _ _ _ hn, rowLen_tab _ _ _ hm, Nat.min_self]

/-- **dense branch**: `np.einsum('ij,ij->i', np.dot(samples, precision), samples)` is the model's `mahalDense` -/
theorem dense_branch_eq (P : Storage) (s : Mat) (mm n : Nat) (hm : 0 < mm) (hs : IsTab mm n s) (hP : P.n = n) :
    rowDots (pyDot s P : Mat) s = mahalDense n P.ent s := by
  show rowDots (tab s.length P.n fun i J => sumTo P.n fun I => ent s i I * P.ent I J) s = _
  unfold rowDots mahalDense
  simp only [tab_length]
  rw [hP, hs.length, rowLen_tab _ _ _ hm]

/-- **`_mahalanobis_distance` is the model's two branches**: mean subtraction = `subMean`, sparse storage =
`mahalSparse`, dense storage = `mahalDense`, and a single sample comes back as a number -/
theorem mahalanobisCore_eq (sqrt : Rat → Rat) (M : VecModel) (S : Mat) (sm : Bool) (mm n : Nat) (hm : 0 < mm) (hn : 0 < n)
    (hS : IsTab mm n S) (hP : M.precision.n = n) :
    mahalanobisCoreCoded sqrt M S sm false =
      outOf (if M.sparse then mahalSparse n M.precision.ent (if sm then subMean S M.mean_vector n else S)
        else mahalDense n M.precision.ent (if sm then subMean S M.mean_vector n else S)) := by
  unfold mahalanobisCoreCoded
  simp only [Bool.false_eq_true, if_false]
  have hs' : (if sm = true then S - tileRows M.mean_vector S.length else S) =
      (if sm = true then subMean S M.mean_vector n else S) := by
    cases sm
    · rfl
    · simp only [if_true]; exact sub_tile_eq_subMean S _ mm n hm hS
  rw [hs']
  have hst : IsTab mm n (if sm = true then subMean S M.mean_vector n else S) := by
    cases sm
    · exact hS
    · simp only [if_true]; exact isTab_subMean S _ mm n hm hS
  generalize (if sm = true then subMean S M.mean_vector n else S) = s at hst ⊢
  cases hsp : M.sparse with
  | true =>
    simp only [if_true]
    rw [sparse_branch_eq M.precision s mm n hm hn hst hP]
    rfl
  | false =>
    simp only [Bool.false_eq_true, if_false]
    rw [dense_branch_eq M.precision s mm n hm hst hP]
    rfl

/-! ### list input and the object level -/

/-- **a list of samples with `n_samples = n`** is the array of its first `n` rows (what `_data_to_matrix` does with
`np.array(data)[:n_samples]`): the constructor theorems for array input apply to `L.take n` -/
theorem vecInit_list (cinv : Arr → Option Nat → Except PyErr Mat) (argsort : List Nat → List Nat) (L : Mat) (n : Nat)
    (g : GraphS) (mode : ModeS) (nc : Option Nat) (dtype : DType) (sparse bias incremental : Bool) :
    vecInitCoded cinv argsort (.listRows L) g (some n) mode nc dtype sparse bias incremental =
      vecInitCoded cinv argsort (.arr2 (L.take n)) g (some n) mode nc dtype sparse bias incremental := rfl

/-- a list of samples without `n_samples` is the array of all its rows, with `n_samples = len(samples)` -/
theorem vecInit_list_all (cinv : Arr → Option Nat → Except PyErr Mat) (argsort : List Nat → List Nat) (L : Mat)
    (g : GraphS) (mode : ModeS) (nc : Option Nat) (dtype : DType) (sparse bias incremental : Bool) :
    vecInitCoded cinv argsort (.listRows L) g none mode nc dtype sparse bias incremental =
      vecInitCoded cinv argsort (.arr2 L) g none mode nc dtype sparse bias incremental := by
  have h : dataToMatrixCoded (.listRows L) none = dataToMatrixCoded (.arr2 L) none := by
    show (PyData.arr2 (L.take L.length), some L.length) = (PyData.arr2 L, some L.length)
    rw [List.take_length]
  unfold vecInitCoded
  rw [h]

theorem range_succ_mul (r c : Nat) : List.range ((r + 1) * c) = List.range (r * c) ++ List.range' (r * c) c := by
  rw [Nat.succ_mul, List.range_eq_range', List.range_eq_range', ← List.range'_append_1]
  simp

/-- row-major flattening of an `r × c` table -/
theorem flatten_tab (r c : Nat) (hc : 0 < c) (f : Nat → Nat → Rat) :
    (tab r c f).flatten = (List.range (r * c)).map fun I => f (I / c) (I % c) := by
  induction r with
  | zero => simp [tab]
  | succ r ih =>
    have ht : tab (r + 1) c f = tab r c f ++ [(List.range c).map (f r)] := by
      unfold tab
      rw [List.range_succ, List.map_append]
      rfl
    rw [ht, List.flatten_append, ih, range_succ_mul, List.map_append]
    congr 1
    simp only [List.flatten_cons, List.flatten_nil, List.append_nil]
    rw [List.range_eq_range' (n := c)]
    apply List.ext_getElem
    · simp
    · intro i h1 h2
      simp only [List.length_map, List.length_range'] at h1
      simp only [List.getElem_map, List.getElem_range']
      have e1 : (r * c + 1 * i) / c = r := by
        rw [Nat.one_mul, Nat.mul_comm, Nat.mul_add_div hc, Nat.div_eq_of_lt h1]; simp
      have e2 : (r * c + 1 * i) % c = i := by
        rw [Nat.one_mul, Nat.mul_comm, Nat.mul_add_mod, Nat.mod_eq_of_lt h1]
      rw [e1, e2]
      simp

/-- `as_vector()` as the translation has it (row-major flattening) is the model's `asVector` on `V × k` point sets -/
theorem objVec_eq_asVector (V k : Nat) (hk : 0 < k) (p : Mat) (hp : IsTab V k p) : objVec p = asVector V k p := by
  unfold objVec asVector
  conv_lhs => rw [hp]
  exact flatten_tab V k hk (ent p)

/-- **`GMRFModel.__init__` as translated is the model's `buildObj` layer**: on `V × k` samples, `as_matrix` gives the
model's `asMatrix`, and the vector constructor is then called on it with `n_samples = len(samples)` -/
theorem objInit_eq_vecInit_asMatrix (cinv : Arr → Option Nat → Except PyErr Mat) (argsort : List Nat → List Nat) (V k : Nat)
    (hk : 0 < k) (t : Mat) (samples : List Mat) (hs : ∀ p ∈ t :: samples, IsTab V k p) (graph : GraphS) (mode : ModeS)
    (nc : Option Nat) (dtype : DType) (sparse bias incremental : Bool) :
    objInitCoded cinv argsort (t :: samples) graph mode nc dtype sparse none bias incremental =
      (vecInitCoded cinv argsort (.arr2 (asMatrix V k (t :: samples))) graph (some (samples.length + 1)) mode nc dtype
        sparse bias incremental).map (fun M => (t, M)) := by
  have hm : (t :: samples).map objVec = asMatrix V k (t :: samples) := by
    unfold asMatrix
    apply List.map_congr_left
    intro p hp
    exact objVec_eq_asVector V k hk p (hs p hp)
  unfold objInitCoded asMatrixT
  simp only [PyData.len, List.length_map, List.length_cons]
  rw [hm]
  cases vecInitCoded cinv argsort (.arr2 (asMatrix V k (t :: samples))) graph (some (samples.length + 1)) mode nc dtype
    sparse bias incremental <;> rfl

/-! ### `incremental=True` -/

/-- a constructor called with `return_covariances=True` returns the matrix of the plain call plus covariances -/
theorem callCtor_rc (cinv : Arr → Option Nat → Except PyErr Mat) (argsort : List Nat → List Nat) (c : CtorS) (X : Mat)
    (g : GraphS) (n k : Nat) (dtype : DType) (nc : Option Nat) (bias : Bool) :
    ∃ covs, (callCtorCoded cinv argsort c true X g n k dtype nc bias).bind CtorOut.unpack =
      ((callCtorCoded cinv argsort c false X g n k dtype nc bias).bind CtorOut.asMatrix).map fun S => (S, some covs) := by
  cases c with
  | sparseDiag =>
    obtain ⟨covs, h⟩ := sparseDiagCodedRC_eq cinv argsort X g n k dtype nc bias
    refine ⟨covs, ?_⟩
    show (Except.map _ (sparseDiagCodedRC cinv argsort X g n k dtype nc bias)).bind CtorOut.unpack =
      Except.map _ ((Except.map _ (sparseDiagCoded cinv argsort X g n k dtype nc bias)).bind CtorOut.asMatrix)
    rw [h]
    cases sparseDiagCoded cinv argsort X g n k dtype nc bias <;> rfl
  | denseDiag =>
    obtain ⟨covs, h⟩ := denseDiagCodedRC_eq cinv X g n k dtype nc bias
    refine ⟨covs, ?_⟩
    show (Except.map _ (denseDiagCodedRC cinv X g n k dtype nc bias)).bind CtorOut.unpack =
      Except.map _ ((Except.map _ (denseDiagCoded cinv X g n k dtype nc bias)).bind CtorOut.asMatrix)
    rw [h]
    cases denseDiagCoded cinv X g n k dtype nc bias <;> rfl
  | sparseEdges m =>
    obtain ⟨covs, h⟩ := sparseCodedRC_eq cinv argsort X g n k m dtype nc bias
    refine ⟨covs, ?_⟩
    show (Except.map _ (sparseCodedRC cinv argsort X g n k m dtype nc bias)).bind CtorOut.unpack =
      Except.map _ ((Except.map _ (sparseCoded cinv argsort X g n k m dtype nc bias)).bind CtorOut.asMatrix)
    rw [h]
    cases sparseCoded cinv argsort X g n k m dtype nc bias <;> rfl
  | denseEdges m =>
    obtain ⟨covs, h⟩ := denseCodedRC_eq cinv X g n k m dtype nc bias
    refine ⟨covs, ?_⟩
    show (Except.map _ (denseCodedRC cinv X g n k m dtype nc bias)).bind CtorOut.unpack =
      Except.map _ ((Except.map _ (denseCoded cinv X g n k m dtype nc bias)).bind CtorOut.asMatrix)
    rw [h]
    cases denseCoded cinv X g n k m dtype nc bias <;> rfl

/-- **`incremental=True` changes nothing but the two attributes it is about**: the constructor raises the same error
or sets the same attributes — same precision, same mean — plus `is_incremental` and the stored covariances -/
theorem vecInit_incremental (cinv : Arr → Option Nat → Except PyErr Mat) (argsort : List Nat → List Nat)
    (samples : PyData) (g : GraphS) (ns : Option Nat) (mode : ModeS) (nc : Option Nat) (dtype : DType)
    (sparse bias : Bool) :
    ∃ covs, vecInitCoded cinv argsort samples g ns mode nc dtype sparse bias true =
      (vecInitCoded cinv argsort samples g ns mode nc dtype sparse bias false).map
        (fun M => { M with is_incremental := true, covariance_matrices := some covs }) := by
  unfold vecInitCoded
  simp only [if_true, Bool.false_eq_true, if_false]
  obtain ⟨covs, h⟩ := callCtor_rc cinv argsort (ctorSel g sparse mode) (dataToMatrixCoded samples ns).1.toMat g
    (dataToMatrixCoded samples ns).1.shape1 ((dataToMatrixCoded samples ns).1.shape1 / g.nVertices) dtype nc bias
  refine ⟨covs, ?_⟩
  rw [h]
  cases (callCtorCoded cinv argsort (ctorSel g sparse mode) false (dataToMatrixCoded samples ns).1.toMat g
    (dataToMatrixCoded samples ns).1.shape1 ((dataToMatrixCoded samples ns).1.shape1 / g.nVertices) dtype nc bias).bind
    CtorOut.asMatrix <;> rfl

end MenpoModel.C12.Src
