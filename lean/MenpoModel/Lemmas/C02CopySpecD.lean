/-
C02: the copy of a shape is a laid-out tree of fresh cells — deep version: every other attribute of every
object of the copy has the deep digest of the original's, and reaches only cells that existed before the call
or cells of its own object's interval outside the landmark trees.  Core Lean only.
-/
import MenpoModel.Lemmas.C02RepD
import MenpoModel.Lemmas.C02CopySpec

namespace MenpoModel.C02

/-! ### list plumbing -/

theorem digestSlots_append_some {rec : Val → Option (List Tok)} {a b : Slots} {t : List Tok} :
    digestSlots rec (a ++ b) = some t ↔
      ∃ ta tb, digestSlots rec a = some ta ∧ digestSlots rec b = some tb ∧ t = ta ++ tb := by
  rw [digestSlots_append]
  cases digestSlots rec a with
  | none => simp
  | some x =>
    cases digestSlots rec b with
    | none => simp
    | some y =>
      simp only [Option.some.injEq]
      constructor
      · intro e; exact ⟨x, y, rfl, rfl, e.symm⟩
      · rintro ⟨ta, tb, rfl, rfl, e⟩; exact e.symm

theorem lookup_split : ∀ {fs : Slots} {x : String} {w : Val}, fs.lookup x = some w →
    ∃ pre post, fs = pre ++ (x, w) :: post ∧ ∀ p, p ∈ pre → p.1 ≠ x
  | [], _, _, hl => by simp at hl
  | (z, u) :: t, x, w, hl => by
    simp only [List.lookup] at hl
    cases hxz : x == z with
    | true =>
      rw [hxz] at hl
      have : x = z := by simpa using hxz
      subst this
      injection hl with hl; subst hl
      exact ⟨[], t, rfl, fun p hp => by cases hp⟩
    | false =>
      rw [hxz] at hl
      obtain ⟨pre, post, rfl, hn⟩ := lookup_split hl
      refine ⟨(z, u) :: pre, post, rfl, fun p hp => ?_⟩
      rcases List.mem_cons.mp hp with rfl | hp
      · intro hzx; simp only at hzx; subst hzx; simp at hxz
      · exact hn p hp

theorem lookup_append_hit {pre post : Slots} {x : String} {w : Val} (hn : ∀ p, p ∈ pre → p.1 ≠ x) :
    (pre ++ (x, w) :: post).lookup x = some w := by
  induction pre with
  | nil => simp
  | cons q t ih =>
    obtain ⟨z, u⟩ := q
    have hzx : (x == z) = false := by
      have := hn (z, u) (List.mem_cons_self ..)
      simp only at this
      simp [Ne.symm this]
    simp only [List.cons_append, List.lookup, hzx]
    exact ih (fun p hp => hn p (List.mem_cons_of_mem _ hp))

theorem names_ne_of_map {pre preA : Slots} {x : String} (hm : preA.map Prod.fst = pre.map Prod.fst)
    (hn : ∀ p, p ∈ pre → p.1 ≠ x) : ∀ p, p ∈ preA → p.1 ≠ x := by
  intro p hp hpx
  have h1 : p.1 ∈ preA.map Prod.fst := List.mem_map.mpr ⟨p, hp, rfl⟩
  rw [hm] at h1
  obtain ⟨q, hq, hq1⟩ := List.mem_map.mp h1
  exact hn q hq (hq1.trans hpx)

/-- the generic phase, split at one attribute -/
theorem copySlots_split (rec : CopyFn) : ∀ (pre : Slots) {x : String} {w : Val} {post : Slots} {h h1 : Heap} {fs1 : Slots},
    copySlots rec h (pre ++ (x, w) :: post) = .ok (h1, fs1) →
    ∃ hA preA hB w1 postB, copySlots rec h pre = .ok (hA, preA) ∧
      (rec hA w = .ok (hB, w1) ∨ (rec hA w = .error .attr ∧ hB = hA ∧ w1 = w)) ∧
      copySlots rec hB post = .ok (h1, postB) ∧ fs1 = preA ++ (x, w1) :: postB
  | [], x, w, post, h, h1, fs1, e => by
    obtain ⟨hB, w1, t1, hstep, hc, rfl⟩ := copySlots_cons e
    exact ⟨h, [], hB, w1, t1, by simp [copySlots], hstep, hc, rfl⟩
  | (z, u) :: t, x, w, post, h, h1, fs1, e => by
    obtain ⟨hZ, u1, t1, hstep, hc, rfl⟩ := copySlots_cons e
    obtain ⟨hA, preA, hB, w1, postB, k1, k2, k3, rfl⟩ := copySlots_split rec t hc
    refine ⟨hA, (z, u1) :: preA, hB, w1, postB, ?_, k2, k3, rfl⟩
    simp only [copySlots]
    rcases hstep with hs | ⟨hs, rfl, rfl⟩
    · rw [hs]; simp only [k1]
    · rw [hs]; simp only [k1]

def qX (n : String) : Bool := n != "points" && n != "_landmarks"

theorem filterX_eq (fs : Slots) : filterX fs = fs.filter fun p => qX p.1 := rfl

theorem filterX_split (pre post : Slots) (w : Val) :
    filterX (pre ++ ("_landmarks", w) :: post) = filterX pre ++ filterX post := by
  simp only [filterX, List.filter_append, List.filter_cons]
  simp

theorem filter_setSlot_in (q : String → Bool) {x : String} (hq : q x = true) (w : Val) :
    ∀ (fs : Slots), (setSlot fs x w).filter (fun p => q p.1) = setSlot (fs.filter (fun p => q p.1)) x w
  | [] => rfl
  | (z, u) :: t => by
    simp only [setSlot]
    by_cases hz : z == x
    · have hzx : z = x := by simpa using hz
      subst hzx
      simp only [hz, if_true, List.filter_cons, hq, setSlot]
    · by_cases hqz : q z = true
      · simp only [hz, Bool.false_eq_true, if_false, List.filter_cons, hqz, if_true, setSlot,
          filter_setSlot_in q hq w t]
      · simp only [hz, Bool.false_eq_true, if_false, List.filter_cons, hqz, filter_setSlot_in q hq w t]

theorem lookup_filter_in (q : String → Bool) {x : String} (hq : q x = true) :
    ∀ (fs : Slots), (fs.filter (fun p => q p.1)).lookup x = fs.lookup x
  | [] => rfl
  | (z, u) :: t => by
    by_cases hqz : q z = true
    · simp only [List.filter_cons, hqz, if_true, List.lookup, lookup_filter_in q hq t]
    · have hxz : (x == z) = false := by
        cases hxz : x == z with
        | false => rfl
        | true =>
          have : x = z := by simpa using hxz
          subst this; exact absurd hq hqz
      simp only [List.filter_cons, hqz, Bool.false_eq_true, if_false, List.lookup, hxz,
        lookup_filter_in q hq t]

/-- the deepening step, seen from the attributes selected by `q` (which include the deepened one) -/
theorem deepen_slots (rec : CopyFn) (hx : RecExt rec) (hd : DeepRec rec) (q : String → Bool) {x : String}
    (hq : q x = true) {h1 h2 : Heap} {fs1 gs gs2 : Slots} {dd : Nat}
    (hl : fs1.lookup x = some (.ref dd)) (hdd : h1[dd]? = some (.dict gs))
    (hcv : copyValues rec h1 gs = .ok (h2, gs2)) {j : Nat} {ts : List Tok}
    (hs : digestSlots (digest j h1) (fs1.filter fun p => q p.1) = some ts) :
    digestSlots (digest j (h2 ++ [Cell.dict gs2])) ((setSlot fs1 x (.ref h2.length)).filter fun p => q p.1) = some ts ∧
    ∀ b, b ∈ readsSlots (reads j (h2 ++ [Cell.dict gs2])) ((setSlot fs1 x (.ref h2.length)).filter fun p => q p.1) →
      b ∈ readsSlots (reads j h1) (fs1.filter fun p => q p.1) ∨ h1.length ≤ b := by
  have e12 : Ext h1 h2 := copyValues_ext rec hx _ _ _ _ hcv
  have hlf : (fs1.filter fun p => q p.1).lookup x = some (.ref dd) := by rw [lookup_filter_in q hq]; exact hl
  obtain ⟨td, htd⟩ := digestSlots_some_mem hs (x, .ref dd) (mem_of_lookup hlf)
  simp only at htd
  cases j with
  | zero => cases htd
  | succ j' =>
    have htd' := htd
    simp only [digest, hdd] at htd'
    obtain ⟨tds, htds, rfl⟩ := wrapTok_some htd'
    obtain ⟨cv1, cv2⟩ := copyValues_deep rec hx hd gs h1 h2 gs2 hcv j' tds htds
    obtain ⟨nd1, nd2⟩ := digest_new_dict (hh := h2) cv1
    have eD : Ext h1 (h2 ++ [Cell.dict gs2]) := e12.trans (Ext.append _ _)
    obtain ⟨od1, _⟩ := digest_ext eD htd
    obtain ⟨sl1, sl2⟩ := digestSlots_ext eD hs
    rw [filter_setSlot_in q hq]
    refine ⟨by rw [digestSlots_setSlot _ hlf (nd1.trans od1.symm)]; exact sl1, fun b hb => ?_⟩
    rcases mem_readsSlots_setSlot _ hb with k | k
    · rcases nd2 b k with rfl | k
      · exact .inr e12.len
      · rcases cv2 b k with k | k
        · left
          refine mem_readsSlots.mpr ⟨(x, .ref dd), mem_of_lookup hlf, ?_⟩
          simp only [reads, hdd]
          exact List.mem_cons_of_mem _ k
        · exact .inr k
    · rw [sl2] at k; exact .inl k

/-! ### the specification of `copy` on shapes, deep -/

def CopySpecD (rec : CopyFn) : Prop :=
  ∀ (base : Nat) (s : Shape) (h : Heap) (v : Val), base ≤ h.length → RepD base h s v →
    match rec h v with
    | .ok (h1, v1) => Ext h h1 ∧ RepInD base h1 s h.length h1.length v1
    | .error e => e ≠ .attr

theorem copyValues_groupsD (rec : CopyFn) (hrec : CopySpecD rec) (base : Nat) :
    ∀ (gs : Groups) (gvs : Slots) (h : Heap), base ≤ h.length → RepGD base h gs gvs →
      match copyValues rec h gvs with
      | .ok (h2, gvs2) => Ext h h2 ∧ RepGInD base h2 gs h.length h2.length gvs2
      | .error e => e ≠ .attr
  | .nil, gvs, h, _, r => by
    unfold RepGD at r; subst r
    simp only [copyValues]
    refine ⟨Ext.refl _, ?_⟩
    unfold RepGInD; exact ⟨rfl, Nat.le_refl _⟩
  | .cons n g rest, gvs, h, hb, r => by
    unfold RepGD at r
    obtain ⟨v, t, rfl, r1, r2⟩ := r
    simp only [copyValues]
    have hs := hrec base g h v hb r1
    cases hr : rec h v with
    | error e => rw [hr] at hs; simpa using hs
    | ok p =>
      obtain ⟨h1, v1⟩ := p
      rw [hr] at hs
      obtain ⟨e1, q1⟩ := hs
      simp only
      have ht := copyValues_groupsD rec hrec base rest t h1 (Nat.le_trans hb e1.len) (RepGD.ext e1 rest t r2)
      cases hc : copyValues rec h1 t with
      | error e => rw [hc] at ht; simpa using ht
      | ok p2 =>
        obtain ⟨h2, t2⟩ := p2
        rw [hc] at ht
        obtain ⟨e2, q2⟩ := ht
        simp only
        refine ⟨e1.trans e2, ?_⟩
        unfold RepGInD
        exact ⟨v1, t2, h1.length, rfl, RepInD.ext e2 g _ _ v1 q1, q2⟩

/-- `LandmarkManager.copy` on a manager whose groups are shapes -/
theorem copy_lm_specD (n : Nat) (hlow : ∀ j, j < n → CopySpecD (copy expectedDispatch j)) {base : Nat}
    {hA : Heap} {l g : Nat} {ls gvs : Slots} {gs : Groups} (hb : base ≤ hA.length)
    (q2 : hA[l]? = some (.obj .LandmarkManager ls)) (q3 : ls.lookup "_landmark_groups" = some (.ref g))
    (q4 : hA[g]? = some (.dict gvs)) (q5 : RepGD base hA gs gvs) :
    match copy expectedDispatch n hA (.ref l) with
    | .ok (hB, w1) => Ext hA hB ∧ ∃ l1 ls1 g1 gvs1 m0 m, w1 = .ref l1 ∧
        hB[l1]? = some (.obj .LandmarkManager ls1) ∧ ls1.lookup "_landmark_groups" = some (.ref g1) ∧
        hB[g1]? = some (.dict gvs1) ∧ hA.length ≤ m0 ∧ m0 ≤ m ∧ m ≤ hB.length ∧ hA.length ≤ l1 ∧
        RepGInD base hB gs m0 m gvs1
    | .error e => e ≠ .attr := by
  cases n with
  | zero => simp [copy]
  | succ n =>
    simp only [copy, q2, supCopy_lm]
    cases hc : copySlots (copy expectedDispatch n) hA ls with
    | error e => simp only; intro he; subst he; exact copySlots_no_attr _ _ _ hc
    | ok p =>
      obtain ⟨hC, ls1⟩ := p
      simp only
      have eAC : Ext hA hC := copySlots_ext _ (copy_ext _ n) _ _ _ _ hc
      obtain ⟨hx, hy, w1, k1, k2, k3, k4⟩ := copySlots_lookup _ (copy_ext _ n) _ _ _ _ hc _ _ q3
      have hxg : hx[g]? = some (.dict gvs) := k2.get q4
      have hfacts : w1 = .ref hx.length ∧ hy = hx ++ [Cell.dict gvs] := by
        rcases copy_dict_cases expectedDispatch n hxg with hf | hok
        · rw [hf] at k4; rcases k4 with k4 | ⟨k4, _⟩ <;> cases k4
        · rw [hok] at k4
          rcases k4 with k4 | ⟨k4, _⟩
          · simp only [Except.ok.injEq, Prod.mk.injEq] at k4; exact ⟨k4.2.symm, k4.1.symm⟩
          · cases k4
      obtain ⟨rfl, rfl⟩ := hfacts
      have hCd : hC[hx.length]? = some (.dict gvs) := k3.get (get_last _ _)
      unfold deepen
      simp only [k1, hCd]
      have hg := copyValues_groupsD _ (hlow n (Nat.lt_succ_self _)) base gs gvs hC (Nat.le_trans hb eAC.len)
        (RepGD.ext eAC gs gvs q5)
      cases hv : copyValues (copy expectedDispatch n) hC gvs with
      | error e => rw [hv] at hg; simpa using hg
      | ok p2 =>
        obtain ⟨h2, gvs2⟩ := p2
        rw [hv] at hg
        obtain ⟨e2, r2⟩ := hg
        simp only
        have eB : Ext h2 (h2 ++ [Cell.dict gvs2] ++
            [Cell.obj .LandmarkManager (setSlot ls1 "_landmark_groups" (.ref h2.length))]) :=
          (Ext.append _ _).trans (Ext.append _ _)
        refine ⟨eAC.trans (e2.trans eB), h2.length + 1, _, h2.length, gvs2, hC.length, h2.length, rfl, ?_,
          lookup_setSlot_self ls1 _ k1, ?_, eAC.len, e2.len, ?_, ?_, RepGInD.ext eB gs _ _ gvs2 r2⟩
        · have : (h2 ++ [Cell.dict gvs2]).length = h2.length + 1 := by simp
          rw [← this]; exact get_last _ _
        · rw [List.append_assoc]; simp
        · simp
        · have := eAC.len; have := e2.len; omega

/-- the generic phase on the attributes of a shape object -/
theorem root_slotsD (n : Nat) (hlow : ∀ j, j < n → CopySpecD (copy expectedDispatch j)) {base : Nat}
    {h h1 : Heap} {fs fs1 : Slots} {c : SCls} {x : Arr} {gs : Groups} {ex : Extra} {p : Nat}
    (hb : base ≤ h.length)
    (hc : copySlots (copy expectedDispatch n) h fs = .ok (h1, fs1))
    (hp : fs.lookup "points" = some (.ref p)) (hpx : h[p]? = some (.arr x))
    (hx : DeepX h fs ex (fun b => b < base)) (hlab : LabelOK h c fs)
    (hg : (fs.lookup "_landmarks" = some (.imm 0) ∧ gs = .nil) ∨
       (∃ l ls g gvs, fs.lookup "_landmarks" = some (.ref l) ∧ h[l]? = some (.obj .LandmarkManager ls) ∧
          ls.lookup "_landmark_groups" = some (.ref g) ∧ h[g]? = some (.dict gvs) ∧ RepGD base h gs gvs)) :
    Ext h h1 ∧ (∃ p1, fs1.lookup "points" = some (.ref p1) ∧ h1[p1]? = some (.arr x)) ∧
    (c = .LabelledPointUndirectedGraph → ∃ m1 ms, fs1.lookup "_labels_to_masks" = some (.ref m1) ∧
        h1[m1]? = some (.dict ms) ∧ ∀ q, q ∈ ms → ∃ b dd, q.2 = .ref b ∧ h1[b]? = some (.arr dd)) ∧
    ∃ m0 m, h.length ≤ m0 ∧ m0 ≤ m ∧ m ≤ h1.length ∧ LmInD base h1 fs1 gs m0 m ∧
      DeepX h1 fs1 ex (fun b => b < base ∨ (h.length ≤ b ∧ b < m0) ∨ (m ≤ b ∧ b < h1.length)) := by
  have rx : RecExt (copy expectedDispatch n) := copy_ext _ n
  have rd : DeepRec (copy expectedDispatch n) := copy_deep _ n
  have e1 : Ext h h1 := copySlots_ext _ rx _ _ _ _ hc
  refine ⟨e1, slot_arr hc hp hpx, ?_, ?_⟩
  · intro hcl
    obtain ⟨m, ms, k1, k2, k3⟩ := hlab hcl
    obtain ⟨m1, j1, j2⟩ := slot_dict hc k1 k2
    exact ⟨m1, ms, j1, j2, fun q hq => by obtain ⟨b, dd, i1, i2⟩ := k3 q hq; exact ⟨b, dd, i1, e1.get i2⟩⟩
  · -- split the attribute list at `_landmarks`
    have hlm : ∃ lmv, fs.lookup "_landmarks" = some lmv := by
      rcases hg with ⟨hl, _⟩ | ⟨l, _, _, _, hl, _⟩
      · exact ⟨_, hl⟩
      · exact ⟨_, hl⟩
    obtain ⟨lmv, hlmv⟩ := hlm
    obtain ⟨pre, post, rfl, hpre⟩ := lookup_split hlmv
    obtain ⟨hA, preA, hB, w1, postB, cpre, cstep, cpost, rfl⟩ := copySlots_split _ pre hc
    have ehA : Ext h hA := copySlots_ext _ rx _ _ _ _ cpre
    have eB1 : Ext hB h1 := copySlots_ext _ rx _ _ _ _ cpost
    have eAB : Ext hA hB := by
      rcases cstep with hs | ⟨_, rfl, _⟩
      · exact rx _ _ _ _ hs
      · exact Ext.refl _
    have hpreA : ∀ q, q ∈ preA → q.1 ≠ "_landmarks" := names_ne_of_map (copySlots_names _ _ _ _ _ cpre) hpre
    have hl1 : (preA ++ ("_landmarks", w1) :: postB).lookup "_landmarks" = some w1 := lookup_append_hit hpreA
    -- the other attributes: before and after the pivot
    obtain ⟨j, hdig, hrd⟩ := hx
    rw [filterX_split] at hdig hrd
    obtain ⟨ta, tb, da, db, hab⟩ := digestSlots_append_some.mp hdig
    rw [readsSlots_append] at hrd
    obtain ⟨pa1, pa2⟩ := copySlots_deep _ rx rd qX pre h hA preA cpre j ta (by rw [← filterX_eq]; exact da)
    simp only [← filterX_eq] at pa1 pa2
    obtain ⟨pa3, pa4⟩ := digestSlots_ext (eAB.trans eB1) pa1
    obtain ⟨db', rb'⟩ := digestSlots_ext (ehA.trans eAB) db
    obtain ⟨pb1, pb2⟩ := copySlots_deep _ rx rd qX post hB h1 postB cpost j tb (by rw [← filterX_eq]; exact db')
    simp only [← filterX_eq] at pb1 pb2
    have deepFinal : ∀ m0 m, hA.length ≤ m0 → m ≤ hB.length →
        DeepX h1 (preA ++ ("_landmarks", w1) :: postB) ex
          (fun b => b < base ∨ (h.length ≤ b ∧ b < m0) ∨ (m ≤ b ∧ b < h1.length)) := by
      intro m0 m hm0 hm
      refine ⟨j, ?_, fun b hb' => ?_⟩
      · rw [filterX_split]
        exact digestSlots_append_some.mpr ⟨ta, tb, pa3, pb1, hab⟩
      · rw [filterX_split, readsSlots_append] at hb'
        rcases List.mem_append.mp hb' with k | k
        · rw [pa4] at k
          have hlt := digestSlots_reads_lt pa1 b k
          rcases pa2 b k with k2 | k2
          · exact .inl (hrd b (List.mem_append.mpr (.inl k2)))
          · exact .inr (.inl ⟨k2, by omega⟩)
        · have hlt := digestSlots_reads_lt pb1 b k
          rcases pb2 b k with k2 | k2
          · rw [rb'] at k2; exact .inl (hrd b (List.mem_append.mpr (.inr k2)))
          · exact .inr (.inr ⟨by omega, hlt⟩)
    rcases hg with ⟨hl, rfl⟩ | ⟨l, ls, g, gvs, q1, q2, q3, q4, q5⟩
    · -- no landmarks: `None` is shared
      rw [hlmv] at hl; injection hl with hl; subst hl
      have hsh : hB = hA ∧ w1 = .imm 0 := by
        rcases cstep with hs | ⟨_, k1, k2⟩
        · rcases copy_imm_cases expectedDispatch n hA 0 with hf | hf <;> (rw [hf] at hs; cases hs)
        · exact ⟨k1, k2⟩
      obtain ⟨rfl, rfl⟩ := hsh
      exact ⟨hB.length, hB.length, ehA.len, Nat.le_refl _, eB1.len, .inl ⟨hl1, rfl⟩,
        deepFinal _ _ (Nat.le_refl _) (Nat.le_refl _)⟩
    · rw [hlmv] at q1; injection q1 with q1; subst q1
      have hs := copy_lm_specD n hlow (Nat.le_trans hb ehA.len) (ehA.get q2) q3 (ehA.get q4) (RepGD.ext ehA gs gvs q5)
      rcases cstep with hstep | ⟨hstep, _, _⟩
      · rw [hstep] at hs
        obtain ⟨_, l1, ls1, g1, gvs1, m0, m, rfl, j1, j2, j3, j4, j5, j6, _, j7⟩ := hs
        exact ⟨m0, m, Nat.le_trans ehA.len j4, j5, Nat.le_trans j6 eB1.len,
          .inr ⟨l1, ls1, g1, gvs1, hl1, eB1.get j1, j2, eB1.get j3, RepGInD.ext eB1 gs _ _ gvs1 j7⟩,
          deepFinal m0 m j4 j6⟩
      · rw [hstep] at hs; exact absurd rfl hs

/-- `copy` of a shape, for every amount of fuel -/
theorem copy_specD : ∀ k, CopySpecD (copy expectedDispatch k) := by
  intro k
  induction k using Nat.strongRecOn with
  | _ k ih =>
    intro base s h v hb r
    cases k with
    | zero => simp [copy]
    | succ n =>
      cases s with
      | mk c x gs ex =>
        unfold RepD at r
        obtain ⟨a, fs, p, rfl, ha, hp, hpx, hx, hlab, hg⟩ := r
        by_cases hcl : c = .LabelledPointUndirectedGraph
        · subst hcl
          simp only [copy, ha, supCopy_lab]
          cases hc : copySlots (copy expectedDispatch n) h fs with
          | error e => simp only; intro he; subst he; exact copySlots_no_attr _ _ _ hc
          | ok pr =>
            obtain ⟨h1, fs1⟩ := pr
            simp only
            obtain ⟨e1, ⟨p1, t1, t2⟩, tl, m0, m, b1, b2, b3, tlm, tdx⟩ :=
              root_slotsD n (fun j hj => ih j (Nat.lt_succ_of_lt hj)) hb hc hp hpx hx hlab hg
            obtain ⟨m1, ms, u1, u2, u3⟩ := tl rfl
            unfold deepen
            simp only [u1, u2]
            have hm := copyValues_masks expectedDispatch n ms h1 u3
            cases hv : copyValues (copy expectedDispatch n) h1 ms with
            | error e => rw [hv] at hm; simpa using hm
            | ok p2 =>
              obtain ⟨h2, ms2⟩ := p2
              rw [hv] at hm
              obtain ⟨e2, w2⟩ := hm
              simp only
              have eD : Ext h2 (h2 ++ [Cell.dict ms2]) := Ext.append _ _
              have eB : Ext h2 (h2 ++ [Cell.dict ms2] ++ [Cell.obj (.shape .LabelledPointUndirectedGraph)
                  (setSlot fs1 "_labels_to_masks" (.ref h2.length))]) :=
                (Ext.append _ _).trans (Ext.append _ _)
              have eDB : Ext (h2 ++ [Cell.dict ms2]) (h2 ++ [Cell.dict ms2] ++
                  [Cell.obj (.shape .LabelledPointUndirectedGraph)
                    (setSlot fs1 "_labels_to_masks" (.ref h2.length))]) := Ext.append _ _
              have e12 : Ext h1 _ := e2.trans eB
              refine ⟨e1.trans e12, ?_⟩
              rw [repInD_iff]
              refine ⟨h2.length + 1, setSlot fs1 "_labels_to_masks" (.ref h2.length), p1, m0, m, rfl, b1, b2,
                ?_, ?_, ?_,
                by rw [lookup_setSlot_ne fs1 _ (show "points" ≠ "_labels_to_masks" by decide)]; exact t1,
                e12.get t2, ?_, ?_, ?_⟩
              · have := e2.len; omega
              · simp
              · rw [List.append_assoc]; simp
              · -- the other attributes of the new object
                obtain ⟨j, dj, rj⟩ := tdx
                rw [filterX_eq] at dj rj
                obtain ⟨s1, s2⟩ := deepen_slots _ (copy_ext _ n) (copy_deep _ n) qX (x := "_labels_to_masks")
                  (by decide) u1 u2 hv dj
                obtain ⟨s3, s4⟩ := digestSlots_ext eDB s1
                refine ⟨j, by rw [filterX_eq]; exact s3, fun b hb' => ?_⟩
                rw [filterX_eq, s4] at hb'
                have hlt := digestSlots_reads_lt s1 b hb'
                have hlen : (h2 ++ [Cell.dict ms2]).length = h2.length + 1 := by simp
                rcases s2 b hb' with k | k
                · have z := rj b k
                  simp only at z
                  unfold Zone
                  have := e2.len
                  omega
                · unfold Zone; omega
              · intro _
                refine ⟨h2.length, ms2, lookup_setSlot_self fs1 _ u1, ?_, fun q hq => ?_⟩
                · have : (h2 ++ [Cell.dict ms2])[h2.length]? = some (Cell.dict ms2) := get_last _ _
                  exact (Ext.append _ _).get this
                · obtain ⟨b, dd, i1, i2⟩ := w2 q hq; exact ⟨b, dd, i1, eB.get i2⟩
              · rcases tlm with ⟨i1, i2⟩ | ⟨l1, ls1, g1, gvs1, i1, i2, i3, i4, i5⟩
                · exact .inl ⟨by
                    rw [lookup_setSlot_ne fs1 _ (show "_landmarks" ≠ "_labels_to_masks" by decide)]; exact i1, i2⟩
                · exact .inr ⟨l1, ls1, g1, gvs1, by
                    rw [lookup_setSlot_ne fs1 _ (show "_landmarks" ≠ "_labels_to_masks" by decide)]; exact i1,
                    e12.get i2, i3, e12.get i4, RepGInD.ext e12 gs _ _ gvs1 i5⟩
        · simp only [copy, ha, supCopy_nonlab hcl]
          cases hc : copySlots (copy expectedDispatch n) h fs with
          | error e => simp only; intro he; subst he; exact copySlots_no_attr _ _ _ hc
          | ok pr =>
            obtain ⟨h1, fs1⟩ := pr
            simp only
            obtain ⟨e1, ⟨p1, t1, t2⟩, _, m0, m, b1, b2, b3, tlm, tdx⟩ :=
              root_slotsD n (fun j hj => ih j (Nat.lt_succ_of_lt hj)) hb hc hp hpx hx hlab hg
            have eB : Ext h1 (h1 ++ [Cell.obj (.shape c) fs1]) := Ext.append _ _
            refine ⟨e1.trans eB, ?_⟩
            rw [repInD_iff]
            refine ⟨h1.length, fs1, p1, m0, m, rfl, b1, b2, b3, by simp, get_last _ _, t1, eB.get t2,
              (tdx.ext eB).mono (fun b z => z), fun hh => absurd hh hcl, ?_⟩
            rcases tlm with ⟨i1, i2⟩ | ⟨l1, ls1, g1, gvs1, i1, i2, i3, i4, i5⟩
            · exact .inl ⟨i1, i2⟩
            · exact .inr ⟨l1, ls1, g1, gvs1, i1, eB.get i2, i3, eB.get i4, RepGInD.ext eB gs _ _ gvs1 i5⟩

end MenpoModel.C02
