/-
C10 — lemmas about the vocabulary of the translated source (`Core/C10Src.lean`): the clamp of the repaired float form is a
no-op in exact arithmetic, and what the constructors (`Src.ctorHelper`, `vecInit`, `objInit`, …) build.
-/
import MenpoModel.Core.C10Src
import MenpoModel.Lemmas.C10Access

namespace MenpoModel.C10
open St Src

/-! ### the clamp `min(count + 1, n_components)` of the float form -/

theorem cumsumFrom_getLast_sum (a : Rat) {l : List Rat} (h : l ≠ []) :
    (cumsumFrom a l).getLast? = some (a + l.sum) := by
  obtain ⟨t, x, rfl⟩ : ∃ t x, l = t ++ [x] := ⟨l.dropLast, l.getLast h, (List.dropLast_append_getLast h).symm⟩
  exact cumsumFrom_getLast a t x

/-- exact arithmetic: the last cumulative ratio is the kept ratio -/
theorem totalCumRatio_getLast {s : St} (h : s.eig ≠ []) : s.totalCumRatio.getLast? = some s.totalVarianceRatio := by
  have hne : s.totalEigenvaluesRatio ≠ [] := by simpa [St.totalEigenvaluesRatio] using h
  have := cumsumFrom_getLast_sum 0 hne
  simp only [St.totalEigenvaluesRatio, sum_map_div, zero_add] at this
  simpa only [St.totalCumRatio, cumsum, St.totalEigenvaluesRatio, St.totalVarianceRatio, St.totalVariance] using this

/-- a list whose last entry is at least `r` has an entry that is not `< r` -/
theorem count_lt_of_last {cum : List Rat} {r v : Rat} (hl : cum.getLast? = some v) (hv : r ≤ v) :
    (cum.filter (fun c => decide (c < r))).length + 1 ≤ cum.length := by
  have hmem : v ∈ cum := List.mem_of_getLast? hl
  have : (cum.filter (fun c => decide (c < r))).length < cum.length := by
    apply List.length_filter_lt_length_iff_exists.mpr
    exact ⟨v, hmem, by simpa using hv⟩
  omega

/-- PROPERTY support: on every reachable state the clamp the code applies to the count of the variance-fraction form
never bites in exact arithmetic — the repaired float form evaluated on the exact ratios IS `Val.float`, the form all
bookkeeping theorems of `Props/C10.lean` speak about. -/
theorem clamp_noop_exact {eig0 : List Rat} {s : St} (hr : Reach eig0 s) (r : Rat) :
    s.setActive (.floatObsClamped r s.totalVarianceRatio s.totalCumRatio) = s.setActive (.float r) := by
  simp only [St.setActive]
  split
  · rename_i hc
    have hne : s.eig ≠ [] := by
      intro h; have := hr.eig_length; rw [h] at this; have := hr.rows_pos; simp at *; omega
    have h1 := count_lt_of_last (totalCumRatio_getLast hne) hc.2
    have h2 : s.totalCumRatio.length = s.rows := by
      simp only [St.totalCumRatio, cumsum, cumsumFrom_length, St.totalEigenvaluesRatio, List.length_map, hr.eig_length]
    rw [h2] at h1
    rw [min_eq_left (by omega)]
  · rfl

/-! ### what the constructors build -/

variable {A : Type}

/-- the bookkeeping state of a model after `_constructor_helper` is `build` on the number of rows of the eigenvectors,
the eigenvalues and the `max_n_components` argument -/
theorem ctorHelper_book (np : NP A) (fl : Fl) (self : Plumb A) (ev evec mean : A) (centred : Bool) (mx : PyVal) :
    (ctorHelper np fl self ev evec mean centred mx).map (·.toSt) =
      build (np.shape0 evec) (np.values ev) (mx.toOptVal fl (init (np.shape0 evec) (np.values ev))) := by
  simp only [ctorHelper, build, init]
  split <;> rename_i h <;> simp only [h]
  · rfl
  · cases h2 : St.trim _ (some _) <;> rfl

/-- …and its other attributes: components = the eigenvectors, mean = the mean (zeros when uncentred), `n_samples` and
the template untouched -/
theorem ctorHelper_attrs {np : NP A} {fl : Fl} {self p : Plumb A} {ev evec mean : A} {centred : Bool} {mx : PyVal}
    (h : ctorHelper np fl self ev evec mean centred mx = .ok p) :
    p.comps = some evec ∧ p.mean = some (if centred then mean else np.zerosLike mean) ∧ p.centred = some centred ∧
    p.nSamples = self.nSamples ∧ p.template = self.template := by
  simp only [ctorHelper] at h
  split at h
  · cases h; exact ⟨rfl, rfl, rfl, rfl, rfl⟩
  · cases h2 : St.trim _ (some _) with
    | error e => rw [h2] at h; cases h
    | ok st => rw [h2] at h; cases h; exact ⟨rfl, rfl, rfl, rfl, rfl⟩


theorem except_map_ok_iff {ε α β : Type} {x : Except ε α} {f : α → β} {b : β} :
    x.map f = .ok b ↔ ∃ a, x = .ok a ∧ f a = b := by
  cases x with
  | error e => simp [Except.map]
  | ok a => simp [Except.map]

/-- `PCAVectorModel(samples, centre, n_samples, max_n_components, inplace)`: `pca` of the data matrix, then the helper;
`n_samples` is the second result of `_data_to_matrix` -/
theorem vecInit_spec (np : NP A) (fl : Fl) (self : Plumb A) (samples : A) (centre : Bool) (ns mx : PyVal)
    (inplace : Bool) :
    let dm := dataToMatrix np samples ns
    let out := np.pca dm.1 centre inplace pcaEps
    (vecInit np fl self samples centre ns mx inplace).map (·.toSt) =
        build (np.shape0 out.1) (np.values out.2.1) (mx.toOptVal fl (init (np.shape0 out.1) (np.values out.2.1))) ∧
    ∀ p, vecInit np fl self samples centre ns mx inplace = .ok p →
      p.comps = some out.1 ∧ p.mean = some (if centre then out.2.2 else np.zerosLike out.2.2) ∧
      p.centred = some centre ∧ p.nSamples = dm.2 ∧ p.template = self.template := by
  intro dm out
  refine ⟨ctorHelper_book np fl _ _ _ _ _ _, fun p hp => ?_⟩
  exact ctorHelper_attrs hp

/-- `PCAModel(samples, centre, n_samples, max_n_components, inplace)`: the data matrix and the template come from
`as_matrix(samples, length=n_samples, return_template=True)`; the bookkeeping state is `build … max_n_components`
(NOT `n_samples`), the `n_samples` attribute is the number of rows of the data matrix (when `as_matrix` returns an
array), the template is `as_matrix`' second result -/
theorem objInit_spec (np : NP A) (fl : Fl) (self : Plumb A) (samples : A) (centre : Bool) (ns mx : PyVal)
    (inplace : Bool) :
    let dt := np.asMatrix samples ns true
    let dm := dataToMatrix np dt.1 (PyVal.int (np.shape0 dt.1))
    let out := np.pca dm.1 centre inplace pcaEps
    (objInit np fl self samples centre ns mx inplace).map (·.toSt) =
        build (np.shape0 out.1) (np.values out.2.1) (mx.toOptVal fl (init (np.shape0 out.1) (np.values out.2.1))) ∧
    ∀ p, objInit np fl self samples centre ns mx inplace = .ok p →
      p.comps = some out.1 ∧ p.mean = some (if centre then out.2.2 else np.zerosLike out.2.2) ∧
      p.centred = some centre ∧ p.nSamples = PyVal.int (np.shape0 dt.1) ∧ p.template = some dt.2 := by
  intro dt dm out
  obtain ⟨h1, h2⟩ := vecInit_spec np fl self dt.1 centre (PyVal.int (np.shape0 dt.1)) mx inplace
  constructor
  · rw [← h1]
    simp only [objInit]
    cases vecInit np fl self dt.1 centre (PyVal.int (np.shape0 dt.1)) mx inplace <;> rfl
  · intro p hp
    simp only [objInit] at hp
    obtain ⟨q, hq, rfl⟩ := except_map_ok_iff.mp hp
    obtain ⟨a1, a2, a3, a4, _⟩ := h2 q hq
    exact ⟨a1, a2, a3, by simpa [vbInit, dataToMatrix, PyVal.isNone] using a4, rfl⟩

/-- the two other constructors of each class: `pcacov` of the covariance (resp. the given components) then the helper;
for `PCAModel` the mean argument is a `Vectorizable`: its vector is the mean, the object the template -/
theorem fromCov_spec (np : NP A) (fl : Fl) (C mean : A) (ns : PyVal) (centred isInverse : Bool) (mx : PyVal) :
    let out := np.pcacov C isInverse pcacovEps
    (vecFromCov np fl C mean ns centred isInverse mx).map (·.toSt) =
        build (np.shape0 out.1) (np.values out.2) (mx.toOptVal fl (init (np.shape0 out.1) (np.values out.2))) ∧
    (objFromCov np fl C mean ns centred isInverse mx).map (·.toSt) =
        build (np.shape0 out.1) (np.values out.2) (mx.toOptVal fl (init (np.shape0 out.1) (np.values out.2))) ∧
    (∀ p, vecFromCov np fl C mean ns centred isInverse mx = .ok p →
      p.comps = some out.1 ∧ p.mean = some (if centred then mean else np.zerosLike mean) ∧ p.nSamples = ns) ∧
    (∀ p, objFromCov np fl C mean ns centred isInverse mx = .ok p →
      p.comps = some out.1 ∧ p.mean = some (if centred then np.asVector mean else np.zerosLike (np.asVector mean)) ∧
      p.nSamples = ns ∧ p.template = some mean) := by
  intro out
  have hb := fun m => ctorHelper_book np fl { (Plumb.blank : Plumb A) with nSamples := ns } out.2 out.1 m centred mx
  refine ⟨hb mean, ?_, fun p hp => ?_, fun p hp => ?_⟩
  · rw [← hb (np.asVector mean)]
    simp only [objFromCov, vecFromCov]
    cases ctorHelper np fl _ out.2 out.1 (np.asVector mean) centred mx <;> rfl
  · obtain ⟨a1, a2, _, a4, _⟩ := ctorHelper_attrs hp
    exact ⟨a1, a2, a4⟩
  · simp only [objFromCov] at hp
    obtain ⟨q, hq, rfl⟩ := except_map_ok_iff.mp hp
    obtain ⟨a1, a2, _, a4, _⟩ := ctorHelper_attrs hq
    exact ⟨a1, a2, a4, rfl⟩

theorem fromComponents_spec (np : NP A) (fl : Fl) (components eigenvalues mean : A) (ns : PyVal) (centred : Bool)
    (mx : PyVal) :
    (vecFromComponents np fl components eigenvalues mean ns centred mx).map (·.toSt) =
        build (np.shape0 components) (np.values eigenvalues)
          (mx.toOptVal fl (init (np.shape0 components) (np.values eigenvalues))) ∧
    (objFromComponents np fl components eigenvalues mean ns centred mx).map (·.toSt) =
        build (np.shape0 components) (np.values eigenvalues)
          (mx.toOptVal fl (init (np.shape0 components) (np.values eigenvalues))) ∧
    (∀ p, objFromComponents np fl components eigenvalues mean ns centred mx = .ok p →
      p.comps = some components ∧ p.nSamples = ns ∧ p.template = some mean) := by
  have hb := fun m => ctorHelper_book np fl { (Plumb.blank : Plumb A) with nSamples := ns } eigenvalues components m
    centred mx
  refine ⟨hb mean, ?_, fun p hp => ?_⟩
  · rw [← hb (np.asVector mean)]
    simp only [objFromComponents, vecFromComponents]
    cases ctorHelper np fl _ eigenvalues components (np.asVector mean) centred mx <;> rfl
  · simp only [objFromComponents] at hp
    obtain ⟨q, hq, rfl⟩ := except_map_ok_iff.mp hp
    obtain ⟨a1, _, _, a4, _⟩ := ctorHelper_attrs hq
    exact ⟨a1, a4, rfl⟩

end MenpoModel.C10
