/-
C14 — masking as an operation sequence: masking a graph and then masking the result is masking once
with the combined mask (vertex `v` survives iff it survives the first mask and its new index survives
the second); the surviving original vertices compose.  So a masked graph has no "previous life": by
induction every sequence of masks equals one mask of the original.  Core Lean only.
-/
import MenpoModel.Lemmas.C14Prune

namespace MenpoModel.C14
open Graph

/-- the single mask equivalent to `m1` followed by `m2` (indexed by the survivors of `m1`) -/
def composeMask (m1 m2 : List Bool) : List Bool :=
  (List.range m1.length).map fun v => m1.getD v false && m2.getD (rank m1 v) false

theorem composeMask_length (m1 m2 : List Bool) : (composeMask m1 m2).length = m1.length := by
  simp [composeMask]

theorem composeMask_get (m1 m2 : List Bool) (v : Nat) :
    (composeMask m1 m2)[v]? = some true ↔ m1[v]? = some true ∧ m2[rank m1 v]? = some true := by
  unfold composeMask
  rcases Nat.lt_or_ge v m1.length with hv | hv
  · simp only [List.getElem?_map, List.getElem?_range hv, Option.map_some, Option.some.injEq,
      Bool.and_eq_true, getD_false_eq_true_iff]
  · simp [hv]

/-- the survivors compose -/
theorem keepIdx_composeMask (m1 m2 : List Bool) (h2 : m2.length = m1.count true) :
    keepIdx m1.length (composeMask m1 m2) =
      (keepIdx m2.length m2).map fun i => (keepIdx m1.length m1).getD i 0 := by
  apply sorted_ext _ _ (keepIdx_sorted _ _)
  · rw [List.pairwise_map]
    refine List.Pairwise.imp_of_mem ?_ (keepIdx_sorted m2.length m2)
    intro a b _ hb hab
    refine sorted_getD_lt (keepIdx_sorted _ _) hab ?_
    rw [keepIdx_length, ← h2]; exact keepIdx_lt _ _ b hb
  · intro x
    rw [mem_keepIdx _ _ (composeMask_length m1 m2), composeMask_get, List.mem_map]
    constructor
    · rintro ⟨hx1, hx2⟩
      exact ⟨rank m1 x, (mem_keepIdx _ _ rfl _).2 hx2, keepIdx_getD_rank _ _ rfl x hx1⟩
    · rintro ⟨i, hi, rfl⟩
      have hi2 := (mem_keepIdx _ _ rfl i).1 hi
      have hlt : i < (keepIdx m1.length m1).length := by
        rw [keepIdx_length, ← h2]; exact keepIdx_lt _ _ i hi
      have hget : (keepIdx m1.length m1)[i]? = some ((keepIdx m1.length m1).getD i 0) := by
        rw [List.getD_eq_getElem?_getD, List.getElem?_eq_getElem hlt]; rfl
      obtain ⟨h3, h4⟩ := keepIdx_spec m1 i _ hget
      exact ⟨h3, by rw [h4]; exact hi2⟩

/-- PROPERTY (operation sequence).  `from_mask(m1)` followed by `from_mask(m2)` is `from_mask` of the
combined mask: same number of vertices, same stored entries, same surviving original vertices. -/
theorem mask_mask (g : Graph) (m1 m2 : List Bool) (h1 : m1.length = g.n) (h2 : m2.length = m1.count true) :
    ((g.mask m1).mask m2).n = (g.mask (composeMask m1 m2)).n ∧
    (∀ i j, i < ((g.mask m1).mask m2).n → j < ((g.mask m1).mask m2).n →
      ((g.mask m1).mask m2).w i j = (g.mask (composeMask m1 m2)).w i j) ∧
    keepIdx g.n (composeMask m1 m2) = (keepIdx m2.length m2).map fun i => (keepIdx g.n m1).getD i 0 := by
  have hk := keepIdx_composeMask m1 m2 h2
  rw [h1] at hk
  have hn1 : (g.mask m1).n = m2.length := by rw [mask_n g m1 h1, h2]
  have V1 : View g (g.mask m1) (keepIdx g.n m1) := view_of_select g _ (keepIdx_sorted _ _) (keepIdx_lt _ _)
  have V2 : View g ((g.mask m1).mask m2) ((keepIdx m2.length m2).map fun i => (keepIdx g.n m1).getD i 0) := by
    have := V1.select (keepIdx (g.mask m1).n m2) (keepIdx_sorted _ _) (keepIdx_lt _ _)
    have he : (g.mask m1).mask m2 = (g.mask m1).select (keepIdx (g.mask m1).n m2) := rfl
    rw [he, ← hn1]
    exact this
  have V3 : View g (g.mask (composeMask m1 m2)) (keepIdx g.n (composeMask m1 m2)) :=
    view_of_select g _ (keepIdx_sorted _ _) (keepIdx_lt _ _)
  rw [hk] at V3
  refine ⟨by rw [V2.n_eq, V3.n_eq], ?_, hk⟩
  intro i j hi hj
  rw [V2.w_eq i j hi hj, V3.w_eq i j (by rw [V3.n_eq, ← V2.n_eq]; exact hi) (by rw [V3.n_eq, ← V2.n_eq]; exact hj)]

example : composeMask [true, false, true, true, true] [true, true, false, true] = [true, false, true, false, true] ∧
    (((fromEdgesSym 5 [(0, 1), (0, 2), (2, 4), (3, 4)]).mask [true, false, true, true, true]).mask
      [true, true, false, true]).edgesU = [(0, 1), (1, 2)] ∧
    ((fromEdgesSym 5 [(0, 1), (0, 2), (2, 4), (3, 4)]).mask [true, false, true, false, true]).edgesU = [(0, 1), (1, 2)] := by
  decide

end MenpoModel.C14
