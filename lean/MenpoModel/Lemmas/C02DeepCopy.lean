/-
C02: `copy` preserves the deep digest (`copy_deep`), for every method-resolution table, every heap and every
kind of value: arrays, dicts (shallow), objects through `Copyable.copy` (attribute by attribute, sharing what
has no `.copy`), and the two deepening overrides.  Core Lean only.
-/
import MenpoModel.Lemmas.C02Deep

namespace MenpoModel.C02

theorem mem_of_lookup : ∀ {fs : Slots} {x : String} {w : Val}, fs.lookup x = some w → (x, w) ∈ fs
  | [], _, _, hl => by simp [List.lookup] at hl
  | (z, u) :: t, x, w, hl => by
    simp only [List.lookup] at hl
    cases hxz : x == z with
    | true =>
      rw [hxz] at hl
      have : x = z := by simpa using hxz
      subst this
      injection hl with hl; subst hl
      exact List.mem_cons_self ..
    | false =>
      rw [hxz] at hl
      exact List.mem_cons_of_mem _ (mem_of_lookup hl)

theorem digestSlots_setSlot {rec : Val → Option (List Tok)} :
    ∀ (fs : Slots) {x : String} {w w' : Val}, fs.lookup x = some w → rec w' = rec w →
      digestSlots rec (setSlot fs x w') = digestSlots rec fs
  | [], _, _, _, hl, _ => by simp [List.lookup] at hl
  | (z, u) :: t, x, w, w', hl, hr => by
    simp only [setSlot]
    by_cases hz : z == x
    · have hzx : z = x := by simpa using hz
      subst hzx
      simp only [List.lookup, beq_self_eq_true, Option.some.injEq] at hl
      subst hl
      simp only [hz, if_true, digestSlots, hr]
    · have hxz : (x == z) = false := by
        have : ¬ z = x := by simpa using hz
        simp [Ne.symm this]
      simp only [List.lookup, hxz] at hl
      simp only [hz, Bool.false_eq_true, if_false, digestSlots, digestSlots_setSlot t hl hr]

theorem mem_readsSlots_setSlot {rec : Val → List Nat} {b : Nat} :
    ∀ (fs : Slots) {x : String} {w' : Val}, b ∈ readsSlots rec (setSlot fs x w') →
      b ∈ rec w' ∨ b ∈ readsSlots rec fs
  | [], _, _, hb => by simp [setSlot, readsSlots] at hb
  | (z, u) :: t, x, w', hb => by
    simp only [setSlot] at hb
    by_cases hz : z == x
    · simp only [hz, if_true, readsSlots, List.mem_append] at hb
      rcases hb with hb | hb
      · exact .inl hb
      · exact .inr (by simp only [readsSlots, List.mem_append]; exact .inr hb)
    · simp only [hz, Bool.false_eq_true, if_false, readsSlots, List.mem_append] at hb
      rcases hb with hb | hb
      · exact .inr (by simp only [readsSlots, List.mem_append]; exact .inl hb)
      · rcases mem_readsSlots_setSlot t hb with k | k
        · exact .inl k
        · exact .inr (by simp only [readsSlots, List.mem_append]; exact .inr k)

theorem filter_all {α : Type} : ∀ (l : List α), l.filter (fun _ => true) = l
  | [] => rfl
  | a :: t => by simp only [List.filter_cons, if_true, filter_all t]

theorem copySlots_deep_all (rec : CopyFn) (hx : RecExt rec) (hd : DeepRec rec)
    {fs : Slots} {h h1 : Heap} {fs1 : Slots} (e : copySlots rec h fs = .ok (h1, fs1))
    {j : Nat} {ts : List Tok} (hs : digestSlots (digest j h) fs = some ts) :
    digestSlots (digest j h1) fs1 = some ts ∧
      ∀ b, b ∈ readsSlots (reads j h1) fs1 → b ∈ readsSlots (reads j h) fs ∨ h.length ≤ b := by
  have := copySlots_deep rec hx hd (fun _ => true) fs h h1 fs1 e j ts (by rw [filter_all]; exact hs)
  rw [filter_all, filter_all] at this
  exact this

theorem digest_last {hh : Heap} {cell : Cell} (j : Nat) :
    digest (j + 1) (hh ++ [cell]) (.ref hh.length) =
      match cell with
      | .arr x => some [.arr x]
      | .dict fs => wrapTok .dictO (digestSlots (digest j (hh ++ [cell])) fs)
      | .frozen fs => wrapTok .frozenO (digestSlots (digest j (hh ++ [cell])) fs)
      | .obj c fs => wrapTok (.objO c) (digestSlots (digest j (hh ++ [cell])) fs) := by
  simp only [digest, get_last]
  cases cell <;> rfl

theorem reads_last {hh : Heap} {cell : Cell} (j : Nat) :
    reads (j + 1) (hh ++ [cell]) (.ref hh.length) =
      match cell with
      | .arr _ => [hh.length]
      | .dict fs => hh.length :: readsSlots (reads j (hh ++ [cell])) fs
      | .frozen fs => hh.length :: readsSlots (reads j (hh ++ [cell])) fs
      | .obj _ fs => hh.length :: readsSlots (reads j (hh ++ [cell])) fs := by
  simp only [reads, get_last]
  cases cell <;> rfl

/-- a new object cell whose slots have digest `ts` on the heap below it -/
theorem digest_new_obj {hh : Heap} {c : Cls} {fs : Slots} {j : Nat} {ts : List Tok}
    (hs : digestSlots (digest j hh) fs = some ts) :
    digest (j + 1) (hh ++ [Cell.obj c fs]) (.ref hh.length) = some (Tok.objO c :: (ts ++ [Tok.close])) ∧
    ∀ b, b ∈ reads (j + 1) (hh ++ [Cell.obj c fs]) (.ref hh.length) →
      b = hh.length ∨ b ∈ readsSlots (reads j hh) fs := by
  obtain ⟨k1, k2⟩ := digestSlots_ext (Ext.append hh [Cell.obj c fs]) hs
  rw [digest_last, reads_last]
  simp only [k1, k2, wrapTok, Option.map_some, List.mem_cons, true_and]
  exact fun b hb => hb

theorem digest_new_dict {hh : Heap} {fs : Slots} {j : Nat} {ts : List Tok}
    (hs : digestSlots (digest j hh) fs = some ts) :
    digest (j + 1) (hh ++ [Cell.dict fs]) (.ref hh.length) = some (Tok.dictO :: (ts ++ [Tok.close])) ∧
    ∀ b, b ∈ reads (j + 1) (hh ++ [Cell.dict fs]) (.ref hh.length) →
      b = hh.length ∨ b ∈ readsSlots (reads j hh) fs := by
  obtain ⟨k1, k2⟩ := digestSlots_ext (Ext.append hh [Cell.dict fs]) hs
  rw [digest_last, reads_last]
  simp only [k1, k2, wrapTok, Option.map_some, List.mem_cons, true_and]
  exact fun b hb => hb

/-- the deepening step of `LandmarkManager.copy` / `LabelledPointUndirectedGraph.copy` -/
theorem deepen_deep (rec : CopyFn) (hx : RecExt rec) (hd : DeepRec rec) (c : Cls) (x : String)
    {h1 : Heap} {fs1 : Slots} {hF : Heap} {vF : Val} (e : deepen rec c x h1 fs1 = .ok (hF, vF))
    {j : Nat} {ts : List Tok} (hs : digestSlots (digest j h1) fs1 = some ts) :
    digest (j + 1) hF vF = some (Tok.objO c :: (ts ++ [Tok.close])) ∧
    ∀ b, b ∈ reads (j + 1) hF vF → b ∈ readsSlots (reads j h1) fs1 ∨ h1.length ≤ b := by
  unfold deepen at e
  cases hl : fs1.lookup x with
  | none => rw [hl] at e; cases e
  | some w =>
    rw [hl] at e
    cases w with
    | imm _ => cases e
    | ref dd =>
      simp only at e
      cases hdd : h1[dd]? with
      | none => rw [hdd] at e; cases e
      | some cell =>
        rw [hdd] at e
        cases cell with
        | arr _ => cases e
        | frozen _ => cases e
        | obj _ _ => cases e
        | dict gs =>
          simp only at e
          cases hcv : copyValues rec h1 gs with
          | error _ => rw [hcv] at e; cases e
          | ok r =>
            obtain ⟨h2, gs2⟩ := r
            rw [hcv] at e
            simp only [Except.ok.injEq, Prod.mk.injEq] at e
            obtain ⟨rfl, rfl⟩ := e
            have e12 : Ext h1 h2 := copyValues_ext rec hx _ _ _ _ hcv
            -- the digest of the dict the generic phase left in attribute `x`
            obtain ⟨td, htd⟩ := digestSlots_some_mem hs (x, .ref dd) (mem_of_lookup hl)
            simp only at htd
            cases j with
            | zero => cases htd
            | succ j' =>
              have htd' := htd
              simp only [digest, hdd] at htd'
              obtain ⟨tds, htds, rfl⟩ := wrapTok_some htd'
              obtain ⟨cv1, cv2⟩ := copyValues_deep rec hx hd gs h1 h2 gs2 hcv j' tds htds
              -- heap with the new dict
              obtain ⟨nd1, nd2⟩ := digest_new_dict (hh := h2) cv1
              -- on that heap the old and the new dict have the same digest
              have eD : Ext h1 (h2 ++ [Cell.dict gs2]) := e12.trans (Ext.append _ _)
              obtain ⟨od1, _⟩ := digest_ext eD htd
              obtain ⟨sl1, sl2⟩ := digestSlots_ext eD hs
              have hset : digestSlots (digest (j' + 1) (h2 ++ [Cell.dict gs2]))
                  (setSlot fs1 x (.ref h2.length)) = some ts := by
                rw [digestSlots_setSlot fs1 hl (nd1.trans od1.symm)]; exact sl1
              have hlen : (h2 ++ [Cell.dict gs2]).length = h2.length + 1 := by simp
              obtain ⟨no1, no2⟩ := digest_new_obj (c := c) hset
              rw [hlen] at no1 no2
              refine ⟨no1, fun b hb => ?_⟩
              rcases no2 b hb with rfl | hb
              · exact .inr (by have := e12.len; omega)
              · rcases mem_readsSlots_setSlot fs1 hb with k | k
                · rcases nd2 b k with rfl | k
                  · exact .inr e12.len
                  · rcases cv2 b k with k | k
                    · -- a cell the old dict reached: the old dict is reached from the slots
                      left
                      refine mem_readsSlots.mpr ⟨(x, .ref dd), mem_of_lookup hl, ?_⟩
                      simp only [reads, hdd]
                      exact List.mem_cons_of_mem _ k
                    · exact .inr k
                · rw [sl2] at k; exact .inl k

/-- `copy` returns a value with the deep digest of its argument; the cells it reaches are cells the argument
reached or cells allocated by the call -/
theorem copy_deep (d : Dispatch) : ∀ n, DeepRec (copy d n) := by
  intro n
  induction n with
  | zero => intro h v h1 v1 e; simp [copy] at e
  | succ n ih =>
    intro h v h1 v1 e j t hd
    have ihx : RecExt (copy d n) := copy_ext d n
    cases v with
    | imm _ => simp [copy] at e
    | ref a =>
      cases j with
      | zero => cases hd
      | succ j =>
        simp only [copy] at e
        simp only [digest] at hd
        cases hc : h[a]? with
        | none => rw [hc] at e; cases e
        | some cell =>
          rw [hc] at e hd
          have hreads : reads (j + 1) h (.ref a) =
              match cell with
              | .arr _ => [a]
              | .dict fs => a :: readsSlots (reads j h) fs
              | .frozen fs => a :: readsSlots (reads j h) fs
              | .obj _ fs => a :: readsSlots (reads j h) fs := by
            simp only [reads, hc]; cases cell <;> rfl
          cases cell with
          | arr x =>
            simp only [Except.ok.injEq, Prod.mk.injEq] at e
            obtain ⟨rfl, rfl⟩ := e
            simp only [Option.some.injEq] at hd
            subst hd
            rw [digest_last, reads_last]
            exact ⟨rfl, fun b hb => .inr (by simp only [List.mem_singleton] at hb; omega)⟩
          | frozen fs => cases e
          | dict fs =>
            simp only [Except.ok.injEq, Prod.mk.injEq] at e
            obtain ⟨rfl, rfl⟩ := e
            obtain ⟨ts, hts, rfl⟩ := wrapTok_some hd
            obtain ⟨k1, k2⟩ := digest_new_dict (hh := h) hts
            refine ⟨k1, fun b hb => ?_⟩
            rcases k2 b hb with rfl | hb
            · exact .inr (Nat.le_refl _)
            · rw [hreads]; exact .inl (List.mem_cons_of_mem _ hb)
          | obj c fs =>
            obtain ⟨ts, hts, rfl⟩ := wrapTok_some hd
            simp only at e
            cases hsup : supCopy d c with
            | none => rw [hsup] at e; cases e
            | some sup =>
              rw [hsup] at e
              cases hcs : copySlots (copy d n) h fs with
              | error er => rw [hcs] at e; cases sup <;> cases e
              | ok r =>
                obtain ⟨h1', fs1⟩ := r
                rw [hcs] at e
                have e01 : Ext h h1' := copySlots_ext _ ihx _ _ _ _ hcs
                obtain ⟨cs1, cs2⟩ := copySlots_deep_all _ ihx ih hcs hts
                have fin : ∀ b, b ∈ readsSlots (reads j h1') fs1 ∨ h1'.length ≤ b →
                    b ∈ reads (j + 1) h (.ref a) ∨ h.length ≤ b := fun b hb => by
                  rcases hb with hb | hb
                  · rcases cs2 b hb with k | k
                    · rw [hreads]; exact .inl (List.mem_cons_of_mem _ k)
                    · exact .inr k
                  · exact .inr (Nat.le_trans e01.len hb)
                cases sup with
                | Copyable =>
                  simp only [Except.ok.injEq, Prod.mk.injEq] at e
                  obtain ⟨rfl, rfl⟩ := e
                  obtain ⟨k1, k2⟩ := digest_new_obj (c := c) cs1
                  refine ⟨k1, fun b hb => fin b ?_⟩
                  rcases k2 b hb with rfl | hb
                  · exact .inr (Nat.le_refl _)
                  · exact .inl hb
                | LandmarkManager =>
                  simp only at e
                  obtain ⟨k1, k2⟩ := deepen_deep _ ihx ih c _ e cs1
                  exact ⟨k1, fun b hb => fin b (k2 b hb)⟩
                | LabelledPointUndirectedGraph =>
                  simp only at e
                  obtain ⟨k1, k2⟩ := deepen_deep _ ihx ih c _ e cs1
                  exact ⟨k1, fun b hb => fin b (k2 b hb)⟩
                | Shape => cases e
                | PointCloud => cases e
                | Transformable => cases e
                | absent => cases e
                | unknown => cases e

end MenpoModel.C02
