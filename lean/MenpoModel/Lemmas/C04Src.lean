import MenpoModel.Core.C04Src
import MenpoModel.Lemmas.C04Affine
import MenpoModel.Lemmas.C04Warp

namespace MenpoModel.C04
variable {d : ℕ}

theorem setTransCol_one (t : Vec d) : setTransCol (Mat.one : Mat (d + 1)) t = ofAffine Mat.one t := by
  funext i j
  have := i.isLt; have := j.isLt
  simp only [setTransCol, ofAffine, Mat.one]
  by_cases hi : i.val < d <;> by_cases hj : j.val < d <;> simp [hi, hj, Fin.ext_iff] <;> omega

theorem setLin_one (R : Mat d) : setLin (Mat.one : Mat (d + 1)) R = ofAffine R fun _ => 0 := by
  funext i j
  have := i.isLt; have := j.isLt
  simp only [setLin, ofAffine, Mat.one]
  by_cases hi : i.val < d <;> by_cases hj : j.val < d <;> simp [hi, hj, Fin.ext_iff] <;> omega

theorem fillDiag_corner (s : ℚ) :
    setCorner (fillDiag (Mat.one : Mat (d + 1)) s) 1 = ofAffine (diagM fun _ => s) fun _ => 0 := by
  funext i j
  have := i.isLt; have := j.isLt
  simp only [setCorner, fillDiag, ofAffine, Mat.one, diagM]
  by_cases hi : i.val < d <;> by_cases hj : j.val < d <;> by_cases hij : i.val = j.val <;>
    simp [hi, hj, hij, Fin.ext_iff] <;> omega

theorem fillDiagVec_corner (v : Vec d) :
    setCorner (fillDiagVec (Mat.one : Mat (d + 1)) v) 1 = ofAffine (diagM v) fun _ => 0 := by
  funext i j
  have := i.isLt; have := j.isLt
  simp only [setCorner, fillDiagVec, ofAffine, Mat.one, diagM]
  by_cases hi : i.val < d <;> by_cases hj : j.val < d <;> by_cases hij : i.val = j.val <;>
    simp [hi, hj, hij, Fin.ext_iff] <;> omega

/-! definitional facts in the form `simp` can rewrite with (a definition whose body is a `fun` is not unfolded by
`simp [f]` when it occurs under-applied) -/
theorem vneg_eq (v : Vec d) : vneg v = fun i => - v i := rfl
theorem vrecip_eq (v : Vec d) : vrecip v = fun i => 1 / v i := rfl
theorem diagHead_eq (H : Mat (d + 1)) : diagHead H = fun i => H i.castSucc i.castSucc := rfl

theorem isAlignment_cases :
    Cls.isAlignment .homogeneous = false ∧ Cls.isAlignment .affine = false ∧ Cls.isAlignment .similarity = false ∧
    Cls.isAlignment .rotation = false ∧ Cls.isAlignment .translation = false ∧
    Cls.isAlignment .uniformScale = false ∧ Cls.isAlignment .nonUniformScale = false ∧
    Cls.isAlignment .alignmentAffine = true ∧ Cls.isAlignment .alignmentSimilarity = true ∧
    Cls.isAlignment .alignmentRotation = true ∧ Cls.isAlignment .alignmentTranslation = true ∧
    Cls.isAlignment .alignmentUniformScale = true := by decide

/-- swapping `_source` and `_target` one store at a time (right-hand sides evaluated first) exchanges the end points -/
theorem ends_swap {α : Type} (e : Option (α × α)) (c : Cls) (M : Mat (d + 1)) :
    (((⟨c, M, e⟩ : HT d α).setSource (⟨c, M, e⟩ : HT d α).target).setTarget (⟨c, M, e⟩ : HT d α).source)
      = ⟨c, M, e.map fun p => (p.2, p.1)⟩ := by
  rcases e with _ | ⟨a, b⟩ <;> simp [HT.setSource, HT.setTarget, HT.source, HT.target]

/-- the system matrix as `ThinPlateSplines.__init__` assembles it from blocks is `sysL` -/
theorem sysL_blocks {n : ℕ} (φ : ℚ → ℚ) (src ctr : Fin n → P2) :
    vcat (hcat (kernMat φ src ctr) (pMat src)) (hcat (trM (pMat src)) zeros33) = sysL φ src ctr := by
  funext i j
  cases i <;> cases j <;> rfl

/-- well-formedness is kept by every mutator -/
theorem wf_act {α : Type} (op : Op d α) (t : HT d α) (h : t.WF) : (HT.act op t).WF := by
  intro hc
  have hn : t.ends = none := h (by cases op <;> exact hc)
  cases op <;> simp [HT.act, retarget, hn]

theorem vsubOne_shapeVec (h w : ℚ) : vsubOne (shapeVec (h, w)) = fun i => if i.val = 0 then h - 1 else w - 1 := by
  funext i
  simp only [vsubOne, shapeVec]
  split <;> rfl

end MenpoModel.C04
