/-
C02: the copy of a shape is a laid-out tree of fresh cells.  Core Lean only.
-/
import MenpoModel.Lemmas.C02Copy

namespace MenpoModel.C02

theorem repIn_iff' (h : Heap) (c : SCls) (x : Arr) (gs : Groups) (ex : Extra) (lo hi : Nat) (v : Val) :
    RepIn h (.mk c x gs ex) lo hi v ↔
    ∃ a fs p m0 m, v = .ref a ∧ lo ≤ m0 ∧ m0 ≤ m ∧ m ≤ a ∧ a < hi ∧ h[a]? = some (.obj (.shape c) fs) ∧
      fs.lookup "points" = some (.ref p) ∧ h[p]? = some (.arr x) ∧ RepX h fs ex ∧ LabelOK h c fs ∧
      LmIn h fs gs m0 m := by
  unfold RepIn LmIn; exact Iff.rfl

/-- what a correct `copy` does to a shape: only allocates; the result is a tree of fresh shape objects in
disjoint intervals; it never raises AttributeError (which an enclosing generic copy would swallow and
answer by *sharing* the object) -/
def CopySpec (rec : CopyFn) : Prop :=
  ∀ (s : Shape) (h : Heap) (v : Val), Rep h s v →
    match rec h v with
    | .ok (h1, v1) => Ext h h1 ∧ RepIn h1 s h.length h1.length v1
    | .error e => e ≠ .attr

theorem copyValues_groups (rec : CopyFn) (hrec : CopySpec rec) :
    ∀ (gs : Groups) (gvs : Slots) (h : Heap), RepG h gs gvs →
      match copyValues rec h gvs with
      | .ok (h2, gvs2) => Ext h h2 ∧ RepGIn h2 gs h.length h2.length gvs2
      | .error e => e ≠ .attr
  | .nil, gvs, h, r => by
    unfold RepG at r; subst r
    simp only [copyValues]
    refine ⟨Ext.refl _, ?_⟩
    unfold RepGIn; exact ⟨rfl, Nat.le_refl _⟩
  | .cons n g rest, gvs, h, r => by
    unfold RepG at r
    obtain ⟨v, t, rfl, r1, r2⟩ := r
    simp only [copyValues]
    have hs := hrec g h v r1
    cases hr : rec h v with
    | error e => rw [hr] at hs; simpa using hs
    | ok p =>
      obtain ⟨h1, v1⟩ := p
      rw [hr] at hs
      obtain ⟨e1, q1⟩ := hs
      simp only
      have ht := copyValues_groups rec hrec rest t h1 (RepG.ext e1 rest t r2)
      cases hc : copyValues rec h1 t with
      | error e => rw [hc] at ht; simpa using ht
      | ok p2 =>
        obtain ⟨h2, t2⟩ := p2
        rw [hc] at ht
        obtain ⟨e2, q2⟩ := ht
        simp only
        refine ⟨e1.trans e2, ?_⟩
        unfold RepGIn
        exact ⟨v1, t2, h1.length, rfl, RepIn.ext e2 g _ _ v1 q1, q2⟩

theorem copyValues_masks (d : Dispatch) (k : Nat) :
    ∀ (ms : Slots) (h : Heap), (∀ p, p ∈ ms → ∃ b dd, p.2 = .ref b ∧ h[b]? = some (.arr dd)) →
      match copyValues (copy d k) h ms with
      | .ok (h2, ms2) => Ext h h2 ∧ ∀ p, p ∈ ms2 → ∃ b dd, p.2 = .ref b ∧ h2[b]? = some (.arr dd)
      | .error e => e ≠ .attr := by
  intro ms
  induction ms with
  | nil => intro h _; simp only [copyValues]; exact ⟨Ext.refl _, fun p hp => by cases hp⟩
  | cons q t ih =>
    intro h hall
    obtain ⟨x, v⟩ := q
    obtain ⟨b, dd, hv, hb⟩ := hall (x, v) (List.mem_cons_self ..)
    simp only at hv; subst hv
    simp only [copyValues]
    rcases copy_arr_cases d k hb with hf | hok
    · rw [hf]; simp
    · rw [hok]; simp only
      have hall' : ∀ p, p ∈ t → ∃ b dd', p.2 = .ref b ∧ (h ++ [Cell.arr dd])[b]? = some (.arr dd') := fun p hp => by
        obtain ⟨b', dd', h1, h2⟩ := hall p (List.mem_cons_of_mem _ hp)
        exact ⟨b', dd', h1, (Ext.append _ _).get h2⟩
      have := ih (h ++ [Cell.arr dd]) hall'
      cases hc : copyValues (copy d k) (h ++ [Cell.arr dd]) t with
      | error e => rw [hc] at this; simpa using this
      | ok p2 =>
        obtain ⟨h2, t2⟩ := p2
        rw [hc] at this
        obtain ⟨e2, q2⟩ := this
        simp only
        refine ⟨(Ext.append _ _).trans e2, fun p hp => ?_⟩
        rcases List.mem_cons.mp hp with rfl | hp
        · exact ⟨h.length, dd, rfl, e2.get (get_last _ _)⟩
        · exact q2 p hp

/-- `LandmarkManager.copy` on a manager whose groups are shapes -/
theorem copy_lm_spec (n : Nat) (hlow : ∀ j, j < n → CopySpec (copy expectedDispatch j))
    {hA : Heap} {l g : Nat} {ls gvs : Slots} {gs : Groups}
    (q2 : hA[l]? = some (.obj .LandmarkManager ls)) (q3 : ls.lookup "_landmark_groups" = some (.ref g))
    (q4 : hA[g]? = some (.dict gvs)) (q5 : RepG hA gs gvs) :
    match copy expectedDispatch n hA (.ref l) with
    | .ok (hB, w1) => Ext hA hB ∧ ∃ l1 ls1 g1 gvs1 m0 m, w1 = .ref l1 ∧
        hB[l1]? = some (.obj .LandmarkManager ls1) ∧ ls1.lookup "_landmark_groups" = some (.ref g1) ∧
        hB[g1]? = some (.dict gvs1) ∧ hA.length ≤ m0 ∧ m0 ≤ m ∧ m ≤ hB.length ∧ RepGIn hB gs m0 m gvs1
    | .error e => e ≠ .attr := by
  cases n with
  | zero => simp [copy]
  | succ n =>
    simp only [copy, q2, supCopy_lm]
    cases hc : copySlots (copy expectedDispatch n) hA ls with
    | error e => simp only; intro he; subst he; exact copySlots_no_attr _ _ _ hc
    | ok p =>
      obtain ⟨hC, ls1⟩ := p
      simp only
      have eAC : Ext hA hC := copySlots_ext _ (copy_ext _ n) _ _ _ _ hc
      obtain ⟨hx, hy, w1, k1, k2, k3, k4⟩ := copySlots_lookup _ (copy_ext _ n) _ _ _ _ hc _ _ q3
      have hxg : hx[g]? = some (.dict gvs) := k2.get q4
      have hfacts : w1 = .ref hx.length ∧ hy = hx ++ [Cell.dict gvs] := by
        rcases copy_dict_cases expectedDispatch n hxg with hf | hok
        · rw [hf] at k4; rcases k4 with k4 | ⟨k4, _⟩ <;> cases k4
        · rw [hok] at k4
          rcases k4 with k4 | ⟨k4, _⟩
          · simp only [Except.ok.injEq, Prod.mk.injEq] at k4; exact ⟨k4.2.symm, k4.1.symm⟩
          · cases k4
      obtain ⟨rfl, rfl⟩ := hfacts
      have hCd : hC[hx.length]? = some (.dict gvs) := k3.get (get_last _ _)
      unfold deepen
      simp only [k1, hCd]
      have hg := copyValues_groups _ (hlow n (Nat.lt_succ_self _)) gs gvs hC (RepG.ext eAC gs gvs q5)
      cases hv : copyValues (copy expectedDispatch n) hC gvs with
      | error e => rw [hv] at hg; simpa using hg
      | ok p2 =>
        obtain ⟨h2, gvs2⟩ := p2
        rw [hv] at hg
        obtain ⟨e2, r2⟩ := hg
        simp only
        have eB : Ext h2 (h2 ++ [Cell.dict gvs2] ++
            [Cell.obj .LandmarkManager (setSlot ls1 "_landmark_groups" (.ref h2.length))]) :=
          (Ext.append _ _).trans (Ext.append _ _)
        refine ⟨eAC.trans (e2.trans eB), h2.length + 1, _, h2.length, gvs2, hC.length, h2.length, rfl, ?_,
          lookup_setSlot_self ls1 _ k1, ?_, eAC.len, e2.len, ?_, RepGIn.ext eB gs _ _ gvs2 r2⟩
        · have : (h2 ++ [Cell.dict gvs2]).length = h2.length + 1 := by simp
          rw [← this]; exact get_last _ _
        · rw [List.append_assoc]; simp
        · simp

/-! ### single attributes through the generic phase -/

theorem slot_imm {d : Dispatch} {n : Nat} {h h1 : Heap} {fs fs1 : Slots} {x : String} {t : Int}
    (hc : copySlots (copy d n) h fs = .ok (h1, fs1)) (hl : fs.lookup x = some (.imm t)) :
    fs1.lookup x = some (.imm t) := by
  obtain ⟨ha, hb, w1, k1, _, _, k4⟩ := copySlots_lookup _ (copy_ext d n) _ _ _ _ hc _ _ hl
  rcases k4 with k4 | ⟨_, _, rfl⟩
  · rcases copy_imm_cases d n ha t with hf | hf <;> (rw [hf] at k4; cases k4)
  · exact k1

theorem slot_arr {d : Dispatch} {n : Nat} {h h1 : Heap} {fs fs1 : Slots} {x : String} {b : Nat} {dd : Arr}
    (hc : copySlots (copy d n) h fs = .ok (h1, fs1)) (hl : fs.lookup x = some (.ref b))
    (hb : h[b]? = some (.arr dd)) : ∃ b1, fs1.lookup x = some (.ref b1) ∧ h1[b1]? = some (.arr dd) := by
  obtain ⟨ha, hb', w1, k1, k2, k3, k4⟩ := copySlots_lookup _ (copy_ext d n) _ _ _ _ hc _ _ hl
  rcases copy_arr_cases d n (k2.get hb) with hf | hok
  · rw [hf] at k4; rcases k4 with k4 | ⟨k4, _⟩ <;> cases k4
  · rw [hok] at k4
    rcases k4 with k4 | ⟨k4, _⟩
    · simp only [Except.ok.injEq, Prod.mk.injEq] at k4
      obtain ⟨rfl, rfl⟩ := k4
      exact ⟨ha.length, k1, k3.get (get_last _ _)⟩
    · cases k4

theorem slot_dict {d : Dispatch} {n : Nat} {h h1 : Heap} {fs fs1 : Slots} {x : String} {b : Nat} {ms : Slots}
    (hc : copySlots (copy d n) h fs = .ok (h1, fs1)) (hl : fs.lookup x = some (.ref b))
    (hb : h[b]? = some (.dict ms)) : ∃ b1, fs1.lookup x = some (.ref b1) ∧ h1[b1]? = some (.dict ms) := by
  obtain ⟨ha, hb', w1, k1, k2, k3, k4⟩ := copySlots_lookup _ (copy_ext d n) _ _ _ _ hc _ _ hl
  rcases copy_dict_cases d n (k2.get hb) with hf | hok
  · rw [hf] at k4; rcases k4 with k4 | ⟨k4, _⟩ <;> cases k4
  · rw [hok] at k4
    rcases k4 with k4 | ⟨k4, _⟩
    · simp only [Except.ok.injEq, Prod.mk.injEq] at k4
      obtain ⟨rfl, rfl⟩ := k4
      exact ⟨ha.length, k1, k3.get (get_last _ _)⟩
    · cases k4

/-- the generic phase on the attributes of a shape object -/
theorem root_slots (n : Nat) (hlow : ∀ j, j < n → CopySpec (copy expectedDispatch j))
    {h h1 : Heap} {fs fs1 : Slots} {c : SCls} {x : Arr} {gs : Groups} {ex : Extra} {p : Nat}
    (hc : copySlots (copy expectedDispatch n) h fs = .ok (h1, fs1))
    (hp : fs.lookup "points" = some (.ref p)) (hpx : h[p]? = some (.arr x))
    (hx : RepX h fs ex) (hlab : LabelOK h c fs)
    (hg : (fs.lookup "_landmarks" = some (.imm 0) ∧ gs = .nil) ∨
       (∃ l ls g gvs, fs.lookup "_landmarks" = some (.ref l) ∧ h[l]? = some (.obj .LandmarkManager ls) ∧
          ls.lookup "_landmark_groups" = some (.ref g) ∧ h[g]? = some (.dict gvs) ∧ RepG h gs gvs)) :
    Ext h h1 ∧ (∃ p1, fs1.lookup "points" = some (.ref p1) ∧ h1[p1]? = some (.arr x)) ∧ RepX h1 fs1 ex ∧
    (c = .LabelledPointUndirectedGraph → ∃ m1 ms, fs1.lookup "_labels_to_masks" = some (.ref m1) ∧
        h1[m1]? = some (.dict ms) ∧ ∀ q, q ∈ ms → ∃ b dd, q.2 = .ref b ∧ h1[b]? = some (.arr dd)) ∧
    ∃ m0 m, h.length ≤ m0 ∧ m0 ≤ m ∧ m ≤ h1.length ∧ LmIn h1 fs1 gs m0 m := by
  have e1 : Ext h h1 := copySlots_ext _ (copy_ext _ n) _ _ _ _ hc
  refine ⟨e1, slot_arr hc hp hpx, ?_, ?_, ?_⟩
  · intro y yv hy
    obtain ⟨hne, hr⟩ := hx y yv hy
    refine ⟨hne, ?_⟩
    cases yv with
    | imm t => exact slot_imm hc hr
    | arr dd => obtain ⟨b, hb1, hb2⟩ := hr; exact slot_arr hc hb1 hb2
    | dict items => trivial
    | deep toks => trivial
  · intro hcl
    obtain ⟨m, ms, k1, k2, k3⟩ := hlab hcl
    obtain ⟨m1, j1, j2⟩ := slot_dict hc k1 k2
    exact ⟨m1, ms, j1, j2, fun q hq => by obtain ⟨b, dd, i1, i2⟩ := k3 q hq; exact ⟨b, dd, i1, e1.get i2⟩⟩
  · rcases hg with ⟨hl, rfl⟩ | ⟨l, ls, g, gvs, q1, q2, q3, q4, q5⟩
    · exact ⟨h.length, h.length, Nat.le_refl _, Nat.le_refl _, e1.len, .inl ⟨slot_imm hc hl, rfl⟩⟩
    · obtain ⟨ha, hb, w1, k1, k2, k3, k4⟩ := copySlots_lookup _ (copy_ext _ n) _ _ _ _ hc _ _ q1
      have hs := copy_lm_spec n hlow (k2.get q2) q3 (k2.get q4) (RepG.ext k2 gs gvs q5)
      cases hcl : copy expectedDispatch n ha (.ref l) with
      | error e =>
        rw [hcl] at hs k4
        rcases k4 with k4 | ⟨k4, _⟩
        · cases k4
        · simp only [Except.error.injEq] at k4; exact absurd k4 hs
      | ok r =>
        obtain ⟨hB, w⟩ := r
        rw [hcl] at hs k4
        rcases k4 with k4 | ⟨k4, _⟩
        · simp only [Except.ok.injEq, Prod.mk.injEq] at k4
          obtain ⟨rfl, rfl⟩ := k4
          obtain ⟨_, l1, ls1, g1, gvs1, m0, m, rfl, j1, j2, j3, j4, j5, j6, j7⟩ := hs
          exact ⟨m0, m, Nat.le_trans k2.len j4, j5, Nat.le_trans j6 k3.len,
            .inr ⟨l1, ls1, g1, gvs1, k1, k3.get j1, j2, k3.get j3, RepGIn.ext k3 gs _ _ gvs1 j7⟩⟩
        · cases k4

theorem supCopy_nonlab {c : SCls} (hc : c ≠ .LabelledPointUndirectedGraph) :
    supCopy expectedDispatch (.shape c) = some .Copyable := by
  cases c <;> first | rfl | exact absurd rfl hc

theorem supCopy_lab :
    supCopy expectedDispatch (.shape .LabelledPointUndirectedGraph) = some .LabelledPointUndirectedGraph := rfl

/-- `copy` of a shape, for every amount of fuel -/
theorem copy_spec : ∀ k, CopySpec (copy expectedDispatch k) := by
  intro k
  induction k using Nat.strongRecOn with
  | _ k ih =>
    intro s h v r
    cases k with
    | zero => simp [copy]
    | succ n =>
      cases s with
      | mk c x gs ex =>
        unfold Rep at r
        obtain ⟨a, fs, p, rfl, ha, hp, hpx, hx, hlab, hg⟩ := r
        by_cases hcl : c = .LabelledPointUndirectedGraph
        · subst hcl
          simp only [copy, ha, supCopy_lab]
          cases hc : copySlots (copy expectedDispatch n) h fs with
          | error e => simp only; intro he; subst he; exact copySlots_no_attr _ _ _ hc
          | ok pr =>
            obtain ⟨h1, fs1⟩ := pr
            simp only
            obtain ⟨e1, ⟨p1, t1, t2⟩, tx, tl, m0, m, b1, b2, b3, tlm⟩ :=
              root_slots n (fun j hj => ih j (Nat.lt_succ_of_lt hj)) hc hp hpx hx hlab hg
            obtain ⟨m1, ms, u1, u2, u3⟩ := tl rfl
            unfold deepen
            simp only [u1, u2]
            have hm := copyValues_masks expectedDispatch n ms h1 u3
            cases hv : copyValues (copy expectedDispatch n) h1 ms with
            | error e => rw [hv] at hm; simpa using hm
            | ok p2 =>
              obtain ⟨h2, ms2⟩ := p2
              rw [hv] at hm
              obtain ⟨e2, w2⟩ := hm
              simp only
              have eB : Ext h2 (h2 ++ [Cell.dict ms2] ++ [Cell.obj (.shape .LabelledPointUndirectedGraph)
                  (setSlot fs1 "_labels_to_masks" (.ref h2.length))]) :=
                (Ext.append _ _).trans (Ext.append _ _)
              have e12 : Ext h1 _ := e2.trans eB
              refine ⟨e1.trans e12, ?_⟩
              rw [repIn_iff']
              refine ⟨h2.length + 1, setSlot fs1 "_labels_to_masks" (.ref h2.length), p1, m0, m, rfl, b1, b2,
                ?_, ?_, ?_,
                by rw [lookup_setSlot_ne fs1 _ (show "points" ≠ "_labels_to_masks" by decide)]; exact t1,
                e12.get t2, ?_, ?_, ?_⟩
              · have := e2.len; omega
              · simp
              · rw [List.append_assoc]; simp
              · intro y yv hy
                obtain ⟨hne, hr⟩ := tx y yv hy
                obtain ⟨_, hr0⟩ := hx y yv hy
                obtain ⟨mm, mms, o1, o2, _⟩ := hlab rfl
                refine ⟨hne, ?_⟩
                cases yv with
                | imm t =>
                  simp only at hr hr0 ⊢
                  by_cases hy2 : y = "_labels_to_masks"
                  · subst hy2; rw [o1] at hr0; cases hr0
                  · rw [lookup_setSlot_ne fs1 _ hy2]; exact hr
                | arr dd =>
                  simp only at hr hr0 ⊢
                  by_cases hy2 : y = "_labels_to_masks"
                  · subst hy2
                    obtain ⟨b, hb1, hb2⟩ := hr0
                    rw [o1] at hb1; injection hb1 with hb1; injection hb1 with hb1; subst hb1
                    rw [o2] at hb2; cases hb2
                  · obtain ⟨b, hb1, hb2⟩ := hr
                    exact ⟨b, by rw [lookup_setSlot_ne fs1 _ hy2]; exact hb1, e12.get hb2⟩
                | dict items => trivial
                | deep toks => trivial
              · intro _
                refine ⟨h2.length, ms2, lookup_setSlot_self fs1 _ u1, ?_, fun q hq => ?_⟩
                · have : (h2 ++ [Cell.dict ms2])[h2.length]? = some (Cell.dict ms2) := get_last _ _
                  exact (Ext.append _ _).get this
                · obtain ⟨b, dd, i1, i2⟩ := w2 q hq; exact ⟨b, dd, i1, eB.get i2⟩
              · rcases tlm with ⟨i1, i2⟩ | ⟨l1, ls1, g1, gvs1, i1, i2, i3, i4, i5⟩
                · exact .inl ⟨by
                    rw [lookup_setSlot_ne fs1 _ (show "_landmarks" ≠ "_labels_to_masks" by decide)]; exact i1, i2⟩
                · exact .inr ⟨l1, ls1, g1, gvs1, by
                    rw [lookup_setSlot_ne fs1 _ (show "_landmarks" ≠ "_labels_to_masks" by decide)]; exact i1,
                    e12.get i2, i3, e12.get i4, RepGIn.ext e12 gs _ _ gvs1 i5⟩
        · simp only [copy, ha, supCopy_nonlab hcl]
          cases hc : copySlots (copy expectedDispatch n) h fs with
          | error e => simp only; intro he; subst he; exact copySlots_no_attr _ _ _ hc
          | ok pr =>
            obtain ⟨h1, fs1⟩ := pr
            simp only
            obtain ⟨e1, ⟨p1, t1, t2⟩, tx, _, m0, m, b1, b2, b3, tlm⟩ :=
              root_slots n (fun j hj => ih j (Nat.lt_succ_of_lt hj)) hc hp hpx hx hlab hg
            have eB : Ext h1 (h1 ++ [Cell.obj (.shape c) fs1]) := Ext.append _ _
            refine ⟨e1.trans eB, ?_⟩
            rw [repIn_iff']
            refine ⟨h1.length, fs1, p1, m0, m, rfl, b1, b2, b3, by simp, get_last _ _, t1, eB.get t2,
              tx.ext eB, fun hh => absurd hh hcl, ?_⟩
            rcases tlm with ⟨i1, i2⟩ | ⟨l1, ls1, g1, gvs1, i1, i2, i3, i4, i5⟩
            · exact .inl ⟨i1, i2⟩
            · exact .inr ⟨l1, ls1, g1, gvs1, i1, eB.get i2, i3, eB.get i4, RepGIn.ext eB gs _ _ gvs1 i5⟩

end MenpoModel.C02
