/-
C15 — lemmas on the ordered label dictionary (`lookup`, `dedup`, `setLabel`) and on coverage.  Core Lean only.
-/
import MenpoModel.Lemmas.C15Mask

namespace MenpoModel.C15

theorem lookup_eq_some_mem {ls : List (String × List Bool)} {l : String} {m : List Bool}
    (h : lookup ls l = some m) : (l, m) ∈ ls := by
  induction ls with
  | nil => simp [lookup] at h
  | cons p rest ih =>
    obtain ⟨k, v⟩ := p
    simp only [lookup] at h
    split at h
    · rename_i hk
      simp only [beq_iff_eq] at hk
      simp only [Option.some.injEq] at h
      subst hk; subst h
      exact List.mem_cons_self
    · exact List.mem_cons_of_mem _ (ih h)

theorem lookup_isSome_iff (ls : List (String × List Bool)) (l : String) :
    (lookup ls l).isSome = true ↔ l ∈ ls.map Prod.fst := by
  induction ls with
  | nil => simp [lookup]
  | cons p rest ih =>
    obtain ⟨k, v⟩ := p
    simp only [lookup, List.map_cons, List.mem_cons]
    split
    · rename_i hk
      simp only [beq_iff_eq] at hk
      simp [hk]
    · rename_i hk
      simp only [beq_iff_eq] at hk
      rw [ih]
      constructor
      · intro h; exact Or.inr h
      · rintro (h | h)
        · exact absurd h.symm hk
        · exact h

theorem lookup_isNone_iff (ls : List (String × List Bool)) (l : String) :
    (lookup ls l).isNone = true ↔ l ∉ ls.map Prod.fst := by
  rw [← lookup_isSome_iff]
  cases lookup ls l <;> simp

theorem lookup_of_mem_nodup {ls : List (String × List Bool)} (hn : (ls.map Prod.fst).Nodup)
    {l : String} {m : List Bool} (h : (l, m) ∈ ls) : lookup ls l = some m := by
  induction ls with
  | nil => simp at h
  | cons p rest ih =>
    obtain ⟨k, v⟩ := p
    simp only [List.map_cons, List.nodup_cons] at hn
    simp only [lookup]
    rcases List.mem_cons.mp h with h | h
    · simp only [Prod.mk.injEq] at h
      obtain ⟨rfl, rfl⟩ := h
      simp
    · split
      · rename_i hk
        simp only [beq_iff_eq] at hk
        subst hk
        exact absurd (List.mem_map_of_mem (f := Prod.fst) h) hn.1
      · exact ih hn.2 h

/-! ### `dedup` -/

theorem mem_dedup (x : String) (l : List String) : x ∈ dedup l ↔ x ∈ l := by
  induction l with
  | nil => simp [dedup]
  | cons y ys ih =>
    simp only [dedup, List.mem_cons, List.mem_filter, bne_iff_ne, ne_eq, ih]
    constructor
    · rintro (h | ⟨h, _⟩)
      · exact Or.inl h
      · exact Or.inr h
    · rintro (h | h)
      · exact Or.inl h
      · by_cases hxy : x = y
        · exact Or.inl hxy
        · exact Or.inr ⟨h, hxy⟩

theorem dedup_nodup (l : List String) : (dedup l).Nodup := by
  induction l with
  | nil => simp [dedup]
  | cons y ys ih =>
    simp only [dedup, List.nodup_cons, List.mem_filter, bne_iff_ne, ne_eq, not_true_eq_false,
      and_false, not_false_eq_true, true_and]
    exact ih.filter _

theorem dedup_of_nodup (l : List String) (h : l.Nodup) : dedup l = l := by
  induction l with
  | nil => rfl
  | cons y ys ih =>
    simp only [List.nodup_cons] at h
    simp only [dedup, ih h.2, List.cons.injEq, true_and]
    apply List.filter_eq_self.mpr
    intro a ha
    simp only [bne_iff_ne, ne_eq]
    rintro rfl
    exact h.1 ha

theorem lookup_map_mk (ks : List String) (f : String → List Bool) (l : String) (h : l ∈ ks) :
    lookup (ks.map fun k => (k, f k)) l = some (f l) := by
  induction ks with
  | nil => simp at h
  | cons k ks ih =>
    simp only [List.map_cons, lookup]
    split
    · rename_i hk
      simp only [beq_iff_eq] at hk
      subst hk; rfl
    · rename_i hk
      simp only [beq_iff_eq] at hk
      rcases List.mem_cons.mp h with h | h
      · exact absurd h.symm hk
      · exact ih h

/-! ### coverage -/

theorem coveredB_iff (n : Nat) (labels : List (String × List Bool)) :
    coveredB n labels = true ↔ ∀ i, i < n → ∃ p ∈ labels, p.2[i]? = some true := by
  unfold coveredB
  simp only [List.all_eq_true, id]
  constructor
  · intro h i hi
    have hmem : (orMasks n (labels.map Prod.snd))[i]? = some true := by
      have hl : i < (orMasks n (labels.map Prod.snd)).length := by simp [orMasks_length, hi]
      rw [List.getElem?_eq_getElem hl]
      congr 1
      exact h _ (List.getElem_mem hl)
    obtain ⟨_, m, hm, hmi⟩ := (orMasks_get n _ i).mp hmem
    obtain ⟨p, hp, rfl⟩ := List.mem_map.mp hm
    exact ⟨p, hp, hmi⟩
  · intro h b hb
    obtain ⟨i, hi, hbi⟩ := List.getElem_of_mem hb
    have hin : i < n := by simpa [orMasks_length] using hi
    obtain ⟨p, hp, hpi⟩ := h i hin
    have : (orMasks n (labels.map Prod.snd))[i]? = some true :=
      (orMasks_get n _ i).mpr ⟨hin, p.2, List.mem_map_of_mem hp, hpi⟩
    rw [List.getElem?_eq_getElem hi, hbi] at this
    simpa using this

/-! ### `pop` and item assignment -/

theorem lookup_filter_ne (ls : List (String × List Bool)) (l l' : String) :
    lookup (ls.filter fun p => p.1 != l) l' = if l' = l then none else lookup ls l' := by
  induction ls with
  | nil => simp [lookup]
  | cons p rest ih =>
    obtain ⟨k, v⟩ := p
    simp only [List.filter_cons]
    by_cases hkl : k = l
    · subst hkl
      simp only [bne_self_eq_false, Bool.false_eq_true, if_false, ih, lookup]
      by_cases h : l' = k
      · simp [h]
      · have : (k == l') = false := by simp [Ne.symm h]
        simp [h, this]
    · have hb : (k != l) = true := by simp [hkl]
      simp only [hb, if_true, lookup, ih]
      by_cases hk' : k = l'
      · subst hk'
        simp [hkl]
      · have : (k == l') = false := by simp [hk']
        simp [this]

theorem names_filter_ne (ls : List (String × List Bool)) (l : String) :
    (ls.filter fun p => p.1 != l).map Prod.fst = (ls.map Prod.fst).filter (· != l) := by
  induction ls with
  | nil => rfl
  | cons p rest ih =>
    simp only [List.filter_cons, List.map_cons]
    split <;> simp [ih]

theorem lookup_setLabel (ls : List (String × List Bool)) (l l' : String) (m : List Bool) :
    lookup (setLabel ls l m) l' = if l' = l then some m else lookup ls l' := by
  induction ls with
  | nil =>
    simp only [setLabel, lookup]
    by_cases h : l' = l
    · simp [h]
    · have : (l == l') = false := by simp [Ne.symm h]
      simp [h, this]
  | cons p rest ih =>
    obtain ⟨k, v⟩ := p
    simp only [setLabel]
    by_cases hkl : k = l
    · subst hkl
      simp only [beq_self_eq_true, if_true, lookup]
      by_cases h : l' = k
      · simp [h]
      · have : (k == l') = false := by simp [Ne.symm h]
        simp [h, this]
    · have hb : (k == l) = false := by simp [hkl]
      simp only [hb, Bool.false_eq_true, if_false, lookup, ih]
      by_cases hk' : k = l'
      · subst hk'
        simp [hkl]
      · have : (k == l') = false := by simp [hk']
        simp [this]

theorem names_setLabel (ls : List (String × List Bool)) (l : String) (m : List Bool) :
    (setLabel ls l m).map Prod.fst =
      if l ∈ ls.map Prod.fst then ls.map Prod.fst else ls.map Prod.fst ++ [l] := by
  induction ls with
  | nil => simp [setLabel]
  | cons p rest ih =>
    obtain ⟨k, v⟩ := p
    simp only [setLabel]
    by_cases hkl : k = l
    · subst hkl
      simp
    · have hb : (k == l) = false := by simp [hkl]
      simp only [hb, Bool.false_eq_true, if_false, List.map_cons, ih, List.mem_cons]
      by_cases hmem : l ∈ rest.map Prod.fst
      · simp [hmem]
      · simp [hmem, Ne.symm hkl]

theorem mem_setLabel {ls : List (String × List Bool)} {l : String} {m : List Bool} {p : String × List Bool}
    (hp : p ∈ setLabel ls l m) : p = (l, m) ∨ p ∈ ls := by
  induction ls with
  | nil => simp [setLabel] at hp; exact Or.inl hp
  | cons q rest ih =>
    obtain ⟨k, v⟩ := q
    simp only [setLabel] at hp
    split at hp
    · rename_i hk
      simp only [beq_iff_eq] at hk
      rcases List.mem_cons.mp hp with h | h
      · subst hk; exact Or.inl h
      · exact Or.inr (List.mem_cons_of_mem _ h)
    · rcases List.mem_cons.mp hp with h | h
      · exact Or.inr (h ▸ List.mem_cons_self)
      · rcases ih h with h | h
        · exact Or.inl h
        · exact Or.inr (List.mem_cons_of_mem _ h)

theorem indexMask_length (n : Nat) (js : List Nat) : (indexMask n js).length = n := by
  simp [indexMask]

theorem indexMask_get (n : Nat) (js : List Nat) (i : Nat) :
    (indexMask n js)[i]? = some true ↔ i < n ∧ i ∈ js := by
  unfold indexMask
  by_cases hi : i < n
  · simp [hi]
  · simp [hi]

end MenpoModel.C15
