/-
C14 — `is_tree` of a directed graph is the polytree reference, for graphs of EVERY size:
`Graph.isTree true = Graph.refPolytree`, and both hold exactly when the underlying undirected
graph is connected and there are `n - 1` stored entries (the acyclicity test is then implied).
Core Lean only.

Route: (i) an injection of the undirected edges (one orientation each, plus the loops) into the
directed listing gives `nUndEdges ≤ |edgesD|`, strictly when some pair is stored in both
orientations; (ii) Kruskal's count gives `n ≤ nUndEdges + nComponents`; so a connected graph with
`n - 1` entries has `nUndEdges = n - 1`, cyclomatic number `0` (no loop, no simple cycle in the
underlying graph, `refCycleU_iff_und`) and no antiparallel pair; (iii) a closed directed walk
would give one of the three.
-/
import MenpoModel.Lemmas.C14Cyclomatic

namespace MenpoModel.C14
open Graph

/-! ### (i) `nUndEdges ≤ |edgesD|`, strictly with an antiparallel pair -/

/-- pigeonhole for duplicate-free lists -/
theorem length_le_of_nodup_subset {α} [DecidableEq α] : ∀ (l l' : List α), l.Nodup →
    (∀ x ∈ l, x ∈ l') → l.length ≤ l'.length
  | [], _, _, _ => Nat.zero_le _
  | a :: t, l', hn, hs => by
    rw [List.nodup_cons] at hn
    have ha : a ∈ l' := hs a List.mem_cons_self
    have ih := length_le_of_nodup_subset t (l'.erase a) hn.2 (fun x hx => by
      have hne : x ≠ a := fun h => hn.1 (h ▸ hx)
      exact (List.mem_erase_of_ne hne).2 (hs x (List.mem_cons_of_mem _ hx)))
    rw [List.length_erase_of_mem ha] at ih
    have := List.length_pos_of_mem ha
    simp only [List.length_cons]
    omega

/-- a stored orientation of a candidate edge -/
def orient (g : Graph) (e : WEdge) : Nat × Nat :=
  if g.w e.2.1 e.2.2 = 0 then (e.2.2, e.2.1) else (e.2.1, e.2.2)

/-- one stored entry per undirected edge: an orientation of every candidate, and the loops -/
def Graph.undWitness (g : Graph) : List (Nat × Nat) :=
  g.wEdges.map (orient g) ++ g.loops.map fun l => (l, l)

theorem orient_spec (g : Graph) (e : WEdge) (he : e ∈ g.wEdges) :
    ((orient g e = (e.2.1, e.2.2) ∧ g.w e.2.1 e.2.2 ≠ 0) ∨
      (orient g e = (e.2.2, e.2.1) ∧ g.w e.2.1 e.2.2 = 0 ∧ g.w e.2.2 e.2.1 ≠ 0)) ∧
    e.2.1 < e.2.2 ∧ e.2.2 < g.n := by
  obtain ⟨w, i, j⟩ := e
  obtain ⟨hij, hj, hw, _⟩ := (mem_wEdges g w i j).1 he
  refine ⟨?_, hij, hj⟩
  unfold orient
  split
  · rename_i h0
    exact .inr ⟨rfl, h0, by rcases hw with h | h; exact absurd h0 h; exact h⟩
  · rename_i h0
    exact .inl ⟨rfl, h0⟩

theorem orient_inj (g : Graph) (a b : WEdge) (ha : a ∈ g.wEdges) (hb : b ∈ g.wEdges)
    (h : orient g a = orient g b) : a = b := by
  obtain ⟨sa, hla, _⟩ := orient_spec g a ha
  obtain ⟨sb, hlb, _⟩ := orient_spec g b hb
  have hpair : a.2.1 = b.2.1 ∧ a.2.2 = b.2.2 := by
    rcases sa with ⟨ea, _⟩ | ⟨ea, _⟩ <;> rcases sb with ⟨eb, _⟩ | ⟨eb, _⟩ <;>
      (rw [ea, eb] at h; simp only [Prod.mk.injEq] at h; omega)
  obtain ⟨wa, ia, ja⟩ := a
  obtain ⟨wb, ib, jb⟩ := b
  obtain ⟨_, _, _, hwa⟩ := (mem_wEdges g wa ia ja).1 ha
  obtain ⟨_, _, _, hwb⟩ := (mem_wEdges g wb ib jb).1 hb
  simp only at hpair
  obtain ⟨rfl, rfl⟩ := hpair
  rw [hwa, hwb]

/-- what the witnesses look like: a stored entry, listed upwards unless only the downward
orientation is stored -/
theorem mem_undWitness (g : Graph) (p : Nat × Nat) (hp : p ∈ g.undWitness) :
    p.1 < g.n ∧ p.2 < g.n ∧ g.w p.1 p.2 ≠ 0 ∧ (p.1 ≤ p.2 ∨ g.w p.2 p.1 = 0) := by
  rcases List.mem_append.1 hp with hp | hp
  · obtain ⟨e, he, rfl⟩ := List.mem_map.1 hp
    obtain ⟨s, hlt, hn⟩ := orient_spec g e he
    rcases s with ⟨eq, hw⟩ | ⟨eq, hw0, hw⟩
    · rw [eq]; exact ⟨by omega, hn, hw, .inl (by simp only; omega)⟩
    · rw [eq]; exact ⟨hn, by omega, hw, .inr hw0⟩
  · obtain ⟨l, hl, rfl⟩ := List.mem_map.1 hp
    obtain ⟨hln, hw⟩ := (mem_loops g l).1 hl
    exact ⟨hln, hln, hw, .inl (Nat.le_refl _)⟩

theorem undWitness_nodup (g : Graph) : g.undWitness.Nodup := by
  unfold Graph.undWitness
  rw [List.nodup_append]
  refine ⟨?_, ?_, ?_⟩
  · exact List.pairwise_map.2 ((wEdges_nodup g).imp_of_mem fun ha hb hab h => hab (orient_inj g _ _ ha hb h))
  · refine List.pairwise_map.2 (List.Pairwise.imp (fun hab h => hab ?_)
      (List.Nodup.sublist List.filter_sublist List.nodup_range : g.loops.Nodup))
    simp only [Prod.mk.injEq] at h; exact h.1
  · intro a ha b hb hab
    obtain ⟨e, he, rfl⟩ := List.mem_map.1 ha
    obtain ⟨l, _, rfl⟩ := List.mem_map.1 hb
    obtain ⟨s, hlt, _⟩ := orient_spec g e he
    rcases s with ⟨eq, _⟩ | ⟨eq, _⟩ <;>
      (rw [eq] at hab; simp only [Prod.mk.injEq] at hab; omega)

theorem undWitness_length (g : Graph) : g.undWitness.length = g.nUndEdges := by
  rw [nUndEdges_eq_wEdges]; simp [Graph.undWitness]

theorem undWitness_subset (g : Graph) (p : Nat × Nat) (hp : p ∈ g.undWitness) : p ∈ g.edgesD := by
  obtain ⟨h1, h2, h3, _⟩ := mem_undWitness g p hp
  exact (mem_edgesD g p.1 p.2).2 ⟨h1, h2, by simpa [Graph.isEdge] using h3⟩

/-- (i) every undirected edge has a stored orientation -/
theorem nUndEdges_le_edgesD (g : Graph) : g.nUndEdges ≤ g.edgesD.length := by
  rw [← undWitness_length]
  exact length_le_of_nodup_subset _ _ (undWitness_nodup g) (undWitness_subset g)

/-- (i) a pair stored in both orientations is counted twice in `edgesD` and once in `nUndEdges` -/
theorem nUndEdges_lt_edgesD_of_antiparallel (g : Graph) (i j : Nat) (hi : i < g.n) (hj : j < g.n)
    (hij : i ≠ j) (h1 : g.w i j ≠ 0) (h2 : g.w j i ≠ 0) : g.nUndEdges < g.edgesD.length := by
  -- the downward orientation of the pair is not among the witnesses
  have key : ∀ a b, a < b → b < g.n → g.w a b ≠ 0 → g.w b a ≠ 0 → g.nUndEdges < g.edgesD.length := by
    intro a b hab hb hw1 hw2
    have hnot : (b, a) ∉ g.undWitness := by
      intro hm
      obtain ⟨_, _, _, h⟩ := mem_undWitness g (b, a) hm
      rcases h with h | h
      · simp only at h; omega
      · exact hw1 h
    have hnd : ((b, a) :: g.undWitness).Nodup := List.nodup_cons.2 ⟨hnot, undWitness_nodup g⟩
    have := length_le_of_nodup_subset _ g.edgesD hnd (fun x hx => by
      rcases List.mem_cons.1 hx with rfl | hx
      · exact (mem_edgesD g b a).2 ⟨hb, by omega, by simpa [Graph.isEdge] using hw2⟩
      · exact undWitness_subset g x hx)
    rw [List.length_cons, undWitness_length] at this
    omega
  rcases Nat.lt_or_gt_of_ne hij with h | h
  · exact key i j h hj h1 h2
  · exact key j i h hi h2 h1

/-! ### (ii) a graph has at least `n - c` undirected edges -/

theorem n_le_nUndEdges_add_nComponents (g : Graph) : g.n ≤ g.nUndEdges + g.nComponents := by
  have h1 := kruskal_count_components g
  have h2 := nUndEdges_eq_wEdges g
  have h3 : g.kruskalEdges.length ≤ g.wEdges.length := by
    rw [← (sortBy_perm wle g.wEdges).length_eq]
    exact (kruskalEdges_sublist g).length_le
  omega

/-! ### (iii) a closed directed walk is a loop, an antiparallel pair, or a cycle of the underlying graph -/

theorem undCycle_of_closed_walk (g : Graph) (v c : Nat) (hv : v < g.n) (hc : c ∈ g.row v)
    (hr : Reach g.row c v)
    (hanti : ∀ i j, i < g.n → j < g.n → i ≠ j → g.w i j ≠ 0 → g.w j i ≠ 0 → False) :
    Dfs.UndCycle g.und := by
  obtain ⟨hcn, hvc⟩ := (mem_row g v c).1 hc
  have hvc : g.w v c ≠ 0 := by simpa [Graph.isEdge] using hvc
  by_cases hcv : c = v
  · subst hcv
    exact .inl ⟨c, (mem_und g c c).2 ⟨hcn, .inl hvc⟩⟩
  · have hwalk : ∀ {a b}, Reach g.row a b →
        Dfs.RWalk (fun x y => y ∈ g.und x ∧ ¬ (x = c ∧ y = v)) a b := by
      intro a b h
      induction h with
      | refl => exact .refl _
      | @tail x y _ hy ih =>
        refine ih.tail ?_
        obtain ⟨hyn, hxy⟩ := (mem_row g x y).1 hy
        have hxy : g.w x y ≠ 0 := by simpa [Graph.isEdge] using hxy
        refine ⟨(mem_und g x y).2 ⟨hyn, .inl hxy⟩, ?_⟩
        rintro ⟨rfl, rfl⟩
        exact hanti x y hcn hv hcv hxy hvc
    exact .inr (Dfs.cycle_of_walk c v hcv ((mem_und g v c).2 ⟨hcn, .inl hvc⟩) (hwalk hr))

/-! ### the polytree test -/

/-- a connected graph with `n - 1` stored entries has `n - 1` undirected edges and no directed cycle -/
theorem polytree_core (g : Graph) (hc : g.nComponents = 1) (he : g.edgesD.length + 1 = g.n) :
    g.nUndEdges + 1 = g.n ∧ g.hasCycles true = false := by
  have h1 := nUndEdges_le_edgesD g
  have h2 := n_le_nUndEdges_add_nComponents g
  have hU : g.nUndEdges + 1 = g.n := by omega
  refine ⟨hU, ?_⟩
  have hnoc : ¬ Dfs.UndCycle g.und := by
    rw [← refCycleU_iff_und]
    simp only [Graph.refCycleU, decide_eq_true_eq]
    omega
  have hanti : ∀ i j, i < g.n → j < g.n → i ≠ j → g.w i j ≠ 0 → g.w j i ≠ 0 → False := by
    intro i j hi hj hij h1' h2'
    have := nUndEdges_lt_edgesD_of_antiparallel g i j hi hj hij h1' h2'
    omega
  cases hcyc : g.hasCycles true with
  | false => rfl
  | true =>
    obtain ⟨v, c, hv, hcr, hr⟩ := (hasCycles_directed_iff g).1 hcyc
    exact absurd (undCycle_of_closed_walk g v c hv hcr hr hanti) hnoc

/-- **`is_tree` of a directed graph, every size**: the underlying undirected graph is connected and
there are exactly `n - 1` stored entries; the acyclicity test of the code is implied by the two -/
theorem isTree_directed_iff_polytree (g : Graph) :
    g.isTree true = true ↔ g.nComponents = 1 ∧ g.edgesD.length + 1 = g.n := by
  simp only [Graph.isTree, Graph.isTreeCoded, Graph.edges, if_true, Bool.and_eq_true, beq_iff_eq,
    Bool.not_eq_true']
  constructor
  · rintro ⟨⟨he, _⟩, hc⟩
    exact ⟨hc, he⟩
  · rintro ⟨hc, he⟩
    exact ⟨⟨he, (polytree_core g hc he).2⟩, hc⟩

theorem refPolytree_iff (g : Graph) :
    g.refPolytree = true ↔ g.nComponents = 1 ∧ g.edgesD.length + 1 = g.n := by
  simp only [Graph.refPolytree, Bool.and_eq_true, beq_iff_eq]
  constructor
  · rintro ⟨⟨hc, _⟩, he⟩
    exact ⟨hc, he⟩
  · rintro ⟨hc, he⟩
    exact ⟨⟨hc, (polytree_core g hc he).1⟩, he⟩

/-- **the coded test is the polytree reference on EVERY graph** (the unbounded version of
`isTree_spec_small_directed`) -/
theorem isTree_eq_refPolytree (g : Graph) : g.isTree true = g.refPolytree := by
  rw [Bool.eq_iff_iff, isTree_directed_iff_polytree, refPolytree_iff]

/-- in a directed tree (in this sense) no pair is stored in both orientations and there is no loop -/
theorem isTree_directed_no_antiparallel (g : Graph) (h : g.isTree true = true) (i j : Nat)
    (hi : i < g.n) (hj : j < g.n) (h1 : g.w i j ≠ 0) (h2 : g.w j i ≠ 0) : False := by
  obtain ⟨hc, he⟩ := (isTree_directed_iff_polytree g).1 h
  obtain ⟨hU, _⟩ := polytree_core g hc he
  by_cases hij : i = j
  · subst hij
    have hnoc : ¬ Dfs.UndCycle g.und := by
      rw [← refCycleU_iff_und]
      simp only [Graph.refCycleU, decide_eq_true_eq]
      omega
    exact hnoc (.inl ⟨i, (mem_und g i i).2 ⟨hi, .inl h1⟩⟩)
  · have := nUndEdges_lt_edgesD_of_antiparallel g i j hi hj hij h1 h2
    omega

/-! ### examples -/

/-- a polytree on 6 vertices that is not an arborescence (1 and 4 have two parents):
`0→1, 2→1, 1→3, 3→4, 5→4` -/
def exPoly : Graph := fromEdges 6 [(0, 1), (2, 1), (1, 3), (3, 4), (5, 4)]

example : exPoly.isTree true = true ∧ exPoly.refPolytree = true := by decide
example : exPoly.nComponents = 1 ∧ exPoly.edgesD.length + 1 = exPoly.n := by decide
example : (List.range 6).all (fun r => !exPoly.refArborescence r) = true := by decide
example : exPoly.isTree true = true := (isTree_directed_iff_polytree exPoly).2 (by decide)

/-- the acyclic triangle next to an isolated vertex (`isTree_directed_coded_refuted`): refused -/
example : (fromEdges 4 [(0, 1), (0, 2), (1, 2)]).isTree true = false ∧
    (fromEdges 4 [(0, 1), (0, 2), (1, 2)]).refPolytree = false ∧
    (fromEdges 4 [(0, 1), (0, 2), (1, 2)]).nComponents = 2 := by decide

/-- an antiparallel pair: connected, but 3 entries on 3 vertices — refused by both -/
example : (fromEdges 3 [(0, 1), (1, 0), (1, 2)]).isTree true = false ∧
    (fromEdges 3 [(0, 1), (1, 0), (1, 2)]).refPolytree = false ∧
    (fromEdges 3 [(0, 1), (1, 0), (1, 2)]).nUndEdges = 2 ∧
    (fromEdges 3 [(0, 1), (1, 0), (1, 2)]).edgesD.length = 3 := by decide

end MenpoModel.C14
