/-
C17 — edges counted with multiplicity: sums over all (triangle, side) slots against sums over the
unique edges (`edge_lengths` / `unique_edge_lengths`, `mean_edge_length(unique=…)`), boundary flags of
closed meshes, edges of a renumbered triangle list (Mathlib tactics).
-/
import MenpoModel.Lemmas.C17Boundary
import Mathlib.Tactic.Ring
import Mathlib.Tactic.Linarith
import Mathlib.Tactic.FieldSimp
import Mathlib.Algebra.Order.Field.Rat
import Mathlib.Algebra.Order.Field.Basic

namespace MenpoModel.C17

theorem count_dedup (l : List Edge) (x : Edge) : (dedup l).count x = if x ∈ l then 1 else 0 := by
  rw [(nodup_dedup l).count]
  simp [mem_dedup]

theorem sum_count_cons (D : List Edge) (x : Edge) (xs : List Edge) (f : Edge → Rat) :
    (D.map (fun e => ((x :: xs).count e : Rat) * f e)).sum
      = (D.map (fun e => (xs.count e : Rat) * f e)).sum + (D.count x : Rat) * f x := by
  induction D with
  | nil => simp
  | cons d D ih =>
    rw [List.map_cons, List.sum_cons, ih, List.map_cons, List.sum_cons]
    by_cases h : d = x
    · subst h
      have h1 : (d :: xs).count d = xs.count d + 1 := by simp
      have h2 : (d :: D).count d = D.count d + 1 := by simp
      rw [h1, h2]; push_cast; ring
    · have h1 : (x :: xs).count d = xs.count d := by
        have h' : ¬ x = d := fun e => h e.symm
        rw [List.count_cons]; simp [h']
      have h2 : (d :: D).count x = D.count x := by
        rw [List.count_cons]; simp [h]
      rw [h1, h2]; ring

/-- a sum over all slots is the sum over the unique values weighted by their multiplicity -/
theorem sum_by_mult (l : List Edge) (f : Edge → Rat) :
    (l.map f).sum = ((dedup l).map (fun e => (l.count e : Rat) * f e)).sum := by
  induction l with
  | nil => simp [dedup]
  | cons x xs ih =>
    by_cases hx : xs.contains x = true
    · have hmem : x ∈ xs := by simpa using hx
      simp only [dedup, hx, if_true, List.map_cons, List.sum_cons]
      rw [sum_count_cons, ← ih, count_dedup, if_pos hmem]; simp; ring
    · have hmem : x ∉ xs := by simpa using hx
      have hx' : xs.contains x = false := by simpa using hmem
      simp only [dedup, hx', Bool.false_eq_true, if_false, List.map_cons, List.sum_cons]
      rw [sum_count_cons, ← ih, count_dedup, if_neg hmem]
      simp [List.count_eq_zero_of_not_mem hmem]

theorem sortedEdges_length (ts : List Tri) : (sortedEdges ts).length = 3 * ts.length := by
  induction ts with
  | nil => rfl
  | cons t ts ih =>
    simp only [sortedEdges, edgeIndices, List.flatMap_cons, List.map_append, List.length_append,
      List.length_map, List.length_cons] at ih ⊢
    simp only [Tri.edges, List.length_cons, List.length_nil]
    omega

theorem mult_of_unique (ts : List Tri) (e : Edge) (he : e ∈ uniqueEdges ts) :
    mult ts e = (sortedEdges ts).count e := by
  unfold mult
  have : e ∈ sortedEdges ts := (mem_dedup _ _).1 he
  obtain ⟨e', _, rfl⟩ := List.mem_map.1 this
  rw [sortEdge_idem]

theorem map_congr_unique (ts : List Tri) (f : Edge → Rat) :
    (uniqueEdges ts).map (fun e => ((sortedEdges ts).count e : Rat) * f e)
      = (uniqueEdges ts).map (fun e => (mult ts e : Rat) * f e) := by
  apply List.map_congr_left
  intro e he
  rw [mult_of_unique ts e he]

/-- every (triangle, side) slot carries one unique edge: Σ over the slots = Σ over the unique edges
of multiplicity × value -/
theorem slots_sum_eq (ts : List Tri) (f : Edge → Rat) :
    ((sortedEdges ts).map f).sum = ((uniqueEdges ts).map (fun e => (mult ts e : Rat) * f e)).sum := by
  rw [← map_congr_unique]; exact sum_by_mult _ f

theorem meanQ_eq (l : List Rat) : meanQ l = l.sum / (l.length : Rat) := rfl

theorem sum_map_mul_left (s : Rat) (l : List Rat) : (l.map (fun x => s * x)).sum = s * l.sum := by
  induction l with
  | nil => simp
  | cons x xs ih => simp only [List.map_cons, List.sum_cons, ih]; ring

theorem sum_map_const_mul {α} (l : List α) (m : Rat) (f : α → Rat) :
    (l.map (fun e => m * f e)).sum = m * (l.map f).sum := by
  induction l with
  | nil => simp
  | cons x xs ih => simp only [List.map_cons, List.sum_cons, ih]; ring

theorem edges_map (ρ : Nat → Nat) (t : Tri) :
    (Tri.map ρ t).edges = t.edges.map (fun e => (ρ e.1, ρ e.2)) := by
  simp [Tri.edges, Tri.map]

theorem edgeIndices_map (ρ : Nat → Nat) (ts : List Tri) :
    edgeIndices (ts.map (Tri.map ρ)) = (edgeIndices ts).map (fun e => (ρ e.1, ρ e.2)) := by
  simp only [edgeIndices, List.flatMap_map, List.map_flatMap]
  apply List.flatMap_congr
  intro t _
  exact edges_map ρ t

theorem sortEdge_mono (ρ : Nat → Nat) (hmono : ∀ a b, a ≤ b → ρ a ≤ ρ b) (e : Edge) :
    sortEdge (ρ e.1, ρ e.2) = ((ρ (sortEdge e).1), (ρ (sortEdge e).2)) := by
  unfold sortEdge
  by_cases h : e.1 ≤ e.2
  · simp [h, hmono _ _ h]
  · have h' : e.2 ≤ e.1 := by omega
    have hm := hmono _ _ h'
    simp only [h, if_false]
    by_cases h2 : ρ e.1 ≤ ρ e.2
    · have : ρ e.1 = ρ e.2 := by omega
      simp [this]
    · simp [h2]

theorem rank_mono (m : List Bool) (a b : Nat) (h : a ≤ b) : rank m a ≤ rank m b := by
  induction m generalizing a b with
  | nil => cases a <;> cases b <;> simp [rank]
  | cons x xs ih =>
    cases a with
    | zero => simp [rank]
    | succ a =>
      cases b with
      | zero => omega
      | succ b => simp only [rank]; have := ih a b (by omega); omega

theorem sortedEdges_map_mono (ρ : Nat → Nat) (hmono : ∀ a b, a ≤ b → ρ a ≤ ρ b) (ts : List Tri) :
    sortedEdges (ts.map (Tri.map ρ)) = (sortedEdges ts).map (fun e => (ρ e.1, ρ e.2)) := by
  simp only [sortedEdges, edgeIndices_map, List.map_map]
  apply List.map_congr_left
  intro e _
  simp only [Function.comp, sortEdge_mono ρ hmono e]

/-- `ρ` does not identify two vertices of the triangle list -/
def InjOnVerts (ρ : Nat → Nat) (ts : List Tri) : Prop :=
  ∀ t ∈ ts, ∀ t' ∈ ts, ∀ v ∈ t.verts, ∀ w ∈ t'.verts, ρ v = ρ w → v = w

theorem edge_verts (t : Tri) (e : Edge) (he : e ∈ t.edges) : e.1 ∈ t.verts ∧ e.2 ∈ t.verts := by
  simp only [Tri.edges, List.mem_cons, List.not_mem_nil, or_false] at he
  rcases he with h | h | h <;> subst h <;> simp [Tri.verts]

theorem sortEdge_verts (t : Tri) (e : Edge) (he : e ∈ t.edges) :
    (sortEdge e).1 ∈ t.verts ∧ (sortEdge e).2 ∈ t.verts := by
  obtain ⟨h1, h2⟩ := edge_verts t e he
  unfold sortEdge; split
  · exact ⟨h1, h2⟩
  · exact ⟨h2, h1⟩

theorem mem_sortedEdges_verts (ts : List Tri) (e : Edge) (he : e ∈ sortedEdges ts) :
    ∃ t ∈ ts, e.1 ∈ t.verts ∧ e.2 ∈ t.verts := by
  unfold sortedEdges edgeIndices at he
  obtain ⟨e', he', rfl⟩ := List.mem_map.1 he
  obtain ⟨t, ht, het⟩ := List.mem_flatMap.1 he'
  exact ⟨t, ht, sortEdge_verts t e' het⟩

/-- renumbering by a monotone map that identifies no two vertices keeps every edge multiplicity -/
theorem mult_map (ρ : Nat → Nat) (hmono : ∀ a b, a ≤ b → ρ a ≤ ρ b) (ts : List Tri)
    (hinj : InjOnVerts ρ ts) (t : Tri) (ht : t ∈ ts) (e : Edge) (he : e ∈ t.edges) :
    mult (ts.map (Tri.map ρ)) (ρ e.1, ρ e.2) = mult ts e := by
  unfold mult
  rw [sortedEdges_map_mono ρ hmono, sortEdge_mono ρ hmono e]
  refine count_map_inj_on (fun e : Edge => (ρ e.1, ρ e.2)) (sortEdge e) (sortedEdges ts) ?_
  intro b hb hf
  obtain ⟨tb, htb, hb1, hb2⟩ := mem_sortedEdges_verts ts b hb
  obtain ⟨ha1, ha2⟩ := sortEdge_verts t e he
  simp only [Prod.mk.injEq] at hf
  exact Prod.ext (hinj tb htb t ht _ hb1 _ ha1 hf.1) (hinj tb htb t ht _ hb2 _ ha2 hf.2)

theorem boundarySpec_map (ρ : Nat → Nat) (hmono : ∀ a b, a ≤ b → ρ a ≤ ρ b) (ts : List Tri)
    (hinj : InjOnVerts ρ ts) : boundarySpec (ts.map (Tri.map ρ)) = boundarySpec ts := by
  unfold boundarySpec
  rw [List.map_map]
  apply List.map_congr_left
  intro t ht
  simp only [Function.comp, edges_map, List.any_map]
  rw [Bool.eq_iff_iff]
  simp only [List.any_eq_true, Function.comp, beq_iff_eq]
  constructor
  · rintro ⟨e, he, h⟩; exact ⟨e, he, by rw [← mult_map ρ hmono ts hinj t ht e he]; exact h⟩
  · rintro ⟨e, he, h⟩; exact ⟨e, he, by rw [mult_map ρ hmono ts hinj t ht e he]; exact h⟩

theorem rank_inj (m : List Bool) (v w : Nat) (hv : m[v]? = some true) (hw : m[w]? = some true)
    (h : rank m v = rank m w) : v = w := by
  have hvl : v < m.length := by
    rcases Nat.lt_or_ge v m.length with h' | h'
    · exact h'
    · rw [List.getElem?_eq_none h'] at hv; cases hv
  have hwl : w < m.length := by
    rcases Nat.lt_or_ge w m.length with h' | h'
    · exact h'
    · rw [List.getElem?_eq_none h'] at hw; cases hw
  have h1 := maskFilter_rank (List.range m.length) m v (by simp) hv
  have h2 := maskFilter_rank (List.range m.length) m w (by simp) hw
  rw [h, h2] at h1
  simpa [List.getElem?_range hvl, List.getElem?_range hwl] using h1.symm

end MenpoModel.C17
