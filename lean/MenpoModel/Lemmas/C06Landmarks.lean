/-
C06 part 2: invariants and frame lemmas of the landmark-manager state machine.  Core Lean only.

The ownership invariant is stated with ghost tags: every store cell carries the one place that
may refer to it (`grp m k` = group `k` of manager `m`, `ext i` = the caller's i-th shape).  A
world is well-formed when such a tagging exists; separation of managers from each other and
from the caller's shapes follows because a cell has one tag.
-/
import MenpoModel.Core.C06Landmarks

namespace MenpoModel.C06.LM

inductive Tag where
  | grp (m k : Nat)
  | ext (i : Nat)
deriving DecidableEq, Repr

structure Inv (w : World) (tags : List Tag) : Prop where
  len : tags.length = w.store.length
  keys : ∀ (mi : Nat) (m : Mgr), w.mgrs[mi]? = some m → m.keys.Nodup
  own : ∀ (mi : Nat) (m : Mgr), w.mgrs[mi]? = some m → ∀ (k a : Nat), (k, a) ∈ m → tags[a]? = some (Tag.grp mi k)
  exts : ∀ (i a : Nat), w.exts[i]? = some a → tags[a]? = some (Tag.ext i)
  dims : ∀ (mi : Nat) (m : Mgr), w.mgrs[mi]? = some m → ∀ (k a k' a' : Nat), (k, a) ∈ m → (k', a') ∈ m →
    (w.store[a]?).map Shape.dim = (w.store[a']?).map Shape.dim
  owners : ∀ (o : Nat) (ow : Owner), w.owners[o]? = some ow → ow.mgr < w.mgrs.length

/-- the world is well-formed: some tagging witnesses ownership -/
def WInv (w : World) : Prop := ∃ tags, Inv w tags

theorem tag_lt {tags : List Tag} {a : Nat} {t : Tag} (h : tags[a]? = some t) : a < tags.length := by
  rcases Nat.lt_or_ge a tags.length with hlt | hge
  · exact hlt
  · rw [List.getElem?_eq_none hge] at h; cases h

theorem inv_empty : WInv World.empty :=
  ⟨[], ⟨rfl, by intro mi m h; simp [World.empty] at h, by intro mi m h; simp [World.empty] at h,
    by intro i a h; simp [World.empty] at h, by intro mi m h; simp [World.empty] at h,
    by intro o ow h; simp [World.empty] at h⟩⟩

/-! ### list facts about `setKey` / `delKey` / `lookup` -/

theorem any_key_iff (m : Mgr) (k : Nat) : (m.any (·.1 == k)) = true ↔ k ∈ m.keys := by
  simp only [List.any_eq_true, Mgr.keys, List.mem_map, beq_iff_eq]

theorem setKey_keys (m : Mgr) (k a : Nat) :
    (m.setKey k a).keys = if k ∈ m.keys then m.keys else m.keys ++ [k] := by
  simp only [Mgr.setKey]
  by_cases hk : k ∈ m.keys
  · simp only [(any_key_iff m k).mpr hk, if_true, hk]
    simp only [Mgr.keys, List.map_map]
    apply List.map_congr_left
    intro p _
    simp only [Function.comp]
    split
    · rename_i h; exact (by simpa using h : p.1 = k).symm
    · rfl
  · have : (m.any (·.1 == k)) = false := by
      cases h : m.any (·.1 == k)
      · rfl
      · exact absurd ((any_key_iff m k).mp h) hk
    rw [if_neg hk]
    simp [this, Mgr.keys]

theorem mem_setKey {m : Mgr} {k a k' a' : Nat} (h : (k', a') ∈ m.setKey k a) :
    (k' = k ∧ a' = a) ∨ ((k', a') ∈ m ∧ k' ≠ k) := by
  simp only [Mgr.setKey] at h
  split at h
  · simp only [List.mem_map] at h
    obtain ⟨p, hp, he⟩ := h
    split at he
    · simp only [Prod.mk.injEq] at he; exact .inl ⟨he.1.symm, he.2.symm⟩
    · rename_i hne
      subst he
      exact .inr ⟨hp, by simpa using hne⟩
  · rename_i hany
    simp only [List.mem_append, List.mem_singleton, Prod.mk.injEq] at h
    rcases h with h | h
    · refine .inr ⟨h, ?_⟩
      intro e
      apply hany
      simp only [List.any_eq_true, beq_iff_eq]
      exact ⟨(k', a'), h, e⟩
    · exact .inl h

theorem setKey_nodup {m : Mgr} (h : m.keys.Nodup) (k a : Nat) : (m.setKey k a).keys.Nodup := by
  rw [setKey_keys]
  split
  · exact h
  · rename_i hk
    rw [List.nodup_append]
    refine ⟨h, by simp, ?_⟩
    intro x hx y hy
    simp only [List.mem_singleton] at hy
    subst hy
    intro e
    subst e
    exact hk hx

theorem delKey_keys (m : Mgr) (k : Nat) : (m.delKey k).keys = m.keys.filter (· != k) := by
  simp only [Mgr.delKey, Mgr.keys]
  induction m with
  | nil => rfl
  | cons p t ih =>
    simp only [List.filter_cons, List.map_cons]
    split <;> simp [ih]

theorem mem_delKey {m : Mgr} {k k' a' : Nat} (h : (k', a') ∈ m.delKey k) : (k', a') ∈ m ∧ k' ≠ k := by
  simp only [Mgr.delKey, List.mem_filter] at h
  exact ⟨h.1, by simpa using h.2⟩

theorem lookup_mem {m : Mgr} {k a : Nat} (h : m.lookup k = some a) : (k, a) ∈ m := by
  induction m with
  | nil => simp [List.lookup] at h
  | cons p t ih =>
    obtain ⟨k0, a0⟩ := p
    simp only [List.lookup] at h
    split at h
    · rename_i hk
      have : k = k0 := by simpa using hk
      cases h
      subst this
      exact List.mem_cons_self
    · exact List.mem_cons_of_mem _ (ih h)

theorem getElem?_set_self' {α} {l : List α} {i : Nat} {x : α} {m : α} (h : (l.set i x)[i]? = some m)
    (hi : i < l.length) : m = x := by
  rw [List.getElem?_set_self hi] at h
  cases h
  rfl

/-! ### the store only changes by appending or by an in-place edit that keeps `dim` -/

theorem mutateAt_len (w : World) (a : Nat) (δ : Int) : (mutateAt w a δ).store.length = w.store.length := by
  simp only [mutateAt]
  split <;> simp

theorem mutateAt_other (w : World) (a b : Nat) (δ : Int) (h : b ≠ a) :
    (mutateAt w a δ).store[b]? = w.store[b]? := by
  simp only [mutateAt]
  split
  · simp [List.getElem?_set_ne (Ne.symm h)]
  · rfl

theorem mutateAt_dim (w : World) (a b : Nat) (δ : Int) :
    ((mutateAt w a δ).store[b]?).map Shape.dim = (w.store[b]?).map Shape.dim := by
  by_cases h : b = a
  · subst h
    simp only [mutateAt]
    split
    · rename_i s hs
      have hlt : b < w.store.length := by
        rcases Nat.lt_or_ge b w.store.length with hlt | hge
        · exact hlt
        · rw [List.getElem?_eq_none hge] at hs; cases hs
      simp [List.getElem?_set_self hlt, hs, Shape.shift]
    · rfl
  · rw [mutateAt_other w a b δ h]

theorem mutateAt_rest (w : World) (a : Nat) (δ : Int) :
    (mutateAt w a δ).mgrs = w.mgrs ∧ (mutateAt w a δ).exts = w.exts ∧ (mutateAt w a δ).owners = w.owners := by
  simp only [mutateAt]
  split <;> simp

theorem mutateAt_inv {w : World} {tags : List Tag} (h : Inv w tags) (a : Nat) (δ : Int) :
    Inv (mutateAt w a δ) tags := by
  obtain ⟨hm, he, ho⟩ := mutateAt_rest w a δ
  refine ⟨by rw [mutateAt_len]; exact h.len, ?_, ?_, ?_, ?_, ?_⟩
  · rw [hm]; exact h.keys
  · rw [hm]; exact h.own
  · rw [he]; exact h.exts
  · rw [hm]
    intro mi m hmi k a1 k' a2 h1 h2
    rw [mutateAt_dim, mutateAt_dim]
    exact h.dims mi m hmi k a1 k' a2 h1 h2
  · rw [ho, hm]; exact h.owners

theorem foldl_mutateAt_inv {tags : List Tag} (δ : Int) :
    ∀ (as : List Nat) (w : World), Inv w tags → Inv (as.foldl (fun w a => mutateAt w a δ) w) tags := by
  intro as
  induction as with
  | nil => intro w h; exact h
  | cons a t ih => intro w h; exact ih _ (mutateAt_inv h a δ)

/-! ### abstract state of a manager is insensitive to edits elsewhere -/

theorem absMgr_congr {st st' : List Shape} {m : Mgr} (h : ∀ k a, (k, a) ∈ m → st'[a]? = st[a]?) :
    absMgr st' m = absMgr st m := by
  simp only [absMgr]
  apply List.map_congr_left
  intro p hp
  rw [h p.1 p.2 hp]

theorem absM_mutateAt_other (w : World) (a : Nat) (δ : Int) (mi : Nat)
    (h : ∀ m, w.mgrs[mi]? = some m → ∀ k, (k, a) ∉ m) : absM (mutateAt w a δ) mi = absM w mi := by
  simp only [absM, (mutateAt_rest w a δ).1]
  cases hm : w.mgrs[mi]? with
  | none => rfl
  | some m =>
    simp only [Option.getD_some]
    apply absMgr_congr
    intro k b hb
    apply mutateAt_other
    intro e
    subst e
    exact h m hm k hb

theorem absExt_mutateAt_other (w : World) (a : Nat) (δ : Int) (i : Nat)
    (h : w.exts[i]? ≠ some a) : absExt (mutateAt w a δ) i = absExt w i := by
  simp only [absExt, (mutateAt_rest w a δ).2.1]
  cases he : w.exts[i]? with
  | none => rfl
  | some b =>
    simp only [Option.bind_some]
    apply mutateAt_other
    intro e
    subst e
    exact h he

/-! ### what a successful operation did (inversion lemmas) -/

theorem setItem_ok {w : World} {mi : Nat} {key : Option Nat} {arg : Arg} {w' : World}
    (h : setItem w mi key arg = .ok w') :
    ∃ m k i a s, w.mgrs[mi]? = some m ∧ key = some k ∧ arg = .ext i ∧ w.exts[i]? = some a ∧
      w.store[a]? = some s ∧ (∀ n, m.nDims w.store = some n → s.dim = n) ∧
      w' = { w with store := w.store ++ [s], mgrs := w.mgrs.set mi (m.setKey k w.store.length) } := by
  simp only [setItem] at h
  split at h
  · cases h
  · rename_i m hm
    split at h
    · cases h
    · rename_i k
      split at h
      · split at h <;> cases h
      · split at h
        · split at h <;> cases h
        · cases h
      · rename_i i
        split at h
        · cases h
        · rename_i a ha
          split at h
          · cases h
          · rename_i s hs
            split at h
            · rename_i n hn
              split at h
              · cases h
              · rename_i hd
                simp only [Except.ok.injEq] at h
                refine ⟨m, k, i, a, s, hm, rfl, rfl, ha, hs, ?_, h.symm⟩
                intro n' hn'
                rw [hn] at hn'
                cases hn'
                simpa using hd
            · rename_i hn
              simp only [Except.ok.injEq] at h
              refine ⟨m, k, i, a, s, hm, rfl, rfl, ha, hs, ?_, h.symm⟩
              intro n' hn'
              rw [hn] at hn'
              cases hn'

theorem delItem_ok {w : World} {mi : Nat} {key : Option Nat} {w' : World} (h : delItem w mi key = .ok w') :
    ∃ m k, w.mgrs[mi]? = some m ∧ key = some k ∧ k ∈ m.keys ∧ w' = { w with mgrs := w.mgrs.set mi (m.delKey k) } := by
  simp only [delItem] at h
  split at h
  · cases h
  · rename_i m hm
    split at h
    · cases h
    · rename_i k
      split at h
      · rename_i hany
        simp only [Except.ok.injEq] at h
        exact ⟨m, k, hm, rfl, (any_key_iff m k).mp hany, h.symm⟩
      · cases h

theorem getItem_ok {w : World} {mi : Nat} {key : Option Nat} {a : Nat} (h : getItem w mi key = .ok a) :
    ∃ m k, w.mgrs[mi]? = some m ∧ (k, a) ∈ m ∧ (key = some k ∨ (key = none ∧ m = [(k, a)])) := by
  simp only [getItem] at h
  split at h
  · cases h
  · rename_i m hm
    split at h
    · split at h
      · rename_i k a'
        cases h
        exact ⟨_, k, hm, List.mem_cons_self, .inr ⟨rfl, rfl⟩⟩
      · cases h
    · rename_i k
      split at h
      · rename_i a' hl
        cases h
        exact ⟨m, k, hm, lookup_mem hl, .inl rfl⟩
      · cases h

/-! ### the copy loop -/

theorem copyGroups_spec : ∀ (m : Mgr) (st : List Shape), (∀ k a, (k, a) ∈ m → a < st.length) →
    (copyGroups st m).1.length = st.length + m.length ∧
    (∀ b, b < st.length → (copyGroups st m).1[b]? = st[b]?) ∧
    (copyGroups st m).2.keys = m.keys ∧
    (∀ k b, (k, b) ∈ (copyGroups st m).2 → st.length ≤ b ∧ b < st.length + m.length) ∧
    absMgr (copyGroups st m).1 (copyGroups st m).2 = absMgr st m := by
  intro m
  induction m with
  | nil => intro st _; simp [copyGroups, Mgr.keys, absMgr]
  | cons p t ih =>
    obtain ⟨k, a⟩ := p
    intro st hlt
    have ha : a < st.length := hlt k a List.mem_cons_self
    have hlt' : ∀ k' a', (k', a') ∈ t → a' < (st ++ [(st[a]?).getD default]).length := by
      intro k' a' m'
      have := hlt k' a' (List.mem_cons_of_mem _ m')
      simp; omega
    obtain ⟨i1, i2, i3, i4, i5⟩ := ih (st ++ [(st[a]?).getD default]) hlt'
    simp only [copyGroups]
    refine ⟨?_, ?_, ?_, ?_, ?_⟩
    · rw [i1]; simp; omega
    · intro b hb
      rw [i2 b (by simp; omega), List.getElem?_append_left hb]
    · simp only [Mgr.keys, List.map_cons] at i3 ⊢
      rw [i3]
    · intro k' b hb
      simp only [List.mem_cons, Prod.mk.injEq] at hb
      rcases hb with ⟨_, rfl⟩ | hb
      · simp
      · have := i4 k' b hb
        simp at this ⊢
        omega
    · simp only [absMgr, List.map_cons] at i5 ⊢
      rw [i5]
      congr 1
      · rw [i2 st.length (by simp)]
        simp
      · apply List.map_congr_left
        intro q hq
        have hq' := hlt q.1 q.2 (List.mem_cons_of_mem _ hq)
        rw [List.getElem?_append_left hq']

theorem copyMgr_ok {w : World} {mi : Nat} {w' : World} {j : Nat} (h : copyMgr w mi = .ok (w', j)) :
    ∃ m, w.mgrs[mi]? = some m ∧ j = w.mgrs.length ∧
      w' = { w with store := (copyGroups w.store m).1, mgrs := w.mgrs ++ [(copyGroups w.store m).2] } := by
  simp only [copyMgr] at h
  split at h
  · cases h
  · rename_i m hm
    simp only [Except.ok.injEq, Prod.mk.injEq] at h
    exact ⟨m, hm, h.2.symm, h.1.symm⟩

/-! ### every operation preserves the invariant -/

theorem getElem?_append_single {α} {l : List α} {x y : α} {i : Nat} (h : (l ++ [x])[i]? = some y) :
    l[i]? = some y ∨ (i = l.length ∧ y = x) := by
  rcases Nat.lt_or_ge i l.length with hlt | hge
  · rw [List.getElem?_append_left hlt] at h; exact .inl h
  · rw [List.getElem?_append_right hge] at h
    have : i - l.length = 0 := by
      rcases Nat.eq_zero_or_pos (i - l.length) with h0 | hp
      · exact h0
      · rw [List.getElem?_eq_none (by simp; omega)] at h; cases h
    rw [this] at h
    simp at h
    exact .inr ⟨by omega, h.symm⟩

theorem getElem?_set_cases {α} {l : List α} {x y : α} {i j : Nat} (h : (l.set i x)[j]? = some y) :
    (j = i ∧ y = x) ∨ (j ≠ i ∧ l[j]? = some y) := by
  rw [List.getElem?_set] at h
  split at h
  · rename_i hij
    split at h
    · cases h; exact .inl ⟨hij.symm, rfl⟩
    · cases h
  · rename_i hij
    exact .inr ⟨fun e => hij e.symm, h⟩

theorem tags_append_left {tags : List Tag} {a : Nat} {t : Tag} (extra : List Tag) (h : tags[a]? = some t) :
    (tags ++ extra)[a]? = some t := by
  rw [List.getElem?_append_left (tag_lt h)]; exact h

theorem store_append_left {st : List Shape} {tags : List Tag} {a : Nat} {t : Tag} (extra : List Shape)
    (hl : tags.length = st.length) (h : tags[a]? = some t) : (st ++ extra)[a]? = st[a]? := by
  rw [List.getElem?_append_left (by rw [← hl]; exact tag_lt h)]

theorem newMgr_inv {w : World} {tags : List Tag} (h : Inv w tags) : Inv (newMgr w) tags := by
  refine ⟨h.len, ?_, ?_, h.exts, ?_, ?_⟩
  · intro mi m hm
    rcases getElem?_append_single hm with hm | ⟨_, rfl⟩
    · exact h.keys mi m hm
    · simp [Mgr.keys]
  · intro mi m hm k a hka
    rcases getElem?_append_single hm with hm | ⟨_, rfl⟩
    · exact h.own mi m hm k a hka
    · cases hka
  · intro mi m hm k a k' a' h1 h2
    rcases getElem?_append_single hm with hm | ⟨_, rfl⟩
    · exact h.dims mi m hm k a k' a' h1 h2
    · cases h1
  · intro o ow ho
    have := h.owners o ow ho
    simp [newMgr]; omega

theorem newOwner_inv {w : World} {tags : List Tag} (h : Inv w tags) (d : Nat) : Inv (newOwner w d) tags := by
  have h1 := newMgr_inv h
  refine ⟨h1.len, h1.keys, h1.own, h1.exts, h1.dims, ?_⟩
  intro o ow ho
  simp only [newOwner] at ho ⊢
  rcases getElem?_append_single ho with ho | ⟨_, rfl⟩
  · have := h.owners o ow ho
    simp; omega
  · simp

theorem newExt_inv {w : World} {tags : List Tag} (h : Inv w tags) (s : Shape) :
    Inv (newExt w s) (tags ++ [Tag.ext w.exts.length]) := by
  refine ⟨by simp [newExt, h.len], h.keys, ?_, ?_, ?_, h.owners⟩
  · intro mi m hm k a hka
    exact tags_append_left _ (h.own mi m hm k a hka)
  · intro i a hi
    simp only [newExt] at hi
    rcases getElem?_append_single hi with hi | ⟨rfl, rfl⟩
    · exact tags_append_left _ (h.exts i a hi)
    · rw [← h.len]; simp
  · intro mi m hm k a k' a' h1 h2
    simp only [newExt]
    rw [store_append_left _ h.len (h.own mi m hm k a h1), store_append_left _ h.len (h.own mi m hm k' a' h2)]
    exact h.dims mi m hm k a k' a' h1 h2

theorem nDims_of_mem {w : World} {tags : List Tag} (h : Inv w tags) {mi : Nat} {m : Mgr}
    (hm : w.mgrs[mi]? = some m) {k a : Nat} (hka : (k, a) ∈ m) :
    m.nDims w.store = (w.store[a]?).map Shape.dim := by
  cases m with
  | nil => cases hka
  | cons p t =>
    obtain ⟨k0, a0⟩ := p
    simp only [Mgr.nDims]
    exact h.dims mi _ hm k0 a0 k a List.mem_cons_self hka

theorem store_some_of_tag {w : World} {tags : List Tag} (h : Inv w tags) {a : Nat} {t : Tag}
    (ht : tags[a]? = some t) : ∃ s, w.store[a]? = some s := by
  have : a < w.store.length := by rw [← h.len]; exact tag_lt ht
  exact ⟨w.store[a], List.getElem?_eq_getElem this⟩

theorem setItem_inv {w : World} {tags : List Tag} (h : Inv w tags) {mi : Nat} {key : Option Nat} {arg : Arg}
    {w' : World} (hs : setItem w mi key arg = .ok w') : ∃ k, Inv w' (tags ++ [Tag.grp mi k]) := by
  obtain ⟨m, k, i, a, s, hm, rfl, rfl, ha, hsa, hdim, rfl⟩ := setItem_ok hs
  refine ⟨k, by simp [h.len], ?_, ?_, ?_, ?_, ?_⟩
  · intro mj mm hmm
    rcases getElem?_set_cases hmm with ⟨_, rfl⟩ | ⟨_, hmm⟩
    · exact setKey_nodup (h.keys mi m hm) _ _
    · exact h.keys mj mm hmm
  · intro mj mm hmm k' a' hka
    rcases getElem?_set_cases hmm with ⟨rfl, rfl⟩ | ⟨_, hmm⟩
    · rcases mem_setKey hka with ⟨rfl, rfl⟩ | ⟨hin, _⟩
      · rw [← h.len]; simp
      · exact tags_append_left _ (h.own mj m hm k' a' hin)
    · exact tags_append_left _ (h.own mj mm hmm k' a' hka)
  · intro j b hj
    exact tags_append_left _ (h.exts j b hj)
  · intro mj mm hmm k1 a1 k2 a2 h1 h2
    simp only
    rcases getElem?_set_cases hmm with ⟨rfl, rfl⟩ | ⟨_, hmm⟩
    · -- the manager that was written: old members have the manager's dimensionality, the new one too
      have hold : ∀ k' a', (k', a') ∈ m → ((w.store ++ [s])[a']?).map Shape.dim = some s.dim := by
        intro k' a' hin
        have htag := h.own mj m hm k' a' hin
        rw [store_append_left _ h.len htag]
        obtain ⟨s', hs'⟩ := store_some_of_tag h htag
        have hn := nDims_of_mem h hm hin
        rw [hs'] at hn ⊢
        simp only [Option.map_some] at hn ⊢
        rw [hdim s'.dim hn]
      have hnew : ((w.store ++ [s])[w.store.length]?).map Shape.dim = some s.dim := by simp
      rcases mem_setKey h1 with ⟨_, rfl⟩ | ⟨hin1, _⟩ <;> rcases mem_setKey h2 with ⟨_, rfl⟩ | ⟨hin2, _⟩
      · rfl
      · rw [hnew, hold _ _ hin2]
      · rw [hnew, hold _ _ hin1]
      · rw [hold _ _ hin1, hold _ _ hin2]
    · rw [store_append_left _ h.len (h.own mj mm hmm k1 a1 h1), store_append_left _ h.len (h.own mj mm hmm k2 a2 h2)]
      exact h.dims mj mm hmm k1 a1 k2 a2 h1 h2
  · intro o ow ho
    have := h.owners o ow ho
    simpa using this

theorem delItem_inv {w : World} {tags : List Tag} (h : Inv w tags) {mi : Nat} {key : Option Nat}
    {w' : World} (hd : delItem w mi key = .ok w') : Inv w' tags := by
  obtain ⟨m, k, hm, rfl, _, rfl⟩ := delItem_ok hd
  refine ⟨h.len, ?_, ?_, h.exts, ?_, ?_⟩
  · intro mj mm hmm
    rcases getElem?_set_cases hmm with ⟨_, rfl⟩ | ⟨_, hmm⟩
    · rw [delKey_keys]; exact List.Nodup.sublist List.filter_sublist (h.keys mi m hm)
    · exact h.keys mj mm hmm
  · intro mj mm hmm k' a' hka
    rcases getElem?_set_cases hmm with ⟨rfl, rfl⟩ | ⟨_, hmm⟩
    · exact h.own mj m hm k' a' (mem_delKey hka).1
    · exact h.own mj mm hmm k' a' hka
  · intro mj mm hmm k1 a1 k2 a2 h1 h2
    rcases getElem?_set_cases hmm with ⟨rfl, rfl⟩ | ⟨_, hmm⟩
    · exact h.dims mj m hm k1 a1 k2 a2 (mem_delKey h1).1 (mem_delKey h2).1
    · exact h.dims mj mm hmm k1 a1 k2 a2 h1 h2
  · intro o ow ho
    have := h.owners o ow ho
    simpa using this

theorem copyGroups_tags : ∀ (m : Mgr) (st : List Shape) (tags : List Tag) (j : Nat), tags.length = st.length →
    ∀ k b, (k, b) ∈ (copyGroups st m).2 → (tags ++ m.map (fun p => Tag.grp j p.1))[b]? = some (Tag.grp j k) := by
  intro m
  induction m with
  | nil => intro st tags j _ k b hb; simp [copyGroups] at hb
  | cons p t ih =>
    obtain ⟨k0, a0⟩ := p
    intro st tags j hl k b hb
    simp only [copyGroups, List.mem_cons, Prod.mk.injEq] at hb
    rcases hb with ⟨rfl, rfl⟩ | hb
    · rw [← hl]; simp
    · have := ih (st ++ [(st[a0]?).getD default]) (tags ++ [Tag.grp j k0]) j (by simp [hl]) k b hb
      simpa using this

theorem copyMgr_inv {w : World} {tags : List Tag} (h : Inv w tags) {mi : Nat} {w' : World} {j : Nat}
    (hc : copyMgr w mi = .ok (w', j)) : ∃ tags', Inv w' tags' := by
  obtain ⟨m, hm, rfl, rfl⟩ := copyMgr_ok hc
  have hlt : ∀ k a, (k, a) ∈ m → a < w.store.length := by
    intro k a hka; rw [← h.len]; exact tag_lt (h.own mi m hm k a hka)
  obtain ⟨c1, c2, c3, c4, c5⟩ := copyGroups_spec m w.store hlt
  refine ⟨tags ++ m.map (fun p => Tag.grp w.mgrs.length p.1), by simp [h.len, c1], ?_, ?_, ?_, ?_, ?_⟩
  · intro mj mm hmm
    rcases getElem?_append_single hmm with hmm | ⟨_, rfl⟩
    · exact h.keys mj mm hmm
    · rw [c3]; exact h.keys mi m hm
  · intro mj mm hmm k a hka
    rcases getElem?_append_single hmm with hmm | ⟨rfl, rfl⟩
    · exact tags_append_left _ (h.own mj mm hmm k a hka)
    · exact copyGroups_tags m w.store tags _ h.len k a hka
  · intro i a hi
    exact tags_append_left _ (h.exts i a hi)
  · intro mj mm hmm k1 a1 k2 a2 h1 h2
    simp only
    rcases getElem?_append_single hmm with hmm | ⟨_, rfl⟩
    · have l1 : a1 < w.store.length := by rw [← h.len]; exact tag_lt (h.own mj mm hmm k1 a1 h1)
      have l2 : a2 < w.store.length := by rw [← h.len]; exact tag_lt (h.own mj mm hmm k2 a2 h2)
      rw [c2 a1 l1, c2 a2 l2]
      exact h.dims mj mm hmm k1 a1 k2 a2 h1 h2
    · -- the new manager: each new cell holds the value of a member of the source manager
      have hval : ∀ k b, (k, b) ∈ (copyGroups w.store m).2 →
          ∃ a, (k, a) ∈ m ∧ (copyGroups w.store m).1[b]? = w.store[a]? := by
        intro k b hb
        have hmem : (k, ((copyGroups w.store m).1[b]?).getD default) ∈ absMgr (copyGroups w.store m).1 (copyGroups w.store m).2 := by
          simp only [absMgr, List.mem_map]
          exact ⟨(k, b), hb, rfl⟩
        rw [c5] at hmem
        simp only [absMgr, List.mem_map] at hmem
        obtain ⟨q, hq, he⟩ := hmem
        simp only [Prod.mk.injEq] at he
        obtain ⟨hk, hv⟩ := he
        refine ⟨q.2, by rw [← hk]; exact hq, ?_⟩
        have lb : b < (copyGroups w.store m).1.length := by rw [c1]; exact (c4 k b hb).2
        have la : q.2 < w.store.length := hlt q.1 q.2 hq
        rw [List.getElem?_eq_getElem lb, List.getElem?_eq_getElem la] at hv ⊢
        simpa using hv.symm
      obtain ⟨b1, m1, e1⟩ := hval k1 a1 h1
      obtain ⟨b2, m2, e2⟩ := hval k2 a2 h2
      rw [e1, e2]
      exact h.dims mi m hm k1 b1 k2 b2 m1 m2
  · intro o ow ho
    have := h.owners o ow ho
    simp; omega

theorem set_owner_inv {w : World} {tags : List Tag} (h : Inv w tags) (o : Nat) (ow : Owner)
    (hj : ow.mgr < w.mgrs.length) : Inv { w with owners := w.owners.set o ow } tags := by
  refine ⟨h.len, h.keys, h.own, h.exts, h.dims, ?_⟩
  intro o' ow' ho
  rcases getElem?_set_cases ho with ⟨_, rfl⟩ | ⟨_, ho⟩
  · exact hj
  · exact h.owners o' ow' ho

theorem add_owner_inv {w : World} {tags : List Tag} (h : Inv w tags) (ow : Owner)
    (hj : ow.mgr < w.mgrs.length) : Inv { w with owners := w.owners ++ [ow] } tags := by
  refine ⟨h.len, h.keys, h.own, h.exts, h.dims, ?_⟩
  intro o' ow' ho
  rcases getElem?_append_single ho with ho | ⟨_, rfl⟩
  · exact h.owners o' ow' ho
  · exact hj

theorem copyMgr_idx {w : World} {mi : Nat} {w' : World} {j : Nat} (hc : copyMgr w mi = .ok (w', j)) :
    j < w'.mgrs.length ∧ j = w.mgrs.length := by
  obtain ⟨m, _, rfl, rfl⟩ := copyMgr_ok hc
  simp

theorem assign_inv {w : World} (h : WInv w) {o mi : Nat} {w' : World} (ha : assign w o mi = .ok w') : WInv w' := by
  obtain ⟨tags, h⟩ := h
  simp only [assign] at ha
  split at ha
  · rename_i ow m _ _
    split at ha
    · split at ha
      · cases ha
      · split at ha
        · rename_i w1 j hc
          simp only [Except.ok.injEq] at ha
          subst ha
          obtain ⟨tags', h'⟩ := copyMgr_inv h hc
          exact ⟨tags', set_owner_inv h' o _ (copyMgr_idx hc).1⟩
        · cases ha
    · split at ha
      · rename_i w1 j hc
        simp only [Except.ok.injEq] at ha
        subst ha
        obtain ⟨tags', h'⟩ := copyMgr_inv h hc
        exact ⟨tags', set_owner_inv h' o _ (copyMgr_idx hc).1⟩
      · cases ha
  · cases ha

theorem copyOwner_inv {w : World} (h : WInv w) {o : Nat} {w' : World} (hc : copyOwner w o = .ok w') : WInv w' := by
  obtain ⟨tags, h⟩ := h
  simp only [copyOwner] at hc
  split at hc
  · cases hc
  · rename_i ow _
    split at hc
    · rename_i w1 j hcm
      simp only [Except.ok.injEq] at hc
      subst hc
      obtain ⟨tags', h'⟩ := copyMgr_inv h hcm
      exact ⟨tags', add_owner_inv h' _ (copyMgr_idx hcm).1⟩
    · cases hc

theorem liftW_inv {w : World} (h : WInv w) {r : Except Err World} (hr : ∀ w', r = .ok w' → WInv w') :
    WInv (liftW w r).1 := by
  cases r with
  | ok w' => exact hr w' rfl
  | error e => exact h

theorem withRef_inv {w : World} (h : WInv w) {r : MRef} {f : Nat → World × Reply}
    (hf : ∀ mi, WInv (f mi).1) : WInv (withRef w r f).1 := by
  simp only [withRef]
  split
  · exact hf _
  · exact h

/-- PROPERTY support: one step of any history keeps the world well-formed -/
theorem step_inv {w : World} (h : WInv w) (op : Op) : WInv (step w op).1 := by
  cases op with
  | newMgr => obtain ⟨t, ht⟩ := h; exact ⟨t, newMgr_inv ht⟩
  | newOwner d => obtain ⟨t, ht⟩ := h; exact ⟨t, newOwner_inv ht d⟩
  | newExt s => obtain ⟨t, ht⟩ := h; exact ⟨_, newExt_inv ht s⟩
  | set r key arg =>
    apply withRef_inv h
    intro mi
    apply liftW_inv h
    intro w' hw'
    obtain ⟨t, ht⟩ := h
    obtain ⟨k, hk⟩ := setItem_inv ht hw'
    exact ⟨_, hk⟩
  | get r key =>
    apply withRef_inv h
    intro mi
    split <;> exact h
  | del r key =>
    apply withRef_inv h
    intro mi
    apply liftW_inv h
    intro w' hw'
    obtain ⟨t, ht⟩ := h
    exact ⟨t, delItem_inv ht hw'⟩
  | keys r => exact withRef_inv h (fun _ => h)
  | copy r =>
    apply withRef_inv h
    intro mi
    split
    · rename_i w' j hc
      obtain ⟨t, ht⟩ := h
      exact copyMgr_inv ht hc
    · exact h
  | assign o r =>
    apply withRef_inv h
    intro mi
    exact liftW_inv h (fun w' hw' => assign_inv h hw')
  | copyOwner o =>
    simp only [step]
    split
    · rename_i w' hc; exact copyOwner_inv h hc
    · exact h
  | mutExt i δ =>
    apply liftW_inv h
    intro w' hw'
    simp only [mutateExt] at hw'
    split at hw'
    · cases hw'
      obtain ⟨t, ht⟩ := h
      exact ⟨t, mutateAt_inv ht _ _⟩
    · cases hw'
  | mutGot r key δ =>
    apply withRef_inv h
    intro mi
    apply liftW_inv h
    intro w' hw'
    simp only [mutateGot] at hw'
    split at hw'
    · cases hw'
      obtain ⟨t, ht⟩ := h
      exact ⟨t, mutateAt_inv ht _ _⟩
    · cases hw'
  | xform r δ =>
    apply withRef_inv h
    intro mi
    apply liftW_inv h
    intro w' hw'
    simp only [xformMgr] at hw'
    split at hw'
    · cases hw'
    · cases hw'
      obtain ⟨t, ht⟩ := h
      exact ⟨t, foldl_mutateAt_inv _ _ _ ht⟩
  | items r sel => exact withRef_inv h (fun _ => h)
  | count r => exact withRef_inv h (fun _ => h)

/-! ### `_transform_inplace` moves every group once -/

theorem mutateAt_self (w : World) (a : Nat) (δ : Int) :
    (mutateAt w a δ).store[a]? = (w.store[a]?).map (fun s => s.shift δ) := by
  simp only [mutateAt]
  cases hs : w.store[a]? with
  | none => simp [hs]
  | some s =>
    have hlt : a < w.store.length := by
      rcases Nat.lt_or_ge a w.store.length with hlt | hge
      · exact hlt
      · rw [List.getElem?_eq_none hge] at hs; cases hs
    simp [List.getElem?_set_self hlt]

theorem store_foldl_mutateAt (δ : Int) :
    ∀ (as : List Nat) (w : World), as.Nodup → ∀ b,
      (as.foldl (fun w a => mutateAt w a δ) w).store[b]? =
        if b ∈ as then (w.store[b]?).map (fun s => s.shift δ) else w.store[b]? := by
  intro as
  induction as with
  | nil => intro w _ b; simp
  | cons a t ih =>
    intro w nd b
    simp only [List.nodup_cons] at nd
    simp only [List.foldl_cons]
    rw [ih (mutateAt w a δ) nd.2 b]
    by_cases hba : b = a
    · subst hba
      simp [nd.1, mutateAt_self]
    · have : b ∈ a :: t ↔ b ∈ t := by simp [hba]
      simp only [this, mutateAt_other w a b δ hba]

theorem addrs_nodup {w : World} {tags : List Tag} (h : Inv w tags) {mi : Nat} {m : Mgr}
    (hm : w.mgrs[mi]? = some m) : m.addrs.Nodup := by
  have hk := h.keys mi m hm
  have ho := h.own mi m hm
  clear hm
  induction m with
  | nil => simp [Mgr.addrs]
  | cons p t ih =>
    obtain ⟨k, a⟩ := p
    simp only [Mgr.keys, List.map_cons, List.nodup_cons] at hk
    simp only [Mgr.addrs, List.map_cons, List.nodup_cons]
    refine ⟨?_, ih hk.2 (fun k' a' m' => ho k' a' (List.mem_cons_of_mem _ m'))⟩
    intro hmem
    simp only [List.mem_map] at hmem
    obtain ⟨⟨k', a'⟩, hp, rfl⟩ := hmem
    have t1 := ho k a' List.mem_cons_self
    have t2 := ho k' a' (List.mem_cons_of_mem _ hp)
    rw [t1] at t2
    simp only [Option.some.injEq, Tag.grp.injEq, true_and] at t2
    subst t2
    exact hk.1 (by simp only [List.mem_map]; exact ⟨(k, a'), hp, rfl⟩)

end MenpoModel.C06.LM
