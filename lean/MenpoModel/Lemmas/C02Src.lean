/-
C02 — lemmas about the Python constructs of Core/C02Src.lean that the equality obligations of GenProps/C02Src*.lean
use: a write-back loop over the values of a manager is a `mapME`; the batching loop over `range(0, n, k)` with the
slices `x[lo:lo+k]` is `mapME` over `chunks`.  Core Lean only.
-/
import MenpoModel.Core.C02Src

namespace MenpoModel.C02

theorem Groups.ofList_toList : ∀ g : Groups, Groups.ofList g.toList = g
  | .nil => rfl
  | .cons n s r => by simp only [Groups.toList, Groups.ofList, Groups.ofList_toList r]

theorem Groups.toList_ofList : ∀ l : List (String × Shape), (Groups.ofList l).toList = l
  | [] => rfl
  | (n, s) :: r => by simp only [Groups.toList, Groups.ofList, Groups.toList_ofList r]

theorem setSndAt_append {κ ν : Type} (k : κ) (v w : ν) (rest : List (κ × ν)) :
    ∀ pre : List (κ × ν), setSndAt (pre ++ (k, v) :: rest) pre.length w = pre ++ (k, w) :: rest
  | [] => rfl
  | p :: pre => by
    obtain ⟨a, b⟩ := p
    simp only [List.cons_append, List.length_cons, setSndAt, setSndAt_append k v w rest pre]

theorem mapME_length {α β : Type} (f : α → Except Err β) : ∀ (xs : List α) (ys : List β),
    mapME f xs = .ok ys → ys.length = xs.length
  | [], ys, h => by simp only [mapME, Except.ok.injEq] at h; subst h; rfl
  | x :: xs, ys, h => by
    simp only [mapME] at h
    cases hx : f x with
    | error e => rw [hx] at h; cases h
    | ok y =>
      rw [hx] at h; simp only at h
      cases hr : mapME f xs with
      | error e => rw [hr] at h; cases h
      | ok r =>
        rw [hr] at h; simp only [Except.ok.injEq] at h; subst h
        simp only [List.length_cons, mapME_length f xs r hr]

/-- the write-back loop, on the underlying association lists -/
theorem writeback_aux (c : Shape → Except Err (Shape × PV)) :
    ∀ (suf pre : List (String × Shape)),
      forLoopE (Groups.ofList (pre ++ suf)) (List.zipIdx (suf.map Prod.snd) pre.length)
        (fun acc it => (c it.1).bind fun r => .ok (Groups.setValueAt acc it.2 r.1)) =
      (mapME (fun kv => (c kv.2).map fun r => (kv.1, r.1)) suf).map fun l => Groups.ofList (pre ++ l)
  | [], pre => by simp [forLoopE, mapME, Except.map]
  | (k, s) :: rest, pre => by
    simp only [List.map_cons, List.zipIdx_cons, forLoopE, mapME]
    cases hc : c s with
    | error e => simp [Except.bind, Except.map]
    | ok r =>
      have ih := writeback_aux c rest (pre ++ [(k, r.1)])
      simp only [List.length_append, List.length_cons, List.length_nil, Nat.zero_add, List.append_assoc,
        List.cons_append, List.nil_append] at ih
      simp only [Except.bind, Except.map, Groups.setValueAt] at ih ⊢
      simp only [Groups.toList_ofList, setSndAt_append]
      rw [ih]
      generalize mapME _ rest = m
      cases m <;> rfl

/-- `for group in self._landmark_groups.values(): group.<in-place method>()` with write-back is a map over the
groups, in order, that stops at the first failure -/
theorem forLoopE_writeback (c : Shape → Except Err (Shape × PV)) (g : Groups) :
    forLoopE g (List.zipIdx g.values)
        (fun acc it => (c it.1).bind fun r => .ok (Groups.setValueAt acc it.2 r.1)) =
      (mapME (fun kv => (c kv.2).map fun r => (kv.1, r.1)) g.toList).map Groups.ofList := by
  have h := writeback_aux c g.toList []
  simp only [List.nil_append, List.length_nil, Groups.ofList_toList] at h
  exact h

/-! ### normal forms the equality proofs of GenProps/C02Src*.lean rewrite to -/

theorem bind_ok_eta {ε α : Type} (m : Except ε α) : (m.bind fun y => .ok y) = m := by cases m <;> rfl
theorem bind_ok_pair_eta {ε α β : Type} (m : Except ε (α × β)) : (m.bind fun r => .ok (r.1, r.2)) = m := by
  cases m <;> rfl
theorem map_bind_fst {ε α β : Type} (m : Except ε (α × β)) : (m.bind fun r => .ok r.1) = m.map Prod.fst := by
  cases m <;> rfl

/-- close an equality of two `Except` programs after unfolding: split every `match` / `if`, then `simp_all` -/
macro "src_close" : tactic => `(tactic|
  (try simp only [bind_ok_eta, bind_ok_pair_eta, map_bind_fst]
   repeat' split
   all_goals (first | rfl | simp_all [Except.bind, Except.map, tryExcept, bind_ok_eta, bind_ok_pair_eta])))

/-! ### batching -/

theorem pySlice_nat {α : Type} (x : List α) (lo k : Nat) :
    pySlice x (lo : Int) ((lo : Int) + (k : Int)) = (x.drop lo).take k := by
  unfold pySlice normIdx
  simp only
  have h1 : ¬ ((lo : Int) < 0) := by omega
  have h2 : ¬ ((lo : Int) + (k : Int) < 0) := by omega
  simp only [h1, h2, if_false]
  by_cases hlo : (lo : Int) > (x.length : Int)
  · have hlo' : x.length ≤ lo := by omega
    have hhi : (lo : Int) + (k : Int) > (x.length : Int) := by omega
    simp only [hlo, hhi, if_true]
    rw [List.drop_of_length_le (by simp), List.drop_of_length_le hlo']
    simp
  · simp only [hlo, if_false]
    have hlo' : lo ≤ x.length := by omega
    by_cases hhi : (lo : Int) + (k : Int) > (x.length : Int)
    · simp only [hhi, if_true]
      have e1 : (lo : Int).toNat = lo := by simp
      have e2 : ((x.length : Int) - (lo : Int)).toNat = x.length - lo := by omega
      rw [e1, e2, List.take_of_length_le (by rw [List.length_drop]; omega),
        List.take_of_length_le (by rw [List.length_drop]; omega)]
    · simp only [hhi, if_false]
      have e1 : (lo : Int).toNat = lo := by simp
      have e2 : ((lo : Int) + (k : Int) - (lo : Int)).toNat = k := by omega
      rw [e1, e2]

/-- the loop of `_apply_batched` is `mapME` over the chunks (any sufficient fuels) -/
theorem batch_loop (f : Fn) (x : Arr) (k : Nat) (hk : 0 < k) :
    ∀ (rem lo fuel1 fuel2 : Nat) (acc : List Arr), rem = x.length - lo → rem ≤ fuel1 → rem ≤ fuel2 →
      forLoopE acc (rangeUp fuel1 (lo : Int) (x.length : Int) (k : Int))
        (fun acc it => (f (pySlice x it (it + (k : Int)))).bind fun t => .ok (acc ++ [t])) =
      (mapME f (chunksF fuel2 k (x.drop lo))).map fun r => acc ++ r := by
  intro rem
  induction rem using Nat.strongRecOn with
  | _ rem ih =>
    intro lo fuel1 fuel2 acc hrem h1 h2
    by_cases hlt : lo < x.length
    · obtain ⟨f1, rfl⟩ : ∃ f1, fuel1 = f1 + 1 := ⟨fuel1 - 1, by omega⟩
      obtain ⟨f2, rfl⟩ : ∃ f2, fuel2 = f2 + 1 := ⟨fuel2 - 1, by omega⟩
      have hlt' : (lo : Int) < (x.length : Int) := by omega
      have hne : (x.drop lo).isEmpty = false := by
        cases hd : x.drop lo with
        | nil => have := congrArg List.length hd; rw [List.length_drop] at this; simp at this; omega
        | cons a b => rfl
      simp only [rangeUp, hlt', if_true, forLoopE, chunksF, hne, Bool.false_eq_true, if_false, mapME, pySlice_nat]
      cases hf : f ((x.drop lo).take k) with
      | error e => simp [Except.bind, Except.map]
      | ok t =>
        have hcast : (lo : Int) + (k : Int) = ((lo + k : Nat) : Int) := by omega
        have := ih (x.length - (lo + k)) (by omega) (lo + k) f1 f2 (acc ++ [t]) rfl (by omega) (by omega)
        simp only [Except.bind, Except.map, hcast, List.drop_drop] at this ⊢
        rw [this]
        generalize mapME f _ = m
        cases m with
        | error e => rfl
        | ok r => simp
    · have hge : ¬ ((lo : Int) < (x.length : Int)) := by omega
      have hd : x.drop lo = [] := List.drop_of_length_le (by omega)
      have hl : rangeUp fuel1 (lo : Int) (x.length : Int) (k : Int) = [] := by
        cases fuel1 <;> simp [rangeUp, hge]
      have hc : chunksF fuel2 k (x.drop lo) = [] := by
        rw [hd]; cases fuel2 <;> simp [chunksF]
      simp [hl, hc, forLoopE, mapME, Except.map]

theorem chunks_ne_nil (k : Nat) (x : Arr) (hx : x ≠ []) : chunks k x ≠ [] := by
  unfold chunks
  cases x with
  | nil => exact absurd rfl hx
  | cons a b => simp [chunksF]

/-- the batching loop as the source states it (`range`, slices, `append`, `np.vstack`) on an array that has points -/
theorem batched_loop_eq (f : Fn) (x : Arr) (k : Int) (hx : x ≠ []) :
    ((pyRange 0 (x.length : Int) (some k)).bind fun rng =>
       (forLoopE ([] : List Arr) rng (fun acc it => (f (pySlice x it (it + k))).bind fun t => .ok (acc ++ [t]))).bind
         fun r => npVstack r) = applyBatchedE f (some k) x := by
  have hlen : 0 < x.length := List.length_pos_iff.mpr hx
  have hemp : x.isEmpty = false := by cases x with | nil => exact absurd rfl hx | cons _ _ => rfl
  simp only [applyBatchedE, hemp, Bool.false_eq_true, if_false, pyRange]
  by_cases hk0 : k = 0
  · subst hk0; simp [Except.bind]
  · have hbeq : (k == 0) = false := by simp [hk0]
    simp only [hbeq, Bool.false_eq_true, if_false]
    by_cases hpos : k > 0
    · have hle : ¬ (k ≤ 0) := by omega
      simp only [hpos, if_true, hle, if_false]
      obtain ⟨kn, rfl⟩ : ∃ kn : Nat, k = (kn : Int) := ⟨k.toNat, by omega⟩
      have hkn : 0 < kn := by omega
      have e1 : ((x.length : Int) - 0).toNat = x.length := by omega
      have := batch_loop f x kn hkn (x.length - 0) 0 x.length x.length [] rfl (by omega) (by omega)
      simp only [Int.toNat_natCast, e1, List.drop_zero, List.nil_append] at this ⊢
      rw [show ((0 : Nat) : Int) = 0 from rfl] at this
      simp only [Except.bind] at this ⊢
      rw [this]
      unfold chunks
      cases hm : mapME f (chunksF x.length kn x) with
      | error e => rfl
      | ok r =>
        have hl := mapME_length f _ r hm
        have hne : chunksF x.length kn x ≠ [] := chunks_ne_nil kn x hx
        have hr : r.isEmpty = false := by
          cases r with
          | nil =>
            have h0 : (chunksF x.length kn x).length = 0 := by simpa using hl.symm
            exact absurd (List.eq_nil_of_length_eq_zero h0) hne
          | cons _ _ => rfl
        simp [Except.map, npVstack, hr]
    · have hle : k ≤ 0 := by omega
      simp [hpos, hle, rangeDown, forLoopE, Except.bind, npVstack]

/-- CANONICAL FORM of an append loop: `acc = []; for it in xs: acc.append(g(it))` is the comprehension
`[g(it) for it in xs]` (both stop at the first element that raises) -/
theorem forLoopE_append {α β : Type} (g : α → Except Err β) : ∀ (xs : List α) (acc : List β),
    forLoopE acc xs (fun acc it => (g it).bind fun t => .ok (acc ++ [t])) = (mapME g xs).map fun r => acc ++ r
  | [], acc => by simp [forLoopE, mapME, Except.map]
  | x :: xs, acc => by
    simp only [forLoopE, mapME]
    cases hg : g x with
    | error e => rfl
    | ok t =>
      have ih := forLoopE_append g xs (acc ++ [t])
      simp only [Except.bind, Except.map] at ih ⊢
      rw [ih]
      generalize mapME g xs = m
      cases m with
      | error e => rfl
      | ok r => simp

theorem map_id_eta {ε α : Type} (m : Except ε α) : (m.map fun r => r) = m := by cases m <;> rfl

/-- the batching of `_apply_batched` in canonical (comprehension) form, on an array that has points -/
theorem batched_comp_eq (f : Fn) (x : Arr) (k : Int) (hx : x ≠ []) :
    ((pyRange 0 (x.length : Int) (some k)).bind fun rng =>
       (mapME (fun it => f (pySlice x it (it + k))) rng).bind fun r => npVstack r) = applyBatchedE f (some k) x := by
  have h := batched_loop_eq f x k hx
  have e : ∀ rng : List Int,
      forLoopE ([] : List Arr) rng (fun acc it => (f (pySlice x it (it + k))).bind fun t => .ok (acc ++ [t])) =
        mapME (fun it => f (pySlice x it (it + k))) rng := by
    intro rng
    rw [forLoopE_append (fun it => f (pySlice x it (it + k))) rng []]
    simp only [List.nil_append, map_id_eta]
  simp only [e] at h
  exact h

theorem length_cast_ne_zero (x : Arr) (hx : x ≠ []) : ((x.length : Int) == 0) = false := by
  have : 0 < x.length := List.length_pos_iff.mpr hx
  simp only [beq_eq_false_iff_ne, ne_eq]; omega

end MenpoModel.C02
