/-
C03 — the matrices `from_vector` builds (operand of `compose_after_from_vector_inplace`) and when
they really are members of the class.
-/
import MenpoModel.Lemmas.C03Inv
import Mathlib.Tactic.FinCases
import Mathlib.Tactic.NormNum

namespace MenpoModel.C03

open Matrix

variable {d : Nat}

theorem castSucc_val_lt (i : Fin d) : (Fin.castSucc i).val < d := by simp

theorem last_val_not_lt : ¬ (Fin.last d).val < d := by simp

/-! ### `h_matrix[:-1, -1] = v` -/

theorem isAffine_setTrans {M : Mat (d + 1)} (h : IsAffine M) (v : Vec d) : IsAffine (setTrans M v) := by
  constructor
  · intro j; simp only [setTrans, last_val_not_lt, dif_neg, not_false_eq_true]; exact h.1 j
  · simp only [setTrans, last_val_not_lt, dif_neg, not_false_eq_true]; exact h.2

theorem lin_setTrans (M : Mat (d + 1)) (v : Vec d) : lin (setTrans M v) = lin M := by
  apply Mat.ext; intro i j; simp [lin, setTrans]

theorem trans_setTrans (M : Mat (d + 1)) (v : Vec d) : trans (setTrans M v) = v := by
  apply Vec.ext; intro i; simp [trans, setTrans]

/-! ### `np.fill_diagonal(h_matrix, v); h_matrix[-1, -1] = 1` -/

theorem isAffine_setDiag {M : Mat (d + 1)} (h : IsAffine M) (v : Vec d) : IsAffine (setDiag M v) := by
  constructor
  · intro j
    have : Fin.last d ≠ j.castSucc := (Fin.castSucc_lt_last j).ne'
    simp only [setDiag, this, if_false]; exact h.1 j
  · simp [setDiag]

theorem trans_setDiag (M : Mat (d + 1)) (v : Vec d) : trans (setDiag M v) = trans M := by
  apply Vec.ext; intro i
  simp [trans, setDiag]

theorem lin_setDiag_diag (M : Mat (d + 1)) (v : Vec d) (i : Fin d) : lin (setDiag M v) i i = v i := by
  simp [lin, setDiag]

theorem lin_setDiag_off (M : Mat (d + 1)) (v : Vec d) {i j : Fin d} (h : i ≠ j) :
    lin (setDiag M v) i j = lin M i j := by
  simp [lin, setDiag, h]

/-- on a matrix whose linear block is diagonal, refilling the diagonal gives `diag v` -/
theorem linM_setDiag {M : Mat (d + 1)} {w : Fin d → ℚ} (hM : linM M = Matrix.diagonal w) (v : Vec d) :
    linM (setDiag M v) = Matrix.diagonal v.get := by
  ext i j
  by_cases h : i = j
  · subst h; simp [linM, toM, lin_setDiag_diag]
  · have := congrFun (congrFun hM i) j
    simp only [linM, toM, Matrix.of_apply, Matrix.diagonal_apply_ne _ h] at this ⊢
    rw [lin_setDiag_off M v h]; exact this

/-! ### `h_matrix[:-1, :-1] = R` -/

theorem isAffine_setLin {M : Mat (d + 1)} (h : IsAffine M) (R : Mat d) : IsAffine (setLin M R) := by
  constructor
  · intro j; simp only [setLin, last_val_not_lt, dif_neg, not_false_eq_true]; exact h.1 j
  · simp only [setLin, last_val_not_lt, dif_neg, not_false_eq_true]; exact h.2

theorem lin_setLin (M : Mat (d + 1)) (R : Mat d) : lin (setLin M R) = R := by
  apply Mat.ext; intro i j; simp [lin, setLin]

theorem trans_setLin (M : Mat (d + 1)) (R : Mat d) : trans (setLin M R) = trans M := by
  apply Vec.ext; intro i; simp [trans, setLin]

/-! ### `Affine._from_vector_inplace` -/

theorem isAffine_affineOfParams (d : Nat) (v : List Rat) : IsAffine (affineOfParams d v) := by
  constructor
  · intro j
    have : Fin.last d ≠ j.castSucc := (Fin.castSucc_lt_last j).ne'
    simp [affineOfParams, this]
  · simp [affineOfParams]

/-! ### the quaternion formula of `Rotation._from_vector_inplace` gives an orthogonal matrix -/

theorem quatRot_orth (w x y z : ℚ) (hn : w * w + x * x + y * y + z * z ≠ 0) :
    (toM (quatRot w x y z))ᵀ * toM (quatRot w x y z) = 1 := by
  obtain ⟨n, hdef⟩ : ∃ n, n = w * w + x * x + y * y + z * z := ⟨_, rfl⟩
  have hn' : n ≠ 0 := by rw [hdef]; exact hn
  ext i j
  fin_cases i <;> fin_cases j <;>
    simp [Matrix.mul_apply, Fin.sum_univ_three, quatRot, Mat.ofList, ← hdef] <;>
    field_simp <;> rw [hdef] <;> ring

/-! ### when `from_vector` returns an honest member of the receiver's class -/

theorem smul_one_eq_diagonal (s : ℚ) : s • (1 : Matrix (Fin d) (Fin d) ℚ) = Matrix.diagonal fun _ => s := by
  ext i j; by_cases h : i = j <;> simp [Matrix.diagonal, h]

/-- `self.from_vector(v)` really is a member of the class of `self` — for every parameter vector of
an affine map / translation, for a non-zero scale factor, non-zero scale factors, a similarity
vector other than the degenerate `(a, b) = (-1, 0)`, and every quaternion (a quaternion of squared
norm below 2⁻⁵⁰ leaves the rotation as it is) — whatever the length of the vector, as long as the
code accepts it (numpy broadcasts a single translation value and cycles scale factors). -/
theorem fromVec_honest {c : HCls} {M Mv : Mat (d + 1)} {v : List Rat} (hM : Inv c M)
    (h : fromVec c M v = .ok Mv)
    (hU : baseOf c = .UniformScale → v.getD 0 0 ≠ 0)
    (hN : baseOf c = .NonUniformScale → ∀ x ∈ v, x ≠ 0)
    (hS : baseOf c = .Similarity → ¬ (v.getD 0 0 = -1 ∧ v.getD 1 0 = 0)) :
    Inv c Mv := by
  unfold Inv at hM ⊢
  unfold fromVec at h
  generalize baseOf c = bc at *
  cases bc
  case Homogeneous => trivial
  case Affine =>
    simp only at h
    split at h
    · cases h; exact isAffine_affineOfParams d v
    · cases h
  case Similarity =>
    simp only at h
    split at h
    · split at h
      · rename_i h4 h2
        subst h2
        simp only [Except.ok.injEq] at h
        subst h
        have hne := hS rfl
        refine ⟨⟨fun j => ?_, ?_⟩, (1 + v.getD 0 0) * (1 + v.getD 0 0) + v.getD 1 0 * v.getD 1 0, ?_, ?_⟩
        · fin_cases j <;> simp [Mat.ofList]
        · simp [Mat.ofList]
        · by_cases hb : v.getD 1 0 = 0
          · have ha : 1 + v.getD 0 0 ≠ 0 := fun e => hne ⟨by linarith, hb⟩
            have := mul_self_pos.mpr ha
            rw [hb]; linarith
          · have h1 := mul_self_pos.mpr hb
            have h2 := mul_self_nonneg (1 + v.getD 0 0)
            linarith
        · ext i j
          fin_cases i <;> fin_cases j <;>
            simp [linM, toM, lin, Matrix.mul_apply, Fin.sum_univ_two, Mat.ofList] <;> ring
      · cases h
    · split at h <;> cases h
  case Rotation =>
    simp only at h
    split at h
    · rename_i h3
      subst h3
      split at h
      · split at h
        · cases h; exact hM
        · rename_i hn
          simp only [Except.ok.injEq] at h
          subst h
          obtain ⟨a, t, _⟩ := hM
          refine ⟨isAffine_setLin a _, by rw [trans_setLin]; exact t, ?_⟩
          simp only [linM, lin_setLin]
          refine quatRot_orth _ _ _ _ (fun h0 => hn ?_)
          rw [h0]; norm_num
      · cases h
    · cases h
  case Translation =>
    simp only at h
    obtain ⟨a, e⟩ := hM
    split at h
    · cases h
      exact ⟨isAffine_setTrans a _, by simp only [linM, lin_setTrans]; exact e⟩
    · split at h
      · cases h
        exact ⟨isAffine_setTrans a _, by simp only [linM, lin_setTrans]; exact e⟩
      · cases h
  case UniformScale =>
    simp only at h
    split at h
    · cases h
      obtain ⟨a, t, s, _, e⟩ := hM
      refine ⟨isAffine_setDiag a _, by rw [trans_setDiag]; exact t, v.getD 0 0, hU rfl, ?_⟩
      rw [smul_one_eq_diagonal] at e
      rw [linM_setDiag e, smul_one_eq_diagonal]
    · cases h
  case NonUniformScale =>
    simp only at h
    obtain ⟨a, t, w, hw, e⟩ := hM
    split at h
    · cases h
      refine ⟨isAffine_setDiag a _, by rw [trans_setDiag]; exact t, _, fun i => ?_, linM_setDiag e _⟩
      have := congrFun (congrFun e i) i
      simp only [linM, toM, Matrix.of_apply, lin, Matrix.diagonal_apply_eq] at this
      show M.get i.castSucc i.castSucc ≠ 0
      rw [this]; exact hw i
    · rename_i hlen
      cases h
      refine ⟨isAffine_setDiag a _, by rw [trans_setDiag]; exact t, _, fun i => ?_, linM_setDiag e _⟩
      have hpos : 0 < v.length := Nat.pos_of_ne_zero hlen
      have hlt : i.val % v.length < v.length := Nat.mod_lt _ hpos
      show v.getD (i.val % v.length) 0 ≠ 0
      rw [← List.getElem_eq_getD (h := hlt) 0]
      exact hN rfl _ (List.getElem_mem hlt)
  all_goals exact hM.elim

end MenpoModel.C03
