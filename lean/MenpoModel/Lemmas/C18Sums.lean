/-
C18 helper lemmas: sums, means, variances of rational lists (for the normalisers).
-/
import MenpoModel.Core.C18Feature
import Mathlib.Algebra.Ring.Rat
import Mathlib.Algebra.Order.Field.Rat
import Mathlib.Algebra.BigOperators.Group.List.Basic
import Mathlib.Tactic.Ring
import Mathlib.Tactic.FieldSimp
import Mathlib.Tactic.Linarith

namespace MenpoModel.C18

theorem sum_nil : sum [] = 0 := rfl
theorem sum_cons (a : Rat) (l : List Rat) : sum (a :: l) = a + sum l := by simp [sum]
theorem sum_append (a b : List Rat) : sum (a ++ b) = sum a + sum b := by simp [sum]

theorem sum_map_sub_const (l : List Rat) (m : Rat) :
    sum (l.map (· - m)) = sum l - (l.length : Rat) * m := by
  induction l with
  | nil => simp [sum]
  | cons a t ih => simp only [List.map_cons, sum_cons, ih, List.length_cons]; push_cast; ring

theorem sum_map_div_const (l : List Rat) (s : Rat) : sum (l.map (· / s)) = sum l / s := by
  induction l with
  | nil => simp [sum]
  | cons a t ih => simp only [List.map_cons, sum_cons, ih]; ring

theorem sumsq_map_div_const (l : List Rat) (s : Rat) : sumsq (l.map (· / s)) = sumsq l / (s * s) := by
  unfold sumsq
  induction l with
  | nil => simp [sum]
  | cons a t ih =>
    simp only [List.map_cons, sum_cons, ih]
    by_cases hs : s = 0
    · subst hs; simp
    · field_simp

theorem length_ne_zero {l : List Rat} (h : l ≠ []) : (l.length : Rat) ≠ 0 := by
  have : l.length ≠ 0 := by simpa using h
  exact_mod_cast this

/-- centring removes the mean -/
theorem sum_centred (l : List Rat) (h : l ≠ []) : sum (l.map (· - mean l)) = 0 := by
  rw [sum_map_sub_const]
  unfold mean
  have := length_ne_zero h
  field_simp
  ring

theorem mean_centred (l : List Rat) (h : l ≠ []) : mean (l.map (· - mean l)) = 0 := by
  unfold mean at *
  rw [List.length_map]
  have := sum_centred l h
  unfold mean at this
  rw [this]; simp

/-- on mean-free data the variance is the mean square -/
theorem var_of_mean_zero (l : List Rat) (h : mean l = 0) : var l = sumsq l / (l.length : Rat) := by
  unfold var sumsq; rw [h]; simp

theorem mean_map_div_const (l : List Rat) (s : Rat) : mean (l.map (· / s)) = mean l / s := by
  unfold mean; rw [sum_map_div_const, List.length_map]; ring

theorem var_map_div_const (l : List Rat) (s : Rat) : var (l.map (· / s)) = var l / (s * s) := by
  unfold var
  rw [mean_map_div_const, List.length_map, List.map_map]
  have : ((fun x => (x - mean l / s) * (x - mean l / s)) ∘ fun x => x / s)
      = (fun x => x / (s * s)) ∘ (fun x => (x - mean l) * (x - mean l)) := by
    funext x
    simp only [Function.comp]
    by_cases hs : s = 0
    · subst hs; simp
    · field_simp
  rw [this, ← List.map_map, sum_map_div_const]
  ring

theorem flatten_map_map {α β} (f : α → β) (x : List (List α)) :
    (x.map fun row => row.map f).flatten = x.flatten.map f := by
  induction x with
  | nil => rfl
  | cons r t ih => simp only [List.map_cons, List.flatten_cons, List.map_append, ih]

/-- a non-negative number whose square is 1 is 1 -/
theorem eq_one_of_sq (s : Rat) (h0 : 0 ≤ s) (h : s * s = 1) : s = 1 := by
  have : (s - 1) * (s + 1) = 0 := by ring_nf; linarith
  rcases mul_eq_zero.mp this with h1 | h1
  · linarith
  · linarith

end MenpoModel.C18
