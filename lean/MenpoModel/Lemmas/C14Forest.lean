/-
C14 — counting the edges of a connected undirected graph through the DFS run of the cycle detector:
the run from any root of a connected graph records `n - 1` tree edges, all different graph edges;
without a back edge every graph edge is a tree edge (`m = n - 1`), with a back edge there is a graph
edge that is no tree edge (`m ≥ n`).  Hence, for connected graphs of every size,
"`_has_cycles` answers False" ⇔ "acyclic" ⇔ "`n - 1` edges".  Core Lean only.
-/
import MenpoModel.Lemmas.C14DfsDir
import MenpoModel.Lemmas.C14DfsUnd

namespace MenpoModel.C14.Dfs
open MenpoModel.C14

theorem Exec.tree_mono {adj d c st st'} (h : Exec adj d c st st') : ∀ e ∈ st.treeEdges, e ∈ st'.treeEdges := by
  induction h with
  | skip _ => exact fun _ h => h
  | visit _ _ ih => intro e he; exact ih e (by simpa using he)
  | nil => exact fun _ h => h
  | @cons node y ys st st1 st2 _ _ ih1 ih2 =>
    intro e he
    refine ih2 e (ih1 e ?_)
    rw [mark_tree]; split
    · exact he
    · simp [he]

/-- the run from root `x`: what is known at every state in which `x` has been entered -/
structure FInv (adj : Nat → List Nat) (x : Nat) (st : St) : Prop where
  rootIn : x ∈ st.entered
  rootNoKey : ∀ e ∈ st.treeEdges, e.1 ≠ x
  cover : ∀ v ∈ st.entered, v = x ∨ ∃ p, (v, p) ∈ st.treeEdges
  noAnti : ∀ c p, (c, p) ∈ st.treeEdges → (p, c) ∉ st.treeEdges
  closed : ∀ u ∈ st.exited, ∀ y ∈ adj u, y ∈ st.entered
  cls : st.backEdges = [] → ∀ u ∈ st.exited, ∀ y ∈ adj u, (y, u) ∈ st.treeEdges ∨ (u, y) ∈ st.treeEdges
  back : ∀ b ∈ st.backEdges, b.1 ∈ adj b.2 ∧ b.1 ∈ st.entered ∧ b.2 ∈ st.entered ∧
    (b.1 = b.2 ∨ ((b.1, b.2) ∉ st.treeEdges ∧ (b.2, b.1) ∉ st.treeEdges))

theorem finv_mark {adj x st node y} (hinv : SInv adj st none) (hf : FInv adj x st) (hn : node ∈ st.entered)
    (hyadj : y ∈ adj node) (hch : (y, node) ∉ st.treeEdges) : FInv adj x (mark false node st y) := by
  by_cases hy : st.entered.contains y = true
  · -- `y` entered: the tree edges stay, possibly a back edge is recorded
    have hy' := (contains_iff _ _).1 hy
    have hT : (mark false node st y).treeEdges = st.treeEdges := by rw [mark_tree, if_pos hy]
    refine ⟨by simpa using hf.rootIn, by rw [hT]; exact hf.rootNoKey, ?_, by rw [hT]; exact hf.noAnti,
      by simpa using hf.closed, ?_, ?_⟩
    · intro v hv; rw [hT]; exact hf.cover v (by simpa using hv)
    · intro hb; rw [hT]; simpa using hf.cls (mark_back_nil _ _ _ _ hb)
    · intro b hb
      rw [hT]; simp only [mark_entered]
      rw [mark_false_back] at hb
      split at hb
      · rename_i hcond
        simp only [Bool.and_eq_true, contains_iff, bne_iff_ne, ne_eq] at hcond
        simp only [List.mem_cons] at hb
        rcases hb with rfl | hb
        · refine ⟨hyadj, hy', hn, Or.inr ⟨hch, fun hmem => hcond.2 (lookup_of_mem _ _ _ hmem hinv.keysNodup)⟩⟩
        · exact hf.back b hb
      · exact hf.back b hb
  · -- `y` new: the tree edge `(y, node)` is recorded
    have hy' : y ∉ st.entered := by simpa using hy
    have hT : (mark false node st y).treeEdges = (y, node) :: st.treeEdges := by rw [mark_tree, if_neg hy]
    have hB : (mark false node st y).backEdges = st.backEdges := by
      have hyf : st.entered.contains y = false := by simpa using hy
      rw [mark_false_back, hyf]; simp
    refine ⟨by simpa using hf.rootIn, ?_, ?_, ?_, by simpa using hf.closed, ?_, ?_⟩
    · intro e he; rw [hT] at he; simp only [List.mem_cons] at he
      rcases he with rfl | he
      · intro h; simp only at h; subst h; exact hy' hf.rootIn
      · exact hf.rootNoKey e he
    · intro v hv; rw [hT]
      rcases hf.cover v (by simpa using hv) with h | ⟨p, hp⟩
      · exact Or.inl h
      · exact Or.inr ⟨p, by simp [hp]⟩
    · intro c p hcp hpc
      rw [hT] at hcp hpc
      simp only [List.mem_cons, Prod.mk.injEq] at hcp hpc
      rcases hcp with ⟨rfl, rfl⟩ | hcp
      · rcases hpc with ⟨h1, h2⟩ | hpc
        · exact hy' (h2 ▸ hn)
        · exact hy' (hinv.vals _ hpc)
      · rcases hpc with ⟨h1, h2⟩ | hpc
        · exact hy' (h1 ▸ hinv.vals _ hcp)
        · exact hf.noAnti c p hcp hpc
    · intro hb u hu y' hy'' ; rw [hT]
      rcases hf.cls (hB ▸ hb) u (by simpa using hu) y' hy'' with h | h
      · exact Or.inl (by simp [h])
      · exact Or.inr (by simp [h])
    · intro b hb
      rw [hB] at hb; rw [hT]; simp only [mark_entered]
      obtain ⟨h1, h2, h3, h4⟩ := hf.back b hb
      refine ⟨h1, h2, h3, ?_⟩
      rcases h4 with h4 | ⟨h4, h5⟩
      · exact Or.inl h4
      · refine Or.inr ⟨?_, ?_⟩
        · simp only [List.mem_cons, Prod.mk.injEq, not_or, not_and]
          exact ⟨fun h _ => hy' (h ▸ h2), h4⟩
        · simp only [List.mem_cons, Prod.mk.injEq, not_or, not_and]
          exact ⟨fun h _ => hy' (h ▸ h3), h5⟩

theorem finv_enter {adj x st y} (hf : FInv adj x st) (hpre : y ∈ st.entered ∨ ∃ p, (y, p) ∈ st.treeEdges) :
    FInv adj x (enter y st) := by
  refine ⟨by simp [hf.rootIn], hf.rootNoKey, ?_, hf.noAnti, ?_, hf.cls, ?_⟩
  · intro v hv
    simp only [enter_entered, List.mem_cons] at hv
    rcases hv with rfl | hv
    · rcases hpre with h | h
      · exact hf.cover v h
      · exact Or.inr h
    · exact hf.cover v hv
  · intro u hu y' hy'; simp; exact Or.inr (hf.closed u hu y' hy')
  · intro b hb
    obtain ⟨h1, h2, h3, h4⟩ := hf.back b hb
    exact ⟨h1, by simp [h2], by simp [h3], h4⟩

theorem finv_exit {adj x st y} (hf : FInv adj x st) (h1 : ∀ y' ∈ adj y, y' ∈ st.entered)
    (h2 : st.backEdges = [] → ∀ y' ∈ adj y, (y', y) ∈ st.treeEdges ∨ (y, y') ∈ st.treeEdges) :
    FInv adj x (exit y st) := by
  refine ⟨hf.rootIn, hf.rootNoKey, hf.cover, hf.noAnti, ?_, ?_, hf.back⟩
  · intro u hu y' hy'
    simp only [exit_exited, List.mem_cons] at hu
    rcases hu with rfl | hu
    · exact h1 y' hy'
    · exact hf.closed u hu y' hy'
  · intro hb u hu y' hy'
    simp only [exit_exited, List.mem_cons] at hu
    rcases hu with rfl | hu
    · exact h2 hb y' hy'
    · exact hf.cls hb u hu y' hy'

theorem und_finv {adj : Nat → List Nat} (hnd : ∀ u, (adj u).Nodup) (x : Nat) {c st st'}
    (h : Exec adj false c st st') :
    (match c with
      | .call y => SInv adj st (some y) ∧ (y ∈ st.entered ∨ ∃ p, (y, p) ∈ st.treeEdges)
      | .loop node ys => LoopPre adj node ys st) →
    FInv adj x st →
    FInv adj x st' ∧ (match c with
      | .call _ => True
      | .loop node ys => (∀ y ∈ ys, y ∈ st'.entered) ∧
          (st'.backEdges = [] → ∀ y ∈ ys, (y, node) ∈ st'.treeEdges ∨ (node, y) ∈ st'.treeEdges)) := by
  induction h with
  | skip _ => exact fun _ hf => ⟨hf, trivial⟩
  | @visit y st st2 hy _ ih =>
    intro hpre hf
    obtain ⟨hf2, h1, h2⟩ := ih (loopPre_enter hnd hpre.1 ((contains_false_iff _ _).1 hy)) (finv_enter hf hpre.2)
    exact ⟨finv_exit hf2 h1 h2, trivial⟩
  | nil => exact fun _ hf => ⟨hf, fun _ h => by simp at h, fun _ _ h => by simp at h⟩
  | @cons node y ys st st1 st2 h1 h2 ih1 ih2 =>
    intro hpre hf
    obtain ⟨hinv, hn, hndys, hys, hch⟩ := hpre
    have hyadj : y ∈ adj node := hys y (by simp)
    have hinv1 := sinv_mark hinv hn hyadj
    have hf1 := finv_mark hinv hf hn hyadj (hch y (by simp))
    have hcall : y ∈ (mark false node st y).entered ∨ ∃ p, (y, p) ∈ (mark false node st y).treeEdges := by
      by_cases hy : st.entered.contains y = true
      · exact Or.inl (by simpa using hy)
      · exact Or.inr ⟨node, by rw [mark_tree, if_neg hy]; simp⟩
    obtain ⟨hf2, -⟩ := ih1 ⟨hinv1, hcall⟩ hf1
    have hinv2 := und_sinv hnd h1 rfl hinv1
    obtain ⟨hf3, hent, hcl⟩ := ih2 ⟨hinv2, h1.entered_mono _ (by simpa using hn), (List.nodup_cons.1 hndys).2,
      fun y' hy' => hys y' (by simp [hy']), children_fresh h1 hn hndys hch⟩ hf2
    refine ⟨hf3, ?_, ?_⟩
    · intro y' hy'
      simp only [List.mem_cons] at hy'
      rcases hy' with rfl | hy'
      · exact h2.entered_mono _ h1.call_entered
      · exact hent y' hy'
    · intro hb y' hy'
      simp only [List.mem_cons] at hy'
      rcases hy' with rfl | hy'
      · have hm := h1.back_nil (h2.back_nil hb)
        have hmono : ∀ e ∈ (mark false node st y').treeEdges, e ∈ st2.treeEdges :=
          fun e he => h2.tree_mono e (h1.tree_mono e he)
        by_cases hy : st.entered.contains y' = true
        · rw [mark_false_back] at hm
          by_cases hl : lookup st.treeEdges node = some y'
          · exact Or.inr (hmono _ (by rw [mark_tree, if_pos hy]; exact lookup_mem _ _ _ hl))
          · exfalso
            have : (st.entered.contains y' && (lookup st.treeEdges node != some y')) = true := by
              rw [hy, Bool.true_and]; simpa using hl
            rw [if_pos this] at hm
            cases hm
        · exact Or.inl (hmono _ (by rw [mark_tree, if_neg hy]; simp))
      · exact hcl hb y' hy'

/-- the state after the top-level call `dfs(x)` from the empty state -/
theorem top_finv {adj : Nat → List Nat} (hnd : ∀ u, (adj u).Nodup) (x : Nat) {st' : St}
    (h : Exec adj false (.call x) St.empty st') : FInv adj x st' ∧ SInv adj st' none := by
  have hs' := und_sinv hnd h rfl (sinv_empty adj x)
  refine ⟨?_, hs'⟩
  cases h with
  | skip hc => simp [St.empty] at hc
  | visit hc hloop =>
    have hf0 : FInv adj x (enter x St.empty) :=
      ⟨by simp, fun e he => by simp [St.empty] at he, fun v hv => by simp [St.empty] at hv; exact Or.inl hv,
        fun c p h => by simp [St.empty] at h, fun u hu => by simp [St.empty] at hu,
        fun _ u hu => by simp [St.empty] at hu, fun b hb => by simp [St.empty] at hb⟩
    obtain ⟨hf2, h1, h2⟩ := und_finv hnd x hloop
      (loopPre_enter hnd (sinv_empty adj x) (by simp [St.empty])) hf0
    exact finv_exit hf2 h1 h2

/-! ### counting -/

/-- an undirected edge as the ordered pair (small, large) -/
def norm (e : Nat × Nat) : Nat × Nat := if e.1 ≤ e.2 then e else (e.2, e.1)

/-- the undirected edges of a symmetric adjacency function, each once (`triu(adjacency).nonzero()`) -/
def uedges (adj : Nat → List Nat) (n : Nat) : List (Nat × Nat) :=
  (List.range n).flatMap fun i => ((adj i).filter fun j => decide (i ≤ j)).map fun j => (i, j)

theorem mem_uedges (adj : Nat → List Nat) (n i j : Nat) : (i, j) ∈ uedges adj n ↔ i < n ∧ j ∈ adj i ∧ i ≤ j := by
  simp only [uedges, List.mem_flatMap, List.mem_range, List.mem_map, List.mem_filter, decide_eq_true_eq,
    Prod.mk.injEq]
  constructor
  · rintro ⟨a, ha, b, ⟨hb1, hb2⟩, rfl, rfl⟩; exact ⟨ha, hb1, hb2⟩
  · rintro ⟨h1, h2, h3⟩; exact ⟨i, h1, j, ⟨h2, h3⟩, rfl, rfl⟩

theorem uedges_nodup (adj : Nat → List Nat) (hnd : ∀ u, (adj u).Nodup) (n : Nat) : (uedges adj n).Nodup :=
  nodup_flatMap_pairs _ List.nodup_range _ (fun i => List.Nodup.sublist List.filter_sublist (hnd i))

theorem norm_eq_cases (e e' : Nat × Nat) (h : norm e = norm e') : e = e' ∨ e = (e'.2, e'.1) := by
  obtain ⟨a, b⟩ := e
  obtain ⟨c, d⟩ := e'
  unfold norm at h
  simp only at h
  split at h <;> split at h <;> simp only [Prod.mk.injEq] at h ⊢ <;> omega

theorem norm_tree_nodup : ∀ (T : List (Nat × Nat)), (T.map (·.1)).Nodup → (∀ c p, (c, p) ∈ T → (p, c) ∉ T) →
    (T.map norm).Nodup
  | [], _, _ => by simp
  | e :: T, hk, ha => by
    simp only [List.map_cons, List.nodup_cons] at hk ⊢
    refine ⟨?_, norm_tree_nodup T hk.2 (fun c p h1 h2 => ha c p (by simp [h1]) (by simp [h2]))⟩
    intro hmem
    obtain ⟨e', he', hn⟩ := List.mem_map.1 hmem
    rcases norm_eq_cases e' e hn with h | h
    · exact hk.1 (List.mem_map.2 ⟨e', he', by rw [h]⟩)
    · exact ha e.1 e.2 (by simp) (by rw [← h]; simp [he'])

theorem mem_norm_uedges {adj : Nat → List Nat} (hs : Sym adj) {n : Nat} (hwf : ∀ u, ∀ y ∈ adj u, y < n)
    (c p : Nat) (h : c ∈ adj p) : norm (c, p) ∈ uedges adj n := by
  have hp : p ∈ adj c := hs _ _ h
  unfold norm
  split
  · rename_i hle
    exact (mem_uedges adj n c p).2 ⟨hwf p c h, hp, hle⟩
  · rename_i hle
    simp only at hle
    exact (mem_uedges adj n p c).2 ⟨hwf c p hp, h, by omega⟩

theorem length_eq_of_subset_both {α} [DecidableEq α] (a b : List α) (ha : a.Nodup) (hb : b.Nodup)
    (h1 : a ⊆ b) (h2 : b ⊆ a) : a.length = b.length :=
  Nat.le_antisymm (List.Nodup.length_le_of_subset ha h1) (List.Nodup.length_le_of_subset hb h2)

/-- THE COUNT.  Run the detector's DFS from a root `x` from which every vertex can be reached (the graph
is connected): `n - 1 ≤ m`, and no back edge is recorded iff `m = n - 1`. -/
theorem back_nil_iff_edge_count (adjL : List (List Nat)) (hwf : ∀ u, ∀ y ∈ adjOf adjL u, y < adjL.length)
    (hs : Sym (adjOf adjL)) (hnd : ∀ u, (adjOf adjL u).Nodup) (x : Nat) (hx : x < adjL.length)
    (hconn : ∀ v, v < adjL.length → Walk (adjOf adjL) x v) :
    adjL.length ≤ (uedges (adjOf adjL) adjL.length).length + 1 ∧
    ((dfs adjL false (2 * adjL.length + 2) x ⟨[], [], [], []⟩).backEdges = [] ↔
      (uedges (adjOf adjL) adjL.length).length + 1 = adjL.length) := by
  have hex := top_exec adjL false hwf x hx
  generalize dfs adjL false (2 * adjL.length + 2) x ⟨[], [], [], []⟩ = st' at hex
  generalize hn : adjL.length = n at *
  generalize hadj : adjOf adjL = adj at *
  obtain ⟨hf, hinv⟩ := top_finv hnd x hex
  -- every vertex is entered (and exited)
  have hgray : ∀ v, v ∈ st'.entered → v ∈ st'.exited := by
    intro v hv
    apply Classical.byContradiction
    intro hne
    have := (hex.gray_iff v).1 ⟨hv, hne⟩
    simp [Gray, St.empty] at this
  have hall : ∀ v, v < n → v ∈ st'.entered := by
    intro v hv
    have hw := hconn v hv
    clear hv
    have : x ∈ st'.entered → v ∈ st'.entered := by
      induction hw with
      | refl => exact id
      | tail _ hc ih => intro hx'; exact hf.closed _ (hgray _ (ih hx')) _ hc
    exact this hf.rootIn
  have hlt : ∀ v ∈ st'.entered, v < n :=
    hex.entered_lt n hwf hx (by simp [St.empty])
  have hend : st'.entered.Nodup := hex.entered_nodup (by simp [St.empty])
  have hlen : st'.entered.length = n := by
    have := length_eq_of_subset_both st'.entered (List.range n) hend List.nodup_range
      (fun v hv => List.mem_range.2 (hlt v hv)) (fun v hv => hall v (List.mem_range.1 hv))
    simpa using this
  -- n - 1 tree edges
  have hkeys := sinv_keys hinv
  have hxk : x ∉ st'.treeEdges.map (·.1) := by
    intro hmem
    obtain ⟨e, he, hex'⟩ := List.mem_map.1 hmem
    exact hf.rootNoKey e he hex'
  have hTlen : st'.treeEdges.length + 1 = n := by
    have := length_eq_of_subset_both (x :: st'.treeEdges.map (·.1)) st'.entered
      (List.nodup_cons.2 ⟨hxk, hinv.keysNodup⟩) hend ?_ ?_
    · simpa [hlen] using this
    · intro v hv
      simp only [List.mem_cons] at hv
      rcases hv with rfl | hv
      · exact hf.rootIn
      · obtain ⟨e, he, rfl⟩ := List.mem_map.1 hv
        exact hkeys e he
    · intro v hv
      rcases hf.cover v hv with rfl | ⟨p, hp⟩
      · simp
      · exact List.mem_cons_of_mem _ (List.mem_map.2 ⟨(v, p), hp, rfl⟩)
  -- tree edges are different graph edges
  have hTn : (st'.treeEdges.map norm).Nodup := norm_tree_nodup _ hinv.keysNodup hf.noAnti
  have hTsub : st'.treeEdges.map norm ⊆ uedges adj n := by
    intro e he
    obtain ⟨⟨c, p⟩, hcp, rfl⟩ := List.mem_map.1 he
    exact mem_norm_uedges hs hwf c p (hinv.edge _ hcp)
  have hle : st'.treeEdges.length ≤ (uedges adj n).length := by
    have := List.Nodup.length_le_of_subset hTn hTsub
    simpa using this
  refine ⟨by omega, ?_⟩
  constructor
  · -- no back edge: every graph edge is a tree edge
    intro hb
    have hsup : uedges adj n ⊆ st'.treeEdges.map norm := by
      intro e he
      obtain ⟨i, j⟩ := e
      obtain ⟨hi, hj, hij⟩ := (mem_uedges adj n i j).1 he
      rcases hf.cls hb i (hgray i (hall i hi)) j hj with h | h
      · refine List.mem_map.2 ⟨(j, i), h, ?_⟩
        unfold norm
        by_cases hji : j ≤ i
        · have : i = j := by omega
          subst this; simp
        · simp [hji]
      · exact List.mem_map.2 ⟨(i, j), h, by simp [norm, hij]⟩
    have := List.Nodup.length_le_of_subset (uedges_nodup adj hnd n) hsup
    simp only [List.length_map] at this
    omega
  · -- a back edge is a graph edge that is no tree edge
    intro hcount
    rcases hbe : st'.backEdges with _ | ⟨b, l⟩
    · rfl
    · exfalso
      obtain ⟨h1, _, _, h4⟩ := hf.back b (by simp [hbe])
      obtain ⟨b1, b2⟩ := b
      simp only at h1 h4
      have hnot : norm (b1, b2) ∉ st'.treeEdges.map norm := by
        intro hmem
        obtain ⟨e, he, hn'⟩ := List.mem_map.1 hmem
        rcases h4 with rfl | h4
        · have : e = (b1, b1) := by
            rcases norm_eq_cases e (b1, b1) hn' with h | h <;> exact h
          subst this
          exact hf.noAnti b1 b1 he he
        · rcases norm_eq_cases e (b1, b2) hn' with h | h
          · exact h4.1 (h ▸ he)
          · exact h4.2 (h ▸ he)
      have := List.Nodup.length_le_of_subset (List.nodup_cons.2 ⟨hnot, hTn⟩)
        (fun e he => by
          simp only [List.mem_cons] at he
          rcases he with rfl | he
          · exact mem_norm_uedges hs hwf _ _ h1
          · exact hTsub he)
      simp only [List.length_cons, List.length_map] at this
      omega

end MenpoModel.C14.Dfs
