/-
C02: the in-place pass on a tree laid out in disjoint intervals rebinds `points` of exactly the shape
objects of that tree, and the result represents the mapped value.  Core Lean only.
-/
import MenpoModel.Lemmas.C02Rep

namespace MenpoModel.C02

theorem repIn_iff (h : Heap) (c : SCls) (x : Arr) (gs : Groups) (ex : Extra) (lo hi : Nat) (v : Val) :
    RepIn h (.mk c x gs ex) lo hi v ↔
    ∃ a fs p m0 m, v = .ref a ∧ lo ≤ m0 ∧ m0 ≤ m ∧ m ≤ a ∧ a < hi ∧ h[a]? = some (.obj (.shape c) fs) ∧
      fs.lookup "points" = some (.ref p) ∧ h[p]? = some (.arr x) ∧ RepX h fs ex ∧ LabelOK h c fs ∧
      LmIn h fs gs m0 m := by
  unfold RepIn LmIn; exact Iff.rfl

theorem mapGroups_cons (f : Arr → Arr) (n : String) (g : Shape) (r : Groups) :
    mapGroups f (.cons n g r) = .cons n (mapShape f g) (mapGroups f r) := by
  simp only [mapGroups]
theorem mapGroups_nil (f : Arr → Arr) : mapGroups f .nil = .nil := by simp only [mapGroups]
theorem mapShape_mk (f : Arr → Arr) (c : SCls) (x : Arr) (gs : Groups) (ex : Extra) :
    mapShape f (.mk c x gs ex) = .mk c (f x) (mapGroups f gs) ex := by simp only [mapShape]

theorem RepIn.le {h : Heap} : ∀ (s : Shape) (lo hi : Nat) (v : Val), RepIn h s lo hi v → lo < hi
  | .mk c x gs ex, lo, hi, v, r => by
    rw [repIn_iff] at r
    obtain ⟨a, fs, p, m0, m, _, q1, q2, q3, q4, _⟩ := r
    omega

/-- what a correct `_transform_inplace` does to a laid-out tree -/
def InplaceSpec (f : Arr → Arr) (rec : Heap → Val → Except Err Heap) : Prop :=
  ∀ (s : Shape) (h : Heap) (lo hi : Nat) (v : Val) (h' : Heap),
    RepIn h s lo hi v → rec h v = .ok h' → Frame lo hi h h' ∧ RepIn h' (mapShape f s) lo hi v

theorem inplaceGroups_spec (f : Arr → Arr) (rec : Heap → Val → Except Err Heap) (hrec : InplaceSpec f rec) :
    ∀ (gs : Groups) (gvs : Slots) (lo hi : Nat) (h h' : Heap),
      RepGIn h gs lo hi gvs → inplaceGroups rec h gvs = .ok h' →
      Frame lo hi h h' ∧ RepGIn h' (mapGroups f gs) lo hi gvs
  | .nil, gvs, lo, hi, h, h', r, hrun => by
    unfold RepGIn at r
    obtain ⟨rfl, hle⟩ := r
    simp only [inplaceGroups, Except.ok.injEq] at hrun
    subst hrun
    refine ⟨Frame.refl _ _ _, ?_⟩
    rw [mapGroups_nil]; unfold RepGIn; exact ⟨rfl, hle⟩
  | .cons n g rest, gvs, lo, hi, h, h', r, hrun => by
    unfold RepGIn at r
    obtain ⟨v, t, m, rfl, h2, h3⟩ := r
    simp only [inplaceGroups] at hrun
    cases hr : rec h v with
    | error e => rw [hr] at hrun; cases hrun
    | ok h1 =>
      rw [hr] at hrun
      simp only at hrun
      have hlo : lo < m := RepIn.le g lo m v h2
      have hhi : m ≤ hi := RepGIn.le rest m hi t h3
      obtain ⟨f1, r1⟩ := hrec g h lo m v h1 h2 hr
      have h3' : RepGIn h1 rest m hi t := RepGIn.frame f1 rest m hi t (.inl (Nat.le_refl _)) h3
      obtain ⟨f2, r2⟩ := inplaceGroups_spec f rec hrec rest t m hi h1 h' h3' hrun
      refine ⟨(f1.mono (Nat.le_refl _) hhi).trans (f2.mono (Nat.le_of_lt hlo) (Nat.le_refl _)), ?_⟩
      rw [mapGroups_cons]; unfold RepGIn
      exact ⟨v, t, m, rfl, RepIn.frame f2 _ lo m v (.inr (Nat.le_refl _)) r1, r2⟩

theorem landmarksInplace_spec (f : Arr → Arr) (rec : Heap → Val → Except Err Heap) (hrec : InplaceSpec f rec)
    {h h1 : Heap} {fs : Slots} {gs : Groups} {m0 m : Nat} (hl : LmIn h fs gs m0 m)
    (hrun : landmarksInplace expectedDispatch rec h fs = .ok h1) :
    Frame m0 m h h1 ∧ LmIn h1 fs (mapGroups f gs) m0 m := by
  unfold landmarksInplace at hrun
  rcases hl with ⟨hl, rfl⟩ | ⟨l, ls, g, gvs, q1, q2, q3, q4, q5⟩
  · simp only [hasLandmarks, hl, Except.ok.injEq] at hrun
    subst hrun
    exact ⟨Frame.refl _ _ _, .inl ⟨hl, mapGroups_nil f⟩⟩
  · simp only [hasLandmarks, q1, q2, q3, q4] at hrun
    cases gvs with
    | nil =>
      simp only [List.isEmpty_nil, if_true, Except.ok.injEq] at hrun
      subst hrun
      have : gs = .nil := by
        cases gs with
        | nil => rfl
        | cons n g' r => unfold RepGIn at q5; obtain ⟨_, _, _, hh, _⟩ := q5; cases hh
      subst this
      refine ⟨Frame.refl _ _ _, .inr ⟨l, ls, g, [], q1, q2, q3, q4, ?_⟩⟩
      rw [mapGroups_nil]; exact q5
    | cons gv gt =>
      simp only [List.isEmpty_cons, Bool.false_eq_true, if_false, supInplace_lm] at hrun
      obtain ⟨fr, r⟩ := inplaceGroups_spec f rec hrec gs (gv :: gt) m0 m h h1 q5 hrun
      exact ⟨fr, .inr ⟨l, ls, g, gv :: gt, q1, fr.keep q2 (fun _ _ hh => by cases hh), q3,
        fr.keep q4 (fun _ _ hh => by cases hh), r⟩⟩

theorem selfInplace_spec (f : Arr → Arr) {h : Heap} {a p : Nat} {c : SCls} {fs : Slots} {x : Arr}
    (ha : h[a]? = some (.obj (.shape c) fs)) (hp : fs.lookup "points" = some (.ref p))
    (hpx : h[p]? = some (.arr x)) :
    ∃ h', selfInplace f h a = .ok h' ∧ Frame a (a + 1) h h' ∧
      h'[a]? = some (.obj (.shape c) (setSlot fs "points" (.ref h.length))) ∧
      h'[h.length]? = some (.arr (f x)) := by
  have hal : a < h.length := get_lt ha
  have hrun : selfInplace f h a = .ok ((h ++ [Cell.arr (f x)]).set a
      (.obj (.shape c) (setSlot fs "points" (.ref h.length)))) := by
    simp only [selfInplace, ha, hp, hpx]
  have hlen : a < (h ++ [Cell.arr (f x)]).length := by
    rw [List.length_append]; exact Nat.lt_add_right _ hal
  refine ⟨_, hrun, ⟨?_, fun b hb => ?_⟩, ?_, ?_⟩
  · rw [List.length_set, List.length_append]; exact Nat.le_add_right _ _
  · by_cases hba : b = a
    · subst hba
      refine .inr ⟨Nat.le_refl _, Nat.lt_succ_self _, c, fs, .ref h.length, ha, ?_⟩
      rw [List.getElem?_set_self hlen]
    · left
      rw [List.getElem?_set_ne (Ne.symm hba), List.getElem?_append_left hb]
  · rw [List.getElem?_set_self hlen]
  · rw [List.getElem?_set_ne (by omega)]; simp

theorem inplace_spec (f : Arr → Arr) : ∀ k, InplaceSpec f (inplace expectedDispatch f k) := by
  intro k
  induction k with
  | zero => intro s h lo hi v h' _ hrun; simp [inplace] at hrun
  | succ k ih =>
    intro s h lo hi v h' r hrun
    cases s with
    | mk c x gs ex =>
      rw [repIn_iff] at r
      obtain ⟨a, fs, p, m0, m, rfl, q1, q2, q3, q4, ha, hp, hpx, hx, hlab, hl⟩ := r
      simp only [inplace, ha, supInplace_shape] at hrun
      cases hlm : landmarksInplace expectedDispatch (inplace expectedDispatch f k) h fs with
      | error e => rw [hlm] at hrun; cases hrun
      | ok h1 =>
        rw [hlm] at hrun
        simp only at hrun
        obtain ⟨f1, l1⟩ := landmarksInplace_spec f _ ih hl hlm
        have ha1 : h1[a]? = some (.obj (.shape c) fs) := f1.keep_out ha (.inr q3)
        have hpx1 : h1[p]? = some (.arr x) := f1.keep hpx (fun _ _ hh => by cases hh)
        obtain ⟨h2, e2, f2, ha2, hn2⟩ := selfInplace_spec f ha1 hp hpx1
        simp only [selfStage, ha1, supSelf_shape] at hrun
        rw [e2] at hrun
        injection hrun with hrun
        subst hrun
        refine ⟨(f1.mono q1 (by omega)).trans (f2.mono (by omega) (by omega)), ?_⟩
        rw [mapShape_mk, repIn_iff]
        refine ⟨a, _, h1.length, m0, m, rfl, q1, q2, q3, q4, ha2, lookup_setSlot_self fs _ hp, hn2, ?_, ?_, ?_⟩
        · intro y yv hy
          obtain ⟨hne, hr⟩ := (hx.frame f1).frame f2 y yv hy
          refine ⟨hne, ?_⟩
          cases yv with
          | imm t => simp only at hr ⊢; rw [lookup_setSlot_ne fs _ hne]; exact hr
          | arr dd =>
            simp only at hr ⊢
            obtain ⟨b, hb1, hb2⟩ := hr
            exact ⟨b, by rw [lookup_setSlot_ne fs _ hne]; exact hb1, hb2⟩
          | dict items => trivial
          | deep toks => trivial
        · intro hc
          obtain ⟨mm, ms, e1, e2', e3⟩ := (hlab.frame f1).frame f2 hc
          exact ⟨mm, ms, by rw [lookup_setSlot_ne fs _ (by decide)]; exact e1, e2', e3⟩
        · rcases l1 with ⟨e1, e2'⟩ | ⟨l, ls, g, gvs, e1, e2', e3, e4, e5⟩
          · exact .inl ⟨by rw [lookup_setSlot_ne fs _ (by decide)]; exact e1, e2'⟩
          · exact .inr ⟨l, ls, g, gvs, by rw [lookup_setSlot_ne fs _ (by decide)]; exact e1,
              f2.keep e2' (fun _ _ hh => by cases hh), e3, f2.keep e4 (fun _ _ hh => by cases hh),
              RepGIn.frame f2 _ m0 m gvs (.inr q3) e5⟩

end MenpoModel.C02
