/-
C14 — the DFS cycle detector on DIRECTED graphs of every size: `_has_cycles(adjacency_list, True)`
answers `True` exactly when the graph has a closed walk of length ≥ 1.
Soundness: a recorded back edge `node → y` has `y` on the recursion stack, and every stack vertex
reaches the node being visited.  Completeness: while no back edge is recorded the `exited` list is a
reverse topological order (every successor of an exited vertex exited earlier), and a closed walk
cannot live inside such a list.  Core Lean only.
-/
import MenpoModel.Lemmas.C14Dfs

namespace MenpoModel.C14.Dfs
open MenpoModel.C14

/-- walk along `adj` of length ≥ 0 -/
inductive Walk (adj : Nat → List Nat) : Nat → Nat → Prop where
  | refl (v : Nat) : Walk adj v v
  | tail {a b c : Nat} : Walk adj a b → c ∈ adj b → Walk adj a c

theorem Walk.trans {adj a b c} (h1 : Walk adj a b) (h2 : Walk adj b c) : Walk adj a c := by
  induction h2 with
  | refl => exact h1
  | tail _ hc ih => exact Walk.tail ih hc

theorem Walk.head {adj a b c} (h : b ∈ adj a) (h2 : Walk adj b c) : Walk adj a c :=
  Walk.trans (Walk.tail (Walk.refl a) h) h2

/-- the textbook reference for directed graphs: some edge `v → c` lies on a closed walk -/
def DirCycle (adj : Nat → List Nat) : Prop := ∃ v c, c ∈ adj v ∧ Walk adj c v

/-- every recorded back edge `(y, node)` is an edge `node → y` closing a walk `y ⇝ node` -/
def BackOK (adj : Nat → List Nat) (st : St) : Prop := ∀ e ∈ st.backEdges, e.1 ∈ adj e.2 ∧ Walk adj e.1 e.2

theorem mark_true_back (node : Nat) (st : St) (y : Nat) :
    (mark true node st y).backEdges =
      if st.entered.contains y && !st.exited.contains y then (y, node) :: st.backEdges else st.backEdges := by
  unfold mark
  cases h1 : st.entered.contains y <;> cases h2 : st.exited.contains y <;> simp

theorem dir_sound {adj : Nat → List Nat} {c st st'} (h : Exec adj true c st st') :
    (match c with
      | .call node => ∀ u, Gray st u → Walk adj u node
      | .loop node ys => (∀ u, Gray st u → Walk adj u node) ∧ ∀ y ∈ ys, y ∈ adj node) →
    BackOK adj st → BackOK adj st' := by
  induction h with
  | skip _ => exact fun _ h => h
  | @visit node st st2 _ _ ih =>
    intro hg hb
    have := ih ⟨?_, fun y hy => hy⟩ hb
    · exact this
    · intro u hu
      simp only [Gray, enter_entered, enter_exited, List.mem_cons] at hu
      rcases hu.1 with rfl | h1
      · exact Walk.refl _
      · exact hg u ⟨h1, hu.2⟩
  | nil => exact fun _ h => h
  | @cons node y ys st st1 st2 h1 _ ih1 ih2 =>
    intro hc hb
    obtain ⟨hg, hys⟩ := hc
    have hy : y ∈ adj node := hys y (by simp)
    have hb1 : BackOK adj (mark true node st y) := by
      intro e he
      rw [mark_true_back] at he
      split at he
      · rename_i hcond
        simp only [List.mem_cons] at he
        rcases he with rfl | he
        · simp only [Bool.and_eq_true, Bool.not_eq_true', contains_iff, contains_false_iff] at hcond
          exact ⟨hy, hg y ⟨hcond.1, hcond.2⟩⟩
        · exact hb e he
      · exact hb e he
    have hb2 := ih1 (fun u hu => Walk.tail (hg u ((gray_mark _ _ _ _ _).1 hu)) hy) hb1
    refine ih2 ⟨?_, fun y' hy' => hys y' (by simp [hy'])⟩ hb2
    intro u hu
    exact hg u ((gray_mark _ _ _ _ _).1 ((h1.gray_iff u).1 hu))

/-- every successor of a list member occurs later in the list -/
def TopoOK (adj : Nat → List Nat) : List Nat → Prop
  | [] => True
  | u :: l => (∀ y ∈ adj u, y ∈ l) ∧ TopoOK adj l

theorem TopoOK.succ_mem {adj} : ∀ {l : List Nat}, TopoOK adj l → ∀ v ∈ l, ∀ y ∈ adj v, y ∈ l
  | [], _, v, hv, _, _ => by simp at hv
  | u :: l, h, v, hv, y, hy => by
    simp only [List.mem_cons] at hv ⊢
    rcases hv with rfl | hv
    · exact Or.inr (h.1 y hy)
    · exact Or.inr (TopoOK.succ_mem h.2 v hv y hy)

theorem TopoOK.closed {adj} {l : List Nat} (h : TopoOK adj l) {v w} (hw : Walk adj v w) : v ∈ l → w ∈ l := by
  induction hw with
  | refl => exact id
  | tail _ hc ih => intro hv; exact h.succ_mem _ (ih hv) _ hc

/-- no member of a reverse topological order lies on a closed walk -/
theorem TopoOK.no_cycle {adj} : ∀ {l : List Nat}, TopoOK adj l → ∀ v ∈ l, ∀ c ∈ adj v, ¬ Walk adj c v
  | [], _, v, hv, _, _ => by simp at hv
  | u :: l, h, v, hv, c, hc => by
    intro hw
    by_cases hvl : v ∈ l
    · exact TopoOK.no_cycle h.2 v hvl c hc hw
    · simp only [List.mem_cons] at hv
      rcases hv with rfl | hv
      · exact hvl (h.2.closed hw (h.1 c hc))
      · exact hvl hv

def InvD (adj : Nat → List Nat) (st : St) : Prop := st.backEdges = [] → TopoOK adj st.exited

theorem dir_complete {adj : Nat → List Nat} {c st st'} (h : Exec adj true c st st') :
    InvD adj st →
    InvD adj st' ∧ (match c with
      | .call _ => True
      | .loop _ ys => st'.backEdges = [] → ∀ y ∈ ys, y ∈ st'.exited) := by
  induction h with
  | skip _ => exact fun h => ⟨h, trivial⟩
  | @visit node st st2 _ _ ih =>
    intro hi
    obtain ⟨h1, h2⟩ := ih hi
    refine ⟨?_, trivial⟩
    intro hb
    exact ⟨h2 hb, h1 hb⟩
  | nil => exact fun h => ⟨h, fun _ y hy => by simp at hy⟩
  | @cons node y ys st st1 st2 h1 h2 ih1 ih2 =>
    intro hi
    have hi1 : InvD adj (mark true node st y) := by
      intro hb
      have := hi (mark_back_nil _ _ _ _ hb)
      simpa using this
    obtain ⟨hi2, -⟩ := ih1 hi1
    obtain ⟨hi3, hys⟩ := ih2 hi2
    refine ⟨hi3, ?_⟩
    intro hb y' hy'
    simp only [List.mem_cons] at hy'
    rcases hy' with rfl | hy'
    · rcases h1.call_exited with he | hg
      · exact h2.exited_mono _ he
      · exfalso
        have hm := h1.back_nil (h2.back_nil hb)
        rw [mark_true_back] at hm
        have hg' := (gray_mark _ _ _ _ _).1 hg
        have : (st.entered.contains y' && !st.exited.contains y') = true := by
          simp only [Bool.and_eq_true, Bool.not_eq_true', contains_iff, contains_false_iff]
          exact hg'
        rw [if_pos this] at hm
        cases hm
    · exact hys hb y' hy'

/-- UNBOUNDED CORRECTNESS (directed).  For adjacency lists of any length whose entries are vertex
numbers, the recursive detector answers `True` iff some edge lies on a closed walk. -/
theorem hasCyclesL_directed (adjL : List (List Nat)) (hadj : ∀ u, ∀ y ∈ adjOf adjL u, y < adjL.length) :
    hasCyclesL adjL true = true ↔ DirCycle (adjOf adjL) := by
  rw [hasCyclesL_iff]
  constructor
  · rintro ⟨x, hx, hb⟩
    have hex := top_exec adjL true hadj x hx
    have hok : BackOK (adjOf adjL) (dfs adjL true (2 * adjL.length + 2) x ⟨[], [], [], []⟩) :=
      dir_sound hex (fun u hu => by simp [Gray, St.empty] at hu) (fun e he => by simp [St.empty] at he)
    rcases hbe : (dfs adjL true (2 * adjL.length + 2) x ⟨[], [], [], []⟩).backEdges with _ | ⟨e, l⟩
    · exact absurd hbe hb
    · have := hok e (by simp [hbe])
      exact ⟨e.2, e.1, this.1, this.2⟩
  · rintro ⟨v, c, hc, hw⟩
    have hv := adjOf_lt_of_mem hc
    refine ⟨v, hv, ?_⟩
    intro hb
    have hex := top_exec adjL true hadj v hv
    have hinv := (dir_complete hex (fun _ => by simp [St.empty, TopoOK])).1 hb
    have hve : v ∈ (dfs adjL true (2 * adjL.length + 2) v ⟨[], [], [], []⟩).exited := by
      rcases hex.call_exited with h | h
      · exact h
      · simp [Gray, St.empty] at h
    exact hinv.no_cycle v hve c hc hw

end MenpoModel.C14.Dfs
