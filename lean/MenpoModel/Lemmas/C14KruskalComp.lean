/-
C14 — the count of Kruskal's edges against the model's own component counter:
`g.kruskalEdges.length + g.nComponents = g.n`.  Core Lean only.

Kept apart from `Lemmas/C14Kruskal.lean` because it depends on `Lemmas/C14Reach.lean`
(`Reach g.und`, `nComponents_eq_count`).
-/
import MenpoModel.Lemmas.C14Kruskal
import MenpoModel.Lemmas.C14Reach

namespace MenpoModel.C14
open Graph

/-- connectivity through the candidate list is reachability in the underlying undirected graph -/
theorem conn_wEdges_iff_reach (g : Graph) (u v : Nat) (hu : u < g.n) :
    Conn g.wEdges u v ↔ Reach g.und u v := by
  constructor
  · intro h
    induction h with
    | refl => exact .refl _
    | @step v x w _ he ih =>
      refine .tail ih ((mem_und g v x).2 ?_)
      rcases he with he | he
      · obtain ⟨_, hx, hw, _⟩ := (mem_wEdges g w v x).1 he
        exact ⟨hx, hw⟩
      · obtain ⟨hlt, hv, hw, _⟩ := (mem_wEdges g w x v).1 he
        exact ⟨by omega, hw.symm⟩
  · intro h
    induction h with
    | refl => exact .refl _
    | @tail b c hr hc ih =>
      have hb : b < g.n := reach_und_lt g hu hr
      obtain ⟨hcn, hw⟩ := (mem_und g b c).1 hc
      rcases Nat.lt_trichotomy b c with hlt | heq | hgt
      · exact .step ih (.inl ((mem_wEdges g (g.uw b c) b c).2 ⟨hlt, hcn, hw, rfl⟩))
      · exact heq ▸ ih
      · exact .step ih (.inr ((mem_wEdges g (g.uw c b) c b).2 ⟨hgt, hb, hw.symm, rfl⟩))

/-- every component has a smallest vertex -/
theorem exists_compMin (g : Graph) : ∀ v, v < g.n →
    ∃ m, m < g.n ∧ Reach g.und v m ∧ g.isCompMin m = true := by
  intro v
  induction v using Nat.strongRecOn with
  | _ v ih =>
    intro hv
    by_cases h : g.isCompMin v = true
    · exact ⟨v, hv, .refl _, h⟩
    · have : ∃ x, x < v ∧ x ∈ g.component v := by
        simpa [Graph.isCompMin] using h
      obtain ⟨x, hxv, hx⟩ := this
      have hr : Reach g.und v x := (mem_component g v x hv).1 hx
      obtain ⟨m, hm, hxm, hmin⟩ := ih x hxv (by omega)
      exact ⟨m, hm, hr.trans hxm, hmin⟩

/-- Kruskal's roots and the smallest vertices of the components are two transversals of the same
partition -/
theorem kruskalRoots_length_eq (g : Graph) :
    g.kruskalRoots.length = ((List.range g.n).filter g.isCompMin).length := by
  have hminsNodup : ((List.range g.n).filter g.isCompMin).Nodup :=
    List.Nodup.sublist List.filter_sublist List.nodup_range
  apply Nat.le_antisymm
  · -- every root is the label of the smallest vertex of its component
    have h := length_le_of_inj id g.kruskalRoots
      (((List.range g.n).filter g.isCompMin).map fun v => g.kruskalLabels.getD v 0)
      (kruskalRoots_nodup g) (fun _ _ _ _ h => h) (fun r hr => by
        obtain ⟨hlt, hroot⟩ := (mem_kruskalRoots g r).1 hr
        obtain ⟨m, hm, hrm, hmin⟩ := exists_compMin g r hlt
        refine List.mem_map.2 ⟨m, List.mem_filter.2 ⟨List.mem_range.2 hm, hmin⟩, ?_⟩
        have := (kruskalLabels_conn g r m hlt hm).2 ((conn_wEdges_iff_reach g r m hlt).2 hrm)
        exact this.symm.trans hroot)
    simpa using h
  · refine length_le_of_inj (fun v => g.kruskalLabels.getD v 0) _ _ hminsNodup ?_ ?_
    · intro a ha b hb hab
      obtain ⟨ha1, ha2⟩ := List.mem_filter.1 ha
      obtain ⟨hb1, hb2⟩ := List.mem_filter.1 hb
      have ha1 := List.mem_range.1 ha1
      have hb1 := List.mem_range.1 hb1
      have hr : Reach g.und a b :=
        (conn_wEdges_iff_reach g a b ha1).1 ((kruskalLabels_conn g a b ha1 hb1).1 hab)
      rcases Nat.lt_trichotomy a b with hlt | heq | hgt
      · exact absurd (reach_und_symm g ha1 hr) ((isCompMin_iff g b hb1).1 hb2 a hlt)
      · exact heq
      · exact absurd hr ((isCompMin_iff g a ha1).1 ha2 b hgt)
    · intro x hx
      exact (kruskalLabel_root g x (List.mem_range.1 (List.mem_filter.1 hx).1)).1

/-- (e) against the model's own component counter: Kruskal takes `n - #components` edges -/
theorem kruskal_count_components (g : Graph) : g.kruskalEdges.length + g.nComponents = g.n := by
  rw [nComponents_eq_count, ← kruskalRoots_length_eq]
  exact kruskal_count g

/-- hence `Graph.kruskal` reports `n - nComponents` edges -/
theorem kruskal_snd (g : Graph) : g.kruskal.2 + g.nComponents = g.n := by
  rw [kruskal_eq_edges]; exact kruskal_count_components g

example : exG.nComponents = 2 ∧ exG.kruskal.2 = 4 ∧ exG.n = 6 := by decide

end MenpoModel.C14
