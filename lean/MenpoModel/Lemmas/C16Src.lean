/-
C16 — lemmas behind the obligations over the translated io plumbing (`GenProps/C16Src*.lean`): the list
comprehension of `_possible_extensions_from_filepath`, the invariants of the two "first hit" `while` loops, and the
bridge from the Python-level dictionary operations (`mapHas`, `mapGet`) to `parseExt` / `importerForT`.  Core Lean only.
-/
import MenpoModel.Core.C16Src
import MenpoModel.Lemmas.C16Ext

namespace MenpoModel.C16
open PyX

/-! ### the comprehension `["".join(suffixes[i:]).lower() for i in range(len(suffixes))]` -/

theorem strLower_strJoin_some (l : List (List Char)) :
    strLower (strJoin (l.map some)) = some (l.flatten.map Char.toLower) := by
  simp [strLower, strJoin, List.flatMap, Function.comp_def]

theorem comprehension_candidates (l : List (List Char)) :
    (List.map (fun it0 => let i0 := it0; strLower (strJoin ((l.map some).drop i0))) (List.range (l.map some).length))
      = (candidates l).map some := by
  induction l with
  | nil => simp [candidates]
  | cons a t ih =>
    simp only [List.map_cons, List.length_cons, List.range_succ_eq_map, List.drop_zero, List.map_map, candidates]
    refine List.cons_eq_cons.2 ⟨strLower_strJoin_some (a :: t), ?_⟩
    simpa [Function.comp_def] using ih

theorem candidates_length (l : List (List Char)) : (candidates l).length = l.length := by
  induction l with
  | nil => rfl
  | cons a t ih => simp [candidates, ih]

/-! ### a loop that walks a list until the first hit: state = (hit so far, rest of the list) -/

def SearchInv {α : Type} (p : Option α → Bool) (L : List (Option α)) (s : Option α × List (Option α)) : Prop :=
  (s.1 = none ∧ L.find? p = s.2.find? p) ∨ (s.1 ≠ none ∧ L.find? p = some s.1)

theorem searchInv_init {α : Type} (p : Option α → Bool) (L : List (Option α)) : SearchInv p L (none, L) :=
  Or.inl ⟨rfl, rfl⟩

theorem searchInv_hit {α : Type} (p : Option α → Bool) (L t : List (Option α)) (a : Option α) (hp0 : p none = false)
    (ha : p a = true) (h : SearchInv p L (none, a :: t)) : SearchInv p L (a, t) := by
  rcases h with ⟨-, h⟩ | ⟨h, -⟩
  · right
    refine ⟨?_, by simpa [List.find?_cons, ha] using h⟩
    rintro rfl
    simp [hp0] at ha
  · exact absurd rfl h

theorem searchInv_miss {α : Type} (p : Option α → Bool) (L t : List (Option α)) (a : Option α)
    (ha : p a = false) (h : SearchInv p L (none, a :: t)) : SearchInv p L (none, t) := by
  rcases h with ⟨-, h⟩ | ⟨h, -⟩
  · left
    exact ⟨rfl, by simpa [List.find?_cons, ha] using h⟩
  · exact absurd rfl h

theorem searchInv_exit {α : Type} (p : Option α → Bool) (L : List (Option α)) (s : Option α × List (Option α))
    (h : SearchInv p L s) (hc : s.1 = none → s.2 = []) : s.1 = (L.find? p).getD none := by
  obtain ⟨k, l⟩ := s
  rcases h with ⟨hk, h⟩ | ⟨-, h⟩
  · simp only at hk h hc ⊢
    subst hk
    rw [hc rfl] at h
    simp [h]
  · simp only at h ⊢
    simp [h]

/-- the same search written as `for … : if hit: found = …; break`: state = (broke out, hit so far) -/
theorem forLoop_first_hit {α : Type} (p : Option α → Bool) (B : Bool × Option α → Option α → Bool × Option α)
    (hstop : ∀ k a, B (true, k) a = (true, k))
    (hB : ∀ k a, B (false, k) a = if p a then (true, a) else (false, k)) :
    ∀ (L : List (Option α)) (k : Option α), (MenpoModel.Py.forLoop (false, k) L B).2 = (L.find? p).getD k := by
  have hstuck : ∀ (L : List (Option α)) k, MenpoModel.Py.forLoop (true, k) L B = (true, k) := by
    intro L
    induction L with
    | nil => intro k; rfl
    | cons a t ih => intro k; rw [MenpoModel.Py.forLoop_cons, hstop, ih]
  intro L
  induction L with
  | nil => intro k; rfl
  | cons a t ih =>
    intro k
    rw [MenpoModel.Py.forLoop_cons, hB, List.find?_cons]
    cases hp : p a with
    | true => simp only [↓reduceIte, Option.getD_some]; rw [hstuck]
    | false => simp only [Bool.false_eq_true, ↓reduceIte]; exact ih k

theorem forLoop_first_hit_of {α : Type} (p : Option α → Bool) (B : Bool × Option α → Option α → Bool × Option α)
    (L : List (Option α)) (k : Option α) (res : Bool × Option α)
    (h : MenpoModel.Py.forLoop (false, k) L B = res)
    (hstop : ∀ k a, B (true, k) a = (true, k))
    (hB : ∀ k a, B (false, k) a = if p a then (true, a) else (false, k)) :
    res.2 = (L.find? p).getD k := by
  rw [← h]; exact forLoop_first_hit p B hstop hB L k

def LookupInv {α β : Type} (f : α → Option β) (L : List α) (s : Option β × List α) : Prop :=
  (s.1 = none ∧ L.findSome? f = s.2.findSome? f) ∨ (s.1 ≠ none ∧ L.findSome? f = s.1)

theorem lookupInv_init {α β : Type} (f : α → Option β) (L : List α) : LookupInv f L (none, L) := Or.inl ⟨rfl, rfl⟩

theorem lookupInv_step {α β : Type} (f : α → Option β) (L t : List α) (a : α)
    (h : LookupInv f L (none, a :: t)) : LookupInv f L (f a, t) := by
  rcases h with ⟨-, h⟩ | ⟨h, -⟩
  · cases hf : f a with
    | none => left; exact ⟨rfl, by simpa [List.findSome?_cons, hf] using h⟩
    | some b => right; exact ⟨by simp, by simpa [List.findSome?_cons, hf] using h⟩
  · exact absurd rfl h

theorem lookupInv_exit {α β : Type} (f : α → Option β) (L : List α) (s : Option β × List α)
    (h : LookupInv f L s) (hc : s.1 = none → s.2 = []) : s.1 = L.findSome? f := by
  obtain ⟨k, l⟩ := s
  rcases h with ⟨hk, h⟩ | ⟨-, h⟩
  · simp only at hk h hc ⊢
    subst hk
    rw [hc rfl] at h
    simp [h]
  · exact h.symm

theorem strLast3_beq (x : OStr) : (strLast3 x == ostr ".gz") = strEndsGz x := by
  cases x with
  | none => rfl
  | some e =>
    simp only [strLast3, ostr, strEndsGz, endsGz, Option.map_some]
    rw [Bool.eq_iff_iff]
    simp

theorem strEndsWith_gz (x : OStr) : strEndsWith x (ostr ".gz") = strEndsGz x := by
  cases x with
  | none => rfl
  | some e =>
    simp only [strEndsWith, ostr, strEndsGz, endsGz]
    have h3 : ".gz".toList.length = 3 := rfl
    rw [h3]
    by_cases hl : 3 ≤ e.length
    · simp [hl]
    · have hne : (List.drop (e.length - 3) e == ['.', 'g', 'z']) = false := by
        have : e.length - 3 = 0 := by omega
        rw [this, List.drop_zero]
        cases h : e == ['.', 'g', 'z'] with
        | false => rfl
        | true =>
          have := congrArg List.length (eq_of_beq h)
          simp at this
          omega
      simp only [hl, decide_false, Bool.false_and]
      exact hne.symm

theorem strLast3_bne (x : OStr) : (strLast3 x != ostr ".gz") = !strEndsGz x := by
  rw [bne, strLast3_beq]

/-! ### the dictionary operations and `parseExt` / `importerForT` -/

theorem mapHas_none (m : List (String × String)) : mapHas m none = false := rfl

theorem mapHas_some (m : List (String × String)) (c : List Char) : mapHas m (some c) = (mapKeys m).contains c := by
  unfold mapHas mapKeys
  rw [Bool.eq_iff_iff]
  simp only [List.any_eq_true, beq_iff_eq, List.contains_iff_mem, List.mem_map]

theorem find_map_some (p : OStr → Bool) (l : List (List Char)) :
    ((l.map some).find? p).getD none = l.find? fun c => p (some c) := by
  induction l with
  | nil => rfl
  | cons a t ih =>
    simp only [List.map_cons, List.find?_cons]
    cases p (some a) with
    | true => simp
    | false => simpa using ih

/-- the first hit of the translated loop is the extension `parseExt` chooses -/
theorem find_possibleExts (x : Fp) (m : List (String × String)) :
    ((possibleExts x).find? (mapHas m)).getD none = parseExt (mapKeys m) x.fileName := by
  unfold possibleExts parseExt
  rw [find_map_some]
  congr 1
  funext c
  exact mapHas_some m c

theorem mapGet_some_isSome (m : List (String × String)) (c : List Char) :
    (mapGet m (some c)).isSome = (mapKeys m).contains c := by
  rw [← mapHas_some]
  unfold mapGet mapHas
  rw [Bool.eq_iff_iff]
  simp [List.find?_isSome]

theorem findSome_map_some (f : OStr → Option String) (l : List (List Char)) :
    (l.map some).findSome? f = l.findSome? fun c => f (some c) := by
  induction l with
  | nil => rfl
  | cons a t ih => simp [List.findSome?_cons, ih]

/-- the first hit of the translated importer loop is the callable `importerForT` chooses -/
theorem findSome_possibleExts (x : Fp) (m : List (String × String)) :
    (possibleExts x).findSome? (mapGet m) = (importerForT m x.fileName).map fun r => r.2 := by
  unfold possibleExts importerForT parseExt
  rw [findSome_map_some]
  generalize candidates (suffixes x.fileName) = cs
  induction cs with
  | nil => rfl
  | cons c t ih =>
    simp only [List.findSome?_cons, List.find?_cons]
    have hc := mapGet_some_isSome m c
    cases hg : mapGet m (some c) with
    | none =>
      rw [hg] at hc
      have : (List.map (fun p => p.1.toList) m).contains c = false := by simpa [mapKeys] using hc.symm
      simp only [this]
      exact ih
    | some b =>
      rw [hg] at hc
      have : (List.map (fun p => p.1.toList) m).contains c = true := by simpa [mapKeys] using hc.symm
      simp only [this]
      unfold mapGet at hg
      cases hf : List.find? (fun p => p.1.toList == c) m with
      | none => simp [hf] at hg
      | some p => simp [hf] at hg ⊢; exact hg.symm

end MenpoModel.C16
