/-
C17 — algebra of areas, edge lengths and normals over ℚ (Mathlib tactics).
-/
import MenpoModel.Core.C17Mesh
import Mathlib.Tactic.Ring
import Mathlib.Tactic.LinearCombination
import Mathlib.Tactic.Linarith
import Mathlib.Tactic.FieldSimp
import Mathlib.Algebra.Order.Field.Rat
import Mathlib.Algebra.Order.Field.Basic

namespace MenpoModel.C17

/-! ### absolute value -/

theorem absQ_eq_abs (x : Rat) : absQ x = |x| := by
  unfold absQ
  split
  · rename_i h; exact (abs_of_neg h).symm
  · rename_i h; exact (abs_of_nonneg (not_lt.mp h)).symm

theorem absQ_nonneg (x : Rat) : 0 ≤ absQ x := by rw [absQ_eq_abs]; exact abs_nonneg x
theorem absQ_mul (x y : Rat) : absQ (x * y) = absQ x * absQ y := by
  simp only [absQ_eq_abs, abs_mul]
theorem absQ_of_sq_one (x : Rat) (h : x * x = 1) : absQ x = 1 := by
  rcases mul_self_eq_one_iff.1 h with h | h <;> subst h <;> simp [absQ_eq_abs]
theorem absQ_mul_self (x : Rat) : absQ (x * x) = x * x := by
  rw [absQ_eq_abs]; exact abs_of_nonneg (mul_self_nonneg x)

/-! ### 2-D -/

theorem V2.sub_aff (A : M2) (t a b : V2) :
    V2.sub (aff2 A t b) (aff2 A t a) = A.mulVec (V2.sub b a) := by
  ext <;> simp [aff2, V2.sub, V2.add, M2.mulVec] <;> ring

theorem V2.cross_mulVec (A : M2) (u v : V2) :
    V2.cross (A.mulVec u) (A.mulVec v) = A.det * V2.cross u v := by
  simp only [V2.cross, M2.mulVec, M2.det]; ring

theorem M2.det_sq_of_ortho (A : M2) (h : A.IsOrtho) : A.det * A.det = 1 := by
  obtain ⟨h1, h2, h3⟩ := h
  simp only [M2.det]
  linear_combination (A.a12 * A.a12 + A.a22 * A.a22) * h1 + h2
    - (A.a11 * A.a12 + A.a21 * A.a22) * h3

theorem area2_aff (A : M2) (t a b c : V2) :
    area2 (aff2 A t a) (aff2 A t b) (aff2 A t c) = absQ A.det * area2 a b c := by
  simp only [area2, V2.sub_aff, V2.cross_mulVec]
  rw [← absQ_mul]; congr 1; ring

theorem V2.normSq_mulVec_ortho (A : M2) (h : A.IsOrtho) (v : V2) :
    V2.normSq (A.mulVec v) = V2.normSq v := by
  obtain ⟨h1, h2, h3⟩ := h
  simp only [V2.normSq, V2.dot, M2.mulVec]
  linear_combination (v.x * v.x) * h1 + (v.y * v.y) * h2 + (2 * v.x * v.y) * h3

theorem V2.normSq_scalar (s : Rat) (v : V2) :
    V2.normSq ((M2.scalar s).mulVec v) = s ^ 2 * V2.normSq v := by
  simp only [V2.normSq, V2.dot, M2.mulVec, M2.scalar]; ring

theorem V2.normSq_nonneg (v : V2) : 0 ≤ V2.normSq v := by
  simp only [V2.normSq, V2.dot]; nlinarith [mul_self_nonneg v.x, mul_self_nonneg v.y]

/-! ### 3-D -/

theorem V3.sub_aff (A : M3) (t a b : V3) :
    V3.sub (aff3 A t b) (aff3 A t a) = A.mulVec (V3.sub b a) := by
  ext <;> simp [aff3, V3.sub, V3.add, M3.mulVec] <;> ring

theorem V3.dot_mulVec_ortho (A : M3) (h : A.IsOrtho) (u v : V3) :
    V3.dot (A.mulVec u) (A.mulVec v) = V3.dot u v := by
  obtain ⟨h11, h22, h33, h12, h13, h23⟩ := h
  simp only [V3.dot, M3.mulVec]
  linear_combination (u.x * v.x) * h11 + (u.y * v.y) * h22 + (u.z * v.z) * h33
    + (u.x * v.y + u.y * v.x) * h12 + (u.x * v.z + u.z * v.x) * h13 + (u.y * v.z + u.z * v.y) * h23

theorem V3.normSq_mulVec_ortho (A : M3) (h : A.IsOrtho) (v : V3) :
    V3.normSq (A.mulVec v) = V3.normSq v := V3.dot_mulVec_ortho A h v v

theorem V3.normSq_scalar (s : Rat) (v : V3) :
    V3.normSq ((M3.scalar s).mulVec v) = s ^ 2 * V3.normSq v := by
  simp only [V3.normSq, V3.dot, M3.mulVec, M3.scalar]; ring

theorem V3.normSq_nonneg (v : V3) : 0 ≤ V3.normSq v := by
  simp only [V3.normSq, V3.dot]
  nlinarith [mul_self_nonneg v.x, mul_self_nonneg v.y, mul_self_nonneg v.z]

/-- Lagrange's identity -/
theorem V3.normSq_cross (u v : V3) :
    V3.normSq (V3.cross u v) = V3.normSq u * V3.normSq v - V3.dot u v * V3.dot u v := by
  simp only [V3.normSq, V3.dot, V3.cross]; ring

theorem V3.cross_dot_left (u v : V3) : V3.dot (V3.cross u v) u = 0 := by
  simp only [V3.dot, V3.cross]; ring
theorem V3.cross_dot_right (u v : V3) : V3.dot (V3.cross u v) v = 0 := by
  simp only [V3.dot, V3.cross]; ring

theorem V3.cross_scalar (s : Rat) (u v : V3) :
    V3.cross ((M3.scalar s).mulVec u) ((M3.scalar s).mulVec v) = V3.smul (s ^ 2) (V3.cross u v) := by
  ext <;> simp [V3.cross, V3.smul, M3.mulVec, M3.scalar] <;> ring

/-- for an orthogonal matrix the cofactor matrix is `det A • A`; hence
`(A u) × (A v) = det A • A (u × v)` -/
theorem V3.cross_mulVec_ortho (A : M3) (h : A.IsOrtho) (u v : V3) :
    V3.cross (A.mulVec u) (A.mulVec v) = V3.smul A.det (A.mulVec (V3.cross u v)) := by
  obtain ⟨h11, h22, h33, h12, h13, h23⟩ := h
  -- cofactors
  have c11 : A.a22 * A.a33 - A.a23 * A.a32 = A.det * A.a11 := by
    simp only [M3.det]
    linear_combination (-(A.a22 * A.a33 - A.a23 * A.a32)) * h11
      + (-(A.a23 * A.a31 - A.a21 * A.a33)) * h12 + (-(A.a21 * A.a32 - A.a22 * A.a31)) * h13
  have c12 : A.a23 * A.a31 - A.a21 * A.a33 = A.det * A.a12 := by
    simp only [M3.det]
    linear_combination (-(A.a22 * A.a33 - A.a23 * A.a32)) * h12
      + (-(A.a23 * A.a31 - A.a21 * A.a33)) * h22 + (-(A.a21 * A.a32 - A.a22 * A.a31)) * h23
  have c13 : A.a21 * A.a32 - A.a22 * A.a31 = A.det * A.a13 := by
    simp only [M3.det]
    linear_combination (-(A.a22 * A.a33 - A.a23 * A.a32)) * h13
      + (-(A.a23 * A.a31 - A.a21 * A.a33)) * h23 + (-(A.a21 * A.a32 - A.a22 * A.a31)) * h33
  have c21 : A.a13 * A.a32 - A.a12 * A.a33 = A.det * A.a21 := by
    simp only [M3.det]
    linear_combination (-(A.a13 * A.a32 - A.a12 * A.a33)) * h11
      + (-(A.a11 * A.a33 - A.a13 * A.a31)) * h12 + (-(A.a12 * A.a31 - A.a11 * A.a32)) * h13
  have c22 : A.a11 * A.a33 - A.a13 * A.a31 = A.det * A.a22 := by
    simp only [M3.det]
    linear_combination (-(A.a13 * A.a32 - A.a12 * A.a33)) * h12
      + (-(A.a11 * A.a33 - A.a13 * A.a31)) * h22 + (-(A.a12 * A.a31 - A.a11 * A.a32)) * h23
  have c23 : A.a12 * A.a31 - A.a11 * A.a32 = A.det * A.a23 := by
    simp only [M3.det]
    linear_combination (-(A.a13 * A.a32 - A.a12 * A.a33)) * h13
      + (-(A.a11 * A.a33 - A.a13 * A.a31)) * h23 + (-(A.a12 * A.a31 - A.a11 * A.a32)) * h33
  have c31 : A.a12 * A.a23 - A.a13 * A.a22 = A.det * A.a31 := by
    simp only [M3.det]
    linear_combination (-(A.a12 * A.a23 - A.a13 * A.a22)) * h11
      + (-(A.a13 * A.a21 - A.a11 * A.a23)) * h12 + (-(A.a11 * A.a22 - A.a12 * A.a21)) * h13
  have c32 : A.a13 * A.a21 - A.a11 * A.a23 = A.det * A.a32 := by
    simp only [M3.det]
    linear_combination (-(A.a12 * A.a23 - A.a13 * A.a22)) * h12
      + (-(A.a13 * A.a21 - A.a11 * A.a23)) * h22 + (-(A.a11 * A.a22 - A.a12 * A.a21)) * h23
  have c33 : A.a11 * A.a22 - A.a12 * A.a21 = A.det * A.a33 := by
    simp only [M3.det]
    linear_combination (-(A.a12 * A.a23 - A.a13 * A.a22)) * h13
      + (-(A.a13 * A.a21 - A.a11 * A.a23)) * h23 + (-(A.a11 * A.a22 - A.a12 * A.a21)) * h33
  ext
  · simp only [V3.cross, V3.smul, M3.mulVec]
    linear_combination (u.y * v.z - u.z * v.y) * c11 + (u.z * v.x - u.x * v.z) * c12
      + (u.x * v.y - u.y * v.x) * c13
  · simp only [V3.cross, V3.smul, M3.mulVec]
    linear_combination (u.y * v.z - u.z * v.y) * c21 + (u.z * v.x - u.x * v.z) * c22
      + (u.x * v.y - u.y * v.x) * c23
  · simp only [V3.cross, V3.smul, M3.mulVec]
    linear_combination (u.y * v.z - u.z * v.y) * c31 + (u.z * v.x - u.x * v.z) * c32
      + (u.x * v.y - u.y * v.x) * c33

theorem M3.det_sq_of_ortho (A : M3) (h : A.IsOrtho) : A.det * A.det = 1 := by
  -- ‖(A e₁) × (A e₂)‖² = det² ‖A e₃‖² and, by Lagrange, = 1
  have hc := V3.cross_mulVec_ortho A h ⟨1, 0, 0⟩ ⟨0, 1, 0⟩
  have hn := congrArg V3.normSq hc
  rw [V3.normSq_cross, V3.dot_mulVec_ortho A h, V3.normSq_mulVec_ortho A h,
    V3.normSq_mulVec_ortho A h] at hn
  have h3 : V3.normSq (A.mulVec (V3.cross ⟨1, 0, 0⟩ ⟨0, 1, 0⟩)) = 1 := by
    rw [V3.normSq_mulVec_ortho A h]; simp [V3.normSq, V3.dot, V3.cross]
  have hs : ∀ (s : Rat) (w : V3), V3.normSq (V3.smul s w) = s * s * V3.normSq w := by
    intro s w; simp only [V3.normSq, V3.dot, V3.smul]; ring
  rw [hs, h3] at hn
  simp [V3.dot, V3.normSq] at hn
  linarith

/-! ### the `sqrt` contract: from squares to the non-negative roots -/

theorem root_unique (a b : Rat) (ha : 0 ≤ a) (hb : 0 ≤ b) (h : a * a = b * b) : a = b :=
  (mul_self_inj_of_nonneg ha hb).1 h

/-- normalising by a root of the squared norm gives a unit vector -/
theorem V3.normalize_unit (n : V3) (r : Rat) (hr : r * r = V3.normSq n) (h0 : r ≠ 0) :
    V3.normSq (V3.smul (1 / r) n) = 1 := by
  have : V3.normSq (V3.smul (1 / r) n) = (1 / r) * (1 / r) * V3.normSq n := by
    simp only [V3.normSq, V3.dot, V3.smul]; ring
  rw [this, ← hr]; field_simp

end MenpoModel.C17
