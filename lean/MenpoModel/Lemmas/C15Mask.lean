/-
C15 — index lemmas of boolean masking (`x[mask]`, renumbering by `rank`).  Core Lean only.
-/
import MenpoModel.Core.C15

namespace MenpoModel.C15

theorem getElem?_getD_false (m : List Bool) (i : Nat) : m[i]?.getD false = true ↔ m[i]? = some true := by
  cases h : m[i]? with
  | none => simp
  | some b => simp

theorem getD_false_eq_true (m : List Bool) (i : Nat) : m.getD i false = true ↔ m[i]? = some true := by
  simp only [List.getD_eq_getElem?_getD, getElem?_getD_false]

/-- a kept element keeps its value and moves to position `rank` -/
theorem maskFilter_rank {α} (l : List α) (m : List Bool) (v : Nat)
    (hlen : l.length = m.length) (hv : m[v]? = some true) :
    (maskFilter l m)[rank m v]? = l[v]? := by
  induction l generalizing m v with
  | nil => cases m <;> simp_all
  | cons x xs ih =>
    cases m with
    | nil => simp at hlen
    | cons b bs =>
      simp only [List.length_cons, Nat.add_right_cancel_iff] at hlen
      cases v with
      | zero =>
        simp only [List.getElem?_cons_zero, Option.some.injEq] at hv
        subst hv
        simp [maskFilter, rank]
      | succ v =>
        simp only [List.getElem?_cons_succ] at hv
        cases b
        · simp [maskFilter, rank, ih bs v hlen hv]
        · simp [maskFilter, rank, Nat.add_comm 1, ih bs v hlen hv]

theorem rank_nil (v : Nat) : rank [] v = 0 := by cases v <;> rfl

/-- renumbering preserves the original order of the kept points (strictly) -/
theorem rank_strictMono (m : List Bool) (u v : Nat) (huv : u < v) (hu : m[u]? = some true) :
    rank m u < rank m v := by
  induction m generalizing u v with
  | nil => simp at hu
  | cons b bs ih =>
    cases v with
    | zero => omega
    | succ v =>
      cases u with
      | zero =>
        simp only [List.getElem?_cons_zero, Option.some.injEq] at hu
        subst hu
        simp [rank]; omega
      | succ u =>
        simp only [List.getElem?_cons_succ] at hu
        have := ih u v (by omega) hu
        simp only [rank]; omega

theorem rank_mono (m : List Bool) (u v : Nat) (huv : u ≤ v) : rank m u ≤ rank m v := by
  induction m generalizing u v with
  | nil => simp [rank_nil]
  | cons b bs ih =>
    cases u with
    | zero => simp [rank]
    | succ u =>
      cases v with
      | zero => omega
      | succ v => have := ih u v (by omega); simp only [rank]; omega

/-- two kept points never collapse -/
theorem rank_inj (m : List Bool) (u v : Nat) (hu : m[u]? = some true) (hv : m[v]? = some true)
    (h : rank m u = rank m v) : u = v := by
  rcases Nat.lt_trichotomy u v with hlt | heq | hgt
  · have := rank_strictMono m u v hlt hu; omega
  · exact heq
  · have := rank_strictMono m v u hgt hv; omega

/-- every element of the masked list is a kept element of the original -/
theorem maskFilter_surj {α} (l : List α) (m : List Bool) (hlen : l.length = m.length) (j : Nat)
    (hj : j < (maskFilter l m).length) : ∃ v, m[v]? = some true ∧ rank m v = j := by
  induction l generalizing m j with
  | nil => cases m <;> simp [maskFilter] at hj
  | cons x xs ih =>
    cases m with
    | nil => simp at hlen
    | cons b bs =>
      simp only [List.length_cons, Nat.add_right_cancel_iff] at hlen
      cases b with
      | false =>
        simp only [maskFilter, Bool.false_eq_true, if_false] at hj
        obtain ⟨v, hv, hr⟩ := ih bs hlen j hj
        exact ⟨v + 1, by simpa using hv, by simp [rank, hr]⟩
      | true =>
        simp only [maskFilter, if_true, List.length_cons] at hj
        cases j with
        | zero => exact ⟨0, by simp, by simp [rank]⟩
        | succ j =>
          obtain ⟨v, hv, hr⟩ := ih bs hlen j (by omega)
          exact ⟨v + 1, by simpa using hv, by simp [rank, hr]; omega⟩

theorem maskFilter_length_le {α} (l : List α) (m : List Bool) : (maskFilter l m).length ≤ l.length := by
  induction l generalizing m with
  | nil => cases m <;> simp [maskFilter]
  | cons x xs ih =>
    cases m with
    | nil => simp [maskFilter]
    | cons b bs =>
      have := ih bs
      cases b <;> simp [maskFilter] <;> omega

/-- masking two lists of the same length with the same mask gives the same length -/
theorem maskFilter_length_congr {α β} (l : List α) (k : List β) (m : List Bool)
    (hl : l.length = m.length) (hk : k.length = m.length) :
    (maskFilter l m).length = (maskFilter k m).length := by
  induction m generalizing l k with
  | nil => cases l <;> cases k <;> simp [maskFilter]
  | cons b bs ih =>
    cases l with
    | nil => simp at hl
    | cons x xs =>
      cases k with
      | nil => simp at hk
      | cons y ys =>
        simp only [List.length_cons, Nat.add_right_cancel_iff] at hl hk
        have := ih xs ys hl hk
        cases b <;> simp [maskFilter, this]

theorem maskFilter_all_true {α} (l : List α) (m : List Bool) (hlen : l.length = m.length)
    (h : m.all id = true) : maskFilter l m = l := by
  induction l generalizing m with
  | nil => cases m <;> simp [maskFilter]
  | cons x xs ih =>
    cases m with
    | nil => simp at hlen
    | cons b bs =>
      simp only [List.length_cons, Nat.add_right_cancel_iff] at hlen
      simp only [List.all_cons, id, Bool.and_eq_true] at h
      obtain ⟨hb, hbs⟩ := h
      subst hb
      simp [maskFilter, ih bs hlen hbs]

theorem rank_all_true (m : List Bool) (h : m.all id = true) (v : Nat) (hv : v ≤ m.length) :
    rank m v = v := by
  induction m generalizing v with
  | nil => simp at hv; subst hv; rfl
  | cons b bs ih =>
    simp only [List.all_cons, id, Bool.and_eq_true] at h
    obtain ⟨hb, hbs⟩ := h
    subst hb
    cases v with
    | zero => rfl
    | succ v =>
      simp only [List.length_cons, Nat.add_le_add_iff_right] at hv
      simp only [rank, if_true, ih hbs v hv]; omega

theorem all_true_getD (m : List Bool) (h : m.all id = true) (v : Nat) (hv : v < m.length) :
    m.getD v false = true := by
  rw [getD_false_eq_true]
  simp only [List.all_eq_true, id] at h
  have := h m[v] (List.getElem_mem hv)
  simp [List.getElem?_eq_getElem hv, this]

/-- the all-true shortcut of `from_mask` agrees with the general masking path -/
theorem fromMask_eq {α} (pts : List α) (es : List (Nat × Nat)) (m : List Bool)
    (hlen : pts.length = m.length) (hE : ∀ e ∈ es, e.1 < pts.length ∧ e.2 < pts.length) :
    fromMask pts es m = (maskFilter pts m, inducedEdges m es) := by
  unfold fromMask
  split
  · rename_i h
    rw [maskFilter_all_true pts m hlen h]
    congr 1
    unfold inducedEdges
    have hf : es.filter (fun e => m.getD e.1 false && m.getD e.2 false) = es := by
      apply List.filter_eq_self.mpr
      intro e he
      obtain ⟨h1, h2⟩ := hE e he
      simp [all_true_getD m h e.1 (by omega), all_true_getD m h e.2 (by omega), -List.getD_eq_getElem?_getD]
    rw [hf]
    symm
    calc es.map (fun e => (rank m e.1, rank m e.2)) = es.map id := by
          apply List.map_congr_left
          intro e he
          obtain ⟨h1, h2⟩ := hE e he
          simp [rank_all_true m h e.1 (by omega), rank_all_true m h e.2 (by omega)]
      _ = es := by simp
  · rfl

/-! ### `np.sum(masks, axis=0) > 0` -/

theorem orMasks_length (n : Nat) (ms : List (List Bool)) : (orMasks n ms).length = n := by
  simp [orMasks]

theorem orMasks_get (n : Nat) (ms : List (List Bool)) (i : Nat) :
    (orMasks n ms)[i]? = some true ↔ i < n ∧ ∃ m ∈ ms, m[i]? = some true := by
  unfold orMasks
  by_cases hi : i < n
  · simp [hi, getElem?_getD_false]
  · simp [hi]

theorem any_id_iff (m : List Bool) : m.any id = true ↔ ∃ i : Nat, m[i]? = some true := by
  simp only [List.any_eq_true, id]
  constructor
  · rintro ⟨b, hb, rfl⟩
    obtain ⟨i, hi, h⟩ := List.getElem_of_mem hb
    exact ⟨i, by simp [List.getElem?_eq_getElem hi, h]⟩
  · rintro ⟨i, hi⟩
    exact ⟨true, List.mem_of_getElem? hi, rfl⟩

theorem mem_inducedEdges (m : List Bool) (es : List (Nat × Nat)) (a b : Nat) :
    (a, b) ∈ inducedEdges m es ↔
      ∃ u v, (u, v) ∈ es ∧ m[u]? = some true ∧ m[v]? = some true ∧ a = rank m u ∧ b = rank m v := by
  unfold inducedEdges
  simp only [List.mem_map, List.mem_filter, Bool.and_eq_true, getD_false_eq_true, Prod.mk.injEq,
    Prod.exists]
  constructor
  · rintro ⟨u, v, ⟨he, hu, hv⟩, rfl, rfl⟩
    exact ⟨u, v, he, hu, hv, rfl, rfl⟩
  · rintro ⟨u, v, he, hu, hv, rfl, rfl⟩
    exact ⟨u, v, ⟨he, hu, hv⟩, rfl, rfl⟩

/-- induced edges stay inside the masked vertex set -/
theorem rank_lt_of_kept {α} (l : List α) (m : List Bool) (hlen : l.length = m.length) (v : Nat)
    (hv : m[v]? = some true) : rank m v < (maskFilter l m).length := by
  have h := maskFilter_rank l m v hlen hv
  have hvl : v < l.length := by
    have : v < m.length := by
      rcases Nat.lt_or_ge v m.length with h | h
      · exact h
      · simp [List.getElem?_eq_none h] at hv
    omega
  rw [List.getElem?_eq_getElem hvl] at h
  rcases Nat.lt_or_ge (rank m v) (maskFilter l m).length with h' | h'
  · exact h'
  · simp [List.getElem?_eq_none h'] at h

end MenpoModel.C15
