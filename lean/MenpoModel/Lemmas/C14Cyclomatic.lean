/-
C14 — the cyclomatic-number reference `Graph.refCycleU` (`m + c > n`) is exactly "the underlying
undirected graph has a self-loop or a simple cycle", for graphs of every size; for symmetric graphs
this is `Graph.HasUndCycle`, hence `hasCycles false = refCycleU`.  Core Lean only.

Route: Kruskal's edges `K` are a spanning forest of the candidate list `wEdges` with
`|K| + nComponents = n` (`Lemmas/C14KruskalComp.lean`) and `nUndEdges = |wEdges| + #loops`, so
`refCycleU ↔ loop ∨ |K| < |wEdges|`.  A candidate outside `K` closes a cycle with the `K`-path
between its end points; conversely, if `K` is all of `wEdges` then every edge is a bridge, which
a simple cycle contradicts.
-/
import MenpoModel.Lemmas.C14KruskalComp
import MenpoModel.Lemmas.C14TreeU

namespace MenpoModel.C14
open Graph

/-! ### counting: `nUndEdges = |wEdges| + #loops` (no symmetry needed) -/

/-- the vertices with a stored self-loop -/
def Graph.loops (g : Graph) : List Nat := (List.range g.n).filter fun i => g.w i i != 0

theorem mem_loops (g : Graph) (u : Nat) : u ∈ g.loops ↔ u < g.n ∧ g.w u u ≠ 0 := by
  simp [Graph.loops]

theorem und_filter_length (g : Graph) (i : Nat) (hi : i < g.n) :
    ((g.und i).filter fun j => decide (i ≤ j)).length =
      ((List.range g.n).filter fun j => decide (i < j) && (g.w i j != 0 || g.w j i != 0)).length
        + (if (g.w i i != 0) = true then 1 else 0) := by
  unfold Graph.und
  rw [List.filter_filter]
  by_cases hl : (g.w i i != 0) = true
  · have := length_filter_range_remove
      (fun j => decide (i ≤ j) && (g.w i j != 0 || g.w j i != 0))
      (fun j => decide (i < j) && (g.w i j != 0 || g.w j i != 0)) i (by simp [hl]) g.n
      (fun l _ => by
        by_cases h1 : l = i
        · subst h1; simp
        · have h2 : (l != i) = true := by simpa using h1
          have h3 : decide (i < l) = decide (i ≤ l) := by
            apply decide_eq_decide.2; omega
          simp [h2, h3]) g.n (Nat.le_refl _)
    rw [if_pos hi] at this
    rw [if_pos hl]
    exact this.symm
  · rw [if_neg hl, Nat.add_zero]
    congr 1
    apply List.filter_congr
    intro j _
    by_cases h1 : j = i
    · subst h1
      have : (g.w j j != 0) = false := by simpa using hl
      simp [this]
    · have h3 : decide (i < j) = decide (i ≤ j) := by
        apply decide_eq_decide.2; omega
      simp [h3]

theorem nUndEdges_eq_wEdges (g : Graph) : g.nUndEdges = g.wEdges.length + g.loops.length := by
  unfold Graph.nUndEdges Graph.wEdges Graph.loops
  have : ∀ l : List Nat, (∀ i ∈ l, i < g.n) →
      (l.flatMap fun i => (g.und i).filter fun j => decide (i ≤ j)).length =
      (l.flatMap fun i => ((List.range g.n).filter fun j =>
          decide (i < j) && (g.w i j != 0 || g.w j i != 0)).map fun j =>
        (if g.w i j = 0 then g.w j i else if g.w j i = 0 then g.w i j else min (g.w i j) (g.w j i), i, j)).length
        + (l.filter fun i => g.w i i != 0).length := by
    intro l
    induction l with
    | nil => intro _; rfl
    | cons a t ih =>
      intro h
      have iht := ih fun i hi => h i (List.mem_cons_of_mem _ hi)
      have ha := und_filter_length g a (h a List.mem_cons_self)
      simp only [List.flatMap_cons, List.length_append, List.length_map, List.filter_cons]
      rw [iht, ha]
      split <;> simp <;> omega
  exact this _ fun i hi => List.mem_range.1 hi

/-- the cyclomatic test in terms of Kruskal's forest: a loop, or a candidate that is not taken -/
theorem refCycleU_iff_count (g : Graph) :
    g.refCycleU = true ↔ 0 < g.loops.length ∨ g.kruskalEdges.length < g.wEdges.length := by
  have h1 := kruskal_count_components g
  have h2 := nUndEdges_eq_wEdges g
  have h3 : g.kruskalEdges.length ≤ g.wEdges.length := by
    rw [← (sortBy_perm wle g.wEdges).length_eq]
    exact (kruskalEdges_sublist g).length_le
  simp only [Graph.refCycleU, decide_eq_true_eq]
  omega

/-! ### the edge of a pair -/

/-- the candidate entry for the pair `{a, b}` -/
def pairEdge (g : Graph) (a b : Nat) : WEdge :=
  if a < b then (g.uw a b, a, b) else (g.uw b a, b, a)

theorem pairEdge_mem (g : Graph) (a b : Nat) (ha : a < g.n) (hb : b ∈ g.und a) (hab : a ≠ b) :
    pairEdge g a b ∈ g.wEdges := by
  obtain ⟨hbn, hw⟩ := (mem_und g a b).1 hb
  unfold pairEdge
  split
  · rename_i h
    exact (mem_wEdges g _ a b).2 ⟨h, hbn, hw, rfl⟩
  · exact (mem_wEdges g _ b a).2 ⟨by omega, ha, hw.symm, rfl⟩

theorem pairEdge_conn (g : Graph) (a b : Nat) (es : List WEdge) (h : pairEdge g a b ∈ es) :
    Conn es a b := by
  unfold pairEdge at h
  split at h
  · exact Conn.edge h
  · exact (Conn.edge h).symm

theorem pairEdge_inj (g : Graph) (a b a' b' : Nat) (h : pairEdge g a b = pairEdge g a' b') :
    (a = a' ∧ b = b') ∨ (a = b' ∧ b = a') := by
  unfold pairEdge at h
  split at h <;> split at h <;> simp only [Prod.mk.injEq] at h <;> omega

theorem pairEdge_ends (g : Graph) (a b : Nat) :
    ((pairEdge g a b).2.1 = a ∧ (pairEdge g a b).2.2 = b) ∨
      ((pairEdge g a b).2.1 = b ∧ (pairEdge g a b).2.2 = a) := by
  unfold pairEdge
  split
  · exact .inl ⟨rfl, rfl⟩
  · exact .inr ⟨rfl, rfl⟩

/-- a candidate is the entry of its own pair -/
theorem pairEdge_of_mem (g : Graph) (w i j : Nat) (h : (w, i, j) ∈ g.wEdges) :
    pairEdge g i j = (w, i, j) := by
  obtain ⟨hij, _, _, rfl⟩ := (mem_wEdges g w i j).1 h
  simp [pairEdge, hij]

/-! ### (→) a candidate that Kruskal does not take closes a simple cycle -/

theorem cycle_of_untaken (g : Graph) (e : WEdge) (he : e ∈ g.wEdges) (hK : e ∉ g.kruskalEdges) :
    ∃ C, Dfs.SimpleCycle g.und C := by
  obtain ⟨w, i, j⟩ := e
  obtain ⟨hij, hj, hw, hwe⟩ := (mem_wEdges g w i j).1 he
  have hconn : Conn g.kruskalEdges i j := kruskal_candidate_conn g _ he
  -- the `K`-walk never uses the pair `{i, j}`
  have hwalk : ∀ {a b}, Conn g.kruskalEdges a b →
      Dfs.RWalk (fun x y => y ∈ g.und x ∧ ¬ (x = i ∧ y = j)) a b := by
    intro a b h
    induction h with
    | refl => exact .refl _
    | @step v x w' _ hstep ih =>
      refine ih.tail ?_
      rcases hstep with hm | hm
      · obtain ⟨_, hx, hw', hwe'⟩ := (mem_wEdges g w' v x).1 (kruskalEdges_subset g _ hm)
        refine ⟨(mem_und g v x).2 ⟨hx, hw'⟩, ?_⟩
        rintro ⟨rfl, rfl⟩
        exact hK (by rw [hwe, ← hwe']; exact hm)
      · obtain ⟨hlt, hv, hw', _⟩ := (mem_wEdges g w' x v).1 (kruskalEdges_subset g _ hm)
        refine ⟨(mem_und g v x).2 ⟨by omega, hw'.symm⟩, ?_⟩
        rintro ⟨rfl, rfl⟩
        omega
  exact Dfs.cycle_of_walk i j (by omega) ((mem_und g j i).2 ⟨by omega, hw.symm⟩) (hwalk hconn)

/-- a strictly shorter sublist of a duplicate-free list misses one of its elements -/
theorem exists_not_mem_of_sublist {α} {l l' : List α} (h : l.Sublist l') (hn : l'.Nodup)
    (hlt : l.length < l'.length) : ∃ e, e ∈ l' ∧ e ∉ l := by
  induction h with
  | slnil => simp at hlt
  | @cons l l' a hs _ =>
    rw [List.nodup_cons] at hn
    exact ⟨a, List.mem_cons_self, fun ha => hn.1 (hs.subset ha)⟩
  | @cons_cons l l' a hs ih =>
    rw [List.nodup_cons] at hn
    simp only [List.length_cons] at hlt
    obtain ⟨e, he, hne⟩ := ih hn.2 (by omega)
    refine ⟨e, List.mem_cons_of_mem _ he, fun hm => ?_⟩
    rcases List.mem_cons.1 hm with rfl | hm
    · exact hn.1 he
    · exact hne hm

/-! ### (←) in a forest every edge is a bridge, which a simple cycle contradicts -/

theorem ForestOrd.bridge_filter {l : List WEdge} (h : ForestOrd l) (e : WEdge) (he : e ∈ l) :
    ¬ Conn (l.filter fun x => x != e) e.2.1 e.2.2 := by
  obtain ⟨pre, post, heq⟩ := List.append_of_mem he
  intro hc
  refine h.bridge pre post e heq (Conn.mono (fun x hx => ?_) hc)
  obtain ⟨hx1, hx2⟩ := List.mem_filter.1 hx
  rw [heq] at hx1
  have hne : x ≠ e := by simpa using hx2
  rcases List.mem_append.1 hx1 with hx1 | hx1
  · exact List.mem_append_left _ hx1
  · rcases List.mem_cons.1 hx1 with hx1 | hx1
    · exact absurd hx1 hne
    · exact List.mem_append_right _ hx1

/-- the vertices of a cycle over `und` are vertices of the graph -/
theorem simpleCycle_und_lt (g : Graph) (C : List Nat) (hC : Dfs.SimpleCycle g.und C) (i : Nat)
    (hi : i < C.length) : C.getD i 0 < g.n := by
  obtain ⟨h3, _, hadj⟩ := hC
  cases i with
  | zero =>
    have := hadj (C.length - 1) (by omega)
    rw [show C.length - 1 + 1 = C.length by omega, Nat.mod_self] at this
    exact ((mem_und g _ _).1 this).1
  | succ k =>
    have := hadj k (by omega)
    rw [Nat.mod_eq_of_lt hi] at this
    exact ((mem_und g _ _).1 this).1

theorem not_forest_of_cycle (g : Graph) (C : List Nat) (hC : Dfs.SimpleCycle g.und C)
    (hf : ForestOrd (sortBy wle g.wEdges)) : False := by
  have hlt := simpleCycle_und_lt g C hC
  obtain ⟨h3, hnd, hadj⟩ := hC
  have hinj : ∀ i j, i < C.length → j < C.length → C.getD i 0 = C.getD j 0 → i = j :=
    fun i j hi hj h => Dfs.nodup_getD_inj C i j hnd hi hj h
  -- the entry of the cycle edge `C[m] – C[m+1]`
  have hedge : ∀ m, m < C.length →
      pairEdge g (C.getD m 0) (C.getD ((m + 1) % C.length) 0) ∈ g.wEdges ∧
      C.getD m 0 ≠ C.getD ((m + 1) % C.length) 0 := by
    intro m hm
    have hm' : (m + 1) % C.length < C.length := Nat.mod_lt _ (by omega)
    have hne : C.getD m 0 ≠ C.getD ((m + 1) % C.length) 0 := by
      intro h
      have := hinj _ _ hm hm' h
      by_cases h1 : m + 1 < C.length
      · rw [Nat.mod_eq_of_lt h1] at this; omega
      · rw [show m + 1 = C.length by omega, Nat.mod_self] at this; omega
    exact ⟨pairEdge_mem g _ _ (hlt m hm) (hadj m hm) hne, hne⟩
  have h0 := hedge 0 (by omega)
  rw [Nat.mod_eq_of_lt (by omega : 0 + 1 < C.length)] at h0
  let e0 := pairEdge g (C.getD 0 0) (C.getD (0 + 1) 0)
  have hbridge := hf.bridge_filter e0 ((mem_sortBy _ _ _).2 h0.1)
  -- the rest of the cycle walks from `C[1]` back to `C[0]` without the entry `e0`
  have hwalk : ∀ m, 1 ≤ m → m ≤ C.length →
      Conn ((sortBy wle g.wEdges).filter fun x => x != e0) (C.getD 1 0) (C.getD (m % C.length) 0) := by
    intro m
    induction m with
    | zero => intro h; omega
    | succ m ih =>
      intro _ hm
      by_cases hm1 : m = 0
      · subst hm1
        rw [Nat.mod_eq_of_lt (by omega : 0 + 1 < C.length)]
        exact .refl _
      · have ih := ih (by omega) (by omega)
        rw [Nat.mod_eq_of_lt (by omega : m < C.length)] at ih
        refine ih.trans (pairEdge_conn g _ _ _ (List.mem_filter.2 ⟨(mem_sortBy _ _ _).2 (hedge m (by omega)).1, ?_⟩))
        have hm' : (m + 1) % C.length < C.length := Nat.mod_lt _ (by omega)
        have : pairEdge g (C.getD m 0) (C.getD ((m + 1) % C.length) 0) ≠ e0 := by
          intro h
          rcases pairEdge_inj g _ _ _ _ h with ⟨h1, _⟩ | ⟨h1, h2⟩
          · have := hinj _ _ (by omega) (by omega) h1; omega
          · have e1 := hinj _ _ (by omega) (by omega) h1
            have e2 := hinj _ _ hm' (by omega) h2
            rw [e1] at e2
            rw [Nat.mod_eq_of_lt (by omega : 1 + 1 < C.length)] at e2
            omega
        simpa using this
  have hfin := hwalk C.length (by omega) (Nat.le_refl _)
  rw [Nat.mod_self] at hfin
  -- `e0` joins `C[0]` and `C[1]` in one of the two orientations
  have hends : (e0.2.1 = C.getD 0 0 ∧ e0.2.2 = C.getD (0 + 1) 0) ∨
      (e0.2.1 = C.getD (0 + 1) 0 ∧ e0.2.2 = C.getD 0 0) := pairEdge_ends g _ _
  rcases hends with ⟨h1, h2⟩ | ⟨h1, h2⟩
  · rw [h1, h2] at hbridge; exact hbridge hfin.symm
  · rw [h1, h2] at hbridge; exact hbridge hfin

/-! ### the reference, every size -/

/-- **`refCycleU` for every graph**: the cyclomatic number of the underlying undirected graph is
positive iff it has a self-loop or a simple cycle (cycles over `Graph.und`; no symmetry assumed) -/
theorem refCycleU_iff_und (g : Graph) : g.refCycleU = true ↔ Dfs.UndCycle g.und := by
  rw [refCycleU_iff_count]
  constructor
  · rintro (h | h)
    · obtain ⟨u, hu⟩ := List.exists_mem_of_length_pos h
      obtain ⟨hun, hw⟩ := (mem_loops g u).1 hu
      exact .inl ⟨u, (mem_und g u u).2 ⟨hun, .inl hw⟩⟩
    · have hlen : g.kruskalEdges.length < (sortBy wle g.wEdges).length := by
        rw [(sortBy_perm wle g.wEdges).length_eq]; exact h
      obtain ⟨e, he, hne⟩ := exists_not_mem_of_sublist (kruskalEdges_sublist g) (candidates_nodup g) hlen
      exact .inr (cycle_of_untaken g e ((mem_sortBy _ _ _).1 he) hne)
  · rintro (⟨u, hu⟩ | ⟨C, hC⟩)
    · obtain ⟨hun, hw⟩ := (mem_und g u u).1 hu
      exact .inl (List.length_pos_of_mem ((mem_loops g u).2 ⟨hun, by rcases hw with h | h <;> exact h⟩))
    · by_cases hno : g.kruskalEdges.length < g.wEdges.length
      · exact .inr hno
      exfalso
      have hlen : g.kruskalEdges.length = (sortBy wle g.wEdges).length := by
        have h3 := (kruskalEdges_sublist g).length_le
        rw [(sortBy_perm wle g.wEdges).length_eq] at h3 ⊢
        omega
      have heq := (kruskalEdges_sublist g).eq_of_length hlen
      exact not_forest_of_cycle g C hC (heq ▸ kruskal_forest g)

/-- for a symmetric graph the cycles over `und` are the cycles along stored entries -/
theorem undCycle_und_iff (g : Graph) (hs : g.Symmetric) : Dfs.UndCycle g.und ↔ g.HasUndCycle := by
  unfold Dfs.UndCycle Graph.HasUndCycle
  constructor
  · rintro (⟨u, hu⟩ | ⟨C, hC⟩)
    · obtain ⟨hun, hw⟩ := (mem_und g u u).1 hu
      exact .inl ⟨u, hun, by simp only [Graph.isEdge, bne_iff_ne]; rcases hw with h | h <;> exact h⟩
    · have hlt := simpleCycle_und_lt g C hC
      obtain ⟨h3, hnd, hadj⟩ := hC
      refine .inr ⟨C, h3, hnd, ?_, ?_⟩
      · intro v hv
        obtain ⟨i, hi, rfl⟩ := Dfs.mem_getD C v hv
        exact hlt i hi
      · intro i hi
        obtain ⟨hb, hw⟩ := (mem_und g _ _).1 (hadj i hi)
        simp only [Graph.isEdge, bne_iff_ne]
        rcases hw with h | h
        · exact h
        · rw [hs _ _ (hlt i hi) hb]; exact h
  · rintro (⟨u, hun, he⟩ | ⟨C, h3, hnd, hlt, hadj⟩)
    · exact .inl ⟨u, (mem_und g u u).2 ⟨hun, .inl (by simpa [Graph.isEdge] using he)⟩⟩
    · refine .inr ⟨C, h3, hnd, fun i hi => (mem_und g _ _).2 ⟨?_, .inl ?_⟩⟩
      · exact hlt _ (Dfs.getD_mem C _ (Nat.mod_lt _ (by omega)))
      · simpa [Graph.isEdge] using hadj i hi

/-- **`refCycleU` is the textbook notion**, symmetric graphs of every size -/
theorem refCycleU_iff (g : Graph) (hs : g.Symmetric) : g.refCycleU = true ↔ g.HasUndCycle :=
  (refCycleU_iff_und g).trans (undCycle_und_iff g hs)

/-- **the DFS detector agrees with the cyclomatic reference**, symmetric graphs of every size
(the unbounded version of `hasCycles_correct_small_undirected`) -/
theorem hasCycles_eq_refCycleU (g : Graph) (hs : g.Symmetric) : g.hasCycles false = g.refCycleU := by
  rw [Bool.eq_iff_iff, hasCycles_undirected_iff g hs, refCycleU_iff g hs]

/-- hence the two undirected tree references agree with the coded test -/
theorem refCycle_false_eq (g : Graph) (hs : g.Symmetric) : g.refCycle false = g.hasCycles false := by
  simp [Graph.refCycle, hasCycles_eq_refCycleU g hs]

/-! ### examples: 7 vertices — a triangle with a pendant (0-1-2, 2-3), a path (4-5), an isolated
vertex (6); and the same with the triangle opened -/

def exCyc : Graph := Graph.ofRows
  [[0, 1, 1, 0, 0, 0, 0],
   [1, 0, 1, 0, 0, 0, 0],
   [1, 1, 0, 1, 0, 0, 0],
   [0, 0, 1, 0, 0, 0, 0],
   [0, 0, 0, 0, 0, 1, 0],
   [0, 0, 0, 0, 1, 0, 0],
   [0, 0, 0, 0, 0, 0, 0]]

def exAcyc : Graph := Graph.ofRows
  [[0, 1, 0, 0, 0, 0, 0],
   [1, 0, 1, 0, 0, 0, 0],
   [0, 1, 0, 1, 0, 0, 0],
   [0, 0, 1, 0, 0, 0, 0],
   [0, 0, 0, 0, 0, 1, 0],
   [0, 0, 0, 0, 1, 0, 0],
   [0, 0, 0, 0, 0, 0, 0]]

theorem exCyc_symmetric : exCyc.Symmetric := by
  have : exCyc.symmetricB = true := by decide
  intro i j hi hj
  simp only [Graph.symmetricB, List.all_eq_true, List.mem_range, beq_iff_eq] at this
  exact this i hi j hj

example : exCyc.nUndEdges = 5 ∧ exCyc.nComponents = 3 ∧ exCyc.n = 7 ∧ exCyc.kruskalEdges.length = 4 := by decide
example : exCyc.refCycleU = true ∧ exCyc.hasCycles false = true := by decide
example : exAcyc.nUndEdges = 4 ∧ exAcyc.nComponents = 3 ∧ exAcyc.n = 7 := by decide
example : exAcyc.refCycleU = false ∧ exAcyc.hasCycles false = false := by decide

/-- the cycle that `refCycleU_iff` speaks about, on the example -/
example : exCyc.SimpleCycle [0, 1, 2] := by
  refine ⟨by decide, by decide, by decide, ?_⟩
  decide

example : exCyc.HasUndCycle := (refCycleU_iff exCyc exCyc_symmetric).1 (by decide)

end MenpoModel.C14
