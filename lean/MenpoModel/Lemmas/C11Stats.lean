/-
C11 — helper lemmas and the list-level (sufficient-statistics) theorems about the incremental
mean / covariance / scatter updates.  The property theorems are in Props/C11.lean.
-/
import MenpoModel.Core.C11
import Mathlib.Algebra.Ring.Rat
import Mathlib.Algebra.Order.Field.Rat
import Mathlib.Algebra.BigOperators.Group.List.Basic
import Mathlib.Tactic.Ring
import Mathlib.Tactic.LinearCombination
import Mathlib.Tactic.FieldSimp
import Mathlib.Tactic.Linarith

namespace MenpoModel.C11


theorem sumC_nil (i : Nat) : sumC [] i = 0 := rfl
theorem sumC_cons (x : Vec) (X : Data) (i : Nat) : sumC (x :: X) i = x i + sumC X i := by
  simp [sumC]
theorem sumCC_cons (x : Vec) (X : Data) (i j : Nat) : sumCC (x :: X) i j = x i * x j + sumCC X i j := by
  simp [sumCC]
theorem sumC_append (X B : Data) (i : Nat) : sumC (X ++ B) i = sumC X i + sumC B i := by
  simp [sumC]
theorem sumCC_append (X B : Data) (i j : Nat) : sumCC (X ++ B) i j = sumCC X i j + sumCC B i j := by
  simp [sumCC]

theorem gram_centre_raw (X : Data) (m : Vec) (i j : Nat) :
    gram (centre X m) i j
      = sumCC X i j - m j * sumC X i - m i * sumC X j + (X.length : Rat) * m i * m j := by
  induction X with
  | nil => simp [gram, centre, sumCC, sumC]
  | cons x X ih =>
    simp only [gram, centre, List.map_cons, sumCC_cons, sumC_cons, List.length_cons, Nat.cast_add,
      Nat.cast_one] at ih ⊢
    rw [ih]; ring

theorem covOf_raw (b : Bool) (X : Data) (hn : (X.length : Rat) ≠ 0) (i j : Nat) :
    covOf b X i j = (sumCC X i j - (X.length : Rat) * mean X i * mean X j) / ((X.length : Rat) - 1 + biasQ b) := by
  unfold covOf
  rw [gram_centre_raw]
  congr 1
  unfold mean
  field_simp
  ring

theorem meanUpdate_mean (X B : Data) (hn : (X.length : Rat) ≠ 0) :
    meanUpdate X.length (mean X) B = mean (X ++ B) := by
  funext i
  unfold meanUpdate mean
  simp only [sumC_append, List.length_append, Nat.cast_add]
  field_simp

theorem len_pos_cast (X : Data) (h : X ≠ []) : (X.length : Rat) ≠ 0 := by
  have : 0 < X.length := List.length_pos_iff.mpr h
  exact_mod_cast this.ne'

/-- normaliser of the initial batch is non-zero: `n ≥ 2` for bias 0, `n ≥ 1` for bias 1 -/
def EnoughSamples (b : Bool) (X : Data) : Prop := if b then 1 ≤ X.length else 2 ≤ X.length

instance (b : Bool) (X : Data) : Decidable (EnoughSamples b X) := by
  unfold EnoughSamples; infer_instance

theorem enough_ne_nil {b X} (h : EnoughSamples b X) : X ≠ [] := by
  intro h0; subst h0; cases b <;> simp [EnoughSamples] at h
theorem enough_norm {b X} (h : EnoughSamples b X) : (X.length : Rat) - 1 + biasQ b ≠ 0 := by
  cases b
  · have h' : 2 ≤ X.length := by simpa [EnoughSamples] using h
    have : (2 : Rat) ≤ X.length := by exact_mod_cast h'
    have hb : biasQ false = 0 := rfl
    rw [hb]; intro h2; linarith
  · have h' : 1 ≤ X.length := by simpa [EnoughSamples] using h
    have : (1 : Rat) ≤ X.length := by exact_mod_cast h'
    have hb : biasQ true = 1 := rfl
    rw [hb]; intro h2; linarith
theorem enough_append {b X} (B : Data) (h : EnoughSamples b X) : EnoughSamples b (X ++ B) := by
  cases b <;> simp only [EnoughSamples, List.length_append] at h ⊢ <;> simp at h ⊢ <;> omega

theorem covUpdate_cov (b : Bool) (X B : Data) (h : EnoughSamples b X) :
    covUpdate b X.length (mean X) (covOf b X) B = covOf b (X ++ B) := by
  funext i j
  have hn := len_pos_cast X (enough_ne_nil h)
  have hk := enough_norm h
  have hN := len_pos_cast (X ++ B) (enough_ne_nil (enough_append B h))
  have hK := enough_norm (enough_append B h)
  rw [covOf_raw b (X ++ B) hN]
  unfold covUpdate
  rw [covOf_raw b X hn]
  have hkk : (if b then (X.length : Rat) else (X.length : Rat) - 1) = (X.length : Rat) - 1 + biasQ b := by
    cases b <;> simp [biasQ]
  simp only [hkk]
  unfold meanUpdate mean
  simp only [sumC_append, sumCC_append, List.length_append, Nat.cast_add] at hN hK ⊢
  have hK' : (X.length : Rat) - 1 + biasQ b + B.length ≠ 0 := by
    intro h'; apply hK; linear_combination h'
  field_simp
  ring


/-! ### feature maps commute with the sample mean -/

def FeatMean (φ : Vec → Vec) : Prop := ∀ X : Data, φ (mean X) = mean (X.map φ)

theorem sum_map_sub (X : Data) (f g : Vec → Rat) :
    (X.map fun x => f x - g x).sum = (X.map f).sum - (X.map g).sum := by
  induction X with
  | nil => simp
  | cons x X ih => simp only [List.map_cons, List.sum_cons, ih]; ring

theorem featVertex_mean (k v : Nat) : FeatMean (featVertex k v) := by
  intro X; funext c
  simp [featVertex, mean, sumC, List.map_map, Function.comp_def]

theorem featSub_mean (k v1 v2 : Nat) : FeatMean (featSub k v1 v2) := by
  intro X; funext c
  simp only [featSub, mean, sumC, List.map_map, Function.comp_def, List.length_map]
  rw [sum_map_sub X (fun x => x (v1 * k + c)) (fun x => x (v2 * k + c))]
  ring

theorem featConcat_mean (k v1 v2 : Nat) : FeatMean (featConcat k v1 v2) := by
  intro X; funext c
  by_cases h : c < k <;>
    simp [featConcat, mean, sumC, List.map_map, Function.comp_def, h]

theorem GSpec.feat_mean (g : GSpec) (e : Nat) : FeatMean (g.feat e) := by
  unfold GSpec.feat
  split
  · exact featVertex_mean _ _
  · cases g.mode
    · exact featConcat_mean _ _ _
    · exact featSub_mean _ _ _

end MenpoModel.C11
