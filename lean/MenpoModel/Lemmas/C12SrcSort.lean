/-
C12 — the executable `argsortIns` (`Core/C12Src.lean`, run by the driver in place of numpy's `argsort`) keeps the
promise `ArgsortOK` that the theorems about the translated sparse constructors assume of `argsort`: the hypothesis is
satisfiable, for every input.
-/
import MenpoModel.Lemmas.C12SrcInit

set_option linter.unusedSimpArgs false
set_option linter.unusedVariables false

namespace MenpoModel.C12.Src
open MenpoModel.C12

theorem insArg_perm (rows : List Nat) (i : Nat) (l : List Nat) : (insArg rows i l).Perm (i :: l) := by
  induction l with
  | nil => exact List.Perm.refl _
  | cons j js ih =>
    unfold insArg
    split
    · exact List.Perm.refl _
    · exact (List.Perm.cons j ih).trans (List.Perm.swap i j js)

theorem insArg_sorted (rows : List Nat) (i : Nat) (l : List Nat)
    (h : (l.map fun j => rows.getD j 0).Pairwise (· ≤ ·)) :
    ((insArg rows i l).map fun j => rows.getD j 0).Pairwise (· ≤ ·) := by
  induction l with
  | nil => simp [insArg]
  | cons j js ih =>
    unfold insArg
    split
    · rename_i hle
      simp only [List.map_cons, List.pairwise_cons] at h ⊢
      refine ⟨?_, h⟩
      intro a ha
      simp only [List.mem_cons, List.mem_map] at ha
      rcases ha with ha | ⟨b, hb, hab⟩
      · subst ha; exact hle
      · subst hab; exact Nat.le_trans hle (h.1 _ (List.mem_map.2 ⟨b, hb, rfl⟩))
    · rename_i hnle
      simp only [List.map_cons, List.pairwise_cons] at h ⊢
      refine ⟨?_, ih h.2⟩
      intro a ha
      have hp := (insArg_perm rows i js).map (fun j => rows.getD j 0)
      have := hp.mem_iff.1 ha
      simp only [List.map_cons, List.mem_cons] at this
      rcases this with h' | h'
      · subst h'; omega
      · exact h.1 a h'

/-- **the driver's `argsort` keeps numpy's promise** -/
theorem argsortIns_ok (rows : List Nat) : ArgsortOK argsortIns rows := by
  unfold ArgsortOK argsortIns
  generalize List.range rows.length = xs
  induction xs with
  | nil => exact ⟨List.Perm.refl _, by simp⟩
  | cons x xs ih =>
    simp only [List.foldr_cons]
    exact ⟨(insArg_perm rows x _).trans (List.Perm.cons x ih.1), insArg_sorted rows x _ ih.2⟩

end MenpoModel.C12.Src
