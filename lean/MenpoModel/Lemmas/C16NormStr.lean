/-
C16 — `_norm_path` as the CODE composes it (`Path(abspath(normpath(expandvars(expanduser(str(fp))))))`, string by
string: `normPathSpec`) denotes the same file as the direct model of `Core/C16.lean` (`normPathRaw`: expand, then
normalise the components against the working directory).  The work is in the three string functions:

  resolve_osNormpath   the operating system resolves `os.path.normpath(s)` to the file it resolves `s` to
  resolve_osAbspath    … and `os.path.abspath(s)`
  resolve_pathStr      … and `str(pathlib.Path(s))`
  key_normPathSpec     hence  key (_norm_path fp) = normPathRaw env cwd (str fp)

Core Lean only.
-/
import MenpoModel.Core.C16Src
import MenpoModel.Lemmas.C16Guard

namespace MenpoModel.C16

/-! ### split and join -/

def joinC (sep : Char) : List (List Char) → List Char
  | [] => []
  | [c] => c
  | c :: t => c ++ sep :: joinC sep t

theorem intercalate_eq_joinC (sep : Char) (cs : List (List Char)) : [sep].intercalate cs = joinC sep cs := by
  induction cs with
  | nil => rfl
  | cons c t ih =>
    cases t with
    | nil => simp [List.intercalate, List.intersperse, joinC]
    | cons d u =>
      simp only [List.intercalate, List.intersperse, List.flatten_cons, joinC] at ih ⊢
      rw [ih]
      simp

theorem splitC_ne_nil (sep : Char) (s : List Char) : splitC sep s ≠ [] := by
  cases s with
  | nil => simp [splitC]
  | cons c t =>
    unfold splitC
    split
    · simp
    · split <;> simp

theorem splitC_append_sep (sep : Char) (a b : List Char) :
    splitC sep (a ++ sep :: b) = splitC sep a ++ splitC sep b := by
  induction a with
  | nil => simp [splitC]
  | cons c t ih =>
    simp only [List.cons_append]
    by_cases hc : c = sep
    · subst hc
      simp [splitC, ih]
    · simp only [splitC, hc, ↓reduceIte, ih]
      cases hs : splitC sep t with
      | nil => exact absurd hs (splitC_ne_nil sep t)
      | cons h u => simp

theorem splitC_nosep (sep : Char) (s : List Char) (h : sep ∉ s) : splitC sep s = [s] := by
  induction s with
  | nil => rfl
  | cons c t ih =>
    have hc : c ≠ sep := fun e => h (by simp [e])
    have ht : sep ∉ t := fun e => h (by simp [e])
    simp [splitC, hc, ih ht]

theorem nosep_of_mem_splitC (sep : Char) (s : List Char) : ∀ c ∈ splitC sep s, sep ∉ c := by
  induction s with
  | nil => intro c hc; simp [splitC] at hc; subst hc; simp
  | cons a t ih =>
    intro c hc
    unfold splitC at hc
    split at hc
    · simp only [List.mem_cons] at hc
      rcases hc with rfl | hc
      · simp
      · exact ih c hc
    · rename_i ha
      split at hc
      · rename_i hs; exact absurd hs (splitC_ne_nil sep t)
      · rename_i h u hs
        simp only [List.mem_cons] at hc
        rcases hc with rfl | hc
        · have := ih h (by rw [hs]; simp)
          intro hm
          simp only [List.mem_cons] at hm
          rcases hm with rfl | hm
          · exact ha rfl
          · exact this hm
        · exact ih c (by rw [hs]; simp [hc])

/-- components that are non-empty and free of the separator -/
def CompsOK (sep : Char) (cs : List (List Char)) : Prop := ∀ c ∈ cs, c ≠ [] ∧ sep ∉ c

theorem splitC_joinC (sep : Char) (cs : List (List Char)) (h : CompsOK sep cs) (hne : cs ≠ []) :
    splitC sep (joinC sep cs) = cs := by
  induction cs with
  | nil => exact absurd rfl hne
  | cons c t ih =>
    cases t with
    | nil => simp [joinC, splitC_nosep sep c (h c (by simp)).2]
    | cons d u =>
      simp only [joinC] at ih ⊢
      rw [splitC_append_sep, splitC_nosep sep c (h c (by simp)).2, ih (fun x hx => h x (by simp [hx])) (by simp)]
      simp

/-- a join of good components does not start with the separator -/
theorem joinC_head (sep : Char) (cs : List (List Char)) (h : CompsOK sep cs) (hne : cs ≠ []) :
    ∃ a r, joinC sep cs = a :: r ∧ a ≠ sep := by
  cases cs with
  | nil => exact absurd rfl hne
  | cons c t =>
    obtain ⟨hc1, hc2⟩ := h c (by simp)
    cases c with
    | nil => exact absurd rfl hc1
    | cons a r =>
      have ha : a ≠ sep := fun e => hc2 (by simp [e])
      cases t with
      | nil => exact ⟨a, r, rfl, ha⟩
      | cons d u => exact ⟨a, r ++ sep :: joinC sep (d :: u), by simp [joinC], ha⟩

/-! ### the component fold ignores what `normStep` ignores -/

def keepC (c : Comp) : Bool := !(c == [] || c == ['.'])

theorem foldl_normStep_filter (cs : List Comp) : ∀ st, (cs.filter keepC).foldl normStep st = cs.foldl normStep st := by
  induction cs with
  | nil => intro st; rfl
  | cons c t ih =>
    intro st
    by_cases hk : keepC c = true
    · simp [List.filter_cons, hk, ih]
    · have : c = [] ∨ c = ['.'] := by
        unfold keepC at hk
        simp only [Bool.not_eq_true', Bool.not_eq_false', Bool.or_eq_true, beq_iff_eq] at hk
        by_cases hc : c = []
        · exact Or.inl hc
        · right; simpa [hc] using hk
      simp only [List.filter_cons, hk, Bool.false_eq_true, ↓reduceIte, List.foldl_cons]
      rcases this with rfl | rfl
      · rw [normStep_empty]; exact ih st
      · rw [normStep_dot]; exact ih st

theorem foldl_normStep_nils (k : Nat) (cs : List Comp) (st : List Comp) :
    (List.replicate k [] ++ cs).foldl normStep st = cs.foldl normStep st := by
  induction k with
  | zero => simp
  | succ n ih => simp [List.replicate_succ, normStep_empty, ih]

/-- everything `normStep` leaves on its stack is a proper component -/
theorem foldl_normStep_proper (cs : List Comp) : ∀ st, (∀ c ∈ st, Proper c) → ∀ c ∈ cs.foldl normStep st, Proper c := by
  induction cs with
  | nil => intro st h; exact h
  | cons a t ih =>
    intro st h
    apply ih
    unfold normStep
    split
    · exact h
    · split
      · intro c hc; exact h c (List.mem_of_mem_tail hc)
      · rename_i h1 h2
        intro c hc
        simp only [List.mem_cons] at hc
        rcases hc with rfl | hc
        · simp only [not_or] at h1
          exact ⟨h1.1, h1.2, h2⟩
        · exact h c hc

theorem normAbs_proper (cs : List Comp) : ∀ c ∈ normAbs cs, Proper c := by
  intro c hc
  unfold normAbs at hc
  exact foldl_normStep_proper cs [] (by simp) c (by simpa using hc)

theorem normAbs_idem (cs : List Comp) : normAbs (normAbs cs) = normAbs cs :=
  normAbs_fixed _ (normAbs_proper cs)

/-! ### `posixpath.normpath` on components -/

/-- rooted: `..` never stays, so the loop of `normpath` is `normStep` -/
theorem foldl_relStep_rooted (cs : List Comp) : ∀ st, (['.', '.'] ∉ st) →
    cs.foldl (relStep true) st = cs.foldl normStep st ∧ ['.', '.'] ∉ cs.foldl normStep st := by
  induction cs with
  | nil => intro st h; exact ⟨rfl, h⟩
  | cons c t ih =>
    intro st h
    simp only [List.foldl_cons]
    have hstep : relStep true st c = normStep st c := by
      unfold relStep normStep
      by_cases h1 : c = [] ∨ c = ['.']
      · simp [h1]
      · simp only [h1, ↓reduceIte]
        by_cases h2 : c = ['.', '.']
        · have hh : st.head? ≠ some ['.', '.'] := by
            intro e
            cases st with
            | nil => simp at e
            | cons a u => simp at e; exact h (by simp [e])
          simp [h2, hh]
        · simp [h2]
    rw [hstep]
    apply ih
    unfold normStep
    split
    · exact h
    · split
      · intro hm; exact h (List.mem_of_mem_tail hm)
      · rename_i h2
        intro hm
        simp only [List.mem_cons] at hm
        rcases hm with e | hm
        · exact h2 e.symm
        · exact h hm

/-- the relative stack: no empty and no `.` component -/
def RelOK (rs : List Comp) : Prop := ∀ c ∈ rs, c ≠ [] ∧ c ≠ ['.']

theorem relStep_relOK (rs : List Comp) (c : Comp) (h : RelOK rs) : RelOK (relStep false rs c) := by
  unfold relStep
  split
  · exact h
  · rename_i h1
    split
    · intro x hx
      simp only [List.mem_cons] at hx
      rcases hx with rfl | hx
      · simpa [not_or] using h1
      · exact h x hx
    · intro x hx; exact h x (List.mem_of_mem_tail hx)

/-- normalising relatively first and against a directory afterwards = normalising against the directory -/
theorem foldl_relStep_then_norm (cs : List Comp) : ∀ (rs st0 : List Comp), RelOK rs →
    (cs.foldl (relStep false) rs).reverse.foldl normStep st0 = cs.foldl normStep (rs.reverse.foldl normStep st0) := by
  induction cs with
  | nil => intro rs st0 _; rfl
  | cons c t ih =>
    intro rs st0 h
    simp only [List.foldl_cons]
    rw [ih _ st0 (relStep_relOK rs c h)]
    congr 1
    unfold relStep
    by_cases h1 : c = [] ∨ c = ['.']
    · simp only [h1, ↓reduceIte]
      rcases h1 with rfl | rfl
      · rw [normStep_empty]
      · rw [normStep_dot]
    · simp only [h1, ↓reduceIte]
      split
      · simp [List.foldl_append]
      · rename_i h2
        simp only [not_or, Decidable.not_not, not_and] at h2
        obtain ⟨hc, h3, h4⟩ := h2
        subst hc
        cases rs with
        | nil => exact absurd rfl (h3 trivial)
        | cons p u =>
          have hp : Proper p := by
            obtain ⟨hp1, hp2⟩ := h p (by simp)
            refine ⟨hp1, hp2, ?_⟩
            intro e
            exact h4 (by simp [e])
          simp only [List.tail_cons, List.reverse_cons, List.foldl_append, List.foldl_cons, List.foldl_nil]
          rw [normStep_proper _ p hp, normStep_dotdot]
          rfl

theorem relStep_compsOK (rooted : Bool) (cs : List Comp) : ∀ st, CompsOK '/' st → (∀ c ∈ cs, '/' ∉ c) →
    CompsOK '/' (cs.foldl (relStep rooted) st) := by
  induction cs with
  | nil => intro st h _; exact h
  | cons c t ih =>
    intro st h hc
    simp only [List.foldl_cons]
    apply ih _ _ (fun x hx => hc x (by simp [hx]))
    unfold relStep
    split
    · exact h
    · rename_i h1
      split
      · intro x hx
        simp only [List.mem_cons] at hx
        rcases hx with rfl | hx
        · simp only [not_or] at h1
          exact ⟨h1.1, hc x (by simp)⟩
        · exact h x hx
      · intro x hx; exact h x (List.mem_of_mem_tail hx)

/-! ### `os.path.normpath` -/

def normComps (s : List Char) : List Comp :=
  ((splitC '/' s).foldl (relStep (initialSlashes s != 0)) []).reverse

theorem normComps_ok (s : List Char) : CompsOK '/' (normComps s) := by
  intro c hc
  unfold normComps at hc
  exact relStep_compsOK _ _ [] (by intro x hx; simp at hx) (nosep_of_mem_splitC '/' s) c (by simpa using hc)

theorem joinC_eq_nil (sep : Char) (cs : List (List Char)) (h : CompsOK sep cs) : joinC sep cs = [] ↔ cs = [] := by
  constructor
  · intro hj
    cases cs with
    | nil => rfl
    | cons c t =>
      obtain ⟨a, r, hr, _⟩ := joinC_head sep (c :: t) h (by simp)
      rw [hr] at hj
      simp at hj
  · rintro rfl; rfl

theorem osNormpath_eq (s : List Char) (hs : s ≠ []) :
    osNormpath s = if List.replicate (initialSlashes s) '/' ++ joinC '/' (normComps s) = [] then ['.']
      else List.replicate (initialSlashes s) '/' ++ joinC '/' (normComps s) := by
  unfold osNormpath normComps
  simp only [hs, ↓reduceIte, intercalate_eq_joinC]

theorem foldl_splitC_slashes_join (k : Nat) (R : List Comp) (h : CompsOK '/' R) (st : List Comp) :
    (splitC '/' (List.replicate k '/' ++ joinC '/' R)).foldl normStep st = R.foldl normStep st := by
  induction k with
  | zero =>
    simp only [List.replicate_zero, List.nil_append]
    cases R with
    | nil => simp [joinC, splitC, normStep_empty]
    | cons c t => rw [splitC_joinC '/' _ h (by simp)]
  | succ n ih =>
    simp only [List.replicate_succ, List.cons_append, splitC, ↓reduceIte, List.foldl_cons, normStep_empty]
    exact ih

theorem initialSlashes_rel (c : Char) (t : List Char) (hc : c ≠ '/') : initialSlashes (c :: t) = 0 := by
  unfold initialSlashes
  split <;> simp_all

theorem initialSlashes_abs (t : List Char) : ∃ n, initialSlashes ('/' :: t) = n + 1 := by
  unfold initialSlashes
  split
  · exact ⟨0, rfl⟩
  · exact ⟨1, rfl⟩
  · exact ⟨0, rfl⟩
  · rename_i h; exact absurd rfl (h t)

/-- the operating system resolves `normpath(s)` to the file it resolves `s` to -/
theorem resolve_osNormpath (cwd : Path) (s : List Char) : resolve cwd (osNormpath s) = resolve cwd s := by
  cases s with
  | nil => simp [osNormpath, resolve, normAbs, splitC, List.foldl_append, normStep_dot, normStep_empty]
  | cons c t =>
    rw [osNormpath_eq _ (by simp)]
    have hok := normComps_ok (c :: t)
    by_cases hc : c = '/'
    · subst hc
      obtain ⟨n, hn⟩ := initialSlashes_abs t
      have hR : normComps ('/' :: t) = normAbs (splitC '/' ('/' :: t)) := by
        unfold normComps normAbs
        rw [hn]
        have hb : (n + 1 != 0) = true := by simp
        rw [hb, (foldl_relStep_rooted _ [] (by simp)).1]
      rw [hn]
      simp only [List.replicate_succ, List.cons_append, reduceCtorEq, ↓reduceIte, resolve]
      rw [← List.cons_append, ← List.replicate_succ]
      unfold normAbs
      rw [foldl_splitC_slashes_join _ _ hok, hR]
      exact normAbs_idem _
    · rw [initialSlashes_rel c t hc]
      simp only [List.replicate_zero, List.nil_append]
      have hB := foldl_relStep_then_norm (splitC '/' (c :: t)) [] (cwd.foldl normStep []) (by intro x hx; simp at hx)
      have hR : normComps (c :: t) = ((splitC '/' (c :: t)).foldl (relStep false) []).reverse := by
        unfold normComps
        rw [initialSlashes_rel c t hc]
        rfl
      rw [← hR] at hB
      replace hB : (normComps (c :: t)).foldl normStep (cwd.foldl normStep []) =
          (splitC '/' (c :: t)).foldl normStep (cwd.foldl normStep []) := hB
      have hrel : resolve cwd (c :: t) = normAbs (cwd ++ splitC '/' (c :: t)) := by
        unfold resolve
        split
        · rename_i h; simp at h; exact absurd h.1 hc
        · rfl
      rw [hrel]
      by_cases hj : joinC '/' (normComps (c :: t)) = []
      · have hnil := (joinC_eq_nil '/' _ hok).1 hj
        rw [hnil] at hB
        replace hB : cwd.foldl normStep [] = (splitC '/' (c :: t)).foldl normStep (cwd.foldl normStep []) := hB
        simp only [hj, ↓reduceIte]
        have hdot : resolve cwd ['.'] = normAbs (cwd ++ [['.']]) := by simp [resolve, splitC]
        rw [hdot]
        unfold normAbs
        simp only [List.foldl_append, List.foldl_cons, List.foldl_nil, normStep_dot]
        rw [← hB]
      · simp only [hj, ↓reduceIte]
        have hne : normComps (c :: t) ≠ [] := fun e => hj ((joinC_eq_nil '/' _ hok).2 e)
        obtain ⟨a, r, hr, ha⟩ := joinC_head '/' _ hok hne
        have : resolve cwd (joinC '/' (normComps (c :: t))) = normAbs (cwd ++ splitC '/' (joinC '/' (normComps (c :: t)))) := by
          rw [hr]
          unfold resolve
          split
          · rename_i h; simp at h; exact absurd h.1 ha
          · rfl
        rw [this, splitC_joinC '/' _ hok hne]
        unfold normAbs
        simp only [List.foldl_append]
        rw [hB]

/-! ### `os.path.abspath` -/

/-- the working directory as the model keeps it: components that are non-empty and free of `/` -/
def CwdOK (cwd : Path) : Prop := CompsOK '/' cwd

theorem resolve_abs (cwd : Path) (t : List Char) : resolve cwd ('/' :: t) = normAbs (splitC '/' ('/' :: t)) := rfl

theorem resolve_rel (cwd : Path) (s : List Char) (h : ∀ t, s ≠ '/' :: t) : resolve cwd s = normAbs (cwd ++ splitC '/' s) := by
  unfold resolve
  split
  · rename_i t; exact absurd rfl (h t)
  · rfl

theorem getLast_joinC (cs : List Comp) (h : CompsOK '/' cs) (hne : cs ≠ []) : (joinC '/' cs).getLast? ≠ some '/' := by
  induction cs with
  | nil => exact absurd rfl hne
  | cons c t ih =>
    cases t with
    | nil =>
      simp only [joinC]
      intro e
      have := List.mem_of_getLast? e
      exact (h c (by simp)).2 this
    | cons d u =>
      simp only [joinC]
      have := ih (fun x hx => h x (by simp [hx])) (by simp)
      obtain ⟨a, r, hr, _⟩ := joinC_head '/' (d :: u) (fun x hx => h x (by simp [hx])) (by simp)
      rw [hr] at this ⊢
      intro e
      apply this
      rw [List.getLast?_append] at e
      simpa using e

theorem splitC_renderPath (cwd : Path) (h : CwdOK cwd) (st : List Comp) :
    (splitC '/' (renderPath cwd)).foldl normStep st = cwd.foldl normStep st := by
  unfold renderPath
  rw [intercalate_eq_joinC]
  have := foldl_splitC_slashes_join 1 cwd h st
  simpa using this

/-- the operating system resolves `abspath(s)` to the file it resolves `s` to -/
theorem resolve_osAbspath (cwd : Path) (h : CwdOK cwd) (s : List Char) : resolve cwd (osAbspath cwd s) = resolve cwd s := by
  unfold osAbspath
  split
  · exact resolve_osNormpath cwd _
  · rename_i hrel
    rw [resolve_osNormpath]
    have hs : ∀ t, s ≠ '/' :: t := fun t e => hrel t e
    rw [resolve_rel cwd s hs]
    unfold joinPath
    split
    · rename_i t; exact absurd rfl (hs t)
    · unfold renderPath
      rw [intercalate_eq_joinC]
      by_cases hc : cwd = []
      · subst hc
        simp only [joinC, List.getLast?_singleton, or_true, ↓reduceIte, List.singleton_append, List.nil_append]
        rw [resolve_abs]
        unfold normAbs
        simp [splitC, normStep_empty]
      · have hl : ('/' :: joinC '/' cwd).getLast? ≠ some '/' := by
          obtain ⟨a, r, hr, _⟩ := joinC_head '/' cwd h hc
          rw [hr, List.getLast?_cons_cons, ← hr]
          exact getLast_joinC cwd h hc
        simp only [reduceCtorEq, hl, or_self, ↓reduceIte, List.cons_append]
        rw [resolve_abs, ← List.cons_append, splitC_append_sep]
        unfold normAbs
        simp only [List.foldl_append]
        have := splitC_renderPath cwd h []
        unfold renderPath at this
        rw [intercalate_eq_joinC] at this
        rw [this]

/-! ### `str(pathlib.Path(s))` -/

theorem filter_keepC_ok (s : List Char) : CompsOK '/' ((splitC '/' s).filter keepC) := by
  intro c hc
  simp only [List.mem_filter] at hc
  refine ⟨?_, nosep_of_mem_splitC '/' s c hc.1⟩
  intro e
  subst e
  simp [keepC] at hc

theorem pathStr_eq (s : List Char) :
    pathStr s =
      (let root : List Char := match s with
        | '/' :: '/' :: '/' :: _ => ['/']
        | '/' :: '/' :: _ => ['/', '/']
        | '/' :: _ => ['/']
        | _ => []
       if root = [] ∧ (splitC '/' s).filter keepC = [] then ['.']
       else root ++ joinC '/' ((splitC '/' s).filter keepC)) := by
  unfold pathStr
  simp only [intercalate_eq_joinC]
  have : (fun c : List Char => !(c == [] || c == ['.'])) = keepC := rfl
  rw [this]
  split <;> simp

/-- the operating system resolves `str(Path(s))` to the file it resolves `s` to -/
theorem resolve_pathStr (cwd : Path) (s : List Char) : resolve cwd (pathStr s) = resolve cwd s := by
  rw [pathStr_eq]
  have hok := filter_keepC_ok s
  have hfold : ∀ st, ((splitC '/' s).filter keepC).foldl normStep st = (splitC '/' s).foldl normStep st :=
    foldl_normStep_filter _
  generalize hP : (splitC '/' s).filter keepC = P at hok hfold
  have habs : ∀ (k : Nat) (t : List Char), resolve cwd (List.replicate (k + 1) '/' ++ joinC '/' P) =
      normAbs (splitC '/' ('/' :: t)) → True := fun _ _ _ => trivial
  -- absolute: any root, then the kept parts
  have key : ∀ k : Nat, resolve cwd (List.replicate (k + 1) '/' ++ joinC '/' P) = normAbs (splitC '/' s) := by
    intro k
    simp only [List.replicate_succ, List.cons_append]
    rw [resolve_abs, ← List.cons_append, ← List.replicate_succ]
    unfold normAbs
    rw [foldl_splitC_slashes_join _ _ hok, hfold]
  split
  · rename_i t
    simp only [reduceCtorEq, false_and, ↓reduceIte]
    exact (key 0).trans (resolve_abs cwd _).symm
  · rename_i t _
    simp only [reduceCtorEq, false_and, ↓reduceIte]
    exact (key 1).trans (resolve_abs cwd _).symm
  · rename_i t _ _
    simp only [reduceCtorEq, false_and, ↓reduceIte]
    exact (key 0).trans (resolve_abs cwd _).symm
  · rename_i h1 h2 h3
    have hs : ∀ t, s ≠ '/' :: t := fun t e => h3 t e
    rw [resolve_rel cwd s hs]
    simp only [true_and, List.nil_append]
    by_cases hp : P = []
    · subst hp
      simp only [↓reduceIte]
      have hdot : resolve cwd ['.'] = normAbs (cwd ++ [['.']]) := by simp [resolve, splitC]
      rw [hdot]
      unfold normAbs
      simp only [List.foldl_append, List.foldl_cons, List.foldl_nil, normStep_dot]
      rw [← hfold]
      rfl
    · simp only [hp, ↓reduceIte]
      obtain ⟨a, r, hr, ha⟩ := joinC_head '/' P hok hp
      have : resolve cwd (joinC '/' P) = normAbs (cwd ++ splitC '/' (joinC '/' P)) := by
        apply resolve_rel
        intro t e
        rw [hr] at e
        simp only [List.cons.injEq] at e
        exact ha e.1
      rw [this, splitC_joinC '/' _ hok hp]
      unfold normAbs
      simp only [List.foldl_append]
      rw [hfold]

/-! ### `_norm_path` -/

/-- THE BRIDGE: the path object `_norm_path` returns — built string by string as the code does — is the file the direct
model `normPathRaw` (expand, then normalise the components against the working directory) names -/
theorem key_normPathSpec (env : Env) (cwd : Path) (h : CwdOK cwd) (x : Fp) :
    (normPathSpec env cwd x).key cwd = normPathRaw env cwd x.toStr := by
  unfold normPathSpec Fp.key
  simp only [Fp.toStr]
  rw [resolve_pathStr, resolve_osAbspath cwd h, resolve_osNormpath]
  unfold normPathRaw resolve
  rfl

end MenpoModel.C16
