/-
C16 — rounding lemmas for the points format and the float-image quantisation (exact arithmetic over ℚ).
-/
import MenpoModel.Core.C16
import Mathlib.Algebra.Order.Field.Rat
import Mathlib.Tactic.Linarith
import Mathlib.Tactic.Ring
import Mathlib.Tactic.Push

namespace MenpoModel.C16

theorem floor_le' (q : ℚ) : ((q.floor : ℤ) : ℚ) ≤ q := Rat.floor_le q
theorem lt_floor_add_one' (q : ℚ) : q < ((q.floor : ℤ) : ℚ) + 1 := by
  have := Rat.lt_floor_add_one q
  push_cast at this
  exact this

/-- round-half-even is within half a unit -/
theorem roundHalfEven_err (q : ℚ) : |((roundHalfEven q : ℤ) : ℚ) - q| ≤ 1 / 2 := by
  have h1 := floor_le' q
  have h2 := lt_floor_add_one' q
  rw [abs_le]
  unfold roundHalfEven
  simp only
  split_ifs with ha hb hc
  · constructor <;> linarith
  · push_cast; constructor <;> linarith
  · constructor <;> linarith
  · push_cast; constructor <;> linarith

theorem roundHalfEven_intCast (n : ℤ) : roundHalfEven (n : ℚ) = n := by
  unfold roundHalfEven
  simp only [Rat.floor_intCast, sub_self]
  norm_num

theorem fmt3_err (q : ℚ) : |fmt3 q - q| ≤ 1 / 2000 := by
  have h := roundHalfEven_err (q * 1000)
  rw [abs_le] at h ⊢
  unfold fmt3
  constructor
  · have : ((roundHalfEven (q * 1000) : ℤ) : ℚ) / 1000 - q = (((roundHalfEven (q * 1000) : ℤ) : ℚ) - q * 1000) / 1000 := by ring
    rw [this]; linarith [h.1]
  · have : ((roundHalfEven (q * 1000) : ℤ) : ℚ) / 1000 - q = (((roundHalfEven (q * 1000) : ℤ) : ℚ) - q * 1000) / 1000 := by ring
    rw [this]; linarith [h.2]

/-- a number with at most three decimals is printed exactly -/
theorem fmt3_exact (n : ℤ) : fmt3 ((n : ℚ) / 1000) = (n : ℚ) / 1000 := by
  unfold fmt3
  have : (n : ℚ) / 1000 * 1000 = (n : ℚ) := by ring
  rw [this, roundHalfEven_intCast]

/-! ### quantisation of a float pixel `x ∈ [0, 1]` -/

theorem quantTrunc_range (x : ℚ) (h0 : 0 ≤ x) (h1 : x ≤ 1) : 0 ≤ quantTrunc x ∧ quantTrunc x ≤ 255 := by
  unfold quantTrunc
  constructor
  · rw [Rat.le_floor_iff]; push_cast; linarith
  · have : (x * 255).floor < 256 := by rw [Rat.floor_lt_iff]; push_cast; linarith
    omega

theorem quantTrunc_err (x : ℚ) : 0 ≤ x - renorm (quantTrunc x) ∧ x - renorm (quantTrunc x) < 1 / 255 := by
  have h1 := floor_le' (x * 255)
  have h2 := lt_floor_add_one' (x * 255)
  unfold renorm quantTrunc
  have e : x - (((x * 255).floor : ℤ) : ℚ) / 255 = (x * 255 - (((x * 255).floor : ℤ) : ℚ)) / 255 := by ring
  rw [e]
  constructor
  · apply div_nonneg <;> linarith
  · rw [div_lt_div_iff_of_pos_right (by norm_num : (0 : ℚ) < 255)]; linarith

theorem quantRound_err (x : ℚ) : |renorm (quantRound x) - x| ≤ 1 / 510 := by
  have h := roundHalfEven_err (x * 255)
  rw [abs_le] at h ⊢
  unfold renorm quantRound
  have e : ((roundHalfEven (x * 255) : ℤ) : ℚ) / 255 - x = (((roundHalfEven (x * 255) : ℤ) : ℚ) - x * 255) / 255 := by ring
  rw [e]
  constructor <;> linarith [h.1, h.2]

theorem quantRound_range (x : ℚ) (h0 : 0 ≤ x) (h1 : x ≤ 1) : 0 ≤ quantRound x ∧ quantRound x ≤ 255 := by
  have h := roundHalfEven_err (x * 255)
  rw [abs_le] at h
  unfold quantRound
  constructor
  · have : (-1 : ℚ) < ((roundHalfEven (x * 255) : ℤ) : ℚ) := by linarith [h.1]
    have : (-1 : ℤ) < roundHalfEven (x * 255) := by exact_mod_cast this
    omega
  · have : ((roundHalfEven (x * 255) : ℤ) : ℚ) < 256 := by linarith [h.2]
    have : roundHalfEven (x * 255) < 256 := by exact_mod_cast this
    omega

/-- in exact arithmetic every eight-bit level is a fixed point of *both* conversions: the loss of the coded
conversion is purely an effect of binary64 rounding (`k * (1/255) * 255 < k` for 24 values of `k`), which
is why the eight-bit clause is decided on IEEE doubles (`Lemmas/C16Float.lean`) and not here -/
theorem quant_exact_levels (k : ℕ) : quantTrunc ((k : ℚ) / 255) = k ∧ quantRound ((k : ℚ) / 255) = k := by
  have : (k : ℚ) / 255 * 255 = ((k : ℤ) : ℚ) := by push_cast; ring
  unfold quantTrunc quantRound
  rw [this, Rat.floor_intCast, roundHalfEven_intCast]
  exact ⟨rfl, rfl⟩

end MenpoModel.C16
