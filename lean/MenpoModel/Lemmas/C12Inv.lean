/-
C12 — contracts of the per-edge blocks: a sample covariance is symmetric positive semi-definite, and so
is its exact inverse and its truncated pseudo-inverse.
-/
import MenpoModel.Lemmas.C12Quad
import Mathlib.Data.Matrix.Mul
import Mathlib.LinearAlgebra.Matrix.NonsingularInverse
import Mathlib.Algebra.BigOperators.Fin
import Mathlib.Tactic.FieldSimp

set_option linter.unusedSimpArgs false
set_option linter.unusedVariables false

namespace MenpoModel.C12
open Finset

/-- `B` is symmetric on its leading `d × d` part -/
def Symm (d : Nat) (B : Mat) : Prop := ∀ i j, i < d → j < d → ent B i j = ent B j i
/-- `B` is positive semi-definite on its leading `d × d` part -/
def PSD (d : Nat) (B : Mat) : Prop := ∀ y : Nat → Rat, 0 ≤ qf d (ent B) y
/-- `C · B = 1` on the leading `d × d` parts -/
def IsInv (d : Nat) (C B : Mat) : Prop :=
  ∀ i j, i < d → j < d → sumTo d (fun l => ent C i l * ent B l j) = if i = j then 1 else 0

/-! ### Gram form -/

/- `gram` (the Gram form `G[p][q] = Σ_r w_r · a_{r,p} · a_{r,q}`) is defined in Core/C12GMRF.lean -/

theorem gram_qf (d R : Nat) (w : Nat → Rat) (a : Nat → Nat → Rat) (y : Nat → Rat) :
    qf d (ent (gram d R w a)) y = ∑ r ∈ range R, w r * (∑ p ∈ range d, y p * a r p) ^ 2 := by
  rw [qf_eq]
  have e : ∀ p ∈ range d, ∀ q ∈ range d, y p * ent (gram d R w a) p q * y q =
      ∑ r ∈ range R, w r * ((y p * a r p) * (y q * a r q)) := by
    intro p hp q hq
    unfold gram
    rw [ent_tab, if_pos ⟨Finset.mem_range.1 hp, Finset.mem_range.1 hq⟩, sumTo_eq, Finset.mul_sum, Finset.sum_mul]
    apply Finset.sum_congr rfl; intro r _; ring
  calc ∑ p ∈ range d, ∑ q ∈ range d, y p * ent (gram d R w a) p q * y q
      = ∑ p ∈ range d, ∑ q ∈ range d, ∑ r ∈ range R, w r * ((y p * a r p) * (y q * a r q)) := by
        apply Finset.sum_congr rfl; intro p hp
        apply Finset.sum_congr rfl; intro q hq
        exact e p hp q hq
    _ = ∑ p ∈ range d, ∑ r ∈ range R, ∑ q ∈ range d, w r * ((y p * a r p) * (y q * a r q)) := by
        apply Finset.sum_congr rfl; intro p _
        exact Finset.sum_comm
    _ = ∑ r ∈ range R, ∑ p ∈ range d, ∑ q ∈ range d, w r * ((y p * a r p) * (y q * a r q)) :=
        Finset.sum_comm
    _ = ∑ r ∈ range R, w r * (∑ p ∈ range d, y p * a r p) ^ 2 := by
        apply Finset.sum_congr rfl; intro r _
        rw [pow_two, Finset.sum_mul_sum, Finset.mul_sum]
        apply Finset.sum_congr rfl; intro p _
        rw [Finset.mul_sum]

theorem gram_psd (d R : Nat) (w : Nat → Rat) (a : Nat → Nat → Rat) (hw : ∀ r, r < R → 0 ≤ w r) :
    PSD d (gram d R w a) := by
  intro y
  rw [gram_qf]
  apply Finset.sum_nonneg
  intro r hr
  exact mul_nonneg (hw r (Finset.mem_range.1 hr)) (sq_nonneg _)

theorem gram_symm (d R : Nat) (w : Nat → Rat) (a : Nat → Nat → Rat) : Symm d (gram d R w a) := by
  intro i j hi hj
  unfold gram
  rw [ent_tab, ent_tab, if_pos ⟨hi, hj⟩, if_pos ⟨hj, hi⟩, sumTo_eq, sumTo_eq]
  apply Finset.sum_congr rfl; intro r _; ring

/-! ### the sample covariance -/

theorem covMat_eq_gram (D : Mat) (N d : Nat) (bias : Bool) :
    covMat D N d bias =
      gram d N (fun _ => 1 / (if bias then (N : Rat) else (N : Rat) - 1))
        (fun i p => ent D i p - sumTo N (fun i => ent D i p) / (N : Rat)) := by
  unfold covMat gram tab
  apply List.map_congr_left; intro p _
  apply List.map_congr_left; intro q _
  simp only [sumTo_eq]
  rw [div_eq_mul_inv, Finset.sum_mul]
  apply Finset.sum_congr rfl; intro i _
  ring

/-- enough samples for the normalisation to be positive -/
def EnoughSamples (N : Nat) (bias : Bool) : Prop := if bias then 1 ≤ N else 2 ≤ N

theorem cov_symm (D : Mat) (N d : Nat) (bias : Bool) : Symm d (covMat D N d bias) := by
  rw [covMat_eq_gram]; exact gram_symm _ _ _ _

theorem cov_psd (D : Mat) (N d : Nat) (bias : Bool) (hN : EnoughSamples N bias) :
    PSD d (covMat D N d bias) := by
  rw [covMat_eq_gram]
  apply gram_psd
  intro r _
  apply div_nonneg (by norm_num)
  unfold EnoughSamples at hN
  cases bias
  · simp only [Bool.false_eq_true, if_false] at hN ⊢
    have : (2 : Rat) ≤ (N : Rat) := by exact_mod_cast hN
    linarith
  · simp only [if_true] at hN ⊢
    exact Nat.cast_nonneg N

/-! ### the inverse of a symmetric PSD matrix is symmetric PSD (bridge to Mathlib matrices) -/

def toM (d : Nat) (M : Mat) : Matrix (Fin d) (Fin d) ℚ := Matrix.of fun i j => ent M i.val j.val

theorem qf_toM (d : Nat) (M : Mat) (y : Nat → Rat) :
    qf d (ent M) y = dotProduct (fun i : Fin d => y i.val) (Matrix.mulVec (toM d M) (fun i : Fin d => y i.val)) := by
  rw [qf_eq]
  unfold dotProduct Matrix.mulVec dotProduct toM
  simp only [Matrix.of_apply]
  rw [← Fin.sum_univ_eq_sum_range (fun I => ∑ J ∈ range d, y I * ent M I J * y J) d]
  apply Finset.sum_congr rfl; intro i _
  rw [← Fin.sum_univ_eq_sum_range (fun J => y i.val * ent M i.val J * y J) d, Finset.mul_sum]
  apply Finset.sum_congr rfl; intro j _
  ring

theorem toM_mul_of_isInv (d : Nat) (C B : Mat) (h : IsInv d C B) : toM d C * toM d B = 1 := by
  ext i j
  rw [Matrix.mul_apply, Matrix.one_apply]
  unfold toM
  simp only [Matrix.of_apply]
  rw [Fin.sum_univ_eq_sum_range (fun l => ent C i.val l * ent B l j.val) d, ← sumTo_eq, h i.val j.val i.isLt j.isLt]
  simp [Fin.ext_iff]

theorem inv_symm (d : Nat) (C B : Mat) (hC : Symm d C) (h : IsInv d C B) : Symm d B := by
  have h1 : toM d C * toM d B = 1 := toM_mul_of_isInv d C B h
  have h2 : toM d B * toM d C = 1 := mul_eq_one_comm.1 h1
  have hCt : (toM d C).transpose = toM d C := by
    ext i j; simp only [Matrix.transpose_apply, toM, Matrix.of_apply]; exact hC j.val i.val j.isLt i.isLt
  have h3 : (toM d B).transpose * toM d C = 1 := by
    have := congrArg Matrix.transpose h1
    rw [Matrix.transpose_mul, hCt, Matrix.transpose_one] at this
    exact this
  have h4 : (toM d B).transpose = toM d B := by
    calc (toM d B).transpose = (toM d B).transpose * (toM d C * toM d B) := by rw [h1, Matrix.mul_one]
      _ = ((toM d B).transpose * toM d C) * toM d B := by rw [Matrix.mul_assoc]
      _ = toM d B := by rw [h3, Matrix.one_mul]
  intro i j hi hj
  have := congrFun (congrFun h4 ⟨j, hj⟩) ⟨i, hi⟩
  simp only [Matrix.transpose_apply, toM, Matrix.of_apply] at this
  exact this

theorem inv_psd (d : Nat) (C B : Mat) (hC : PSD d C) (h : IsInv d C B) : PSD d B := by
  have h1 : toM d C * toM d B = 1 := toM_mul_of_isInv d C B h
  intro y
  let yv : Fin d → ℚ := fun i => y i.val
  let zv : Fin d → ℚ := Matrix.mulVec (toM d B) yv
  let z : Nat → Rat := fun n => if hn : n < d then zv ⟨n, hn⟩ else 0
  have hz : (fun i : Fin d => z i.val) = zv := by
    funext i; simp [z, i.isLt]
  have hC' := hC z
  rw [qf_toM, hz] at hC'
  have e : Matrix.mulVec (toM d C) zv = yv := by
    show Matrix.mulVec (toM d C) (Matrix.mulVec (toM d B) yv) = yv
    rw [Matrix.mulVec_mulVec, h1, Matrix.one_mulVec]
  rw [e] at hC'
  rw [qf_toM, dotProduct_comm]
  exact hC'

/-! ### the model's checked inverse satisfies the contract -/

theorem checkInv_sound (C B : Mat) (d : Nat) (h : checkInv C B d = true) : IsInv d C B := by
  intro i j hi hj
  unfold checkInv at h
  rw [List.all_eq_true] at h
  have h1 := h i (List.mem_range.2 hi)
  rw [List.all_eq_true] at h1
  have h2 := h1 j (List.mem_range.2 hj)
  exact of_decide_eq_true h2

theorem invChecked_isInv (C : Mat) (d : Nat) (B : Mat) (h : invChecked C d = some B) : IsInv d C B := by
  unfold invChecked at h
  split at h
  · exact absurd h (by simp)
  · rename_i B' _
    split at h
    · rename_i hc
      have hB : B = tab d d (ent B') := by injection h with h; exact h.symm
      have := checkInv_sound C B' d hc
      intro i j hi hj
      rw [← this i j hi hj, hB]
      simp only [sumTo_eq]
      apply Finset.sum_congr rfl; intro l hl
      rw [ent_tab, if_pos ⟨Finset.mem_range.1 hl, hj⟩]
    · exact absurd h (by simp)

/-- **contract discharged for `n_components = None`**: the checked inverse of a sample covariance is
symmetric positive semi-definite -/
theorem inv_cov_symm_psd (D : Mat) (N d : Nat) (bias : Bool) (hN : EnoughSamples N bias) (B : Mat)
    (h : invChecked (covMat D N d bias) d = some B) : Symm d B ∧ PSD d B :=
  ⟨inv_symm d _ B (cov_symm D N d bias) (invChecked_isInv _ d B h),
   inv_psd d _ B (cov_psd D N d bias hN) (invChecked_isInv _ d B h)⟩

/-- **contract of the truncated-SVD inverse** `S_r · diag(1/σ_r) · D_r` of a symmetric PSD matrix
(`u_r` the kept singular vectors, `σ_r > 0`): it has Gram form, hence is symmetric PSD -/
theorem truncated_inverse_symm_psd (d R : Nat) (sigma : Nat → Rat) (u : Nat → Nat → Rat)
    (hs : ∀ r, r < R → 0 < sigma r) :
    Symm d (gram d R (fun r => 1 / sigma r) u) ∧ PSD d (gram d R (fun r => 1 / sigma r) u) :=
  ⟨gram_symm _ _ _ _, gram_psd _ _ _ _ (fun r hr => le_of_lt (one_div_pos.2 (hs r hr)))⟩

end MenpoModel.C12
