/-
C11 — the algebraic skeleton of `menpo.math.decomposition.ipca` over Mathlib matrices, with QR and SVD as
contract parameters.
-/
import MenpoModel.Core.C11
import Mathlib.Algebra.Ring.Rat
import Mathlib.Algebra.Order.Field.Rat
import Mathlib.Algebra.BigOperators.Fin
import Mathlib.Data.Matrix.Mul
import Mathlib.Data.Matrix.Block
import Mathlib.Data.Matrix.ColumnRowPartitioned
import Mathlib.Tactic.Ring
import Mathlib.Tactic.FieldSimp

set_option linter.unusedSectionVars false

namespace MenpoModel.C11
open Matrix

variable {k m q d : Type} [Fintype k] [Fintype m] [Fintype q] [Fintype d]
  [DecidableEq k] [DecidableEq m] [DecidableEq q] [DecidableEq d]

/-- `PB = B - B.dot(U_a.T).dot(U_a)` -/
def projOut (Ua : Matrix k d ℚ) (B : Matrix m d ℚ) : Matrix m d ℚ := B - B * Uaᵀ * Ua

/-- the `R` matrix of `ipca` (forgetting factor 1) -/
def ipcaR (Ua : Matrix k d ℚ) (sa : k → ℚ) (B : Matrix m d ℚ) (Bt : Matrix q d ℚ) :
    Matrix (k ⊕ m) (k ⊕ q) ℚ :=
  fromBlocks (diagonal sa) 0 (B * Uaᵀ) (projOut Ua B * Btᵀ)

theorem ipcaR_mul_W (Ua : Matrix k d ℚ) (sa : k → ℚ) (B : Matrix m d ℚ) (Bt : Matrix q d ℚ)
    (hqr : projOut Ua B * Btᵀ * Bt = projOut Ua B) :
    ipcaR Ua sa B Bt * fromRows Ua Bt = fromRows (diagonal sa * Ua) B := by
  unfold ipcaR
  rw [fromBlocks_mul_fromRows, hqr]
  congr 1
  · simp
  · unfold projOut; abel

/-- entries of a represented matrix; rows with `σ = 0` contribute nothing -/
theorem representation_entry {c : Type} [Fintype c] [DecidableEq c] (U : Matrix c d ℚ) (σ : c → ℚ) (a b : d) :
    (Uᵀ * diagonal σ * U) a b = ∑ i, σ i * U i a * U i b := by
  simp [Matrix.mul_apply, Matrix.diagonal_apply]
  apply Finset.sum_congr rfl; intro i _; ring

/-- data matrix of a sample list -/
def matOfData (n : Nat) (X : Data) : Matrix (Fin X.length) (Fin n) ℚ := fun r c => X[r] c

theorem matOfData_gram (n : Nat) (X : Data) (i j : Fin n) :
    ((matOfData n X)ᵀ * matOfData n X) i j = gram X i j := by
  simp only [Matrix.mul_apply, Matrix.transpose_apply, matOfData, gram, sumCC]
  exact Fin.sum_univ_fun_getElem X (fun x => x i * x j)


end MenpoModel.C11
