/-
C11 — lemmas about the array vocabulary `NP` (Core/C11Src.lean) and the bridge from the definitions `Src.*` (to which the
translated sources are proved equal in GenProps/C11Src.lean) to the model of Core/C11.lean the property theorems of
Props/C11.lean are about.
-/
import MenpoModel.Core.C11Src
import MenpoModel.Lemmas.C11Stats

namespace MenpoModel.C11.NP

@[simp] theorem V.add_f (a b : V) (i : Nat) : (a + b).f i = a.f i + b.f i := rfl
@[simp] theorem V.add_n (a b : V) : (a + b).n = max a.n b.n := rfl
@[simp] theorem V.sub_f (a b : V) (i : Nat) : (a - b).f i = a.f i - b.f i := rfl
@[simp] theorem V.sub_n (a b : V) : (a - b).n = max a.n b.n := rfl
@[simp] theorem V.smul_f (s : Rat) (a : V) (i : Nat) : (s * a).f i = s * a.f i := rfl
@[simp] theorem V.smul_n (s : Rat) (a : V) : (s * a).n = a.n := rfl
@[simp] theorem V.div_f (a : V) (s : Rat) (i : Nat) : (a / s).f i = a.f i / s := rfl
@[simp] theorem V.div_n (a : V) (s : Rat) : (a / s).n = a.n := rfl
@[simp] theorem M.add_f (a b : M) (i j : Nat) : (a + b).f i j = a.f i j + b.f i j := rfl
@[simp] theorem M.add_r (a b : M) : (a + b).r = max a.r b.r := rfl
@[simp] theorem M.add_c (a b : M) : (a + b).c = max a.c b.c := rfl
@[simp] theorem M.sub_f (a b : M) (i j : Nat) : (a - b).f i j = a.f i j - b.f i j := rfl
@[simp] theorem M.sub_r (a b : M) : (a - b).r = max a.r b.r := rfl
@[simp] theorem M.sub_c (a b : M) : (a - b).c = max a.c b.c := rfl
@[simp] theorem M.neg_f (a : M) (i j : Nat) : (-a).f i j = - a.f i j := rfl
@[simp] theorem M.neg_r (a : M) : (-a).r = a.r := rfl
@[simp] theorem M.neg_c (a : M) : (-a).c = a.c := rfl
@[simp] theorem M.smul_f (s : Rat) (a : M) (i j : Nat) : (s * a).f i j = s * a.f i j := rfl
@[simp] theorem M.smul_r (s : Rat) (a : M) : (s * a).r = a.r := rfl
@[simp] theorem M.smul_c (s : Rat) (a : M) : (s * a).c = a.c := rfl
@[simp] theorem M.div_f (a : M) (s : Rat) (i j : Nat) : (a / s).f i j = a.f i j / s := rfl
@[simp] theorem M.div_r (a : M) (s : Rat) : (a / s).r = a.r := rfl
@[simp] theorem M.div_c (a : M) (s : Rat) : (a / s).c = a.c := rfl
@[simp] theorem M.subV_f (a : M) (v : V) (i j : Nat) : (a - v).f i j = a.f i j - v.f j := rfl
@[simp] theorem M.subV_r (a : M) (v : V) : (a - v).r = a.r := rfl
@[simp] theorem M.subV_c (a : M) (v : V) : (a - v).c = max a.c v.n := rfl
@[simp] theorem ratAddNat (a : Rat) (n : Nat) : (HAdd.hAdd a n : Rat) = a + (n : Rat) := rfl
@[simp] theorem natAddRat (n : Nat) (a : Rat) : (HAdd.hAdd n a : Rat) = (n : Rat) + a := rfl
@[simp] theorem ratSubNat (a : Rat) (n : Nat) : (HSub.hSub a n : Rat) = a - (n : Rat) := rfl
@[simp] theorem ratMulNat (a : Rat) (n : Nat) : (HMul.hMul a n : Rat) = a * (n : Rat) := rfl
@[simp] theorem natMulRat (n : Nat) (a : Rat) : (HMul.hMul n a : Rat) = (n : Rat) * a := rfl
@[simp] theorem ratDivNat (a : Rat) (n : Nat) : (HDiv.hDiv a n : Rat) = a / (n : Rat) := rfl
@[simp] theorem natDivRat (n : Nat) (a : Rat) : (HDiv.hDiv n a : Rat) = (n : Rat) / a := rfl
@[simp] theorem rsum_one (g : Nat → Rat) : rsum 1 g = g 0 := by simp [rsum]
@[simp] theorem getItem_fn (c : Nat → M) (e : Nat) : getItem c e = c e := rfl
@[simp] theorem setItem_fn_same (c : Nat → M) (e : Nat) (v : M) : (setItem c e v : Nat → M) e = v := by
  simp [setItem]
/-- a conditional update of several variables, read back through its projections -/
@[simp] theorem ite_fst {α β : Type} (c : Prop) [Decidable c] (x y : α × β) :
    (if c then x else y).1 = if c then x.1 else y.1 := by split <;> rfl
@[simp] theorem ite_snd {α β : Type} (c : Prop) [Decidable c] (x y : α × β) :
    (if c then x else y).2 = if c then x.2 else y.2 := by split <;> rfl
theorem setItem_fn_apply (c : Nat → M) (e : Nat) (v : M) (i : Nat) :
    (setItem c e v : Nat → M) i = if i = e then v else c i := rfl

end MenpoModel.C11.NP

namespace MenpoModel.C11.Src
open MenpoModel.C11.NP
@[simp] theorem incMean_n (X : M) (m : V) (n : Rat) : (incMean X m n).n = max m.n X.c := rfl
theorem incMean_f (X : M) (m : V) (n : Rat) (i : Nat) :
    (incMean X m n).f i = (n * m.f i + rsum X.r fun t => X.f t i) / (n + (X.r : Rat)) := rfl
end MenpoModel.C11.Src

namespace MenpoModel.Py

/-- the shape of a translated loop whose body may raise: the first component carries the exit (`some none` = raised),
later iterations are the identity -/
def optLoop {σ α ρ : Type} (step : σ → α → Option σ) (acc : Option (Option ρ) × σ) (it : α) : Option (Option ρ) × σ :=
  if acc.1.isSome then acc else
    match step acc.2 it with
    | none => (some none, acc.2)
    | some s => (none, s)

theorem forLoop_optLoop_raised {σ α ρ : Type} (step : σ → α → Option σ) (xs : List α) (s : σ) :
    forLoop ((some none : Option (Option ρ)), s) xs (optLoop step) = (some none, s) := by
  induction xs with
  | nil => rfl
  | cons x xs ih => simp only [forLoop_cons, optLoop, Option.isSome_some, if_true]; exact ih

/-- a translated raising loop computes `List.foldlM` in the `Option` monad -/
theorem forLoop_optLoop {σ α ρ : Type} (step : σ → α → Option σ) (xs : List α) : ∀ (s0 : σ),
    (∀ s, xs.foldlM step s0 = some s → forLoop ((none : Option (Option ρ)), s0) xs (optLoop step) = (none, s)) ∧
    (xs.foldlM step s0 = none → (forLoop ((none : Option (Option ρ)), s0) xs (optLoop step)).1 = some none) := by
  induction xs with
  | nil => intro s0; constructor
           · intro s h; simp at h; subst h; rfl
           · intro h; simp at h
  | cons x xs ih =>
    intro s0
    simp only [List.foldlM_cons, forLoop_cons]
    cases hs : step s0 x with
    | none =>
      constructor
      · intro s h; simp at h
      · intro _
        have : optLoop (ρ := ρ) step (none, s0) x = (some none, s0) := by simp [optLoop, hs]
        rw [this, forLoop_optLoop_raised]
    | some s1 =>
      have : optLoop (ρ := ρ) step (none, s0) x = (none, s1) := by simp [optLoop, hs]
      rw [this]
      simpa using ih s1

/-- the statement after a translated raising loop: `match r.1 with | some v => v | none => some (g r.2)` -/
theorem forLoop_optLoop_result {σ α β : Type} (step : σ → α → Option σ) (xs : List α) (s0 : σ) (g : σ → β) :
    (match (forLoop ((none : Option (Option β)), s0) xs (optLoop step)).1 with
      | some v => v
      | none => some (g (forLoop ((none : Option (Option β)), s0) xs (optLoop step)).2))
      = (xs.foldlM step s0).map g := by
  cases h : xs.foldlM step s0 with
  | none => rw [(forLoop_optLoop step xs s0).2 h]; rfl
  | some s => rw [(forLoop_optLoop step xs s0).1 s h]; rfl

end MenpoModel.Py
