/-
C08 — retargeting an alignment equals rebuilding it, whatever happened before.  Value-level theorems
(one alignment object as a value; sharing and copies are in `Lemmas/C08Heap.lean`).  Core Lean only.

The theorems quantify over *every* `Ext` (whatever the numerical fits are), every class, every option
value, every source and every finite history of `set_target` calls, accepted or rejected.
-/
import MenpoModel.Core.C08Retarget
import MenpoModel.Core.C08Table

namespace MenpoModel.C08

variable {Pts A : Type}

/-! ### overwriting a part of the matrix twice is overwriting it once -/

theorem setBlock_setBlock (d : Nat) (r r' h : Mat) :
    setBlock d r' (setBlock d r h) = setBlock d r' h := by
  funext i j; simp only [setBlock]; split <;> rfl

theorem setLastCol_setLastCol (d : Nat) (t t' : Nat → Rat) (h : Mat) :
    setLastCol d t' (setLastCol d t h) = setLastCol d t' h := by
  funext i j; simp only [setLastCol]; split <;> rfl

theorem scale_scale (d : Nat) (s s' : Rat) (h : Mat) :
    setCorner d (fillDiag d s' (setCorner d (fillDiag d s h))) = setCorner d (fillDiag d s' h) := by
  funext i j; simp only [setCorner, fillDiag]
  by_cases h1 : i = d ∧ j = d
  · simp [h1]
  · by_cases h2 : i = j ∧ i ≤ d
    · obtain ⟨rfl, hle⟩ := h2
      have hne : i ≠ d := fun h => h1 ⟨h, h⟩
      simp [hne, hle]
    · simp only [h1, h2, if_false]

/-! ### shapes -/

/-- same number of dimensions and of points -/
def SameShape (e : Ext Pts A) (a b : Pts) : Prop := e.nDims a = e.nDims b ∧ e.nPoints a = e.nPoints b

theorem verifyTarget_ok (e : Ext Pts A) (o : Obj Pts A) (t : Pts) (h : SameShape e t o.target) :
    verifyTarget e o t = .ok () := by
  simp [verifyTarget, h.1, h.2]

theorem verifyTarget_ok_iff (e : Ext Pts A) (o : Obj Pts A) (t : Pts) :
    verifyTarget e o t = .ok () ↔ SameShape e t o.target := by
  constructor
  · intro h
    unfold verifyTarget at h
    by_cases h1 : e.nDims t = e.nDims o.target
    · by_cases h2 : e.nPoints t = e.nPoints o.target
      · exact ⟨h1, h2⟩
      · simp [h1, h2] at h
    · simp [h1] at h
  · exact verifyTarget_ok e o t

theorem verifySourceTarget_ok_iff (e : Ext Pts A) (s t : Pts) :
    verifySourceTarget e s t = .ok () ↔ SameShape e s t := by
  constructor
  · intro h
    unfold verifySourceTarget at h
    by_cases h1 : e.nDims s = e.nDims t
    · by_cases h2 : e.nPoints s = e.nPoints t
      · exact ⟨h1, h2⟩
      · simp [h1, h2] at h
    · simp [h1] at h
  · intro h; simp [verifySourceTarget, h.1, h.2]

/-! ### PROPERTY clause 3: a target with another number of points or dimensions is rejected,
and the rejected call changes nothing -/

theorem retarget_rejects_mismatch (e : Ext Pts A) (o : Obj Pts A) (t : Pts)
    (h : ¬ SameShape e t o.target) :
    (∃ err, setTarget e o t = .error err) ∧ step e o t = o := by
  have hv : ∃ err, verifyTarget e o t = .error err := by
    unfold verifyTarget
    by_cases h1 : e.nDims t = e.nDims o.target
    · by_cases h2 : e.nPoints t = e.nPoints o.target
      · exact absurd ⟨h1, h2⟩ h
      · exact ⟨.points, by simp [h1, h2]⟩
    · exact ⟨.dims, by simp [h1]⟩
  obtain ⟨err, hv⟩ := hv
  constructor
  · exact ⟨err, by simp [setTarget, hv]⟩
  · simp [step, setTarget, hv]

/-- the two kinds of rejection, by cause -/
theorem retarget_rejects_dims (e : Ext Pts A) (o : Obj Pts A) (t : Pts)
    (h : e.nDims t ≠ e.nDims o.target) : setTarget e o t = .error .dims := by
  simp [setTarget, verifyTarget, h]

theorem retarget_rejects_points (e : Ext Pts A) (o : Obj Pts A) (t : Pts)
    (hd : e.nDims t = e.nDims o.target) (h : e.nPoints t ≠ e.nPoints o.target) :
    setTarget e o t = .error .points := by
  simp [setTarget, verifyTarget, hd, h]

/-! ### on which (class, options) a tree remembers everything it must -/

/-- the tree stores every option the class's re-fit needs, and its constructor keeps the target -/
def Sound (tr : Tree) (c : Cls) (op : Opts) : Prop :=
  (c = .similarity → tr.remembersRotation = true ∨ op.rotation = true) ∧
  ((c = .affine ∨ c = .rotation) → tr.ctorKeepsTarget = true)

/-- the repaired tree is sound for every class and every option value -/
theorem fixed_sound (c : Cls) (op : Opts) : Sound fixed c op :=
  ⟨fun _ => Or.inl rfl, fun _ => rfl⟩

/-- the tree as found is sound except for `rotation=False` similarities and the affine / rotation classes -/
theorem coded_sound (c : Cls) (op : Opts) (h1 : c = .similarity → op.rotation = true)
    (h2 : c ≠ .affine) (h3 : c ≠ .rotation) : Sound coded c op :=
  ⟨fun hc => Or.inr (h1 hc), fun hc => by rcases hc with hc | hc <;> contradiction⟩

/-! ### one call: `set_target(t')` on a fresh alignment to `t` is the fresh alignment to `t'` -/

theorem build_target (tr : Tree) (e : Ext Pts A) (c : Cls) (op : Opts) (s t : Pts) (o : Obj Pts A)
    (hs : Sound tr c op) (hb : build tr e c op s t = .ok o) : o.target = t ∧ o.source = s ∧ o.cls = c := by
  unfold build at hb
  split at hb
  · simp at hb
  · unfold buildCore at hb
    cases c
    case affine =>
      have hk := hs.2 (Or.inl rfl)
      simp only [hk, if_true, Except.ok.injEq] at hb; subst hb; simp
    case rotation =>
      have hk := hs.2 (Or.inr rfl)
      simp only [hk, if_true, Except.ok.injEq] at hb; subst hb; simp
    case similarity => simp only [Except.ok.injEq] at hb; subst hb; simp
    case translation => simp only at hb; split at hb <;> simp at hb; subst hb; simp
    case uniformScale => simp only at hb; split at hb <;> simp at hb; subst hb; simp
    case tps => simp only at hb; split at hb <;> simp at hb; subst hb; simp
    case pwa => simp only at hb; split at hb <;> simp at hb; subst hb; simp

theorem setTarget_build (tr : Tree) (e : Ext Pts A) (c : Cls) (op : Opts) (s t t' : Pts) (o : Obj Pts A)
    (hs : Sound tr c op) (hb : build tr e c op s t = .ok o) (hsh : SameShape e t' t) :
    ∃ o', setTarget e o t' = .ok o' ∧ build tr e c op s t' = .ok o' := by
  have htgt := (build_target tr e c op s t o hs hb).1
  have hv : verifyTarget e o t' = .ok () := verifyTarget_ok e o t' (by rw [htgt]; exact hsh)
  refine ⟨sync e { o with target := t' }, by simp [setTarget, hv], ?_⟩
  unfold build at hb ⊢
  split at hb
  · simp at hb
  · rename_i hst
    have hst' : verifySourceTarget e s t' = .ok () := by
      rw [verifySourceTarget_ok_iff] at hst ⊢
      exact ⟨hst.1.trans hsh.1.symm, hst.2.trans hsh.2.symm⟩
    simp only [hst']
    unfold buildCore at hb ⊢
    cases c
    case affine =>
      have hk := hs.2 (Or.inl rfl)
      simp only [hk, if_true, Except.ok.injEq] at hb ⊢; subst hb; simp [sync]
    case rotation =>
      have hk := hs.2 (Or.inr rfl)
      simp only [hk, if_true, Except.ok.injEq] at hb ⊢; subst hb
      simp [sync, setBlock_setBlock]
    case similarity =>
      simp only [Except.ok.injEq] at hb ⊢; subst hb
      rcases hs.1 rfl with hr | hr
      · simp [sync, hr]
      · by_cases hrr : tr.remembersRotation = true <;> simp [sync, hr, hrr]
    case translation =>
      simp only at hb ⊢; split at hb
      · simp at hb
      · rename_i hd; simp only [hd, if_false, Except.ok.injEq] at hb ⊢; subst hb
        simp [sync, setLastCol_setLastCol]
    case uniformScale =>
      simp only at hb ⊢; split at hb
      · simp at hb
      · rename_i hd; simp only [hd, if_false, Except.ok.injEq] at hb ⊢; subst hb
        simp [sync, scale_scale]
    case tps =>
      simp only at hb ⊢; split at hb
      · simp at hb
      · rename_i hd; simp only [hd, if_false, Except.ok.injEq] at hb ⊢; subst hb
        simp [sync]
    case pwa =>
      simp only at hb ⊢; split at hb
      · simp at hb
      · rename_i hd; simp only [hd, if_false, Except.ok.injEq] at hb ⊢; subst hb
        simp [sync]


/-! ### PROPERTY clause 1: retargeting equals rebuilding, whatever happened before -/

theorem step_build (tr : Tree) (e : Ext Pts A) (c : Cls) (op : Opts) (s t t' : Pts) (o : Obj Pts A)
    (hs : Sound tr c op) (hb : build tr e c op s t = .ok o) :
    (SameShape e t' t → build tr e c op s t' = .ok (step e o t')) ∧
    (¬ SameShape e t' t → step e o t' = o) := by
  constructor
  · intro hsh
    obtain ⟨o', h1, h2⟩ := setTarget_build tr e c op s t t' o hs hb hsh
    simp [step, h1, h2]
  · intro hsh
    have htgt := (build_target tr e c op s t o hs hb).1
    exact (retarget_rejects_mismatch e o t' (by rw [htgt]; exact hsh)).2

/-- General form (any tree, on the (class, options) it is sound for): after *any* finite history of
`set_target` calls — accepted ones and rejected ones, in any order — the object **is** the freshly
constructed alignment of the same class, with the same options, from the same source to the last
accepted target.  Equality is of the whole object: stored options, source, target, fitted state. -/
theorem retarget_eq_rebuild_sound (tr : Tree) (e : Ext Pts A) (c : Cls) (op : Opts) (s : Pts)
    (hs : Sound tr c op) (ts : List Pts) :
    ∀ (t0 : Pts) (o0 : Obj Pts A), build tr e c op s t0 = .ok o0 →
      build tr e c op s (lastAccepted e t0 ts) = .ok (history e o0 ts) := by
  induction ts with
  | nil => intro t0 o0 hb; simpa [history, lastAccepted] using hb
  | cons t ts ih =>
    intro t0 o0 hb
    have hstep := step_build tr e c op s t0 t o0 hs hb
    by_cases hsh : SameShape e t t0
    · have h1 := hstep.1 hsh
      have := ih t (step e o0 t) h1
      simpa [history, lastAccepted, hsh.1, hsh.2] using this
    · have h2 := hstep.2 hsh
      have := ih t0 o0 hb
      have hcond : ¬ (e.nDims t = e.nDims t0 ∧ e.nPoints t = e.nPoints t0) := hsh
      simpa [history, lastAccepted, hcond, h2] using this

/-- PROPERTY (repaired tree): every class, every option value (rotation on/off, mirroring on/off,
every kernel, every singular-value floor), every source, every finite history. -/
theorem retarget_eq_rebuild (e : Ext Pts A) (c : Cls) (op : Opts) (s t0 : Pts) (o0 : Obj Pts A)
    (hb : build fixed e c op s t0 = .ok o0) (ts : List Pts) :
    build fixed e c op s (lastAccepted e t0 ts) = .ok (history e o0 ts) :=
  retarget_eq_rebuild_sound fixed e c op s (fixed_sound c op) ts t0 o0 hb

/-- … in particular same map (fitted state), same target, same aligned source, same remembered options -/
theorem retarget_same_observables (e : Ext Pts A) (c : Cls) (op : Opts) (s t0 : Pts) (o0 fresh : Obj Pts A)
    (hb : build fixed e c op s t0 = .ok o0) (ts : List Pts)
    (hf : build fixed e c op s (lastAccepted e t0 ts) = .ok fresh) :
    (history e o0 ts).state = fresh.state ∧ (history e o0 ts).target = fresh.target ∧
    (history e o0 ts).target = lastAccepted e t0 ts ∧
    (history e o0 ts).source = s ∧
    alignedSource e (history e o0 ts) = alignedSource e fresh := by
  have h := retarget_eq_rebuild e c op s t0 o0 hb ts
  rw [hf] at h
  simp only [Except.ok.injEq] at h
  have ht := build_target fixed e c op s _ fresh (fixed_sound c op) hf
  subst h
  exact ⟨rfl, rfl, ht.1, ht.2.1, rfl⟩

/-- … and independent of the history: two histories (from possibly different first targets) whose last
accepted targets agree leave *equal* objects -/
theorem retarget_history_independent (e : Ext Pts A) (c : Cls) (op : Opts) (s t0 t0' : Pts)
    (o0 o0' : Obj Pts A) (hb : build fixed e c op s t0 = .ok o0) (hb' : build fixed e c op s t0' = .ok o0')
    (ts ts' : List Pts) (h : lastAccepted e t0 ts = lastAccepted e t0' ts') :
    history e o0 ts = history e o0' ts' := by
  have h1 := retarget_eq_rebuild e c op s t0 o0 hb ts
  have h2 := retarget_eq_rebuild e c op s t0' o0' hb' ts'
  rw [h, h2] at h1
  simpa using h1.symm

/-- when every target of a non-empty history has the right shape, the last accepted one is the last one -/
theorem lastAccepted_all (e : Ext Pts A) (ts : List Pts) :
    ∀ (t0 : Pts), (∀ t ∈ ts, SameShape e t t0) → lastAccepted e t0 ts = (t0 :: ts).getLast (by simp) := by
  induction ts with
  | nil => intro t0 _; rfl
  | cons t ts ih =>
    intro t0 h
    have ht : SameShape e t t0 := h t (by simp)
    have h' : ∀ u ∈ ts, SameShape e u t := fun u hu =>
      ⟨(h u (by simp [hu])).1.trans ht.1.symm, (h u (by simp [hu])).2.trans ht.2.symm⟩
    simp only [lastAccepted, ht.1, ht.2, and_self, if_true]
    rw [ih t h']
    simp [List.getLast_cons]

/-! ### the tree as found: what it does instead, for whatever the fit is -/

/-- finding 6 (universal form): an `AlignmentSimilarity(…, rotation=False)` of the tree as found, once
retargeted, holds the Procrustes fit **with** rotation — it equals the fresh `rotation=False`
alignment only if the fit ignores its `rotation` argument. -/
theorem coded_similarity_forgets_rotation (e : Ext Pts A) (m : Bool) (s t t' : Pts) (o : Obj Pts A)
    (hb : build coded e .similarity { rotation := false, allowMirror := m } s t = .ok o)
    (hsh : SameShape e t' t) :
    ∃ o' fresh, setTarget e o t' = .ok o' ∧
      build coded e .similarity { rotation := false, allowMirror := m } s t' = .ok fresh ∧
      o'.state = .hom (e.procrustes true m s t') ∧ fresh.state = .hom (e.procrustes false m s t') := by
  unfold build at hb
  split at hb
  · simp at hb
  · rename_i hst
    have hst' : verifySourceTarget e s t' = .ok () := by
      rw [verifySourceTarget_ok_iff] at hst ⊢
      exact ⟨hst.1.trans hsh.1.symm, hst.2.trans hsh.2.symm⟩
    simp only [buildCore, coded, Except.ok.injEq] at hb
    subst hb
    have hv : verifyTarget e
        ({ cls := .similarity, rotation := none, allowMirror := some m, kernel := none, minSV := none,
           source := s, target := t, state := .hom (e.procrustes false m s t) } : Obj Pts A) t' = .ok () :=
      verifyTarget_ok e _ t' hsh
    refine ⟨_, _, by simp [setTarget, hv]; rfl, by simp [build, hst', buildCore, coded]; rfl, ?_, ?_⟩
    · simp [sync]
    · rfl

/-- finding 22 (universal form): a fresh `AlignmentAffine` / `AlignmentRotation` of the tree as found
reports the *aligned source* as its target, a retargeted one the target it was given. -/
theorem coded_ctor_target_affine (e : Ext Pts A) (op : Opts) (s t : Pts) (o : Obj Pts A)
    (hb : build coded e .affine op s t = .ok o) :
    o.target = e.applyHom (e.affineOf s t) s ∧ alignedSource e o = o.target ∧
    ∀ t' o', setTarget e o t' = .ok o' → o'.target = t' := by
  unfold build at hb
  split at hb
  · simp at hb
  · simp only [buildCore, coded, Except.ok.injEq] at hb
    subst hb
    refine ⟨by simp, by simp [alignedSource], ?_⟩
    intro t' o' h
    unfold setTarget at h
    split at h
    · simp at h
    · simp only [Except.ok.injEq] at h; subst h; simp [sync]

theorem coded_ctor_target_rotation (e : Ext Pts A) (op : Opts) (s t : Pts) (o : Obj Pts A)
    (hb : build coded e .rotation op s t = .ok o) :
    o.target = e.applyHom (setBlock (e.nDims s) (e.rotationOf op.allowMirror s t) eye) s ∧
    alignedSource e o = o.target ∧
    ∀ t' o', setTarget e o t' = .ok o' → o'.target = t' := by
  unfold build at hb
  split at hb
  · simp at hb
  · simp only [buildCore, coded, Except.ok.injEq] at hb
    subst hb
    refine ⟨by simp, by simp [alignedSource], ?_⟩
    intro t' o' h
    unfold setTarget at h
    split at h
    · simp at h
    · simp only [Except.ok.injEq] at h; subst h; simp [sync]



/-! ### PROPERTY clause 4: generalized Procrustes analysis without a fixed target -/

theorem similarity_sound (tr : Tree) (op : Opts) (hr : op.rotation = true) : Sound tr .similarity op :=
  ⟨fun _ => Or.inr hr, fun h => by rcases h with h | h <;> cases h⟩

theorem setAll_buildAll (tr : Tree) (e : Ext Pts A) (op : Opts) (hr : op.rotation = true) (t t' : Pts) :
    ∀ (sources : List Pts) (ts ts' : List (Obj Pts A)),
      buildAll tr e op t sources = .ok ts → setAll e t' ts = .ok ts' →
      buildAll tr e op t' sources = .ok ts' := by
  intro sources
  induction sources with
  | nil =>
    intro ts ts' hb hs
    simp only [buildAll, Except.ok.injEq] at hb; subst hb
    simp only [setAll, Except.ok.injEq] at hs; subst hs
    rfl
  | cons s ss ih =>
    intro ts ts' hb hs
    simp only [buildAll] at hb
    cases hbo : build tr e .similarity op s t with
    | error err => simp [hbo] at hb
    | ok o =>
      cases hbs : buildAll tr e op t ss with
      | error err => simp [hbo, hbs] at hb
      | ok os =>
        simp only [hbo, hbs, Except.ok.injEq] at hb; subst hb
        simp only [setAll] at hs
        cases hso : setTarget e o t' with
        | error err => simp [hso] at hs
        | ok o' =>
          cases hss : setAll e t' os with
          | error err => simp [hso, hss] at hs
          | ok os' =>
            simp only [hso, hss, Except.ok.injEq] at hs; subst hs
            have hsound := similarity_sound tr op hr
            have htgt := (build_target tr e .similarity op s t o hsound hbo).1
            have hsh : SameShape e t' t := by
              have hv : verifyTarget e o t' = .ok () := by
                unfold setTarget at hso
                split at hso
                · simp at hso
                · assumption
              rw [← htgt]; exact (verifyTarget_ok_iff e o t').mp hv
            obtain ⟨o'', h1, h2⟩ := setTarget_build tr e .similarity op s t t' o hsound hbo hsh
            rw [hso] at h1
            simp only [Except.ok.injEq] at h1; subst h1
            simp [buildAll, h2, ih os os' hbs hss]

theorem recProcrustes_inv (tr : Tree) (e : Ext Pts A) (g : GpaExt Pts) (initial : Pts) (op : Opts)
    (hr : op.rotation = true) (sources : List Pts) :
    ∀ (fuel : Nat) (st r : Gpa Pts A),
      buildAll tr e op st.target sources = .ok st.transforms →
      recProcrustes e g initial fuel st = .ok r →
      buildAll tr e op r.target sources = .ok r.transforms := by
  intro fuel
  induction fuel with
  | zero =>
    intro st r hb hr'
    simp only [recProcrustes, Except.ok.injEq] at hr'; subst hr'; exact hb
  | succ n ih =>
    intro st r hb hr'
    simp only [recProcrustes] at hr'
    split at hr'
    · simp only [Except.ok.injEq] at hr'; subst hr'; exact hb
    · split at hr'
      · simp at hr'
      · rename_i ts hts
        exact ih _ r (setAll_buildAll tr e op hr _ _ sources _ _ hb hts) hr'

/-- PROPERTY clause 4: on **every** exit path of the iteration (converged, or `max_iterations` reached, for
every `max_iterations`), on either tree, the transforms GPA returns are exactly the fresh
`AlignmentSimilarity(source_i, gpa.target, allow_mirror=…)` of each input shape to the common target it
reports — whatever the mean / rescale / convergence computations are. -/
theorem gpa_transforms_are_alignments (tr : Tree) (e : Ext Pts A) (g : GpaExt Pts) (maxIter : Nat)
    (sources : List Pts) (mirror : Bool) (r : Gpa Pts A)
    (h : gpa tr e g maxIter sources none mirror = .ok r) :
    buildAll tr e { rotation := true, allowMirror := mirror } r.target sources = .ok r.transforms := by
  simp only [gpa] at h
  split at h
  · simp at h
  · rename_i ts hts
    split at h
    · simp at h
    · rename_i r' hr'
      simp only [Except.ok.injEq] at h; subst h
      exact recProcrustes_inv tr e g _ _ rfl sources maxIter _ _ hts hr'

/-- element-wise reading of `buildAll` -/
theorem buildAll_getElem (tr : Tree) (e : Ext Pts A) (op : Opts) (t : Pts) :
    ∀ (sources : List Pts) (ts : List (Obj Pts A)), buildAll tr e op t sources = .ok ts →
      ts.length = sources.length ∧
      ∀ (i : Nat) (s : Pts), sources[i]? = some s → ∃ o, ts[i]? = some o ∧ build tr e .similarity op s t = .ok o := by
  intro sources
  induction sources with
  | nil => intro ts h; simp only [buildAll, Except.ok.injEq] at h; subst h; simp
  | cons s ss ih =>
    intro ts h
    simp only [buildAll] at h
    cases hbo : build tr e .similarity op s t with
    | error err => simp [hbo] at h
    | ok o =>
      cases hbs : buildAll tr e op t ss with
      | error err => simp [hbo, hbs] at h
      | ok os =>
        simp only [hbo, hbs, Except.ok.injEq] at h; subst h
        obtain ⟨hl, hi⟩ := ih os hbs
        refine ⟨by simp [hl], ?_⟩
        intro i s' hs'
        cases i with
        | zero => simp at hs'; subst hs'; exact ⟨o, by simp, hbo⟩
        | succ k => simp at hs'; simpa using hi k s' hs'

/-- with a fixed target the reported target is the one given, while the transforms stay aligned to the
last mean shape: the property's restriction "without a fixed target" is needed (remark, not a clause) -/
theorem gpa_fixed_target_reports_it (tr : Tree) (e : Ext Pts A) (g : GpaExt Pts) (maxIter : Nat)
    (sources : List Pts) (t : Pts) (mirror : Bool) (r : Gpa Pts A)
    (h : gpa tr e g maxIter sources (some t) mirror = .ok r) : r.target = t := by
  simp only [gpa] at h
  split at h
  · simp at h
  · split at h
    · simp at h
    · simp only [Except.ok.injEq] at h; subst h; rfl


/-! ### GPA: iteration count, convergence flag, reported target, mean shape, errors -/

theorem buildAll_targets (tr : Tree) (e : Ext Pts A) (op : Opts) (hr : op.rotation = true) (t : Pts) :
    ∀ (sources : List Pts) (ts : List (Obj Pts A)), buildAll tr e op t sources = .ok ts →
      ∀ o ∈ ts, o.target = t := by
  intro sources
  induction sources with
  | nil => intro ts h; simp only [buildAll, Except.ok.injEq] at h; subst h; simp
  | cons s ss ih =>
    intro ts h
    simp only [buildAll] at h
    cases hbo : build tr e .similarity op s t with
    | error err => simp [hbo] at h
    | ok o =>
      cases hbs : buildAll tr e op t ss with
      | error err => simp [hbo, hbs] at h
      | ok os =>
        simp only [hbo, hbs, Except.ok.injEq] at h; subst h
        intro x hx
        rcases List.mem_cons.mp hx with hx | hx
        · rw [hx]; exact (build_target tr e .similarity op s t o (similarity_sound tr op hr) hbo).1
        · exact ih os hbs x hx

/-- without a fixed target every transform's `.target` is the reported target … -/
theorem gpa_targets_all_equal (tr : Tree) (e : Ext Pts A) (g : GpaExt Pts) (maxIter : Nat)
    (sources : List Pts) (mirror : Bool) (r : Gpa Pts A)
    (h : gpa tr e g maxIter sources none mirror = .ok r) : ∀ o ∈ r.transforms, o.target = r.target :=
  buildAll_targets tr e _ rfl r.target sources r.transforms
    (gpa_transforms_are_alignments tr e g maxIter sources mirror r h)

/-- … so `mean_aligned_shape()` — as coded, the mean of the transforms' targets — is the mean of
`n_sources` copies of the reported target -/
theorem gpa_mean_aligned_shape (tr : Tree) (e : Ext Pts A) (g : GpaExt Pts) (maxIter : Nat)
    (sources : List Pts) (mirror : Bool) (r : Gpa Pts A)
    (h : gpa tr e g maxIter sources none mirror = .ok r) :
    meanAlignedShape g r = g.meanOf (List.replicate sources.length r.target) := by
  have hb := gpa_transforms_are_alignments tr e g maxIter sources mirror r h
  have hl := (buildAll_getElem tr e _ r.target sources r.transforms hb).1
  have ht := gpa_targets_all_equal tr e g maxIter sources mirror r h
  unfold meanAlignedShape
  congr 1
  rw [← hl]
  apply List.eq_replicate_iff.mpr
  refine ⟨by simp, ?_⟩
  intro x hx
  obtain ⟨o, ho, rfl⟩ := List.mem_map.mp hx
  exact ht o ho

/-- `alignment_error()` of every returned transform is that of the fresh alignment to the reported target
(whatever the norm is): `mean_alignment_error()` is a function of (sources, reported target) only -/
theorem gpa_alignment_errors (tr : Tree) (e : Ext Pts A) (g : GpaExt Pts) (maxIter : Nat)
    (sources : List Pts) (mirror : Bool) (r : Gpa Pts A) (dist : Pts → Pts → Rat)
    (h : gpa tr e g maxIter sources none mirror = .ok r) :
    ∃ fresh, buildAll tr e { rotation := true, allowMirror := mirror } r.target sources = .ok fresh ∧
      alignmentErrors e dist r = fresh.map fun o => dist r.target (alignedSource e o) := by
  have hb := gpa_transforms_are_alignments tr e g maxIter sources mirror r h
  refine ⟨r.transforms, hb, ?_⟩
  unfold alignmentErrors
  apply List.map_congr_left
  intro o ho
  rw [gpa_targets_all_equal tr e g maxIter sources mirror r h o ho]

/-- the loop counter: `n_iterations` grows by one per re-targeting round, never beyond the fuel; the
`max_iterations` exit is the only one that reports `converged = False`, and it is taken exactly when the
fuel is used up; a reported convergence means the convergence test succeeded on the reported target -/
theorem recProcrustes_iterations (e : Ext Pts A) (g : GpaExt Pts) (initial : Pts) :
    ∀ (fuel : Nat) (st r : Gpa Pts A), recProcrustes e g initial fuel st = .ok r →
      st.nIterations ≤ r.nIterations ∧ r.nIterations ≤ st.nIterations + fuel ∧
      (r.converged = false → r.nIterations = st.nIterations + fuel) ∧
      (r.converged = true →
        g.closeEnough r.target (g.newTarget initial (r.transforms.map (alignedSource e))) = true) := by
  intro fuel
  induction fuel with
  | zero =>
    intro st r h
    simp only [recProcrustes, Except.ok.injEq] at h; subst h
    exact ⟨Nat.le_refl _, Nat.le_refl _, fun _ => rfl, fun h => by simp at h⟩
  | succ n ih =>
    intro st r h
    simp only [recProcrustes] at h
    split at h
    · rename_i hclose
      simp only [Except.ok.injEq] at h; subst h
      exact ⟨Nat.le_refl _, by simp, fun h => by simp at h, fun _ => hclose⟩
    · split at h
      · simp at h
      · obtain ⟨h1, h2, h3, h4⟩ := ih _ r h
        simp only at h1 h2 h3 h4
        exact ⟨by omega, by omega, fun hc => by have := h3 hc; omega, h4⟩

theorem gpa_iterations (tr : Tree) (e : Ext Pts A) (g : GpaExt Pts) (maxIter : Nat) (sources : List Pts)
    (mirror : Bool) (r : Gpa Pts A) (h : gpa tr e g maxIter sources none mirror = .ok r) :
    1 ≤ r.nIterations ∧ r.nIterations ≤ maxIter + 1 ∧
    (r.converged = false → r.nIterations = maxIter + 1) ∧
    (r.converged = true →
      g.closeEnough r.target (g.newTarget (g.meanOf sources) (r.transforms.map (alignedSource e))) = true) := by
  simp only [gpa] at h
  split at h
  · simp at h
  · split at h
    · simp at h
    · rename_i r' hr'
      simp only [Except.ok.injEq] at h; subst h
      obtain ⟨h1, h2, h3, h4⟩ := recProcrustes_iterations e g _ maxIter _ r' hr'
      simp only at h1 h2 h3
      exact ⟨h1, by omega, fun hc => by have := h3 hc; omega, h4⟩

theorem recProcrustes_eq_ref (tr : Tree) (e : Ext Pts A) (g : GpaExt Pts) (initial : Pts) (op : Opts)
    (hr : op.rotation = true) (sources : List Pts) :
    ∀ (fuel : Nat) (st r : Gpa Pts A),
      buildAll tr e op st.target sources = .ok st.transforms →
      recProcrustes e g initial fuel st = .ok r →
      refGpa tr e g op initial sources fuel st.target st.nIterations = .ok (r.target, r.nIterations, r.converged) := by
  intro fuel
  induction fuel with
  | zero =>
    intro st r hb h
    simp only [recProcrustes, Except.ok.injEq] at h; subst h
    rfl
  | succ n ih =>
    intro st r hb h
    simp only [recProcrustes] at h
    simp only [refGpa, freshRound, hb]
    split at h
    · rename_i hclose
      simp only [Except.ok.injEq] at h; subst h
      simp [hclose]
    · rename_i hclose
      simp only [hclose, Bool.false_eq_true, if_false]
      split at h
      · simp at h
      · rename_i ts hts
        have hb' := setAll_buildAll tr e op hr _ _ sources _ _ hb hts
        simp only [hb']
        exact ih _ r hb' h

/-- PROPERTY clause 4, the whole run: the target GPA reports, its `n_iterations` and its `converged` flag are
those of the iteration run **with freshly constructed alignments only** (`refGpa`: no object is ever
retargeted) — on every exit path, for every `max_iterations`, whatever the mean / rescale / convergence
computations are.  Re-using and retargeting the same `AlignmentSimilarity` objects round after round is
unobservable. -/
theorem gpa_eq_fresh_iteration (tr : Tree) (e : Ext Pts A) (g : GpaExt Pts) (maxIter : Nat)
    (sources : List Pts) (mirror : Bool) (r : Gpa Pts A)
    (h : gpa tr e g maxIter sources none mirror = .ok r) :
    refGpa tr e g { rotation := true, allowMirror := mirror } (g.meanOf sources) sources maxIter
      (g.meanOf sources) 1 = .ok (r.target, r.nIterations, r.converged) := by
  simp only [gpa] at h
  split at h
  · simp at h
  · rename_i ts hts
    split at h
    · simp at h
    · rename_i r' hr'
      simp only [Except.ok.injEq] at h; subst h
      exact recProcrustes_eq_ref tr e g _ _ rfl sources maxIter _ r' hts hr'

end MenpoModel.C08
