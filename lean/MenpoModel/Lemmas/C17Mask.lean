/-
C17 — index lemmas for mesh masking (core Lean only).
-/
import MenpoModel.Core.C17Mesh

namespace MenpoModel.C17

/-- all indices of the triangle list are valid for `n` vertices -/
def WF (n : Nat) (ts : List Tri) : Prop := ∀ t ∈ ts, ∀ v ∈ t.verts, v < n

/-- every vertex of the triangle is kept by the user's mask -/
def wholeTri (m : List Bool) (t : Tri) : Bool := t.verts.all (fun v => m[v]? == some true)

/-! ### rank / maskFilter -/

theorem rank_zero (m : List Bool) : rank m 0 = 0 := by cases m <;> rfl

theorem maskFilter_rank {α} (l : List α) (m : List Bool) (v : Nat)
    (hlen : l.length = m.length) (hv : m[v]? = some true) :
    (maskFilter l m)[rank m v]? = l[v]? := by
  induction l generalizing m v with
  | nil => cases m <;> simp_all
  | cons x xs ih =>
    cases m with
    | nil => simp at hlen
    | cons b bs =>
      simp only [List.length_cons, Nat.add_right_cancel_iff] at hlen
      cases v with
      | zero =>
        simp only [List.getElem?_cons_zero, Option.some.injEq] at hv
        subst hv
        simp [maskFilter, rank]
      | succ v =>
        simp only [List.getElem?_cons_succ] at hv
        cases b
        · simp [maskFilter, rank, ih bs v hlen hv]
        · simp [maskFilter, rank, Nat.add_comm 1, ih bs v hlen hv]

theorem rank_congr (m₁ m₂ : List Bool) (v : Nat) (h : ∀ u, u < v → m₁[u]? = m₂[u]?) :
    rank m₁ v = rank m₂ v := by
  induction v generalizing m₁ m₂ with
  | zero => simp [rank_zero]
  | succ v ih =>
    have h0 := h 0 (Nat.succ_pos v)
    cases m₁ with
    | nil => cases m₂ with
      | nil => rfl
      | cons b bs => simp at h0
    | cons a as => cases m₂ with
      | nil => simp at h0
      | cons b bs =>
        simp only [List.getElem?_cons_zero, Option.some.injEq] at h0
        subst h0
        simp only [rank]
        congr 1
        apply ih
        intro u hu
        have := h (u+1) (Nat.succ_lt_succ hu)
        simpa using this

theorem maskFilter_length_le {α} (l : List α) (m : List Bool) : (maskFilter l m).length ≤ l.length := by
  induction l generalizing m with
  | nil => cases m <;> simp [maskFilter]
  | cons x xs ih =>
    cases m with
    | nil => simp [maskFilter]
    | cons b bs =>
      cases b
      · simp only [maskFilter]; have := ih bs; simp; omega
      · simp only [maskFilter, if_true, List.length_cons]; have := ih bs; omega

/-- the lengths of two arrays filtered by the same mask agree -/
theorem maskFilter_length_eq {α β} (l : List α) (l' : List β) (m : List Bool)
    (h : l.length = l'.length) : (maskFilter l m).length = (maskFilter l' m).length := by
  induction l generalizing l' m with
  | nil => cases l' with
    | nil => cases m <;> simp [maskFilter]
    | cons _ _ => simp at h
  | cons x xs ih =>
    cases l' with
    | nil => simp at h
    | cons y ys =>
      simp only [List.length_cons, Nat.add_right_cancel_iff] at h
      cases m with
      | nil => simp [maskFilter]
      | cons b bs =>
        cases b
        · simpa [maskFilter] using ih ys bs h
        · simpa [maskFilter] using ih ys bs h

/-- every position of the filtered array is the rank of a surviving index -/
theorem rank_surj {α} (l : List α) (m : List Bool) (hlen : l.length = m.length) (j : Nat)
    (hj : j < (maskFilter l m).length) : ∃ v, m[v]? = some true ∧ rank m v = j := by
  induction l generalizing m j with
  | nil => cases m <;> simp [maskFilter] at hj
  | cons x xs ih =>
    cases m with
    | nil => simp at hlen
    | cons b bs =>
      simp only [List.length_cons, Nat.add_right_cancel_iff] at hlen
      cases b with
      | false =>
        simp only [maskFilter] at hj
        obtain ⟨v, hv, hr⟩ := ih bs hlen j (by simpa using hj)
        exact ⟨v+1, by simpa using hv, by simp [rank, hr]⟩
      | true =>
        simp only [maskFilter, if_true, List.length_cons] at hj
        cases j with
        | zero => exact ⟨0, by simp, by simp [rank]⟩
        | succ j =>
          obtain ⟨v, hv, hr⟩ := ih bs hlen j (by omega)
          exact ⟨v+1, by simpa using hv, by simp [rank, hr]; omega⟩

theorem rank_lt {α} (l : List α) (m : List Bool) (v : Nat) (hlen : l.length = m.length)
    (hv : m[v]? = some true) : rank m v < (maskFilter l m).length := by
  have h := maskFilter_rank l m v hlen hv
  have hvlt : v < m.length := by
    rcases Nat.lt_or_ge v m.length with h' | h'
    · exact h'
    · rw [List.getElem?_eq_none h'] at hv; cases hv
  have : l[v]? ≠ none := by
    rw [List.getElem?_eq_getElem (by omega)]; simp
  rcases Nat.lt_or_ge (rank m v) (maskFilter l m).length with h' | h'
  · exact h'
  · rw [List.getElem?_eq_none h'] at h; exact absurd h.symm this

/-! ### membership -/

theorem present_iff (ts : List Tri) (v : Nat) : present ts v = true ↔ ∃ t ∈ ts, v ∈ t.verts := by
  simp [present, List.any_eq_true]

theorem mem_verts_map (f : Nat → Nat) (t : Tri) (w : Nat) :
    w ∈ (Tri.map f t).verts ↔ ∃ v ∈ t.verts, f v = w := by
  simp only [Tri.verts, Tri.map, List.mem_cons, List.not_mem_nil, or_false]
  constructor
  · rintro (h | h | h)
    · exact ⟨t.1, Or.inl rfl, h.symm⟩
    · exact ⟨t.2.1, Or.inr (Or.inl rfl), h.symm⟩
    · exact ⟨t.2.2, Or.inr (Or.inr rfl), h.symm⟩
  · rintro ⟨v, (h | h | h), rfl⟩ <;> simp [h]

theorem le_tri_max (t : Tri) (v : Nat) (hv : v ∈ t.verts) : v ≤ t.max := by
  simp only [Tri.verts, List.mem_cons, List.not_mem_nil, or_false] at hv
  simp only [Tri.max, Nat.max_def]
  rcases hv with h | h | h <;> subst h <;> split <;> (try split) <;> omega

theorem le_maxIdx (ts : List Tri) (t : Tri) (ht : t ∈ ts) (v : Nat) (hv : v ∈ t.verts) :
    v ≤ maxIdx ts := by
  induction ts with
  | nil => cases ht
  | cons a as ih =>
    simp only [maxIdx, List.foldr_cons]
    have hm : ∀ x y : Nat, x ≤ Nat.max x y ∧ y ≤ Nat.max x y := by
      intro x y; simp only [Nat.max_def]; split <;> omega
    rcases List.mem_cons.mp ht with h | h
    · subst h; exact Nat.le_trans (le_tri_max _ v hv) (hm _ _).1
    · exact Nat.le_trans (ih h) (hm _ _).2

theorem usedMask_get (ts : List Tri) (u : Nat) (hu : u ≤ maxIdx ts) :
    (usedMask ts)[u]? = some (present ts u) := by
  simp [usedMask, List.getElem?_map, List.getElem?_range (Nat.lt_succ_of_le hu)]

/-! ### the mask recomputed by `_isolated_mask` -/

theorem iso_get (m : List Bool) (ts : List Tri) (v : Nat) :
    (isolatedMask m ts)[v]? = (m[v]?).map (fun b => b && present (maskAdj m ts) v) := by
  simp [isolatedMask, List.getElem?_mapIdx]

theorem iso_length (m : List Bool) (ts : List Tri) : (isolatedMask m ts).length = m.length := by
  simp [isolatedMask]

theorem removed_iff (m : List Bool) (v : Nat) : removed m v = true ↔ m[v]? = some false := by
  simp [removed]

theorem alive_of_lt (m : List Bool) (v : Nat) (hv : v < m.length) :
    removed m v = false ↔ m[v]? = some true := by
  rw [List.getElem?_eq_getElem hv]
  cases h : m[v] <;> simp [removed, List.getElem?_eq_getElem hv, h]

theorem triAlive_eq_wholeTri (m : List Bool) (t : Tri) (h : ∀ v ∈ t.verts, v < m.length) :
    triAlive m t = wholeTri m t := by
  rw [Bool.eq_iff_iff]
  simp only [triAlive, wholeTri, List.all_eq_true]
  constructor
  · intro hA v hv
    have h1 : removed m v = false := by simpa using hA v hv
    simpa using (alive_of_lt m v (h v hv)).1 h1
  · intro hW v hv
    have h1 : m[v]? = some true := by simpa using hW v hv
    simpa using (alive_of_lt m v (h v hv)).2 h1

theorem maskAdj_eq_filter_whole (m : List Bool) (ts : List Tri) (hwf : WF m.length ts) :
    maskAdj m ts = ts.filter (wholeTri m) := by
  apply List.filter_congr
  intro t ht
  exact triAlive_eq_wholeTri m t (hwf t ht)

theorem mem_maskAdj (m : List Bool) (ts : List Tri) (t : Tri) :
    t ∈ maskAdj m ts ↔ t ∈ ts ∧ triAlive m t = true := by
  simp [maskAdj, List.mem_filter]

/-- `_isolated_mask` only removes vertices: the surviving rows are the same -/
theorem maskAdj_iso (m : List Bool) (ts : List Tri) :
    maskAdj (isolatedMask m ts) ts = maskAdj m ts := by
  apply List.filter_congr
  intro t ht
  cases hA : triAlive m t with
  | false =>
    -- some vertex is removed by `m`, hence by the smaller mask
    simp only [triAlive, List.all_eq_false] at hA
    obtain ⟨v, hv, hrm⟩ := hA
    have hrm' : removed m v = true := by simpa using hrm
    have : removed (isolatedMask m ts) v = true := by
      rw [removed_iff] at hrm' ⊢
      simp [iso_get, hrm']
    simp only [triAlive, List.all_eq_false]
    exact ⟨v, hv, by simp [this]⟩
  | true =>
    have hmem : t ∈ maskAdj m ts := (mem_maskAdj m ts t).2 ⟨ht, hA⟩
    simp only [triAlive, List.all_eq_true] at hA ⊢
    intro v hv
    have hp : present (maskAdj m ts) v = true := (present_iff _ _).2 ⟨t, hmem, hv⟩
    have h1 := hA v hv
    have h1' : removed m v = false := by simpa using h1
    have : removed (isolatedMask m ts) v = false := by
      cases hr : removed (isolatedMask m ts) v with
      | false => rfl
      | true =>
        rw [removed_iff, iso_get] at hr
        cases hm : m[v]? with
        | none => simp [hm] at hr
        | some b =>
          simp only [hm, Option.map_some, hp, Bool.and_true, Option.some.injEq] at hr
          subst hr
          have : removed m v = true := (removed_iff m v).2 hm
          simp [this] at h1'
    simp [this]

/-- which vertices `_isolated_mask` keeps -/
theorem iso_true_iff (m : List Bool) (ts : List Tri) (v : Nat) :
    (isolatedMask m ts)[v]? = some true ↔ m[v]? = some true ∧ present (maskAdj m ts) v = true := by
  rw [iso_get]
  cases hm : m[v]? with
  | none => simp
  | some b => cases b <;> simp

/-- on the indices below the mask length, "occurs in a surviving row" is the recomputed mask -/
theorem iso_eq_present (m : List Bool) (ts : List Tri) (u : Nat) (hu : u < m.length) :
    (isolatedMask m ts)[u]? = some (present (maskAdj m ts) u) := by
  rw [iso_get, List.getElem?_eq_getElem hu]
  simp only [Option.map_some, Option.some.injEq]
  cases hp : present (maskAdj m ts) u with
  | false => simp
  | true =>
    obtain ⟨t, ht, hv⟩ := (present_iff _ _).1 hp
    have hal := ((mem_maskAdj m ts t).1 ht).2
    simp only [triAlive, List.all_eq_true] at hal
    have h1 : removed m u = false := by simpa using hal u hv
    have := (alive_of_lt m u hu).1 h1
    rw [List.getElem?_eq_getElem hu] at this
    simp only [Option.some.injEq] at this
    simp [this]

/-- the renumbering computed by `reindex_adjacency_array` on the surviving rows is the rank in the
recomputed vertex mask — the two arrays (`trilist` and the per-vertex arrays) are renumbered alike. -/
theorem rank_used_eq_rank_iso (m : List Bool) (ts : List Tri) (hwf : WF m.length ts)
    (t : Tri) (ht : t ∈ maskAdj m ts) (v : Nat) (hv : v ∈ t.verts) :
    rank (usedMask (maskAdj m ts)) v = rank (isolatedMask m ts) v := by
  apply rank_congr
  intro u hu
  have hvle : v ≤ maxIdx (maskAdj m ts) := le_maxIdx _ t ht v hv
  have hvlt : v < m.length := hwf t ((mem_maskAdj m ts t).1 ht).1 v hv
  rw [usedMask_get _ u (by omega), iso_eq_present m ts u (by omega)]

theorem map_rank_congr (m : List Bool) (ts : List Tri) (hwf : WF m.length ts) :
    (maskAdj m ts).map (Tri.map (rank (usedMask (maskAdj m ts))))
      = (maskAdj m ts).map (Tri.map (rank (isolatedMask m ts))) := by
  apply List.map_congr_left
  intro t ht
  have h := rank_used_eq_rank_iso m ts hwf t ht
  simp only [Tri.map]
  rw [h t.1 (by simp [Tri.verts]), h t.2.1 (by simp [Tri.verts]), h t.2.2 (by simp [Tri.verts])]

/-- NORMAL FORM of `from_mask` on its general path. -/
theorem fromMask_normal {P C T : Type} (M : Mesh P C T) (m : List Bool)
    (hlen : m.length = M.pts.length) (hall : m.all id = false)
    (hwf : WF M.pts.length M.tris) (hne : maskAdj m M.tris ≠ []) :
    fromMask M m = .ok
      { pts := maskFilter M.pts (isolatedMask m M.tris),
        cols := maskFilter M.cols (isolatedMask m M.tris),
        tcs := maskFilter M.tcs (isolatedMask m M.tris),
        tris := (M.tris.filter (wholeTri m)).map (Tri.map (rank (isolatedMask m M.tris))) } := by
  have hwf' : WF m.length M.tris := by rw [hlen]; exact hwf
  unfold fromMask
  simp only [hlen, ne_eq, not_true_eq_false, if_false, hall, Bool.false_eq_true]
  rw [maskAdj_iso]
  have hemp : (maskAdj m M.tris).isEmpty = false := by
    cases h : maskAdj m M.tris with
    | nil => exact absurd h hne
    | cons _ _ => rfl
  simp only [reindex, hemp, Bool.false_eq_true, if_false]
  rw [map_rank_congr m M.tris hwf', maskAdj_eq_filter_whole m M.tris hwf']

end MenpoModel.C17
