import MenpoModel.Core.C14Src
import MenpoModel.Lemmas.C14Basic

namespace MenpoModel.C14.SrcL
open MenpoModel.C14 MenpoModel.C14.Src

theorem foldl_congr_mem {α β : Type} (f g : α → β → α) (l : List β) :
    ∀ a, (∀ a, ∀ b ∈ l, f a b = g a b) → l.foldl f a = l.foldl g a := by
  induction l with
  | nil => intros; rfl
  | cons x xs ih =>
    intro a h
    simp only [List.foldl_cons]
    rw [h a x (by simp)]
    exact ih _ fun a b hb => h a b (by simp [hb])

theorem range_map_getD {α : Type} (l : List α) (d : α) : (List.range l.length).map (fun i => l.getD i d) = l := by
  apply List.ext_getElem
  · simp
  · intro i h1 h2
    simp at h1
    simp [List.getD_eq_getElem?_getD, h1]

/-- an indexed loop `for i in range(len(l)): … l[i] …` is the loop over the elements -/
theorem foldl_range_getD {α β : Type} (l : List β) (d : β) (f : α → Nat → α) (G : α → β → α) (k : Nat) (init : α)
    (hk : k = l.length) (hf : ∀ acc i, i < k → f acc i = G acc (l.getD i d)) :
    (List.range k).foldl f init = l.foldl G init := by
  subst hk
  rw [foldl_congr_mem f (fun acc i => G acc (l.getD i d)) _ init
    (fun a b hb => hf a b (List.mem_range.1 hb))]
  rw [← List.foldl_map (f := fun i => l.getD i d) (g := G), range_map_getD]

/-- appending a whole list to one bucket -/
theorem foldl_appendAt {α : Type} (i : Nat) (xs : List α) :
    ∀ (L : List (List α)) (row : List α), L[i]? = some row →
      xs.foldl (fun acc x => appendAt acc i x) L = L.set i (row ++ xs) := by
  induction xs with
  | nil =>
    intro L row h
    obtain ⟨hi, hr⟩ := List.getElem?_eq_some_iff.1 h
    subst hr; simp
  | cons x xs ih =>
    intro L row h
    simp only [List.foldl_cons]
    have h1 : appendAt L i x = L.set i (row ++ [x]) := by simp [appendAt, h]
    rw [h1]
    obtain ⟨hi, _⟩ := List.getElem?_eq_some_iff.1 h
    rw [ih (L.set i (row ++ [x])) (row ++ [x]) (by simp [hi])]
    simp

/-- the buckets after the rows `< k` have been processed -/
def buckets (g : Graph) (k : Nat) : List (List Nat) :=
  (List.range g.n).map fun i => if i < k then g.row i else []

theorem buckets_step (g : Graph) (k : Nat) (hk : k < g.n) :
    ((g.row k).map fun j => (k, j)).foldl (fun acc (e : Nat × Nat) => appendAt acc e.1 e.2) (buckets g k)
      = buckets g (k + 1) := by
  rw [List.foldl_map]
  have h0 : (buckets g k)[k]? = some [] := by simp [buckets, hk]
  rw [foldl_appendAt k (g.row k) (buckets g k) [] h0]
  apply List.ext_getElem
  · simp [buckets]
  · intro i h1 h2
    simp [buckets] at h1
    simp only [buckets, List.getElem_set, List.getElem_map, List.getElem_range, List.nil_append]
    by_cases hik : k = i
    · subst hik; simp
    · have : (i < k + 1) ↔ (i < k) := by omega
      simp [hik, this]

theorem fold_edges_buckets (g : Graph) : ∀ k, k ≤ g.n →
    (((List.range k).flatMap fun i => (g.row i).map fun j => (i, j)).foldl
      (fun acc (e : Nat × Nat) => appendAt acc e.1 e.2) (buckets g 0)) = buckets g k := by
  intro k
  induction k with
  | zero => intro _; rfl
  | succ k ih =>
    intro hk
    rw [List.range_succ, List.flatMap_append, List.foldl_append, ih (by omega)]
    simp only [List.flatMap_cons, List.flatMap_nil, List.append_nil]
    exact buckets_step g k (by omega)

theorem buckets_zero (g : Graph) : buckets g 0 = (List.range g.n).map fun _ => [] := by
  simp [buckets]

theorem buckets_full (g : Graph) : buckets g g.n = g.adjacencyList := by
  simp only [buckets, Graph.adjacencyList]
  apply List.map_congr_left
  intro i hi
  simp [List.mem_range.1 hi]

/-- `get_adjacency_list` : bucket-appending the row-major listing of the stored entries gives the rows -/
theorem adjacency_fold (g : Graph) (f : List (List Nat) → Nat → List (List Nat)) (init : List (List Nat)) (k : Nat)
    (hinit : init = (List.range g.n).map fun _ => []) (hk : k = g.edgesD.length)
    (hf : ∀ acc i, i < k → f acc i = appendAt acc (g.edgesD.getD i (0, 0)).1 (g.edgesD.getD i (0, 0)).2) :
    (List.range k).foldl f init = g.adjacencyList := by
  rw [foldl_range_getD g.edgesD (0, 0) f (fun acc e => appendAt acc e.1 e.2) k init hk hf, hinit, ← buckets_zero,
    ← buckets_full]
  exact fold_edges_buckets g g.n (Nat.le_refl _)

end MenpoModel.C14.SrcL

namespace MenpoModel.C14.SrcL
open MenpoModel.C14 MenpoModel.C14.Src

theorem foldl_set_getElem? {α : Type} (c : α) (xs : List Nat) :
    ∀ (L : List α) (v : Nat),
      (xs.foldl (fun acc j => acc.set j c) L)[v]? = if v ∈ xs ∧ v < L.length then some c else L[v]? := by
  induction xs with
  | nil => intro L v; simp
  | cons x xs ih =>
    intro L v
    simp only [List.foldl_cons, ih, List.length_set, List.mem_cons]
    by_cases hv : v < L.length
    · by_cases hx : v ∈ xs
      · simp [hx, hv]
      · by_cases hvx : v = x
        · subst hvx; simp [hx, hv]
        · have : ¬ x = v := fun h => hvx h.symm
          simp [hx, hv, hvx, List.getElem?_set, this]
    · have h1 : L[v]? = none := List.getElem?_eq_none (by omega)
      have h2 : (L.set x c)[v]? = none := List.getElem?_eq_none (by simp; omega)
      simp [hv, h1, h2]

/-- the predecessors after the rows `< k` have been processed -/
def preds (g : Graph) (k : Nat) : List (Option Nat) :=
  (List.range g.n).map fun v => ((List.range k).filter fun u => g.w u v != 0).getLast?

theorem preds_step (g : Graph) (k : Nat) :
    ((g.row k).map fun j => (k, j)).foldl (fun acc (e : Nat × Nat) => acc.set e.2 (some e.1)) (preds g k)
      = preds g (k + 1) := by
  rw [List.foldl_map]
  apply List.ext_getElem?
  intro v
  show (List.foldl (fun acc j => acc.set j (some k)) (preds g k) (g.row k))[v]? = _
  rw [foldl_set_getElem?]
  simp only [preds, List.length_map, List.length_range, mem_row, Graph.isEdge, List.getElem?_map,
    List.range_succ, List.filter_append]
  by_cases hv : v < g.n
  · simp only [List.getElem?_range hv, Option.map_some, hv, true_and, and_true]
    by_cases hw : g.w k v != 0
    · simp [hw]
    · simp [hw]
  · have : (List.range g.n)[v]? = none := List.getElem?_eq_none (by simp; omega)
    simp [hv, this]

theorem fold_edges_preds (g : Graph) : ∀ k,
    (((List.range k).flatMap fun i => (g.row i).map fun j => (i, j)).foldl
      (fun acc (e : Nat × Nat) => acc.set e.2 (some e.1)) (preds g 0)) = preds g k := by
  intro k
  induction k with
  | zero => rfl
  | succ k ih =>
    rw [List.range_succ, List.flatMap_append, List.foldl_append, ih]
    simp only [List.flatMap_cons, List.flatMap_nil, List.append_nil]
    exact preds_step g k

theorem preds_zero (g : Graph) : preds g 0 = List.replicate g.n none := by
  apply List.ext_getElem?
  intro v
  by_cases hv : v < g.n
  · simp [preds, hv]
  · have : (List.range g.n)[v]? = none := List.getElem?_eq_none (by simp; omega)
    simp [preds, this, hv]

theorem preds_full (g : Graph) : preds g g.n = g.predList := rfl

/-- the same for a loop over the (row, column) pairs themselves (`for a, b in zip(rows, cols)`) -/
theorem adjacency_fold_list (g : Graph) (f : List (List Nat) → Nat × Nat → List (List Nat)) (init : List (List Nat))
    (hinit : init = (List.range g.n).map fun _ => []) (hf : ∀ acc e, f acc e = appendAt acc e.1 e.2) :
    g.edgesD.foldl f init = g.adjacencyList := by
  have : f = fun acc e => appendAt acc e.1 e.2 := funext fun acc => funext fun e => hf acc e
  rw [this, hinit, ← buckets_zero, ← buckets_full]
  exact fold_edges_buckets g g.n (Nat.le_refl _)

/-- `_get_predecessors_list` : `pred[child] = parent` over the row-major listing, last write wins -/
theorem predecessors_fold (g : Graph) (f : List (Option Nat) → Nat → List (Option Nat)) (init : List (Option Nat))
    (k : Nat) (hinit : init = List.replicate g.n none) (hk : k = g.edgesD.length)
    (hf : ∀ acc i, i < k → f acc i = acc.set (g.edgesD.getD i (0, 0)).2 (some (g.edgesD.getD i (0, 0)).1)) :
    (List.range k).foldl f init = g.predList := by
  rw [foldl_range_getD g.edgesD (0, 0) f (fun acc e => acc.set e.2 (some e.1)) k init hk hf, hinit, ← preds_zero,
    ← preds_full]
  exact fold_edges_preds g g.n

/-- the same for a loop over the (parent, child) pairs themselves -/
theorem predecessors_fold_list (g : Graph) (f : List (Option Nat) → Nat × Nat → List (Option Nat))
    (init : List (Option Nat)) (hinit : init = List.replicate g.n none)
    (hf : ∀ acc e, f acc e = acc.set e.2 (some e.1)) :
    g.edgesD.foldl f init = g.predList := by
  have : f = fun acc e => acc.set e.2 (some e.1) := funext fun acc => funext fun e => hf acc e
  rw [this, hinit, ← preds_zero, ← preds_full]
  exact fold_edges_preds g g.n

end MenpoModel.C14.SrcL
