/-
C16 — helper lemmas: the suffix joins of a file name (`candidates (suffixes name)`), how many dots they have, that
they are endings of the lower-cased name, and the agreement of two "first known join" parsers (core Lean only).
-/
import MenpoModel.Core.C16Ext
import MenpoModel.Lemmas.C16Guard

namespace MenpoModel.C16

/-! ### `splitC` -/

theorem splitC_ne_nil (sep : Char) (s : List Char) : splitC sep s ≠ [] := by
  induction s with
  | nil => simp [splitC]
  | cons c cs ih =>
    unfold splitC
    split
    · simp
    · split <;> simp

/-- a string is its first field followed by the separator-prefixed other fields -/
theorem splitC_join (sep : Char) (s : List Char) :
    s = (splitC sep s).headD [] ++ (((splitC sep s).drop 1).map fun x => sep :: x).flatten := by
  induction s with
  | nil => simp [splitC]
  | cons c cs ih =>
    have hne := splitC_ne_nil sep cs
    unfold splitC
    split
    · rename_i hc
      cases hs : splitC sep cs with
      | nil => exact absurd hs hne
      | cons h t =>
        rw [hs] at ih
        simp only [List.headD_cons, List.drop_one, List.tail_cons, List.map_cons, List.flatten_cons, List.nil_append,
          List.cons_append]
        simp only [List.headD_cons, List.drop_one, List.tail_cons] at ih
        rw [← ih, hc]
    · cases hs : splitC sep cs with
      | nil => exact absurd hs hne
      | cons h t =>
        rw [hs] at ih
        simp only [List.headD_cons, List.drop_one, List.tail_cons, List.cons_append]
        simp only [List.headD_cons, List.drop_one, List.tail_cons] at ih
        rw [← ih]

/-! ### suffixes and candidates -/

theorem suffixes_head (name : List Char) : ∀ s ∈ suffixes name, s.head? = some '.' := by
  intro s hs
  unfold suffixes at hs
  split at hs
  · simp at hs
  · simp only [List.mem_map] at hs
    obtain ⟨x, _, rfl⟩ := hs
    rfl

/-- the suffixes, joined, are an ending of the name -/
theorem suffixes_flatten_suffix (name : List Char) : (suffixes name).flatten <:+ name := by
  unfold suffixes
  split
  · simp
  · have h := splitC_join '.' (name.dropWhile (· = '.'))
    have h1 : (((splitC '.' (name.dropWhile (· = '.'))).drop 1).map fun x => '.' :: x).flatten <:+
        name.dropWhile (· = '.') := ⟨_, h.symm⟩
    exact h1.trans (List.dropWhile_suffix _)

theorem length_candidates (l : List (List Char)) : (candidates l).length = l.length := by
  induction l with
  | nil => rfl
  | cons s t ih => simp [candidates, ih]

theorem toLower_dot : Char.toLower '.' = '.' := by decide

theorem count_dots_flatten (l : List (List Char)) (h : ∀ s ∈ l, s.head? = some '.') :
    l.length ≤ dots (l.flatten.map Char.toLower) := by
  induction l with
  | nil => simp
  | cons s t ih =>
    have ht := ih (fun x hx => h x (by simp [hx]))
    have hs := h s (by simp)
    cases s with
    | nil => simp at hs
    | cons a s' =>
      simp only [List.head?_cons, Option.some.injEq] at hs
      subst hs
      unfold dots at ht ⊢
      simp only [List.flatten_cons, List.map_append, List.map_cons, toLower_dot, List.count_append,
        List.count_cons_self, List.length_cons]
      omega

/-- a suffix join followed by `m` shorter ones is made of more than `m` suffixes -/
theorem candidates_dots (l : List (List Char)) (h : ∀ s ∈ l, s.head? = some '.') :
    ∀ pre c suf, candidates l = pre ++ c :: suf → suf.length + 1 ≤ dots c := by
  induction l with
  | nil => intro pre c suf hc; simp [candidates] at hc
  | cons s t ih =>
    intro pre c suf hc
    cases pre with
    | nil =>
      simp only [candidates, List.nil_append, List.cons.injEq] at hc
      obtain ⟨h1, h2⟩ := hc
      have := count_dots_flatten (s :: t) h
      rw [← h1, ← h2, length_candidates]
      simpa using this
    | cons p pre' =>
      simp only [candidates, List.cons_append, List.cons.injEq] at hc
      exact ih (fun x hx => h x (by simp [hx])) pre' c suf hc.2

/-- every suffix join is an ending of the lower-cased joined suffixes -/
theorem candidates_suffix (l : List (List Char)) : ∀ c ∈ candidates l, c <:+ l.flatten.map Char.toLower := by
  induction l with
  | nil => intro c hc; simp [candidates] at hc
  | cons s t ih =>
    intro c hc
    simp only [candidates, List.mem_cons] at hc
    rcases hc with hc | hc
    · subst hc; exact List.suffix_refl _
    · have := ih c hc
      simp only [List.flatten_cons, List.map_append]
      exact this.trans (List.suffix_append _ _)

/-- the parsed extension is an ending of the lower-cased file name -/
theorem parseExt_suffix (known : List (List Char)) (name e : List Char) (h : parseExt known name = some e) :
    e <:+ name.map Char.toLower := by
  unfold parseExt at h
  have hm := List.mem_of_find?_eq_some h
  exact (candidates_suffix _ e hm).trans ((suffixes_flatten_suffix name).map _)

theorem parseExt_mem (known : List (List Char)) (name e : List Char) (h : parseExt known name = some e) :
    e ∈ known := by
  unfold parseExt at h
  simpa using List.find?_some h

/-! ### two parsers over two tables -/

/-- the importer's parser agrees with the exporter's whenever the exporter accepts the name, provided every
exported extension is importable and an extension only the importer knows is a single suffix -/
theorem parseExt_agree (E I : List (List Char)) (H1 : ∀ e ∈ E, e ∈ I) (H2 : ∀ c ∈ I, c ∉ E → dots c ≤ 1)
    (name e : List Char) (h : parseExt E name = some e) : parseExt I name = some e := by
  unfold parseExt at h ⊢
  obtain ⟨hk, pre, suf, hsplit, hpre⟩ := List.find?_eq_some_iff_append.1 h
  rw [List.find?_eq_some_iff_append]
  have heE : e ∈ E := by simpa using hk
  refine ⟨by simpa using H1 e heE, pre, suf, hsplit, ?_⟩
  intro c hc
  have hcE : c ∉ E := by simpa using hpre c hc
  by_cases hcI : c ∈ I
  · exfalso
    have hd := H2 c hcI hcE
    obtain ⟨p1, p2, hp⟩ := List.append_of_mem hc
    have hs : candidates (suffixes name) = p1 ++ c :: (p2 ++ e :: suf) := by
      rw [hsplit, hp]; simp
    have := candidates_dots (suffixes name) (suffixes_head name) p1 c _ hs
    simp only [List.length_append, List.length_cons] at this
    omega
  · simpa using hcI

end MenpoModel.C16
