/-
C18 helper lemmas: relative-error intervals for positive quantities (`RelBd k x y`: `x` is `y` up to a factor in
`[1 − k·2⁻⁵³, 1 + k·2⁻⁵³]`) and how they propagate through the binary64 operations of the resize chain.
-/
import MenpoModel.Lemmas.C18Chain

namespace MenpoModel.C18

def RelBd (k x y : ℚ) : Prop := y * (1 - k * ulp2) ≤ x ∧ x ≤ y * (1 + k * ulp2)

theorem relBd_refl (y : ℚ) : RelBd 0 y y := by simp [RelBd]

theorem relBd_pos {k x y : ℚ} (hy : 0 < y) (hk : k * ulp2 < 1) (h : RelBd k x y) : 0 < x := by
  have : 0 < y * (1 - k * ulp2) := mul_pos hy (by linarith)
  linarith [h.1]

theorem relBd_mono {k k' x y : ℚ} (hy : 0 ≤ y) (hkk : k ≤ k') (h : RelBd k x y) : RelBd k' x y := by
  have hu := ulp2_pos
  have h1 : k * ulp2 ≤ k' * ulp2 := mul_le_mul_of_nonneg_right hkk hu.le
  constructor
  · have : y * (1 - k' * ulp2) ≤ y * (1 - k * ulp2) := mul_le_mul_of_nonneg_left (by linarith) hy
    linarith [h.1]
  · have : y * (1 + k * ulp2) ≤ y * (1 + k' * ulp2) := mul_le_mul_of_nonneg_left (by linarith) hy
    linarith [h.2]

theorem relBd_of_abs {k x y : ℚ} (hy : 0 ≤ y) (h : |x - y| ≤ k * ulp2 * y) : RelBd k x y := by
  rw [abs_le] at h
  constructor <;> nlinarith [h.1, h.2]

theorem abs_of_relBd {k x y : ℚ} (h : RelBd k x y) : |x - y| ≤ k * ulp2 * y := by
  rw [abs_le]
  constructor <;> nlinarith [h.1, h.2]

/-- one rounding adds (less than) two units to the error count -/
theorem relBd_rne {k x y : ℚ} (hy : 0 < y) (hk0 : 0 ≤ k) (hk : k * ulp2 ≤ 1 / 2) (h : RelBd k x y) :
    RelBd (k + 2) (rne x) y := by
  have hu := ulp2_pos
  have hu1 := ulp2_lt
  have hx : 0 < x := relBd_pos hy (by linarith) h
  have hr := rne_rel_err x
  rw [abs_of_pos hx, abs_le] at hr
  have hlo : x * (1 - ulp2) ≤ rne x := by nlinarith [hr.1]
  have hhi : rne x ≤ x * (1 + ulp2) := by nlinarith [hr.2]
  have hu2 : (0 : ℚ) ≤ 1 - ulp2 := by
    have : (1 : ℚ) / 2 ^ 52 < 1 := by norm_num
    linarith
  constructor
  · have key : (1 - (k + 2) * ulp2) ≤ (1 - k * ulp2) * (1 - ulp2) := by
      nlinarith [mul_nonneg hk0 (mul_nonneg hu.le hu.le)]
    calc y * (1 - (k + 2) * ulp2) ≤ y * ((1 - k * ulp2) * (1 - ulp2)) := mul_le_mul_of_nonneg_left key hy.le
      _ = (y * (1 - k * ulp2)) * (1 - ulp2) := by ring
      _ ≤ x * (1 - ulp2) := mul_le_mul_of_nonneg_right h.1 hu2
      _ ≤ rne x := hlo
  · have key : (1 + k * ulp2) * (1 + ulp2) ≤ 1 + (k + 2) * ulp2 := by
      nlinarith [mul_nonneg hu.le (sub_nonneg.mpr hk)]
    calc rne x ≤ x * (1 + ulp2) := hhi
      _ ≤ (y * (1 + k * ulp2)) * (1 + ulp2) := mul_le_mul_of_nonneg_right h.2 (by linarith)
      _ = y * ((1 + k * ulp2) * (1 + ulp2)) := by ring
      _ ≤ y * (1 + (k + 2) * ulp2) := mul_le_mul_of_nonneg_left key hy.le

theorem relBd_mul_left {k x y : ℚ} (c : ℚ) (hc : 0 ≤ c) (h : RelBd k x y) : RelBd k (c * x) (c * y) := by
  constructor
  · calc c * y * (1 - k * ulp2) = c * (y * (1 - k * ulp2)) := by ring
      _ ≤ c * x := mul_le_mul_of_nonneg_left h.1 hc
  · calc c * x ≤ c * (y * (1 + k * ulp2)) := mul_le_mul_of_nonneg_left h.2 hc
      _ = c * y * (1 + k * ulp2) := by ring

/-- quotient of two approximations -/
theorem relBd_div {k1 k2 x1 y1 x2 y2 : ℚ} (hy1 : 0 < y1) (hy2 : 0 < y2) (hk1 : 0 ≤ k1) (hk2 : 0 ≤ k2)
    (hsmall : (k1 + k2 + 1) * ulp2 ≤ 1 / 2) (hsmall2 : k2 * (k1 + k2 + 1) * ulp2 ≤ 1)
    (h1 : RelBd k1 x1 y1) (h2 : RelBd k2 x2 y2) : RelBd (k1 + k2 + 1) (x1 / x2) (y1 / y2) := by
  have hu := ulp2_pos
  have hk2u : k2 * ulp2 < 1 := by nlinarith
  have hx2 : 0 < x2 := relBd_pos hy2 hk2u h2
  have hK : 0 ≤ 1 - (k1 + k2 + 1) * ulp2 := by linarith
  constructor
  · rw [le_div_iff₀ hx2]
    -- (y1/y2)(1 − K u) · x2 ≤ (y1/y2)(1 − K u) · y2 (1 + k2 u) ≤ y1 (1 − k1 u) ≤ x1
    have key : (1 - (k1 + k2 + 1) * ulp2) * (1 + k2 * ulp2) ≤ 1 - k1 * ulp2 := by
      nlinarith [mul_nonneg hk2 (mul_nonneg hu.le hu.le), mul_nonneg (mul_nonneg hk1 hk2) (mul_nonneg hu.le hu.le),
        mul_nonneg (mul_nonneg hk2 hk2) (mul_nonneg hu.le hu.le)]
    have hc : 0 ≤ y1 / y2 * (1 - (k1 + k2 + 1) * ulp2) := mul_nonneg (div_nonneg hy1.le hy2.le) hK
    calc y1 / y2 * (1 - (k1 + k2 + 1) * ulp2) * x2
        ≤ y1 / y2 * (1 - (k1 + k2 + 1) * ulp2) * (y2 * (1 + k2 * ulp2)) := mul_le_mul_of_nonneg_left h2.2 hc
      _ = y1 * ((1 - (k1 + k2 + 1) * ulp2) * (1 + k2 * ulp2)) := by field_simp
      _ ≤ y1 * (1 - k1 * ulp2) := mul_le_mul_of_nonneg_left key hy1.le
      _ ≤ x1 := h1.1
  · rw [div_le_iff₀ hx2]
    have key : 1 + k1 * ulp2 ≤ (1 + (k1 + k2 + 1) * ulp2) * (1 - k2 * ulp2) := by
      nlinarith [mul_nonneg hu.le (sub_nonneg.mpr hsmall2)]
    have hc : 0 ≤ y1 / y2 * (1 + (k1 + k2 + 1) * ulp2) :=
      mul_nonneg (div_nonneg hy1.le hy2.le) (by nlinarith [mul_nonneg (add_nonneg (add_nonneg hk1 hk2) zero_le_one) hu.le])
    calc x1 ≤ y1 * (1 + k1 * ulp2) := h1.2
      _ ≤ y1 * ((1 + (k1 + k2 + 1) * ulp2) * (1 - k2 * ulp2)) := mul_le_mul_of_nonneg_left key hy1.le
      _ = y1 / y2 * (1 + (k1 + k2 + 1) * ulp2) * (y2 * (1 - k2 * ulp2)) := by field_simp
      _ ≤ y1 / y2 * (1 + (k1 + k2 + 1) * ulp2) * x2 := mul_le_mul_of_nonneg_left h2.1 hc

end MenpoModel.C18
