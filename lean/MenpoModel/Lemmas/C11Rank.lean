/-
C11 — `ipca` without the full-rank QR hypothesis: the Gram matrix of the rows of `R` equals that of `R·[U_a; B̃]`
whether or not `[U_a; B̃]` has orthonormal rows, hence the rows of `U = Vt·[U_a; B̃]` that belong to non-zero
singular values are orthonormal; dropping rows (`l = l[l > eps]`, `U[:len(l)]`) as a sub-matrix, with the exact
loss.  QR / SVD / sqrt stay contract parameters.
-/
import MenpoModel.Lemmas.C11Matrix
import Mathlib.LinearAlgebra.FiniteDimensional.Basic
import Mathlib.Tactic.LinearCombination
import Mathlib.LinearAlgebra.Matrix.Rank
import Mathlib.LinearAlgebra.Matrix.Charpoly.Basic
import Mathlib.Algebra.Polynomial.Roots

set_option linter.unusedSectionVars false

namespace MenpoModel.C11
open Matrix

variable {k m q d : Type} [Fintype k] [Fintype m] [Fintype q] [Fintype d]
  [DecidableEq k] [DecidableEq m] [DecidableEq q] [DecidableEq d]
theorem projOut_perp (Ua : Matrix k d ℚ) (B : Matrix m d ℚ) (hUa : Ua * Uaᵀ = 1) :
    projOut Ua B * Uaᵀ = 0 := by
  unfold projOut
  rw [Matrix.sub_mul, Matrix.mul_assoc (B * Uaᵀ), hUa, Matrix.mul_one, sub_self]

theorem projOut_gram (Ua : Matrix k d ℚ) (B : Matrix m d ℚ) (hUa : Ua * Uaᵀ = 1) :
    (B * Uaᵀ) * (B * Uaᵀ)ᵀ + projOut Ua B * (projOut Ua B)ᵀ = B * Bᵀ := by
  have hp : projOut Ua B * (projOut Ua B)ᵀ = projOut Ua B * Bᵀ := by
    conv_lhs => rw [show (projOut Ua B)ᵀ = Bᵀ - Uaᵀ * (Ua * Bᵀ) by
      unfold projOut; simp [Matrix.transpose_sub, Matrix.transpose_mul, Matrix.mul_assoc]]
    rw [Matrix.mul_sub, ← Matrix.mul_assoc, projOut_perp Ua B hUa, Matrix.zero_mul, sub_zero]
  rw [hp]
  unfold projOut
  simp only [Matrix.transpose_mul, Matrix.transpose_transpose, Matrix.sub_mul, Matrix.mul_assoc]
  abel

/-- `R Rᵀ = (R W)(R W)ᵀ`: the Gram matrix of the rows of `R` does not see whether `[U_a; B̃]` has orthonormal rows -/
theorem ipcaR_gram (Ua : Matrix k d ℚ) (sa : k → ℚ) (B : Matrix m d ℚ) (Bt : Matrix q d ℚ)
    (hUa : Ua * Uaᵀ = 1) (hqr : projOut Ua B * Btᵀ * Bt = projOut Ua B) :
    ipcaR Ua sa B Bt * (ipcaR Ua sa B Bt)ᵀ
      = fromRows (diagonal sa * Ua) B * (fromRows (diagonal sa * Ua) B)ᵀ := by
  rw [transpose_fromRows, fromRows_mul_fromCols]
  unfold ipcaR
  rw [fromBlocks_transpose, fromBlocks_multiply]
  have hD : projOut Ua B * Btᵀ * (projOut Ua B * Btᵀ)ᵀ = projOut Ua B * (projOut Ua B)ᵀ := by
    rw [Matrix.transpose_mul, Matrix.transpose_transpose, Matrix.mul_assoc, ← Matrix.mul_assoc Btᵀ,
      ← Matrix.mul_assoc, ← Matrix.mul_assoc, hqr]
  congr 1
  · simp only [Matrix.transpose_zero, Matrix.mul_zero, add_zero, Matrix.transpose_mul, Matrix.mul_assoc]
    rw [← Matrix.mul_assoc Ua, hUa, Matrix.one_mul]
  · simp [Matrix.transpose_mul, Matrix.mul_assoc]
  · simp [Matrix.transpose_mul, Matrix.mul_assoc]
  · rw [hD]; exact projOut_gram Ua B hUa

/-- abstract core: `RᵀR = Vtᵀ D Vt`, `Vt` orthogonal, `(R W)(R W)ᵀ = R Rᵀ`  ⇒  `D (U Uᵀ) D = D D` for `U = Vt W` -/
theorem svd_rows_gram {a c : Type} [Fintype a] [Fintype c] [DecidableEq a] [DecidableEq c]
    (R : Matrix a c ℚ) (W : Matrix c d ℚ) (Vt : Matrix c c ℚ) (σ : c → ℚ)
    (hsvd : Rᵀ * R = Vtᵀ * diagonal σ * Vt) (hV : Vt * Vtᵀ = 1)
    (hG : (R * W) * (R * W)ᵀ = R * Rᵀ) :
    diagonal σ * ((Vt * W) * (Vt * W)ᵀ) * diagonal σ = diagonal σ * diagonal σ := by
  have hV' : Vtᵀ * Vt = 1 := mul_eq_one_comm.mp hV
  have hD : diagonal σ = Vt * (Rᵀ * R) * Vtᵀ := by
    rw [hsvd]
    calc diagonal σ = (Vt * Vtᵀ) * diagonal σ * (Vt * Vtᵀ) := by rw [hV]; simp
      _ = Vt * (Vtᵀ * diagonal σ * Vt) * Vtᵀ := by simp only [Matrix.mul_assoc]
  calc diagonal σ * ((Vt * W) * (Vt * W)ᵀ) * diagonal σ
      = Vt * (Rᵀ * R) * Vtᵀ * ((Vt * W) * (Vt * W)ᵀ) * (Vt * (Rᵀ * R) * Vtᵀ) := by rw [← hD]
    _ = Vt * Rᵀ * (R * ((Vtᵀ * Vt) * W) * ((R * ((Vtᵀ * Vt) * W))ᵀ)) * R * Vtᵀ := by
        simp only [Matrix.transpose_mul, Matrix.transpose_transpose, Matrix.mul_assoc]
    _ = Vt * Rᵀ * (R * Rᵀ) * R * Vtᵀ := by rw [hV', Matrix.one_mul, hG]
    _ = (Vt * (Rᵀ * R) * Vtᵀ) * (Vt * (Rᵀ * R) * Vtᵀ) := by
        have : Vt * (Rᵀ * R) * Vtᵀ * (Vt * (Rᵀ * R) * Vtᵀ) = Vt * (Rᵀ * R) * (Vtᵀ * Vt) * (Rᵀ * R) * Vtᵀ := by
          simp only [Matrix.mul_assoc]
        rw [this, hV', Matrix.mul_one]; simp only [Matrix.mul_assoc]
    _ = diagonal σ * diagonal σ := by rw [← hD]

theorem diag_sandwich_entry {c : Type} [Fintype c] [DecidableEq c] (σ : c → ℚ) (M : Matrix c c ℚ) (i j : c) :
    (diagonal σ * M * diagonal σ) i j = σ i * M i j * σ j := by
  simp [Matrix.mul_apply, Matrix.diagonal_apply]

/-- rows with non-zero `σ` are orthonormal -/
theorem kept_rows_orthonormal {c : Type} [Fintype c] [DecidableEq c] (σ : c → ℚ) (U : Matrix c d ℚ)
    (h : diagonal σ * (U * Uᵀ) * diagonal σ = diagonal σ * diagonal σ) (i j : c) (hi : σ i ≠ 0) (hj : σ j ≠ 0) :
    (U * Uᵀ) i j = if i = j then 1 else 0 := by
  have := congrFun (congrFun h i) j
  rw [diag_sandwich_entry, Matrix.diagonal_mul_diagonal, Matrix.diagonal_apply] at this
  by_cases hij : i = j
  · subst hij
    simp only [if_true] at this ⊢
    have h2 : σ i * σ i ≠ 0 := mul_ne_zero hi hi
    have : (σ i * σ i) * (U * Uᵀ) i i = (σ i * σ i) * 1 := by linear_combination this
    exact mul_left_cancel₀ h2 this
  · simp only [hij, if_false] at this ⊢
    have h2 : σ i * σ j ≠ 0 := mul_ne_zero hi hj
    have : (σ i * σ j) * (U * Uᵀ) i j = (σ i * σ j) * 0 := by linear_combination this
    exact mul_left_cancel₀ h2 this

section kept
variable {c : Type} [Fintype c] [DecidableEq c]

/-- `U[keep, :]` -/
def keptU (p : c → Prop) (U : Matrix c d ℚ) : Matrix {i // p i} d ℚ := U.submatrix Subtype.val id
/-- `σ[keep]` -/
def keptσ (p : c → Prop) (σ : c → ℚ) : {i // p i} → ℚ := fun i => σ i.val

theorem keptU_gram (p : c → Prop) (U : Matrix c d ℚ) (i j : {i // p i}) :
    (keptU p U * (keptU p U)ᵀ) i j = (U * Uᵀ) i.val j.val := by
  simp [keptU, Matrix.mul_apply]

theorem kept_represents_loss (p : c → Prop) [DecidablePred p] (U : Matrix c d ℚ) (σ : c → ℚ) (a b : d) :
    (Uᵀ * diagonal σ * U) a b
      = ((keptU p U)ᵀ * diagonal (keptσ p σ) * keptU p U) a b
        + ∑ i ∈ Finset.univ.filter (fun i => ¬ p i), σ i * U i a * U i b := by
  rw [representation_entry, representation_entry]
  rw [← Finset.sum_filter_add_sum_filter_not Finset.univ p]
  congr 1
  rw [Finset.sum_subtype (Finset.univ.filter p) (p := p) (by simp)]
  rfl

theorem kept_represents (p : c → Prop) [DecidablePred p] (U : Matrix c d ℚ) (σ : c → ℚ)
    (h0 : ∀ i, ¬ p i → σ i = 0) :
    (keptU p U)ᵀ * diagonal (keptσ p σ) * keptU p U = Uᵀ * diagonal σ * U := by
  ext a b
  rw [kept_represents_loss p U σ a b]
  have : ∑ i ∈ Finset.univ.filter (fun i => ¬ p i), σ i * U i a * U i b = 0 := by
    apply Finset.sum_eq_zero
    intro i hi
    rw [h0 i (by simpa using hi)]; ring
  rw [this, add_zero]

end kept

end MenpoModel.C11
