/-
C03 — helper lemmas about the store: denotations (`flat`) under store extension and cell update.
Core Lean only.
-/
import MenpoModel.Core.C03Compose

namespace MenpoModel.C03

variable {d : Nat}

/-- chain members point into a store of `n` cells -/
def WFCell (n : Nat) : Cell d → Prop
  | .chain ms => ∀ m ∈ ms, m < n
  | _ => True

/-- no dangling references -/
def WF (st : Store d) : Prop := ∀ c ∈ st, WFCell st.length c

theorem WFCell.mono {n m : Nat} (h : n ≤ m) {c : Cell d} (hc : WFCell n c) : WFCell m c := by
  cases c <;> simp only [WFCell] at *
  exact fun x hx => Nat.lt_of_lt_of_le (hc x hx) h

theorem flatMembers_congr {g g' : Nat → Option (List (Leaf d))} {ms : List Nat}
    (h : ∀ m ∈ ms, g m = g' m) : flatMembers g ms = flatMembers g' ms := by
  induction ms with
  | nil => rfl
  | cons m ms ih =>
    simp only [flatMembers]
    rw [h m (by simp), ih (fun x hx => h x (by simp [hx]))]

theorem flatMembers_mono {g g' : Nat → Option (List (Leaf d))} {ms : List Nat}
    (h : ∀ m ∈ ms, ∀ l, g m = some l → g' m = some l) {l : List (Leaf d)}
    (hl : flatMembers g ms = some l) : flatMembers g' ms = some l := by
  induction ms generalizing l with
  | nil => exact hl
  | cons m ms ih =>
    simp only [flatMembers] at hl ⊢
    cases hg : g m with
    | none => simp [hg] at hl
    | some l1 =>
      cases hf : flatMembers g ms with
      | none => simp [hg, hf] at hl
      | some l2 =>
        rw [h m (by simp) l1 hg, ih (fun x hx => h x (by simp [hx])) hf]
        simpa [hg, hf] using hl

theorem flatMembers_append {g : Nat → Option (List (Leaf d))} {ms ns : List Nat}
    {l1 l2 : List (Leaf d)} (h1 : flatMembers g ms = some l1) (h2 : flatMembers g ns = some l2) :
    flatMembers g (ms ++ ns) = some (l1 ++ l2) := by
  induction ms generalizing l1 with
  | nil => simp only [flatMembers] at h1; cases h1; simpa using h2
  | cons m ms ih =>
    simp only [flatMembers, List.cons_append] at h1 ⊢
    cases hg : g m with
    | none => simp [hg] at h1
    | some a =>
      cases hf : flatMembers g ms with
      | none => simp [hg, hf] at h1
      | some b =>
        simp only [hg, hf, Option.some.injEq] at h1
        rw [ih hf]; simp [← h1]

theorem flatMembers_single {g : Nat → Option (List (Leaf d))} {m : Nat} {l : List (Leaf d)}
    (h : g m = some l) : flatMembers g [m] = some l := by
  simp [flatMembers, h]

theorem flatMembers_pair {g : Nat → Option (List (Leaf d))} {m n : Nat} {l1 l2 : List (Leaf d)}
    (h1 : g m = some l1) (h2 : g n = some l2) : flatMembers g [m, n] = some (l1 ++ l2) := by
  simp [flatMembers, h1, h2]

/-- more fuel never changes a denotation that was already found -/
theorem flat_mono (st : Store d) : ∀ (f r : Nat) (l : List (Leaf d)),
    flat st f r = some l → flat st (f + 1) r = some l := by
  intro f
  induction f with
  | zero => intro r l h; simp [flat] at h
  | succ f ih =>
    intro r l h
    rw [flat] at h ⊢
    cases hc : st[r]? with
    | none => simp [hc] at h
    | some c =>
      cases c with
      | fam t => simpa [hc] using h
      | leaf k => simpa [hc] using h
      | chain ms =>
        simp only [hc] at h ⊢
        exact flatMembers_mono (fun m _ l hl => ih m l hl) h

/-- a store extended by one cell denotes the same at every old reference -/
theorem flat_append (st : Store d) (c : Cell d) (hwf : WF st) : ∀ (f r : Nat), r < st.length →
    flat (st ++ [c]) f r = flat st f r := by
  intro f
  induction f with
  | zero => intro r _; rfl
  | succ f ih =>
    intro r hr
    rw [flat, flat, List.getElem?_append_left hr]
    cases hc : st[r]? with
    | none => rfl
    | some cell =>
      cases cell with
      | fam t => rfl
      | leaf k => rfl
      | chain ms =>
        have hmem : Cell.chain ms ∈ st := List.mem_of_getElem? hc
        have := hwf _ hmem
        simp only [WFCell] at this
        exact flatMembers_congr (fun m hm => ih m (this m hm))

theorem reaches_self (st : Store d) (f a : Nat) : reaches st (f + 1) a a = true := by
  simp [reaches]

/-- updating a cell that flattening never visits does not change the denotation -/
theorem flat_set (st : Store d) (a : Nat) (c : Cell d) : ∀ (f r : Nat),
    reaches st f r a = false → flat (st.set a c) f r = flat st f r := by
  intro f
  induction f with
  | zero => intro r _; rfl
  | succ f ih =>
    intro r hr
    simp only [reaches, Bool.or_eq_false_iff] at hr
    obtain ⟨hne, hrest⟩ := hr
    have hne' : a ≠ r := by
      intro h; subst h; simp at hne
    rw [flat, flat, List.getElem?_set_ne hne']
    cases hc : st[r]? with
    | none => rfl
    | some cell =>
      cases cell with
      | fam t => rfl
      | leaf k => rfl
      | chain ms =>
        simp only [hc, List.any_eq_false] at hrest
        exact flatMembers_congr (fun m hm => ih m (by simpa using hrest m hm))

theorem applyLeaves_append (tbl : ClassTable) (env : Nat → Vec d → Option (Vec d))
    (l1 l2 : List (Leaf d)) (x : Vec d) :
    applyLeaves tbl env (l1 ++ l2) x = (applyLeaves tbl env l1 x).bind (applyLeaves tbl env l2) := by
  induction l1 generalizing x with
  | nil => simp [applyLeaves]
  | cons l ls ih =>
    simp only [List.cons_append, applyLeaves]
    cases applyLeaf tbl env l x with
    | none => rfl
    | some y => simpa using ih y

theorem applyLeaves_single (tbl : ClassTable) (env : Nat → Vec d → Option (Vec d))
    (l : Leaf d) (x : Vec d) : applyLeaves tbl env [l] x = applyLeaf tbl env l x := by
  simp only [applyLeaves]
  cases applyLeaf tbl env l x <;> rfl

end MenpoModel.C03
